/-
Strict round trip (C01/C02), part 6: whatever `search` returns lies in the search space (C13), so
the residual built from it is well-formed and accepted by the strict reader.
-/
import FlacVerif.Lemmas.StrictOfErrors
import FlacVerif.Lemmas.StrictLpc
import FlacVerif.Lemmas.RiceSearchOpt
namespace FlacVerif
namespace Strict
open Rfc RiceSearch

theorem mapM_some_mem {α β : Type} (F : α → Option β) (l : List α) (ys : List β) (hm : l.mapM F = some ys) :
    ∀ x ∈ l, ∃ y, F x = some y := by
  induction l generalizing ys with
  | nil => intro x hx; simp at hx
  | cons a as ih =>
    simp only [List.mapM_cons, Option.pure_def, Option.bind_eq_bind, Option.bind_eq_some_iff,
      Option.some.injEq] at hm
    obtain ⟨y, hy, ys', hys, _⟩ := hm
    intro x hx
    simp only [List.mem_cons] at hx
    rcases hx with rfl | hx
    · exact ⟨y, hy⟩
    · exact ih ys' hys x hx

/-- If the search returns for a list of `i32` errors, no error is `i32::MIN` and the returned choice
lies in the search space. -/
theorem search_space' (errors : List Int) (warm maxP : Nat) (prc : PrcParameter)
    (hfit : ∀ e ∈ errors, fitsI32 e = true) (hn : max 64 warm ≤ errors.length) (hlen : errors.length < 2 ^ 16)
    (hmax : maxP ≤ 14) (h : search errors warm maxP = some prc) :
    (∀ e ∈ errors, -(2 ^ 31 : Int) < e ∧ e < (2 ^ 31 : Int)) ∧ prc.order ≤ 15 ∧
    prc.ps.length = 2 ^ prc.order ∧ 2 ^ prc.order ∣ errors.length ∧
    max 64 warm ≤ errors.length >>> prc.order ∧
    ∀ p ∈ prc.ps, p ≤ 14 := by
  have herr : ∀ e ∈ errors, -(2 ^ 31 : Int) < e ∧ e < (2 ^ 31 : Int) := by
    intro e he
    have hf := (fitsI32_iff e).1 (hfit e he)
    unfold search at h
    simp only [Option.bind_eq_bind, Option.bind_eq_some_iff] at h
    obtain ⟨es, hes, _⟩ := h
    obtain ⟨u, hu⟩ := mapM_some_mem _ _ _ hes e he
    refine ⟨?_, hf.2⟩
    rcases Int.lt_or_eq_of_le hf.1 with hlt | heq
    · exact hlt
    · rw [← heq, encodeSignbit_min] at hu; cases hu
  refine ⟨herr, ?_⟩
  rw [search_eq errors warm maxP herr] at h
  obtain ⟨ofin, r, hr, hiff, ⟨o', ho', hcand⟩, _⟩ := searchFolded_spec (errors.map fold) warm maxP
    (by rw [List.length_map]; exact hn) (by rw [List.length_map]; exact hlen)
  rw [h] at hr
  simp only [Option.some.injEq] at hr
  subst hr
  have hok := (hiff o').2 ho'
  rw [List.length_map, orderOk_iff] at hok
  obtain ⟨h15, hmod, hmul⟩ := hok
  subst hcand
  simp only [candAt]
  refine ⟨h15, psAt_length _ _ _ _, Nat.dvd_of_mod_eq_zero hmod, ?_, ?_⟩
  · rw [Nat.shiftRight_eq_div_pow, Nat.le_div_iff_mul_le (Nat.two_pow_pos _)]
    exact hmul
  · intro p hp
    have := psAt_le _ _ _ _ p hp
    omega

/-- If the search returns for a list of `i32` errors, no error is `i32::MIN` and the returned choice
lies in the search space; in particular every partition holds at least `max 64 warm` values
(`search_space'`), hence at least `warm`. -/
theorem search_space (errors : List Int) (warm maxP : Nat) (prc : PrcParameter)
    (hfit : ∀ e ∈ errors, fitsI32 e = true) (hn : max 64 warm ≤ errors.length) (hlen : errors.length < 2 ^ 16)
    (hmax : maxP ≤ 14) (h : search errors warm maxP = some prc) :
    (∀ e ∈ errors, -(2 ^ 31 : Int) < e ∧ e < (2 ^ 31 : Int)) ∧ prc.order ≤ 15 ∧
    prc.ps.length = 2 ^ prc.order ∧ 2 ^ prc.order ∣ errors.length ∧ warm ≤ errors.length >>> prc.order ∧
    ∀ p ∈ prc.ps, p ≤ 14 := by
  obtain ⟨h1, h2, h3, h4, h5, h6⟩ := search_space' errors warm maxP prc hfit hn hlen hmax h
  exact ⟨h1, h2, h3, h4, by omega, h6⟩

/-- The residual the encoder emits after a successful search is well-formed. -/
theorem residual_wf_of_search (errors : List Int) (warm maxP : Nat) (prc : PrcParameter)
    (hfit : ∀ e ∈ errors, fitsI32 e = true) (hn : max 64 warm ≤ errors.length) (hlen : errors.length < 2 ^ 16)
    (hmax : maxP ≤ 14) (h : search errors warm maxP = some prc) :
    (Residual.ofErrors errors warm prc.order prc.ps).WF := by
  obtain ⟨herr, h15, hpl, hdvd, hw, hp⟩ := search_space errors warm maxP prc hfit hn hlen hmax h
  exact ofErrors_wf errors warm prc.order prc.ps errors.length rfl (by omega) h15 hpl hdvd hw hp herr

/-- The residual the encoder emits after a successful search, for a predictor order below
`MIN_PARTITION_SIZE = 64` (fixed orders are at most 4, LPC orders at most 24): every partition holds at
least 64 values, so the first one is LONGER than the predictor order, as RFC 9639 section 9.2.7 demands,
and the strict reader accepts. (For `warm ≥ 64` the search may return a partition order with
`n >> order = warm` — e.g. `n = warm = 64`, partition order 0 —, which the strict reader rejects; the
encoder never calls the search with such a warm-up length.) -/
theorem residual_of_search (errors : List Int) (warm maxP : Nat) (prc : PrcParameter)
    (hfit : ∀ e ∈ errors, fitsI32 e = true) (hn : max 64 warm ≤ errors.length) (hlen : errors.length < 2 ^ 16)
    (hmax : maxP ≤ 14) (hw64 : warm < 64) (h : search errors warm maxP = some prc) (k : Bits) :
    (Residual.ofErrors errors warm prc.order prc.ps).WF ∧
    readResidual errors.length warm ((Residual.ofErrors errors warm prc.order prc.ps).bits ++ k) =
      .ok (⟨prc.order, prc.ps, errors.drop warm⟩, k) := by
  obtain ⟨herr, h15, hpl, hdvd, hw, hp⟩ := search_space' errors warm maxP prc hfit hn hlen hmax h
  exact readResidual_ofErrors errors warm prc.order prc.ps errors.length rfl (by omega) h15 hpl hdvd (by omega) hp herr k

end Strict
end FlacVerif
