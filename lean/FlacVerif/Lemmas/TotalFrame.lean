/-
Totality of the functional encoder (C07, second half), part 3: `encode_frame` (per-channel loop, the
stereo trial with its two extra sub-frames, the frame header).
-/
import FlacVerif.Lemmas.TotalSubframe
import FlacVerif.Lemmas.StrictFrame
namespace FlacVerif
namespace Total
open Strict

/-- The log supplies, in order, what the per-channel loop asks for. -/
def ChansLogOk (cfg : SubCfg) : List (List Int) → List OEvent → Prop
  | [], _ => True
  | c :: cs, log => SubLogOk cfg c log ∧ ChansLogOk cfg cs (log.drop (subTake cfg c))

/-- Number of oracle events the per-channel loop consumes. -/
def chansTake (cfg : SubCfg) : List (List Int) → Nat
  | [] => 0
  | c :: cs => subTake cfg c + chansTake cfg cs

/-- The two extra channels of the stereo trial (none unless there are exactly two channels). -/
def msOf : List (List Int) → List (List Int)
  | [l, r] => [midOf l r, sideOf l r]
  | _ => []

/-- Number of oracle events `encode_frame` consumes. -/
def frameTake (cfg : SubCfg) (chans : List (List Int)) : Nat :=
  chansTake cfg chans + chansTake cfg (msOf chans)

/-- The log supplies what `encode_frame` asks for: the channels, then (stereo) mid and side. -/
def FrameLogOk (cfg : SubCfg) (chans : List (List Int)) (log : List OEvent) : Prop :=
  ChansLogOk cfg chans log ∧ ChansLogOk cfg (msOf chans) (log.drop (chansTake cfg chans))

theorem encodeChannels_total (cfg : SubCfg) (asg : ChannelAssignment) (bps n : Nat) (hn : n < 2 ^ 16) :
    ∀ (chans : List (List Int)) (ch : Nat) (log : List OEvent),
      (∀ c ∈ chans, c.length = n) →
      (∀ i (h : i < chans.length), 1 ≤ bps + asg.bpsOffset (ch + i) ∧ bps + asg.bpsOffset (ch + i) ≤ 25 ∧
        ∀ x ∈ chans[i], SubFrame.inRange (bps + asg.bpsOffset (ch + i)) x = true) →
      (∀ e ∈ log, e.Ok) → ChansLogOk cfg chans log →
      ∃ subs, encodeChannels cfg asg bps chans ch log = some (subs, log.drop (chansTake cfg chans)) ∧
        subs.length = chans.length := by
  intro chans
  induction chans with
  | nil => intro ch log _ _ _ _; exact ⟨[], rfl, rfl⟩
  | cons c cs ih =>
    intro ch log hlen hrng hok hshape
    obtain ⟨hs1, hs2⟩ := hshape
    obtain ⟨hb1, hb25, hx⟩ := hrng 0 (by simp)
    simp only [Nat.add_zero, List.getElem_cons_zero] at hb1 hb25 hx
    obtain ⟨s, hs⟩ := encodeSubframe_total cfg c _ log (by rw [hlen c (by simp)]; exact hn) ⟨hb1, hb25⟩ hx hok hs1
    obtain ⟨ss, hss, hl⟩ := ih (ch + 1) (log.drop (subTake cfg c)) (fun x hx => hlen x (by simp [hx]))
      (fun i hi => by
        have := hrng (i + 1) (by simp; omega)
        simp only [List.getElem_cons_succ] at this
        rw [show ch + (i + 1) = ch + 1 + i by omega] at this
        exact this)
      (fun e he => hok e (List.mem_of_mem_drop he)) hs2
    refine ⟨s :: ss, ?_, by simp [hl]⟩
    simp only [encodeChannels, hs, hss, Option.bind_eq_bind, Option.bind_some, List.drop_drop, chansTake]

theorem fromSize_some (n : Nat) (hn : 1 ≤ n) : ∃ bss, BlockSizeSpec.fromSize n = some bss := by
  unfold BlockSizeSpec.fromSize
  split
  · exact ⟨_, rfl⟩
  · split
    · exact ⟨_, rfl⟩
    · split
      · exact ⟨_, rfl⟩
      · split
        · omega
        · split <;> exact ⟨_, rfl⟩

theorem headerFor_some (asg : ChannelAssignment) (n bps rate number : Nat) (hn : 1 ≤ n) :
    ∃ h, headerFor asg n bps rate number = some h := by
  obtain ⟨bss, hb⟩ := fromSize_some n hn
  unfold headerFor
  simp only [hb, Option.bind_eq_bind, Option.bind_some]
  exact ⟨_, rfl⟩

/-- Frame totality (see `C07_frame_total`). -/
theorem encodeFrame_total (cfg : SubCfg) (st : StereoCfg) (chans : List (List Int)) (bps rate number n : Nat)
    (log : List OEvent)
    (hch : 1 ≤ chans.length) (hlen : ∀ c ∈ chans, c.length = n) (hn : 1 ≤ n ∧ n < 2 ^ 16)
    (hb : 1 ≤ bps ∧ bps ≤ 24) (hx : ∀ c ∈ chans, ∀ x ∈ c, SubFrame.inRange bps x = true)
    (hok : ∀ e ∈ log, e.Ok) (hshape : FrameLogOk cfg chans log) :
    ∃ f, encodeFrame cfg st chans bps rate number log = some (f, log.drop (frameTake cfg chans)) := by
  have hhead : (chans.headD []).length = n := by
    cases chans with
    | nil => simp at hch
    | cons c cs => exact hlen c (by simp)
  obtain ⟨hs1, hs2⟩ := hshape
  obtain ⟨indep, hi, hil⟩ := encodeChannels_total cfg (.independent chans.length) bps n hn.2 chans 0 log hlen
    (fun i hi' => ⟨by simp [ChannelAssignment.bpsOffset]; omega, by simp [ChannelAssignment.bpsOffset]; omega,
      by simpa [ChannelAssignment.bpsOffset] using hx _ (List.getElem_mem hi')⟩) hok hs1
  unfold encodeFrame
  simp only [hi, Option.bind_some, hhead]
  match chans, indep, hil, hlen, hx, hs1, hs2, hi with
  | [l, r], [sl, sr], _, hlen, hx, _, hs2, _ =>
    have hll : l.length = n := hlen l (by simp)
    have hrl : r.length = n := hlen r (by simp)
    obtain ⟨hmidr, hsider⟩ := midSide_range bps hb.1 l r (hx l (by simp)) (hx r (by simp))
    obtain ⟨msSubs, hm, hml⟩ := encodeChannels_total cfg .midSide bps n hn.2
      [midOf l r, sideOf l r] 0 (log.drop (chansTake cfg [l, r]))
      (by
        intro c hc
        simp only [List.mem_cons, List.not_mem_nil, or_false] at hc
        rcases hc with rfl | rfl <;> simp [hll, hrl])
      (two_facts (fun i c => 1 ≤ bps + ChannelAssignment.midSide.bpsOffset (0 + i) ∧
          bps + ChannelAssignment.midSide.bpsOffset (0 + i) ≤ 25 ∧
          ∀ x ∈ c, SubFrame.inRange (bps + ChannelAssignment.midSide.bpsOffset (0 + i)) x = true) _ _
        ⟨by simp [ChannelAssignment.bpsOffset]; omega, by simp [ChannelAssignment.bpsOffset]; omega,
          by simpa [ChannelAssignment.bpsOffset] using hmidr⟩
        ⟨by simp [ChannelAssignment.bpsOffset], by simp [ChannelAssignment.bpsOffset]; omega,
          by simpa [ChannelAssignment.bpsOffset] using hsider⟩)
      (fun e he => hok e (List.mem_of_mem_drop he)) hs2
    match msSubs, hml, hm with
    | [sm, ss], _, hm =>
      obtain ⟨h, hh⟩ := headerFor_some (chooseStereo st (cnt sl) (cnt sr) (cnt sm) (cnt ss)) n bps rate number hn.1
      simp only [hm, Option.bind_some, hh, Option.map_some, frameTake, msOf, List.drop_drop]
      exact ⟨_, rfl⟩
  | [], _, _, _, _, _, _, _ => simp at hch
  | [c], indep, _, _, _, _, _, _ =>
    obtain ⟨h, hh⟩ := headerFor_some (.independent 1) n bps rate number hn.1
    simp only [List.length_cons, List.length_nil, Nat.zero_add, Nat.reduceEqDiff, if_false, hh, Option.map_some,
      frameTake, msOf, chansTake, Nat.add_zero]
    exact ⟨_, rfl⟩
  | c0 :: c1 :: c2 :: cs, indep, _, _, _, _, _, _ =>
    obtain ⟨h, hh⟩ := headerFor_some (.independent (c0 :: c1 :: c2 :: cs).length) n bps rate number hn.1
    have hne : ¬ ((c0 :: c1 :: c2 :: cs).length = 2) := by simp
    simp only [hne, if_false, hh, Option.map_some, frameTake, msOf, chansTake, Nat.add_zero]
    exact ⟨_, rfl⟩

end Total
end FlacVerif
