/-
Strict round trip (C01/C02), part 10: `Rfc.readFrame` cut into pieces. Every piece is a verbatim
copy of the corresponding part of `readFrame`; `readFrame_eq` (proved by unfolding and `rfl`) shows
that the composition IS `readFrame`, and `frameLoop_eq` replaces the `for … in [0:nch]` loop with
its mutable state by a structurally recursive reader of the sub-frames.
-/
import FlacVerif.Lemmas.StrictSubframe
namespace FlacVerif
namespace Strict
open Rfc

/-- Body of the channel loop of `readFrame`; the state is `(rest, subs)`. -/
def frameLoopBody (n b chCode : Nat) (ch : Nat) (st : Bits × List SubRep) : R (ForInStep (Bits × List SubRep)) :=
  let rest := st.fst
  let subs := st.snd
  let wb := if (chCode = 8 ∧ ch = 1) ∨ (chCode = 9 ∧ ch = 0) ∨ (chCode = 10 ∧ ch = 1) then b + 1 else b
  do
    let (s, t) ← readSubframe n wb rest
    let subs := s :: subs
    let rest := t
    pure (ForInStep.yield (rest, subs))

/-- What `readFrame` does after the channel loop. -/
def frameTail (total : Nat) (bytes : List Nat) (number n b chCode bsCode srCode ssCode : Nat)
    (st : Bits × List SubRep) : R (FrameRep × List Nat × Bits) := do
  let rest := st.fst
  let subs := st.snd
  let subsR := subs.reverse
  let consumed := total - rest.length
  let padLen := (8 - consumed % 8) % 8
  let (pad, rest2) ← takeBits padLen rest "frame padding"
  if pad.any id then throw "frame: non-zero padding bits"
  let bodyLen := (consumed + padLen) / 8
  let (crc16, rest3) ← readNat 16 rest2 "frame CRC"
  if crc rfcCrc16 (bytes.take bodyLen) ≠ crc16 then throw "frame: CRC-16 mismatch"
  let raw := subsR.map (·.samples)
  let chans : List (List Int) :=
    if chCode < 8 then raw
    else
      let a := raw.getD 0 []
      let c := raw.getD 1 []
      let pairs := List.zipWith (fun x y =>
        if chCode = 8 then unLeftSide x y else if chCode = 9 then unRightSide x y else unMidSide x y) a c
      [pairs.map (·.1), pairs.map (·.2)]
  if chans.any (fun c => c.any (fun x => !Rfc.inRange b x)) then throw "frame: decoded sample outside the stream's sample width"
  pure (⟨number, n, bodyLen + 2, chCode, bsCode, srCode, ssCode, subsR, chans⟩, bytes.drop (bodyLen + 2), rest3)

/-- `readFrame` from the header CRC to the channel loop. -/
def frameBody (info : Info) (total : Nat) (bytes : List Nat) (number bsCode srCode chCode ssCode bsExtra srExtra : Nat)
    (bs : Bits) : R (FrameRep × List Nat × Bits) := do
  let headerLen := (total - bs.length) / 8
  let (crc8, bs) ← readNat 8 bs "header CRC"
  if crc rfcCrc8 (bytes.take headerLen) ≠ crc8 then throw "frame: header CRC-8 mismatch"
  let n ← match blockSizeOfCode bsCode bsExtra with
    | some n => pure n
    | none => throw "frame: reserved block size"
  if n = 0 ∨ n > 65535 then throw "frame: block size out of range"
  let rate ← match rateOfCode srCode srExtra info.rate with
    | some r => pure r
    | none => throw "frame: invalid sample rate"
  if rate ≠ info.rate then throw "frame: sample rate differs from STREAMINFO"
  let b ← match bpsOfCode ssCode info.bps with
    | some b => pure b
    | none => throw "frame: invalid sample size"
  if b ≠ info.bps then throw "frame: sample size differs from STREAMINFO"
  let nch := if chCode < 8 then chCode + 1 else 2
  if nch ≠ info.channels then throw "frame: channel count differs from STREAMINFO"
  let st ← forIn [0:nch] (bs, ([] : List SubRep)) (frameLoopBody n b chCode)
  frameTail total bytes number n b chCode bsCode srCode ssCode st

/-- `readFrame` from the coded number to the header CRC. -/
def frameNum (info : Info) (index total : Nat) (bytes : List Nat) (bsCode srCode chCode ssCode : Nat)
    (bs : Bits) : R (FrameRep × List Nat × Bits) := do
  let numBytes := bytes.drop 4
  let (number, used) ← match decodeUtf8like numBytes with
    | some r => pure r
    | none => throw "frame: malformed or non-canonical coded number"
  if number ≥ 2 ^ 31 then throw "frame: frame number does not fit 31 bits"
  if number ≠ index then throw s!"frame: frame number {number} out of sequence (expected {index})"
  let bs := bs.drop (8 * used)
  let (bsExtra, bs) ← if bsCode = 6 then readNat 8 bs "block size byte" else if bsCode = 7 then readNat 16 bs "block size word" else pure (0, bs)
  let (srExtra, bs) ← if srCode = 12 then readNat 8 bs "sample rate byte" else if srCode = 13 ∨ srCode = 14 then readNat 16 bs "sample rate word" else pure (0, bs)
  frameBody info total bytes number bsCode srCode chCode ssCode bsExtra srExtra bs

/-- `readFrame` is the composition of the pieces (definitional). -/
theorem readFrame_eq (info : Info) (index : Nat) (bytes : List Nat) (bs : Bits) :
    readFrame info index bytes bs = (do
      let (sync, bs1) ← readNat 15 bs "frame sync"
      if sync ≠ 0x7FFC then throw "frame: lost sync (or reserved bit set)"
      let (blocking, bs2) ← readNat 1 bs1 "blocking strategy"
      if blocking ≠ 0 then throw "frame: variable-blocksize strategy bit set (encoder is fixed-blocksize)"
      let (bsCode, bs3) ← readNat 4 bs2 "block size code"
      if bsCode = 0 then throw "frame: reserved block size code 0000"
      let (srCode, bs4) ← readNat 4 bs3 "sample rate code"
      if srCode = 15 then throw "frame: invalid sample rate code 1111"
      let (chCode, bs5) ← readNat 4 bs4 "channel assignment"
      if chCode > 10 then throw "frame: reserved channel assignment"
      let (ssCode, bs6) ← readNat 3 bs5 "sample size code"
      if ssCode = 3 then throw "frame: reserved sample size code 011"
      let (rsv, bs7) ← readNat 1 bs6 "reserved bit"
      if rsv ≠ 0 then throw "frame: reserved bit set"
      frameNum info index bs.length bytes bsCode srCode chCode ssCode bs7) := by
  unfold readFrame frameNum frameBody frameTail frameLoopBody
  rfl

end Strict
end FlacVerif
