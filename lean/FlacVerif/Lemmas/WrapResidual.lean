/-
Wrapping decoder (C01, release build), part 2: `Residual::copy_signal` of the repository's decoder
(`Repo.residualSignal`, either build mode) on the residual component the encoder builds
(`Residual.ofErrors`) returns the prediction errors (zero on the warm-up) and hits no panic site.
-/
import FlacVerif.Lemmas.WrapArith
import FlacVerif.Lemmas.StrictOfErrors
namespace FlacVerif
namespace Wrap
open Repo

theorem decodeSignbitD_ok (debug : Bool) (v : Nat) (h : v < 2 ^ 32 - 1) : decodeSignbitD debug v = .ok (unfold v) := by
  unfold decodeSignbitD FlacVerif.unfold
  split
  · simp only []
    rw [asSigned32_eq_wrap32, wrap32_id _ (by omega) (by omega)]
    exact i32op_inRange debug _ _ (by omega) (by omega)
  · rw [asSigned32_eq_wrap32, wrap32_id _ (by omega) (by omega)]

theorem residualSignalLoop_ok (debug : Bool) (params : List Nat) (partLen : Nat) :
    ∀ (n : Nat) (qs rs : List Nat) (t : Nat), n ≤ qs.length → n ≤ rs.length →
    (∀ i, i < n → (t + i) / partLen < params.length ∧ params.getD ((t + i) / partLen) 0 < 32 ∧
      qs.getD i 0 * 2 ^ params.getD ((t + i) / partLen) 0 + rs.getD i 0 < 2 ^ 32 - 1) →
    residualSignalLoop debug params partLen qs rs n t =
      .ok ((List.range n).map fun i =>
        unfold (qs.getD i 0 * 2 ^ params.getD ((t + i) / partLen) 0 + rs.getD i 0)) := by
  intro n
  induction n with
  | zero => intro qs rs t _ _ _; rfl
  | succ n ih =>
    intro qs rs t hq hr h
    match qs, rs, hq, hr with
    | q :: qs', r :: rs', hq, hr =>
      have h0 := h 0 (by omega)
      rw [Nat.add_zero] at h0
      obtain ⟨hi, hp, hv⟩ := h0
      simp only [List.getD_cons_zero] at hv
      have hidx : params[t / partLen]? = some (params.getD (t / partLen) 0) := by
        rw [List.getD_eq_getElem?_getD, List.getElem?_eq_getElem hi]; rfl
      have hq32 : q * 2 ^ params.getD (t / partLen) 0 < 2 ^ 32 := by omega
      have ih' := ih qs' rs' (t + 1) (by simpa using hq) (by simpa using hr) (fun i hi' => by
        have := h (i + 1) (by omega)
        simpa [show t + (i + 1) = t + 1 + i by omega] using this)
      unfold residualSignalLoop
      simp only [idx, hidx, DResult.ok_bind, if_pos hp, Nat.mod_eq_of_lt hq32,
        if_pos (show q * 2 ^ params.getD (t / partLen) 0 + r < 2 ^ 32 by omega), decodeSignbitD_ok debug _ hv,
        List.tail_cons, ih', DResult.pure_eq]
      rw [List.range_succ_eq_map, List.map_cons, List.map_map]
      simp only [List.getD_cons_zero, Nat.add_zero, Function.comp_def, List.getD_cons_succ]
      congr 2
      apply List.map_congr_left
      intro i _
      rw [show t + 1 + i = t + (i + 1) by omega]

/-- `Residual::copy_signal` on the encoder's residual component, in either build mode. -/
theorem residualSignal_ofErrors (debug : Bool) (errors : List Int) (w o : Nat) (ps : List Nat)
    (hpos : 0 < errors.length) (ho : o ≤ 15) (hps : ps.length = 2 ^ o) (hdvd : 2 ^ o ∣ errors.length)
    (hp : ∀ p ∈ ps, p ≤ 14)
    (herr : ∀ e ∈ errors, -(2 ^ 31 : Int) < e ∧ e < (2 ^ 31 : Int)) :
    residualSignal debug (Residual.ofErrors errors w o ps) =
      .ok ((List.range errors.length).map fun t => if t < w then 0 else errors.getD t 0) := by
  have hpar : ps.take (2 ^ o) = ps := List.take_of_length_le (by omega)
  have hfull : 2 ^ o * (errors.length / 2 ^ o) = errors.length := Nat.mul_div_cancel' hdvd
  have hpl : 0 < errors.length / 2 ^ o := by
    rcases Nat.eq_zero_or_pos (errors.length / 2 ^ o) with h0 | h0
    · rw [h0] at hfull; omega
    · exact h0
  have hql : (Residual.ofErrors errors w o ps).quotients.length = errors.length := by simp [Residual.ofErrors]
  have hrl : (Residual.ofErrors errors w o ps).remainders.length = errors.length := by simp [Residual.ofErrors]
  unfold residualSignal
  rw [Strict.ofErrors_order, Strict.ofErrors_blockSize, if_pos (by omega : o < 64)]
  simp only [DResult.ok_bind]
  rw [if_neg (by omega)]
  rw [Strict.ofErrors_params, hpar]
  have hshift : errors.length >>> o = errors.length / 2 ^ o := Nat.shiftRight_eq_div_pow _ _
  have hidx : ∀ t, t < errors.length → t / (errors.length / 2 ^ o) < 2 ^ o := by
    intro t ht
    rw [Nat.div_lt_iff_lt_mul hpl, hfull]
    exact ht
  have hp14 : ∀ j, ps.getD j 0 ≤ 14 := by
    intro j
    by_cases hj : j < ps.length
    · rw [List.getD_eq_getElem?_getD, List.getElem?_eq_getElem hj]
      exact hp _ (List.getElem_mem hj)
    · rw [List.getD_eq_getElem?_getD, List.getElem?_eq_none (by omega)]; simp
  have hval : ∀ t, t < errors.length →
      (Residual.ofErrors errors w o ps).quotients.getD t 0 * 2 ^ ps.getD (t / (errors.length / 2 ^ o)) 0 +
        (Residual.ofErrors errors w o ps).remainders.getD t 0 =
      if t < w then 0 else fold (errors.getD t 0) := by
    intro t ht
    rw [Strict.ofErrors_quot _ _ _ _ _ ht, Strict.ofErrors_rem _ _ _ _ _ ht, hshift]
    split
    · simp
    · have he := herr _ (Strict.getD_mem_int errors t ht)
      rw [encodeSignbit_eq_fold _ he.1 he.2, Option.getD_some, Strict.rice_split]
  rw [residualSignalLoop_ok debug ps _ errors.length _ _ 0 (by omega) (by omega)]
  · congr 1
    apply List.map_congr_left
    intro t ht
    rw [List.mem_range] at ht
    rw [Nat.zero_add, hval t ht]
    split
    · rfl
    · exact unfold_fold _
  · intro t ht
    rw [Nat.zero_add, hval t ht]
    refine ⟨by rw [hps]; exact hidx t ht, by have := hp14 (t / (errors.length / 2 ^ o)); omega, ?_⟩
    split
    · decide
    · have he := herr _ (Strict.getD_mem_int errors t ht)
      unfold fold
      split <;> omega

end Wrap
end FlacVerif
