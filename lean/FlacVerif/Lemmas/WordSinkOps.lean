/-
Per-operation refinement of `MemSink<u64>` against the ideal bit string.
-/
import FlacVerif.Lemmas.WordSink
namespace FlacVerif

/-- `bitAt'` extends `bitAt` (valid up to `len`) by `bits`, and is zero afterwards. -/
def Appends (bitAt bitAt' : Nat → Bool) (len : Nat) (bits : Bits) : Prop :=
  ∀ i, bitAt' i = if i < len then bitAt i else bits.getD (i - len) false

namespace WordSink

/-- One refinement step: result state, its length, its storage size, its bits. -/
structure Refines (s : WordSink) (s' : WordSink) (bits : Bits) : Prop where
  len : s'.len = s.len + bits.length
  size : s'.storage.length = (s'.len + 63) / 64
  bits : Appends s.bitAt s'.bitAt s.len bits

theorem Refines.inv {s s' : WordSink} {bits : Bits} (h : Refines s s' bits) : s'.Inv := by
  refine ⟨h.size, fun i hi => ?_⟩
  rw [h.bits i, h.len] at *
  have : ¬ i < s.len := by omega
  simp only [this, ↓reduceIte]
  rw [List.getD_eq_getElem?_getD, List.getElem?_eq_none (by omega)]; rfl

theorem Refines.abs {s s' : WordSink} {bits : Bits} (h : Refines s s' bits) :
    s'.abs = s.abs ++ bits := by
  apply List.ext_getElem
  · simp [WordSink.abs, h.len]
  · intro i h1 h2
    simp only [WordSink.abs, List.length_map, List.length_range] at h1
    simp only [WordSink.abs, List.getElem_map, List.getElem_range]
    rw [h.bits i]
    by_cases hi : i < s.len
    · simp only [hi, ↓reduceIte]
      rw [List.getElem_append_left (by simpa [WordSink.abs] using hi)]
      simp
    · simp only [hi, ↓reduceIte]
      rw [List.getElem_append_right (by simpa [WordSink.abs] using hi)]
      simp only [List.length_map, List.length_range]
      rw [List.getD_eq_getElem?_getD, List.getElem?_eq_getElem (by rw [h.len] at h1; omega)]
      rfl

theorem Refines.trans {s s' s'' : WordSink} {b1 b2 : Bits} (h1 : Refines s s' b1) (h2 : Refines s' s'' b2) :
    Refines s s'' (b1 ++ b2) := by
  refine ⟨by rw [h2.len, h1.len, List.length_append]; omega, h2.size, fun i => ?_⟩
  rw [h2.bits i, h1.bits, h1.len]
  by_cases hi : i < s.len
  · have : i < s.len + b1.length := by omega
    simp [hi, this]
  · by_cases hi2 : i < s.len + b1.length
    · simp only [hi, hi2, ↓reduceIte]
      rw [List.getD_eq_getElem?_getD, List.getD_eq_getElem?_getD, List.getElem?_append_left (by omega)]
    · simp only [hi, hi2, ↓reduceIte]
      rw [List.getD_eq_getElem?_getD, List.getD_eq_getElem?_getD, List.getElem?_append_right (by omega)]
      congr 2; omega

theorem Refines.refl (s : WordSink) (hs : s.Inv) : Refines s s [] := by
  refine ⟨rfl, hs.size, fun i => ?_⟩
  by_cases hi : i < s.len
  · simp [hi]
  · simp [hi, hs.tail i (by omega)]

/-- `write_msbs_impl` refines, for a top-aligned operand whose payload is its `n` MSBs. -/
theorem writeMsbsImpl_refines (s : WordSink) (hs : s.Inv) (val : BitVec 64) (n : Nat) (hn64 : n ≤ 64)
    (hval : ∀ j, n ≤ j → val.getMsbD j = false) (bits : Bits) (hlen : bits.length = n)
    (hbits : ∀ j, j < n → bits.getD j false = val.getMsbD j) :
    Refines s (s.writeMsbsImpl val n) bits := by
  obtain ⟨h1, h2, h3⟩ := writeMsbsImpl_spec s hs val n hn64 hval
  refine ⟨by rw [h1, hlen], by rw [h2, h1], fun i => ?_⟩
  rw [h3 i]
  by_cases hi : i < s.len
  · simp [hi]
  · simp only [hi, ↓reduceIte]
    by_cases hj : i - s.len < n
    · rw [hbits _ hj]
    · rw [hval _ (by omega), List.getD_eq_getElem?_getD, List.getElem?_eq_none (by omega)]; rfl

theorem getMsbD_ofNat' (w v j : Nat) : (BitVec.ofNat w v).getMsbD j = (decide (j < w) && v.testBit (w - 1 - j)) := by
  simp only [BitVec.getMsbD, BitVec.getLsbD_ofNat]
  by_cases hj : j < w
  · have : w - 1 - j < w := by omega
    simp [hj, this]
  · simp [hj]

theorem natToBits_getD (w v j : Nat) (hj : j < w) : (natToBits w v).getD j false = v.testBit (w - 1 - j) := by
  rw [List.getD_eq_getElem?_getD, List.getElem?_eq_getElem (by simpa using hj)]
  simp [getElem_natToBits]

theorem writeMsbs_refines (s : WordSink) (hs : s.Inv) (w v n : Nat) (hw : validWidth w = true) (hn : n ≤ w) :
    ∃ s', s.writeMsbs (BitVec.ofNat w v) n = some s' ∧ Refines s s' ((natToBits w v).take n) := by
  have hw64 : w ≤ 64 := by
    simp [validWidth] at hw; omega
  by_cases h0 : n = 0
  · subst h0
    exact ⟨s, by simp [writeMsbs], by simpa using Refines.refl s hs⟩
  · obtain ⟨m, hm, hmb⟩ := maskMsbs_spec (BitVec.ofNat w v) n (by omega) hn
    refine ⟨s.writeMsbsImpl (widen m) n, by simp [writeMsbs, h0, hm, bind, Option.bind], ?_⟩
    apply writeMsbsImpl_refines s hs _ n (by omega)
    · intro j hj
      rw [getMsbD_widen hw64, hmb]
      simp [show ¬ j < n by omega]
    · simp [List.length_take]; omega
    · intro j hj
      rw [getMsbD_widen hw64, hmb, getMsbD_ofNat']
      rw [List.getD_eq_getElem?_getD, List.getElem?_take_of_lt hj, ← List.getD_eq_getElem?_getD,
        natToBits_getD w v j (by omega)]
      simp [hj, show j < w by omega]

theorem writeLsbs_refines (s : WordSink) (hs : s.Inv) (w v n : Nat) (hw : validWidth w = true) (hn : n ≤ w) :
    ∃ s', s.writeLsbs (BitVec.ofNat w v) n = some s' ∧ Refines s s' (natToBits n v) := by
  have hw64 : w ≤ 64 := by
    simp [validWidth] at hw; omega
  by_cases h0 : n = 0
  · subst h0
    exact ⟨s, by simp [writeLsbs], by simpa [natToBits] using Refines.refl s hs⟩
  · have hk : w - n < w := by omega
    refine ⟨s.writeMsbsImpl (widen (BitVec.ofNat w v <<< (w - n))) n,
      by simp [writeLsbs, h0, chkSub, chkShl, hn, hk, bind, Option.bind], ?_⟩
    apply writeMsbsImpl_refines s hs _ n (by omega)
    · intro j hj
      rw [getMsbD_widen hw64, BitVec.getMsbD_shiftLeft, BitVec.getMsbD_of_ge _ _ (by omega)]
    · simp
    · intro j hj
      rw [getMsbD_widen hw64, BitVec.getMsbD_shiftLeft, getMsbD_ofNat', natToBits_getD n v j hj]
      have : j + (w - n) < w := by omega
      simp only [this, decide_true, Bool.true_and]
      congr 1; omega

theorem alignToByte_refines (s : WordSink) (hs : s.Inv) :
    Refines s s.alignToByte (List.replicate ((8 - s.len % 8) % 8) false) := by
  refine ⟨by simp [alignToByte, paddingsToByte], ?_, fun i => ?_⟩
  · have := hs.size
    simp only [alignToByte, paddingsToByte]; omega
  · by_cases hi : i < s.len
    · simp [hi, alignToByte, bitAt]
    · have := hs.tail i (by omega)
      simp only [bitAt] at this
      simp only [hi, ↓reduceIte, alignToByte, bitAt, this]
      rw [List.getD_eq_getElem?_getD]
      cases h : (List.replicate ((8 - s.len % 8) % 8) false)[i - s.len]? with
      | none => rfl
      | some b =>
        have := List.getElem?_replicate ▸ h
        split at this <;> simp_all

theorem writeZeros_refines (s : WordSink) (hs : s.Inv) (n : Nat) :
    Refines s (s.writeZeros n) (List.replicate n false) := by
  have hsz := hs.size
  refine ⟨by simp [writeZeros], ?_, fun i => ?_⟩
  · simp only [writeZeros, paddings, List.length_append, List.length_replicate]; omega
  · have hrep : (List.replicate n false).getD (i - s.len) false = false := by
      rw [List.getD_eq_getElem?_getD]
      cases h : (List.replicate n false)[i - s.len]? with
      | none => rfl
      | some b =>
        have := List.getElem?_replicate ▸ h
        split at this <;> simp_all
    by_cases hi : i < s.len
    · have : i / 64 < s.storage.length := by omega
      simp [hi, writeZeros, bitAt, List.getElem?_append_left this]
    · simp only [hi, ↓reduceIte, hrep, writeZeros, bitAt]
      by_cases hlt : i / 64 < s.storage.length
      · rw [List.getElem?_append_left hlt]
        have := hs.tail i (by omega)
        simpa [bitAt] using this
      · rw [List.getElem?_append_right (by omega)]
        cases h : (List.replicate ((n - s.paddings + 63) / 64) (0 : BitVec 64))[i / 64 - s.storage.length]? with
        | none => simp
        | some b =>
          have := List.getElem?_replicate ▸ h
          split at this
          · simp at this; subst this; simp
          · simp at this

end WordSink
end FlacVerif
