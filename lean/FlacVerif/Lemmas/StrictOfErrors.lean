/-
Strict round trip (C01/C02), part 3: the residual the encoder builds from a list of prediction
errors (`Residual.ofErrors`) is well-formed, is accepted by the strict reader, and decodes to the
errors after the warm-up.
-/
import FlacVerif.Lemmas.StrictResidual
import FlacVerif.Lemmas.Predict
namespace FlacVerif
namespace Strict
open Rfc

theorem getD_map_range {α : Type} (f : Nat → α) (n t : Nat) (d : α) (ht : t < n) :
    ((List.range n).map f).getD t d = f t := by
  rw [List.getD_eq_getElem?_getD, List.getElem?_map, List.getElem?_range ht]
  rfl

theorem map_getD_range' (l : List Int) (s c : Nat) (h : s + c = l.length) :
    (List.range' s c).map (fun t => l.getD t 0) = l.drop s := by
  induction c generalizing s with
  | zero => rw [List.drop_of_length_le (by omega)]; rfl
  | succ c ih =>
    rw [List.range'_succ, List.map_cons, ih (s + 1) (by omega)]
    have ht : s < l.length := by omega
    rw [List.getD_eq_getElem?_getD, List.getElem?_eq_getElem ht]
    simp only [Option.getD_some]
    exact (List.drop_eq_getElem_cons ht).symm

theorem rice_split (p u : Nat) : (u >>> p) * 2 ^ p + u % 2 ^ p = u := by
  rw [Nat.shiftRight_eq_div_pow, Nat.mul_comm]; exact Nat.div_add_mod u (2 ^ p)

theorem getD_mem_int (l : List Int) (t : Nat) (ht : t < l.length) : l.getD t 0 ∈ l := by
  rw [List.getD_eq_getElem?_getD, List.getElem?_eq_getElem ht]
  simp

section
variable (errors : List Int) (w o : Nat) (ps : List Nat)

theorem ofErrors_order : (Residual.ofErrors errors w o ps).order = o := rfl
theorem ofErrors_blockSize : (Residual.ofErrors errors w o ps).blockSize = errors.length := rfl
theorem ofErrors_warmup : (Residual.ofErrors errors w o ps).warmup = w := rfl
theorem ofErrors_params : (Residual.ofErrors errors w o ps).params = ps.take (2 ^ o) := rfl
theorem ofErrors_partLen : (Residual.ofErrors errors w o ps).partLen = errors.length >>> o := rfl

theorem ofErrors_quot (t : Nat) (ht : t < errors.length) :
    (Residual.ofErrors errors w o ps).quotients.getD t 0 =
      if t < w then 0 else
        ((encodeSignbit (errors.getD t 0)).getD 0) >>> (ps.getD (t / (errors.length >>> o)) 0) := by
  unfold Residual.ofErrors
  simp only [List.map_map]
  rw [getD_map_range _ _ _ _ ht]
  simp only [Function.comp]
  split <;> rfl

theorem ofErrors_rem (t : Nat) (ht : t < errors.length) :
    (Residual.ofErrors errors w o ps).remainders.getD t 0 =
      if t < w then 0 else
        ((encodeSignbit (errors.getD t 0)).getD 0) % 2 ^ (ps.getD (t / (errors.length >>> o)) 0) := by
  unfold Residual.ofErrors
  simp only [List.map_map]
  rw [getD_map_range _ _ _ _ ht]
  simp only [Function.comp]
  split <;> rfl

end

/-- The residual component built from prediction errors strictly inside `(-2^31, 2^31)` and a choice
`(o, ps)` with `w ≤ n >> o` is well-formed. -/
theorem ofErrors_wf (errors : List Int) (w o : Nat) (ps : List Nat) (n : Nat)
    (hn : errors.length = n) (hpos : 0 < n) (ho : o ≤ 15) (hps : ps.length = 2 ^ o) (hdvd : 2 ^ o ∣ n)
    (hw : w ≤ n >>> o) (hp : ∀ p ∈ ps, p ≤ 14)
    (herr : ∀ e ∈ errors, -(2 ^ 31 : Int) < e ∧ e < (2 ^ 31 : Int)) :
    (Residual.ofErrors errors w o ps).WF := by
  subst hn
  have hpar : ps.take (2 ^ o) = ps := List.take_of_length_le (by omega)
  refine ⟨ho, ?_, hdvd, hw, hpos, ?_, ?_, ?_, ?_, ?_⟩
  · rw [ofErrors_params, hpar, ofErrors_order]; exact hps
  · simp [Residual.ofErrors]
  · simp [Residual.ofErrors]
  · rw [ofErrors_params, hpar]; exact hp
  · intro t ht
    have htl : t < errors.length := by
      have h1 : errors.length >>> o ≤ errors.length := by
        rw [Nat.shiftRight_eq_div_pow]; exact Nat.div_le_self _ _
      rw [ofErrors_warmup] at ht
      omega
    rw [ofErrors_warmup] at ht
    rw [ofErrors_quot _ _ _ _ _ htl, ofErrors_rem _ _ _ _ _ htl, if_pos ht, if_pos ht]
    exact ⟨rfl, rfl⟩
  · intro t ht
    rw [ofErrors_blockSize] at ht
    rw [ofErrors_rem _ _ _ _ _ ht, ofErrors_params, hpar, ofErrors_partLen]
    split
    · exact Nat.two_pow_pos _
    · exact Nat.mod_lt _ (Nat.two_pow_pos _)

/-- **Residual level, encoder side.** For prediction errors strictly inside `(-2^31, 2^31)` and a
choice `(o, ps)` of the search space whose partition length `n >> o` is LARGER than the predictor order
(RFC 9639 section 9.2.7), the residual component is well-formed, accepted by the strict reader, and
decodes to exactly the errors after the warm-up. -/
theorem readResidual_ofErrors (errors : List Int) (w o : Nat) (ps : List Nat) (n : Nat)
    (hn : errors.length = n) (hpos : 0 < n) (ho : o ≤ 15) (hps : ps.length = 2 ^ o) (hdvd : 2 ^ o ∣ n)
    (hw : w < n >>> o) (hp : ∀ p ∈ ps, p ≤ 14)
    (herr : ∀ e ∈ errors, -(2 ^ 31 : Int) < e ∧ e < (2 ^ 31 : Int)) (k : Bits) :
    (Residual.ofErrors errors w o ps).WF ∧
    readResidual n w ((Residual.ofErrors errors w o ps).bits ++ k) = .ok (⟨o, ps, errors.drop w⟩, k) := by
  have hwf : (Residual.ofErrors errors w o ps).WF :=
    ofErrors_wf errors w o ps n hn hpos ho hps hdvd (by omega) hp herr
  subst hn
  have hpar : ps.take (2 ^ o) = ps := List.take_of_length_le (by omega)
  have hfold : ∀ t, t < errors.length → (encodeSignbit (errors.getD t 0)).getD 0 = fold (errors.getD t 0) := by
    intro t ht
    have := herr _ (getD_mem_int errors t ht)
    rw [encodeSignbit_eq_fold _ this.1 this.2]; rfl
  have hval : ∀ t, w ≤ t → t < errors.length →
      (Residual.ofErrors errors w o ps).quotients.getD t 0 *
          2 ^ ((Residual.ofErrors errors w o ps).params.getD (t / (Residual.ofErrors errors w o ps).partLen) 0) +
        (Residual.ofErrors errors w o ps).remainders.getD t 0 = fold (errors.getD t 0) := by
    intro t h1 h2
    rw [ofErrors_quot _ _ _ _ _ h2, ofErrors_rem _ _ _ _ _ h2, ofErrors_params, hpar, ofErrors_partLen,
      if_neg (by omega), if_neg (by omega), hfold t h2, rice_split]
  have hstrict : Residual.Strict (Residual.ofErrors errors w o ps) := by
    refine ⟨by rw [ofErrors_warmup, ofErrors_blockSize, ofErrors_order]; exact hw, ?_⟩
    intro t h1 h2
    rw [ofErrors_warmup] at h1
    rw [ofErrors_blockSize] at h2
    have he := herr _ (getD_mem_int errors t h2)
    unfold Residual.val
    rw [hval t h1 h2, unfold_fold]
    exact ⟨fold_lt _ he.1 he.2, by omega⟩
  refine ⟨hwf, ?_⟩
  rw [readResidual_bits _ errors.length w hwf rfl rfl hstrict k, ofErrors_order, ofErrors_params, hpar]
  congr 3
  have hsd := signal_drop (Residual.ofErrors errors w o ps)
  rw [ofErrors_warmup, ofErrors_blockSize] at hsd
  rw [hsd]
  by_cases hwl : w ≤ errors.length
  · rw [← map_getD_range' errors w (errors.length - w) (by omega)]
    apply List.map_congr_left
    intro t ht
    rw [List.mem_range'_1] at ht
    unfold Residual.val
    rw [hval t ht.1 (by omega), unfold_fold]
  · have : errors.length - w = 0 := by omega
    rw [this, List.drop_of_length_le (by omega)]
    rfl

end Strict
end FlacVerif
