/-
Wrapping decoder (C01, release build), part 6: every frame `encode_frame` returns — for every oracle log
satisfying `OEvent.Ok` — is well-formed, serialisable, and within the limits of the
repository's own parser (`Repo.FrameOk`; the parser's LPC order limit `MAX_LPC_ORDER = 24` needs the
corresponding bound on the oracle's parameter sets), so that C15 (`parser::frame` inverts `Frame::write`)
applies to it.
-/
import FlacVerif.Lemmas.WrapFrame
namespace FlacVerif
namespace Wrap
open Repo

/-- `Repo.SubOk` with the LPC order limit as a parameter (`SubOkK 24 = SubOk`). -/
def SubOkK (K : Nat) : SubFrame → Prop
  | .constant _ _ b => b ≤ 25
  | .verbatim _ b => b ≤ 25
  | .fixed _ res b => b ≤ 25 ∧ (∀ q ∈ res.quotients, q < 2 ^ 32) ∧ res.blockSize < 2 ^ 32
  | .lpc _ coefs _ _ res b => b ≤ 25 ∧ coefs.length ≤ K ∧ (∀ q ∈ res.quotients, q < 2 ^ 32) ∧ res.blockSize < 2 ^ 32

theorem subOk_of_K (K : Nat) (hK : K ≤ 24) (s : SubFrame) (h : SubOkK K s) : SubOk s := by
  cases s with
  | constant n dc b => exact h
  | verbatim xs b => exact h
  | fixed w r b => exact h
  | lpc w c sh p r b => exact ⟨h.1, by have := h.2.1; omega, h.2.2⟩

/-- What every emitted sub-frame satisfies (`K` = bound on the LPC order of the oracle's parameter sets). -/
def SubGood (K n b : Nat) (s : SubFrame) : Prop := s.WF ∧ SubOkK K s ∧ s.blockSize = n ∧ s.bps = b

theorem encodeSignbit_getD_lt (v : Int) : (encodeSignbit v).getD 0 < 2 ^ 32 := by
  unfold encodeSignbit u32
  simp only []
  have := Nat.mod_lt (2 * v.natAbs) (show 0 < 2 ^ 32 by decide)
  by_cases h : (if v < 0 then 1 else 0) ≤ 2 * v.natAbs % 2 ^ 32
  · rw [if_pos h]; simp only [Option.getD_some]; omega
  · rw [if_neg h]; decide

theorem ofErrors_quot_lt (errors : List Int) (w o : Nat) (ps : List Nat) :
    ∀ q ∈ (Residual.ofErrors errors w o ps).quotients, q < 2 ^ 32 := by
  intro q hq
  unfold Residual.ofErrors at hq
  simp only [List.map_map, List.mem_map, List.mem_range, Function.comp] at hq
  obtain ⟨t, _, rfl⟩ := hq
  split
  · decide
  · exact Nat.lt_of_le_of_lt (Nat.shiftRight_le _ _) (encodeSignbit_getD_lt _)

theorem good_fixed (cfg : SubCfg) (xs : List Int) (bps : Nat) (s : SubFrame)
    (hn : 64 ≤ xs.length) (hlen : xs.length < 2 ^ 16) (hb : 1 ≤ bps ∧ bps ≤ 25)
    (hx : ∀ x ∈ xs, SubFrame.inRange bps x = true) (hmax : cfg.maxP ≤ 14)
    (K : Nat) (hs : Strict.FixedShape cfg xs bps s) : SubGood K xs.length bps s := by
  obtain ⟨_, _, _, _, hwf⟩ := Strict.subframe_fixed cfg xs bps s hn hlen hb hx hmax hs []
  obtain ⟨k, prc, hk4, hsearch, rfl⟩ := hs
  obtain ⟨hdl, _, _⟩ := Strict.diffs_fixed bps hb xs hx k hk4 (by omega)
  refine ⟨hwf, ⟨hb.2, ofErrors_quot_lt _ _ _ _, ?_⟩, ?_, rfl⟩
  · rw [Strict.ofErrors_blockSize, hdl]; omega
  · show (Residual.ofErrors (diffs k xs) k prc.order prc.ps).blockSize = xs.length
    rw [Strict.ofErrors_blockSize, hdl]

theorem good_lpc (cfg : SubCfg) (xs : List Int) (bps : Nat) (log : List OEvent) (s : SubFrame)
    (hn : 64 ≤ xs.length) (hlen : xs.length < 2 ^ 16) (hb : 1 ≤ bps ∧ bps ≤ 25)
    (hx : ∀ x ∈ xs, SubFrame.inRange bps x = true) (hmax : cfg.maxP ≤ 14)
    (hlog : ∀ e ∈ log, e.Ok) (K : Nat) (hord : ∀ c sh p, OEvent.qlpc c sh p ∈ log → c.length ≤ K)
    (hs : Strict.LpcShape cfg xs bps log s) : SubGood K xs.length bps s := by
  obtain ⟨coefs, shift, precision, errors, prc, hmem, hce, hsearch, rfl⟩ := hs
  obtain ⟨hc1, hc32, hp1, hp15, hs0, hs15, hcr⟩ := hlog _ hmem
  replace hc32 : coefs.length ≤ 32 := by unfold maxLpcOrder at hc32; omega
  obtain ⟨hel, hef, _⟩ := computeError_wrap coefs shift.toNat xs errors hce
  have hwf := Strict.residual_wf_of_search errors coefs.length cfg.maxP prc hef
    (by rw [hel]; omega) (by rw [hel]; exact hlen) hmax hsearch
  have hwl : (xs.take coefs.length).length = coefs.length := by rw [List.length_take]; omega
  refine ⟨⟨hc1, hc32, hwl, by rw [hwl]; rfl, hwf, ?_, hp1, hp15, hs0, hs15, hcr, hb.1, by omega,
    fun x hxm => hx x (List.mem_of_mem_take hxm)⟩, ⟨hb.2, hord _ _ _ hmem, ofErrors_quot_lt _ _ _ _, ?_⟩, ?_, rfl⟩
  · rw [hwl, Strict.ofErrors_blockSize, hel]; omega
  · rw [Strict.ofErrors_blockSize, hel]; omega
  · show (Residual.ofErrors errors coefs.length prc.order prc.ps).blockSize = xs.length
    rw [Strict.ofErrors_blockSize, hel]

/-- Every sub-frame `encode_subframe` returns is well-formed, within the parser's limits, of the block's
size and of the requested width. -/
theorem encodeSubframe_good (cfg : SubCfg) (xs : List Int) (bps : Nat) (log log' : List OEvent) (s : SubFrame)
    (hn : 1 ≤ xs.length) (hlen : xs.length < 2 ^ 16) (hb : 1 ≤ bps ∧ bps ≤ 25)
    (hx : ∀ x ∈ xs, SubFrame.inRange bps x = true) (hmax : cfg.maxP ≤ 14)
    (hlog : ∀ e ∈ log, e.Ok) (K : Nat) (hord : ∀ c sh p, OEvent.qlpc c sh p ∈ log → c.length ≤ K)
    (h : encodeSubframe cfg xs bps log = some (s, log')) : SubGood K xs.length bps s := by
  rcases Strict.encodeSubframe_shape cfg xs bps log log' s h with ⟨hc, rfl⟩ | rfl | ⟨h64, hs⟩ | ⟨h64, log1, hsub, hs⟩
  · exact ⟨⟨hn, hb.1, by omega, hx _ (Strict.headD_mem xs hn)⟩, hb.2, rfl, rfl⟩
  · exact ⟨⟨hn, hb.1, by omega, hx⟩, hb.2, rfl, rfl⟩
  · exact good_fixed cfg xs bps s h64 hlen hb hx hmax K hs
  · exact good_lpc cfg xs bps log1 s h64 hlen hb hx hmax (fun e he => hlog e (hsub e he)) K
      (fun c sh p hm => hord c sh p (hsub _ hm)) hs

theorem encodeChannels_good (cfg : SubCfg) (asg : ChannelAssignment) (bps n : Nat) (hn : 1 ≤ n ∧ n < 2 ^ 16)
    (hmax : cfg.maxP ≤ 14) (K : Nat) :
    ∀ (chans : List (List Int)) (ch : Nat) (log log' : List OEvent) (subs : List SubFrame),
      (∀ c ∈ chans, c.length = n) →
      (∀ i (h : i < chans.length), 1 ≤ bps + asg.bpsOffset (ch + i) ∧ bps + asg.bpsOffset (ch + i) ≤ 25 ∧
        ∀ x ∈ chans[i], SubFrame.inRange (bps + asg.bpsOffset (ch + i)) x = true) →
      (∀ e ∈ log, e.Ok) → (∀ c sh p, OEvent.qlpc c sh p ∈ log → c.length ≤ K) →
      encodeChannels cfg asg bps chans ch log = some (subs, log') →
      ∀ i (h1 : i < subs.length), SubGood K n (bps + asg.bpsOffset (ch + i)) subs[i] := by
  intro chans
  induction chans with
  | nil =>
    intro ch log log' subs _ _ _ _ h
    simp only [encodeChannels, Option.some.injEq, Prod.mk.injEq] at h
    obtain ⟨rfl, rfl⟩ := h
    exact fun i h1 => absurd h1 (by simp)
  | cons c cs ih =>
    intro ch log log' subs hlen hrng hlog hord h
    simp only [encodeChannels, Option.bind_eq_bind, Option.bind_eq_some_iff, Option.some.injEq, Prod.mk.injEq] at h
    obtain ⟨⟨s, l1⟩, hs, ⟨ss, l2⟩, hss, hsub, hl2⟩ := h
    subst hsub; subst hl2
    have hc : c.length = n := hlen c (by simp)
    obtain ⟨hb1, hb25, hx⟩ := hrng 0 (by simp)
    simp only [Nat.add_zero, List.getElem_cons_zero] at hb1 hb25 hx
    have hsub1 := Strict.encodeSubframe_sub cfg c _ log l1 s hs
    have hthis := encodeSubframe_good cfg c _ log l1 s (by omega) (by omega) ⟨hb1, hb25⟩ hx hmax hlog K hord hs
    rw [hc] at hthis
    have hrest := ih (ch + 1) l1 l2 ss (fun x hx => hlen x (by simp [hx]))
      (fun i hi => by
        have := hrng (i + 1) (by simp; omega)
        simp only [List.getElem_cons_succ] at this
        rw [show ch + (i + 1) = ch + 1 + i by omega] at this
        exact this)
      (fun e he => hlog e (hsub1 e he)) (fun c sh p hm => hord c sh p (hsub1 _ hm)) hss
    intro i h1
    cases i with
    | zero => simpa using hthis
    | succ j =>
      simp only [List.getElem_cons_succ]
      have := hrest j (by simpa using h1)
      rw [show ch + 1 + j = ch + (j + 1) by omega] at this
      exact this

/-! ### the header -/

theorem srOk_fromFreq (rate : Nat) : SrOk ((SampleRateSpec.fromFreq rate).getD .unspecified) := by
  unfold SampleRateSpec.fromFreq
  split
  · rename_i t ht
    simp only [Option.getD_some, SrOk]
    have : ∀ (l : List (Nat × Nat)), (∀ p ∈ l, 1 ≤ p.2 ∧ p.2 ≤ 11) → l.lookup rate = some t → 1 ≤ t ∧ t ≤ 11 := by
      intro l
      induction l with
      | nil => intro _ h; simp at h
      | cons p l ih =>
        intro hp h
        rw [List.lookup_cons] at h
        split at h
        · simp only [Option.some.injEq] at h; subst h; exact hp p (by simp)
        · exact ih (fun q hq => hp q (by simp [hq])) h
    exact this sampleRateTable (by decide) ht
  · split
    · rename_i h; simp only [Option.getD_some, SrOk]; exact h.2
    · split
      · rename_i h; simp only [Option.getD_some, SrOk]; exact h.2
      · split
        · rename_i h; simp only [Option.getD_some, SrOk]; exact h
        · simp [SrOk]

theorem sampleSizeTag_facts (bps : Nat) (hb : bps ≤ 24) :
    sampleSizeTag bps < 8 ∧ (sampleSizeBits (sampleSizeTag bps)).getD bps = bps := by
  unfold sampleSizeTag
  by_cases h8 : bps = 8
  · subst h8; decide
  by_cases h12 : bps = 12
  · subst h12; decide
  by_cases h16 : bps = 16
  · subst h16; decide
  by_cases h20 : bps = 20
  · subst h20; decide
  by_cases h24 : bps = 24
  · subst h24; decide
  have h32 : ¬ bps = 32 := by omega
  simp [h8, h12, h16, h20, h24, h32, sampleSizeBits]

/-- Assembling `Repo.FrameOk` for a header from `headerFor` and good sub-frames. -/
theorem frameOk_assemble (asg : ChannelAssignment) (hasg : ChOk asg) (subs : List SubFrame)
    (n bps rate number : Nat) (hdr : FrameHeader) (hn : 1 ≤ n ∧ n < 2 ^ 16) (hb : bps ≤ 24) (hnum : number < 2 ^ 32)
    (hh : headerFor asg n bps rate number = some hdr) (hsl : subs.length = asg.channels)
    (K : Nat) (hK : K ≤ 24) (hsub : ∀ i (h1 : i < subs.length), SubGood K n (bps + asg.bpsOffset i) subs[i])
    (info : StreamInfo) (hinfo : info.channels = asg.channels ∧ info.bps = bps) :
    FrameOk info ⟨hdr, subs⟩ := by
  unfold headerFor at hh
  simp only [Option.bind_eq_bind, Option.bind_eq_some_iff, Option.some.injEq] at hh
  obtain ⟨bss, hbss, rfl⟩ := hh
  obtain ⟨hok, hbs⟩ := fromSize_ok n hn.1 hn.2 bss hbss
  obtain ⟨ht1, ht2⟩ := sampleSizeTag_facts bps hb
  refine ⟨⟨hok, srOk_fromFreq rate, hasg, ht1, ?_⟩, hinfo.1.symm, hsl, ?_, by rw [hinfo.2]; exact hb, ?_⟩
  · simp only [Bool.false_eq_true, if_false]
    exact ⟨trivial, hnum⟩
  · simp only []
    rw [hinfo.2]; exact ht2
  · intro j hj
    obtain ⟨g1, g2, g3, g4⟩ := hsub j hj
    refine ⟨g1, subOk_of_K K hK _ g2, ?_, ?_⟩
    · simp only []
      rw [g3, hbs]
    · simp only []
      rw [g4, hinfo.2]

end Wrap
end FlacVerif
