/-
Helper lemmas for C13, part 3: the result of the search compared with the specification-side
cost `choiceCost`.
-/
import FlacVerif.Lemmas.RiceSearchLoop
import FlacVerif.Lemmas.Predict
namespace FlacVerif
namespace RiceSearch

/-! ### sign folding of the whole signal -/

theorem mapM_encodeSignbit (signal : List Int)
    (hsig : ∀ v ∈ signal, -(2 ^ 31 : Int) < v ∧ v < (2 ^ 31 : Int)) :
    signal.mapM encodeSignbit = some (signal.map fold) := by
  induction signal with
  | nil => simp
  | cons v vs ih =>
    have hv := hsig v (by simp)
    have := ih (fun w hw => hsig w (by simp [hw]))
    simp [List.mapM_cons, encodeSignbit_eq_fold v hv.1 hv.2, this]

theorem search_eq (signal : List Int) (warm maxP : Nat)
    (hsig : ∀ v ∈ signal, -(2 ^ 31 : Int) < v ∧ v < (2 ^ 31 : Int)) :
    search signal warm maxP = searchFolded (signal.map fold) warm maxP := by
  unfold search
  rw [mapM_encodeSignbit signal hsig]
  rfl

/-! ### sums of saturated costs -/

theorem four_mul_length_le_sum (l : List Nat) (g : Nat → Nat) (hg : ∀ x ∈ l, 4 ≤ g x) :
    4 * l.length ≤ (l.map g).sum := by
  induction l with
  | nil => simp
  | cons x l ih =>
    simp only [List.map_cons, List.sum_cons, List.length_cons]
    have h1 := hg x (by simp)
    have h2 := ih (fun y hy => hg y (by simp [hy]))
    omega

theorem term_bound (l : List Nat) (g : Nat → Nat) (hg : ∀ x ∈ l, 4 ≤ g x) (x : Nat) (hx : x ∈ l) :
    g x + 4 * (l.length - 1) ≤ (l.map g).sum := by
  obtain ⟨l1, l2, rfl⟩ := List.append_of_mem hx
  simp only [List.map_append, List.map_cons, List.sum_append, List.sum_cons, List.length_append,
    List.length_cons]
  have h1 := four_mul_length_le_sum l1 g (fun y hy => hg y (by simp [hy]))
  have h2 := four_mul_length_le_sum l2 g (fun y hy => hg y (by simp [hy]))
  omega

theorem sum_map_congr (l : List Nat) (f g : Nat → Nat) (h : ∀ x ∈ l, f x = g x) :
    (l.map f).sum = (l.map g).sum := by
  rw [List.map_congr_left h]

/-- (6) the sum of saturated costs is the true sum as soon as it is below the saturation value,
or equal to it with at least two partitions. -/
theorem sum_sat_eq (l : List Nat) (c : Nat → Nat) (hc : ∀ x ∈ l, 4 ≤ c x)
    (h : (l.map fun x => sat (c x)).sum < 2 ^ 28 - 1 ∨
      ((l.map fun x => sat (c x)).sum ≤ 2 ^ 28 - 1 ∧ 2 ≤ l.length)) :
    (l.map fun x => sat (c x)).sum = (l.map c).sum := by
  apply sum_map_congr
  intro x hx
  apply sat_eq_of_lt
  have hg : ∀ y ∈ l, 4 ≤ sat (c y) := by
    intro y hy
    have := hc y hy
    unfold sat maxPToBits; omega
  have := term_bound l (fun x => sat (c x)) hg x hx
  omega

/-! ### the candidates against the specification -/

/-- (6) the computed total at order `o` is a lower bound of every admissible true cost there. -/
theorem bitsAt_le_choiceCost (es : List Nat) (warm maxP o : Nat) (ps : List Nat)
    (hmax : maxP ≤ 14) (hps : ∀ p ∈ ps, p ≤ maxP) :
    bitsAt es warm maxP o ≤ choiceCost es warm o ps := by
  rw [bitsAt_eq, choiceCost_eq]
  apply sum_map_le
  intro k _
  have hp : ps.getD k 0 ≤ maxP := by
    rw [List.getD_eq_getElem?_getD]
    by_cases hk : k < ps.length
    · rw [List.getElem?_eq_getElem hk]
      exact hps _ (List.getElem_mem hk)
    · rw [List.getElem?_eq_none (by omega)]
      simp
  have h := (minimizer_satTable (partErrors es warm o k) maxP).2.2
  have h2 := h.2 (ps.getD k 0) hp (by omega)
  rw [h.1] at h2
  exact Nat.le_trans h2 (sat_le _)

theorem psAt_length (es : List Nat) (warm maxP o : Nat) : (psAt es warm maxP o).length = 2 ^ o := by
  rw [psAt_eq]; simp

theorem psAt_le (es : List Nat) (warm maxP o : Nat) : ∀ p ∈ psAt es warm maxP o, p ≤ maxP := by
  intro p hp
  rw [psAt_eq] at hp
  obtain ⟨k, _, rfl⟩ := List.mem_map.mp hp
  exact (minimizer_satTable (partErrors es warm o k) maxP).1

theorem choiceCost_psAt (es : List Nat) (warm maxP o : Nat) :
    choiceCost es warm o (psAt es warm maxP o) = ((List.range (2 ^ o)).map fun k =>
      partCost (pStar es warm maxP o k) (partErrors es warm o k)).sum := by
  rw [choiceCost_eq]
  apply sum_map_congr
  intro k hk
  rw [psAt_eq, getD_map_range _ _ _ _ (List.mem_range.mp hk)]

/-- The computed total of a candidate is its true cost, unless saturation interfered. -/
theorem bitsAt_eq_choiceCost (es : List Nat) (warm maxP o : Nat)
    (h : bitsAt es warm maxP o < 2 ^ 28 - 1 ∨ (bitsAt es warm maxP o ≤ 2 ^ 28 - 1 ∧ o ≠ 0)) :
    bitsAt es warm maxP o = choiceCost es warm o (psAt es warm maxP o) := by
  rw [choiceCost_psAt]
  rw [bitsAt_eq] at h ⊢
  apply sum_sat_eq (List.range (2 ^ o))
    (fun k => partCost (pStar es warm maxP o k) (partErrors es warm o k))
  · intro k _; exact partCost_ge _ _
  · rcases h with h | ⟨h, ho⟩
    · exact Or.inl h
    · refine Or.inr ⟨h, ?_⟩
      rw [List.length_range]
      obtain ⟨o', rfl⟩ := Nat.exists_eq_succ_of_ne_zero ho
      have := Nat.two_pow_pos o'
      rw [Nat.pow_succ]; omega

/-- All facts about the result of `searchFolded`. -/
theorem searchFolded_optimal (es : List Nat) (warm maxP : Nat) (hmax : maxP ≤ 14)
    (hn : max 64 warm ≤ es.length) (hlen : es.length < 2 ^ 16)
    (r : PrcParameter) (hr : searchFolded es warm maxP = some r) :
    orderOk es.length warm r.order = true ∧ r.ps.length = 2 ^ r.order ∧ (∀ p ∈ r.ps, p ≤ maxP) ∧
    (∀ o ps, orderOk es.length warm o = true → (∀ p ∈ ps, p ≤ maxP) →
      r.codeBits ≤ choiceCost es warm o ps) ∧
    (r.codeBits < 2 ^ 28 - 1 ∨ (r.codeBits ≤ 2 ^ 28 - 1 ∧ r.order ≠ 0) →
      r.codeBits = choiceCost es warm r.order r.ps) := by
  obtain ⟨ofin, r', hr', hspec, ⟨o', ho', hcand⟩, hmin⟩ := searchFolded_spec es warm maxP hn hlen
  rw [hr'] at hr
  have : r' = r := Option.some.inj hr
  subst this
  subst hcand
  refine ⟨(hspec o').mpr ho', psAt_length es warm maxP o', psAt_le es warm maxP o', ?_, ?_⟩
  · intro o ps hok hps
    exact Nat.le_trans (hmin o ((hspec o).mp hok)) (bitsAt_le_choiceCost es warm maxP o ps hmax hps)
  · intro h
    exact bitsAt_eq_choiceCost es warm maxP o' h

end RiceSearch
end FlacVerif
