/-
Helper lemmas for C07 (configuration verification = documented ranges) and C19 (TOML round trip,
omitted fields, verification commutes with parsing) over the GENERATED configuration model
`Gen/Config.lean` (+ `Gen/Constants.lean`, `Model/TVal.lean`).  Import-light (no Mathlib).
-/
import FlacVerif.Gen.Config
namespace FlacVerif
open Gen
/-- Applies `f` to the value stored under key `k` of a table (one level). -/
def TVal.mapKey (k : String) (f : TVal → TVal) : TVal → TVal
  | .table kv => .table (kv.map fun p => if p.1 == k then (p.1, f p.2) else p)
  | v => v

/-- Removes the keys `ks` from the (sub)table reached by following `path` from the root
(`[]` = the root table itself, i.e. `eraseKeys`). -/
def TVal.eraseAt : List String → List String → TVal → TVal
  | [], ks, t => t.eraseKeys ks
  | k :: path, ks, t => t.mapKey k (TVal.eraseAt path ks)

namespace ConfigL

/-! ### C07: one "verify ↔ literal ranges" lemma per nesting level -/

/-- IEEE `0.0 <= a && a <= 1.0` on genuine f32 bit patterns: exactly the patterns `+0.0 … 1.0`
(`0 … 0x3F800000`) and `-0.0` (`0x80000000`). -/
theorem f32_inRange_unit (a : Nat) (ha : a < 2 ^ 32) :
    F32.inRange 0x00000000 0x3F800000 a = true ↔ (a ≤ 0x3F800000 ∨ a = 0x80000000) := by
  unfold F32.inRange F32.le F32.isNaN F32.key
  simp only [Bool.and_eq_true, Bool.not_eq_true', decide_eq_true_eq, bne_eq_false_iff_eq,
    Bool.and_eq_false_imp, beq_iff_eq, Nat.reducePow, Nat.reduceDiv, Nat.reduceMod] at ha ⊢
  split <;> omega

theorem orderSel_verify_iff (exp : Bool) (o : OrderSel) :
    OrderSel.verify exp o = true ↔
      (match o with | .BitCount => True | .ApproxEnt p => 1 ≤ p ∧ p ≤ 64) := by
  cases o <;> simp only [OrderSel.verify, Bool.and_eq_true, decide_eq_true_eq] <;>
    simp only [Const.MAX_ENTROPY_ESTIMATOR_PARTITIONS]

theorem window_verify_iff (exp : Bool) (w : Window) :
    Window.verify exp w = true ↔
      (match w with | .Rectangle => True | .Tukey a => F32.inRange 0 0x3F800000 a = true) := by
  cases w <;> simp only [Window.verify]

theorem fixed_verify_iff (exp : Bool) (c : Fixed) :
    Fixed.verify exp c = true ↔ (c.max_order ≤ 4 ∧ OrderSel.verify exp c.order_sel = true) := by
  simp only [Fixed.verify, Bool.and_eq_true, decide_eq_true_eq]
  simp only [Const.fixed_MAX_LPC_ORDER]

theorem prc_verify_iff (exp : Bool) (c : Prc) : Prc.verify exp c = true ↔ c.max_parameter ≤ 14 := by
  simp only [Prc.verify, decide_eq_true_eq]
  simp only [Const.rice_MAX_RICE_PARAMETER]

theorem qlpc_verify_iff (exp : Bool) (c : Qlpc) :
    Qlpc.verify exp c = true ↔
      (1 ≤ c.lpc_order ∧ c.lpc_order ≤ 24 ∧ 1 ≤ c.quant_precision ∧ c.quant_precision ≤ 15 ∧
       (exp = false → c.use_direct_mse = false ∧ c.mae_optimization_steps = 0) ∧
       Window.verify exp c.window = true) := by
  cases exp <;>
  simp only [Qlpc.verify, Bool.and_eq_true, decide_eq_true_eq,
    Bool.not_eq_true', beq_iff_eq, and_assoc, Bool.false_or, Bool.true_or, true_and, forall_const,
    Bool.true_eq_false, false_imp_iff] <;>
  simp only [Const.qlpc_MAX_ORDER, Const.qlpc_MAX_PRECISION]

theorem subframe_verify_iff (exp : Bool) (c : SubFrameCoding) :
    SubFrameCoding.verify exp c = true ↔
      (Fixed.verify exp c.fixed = true ∧ Qlpc.verify exp c.qlpc = true ∧
       Prc.verify exp c.prc = true) := by
  simp only [SubFrameCoding.verify, Bool.and_eq_true, and_assoc]

theorem encoder_verify_iff (exp : Bool) (c : Encoder) :
    Encoder.verify exp c = true ↔
      (32 ≤ c.block_size ∧ c.block_size ≤ 32767 ∧
       SubFrameCoding.verify exp c.subframe_coding = true) := by
  simp only [Encoder.verify, StereoCoding.verify, Bool.and_eq_true, decide_eq_true_eq, and_assoc,
    Bool.and_true]
  simp only [Const.MIN_BLOCK_SIZE, Const.MAX_BLOCK_SIZE]

/-! ### C19: lookup in a table with erased keys -/

theorem lookup_filter_keys (ks : List String) (k : String) (kv : List (String × TVal)) :
    (kv.filter (fun p => !ks.contains p.1)).lookup k =
      if ks.contains k then none else kv.lookup k := by
  induction kv with
  | nil => simp only [List.filter_nil, List.lookup, ite_self]
  | cons p kv ih =>
    obtain ⟨k', v⟩ := p
    rw [List.filter_cons]
    by_cases hk : k = k'
    · subst hk
      cases hc : ks.contains k
      · simp only [Bool.not_false, if_true, List.lookup, beq_self_eq_true, Bool.false_eq_true,
          if_false]
      · simp only [Bool.not_true, Bool.false_eq_true, if_false, if_true, ih, hc]
    · have hne : (k == k') = false := by simpa using hk
      cases hc : ks.contains k'
      · simp only [Bool.not_false, if_true, List.lookup, hne, ih]
      · simp only [Bool.not_true, Bool.false_eq_true, if_false, List.lookup, hne, ih]

theorem eraseKeys_table (ks : List String) (kv : List (String × TVal)) :
    (TVal.table kv).eraseKeys ks = .table (kv.filter fun p => !ks.contains p.1) := rfl

theorem eraseKeys_nil (kv : List (String × TVal)) : (TVal.table kv).eraseKeys [] = .table kv := by
  simp [eraseKeys_table]

/-! ### C19: the two internally tagged enums -/

theorem orderSel_omitted (par : Bool) (o : OrderSel) (ks : List String) :
    OrderSel.fromT par ((OrderSel.toT o).eraseKeys ks) =
      if ks.contains "type" then .error "unknown or missing `type` for OrderSel"
      else .ok (match o with
        | .BitCount => .BitCount
        | .ApproxEnt p => .ApproxEnt (if ks.contains "partitions" then 16 else p)) := by
  cases o <;>
    simp only [OrderSel.toT, eraseKeys_table, OrderSel.fromT, lookup_filter_keys] <;>
    cases ks.contains "type" <;> cases ks.contains "partitions" <;>
    simp [List.lookup, bind, Except.bind, pure, Except.pure, throw, throwThe, MonadExceptOf.throw,
      Const.DEFAULT_ENTROPY_ESTIMATOR_PARTITIONS]

theorem window_omitted (par : Bool) (w : Window) (ks : List String) :
    Window.fromT par ((Window.toT w).eraseKeys ks) =
      if ks.contains "type" then .error "unknown or missing `type` for Window"
      else .ok (match w with
        | .Rectangle => .Rectangle
        | .Tukey a => .Tukey (if ks.contains "alpha" then 0x3ECCCCCD else a)) := by
  cases w <;>
    simp only [Window.toT, eraseKeys_table, Window.fromT, lookup_filter_keys] <;>
    cases ks.contains "type" <;> cases ks.contains "alpha" <;>
    simp [List.lookup, bind, Except.bind, pure, Except.pure, throw, throwThe, MonadExceptOf.throw,
      Const.qlpc_DEFAULT_TUKEY_ALPHA_bits]

@[simp] theorem orderSel_roundtrip (par : Bool) (o : OrderSel) :
    OrderSel.fromT par (OrderSel.toT o) = .ok o := by
  cases o <;> simp [OrderSel.toT, OrderSel.fromT, List.lookup, bind, Except.bind, pure, Except.pure]

@[simp] theorem window_roundtrip (par : Bool) (w : Window) :
    Window.fromT par (Window.toT w) = .ok w := by
  cases w <;> simp [Window.toT, Window.fromT, List.lookup, bind, Except.bind, pure, Except.pure]

/-! ### C19: the structs — "keys in `ks` omitted ⇒ exactly those fields are the default" -/

theorem prc_omitted (par : Bool) (c : Prc) (ks : List String) :
    Prc.fromT par ((Prc.toT c).eraseKeys ks) = .ok (Prc.resetFields par ks c) := by
  simp only [Prc.toT, eraseKeys_table, Prc.fromT, lookup_filter_keys, Prc.resetFields]
  cases ks.contains "max_parameter" <;> simp [List.lookup, bind, Except.bind, pure, Except.pure]

theorem stereo_omitted (par : Bool) (c : StereoCoding) (ks : List String) :
    StereoCoding.fromT par ((StereoCoding.toT c).eraseKeys ks) =
      .ok (StereoCoding.resetFields par ks c) := by
  simp only [StereoCoding.toT, eraseKeys_table, StereoCoding.fromT, lookup_filter_keys,
    StereoCoding.resetFields]
  cases ks.contains "use_leftside" <;> cases ks.contains "use_rightside" <;>
    cases ks.contains "use_midside" <;>
    simp [List.lookup, bind, Except.bind, pure, Except.pure]

theorem fixed_omitted (par : Bool) (c : Fixed) (ks : List String) :
    Fixed.fromT par ((Fixed.toT c).eraseKeys ks) = .ok (Fixed.resetFields par ks c) := by
  simp only [Fixed.toT, eraseKeys_table, Fixed.fromT, lookup_filter_keys, Fixed.resetFields]
  cases ks.contains "max_order" <;> cases ks.contains "order_sel" <;>
    simp [List.lookup, bind, Except.bind, pure, Except.pure]

theorem qlpc_omitted (par : Bool) (c : Qlpc) (ks : List String) :
    Qlpc.fromT par ((Qlpc.toT c).eraseKeys ks) = .ok (Qlpc.resetFields par ks c) := by
  simp only [Qlpc.toT, eraseKeys_table, Qlpc.fromT, lookup_filter_keys, Qlpc.resetFields]
  cases ks.contains "lpc_order" <;> cases ks.contains "quant_precision" <;>
    cases ks.contains "use_direct_mse" <;> cases ks.contains "mae_optimization_steps" <;>
    cases ks.contains "window" <;>
    simp [List.lookup, bind, Except.bind, pure, Except.pure]

@[simp] theorem eraseKeys_nil' (t : TVal) : t.eraseKeys [] = t := by
  cases t <;> simp [TVal.eraseKeys]

@[simp] theorem prc_roundtrip (par : Bool) (c : Prc) : Prc.fromT par (Prc.toT c) = .ok c := by
  simpa [Prc.resetFields] using prc_omitted par c []

@[simp] theorem stereo_roundtrip (par : Bool) (c : StereoCoding) :
    StereoCoding.fromT par (StereoCoding.toT c) = .ok c := by
  simpa [StereoCoding.resetFields] using stereo_omitted par c []

@[simp] theorem fixed_roundtrip (par : Bool) (c : Fixed) : Fixed.fromT par (Fixed.toT c) = .ok c := by
  simpa [Fixed.resetFields] using fixed_omitted par c []

@[simp] theorem qlpc_roundtrip (par : Bool) (c : Qlpc) : Qlpc.fromT par (Qlpc.toT c) = .ok c := by
  simpa [Qlpc.resetFields] using qlpc_omitted par c []

theorem subframe_omitted (par : Bool) (c : SubFrameCoding) (ks : List String) :
    SubFrameCoding.fromT par ((SubFrameCoding.toT c).eraseKeys ks) =
      .ok (SubFrameCoding.resetFields par ks c) := by
  simp only [SubFrameCoding.toT, eraseKeys_table, SubFrameCoding.fromT, lookup_filter_keys,
    SubFrameCoding.resetFields]
  cases ks.contains "use_constant" <;> cases ks.contains "use_fixed" <;>
    cases ks.contains "use_lpc" <;> cases ks.contains "fixed" <;> cases ks.contains "qlpc" <;>
    cases ks.contains "prc" <;>
    simp [List.lookup, bind, Except.bind, pure, Except.pure]

@[simp] theorem subframe_roundtrip (par : Bool) (c : SubFrameCoding) :
    SubFrameCoding.fromT par (SubFrameCoding.toT c) = .ok c := by
  simpa [SubFrameCoding.resetFields] using subframe_omitted par c []

theorem encoder_omitted (par : Bool) (c : Encoder) (h : c.workers ≠ some 0) (ks : List String) :
    Encoder.fromT par ((Encoder.toT c).eraseKeys ks) = .ok (Encoder.resetFields par ks c) := by
  obtain ⟨bs, mt, w, sc, sf⟩ := c
  simp only [Encoder.toT, eraseKeys_table, Encoder.fromT, lookup_filter_keys,
    Encoder.resetFields]
  cases w with
  | none =>
    cases ks.contains "block_size" <;> cases ks.contains "multithread" <;>
      cases ks.contains "workers" <;> cases ks.contains "stereo_coding" <;>
      cases ks.contains "subframe_coding" <;>
      simp [List.lookup, bind, Except.bind, pure, Except.pure, Encoder.default]
  | some n =>
    have hn : n ≠ 0 := by intro h0; exact h (by simp [h0])
    cases ks.contains "block_size" <;> cases ks.contains "multithread" <;>
      cases ks.contains "workers" <;> cases ks.contains "stereo_coding" <;>
      cases ks.contains "subframe_coding" <;>
      simp [List.lookup, bind, Except.bind, pure, Except.pure, hn]

theorem encoder_roundtrip (par : Bool) (c : Encoder) (h : c.workers ≠ some 0) :
    Encoder.fromT par (Encoder.toT c) = .ok c := by
  simpa [Encoder.resetFields] using encoder_omitted par c h []

/-! ### C19: sections — replacing the value of one nested section key by an arbitrary value

`Parent.fromT` of `Parent.toT c` with the value under a section key rewritten by `f` is the parse of
the rewritten section, put into `c`.  Together with the `_omitted` lemmas this covers documents that
omit keys INSIDE sections (`TVal.eraseAt`). -/

theorem lookup_mapKey (k k' : String) (f : TVal → TVal) (kv : List (String × TVal)) :
    (kv.map fun p => if p.1 == k then (p.1, f p.2) else p).lookup k' =
      if k' == k then (kv.lookup k').map f else kv.lookup k' := by
  induction kv with
  | nil => simp [List.lookup]
  | cons p kv ih =>
    obtain ⟨k0, v⟩ := p
    simp only [List.map_cons]
    by_cases h0 : k0 = k
    · subst h0
      by_cases h1 : k' = k0
      · subst h1; simp [List.lookup]
      · have : (k' == k0) = false := by simpa using h1
        simp only [BEq.rfl, if_true, List.lookup, this, ih]
    · have hk0 : (k0 == k) = false := by simpa using h0
      by_cases h1 : k' = k0
      · subst h1; simp [List.lookup, hk0]
      · have : (k' == k0) = false := by simpa using h1
        simp only [hk0, Bool.false_eq_true, if_false, List.lookup, this, ih]

theorem mapKey_table (k : String) (f : TVal → TVal) (kv : List (String × TVal)) :
    (TVal.table kv).mapKey k f =
      .table (kv.map fun p => if p.1 == k then (p.1, f p.2) else p) := rfl

theorem encoder_section_subframe (par : Bool) (c : Encoder) (h : c.workers ≠ some 0)
    (f : TVal → TVal) :
    Encoder.fromT par ((Encoder.toT c).mapKey "subframe_coding" f) =
      (SubFrameCoding.fromT par (f (SubFrameCoding.toT c.subframe_coding))).map
        (fun x => { c with subframe_coding := x }) := by
  obtain ⟨bs, mt, w, sc, sf⟩ := c
  simp only [Encoder.toT, mapKey_table, Encoder.fromT, lookup_mapKey]
  cases w with
  | none => simp [List.lookup, bind, Except.bind, pure, Except.pure, Except.map, Encoder.default]
  | some n =>
    have hn : n ≠ 0 := by intro h0; exact h (by simp [h0])
    simp [List.lookup, bind, Except.bind, pure, Except.pure, Except.map, hn]

theorem encoder_section_stereo (par : Bool) (c : Encoder) (h : c.workers ≠ some 0)
    (f : TVal → TVal) :
    Encoder.fromT par ((Encoder.toT c).mapKey "stereo_coding" f) =
      (StereoCoding.fromT par (f (StereoCoding.toT c.stereo_coding))).map
        (fun x => { c with stereo_coding := x }) := by
  obtain ⟨bs, mt, w, sc, sf⟩ := c
  simp only [Encoder.toT, mapKey_table, Encoder.fromT, lookup_mapKey]
  cases w with
  | none =>
    simp [List.lookup, bind, Except.bind, pure, Except.pure, Except.map, Encoder.default]
  | some n =>
    have hn : n ≠ 0 := by intro h0; exact h (by simp [h0])
    simp [List.lookup, bind, Except.bind, pure, Except.pure, Except.map, hn]

theorem subframe_section_fixed (par : Bool) (c : SubFrameCoding) (f : TVal → TVal) :
    SubFrameCoding.fromT par ((SubFrameCoding.toT c).mapKey "fixed" f) =
      (Fixed.fromT par (f (Fixed.toT c.fixed))).map (fun x => { c with fixed := x }) := by
  simp only [SubFrameCoding.toT, mapKey_table, SubFrameCoding.fromT, lookup_mapKey]
  simp [List.lookup, bind, Except.bind, pure, Except.pure, Except.map]

theorem subframe_section_qlpc (par : Bool) (c : SubFrameCoding) (f : TVal → TVal) :
    SubFrameCoding.fromT par ((SubFrameCoding.toT c).mapKey "qlpc" f) =
      (Qlpc.fromT par (f (Qlpc.toT c.qlpc))).map (fun x => { c with qlpc := x }) := by
  simp only [SubFrameCoding.toT, mapKey_table, SubFrameCoding.fromT, lookup_mapKey]
  simp [List.lookup, bind, Except.bind, pure, Except.pure, Except.map]

theorem subframe_section_prc (par : Bool) (c : SubFrameCoding) (f : TVal → TVal) :
    SubFrameCoding.fromT par ((SubFrameCoding.toT c).mapKey "prc" f) =
      (Prc.fromT par (f (Prc.toT c.prc))).map (fun x => { c with prc := x }) := by
  simp only [SubFrameCoding.toT, mapKey_table, SubFrameCoding.fromT, lookup_mapKey]
  simp [List.lookup, bind, Except.bind, pure, Except.pure, Except.map]

theorem fixed_section_orderSel (par : Bool) (c : Fixed) (f : TVal → TVal) :
    Fixed.fromT par ((Fixed.toT c).mapKey "order_sel" f) =
      (OrderSel.fromT par (f (OrderSel.toT c.order_sel))).map (fun x => { c with order_sel := x }) := by
  simp only [Fixed.toT, mapKey_table, Fixed.fromT, lookup_mapKey]
  simp [List.lookup, bind, Except.bind, pure, Except.pure, Except.map]

theorem qlpc_section_window (par : Bool) (c : Qlpc) (f : TVal → TVal) :
    Qlpc.fromT par ((Qlpc.toT c).mapKey "window" f) =
      (Window.fromT par (f (Window.toT c.window))).map (fun x => { c with window := x }) := by
  simp only [Qlpc.toT, mapKey_table, Qlpc.fromT, lookup_mapKey]
  simp [List.lookup, bind, Except.bind, pure, Except.pure, Except.map]

/-! ### C19: the parser never produces `workers = Some(0)` -/

theorem encoder_parsed_workers (par : Bool) (t : TVal) (c : Encoder)
    (h : Encoder.fromT par t = .ok c) : c.workers ≠ some 0 := by
  cases t with
  | table kv =>
    simp only [Encoder.fromT, bind, Except.bind, pure, Except.pure, throw, throwThe,
      MonadExceptOf.throw] at h
    cases hw : kv.lookup "workers" with
    | none =>
      simp only [hw] at h
      repeat' split at h
      all_goals simp at h
      all_goals subst h
      all_goals simp [Encoder.default]
    | some v =>
      cases v with
      | int n =>
        by_cases hn : n = 0
        · simp only [hw, hn, if_true] at h
          repeat' split at h
          all_goals simp at h
        · simp only [hw, hn, if_false] at h
          repeat' split at h
          all_goals simp at h
          all_goals subst h
          all_goals simpa using hn
      | _ =>
        simp only [hw] at h
        repeat' split at h
        all_goals simp at h
  | _ => simp [Encoder.fromT, throw, throwThe, MonadExceptOf.throw] at h

end ConfigL
end FlacVerif
