/-
Strict round trip (C01/C02), part 21: the blocks of the input (`blocksOf`) — shape, sizes, and
reassembly of the channels from the decoded frames.
-/
import FlacVerif.Lemmas.StrictStreamCut
namespace FlacVerif
namespace Strict

theorem chunks_take {α : Type} (l : List α) (bs k : Nat) :
    (List.range k).flatMap (fun j => (l.drop (j * bs)).take bs) = l.take (k * bs) := by
  induction k with
  | zero => simp
  | succ k ih =>
    rw [List.range_succ, List.flatMap_append, ih, List.flatMap_singleton, Nat.succ_mul, List.take_add]

theorem ceil_mul_ge (total bs : Nat) (hbs : 1 ≤ bs) : total ≤ (total + bs - 1) / bs * bs := by
  have h1 := Nat.div_add_mod (total + bs - 1) bs
  have h2 := Nat.mod_lt (total + bs - 1) (show 0 < bs by omega)
  rw [Nat.mul_comm] at h1
  omega

theorem lt_ceil (total bs j : Nat) (hbs : 1 ≤ bs) (hj : j < (total + bs - 1) / bs) : j * bs < total := by
  have h1 : (j + 1) * bs ≤ total + bs - 1 := by
    have := (Nat.le_div_iff_mul_le (show 0 < bs by omega)).1 (show j + 1 ≤ (total + bs - 1) / bs by omega)
    exact this
  rw [Nat.succ_mul] at h1
  omega

theorem nonfinal_full (total bs j : Nat) (hbs : 1 ≤ bs) (hj : j + 1 < (total + bs - 1) / bs) :
    (j + 1) * bs ≤ total := by
  have := lt_ceil total bs (j + 1) hbs hj
  omega

theorem chunks_all {α : Type} (l : List α) (bs : Nat) (hbs : 1 ≤ bs) :
    (List.range ((l.length + bs - 1) / bs)).flatMap (fun j => (l.drop (j * bs)).take bs) = l := by
  rw [chunks_take, List.take_of_length_le (ceil_mul_ge l.length bs hbs)]

section
variable (bs : Nat) (chans : List (List Int)) (total : Nat)

theorem blocksOf_eq (hne : 1 ≤ chans.length) (hlen : ∀ c ∈ chans, c.length = total) :
    blocksOf bs chans = (List.range ((total + bs - 1) / bs)).map fun j => chans.map fun c => (c.drop (j * bs)).take bs := by
  unfold blocksOf
  cases chans with
  | nil => simp at hne
  | cons c cs => simp only [List.headD_cons, hlen c (by simp)]

theorem blocksOf_length (hne : 1 ≤ chans.length) (hlen : ∀ c ∈ chans, c.length = total) :
    (blocksOf bs chans).length = (total + bs - 1) / bs := by
  rw [blocksOf_eq bs chans total hne hlen]; simp

theorem block_headD (hne : 1 ≤ chans.length) (hlen : ∀ c ∈ chans, c.length = total) (j : Nat) :
    ((chans.map fun c => (c.drop (j * bs)).take bs).headD []).length = min bs (total - j * bs) := by
  cases chans with
  | nil => simp at hne
  | cons c cs =>
    simp only [List.map_cons, List.headD_cons, List.length_take, List.length_drop, hlen c (by simp)]

theorem blocksOf_ok (nch bps : Nat) (hbs : 1 ≤ bs) (hne : 1 ≤ chans.length) (hnch : chans.length = nch)
    (hlen : ∀ c ∈ chans, c.length = total) (hx : ∀ c ∈ chans, ∀ x ∈ c, SubFrame.inRange bps x = true) :
    ∀ b ∈ blocksOf bs chans, BlockOk nch bps bs b := by
  intro b hb
  rw [blocksOf_eq bs chans total hne hlen] at hb
  simp only [List.mem_map, List.mem_range] at hb
  obtain ⟨j, hj, rfl⟩ := hb
  have hjt := lt_ceil total bs j hbs hj
  have hh := block_headD bs chans total hne hlen j
  refine ⟨by simp [hnch], ?_, by rw [hh]; omega, by rw [hh]; omega, ?_⟩
  · intro c hc
    simp only [List.mem_map] at hc
    obtain ⟨c', hc', rfl⟩ := hc
    rw [hh, List.length_take, List.length_drop, hlen c' hc']
  · intro c hc x hxm
    simp only [List.mem_map] at hc
    obtain ⟨c', hc', rfl⟩ := hc
    exact hx c' hc' x (List.mem_of_mem_drop (List.mem_of_mem_take hxm))

/-- Sizes of the blocks: block `j` holds `min bs (total - j·bs)` samples per channel. -/
theorem blocksOf_sizes (hne : 1 ≤ chans.length) (hlen : ∀ c ∈ chans, c.length = total) :
    (blocksOf bs chans).map (fun b => (b.headD []).length) =
      (List.range ((total + bs - 1) / bs)).map fun j => min bs (total - j * bs) := by
  rw [blocksOf_eq bs chans total hne hlen, List.map_map]
  apply List.map_congr_left
  intro j _
  exact block_headD bs chans total hne hlen j

theorem sizes_sum (hbs : 1 ≤ bs) :
    ((List.range ((total + bs - 1) / bs)).map fun j => min bs (total - j * bs)).sum = total := by
  have h := chunks_all (List.replicate total (0 : Nat)) bs hbs
  have hl := congrArg List.length h
  rw [List.length_flatMap, List.length_replicate] at hl
  have e : ((List.range ((total + bs - 1) / bs)).map fun j => min bs (total - j * bs)) =
      (List.range ((total + bs - 1) / bs)).map
        (fun a => (List.take bs (List.drop (a * bs) (List.replicate total (0 : Nat)))).length) := by
    apply List.map_congr_left
    intro j _
    simp
  rw [e, hl]

/-- The decoder's reassembly of the channels from the blocks. -/
theorem blocksOf_audio (hbs : 1 ≤ bs) (hne : 1 ≤ chans.length) (hlen : ∀ c ∈ chans, c.length = total) :
    (List.range chans.length).map (fun c => (blocksOf bs chans).flatMap fun b => b.getD c []) = chans := by
  rw [blocksOf_eq bs chans total hne hlen]
  apply List.ext_getElem
  · simp
  · intro c h1 h2
    simp only [List.length_map, List.length_range] at h1
    rw [List.getElem_map, List.getElem_range, List.flatMap_map]
    have : ∀ j, ((chans.map fun c => (c.drop (j * bs)).take bs).getD c []) = (chans[c].drop (j * bs)).take bs := by
      intro j
      rw [List.getD_eq_getElem?_getD, List.getElem?_map, List.getElem?_eq_getElem h1]
      rfl
    simp only [this]
    have hc := hlen chans[c] (List.getElem_mem h1)
    have := chunks_all chans[c] bs hbs
    rw [hc] at this
    exact this

end

end Strict
end FlacVerif
