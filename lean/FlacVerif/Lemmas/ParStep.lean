/-
Relational presentation of `Par.step` (one constructor per enabled case) and its equivalence with
the executable function. All invariants are proved by case analysis on `Step`.
-/
import FlacVerif.Model.Par
namespace FlacVerif.Par

inductive Step (p : Params) (s : State) : Ev → State → Prop
  | refill_recv (id : Nat) (rest : List Nat) (hm : s.main = .recv) (hq : s.refillQ = id :: rest) :
      Step p s (.refill_recv id) { s with main := .locked id, refillQ := rest }
  | md5_data (id : Nat) (b : Block) (x : Buf) (hm : s.main = .locked id)
      (hnf : p.readFailAt ≠ some s.k) (hcap : s.md5Q.length < md5Cap)
      (hb : p.blocks[s.k]? = some b) (hx : s.bufs[id]? = some x) :
      Step p s (.md5_send b.bytes.length)
        { s with main := .filledMd5 id, md5Q := s.md5Q ++ [b.bytes],
                 bufs := s.bufs.set id { x with blk := b } }
  | md5_eof (id : Nat) (hm : s.main = .locked id)
      (hnf : p.readFailAt ≠ some s.k) (hcap : s.md5Q.length < md5Cap)
      (hb : p.blocks[s.k]? = none) (he : p.eofSendsEmpty = true) :
      Step p s (.md5_send 0) { s with main := .eofEmpty id, md5Q := s.md5Q ++ [[]] }
  | md5_stop (hm : s.main = .reqStop) (hcap : s.md5Q.length < md5Cap) :
      Step p s (.md5_send 0) { s with main := .joinH, md5Q := s.md5Q ++ [[]] }
  | f_filled (id : Nat) (x : Buf) (hm : s.main = .filledMd5 id) (hx : s.bufs[id]? = some x) :
      Step p s (.f_filled id s.k)
        { s with main := .enq id, bufs := s.bufs.set id { x with num := some s.k } }
  | f_eof_plain (id : Nat) (hm : s.main = .locked id) (hnf : p.readFailAt ≠ some s.k)
      (hk : p.blocks.length ≤ s.k) (he : p.eofSendsEmpty = false) :
      Step p s (.f_eof id) { s with main := afterStop p.W }
  | f_eof_empty (id : Nat) (hm : s.main = .eofEmpty id) :
      Step p s (.f_eof id) { s with main := afterStop p.W }
  | f_read_err (id : Nat) (hm : s.main = .locked id) (hf : p.readFailAt = some s.k) :
      Step p s (.f_read_err id) { s with main := afterStop p.W, readErr := true }
  | enc_send_some (id : Nat) (hm : s.main = .enq id) (hcap : s.encodeQ.length < p.encodeCap) :
      Step p s (.encode_send (some id))
        { s with main := .recv, k := s.k + 1, encodeQ := s.encodeQ ++ [some id] }
  | enc_send_none (r : Nat) (hm : s.main = .stop (r + 1))
      (hcap : s.encodeQ.length < p.encodeCap) :
      Step p s (.encode_send none) { s with main := afterStop r, encodeQ := s.encodeQ ++ [none] }
  | joined_hasher (hm : s.main = .joinH) (hh : s.hasher = .exited) :
      Step p s .m_joined_hasher { s with main := if p.W = 0 then .done else .joinW 0 }
  | joined_worker (j : Nat) (hm : s.main = .joinW j) (hj : j < s.exitedCount) :
      Step p s .m_joined_worker { s with main := if p.W ≤ j + 1 then .done else .joinW (j + 1) }
  | enc_recv_some (w id : Nat) (rest : List (Option Nat)) (hw : s.workers[w]? = some .idle)
      (hq : s.encodeQ = some id :: rest) :
      Step p s (.encode_recv w (some id))
        { s with encodeQ := rest, workers := s.workers.set w (.got id) }
  | enc_recv_none (w : Nat) (rest : List (Option Nat)) (hw : s.workers[w]? = some .idle)
      (hq : s.encodeQ = none :: rest) :
      Step p s (.encode_recv w none) { s with encodeQ := rest, workers := s.workers.set w .exited }
  | w_lock (w id n : Nat) (x : Buf) (hw : s.workers[w]? = some (.got id))
      (hx : s.bufs[id]? = some x) (hn : x.num = some n) (hl : s.main.lockedBuf ≠ some id) :
      Step p s (.w_lock w id n) { s with workers := s.workers.set w (.encoded id n (enc n x.blk)) }
  | refill_send (w id n : Nat) (res : Option OutFrame)
      (hw : s.workers[w]? = some (.encoded id n res)) (hcap : s.refillQ.length < p.refillCap) :
      Step p s (.refill_send w id)
        { s with refillQ := s.refillQ ++ [id], workers := s.workers.set w (.sent id n res) }
  | w_push (w id n : Nat) (f : OutFrame) (hw : s.workers[w]? = some (.sent id n (some f))) :
      Step p s (.w_push w id n)
        { s with sink := insertKey n f s.sink, workers := s.workers.set w .idle }
  | w_err (w id n : Nat) (hw : s.workers[w]? = some (.sent id n none)) :
      Step p s (.w_err w id n)
        { s with errors := insertKey n () s.errors, workers := s.workers.set w .idle }
  | md5_recv_stop (rest : List (List Nat)) (hh : s.hasher = .running) (hq : s.md5Q = [] :: rest) :
      Step p s (.md5_recv 0) { s with md5Q := rest, hasher := .exited }
  | md5_recv_data (b : List Nat) (rest : List (List Nat)) (hh : s.hasher = .running)
      (hq : s.md5Q = b :: rest) (hb : b ≠ []) :
      Step p s (.md5_recv b.length) { s with md5Q := rest, hashed := s.hashed ++ b }

theorem step_of_Step {p : Params} {s s' : State} {e : Ev} (h : Step p s e s') :
    step p s e = some s' := by
  cases h <;> simp_all [step]

theorem Step_of_step {p : Params} {s s' : State} {e : Ev} (h : step p s e = some s') :
    Step p s e s' := by
  cases e
  case encode_send x =>
    cases x <;> simp only [step] at h <;> (repeat' (split at h)) <;> (try (simp at h; done))
      <;> cases h <;> (repeat (cases ‹_ ∧ _›)) <;> (try subst_vars)
      <;> (constructor <;> first | assumption | (simp_all; done))
  case m_joined_hasher =>
    simp only [step] at h
    split at h
    · cases h; exact Step.joined_hasher ‹_› ‹_›
    · simp at h
  case m_joined_worker =>
    simp only [step] at h
    split at h
    · split at h
      · cases h; exact Step.joined_worker _ ‹_› ‹_›
      · simp at h
    · simp at h
  all_goals simp only [step] at h
  all_goals repeat' (split at h)
  all_goals try (simp at h; done)
  all_goals cases h
  all_goals repeat (cases ‹_ ∧ _›)
  all_goals try subst_vars
  all_goals first
    | exact Step.f_eof_empty _ ‹_›
    | (constructor <;> first | assumption | (simp_all; done))

theorem step_iff {p : Params} {s s' : State} {e : Ev} : step p s e = some s' ↔ Step p s e s' :=
  ⟨Step_of_step, step_of_Step⟩

/-- States reachable from `init p` by any interleaving of enabled steps. -/
inductive Reaches (p : Params) : State → Prop
  | init : Reaches p (init p)
  | step {s s' : State} {e : Ev} : Reaches p s → step p s e = some s' → Reaches p s'

theorem run_append {p : Params} {s : State} {evs : List Ev} {e : Ev} :
    run p s (evs ++ [e]) = (run p s evs).bind (fun s' => step p s' e) := by
  induction evs generalizing s with
  | nil => simp only [List.nil_append, run, Option.bind]; cases step p s e <;> rfl
  | cons a evs ih =>
    simp only [List.cons_append, run]
    cases step p s a with
    | none => rfl
    | some s1 => exact ih

theorem Reaches_of_run {p : Params} {s s' : State} {evs : List Ev} (hs : Reaches p s)
    (h : run p s evs = some s') : Reaches p s' := by
  induction evs generalizing s with
  | nil => simp only [run, Option.some.injEq] at h; exact h ▸ hs
  | cons e evs ih =>
    simp only [run] at h
    cases hstep : step p s e with
    | none => simp [hstep] at h
    | some s1 => rw [hstep] at h; exact ih (Reaches.step hs hstep) h

theorem Reaches_iff_run {p : Params} {s : State} :
    Reaches p s ↔ ∃ evs, run p (init p) evs = some s := by
  constructor
  · intro h
    induction h with
    | init => exact ⟨[], rfl⟩
    | step _ hstep ih =>
      obtain ⟨evs, hevs⟩ := ih
      exact ⟨evs ++ [_], by rw [run_append, hevs]; exact hstep⟩
  · rintro ⟨evs, h⟩
    exact Reaches_of_run Reaches.init h

theorem replayFrom_ok_iff {p : Params} {i : Nat} {s s' : State} {evs : List Ev} :
    replayFrom p i s evs = .ok s' ↔ run p s evs = some s' := by
  induction evs generalizing i s with
  | nil => simp [replayFrom, run]
  | cons e evs ih =>
    simp only [replayFrom, run]
    cases step p s e with
    | none => simp
    | some s1 => exact ih

theorem replay_ok_iff {p : Params} {s : State} {evs : List Ev} :
    replay p evs = .ok s ↔ run p (init p) evs = some s := replayFrom_ok_iff

theorem Reaches_iff_replay {p : Params} {s : State} :
    Reaches p s ↔ ∃ evs, replay p evs = .ok s := by
  simp only [Reaches_iff_run, replay_ok_iff]

end FlacVerif.Par
