/-
Extras, part 3: the parser mirror reads back predicted sub-frames under the WEAK well-formedness
`SubFrame.WF'` (warm-up length `≤` block size instead of `<`): the strict clause of `SubFrame.WF` is
not used by the round-trip proofs of `Lemmas/RepoRoundTrip.lean`, and the public constructors accept the
corner "warm-up = whole block" (`C18_fixed_not_WF`). Plus: what `FrameHeader::new` builds is a header
the parser can produce (`Repo.HdrOk`).
-/
import FlacVerif.Lemmas.RepoRoundTripFrame
import FlacVerif.Lemmas.Verify
namespace FlacVerif.Repo
open PResult

/-- `fixedLpc_read` from `WF'`. -/
theorem fixedLpc_read' (warm : List Int) (res : Residual) (b : Nat) (k : Bits)
    (hwf : (SubFrame.fixed warm res b).WF') (hok : SubOk (.fixed warm res b)) :
    fixedLpc res.blockSize b ((SubFrame.fixed warm res b).bits ++ k) = .ok (.fixed warm res b, k) := by
  obtain ⟨hl4, hlw, hres, _, hb1, _, hwr⟩ := hwf
  obtain ⟨hb2, hq, hbs⟩ := hok
  unfold fixedLpc
  simp only [SubFrame.bits]
  have hv : 0x10 ||| (warm.length <<< 1) = 16 + 2 * warm.length := or_shl1 4 warm.length (by omega)
  rw [hv, List.append_assoc, List.append_assoc, subframeHeader_read _ _ (by omega) (by omega)]
  simp only [ok_bind]
  have htt : (16 + 2 * warm.length) / 2 = 8 + warm.length := by omega
  rw [htt]
  have hc : ¬ ¬ (8 ≤ 8 + warm.length ∧ 8 + warm.length ≤ 12) := by omega
  rw [if_neg hc, usub_ok _ _ _ (by omega)]
  simp only [ok_bind]
  have ho : 8 + warm.length - 8 = warm.length := by omega
  rw [ho, rawSamples_read b hb1 hb2 warm _ hwr]
  simp only [ok_bind]
  have h4 : ¬ warm.length > 4 := by omega
  rw [if_neg h4, hlw, residual_read res hres hq hbs k]
  have hmod : b % 256 = b := Nat.mod_eq_of_lt (by omega)
  simp [hmod]

/-- `lpc_read` from `WF'`. -/
theorem lpc_read' (warm coefs : List Int) (shift : Int) (precision : Nat) (res : Residual) (b : Nat) (k : Bits)
    (hwf : (SubFrame.lpc warm coefs shift precision res b).WF')
    (hok : SubOk (.lpc warm coefs shift precision res b)) :
    lpc res.blockSize b ((SubFrame.lpc warm coefs shift precision res b).bits ++ k) =
      .ok (.lpc warm coefs shift precision res b, k) := by
  obtain ⟨hc1, _, hwc, hlw, hres, _, hp1, hp2, hs0, hs1, hcr, hb1, _, hwr⟩ := hwf
  obtain ⟨hb2, hc24, hq, hbs⟩ := hok
  unfold lpc
  simp only [SubFrame.bits]
  have hv : 0x40 ||| ((coefs.length - 1) <<< 1) = 64 + 2 * (coefs.length - 1) :=
    or_shl1 6 (coefs.length - 1) (by omega)
  rw [hv]
  simp only [List.append_assoc]
  rw [subframeHeader_read _ _ (by omega) (by omega)]
  simp only [ok_bind]
  have htt : (64 + 2 * (coefs.length - 1)) / 2 = 32 + (coefs.length - 1) := by omega
  rw [htt]
  have hc : ¬ ¬ (0x20 ≤ 32 + (coefs.length - 1) ∧ 32 + (coefs.length - 1) < 0x40) := by omega
  rw [if_neg hc, usub_ok _ _ _ (by omega)]
  simp only [ok_bind]
  rw [uadd_ok 64 _ _ _ (by omega)]
  simp only [ok_bind]
  have ho : 32 + (coefs.length - 1) - 0x20 + 1 = warm.length := by omega
  rw [ho, rawSamples_read b hb1 hb2 warm _ hwr]
  simp only [ok_bind]
  have h24 : ¬ warm.length > 24 := by omega
  rw [if_neg h24, hwc, quantizedParameters_read coefs shift precision _ hc24 hs0 hs1 hp1 hp2 hcr]
  simp only [ok_bind]
  have hw' : coefs.length = res.warmup := by omega
  rw [hw', residual_read res hres hq hbs k]
  simp only [ok_bind]
  rw [passert_ok _ _ (by simp)]
  have hmod : b % 256 = b := Nat.mod_eq_of_lt (by omega)
  simp [hmod]

/-- `subframe_read` from `WF'`: `SubFrame::write` followed by `parser::subframe` is the identity on
every sub-frame that is well-formed in the weak sense and within the parser's own limits. -/
theorem subframe_read' (s : SubFrame) (hwf : s.WF') (hok : SubOk s) (k : Bits) :
    subframe s.blockSize s.bps (s.bits ++ k) = .ok (s, k) := by
  cases s with
  | constant n dc b => exact subframe_read _ (show SubFrame.WF (.constant n dc b) from hwf) hok k
  | verbatim xs b => exact subframe_read _ (show SubFrame.WF (.verbatim xs b) from hwf) hok k
  | fixed warm res b =>
    have hb2 : b ≤ 25 := hok.1
    have hl4 : warm.length ≤ 4 := hwf.1
    simp only [SubFrame.blockSize, SubFrame.bps]
    rw [subframe_asserts _ _ hb2]
    have hv := fixedLpc_read' warm res b k hwf hok
    have he : 0x10 ||| (warm.length <<< 1) = 16 + 2 * warm.length := or_shl1 4 warm.length (by omega)
    simp only [SubFrame.bits, List.append_assoc, he] at hv ⊢
    unfold alt
    rw [constant_reject _ _ _ _ (by omega) (by omega) (by omega)]
    simp only
    rw [hv]
  | lpc warm coefs shift precision res b =>
    have hb2 : b ≤ 25 := hok.1
    have hc24 : coefs.length ≤ 24 := hok.2.1
    have hc1 : 1 ≤ coefs.length := hwf.1
    simp only [SubFrame.blockSize, SubFrame.bps]
    rw [subframe_asserts _ _ hb2]
    have hv := lpc_read' warm coefs shift precision res b k hwf hok
    have he : 0x40 ||| ((coefs.length - 1) <<< 1) = 64 + 2 * (coefs.length - 1) :=
      or_shl1 6 (coefs.length - 1) (by omega)
    simp only [SubFrame.bits, List.append_assoc, he] at hv ⊢
    unfold alt
    rw [constant_reject _ _ _ _ (by omega) (by omega) (by omega)]
    simp only
    rw [fixedLpc_reject _ _ _ _ (by omega) (by omega) (by omega)]
    simp only
    rw [hv]

/-! ### block-size and sample-rate codes of the constructors -/

theorem specOk_fromSize (n : Nat) (h2 : n ≤ 32767) (bss : BlockSizeSpec)
    (h : BlockSizeSpec.fromSize n = some bss) : SpecOk bss := by
  unfold BlockSizeSpec.fromSize at h
  split at h
  · cases h; trivial
  · split at h
    · next hc =>
      cases h
      rcases hc with hc | hc | hc | hc <;> subst hc <;> decide
    · split at h
      · next hc =>
        cases h
        rcases hc with hc | hc | hc | hc | hc | hc | hc | hc <;> subst hc <;> first | decide | omega
      · split at h
        · cases h
        · split at h
          · cases h; show n - 1 < 256; omega
          · cases h; show n - 1 < 65536; omega

theorem lookup_table_range (freq t : Nat) (h : sampleRateTable.lookup freq = some t) : 1 ≤ t ∧ t ≤ 11 := by
  unfold sampleRateTable at h
  simp only [List.lookup] at h
  repeat' split at h
  all_goals first | (cases h; omega) | cases h

theorem srOk_fromFreq (rate : Nat) (srs : SampleRateSpec) (h : SampleRateSpec.fromFreq rate = some srs) :
    SrOk srs := by
  unfold SampleRateSpec.fromFreq at h
  split at h
  · next t ht => cases h; exact lookup_table_range rate t ht
  · split at h
    · next hc => cases h; exact hc.2
    · split at h
      · next hc => cases h; exact hc.2
      · split at h
        · next hc => cases h; exact hc
        · cases h

theorem chOk_of_verify (a : ChannelAssignment) (h : a.verify = true) : ChOk a := by
  cases a with
  | independent n =>
    simp only [ChannelAssignment.verify, Bool.and_eq_true, decide_eq_true_eq] at h
    exact h
  | leftSide => trivial
  | rightSide => trivial
  | midSide => trivial

theorem sampleSizeTag_lt (bps : Nat) : sampleSizeTag bps < 8 := by
  unfold sampleSizeTag
  repeat' split
  all_goals omega

/-- What `FrameHeader::new` builds is a header the parser can produce. -/
theorem hdrOk_of_new (n : Nat) (asg : ChannelAssignment) (bps rate : Nat) (v : Bool) (num : Nat)
    (h : FrameHeader) (hh : FrameHeader.new n asg bps rate v num = some h) (hnum : v = false → num < 2 ^ 32) :
    HdrOk h := by
  unfold FrameHeader.new at hh
  split at hh
  · cases hh
  next hbs =>
  split at hh
  · cases hh
  next bss hbss =>
  split at hh
  · cases hh
  next hw =>
  simp only at hh
  split at hh
  · cases hh
  next htag =>
  split at hh
  · cases hh
  next hasg =>
  split at hh
  · cases hh
  next hnum' =>
  split at hh
  · cases hh
  next srs hsrs =>
  cases hh
  have hbs' := (VerifyL.verifyBlockSize_iff n).mp (by simpa using hbs)
  refine ⟨specOk_fromSize n hbs'.2 bss hbss, srOk_fromFreq rate srs hsrs,
    chOk_of_verify asg (by simpa using hasg), sampleSizeTag_lt bps, ?_⟩
  cases v with
  | true => simp
  | false => simpa using hnum rfl

end FlacVerif.Repo
