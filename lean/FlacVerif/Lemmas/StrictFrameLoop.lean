/-
Strict round trip (C01/C02), part 13: the channel loop of `readFrame` as a structural recursion, and
its result on the concatenated sub-frame bits.
-/
import FlacVerif.Lemmas.StrictFrameCut
namespace FlacVerif
namespace Strict
open Rfc

/-- Sample width of channel `ch` under channel-assignment code `chCode` (as `readFrame` computes it). -/
def widthOf (chCode b ch : Nat) : Nat :=
  if (chCode = 8 ∧ ch = 1) ∨ (chCode = 9 ∧ ch = 0) ∨ (chCode = 10 ∧ ch = 1) then b + 1 else b

/-- The channel loop of `readFrame`, structurally recursive: channels `ch, ch+1, …` (`cnt` of them). -/
def readSubframes (n b chCode : Nat) : (cnt ch : Nat) → Bits → R (List SubRep × Bits)
  | 0, _, bs => .ok ([], bs)
  | c + 1, ch, bs => do
    let (s, t) ← readSubframe n (widthOf chCode b ch) bs
    let (ss, t') ← readSubframes n b chCode c (ch + 1) t
    pure (s :: ss, t')

theorem frameLoopBody_eq (n b chCode ch : Nat) (rest : Bits) (subs : List SubRep) :
    frameLoopBody n b chCode ch (rest, subs) =
      (readSubframe n (widthOf chCode b ch) rest >>= fun x => pure (ForInStep.yield (x.2, x.1 :: subs))) := rfl

theorem frameLoop_list (n b chCode : Nat) (cnt ch : Nat) (rest : Bits) (subs : List SubRep) :
    forIn (List.range' ch cnt) (rest, subs) (frameLoopBody n b chCode) =
      (readSubframes n b chCode cnt ch rest >>= fun r => pure (r.2, r.1.reverse ++ subs)) := by
  induction cnt generalizing ch rest subs with
  | zero => rfl
  | succ c ih =>
    rw [List.range'_succ, List.forIn_cons, readSubframes, frameLoopBody_eq]
    cases hr : readSubframe n (widthOf chCode b ch) rest with
    | error e => rfl
    | ok v =>
      obtain ⟨s, t⟩ := v
      simp only [ok_bind, pure_eq]
      rw [ih (ch + 1) t (s :: subs)]
      cases hrs : readSubframes n b chCode c (ch + 1) t with
      | error e => rfl
      | ok w =>
        obtain ⟨ss, t'⟩ := w
        simp only [ok_bind, pure_eq, List.reverse_cons, List.append_assoc, List.singleton_append]

/-- The `for ch in [0:nch]` loop of `readFrame` is `readSubframes`. -/
theorem frameLoop_eq (n b chCode nch : Nat) (bs : Bits) :
    forIn [0:nch] (bs, ([] : List SubRep)) (frameLoopBody n b chCode) =
      (readSubframes n b chCode nch 0 bs >>= fun r => pure (r.2, r.1.reverse)) := by
  rw [Std.Legacy.Range.forIn_eq_forIn_range']
  have : ([0:nch] : Std.Legacy.Range).size = nch := by simp [Std.Legacy.Range.size]
  rw [this, frameLoop_list]
  simp

/-- Reading the concatenated bits of a list of sub-frames, each of which is read back (whatever
follows it) with its own width. -/
theorem readSubframes_ok (n b chCode : Nat) (subs : List SubFrame) (raws : List (List Int)) (ch : Nat)
    (hlen : subs.length = raws.length)
    (h : ∀ i (h1 : i < subs.length) (h2 : i < raws.length), ∀ k, ∃ rep,
      readSubframe n (widthOf chCode b (ch + i)) (subs[i].bits ++ k) = .ok (rep, k) ∧ rep.samples = raws[i])
    (k : Bits) :
    ∃ reps, readSubframes n b chCode subs.length ch (subs.flatMap SubFrame.bits ++ k) = .ok (reps, k) ∧
      reps.map (·.samples) = raws := by
  induction subs generalizing raws ch with
  | nil =>
    have : raws = [] := List.eq_nil_of_length_eq_zero (by simpa using hlen.symm)
    subst this
    exact ⟨[], rfl, rfl⟩
  | cons s ss ih =>
    match raws, hlen with
    | r :: rs, hlen =>
      obtain ⟨rep, hrep, hsam⟩ := h 0 (by simp) (by simp) (ss.flatMap SubFrame.bits ++ k)
      simp only [Nat.add_zero, List.getElem_cons_zero] at hrep hsam
      obtain ⟨reps, hreps, hmap⟩ := ih rs (ch + 1) (by simpa using hlen) (fun i h1 h2 k' => by
        have := h (i + 1) (by simp; omega) (by simp; omega) k'
        simp only [List.getElem_cons_succ] at this
        rw [show ch + (i + 1) = ch + 1 + i by omega] at this
        exact this)
      refine ⟨rep :: reps, ?_, by simp [hsam, hmap]⟩
      rw [List.length_cons, readSubframes, List.flatMap_cons, List.append_assoc, hrep]
      simp only [ok_bind]
      rw [hreps]
      rfl

end Strict
end FlacVerif
