/-
Strict round trip (C01/C02), part 8: what `encodeSubframe` can return (case analysis of the
decision logic, for every oracle log).
-/
import FlacVerif.Lemmas.StrictSubDec
import FlacVerif.Model.Encode
namespace FlacVerif

/-- The invariants the integer tail of `quantize_parameters` enforces on a quantised LPC parameter
set, whatever the floating-point computation before it produced (at most `qlpc::MAX_ORDER = 24` coefficients:
`lpc_order ≤ 24` in a verified configuration, and the quantiser returns at most `lpc_order` coefficients; with
more, `estimated_qlpc` panics at the capacity of the warm-up vector). Entropy estimates are arbitrary. -/
def OEvent.Ok : OEvent → Prop
  | .qlpc coefs shift precision =>
      1 ≤ coefs.length ∧ coefs.length ≤ maxLpcOrder ∧ 1 ≤ precision ∧ precision ≤ 15 ∧ 0 ≤ shift ∧ shift ≤ 15 ∧
      ∀ c ∈ coefs, SubFrame.inRange precision c = true
  | .est _ _ => True

instance (e : OEvent) : Decidable e.Ok := by
  cases e <;> (unfold OEvent.Ok; infer_instance)

/-- Every parameter set of an `OEvent.Ok` log has at most 24 coefficients (`maxLpcOrder`; also the limit
`MAX_LPC_ORDER` of the repository's parser). -/
theorem OEvent.ok_order_le (log : List OEvent) (hok : ∀ e ∈ log, e.Ok) :
    ∀ c sh p, OEvent.qlpc c sh p ∈ log → c.length ≤ 24 :=
  fun _ _ _ hm => (hok _ hm).2.1

namespace Strict

theorem foldl_min_mem {α : Type} (key : α → Nat) (xs : List α) (x : α) :
    xs.foldl (fun best y => if key y < key best then y else best) x ∈ x :: xs := by
  induction xs generalizing x with
  | nil => simp
  | cons y ys ih =>
    rw [List.foldl_cons]
    have := ih (if key y < key x then y else x)
    simp only [List.mem_cons] at this ⊢
    rcases this with h | h
    · rw [h]; split
      · right; left; rfl
      · left; rfl
    · right; right; exact h

theorem firstMinBy_mem {α : Type} (key : α → Nat) (l : List α) (x : α) (h : firstMinBy key l = some x) : x ∈ l := by
  cases l with
  | nil => simp [firstMinBy] at h
  | cons a as =>
    simp only [firstMinBy, Option.some.injEq] at h
    rw [← h]; exact foldl_min_mem key as a

theorem mapM_mem {α β : Type} (F : α → Option β) (l : List α) (ys : List β) (hm : l.mapM F = some ys) :
    ∀ y ∈ ys, ∃ x ∈ l, F x = some y := by
  induction l generalizing ys with
  | nil =>
    simp only [List.mapM_nil, Option.pure_def, Option.some.injEq] at hm
    subst hm; intro y hy; simp at hy
  | cons a as ih =>
    simp only [List.mapM_cons, Option.pure_def, Option.bind_eq_bind, Option.bind_eq_some_iff,
      Option.some.injEq] at hm
    obtain ⟨y0, hy0, ys', hys, rfl⟩ := hm
    intro y hy
    simp only [List.mem_cons] at hy
    rcases hy with rfl | hy
    · exact ⟨a, by simp, hy0⟩
    · obtain ⟨x, hx, hF⟩ := ih ys' hys y hy
      exact ⟨x, by simp [hx], hF⟩

theorem takeEsts_sub (k : Nat) (log : List OEvent) (bs : List Nat) (l : List OEvent)
    (h : takeEsts k log = some (bs, l)) : ∀ e ∈ l, e ∈ log := by
  induction k generalizing log bs with
  | zero =>
    simp only [takeEsts, Option.some.injEq, Prod.mk.injEq] at h
    obtain ⟨_, rfl⟩ := h
    exact fun e he => he
  | succ k ih =>
    match log, h with
    | .est _ b :: log', h =>
      simp only [takeEsts, Option.map_eq_some_iff, Prod.mk.injEq] at h
      obtain ⟨⟨bs', l'⟩, h1, _, rfl⟩ := h
      intro e he
      exact List.mem_cons_of_mem _ (ih log' bs' h1 e he)
    | .qlpc _ _ _ :: _, h => simp [takeEsts] at h
    | [], h => simp [takeEsts] at h

/-- A fixed-predictor candidate: order at most 4, residual built from a successful search. -/
def FixedShape (cfg : SubCfg) (xs : List Int) (bps : Nat) (f : SubFrame) : Prop :=
  ∃ k prc, k ≤ 4 ∧ search (diffs k xs) k cfg.maxP = some prc ∧
    f = .fixed (xs.take k) (Residual.ofErrors (diffs k xs) k prc.order prc.ps) bps

/-- An LPC candidate: parameters from the log, residual from `compute_error` (which returned the flag
`true`: the candidate is dropped otherwise) and a successful search. -/
def LpcShape (cfg : SubCfg) (xs : List Int) (bps : Nat) (log : List OEvent) (f : SubFrame) : Prop :=
  ∃ coefs shift precision errors prc, OEvent.qlpc coefs shift precision ∈ log ∧
    computeError coefs shift.toNat xs = some (errors, true) ∧ search errors coefs.length cfg.maxP = some prc ∧
    f = .lpc (xs.take coefs.length) coefs shift precision
      (Residual.ofErrors errors coefs.length prc.order prc.ps) bps

theorem fixedCandidate_shape (cfg : SubCfg) (xs : List Int) (bps baseline : Nat) (log log1 : List OEvent)
    (c : Option SubFrame) (h : fixedCandidate cfg xs bps baseline log = some (c, log1)) :
    (∀ e ∈ log1, e ∈ log) ∧ ∀ f, c = some f → FixedShape cfg xs bps f := by
  unfold fixedCandidate at h
  simp only [] at h
  by_cases hbc : cfg.bitCount = true
  · rw [if_pos hbc] at h
    simp only [Option.bind_eq_bind, Option.bind_eq_some_iff] at h
    obtain ⟨cands, hc, h⟩ := h
    split at h
    · simp only [Option.some.injEq, Prod.mk.injEq] at h
      obtain ⟨rfl, rfl⟩ := h
      exact ⟨fun e he => he, fun f hf => by cases hf⟩
    · rename_i k prc bits hmin
      have hmem := firstMinBy_mem _ _ _ hmin
      obtain ⟨k0, hk0, hF⟩ := mapM_mem _ _ _ hc _ hmem
      simp only [Option.bind_eq_some_iff, Option.some.injEq, Prod.mk.injEq] at hF
      obtain ⟨prc0, hs, rfl, rfl, _⟩ := hF
      rw [List.mem_range] at hk0
      split at h
      · simp only [Option.some.injEq, Prod.mk.injEq] at h
        obtain ⟨rfl, rfl⟩ := h
        refine ⟨fun e he => he, fun f hf => ?_⟩
        simp only [Option.some.injEq] at hf
        exact ⟨k0, prc0, by omega, hs, hf.symm⟩
      · simp only [Option.some.injEq, Prod.mk.injEq] at h
        obtain ⟨rfl, rfl⟩ := h
        exact ⟨fun e he => he, fun f hf => by cases hf⟩
  · rw [if_neg hbc] at h
    simp only [Option.bind_eq_bind, Option.bind_eq_some_iff] at h
    obtain ⟨⟨ests, log2⟩, hte, h⟩ := h
    have hsub := takeEsts_sub _ _ _ _ hte
    simp only [] at h
    split at h
    · simp only [Option.some.injEq, Prod.mk.injEq] at h
      obtain ⟨rfl, rfl⟩ := h
      exact ⟨hsub, fun f hf => by cases hf⟩
    · rename_i k bits hmin
      have hmem := firstMinBy_mem _ _ _ hmin
      simp only [List.mem_map, List.mem_range, Prod.mk.injEq] at hmem
      obtain ⟨k0, hk0, rfl, _⟩ := hmem
      split at h
      · simp only [Option.bind_eq_some_iff, Option.some.injEq, Prod.mk.injEq] at h
        obtain ⟨res, hres, rfl, rfl⟩ := h
        refine ⟨hsub, fun f hf => ?_⟩
        simp only [Option.some.injEq] at hf
        unfold encodeResidual at hres
        simp only [Option.bind_eq_bind, Option.bind_eq_some_iff, Option.some.injEq] at hres
        obtain ⟨prc, hs, rfl⟩ := hres
        exact ⟨k0, prc, by omega, hs, hf.symm⟩
      · simp only [Option.some.injEq, Prod.mk.injEq] at h
        obtain ⟨rfl, rfl⟩ := h
        exact ⟨hsub, fun f hf => by cases hf⟩

theorem keepBelow_some (limit : Nat) (c : Option SubFrame) (f : SubFrame) (h : keepBelow limit c = some f) :
    c = some f := by
  unfold keepBelow at h
  rw [Option.filter_eq_some_iff] at h
  exact h.1

theorem fixedStage_shape (cfg : SubCfg) (xs : List Int) (bps baseline : Nat) (log log1 : List OEvent)
    (c : Option SubFrame) (h : fixedStage cfg xs bps baseline log = some (c, log1)) :
    (∀ e ∈ log1, e ∈ log) ∧ ∀ f, c = some f → 64 ≤ xs.length ∧ FixedShape cfg xs bps f := by
  unfold fixedStage at h
  split at h
  · rename_i hcond
    simp only [Option.map_eq_some_iff, Prod.mk.injEq] at h
    obtain ⟨⟨c0, l0⟩, hfc, hkb, rfl⟩ := h
    obtain ⟨h1, h2⟩ := fixedCandidate_shape cfg xs bps baseline log l0 c0 hfc
    refine ⟨h1, fun f hf => ?_⟩
    rw [hf] at hkb
    have hlen : 64 ≤ xs.length := by
      simp [minBlockForPrediction] at hcond
      have := of_decide_eq_false hcond.1
      omega
    exact ⟨hlen, h2 f (keepBelow_some _ _ _ hkb)⟩
  · simp only [Option.some.injEq, Prod.mk.injEq] at h
    obtain ⟨rfl, rfl⟩ := h
    exact ⟨fun e he => he, fun f hf => by cases hf⟩

theorem lpcStage_shape (cfg : SubCfg) (xs : List Int) (bps limit : Nat) (log log1 : List OEvent)
    (c : Option SubFrame) (h : lpcStage cfg xs bps limit log = some (c, log1)) :
    ∀ f, c = some f → 64 ≤ xs.length ∧ LpcShape cfg xs bps log f := by
  unfold lpcStage at h
  split at h
  · rename_i hcond
    simp only [Option.map_eq_some_iff, Prod.mk.injEq] at h
    obtain ⟨⟨c0, l0⟩, hlc, hkb, rfl⟩ := h
    intro f hf
    rw [hf] at hkb
    have hc0 := keepBelow_some _ _ _ hkb
    subst hc0
    have hlen : 64 ≤ xs.length := by
      simp [minBlockForPrediction] at hcond
      have := of_decide_eq_false hcond.1
      omega
    refine ⟨hlen, ?_⟩
    unfold lpcCandidate at hlc
    split at hlc
    · rename_i coefs shift precision log'
      simp only [Option.bind_eq_some_iff] at hlc
      obtain ⟨⟨errors, fits⟩, he, hlc⟩ := hlc
      cases fits with
      | false => simp at hlc
      | true =>
        simp only [if_true, Option.bind_eq_some_iff] at hlc
        obtain ⟨res, hres, hlc⟩ := hlc
        split at hlc
        case isFalse => cases hlc
        simp only [Option.some.injEq, Prod.mk.injEq] at hlc
        obtain ⟨rfl, _⟩ := hlc
        unfold encodeResidual at hres
        simp only [Option.bind_eq_bind, Option.bind_eq_some_iff, Option.some.injEq] at hres
        obtain ⟨prc, hs, rfl⟩ := hres
        exact ⟨coefs, shift, precision, errors, prc, by simp, he, hs, rfl⟩
    · cases hlc
  · simp only [Option.some.injEq, Prod.mk.injEq] at h
    obtain ⟨rfl, rfl⟩ := h
    intro f hf; cases hf

/-- Everything `encode_subframe` can return. -/
theorem encodeSubframe_shape (cfg : SubCfg) (xs : List Int) (bps : Nat) (log log' : List OEvent) (s : SubFrame)
    (h : encodeSubframe cfg xs bps log = some (s, log')) :
    (isConstant xs = true ∧ s = .constant xs.length (xs.headD 0) bps) ∨ s = .verbatim xs bps ∨
    (64 ≤ xs.length ∧ FixedShape cfg xs bps s) ∨
    (64 ≤ xs.length ∧ ∃ log1, (∀ e ∈ log1, e ∈ log) ∧ LpcShape cfg xs bps log1 s) := by
  unfold encodeSubframe at h
  split at h
  · rename_i hc
    simp only [Option.some.injEq, Prod.mk.injEq] at h
    simp only [Bool.and_eq_true] at hc
    exact Or.inl ⟨hc.2, h.1.symm⟩
  · simp only [Option.bind_eq_some_iff] at h
    obtain ⟨⟨fixed, log1⟩, hf, ⟨lpc, log2⟩, hl, hres⟩ := h
    simp only [Option.some.injEq, Prod.mk.injEq] at hres
    obtain ⟨hs, _⟩ := hres
    obtain ⟨hsub, hfx⟩ := fixedStage_shape cfg xs bps _ log log1 fixed hf
    have hlp := lpcStage_shape cfg xs bps _ log1 log2 lpc hl
    subst hs
    cases lpc with
    | some f =>
      obtain ⟨h1, h2⟩ := hlp f rfl
      exact Or.inr (Or.inr (Or.inr ⟨h1, log1, hsub, by simpa using h2⟩))
    | none =>
      cases fixed with
      | some f =>
        obtain ⟨h1, h2⟩ := hfx f rfl
        exact Or.inr (Or.inr (Or.inl ⟨h1, by simpa using h2⟩))
      | none => exact Or.inr (Or.inl (by simp))


theorem lpcStage_sub (cfg : SubCfg) (xs : List Int) (bps limit : Nat) (log log1 : List OEvent)
    (c : Option SubFrame) (h : lpcStage cfg xs bps limit log = some (c, log1)) : ∀ e ∈ log1, e ∈ log := by
  unfold lpcStage at h
  split at h
  · simp only [Option.map_eq_some_iff, Prod.mk.injEq] at h
    obtain ⟨⟨c0, l0⟩, hlc, _, rfl⟩ := h
    unfold lpcCandidate at hlc
    split at hlc
    · simp only [Option.bind_eq_some_iff] at hlc
      obtain ⟨⟨errors, fits⟩, _, hlc⟩ := hlc
      cases fits with
      | false =>
        simp only [Bool.false_eq_true, if_false, Option.some.injEq, Prod.mk.injEq] at hlc
        obtain ⟨_, rfl⟩ := hlc
        intro e he; exact List.mem_cons_of_mem _ he
      | true =>
        simp only [if_true, Option.bind_eq_some_iff] at hlc
        obtain ⟨_, _, hlc⟩ := hlc
        split at hlc
        case isFalse => cases hlc
        simp only [Option.some.injEq, Prod.mk.injEq] at hlc
        obtain ⟨_, rfl⟩ := hlc
        intro e he; exact List.mem_cons_of_mem _ he
    · cases hlc
  · simp only [Option.some.injEq, Prod.mk.injEq] at h
    obtain ⟨_, rfl⟩ := h
    exact fun e he => he

/-- `encode_subframe` only consumes oracle events: the remaining log is part of the given one. -/
theorem encodeSubframe_sub (cfg : SubCfg) (xs : List Int) (bps : Nat) (log log' : List OEvent) (s : SubFrame)
    (h : encodeSubframe cfg xs bps log = some (s, log')) : ∀ e ∈ log', e ∈ log := by
  unfold encodeSubframe at h
  split at h
  · simp only [Option.some.injEq, Prod.mk.injEq] at h
    obtain ⟨_, rfl⟩ := h
    exact fun e he => he
  · simp only [Option.bind_eq_some_iff] at h
    obtain ⟨⟨fixed, log1⟩, hf, ⟨lpc, log2⟩, hl, hres⟩ := h
    simp only [Option.some.injEq, Prod.mk.injEq] at hres
    obtain ⟨_, rfl⟩ := hres
    have h1 := (fixedStage_shape cfg xs bps _ log log1 fixed hf).1
    have h2 := lpcStage_sub cfg xs bps _ log1 log2 lpc hl
    exact fun e he => h1 e (h2 e he)

end Strict
end FlacVerif
