/-
Extras, part 4: C09 at frame and stream level in BITS WRITTEN. `C09_frame` bounds the reported sizes of
the sub-frames; here every sub-frame `encode_frame` returns is shown well-formed for EVERY oracle log
satisfying `OEvent.Ok` (no hypothesis on the LPC residual), so
C08 turns reported sizes into written sizes, for the frame and for the whole stream.
-/
import FlacVerif.Lemmas.ExtrasC13
import FlacVerif.Lemmas.StrictBlocks
import FlacVerif.Theorems.C08
namespace FlacVerif

/-- `FrameHeader::count_bits` of the header `encode_fixed_size_frame` builds for a block of `n` samples,
sample rate `rate` and frame number `number`: 40 fixed bits (sync, codes, CRC-8), the UTF-8-like
number, the block-size immediate (0, 8 or 16 bits) and the sample-rate immediate (0, 8 or 16 bits). -/
def frameHeaderBits (n rate number : Nat) : Nat :=
  40 + 8 * utf8likeBytesize number + ((BlockSizeSpec.fromSize n).map (·.extraBits.length)).getD 0 +
    ((SampleRateSpec.fromFreq rate).getD .unspecified).extraBits.length

/-- `Frame::count_bits` of a frame with a header of `hdr` bits and `nch` verbatim sub-frames of `n`
samples of `bps` bits: header + sub-frames, padded to a whole byte, + CRC-16. -/
def verbatimFrameBits (hdr nch n bps : Nat) : Nat := (hdr + nch * verbatimBits n bps + 7) / 8 * 8 + 16

/-- The frame `encode_frame` would return if every channel were stored verbatim: same block-size,
sample-rate, sample-size codes and frame number, independent channels, verbatim sub-frames. -/
def verbatimFrame (f : Frame) (chans : List (List Int)) (bps : Nat) : Frame :=
  { header := { f.header with assignment := .independent chans.length },
    subframes := chans.map fun c => .verbatim c bps }

namespace Extras
open Count Strict

/-! ### well-formedness -/

theorem subframe_wf (cfg : SubCfg) (xs : List Int) (bps : Nat) (log log' : List OEvent) (s : SubFrame)
    (hn : 1 ≤ xs.length) (hlen : xs.length < 2 ^ 16) (hb : 1 ≤ bps ∧ bps ≤ 25)
    (hx : ∀ x ∈ xs, SubFrame.inRange bps x = true) (hmax : cfg.maxP ≤ 14)
    (hlog : ∀ e ∈ log, e.Ok)
    (h : encodeSubframe cfg xs bps log = some (s, log')) : s.WF := by
  rcases encodeSubframe_shape cfg xs bps log log' s h with ⟨_, rfl⟩ | rfl | ⟨h64, hs⟩ | ⟨h64, log1, hsub, hs⟩
  · exact ⟨hn, hb.1, by omega, hx _ (headD_mem xs hn)⟩
  · exact ⟨hn, hb.1, by omega, hx⟩
  · obtain ⟨_, _, _, _, hwf⟩ := subframe_fixed cfg xs bps s h64 hlen hb hx hmax hs []
    exact hwf
  · obtain ⟨coefs, shift, precision, errors, prc, hmem, hce, hsearch, rfl⟩ := hs
    obtain ⟨hc1, hc32, hp1, hp15, hs0, hs15, hcr⟩ := hlog _ (hsub _ hmem)
    replace hc32 : coefs.length ≤ 32 := by unfold maxLpcOrder at hc32; omega
    obtain ⟨hel, hef⟩ := computeError_fits coefs shift.toNat xs errors hce
    have hwf := residual_wf_of_search errors coefs.length cfg.maxP prc hef
      (by rw [hel]; omega) (by rw [hel]; exact hlen) hmax hsearch
    have hwl : (xs.take coefs.length).length = coefs.length := by rw [List.length_take]; omega
    refine ⟨hc1, hc32, hwl, by rw [hwl]; rfl, hwf, ?_, hp1, hp15, hs0, hs15, hcr, hb.1, by omega,
      fun x hxm => hx x (List.mem_of_mem_take hxm)⟩
    rw [hwl, ofErrors_blockSize, hel]; omega

theorem encodeChannels_wf (cfg : SubCfg) (asg : ChannelAssignment) (bps n : Nat) (hn : 1 ≤ n ∧ n < 2 ^ 16)
    (hmax : cfg.maxP ≤ 14) :
    ∀ (chans : List (List Int)) (ch : Nat) (log log' : List OEvent) (subs : List SubFrame),
      (∀ c ∈ chans, c.length = n) →
      (∀ i (h : i < chans.length), 1 ≤ bps + asg.bpsOffset (ch + i) ∧ bps + asg.bpsOffset (ch + i) ≤ 25 ∧
        ∀ x ∈ chans[i], SubFrame.inRange (bps + asg.bpsOffset (ch + i)) x = true) →
      (∀ e ∈ log, e.Ok) →
      encodeChannels cfg asg bps chans ch log = some (subs, log') → ∀ s ∈ subs, s.WF := by
  intro chans
  induction chans with
  | nil =>
    intro ch log log' subs _ _ _ h
    simp only [encodeChannels, Option.some.injEq, Prod.mk.injEq] at h
    obtain ⟨rfl, _⟩ := h
    intro s hs; simp at hs
  | cons c cs ih =>
    intro ch log log' subs hlen hrng hlog h
    simp only [encodeChannels, Option.bind_eq_bind, Option.bind_eq_some_iff, Option.some.injEq, Prod.mk.injEq] at h
    obtain ⟨⟨s, l1⟩, hs, ⟨ss, l2⟩, hss, hsub, _⟩ := h
    subst hsub
    have hc : c.length = n := hlen c (by simp)
    obtain ⟨hb1, hb25, hx⟩ := hrng 0 (by simp)
    simp only [Nat.add_zero, List.getElem_cons_zero] at hb1 hb25 hx
    have hsub1 := encodeSubframe_sub cfg c _ log l1 s hs
    have hw := subframe_wf cfg c _ log l1 s (by omega) (by omega) ⟨hb1, hb25⟩ hx hmax hlog hs
    have hrest := ih (ch + 1) l1 l2 ss (fun x hx => hlen x (by simp [hx]))
      (fun i hi => by
        have := hrng (i + 1) (by simp; omega)
        simp only [List.getElem_cons_succ] at this
        rw [show ch + (i + 1) = ch + 1 + i by omega] at this
        exact this)
      (fun e he => hlog e (hsub1 e he)) hss
    intro s' hs'
    simp only [List.mem_cons] at hs'
    rcases hs' with rfl | hs'
    · exact hw
    · exact hrest s' hs'

/-- Everything `encode_frame` returns: well-formed sub-frames, and the header `headerFor` builds for
one of the four assignments the stereo selection can produce. -/
theorem encodeFrame_wf (cfg : SubCfg) (st : StereoCfg) (chans : List (List Int)) (bps rate number n : Nat)
    (log log' : List OEvent) (f : Frame)
    (hch : 1 ≤ chans.length ∧ chans.length ≤ 8) (hlen : ∀ c ∈ chans, c.length = n) (hn : 1 ≤ n ∧ n < 2 ^ 16)
    (hb : 1 ≤ bps ∧ bps ≤ 24) (hx : ∀ c ∈ chans, ∀ x ∈ c, SubFrame.inRange bps x = true)
    (hmax : cfg.maxP ≤ 14) (hlog : ∀ e ∈ log, e.Ok)
    (h : encodeFrame cfg st chans bps rate number log = some (f, log')) :
    (∀ s ∈ f.subframes, s.WF) ∧ ∃ asg, asg.tag ≤ 15 ∧ headerFor asg n bps rate number = some f.header := by
  have hhead : (chans.headD []).length = n := by
    cases chans with
    | nil => simp at hch
    | cons c cs => exact hlen c (by simp)
  unfold encodeFrame at h
  simp only [Option.bind_eq_some_iff] at h
  obtain ⟨⟨indep, l1⟩, hi, h⟩ := h
  rw [hhead] at h
  have hiwf := encodeChannels_wf cfg (.independent chans.length) bps n hn hmax chans 0 log l1 indep
    hlen (fun i hi' => ⟨by simp [ChannelAssignment.bpsOffset]; omega, by simp [ChannelAssignment.bpsOffset]; omega,
      by simpa [ChannelAssignment.bpsOffset] using hx _ (List.getElem_mem hi')⟩) hlog hi
  have hisub := encodeChannels_sub cfg _ bps chans 0 log l1 indep hi
  split at h
  · rename_i l r sl sr heq
    simp only at heq
    subst heq
    simp only [Option.bind_eq_some_iff] at h
    obtain ⟨⟨msSubs, l2⟩, hm, h⟩ := h
    have hll : l.length = n := hlen l (by simp)
    have hrl : r.length = n := hlen r (by simp)
    obtain ⟨hmidr, hsider⟩ := midSide_range bps hb.1 l r (hx l (by simp)) (hx r (by simp))
    have hmwf := encodeChannels_wf cfg .midSide bps n hn hmax [midOf l r, sideOf l r] 0 l1 l2 msSubs
      (by
        intro c hc
        simp only [List.mem_cons, List.not_mem_nil, or_false] at hc
        rcases hc with rfl | rfl <;> simp [hll, hrl])
      (two_facts (fun i c => 1 ≤ bps + ChannelAssignment.midSide.bpsOffset (0 + i) ∧
          bps + ChannelAssignment.midSide.bpsOffset (0 + i) ≤ 25 ∧
          ∀ x ∈ c, SubFrame.inRange (bps + ChannelAssignment.midSide.bpsOffset (0 + i)) x = true) _ _
        ⟨by simp [ChannelAssignment.bpsOffset]; omega, by simp [ChannelAssignment.bpsOffset]; omega,
          by simpa [ChannelAssignment.bpsOffset] using hmidr⟩
        ⟨by simp [ChannelAssignment.bpsOffset], by simp [ChannelAssignment.bpsOffset]; omega,
          by simpa [ChannelAssignment.bpsOffset] using hsider⟩)
      (fun e he => hlog e (hisub e he)) hm
    split at h
    · rename_i sm ss heq2
      simp only at heq2
      subst heq2
      simp only [Option.map_eq_some_iff, Prod.mk.injEq] at h
      obtain ⟨hdr, hhdr, hf, _⟩ := h
      subst hf
      have wsl : sl.WF := hiwf sl (by simp)
      have wsr : sr.WF := hiwf sr (by simp)
      have wsm : sm.WF := hmwf sm (by simp)
      have wss : ss.WF := hmwf ss (by simp)
      refine ⟨?_, chooseStereo st (cnt sl) (cnt sr) (cnt sm) (cnt ss), ?_, hhdr⟩
      · intro s hs
        simp only [List.mem_cons, List.not_mem_nil, or_false] at hs
        rcases chooseStereo_cases st (cnt sl) (cnt sr) (cnt sm) (cnt ss) with ha | ha | ha | ha <;>
          rw [ha] at hs <;> simp only [selectChannels] at hs <;> rcases hs with rfl | rfl <;> assumption
      · rcases chooseStereo_cases st (cnt sl) (cnt sr) (cnt sm) (cnt ss) with ha | ha | ha | ha <;>
          rw [ha] <;> decide
    · exact absurd h (by simp)
  · split at h
    · exact absurd h (by simp)
    · rename_i chans _ _ _ _
      simp only [Option.map_eq_some_iff, Prod.mk.injEq] at h
      obtain ⟨hdr, hhdr, hf, _⟩ := h
      subst hf
      exact ⟨hiwf, .independent chans.length, by simp only [ChannelAssignment.tag]; omega, hhdr⟩

/-! ### header size -/

theorem headerFor_spec (asg : ChannelAssignment) (n bps rate number : Nat) (hdr : FrameHeader)
    (h : headerFor asg n bps rate number = some hdr) :
    hdr.count = frameHeaderBits n rate number ∧ hdr.number = number ∧ hdr.assignment = asg := by
  unfold headerFor at h
  simp only [Option.bind_eq_bind, Option.bind_eq_some_iff, Option.some.injEq] at h
  obtain ⟨bss, hbss, rfl⟩ := h
  refine ⟨?_, rfl, rfl⟩
  simp only [FrameHeader.count, frameHeaderBits, FrameHeader.number, hbss, Option.map_some, Option.getD_some,
    Bool.false_eq_true, if_false]

theorem utf8likeBytesize_le (v : Nat) (hv : v < 2 ^ 36) : utf8likeBytesize v ≤ 7 := by
  have hb : bitLen v ≤ 36 := (Repo.bitLen_le_iff v 36).2 hv
  unfold utf8likeBytesize
  simp only
  split
  · omega
  · have : (bitLen v - 2) / 5 ≤ 6 := by omega
    omega

theorem bsExtra_le (s : BlockSizeSpec) : s.extraBits.length ≤ 16 := by
  cases s <;> simp [BlockSizeSpec.extraBits]

theorem srExtra_le (s : SampleRateSpec) : s.extraBits.length ≤ 16 := by
  cases s <;> simp [SampleRateSpec.extraBits]

/-- No header is longer than 16 bytes (7-byte number, two 16-bit immediates). -/
theorem frameHeaderBits_le (n rate number : Nat) (hv : number < 2 ^ 36) : frameHeaderBits n rate number ≤ 128 := by
  unfold frameHeaderBits
  have h1 := utf8likeBytesize_le number hv
  have h2 : ((BlockSizeSpec.fromSize n).map (·.extraBits.length)).getD 0 ≤ 16 := by
    cases BlockSizeSpec.fromSize n with
    | none => simp
    | some s => simpa using bsExtra_le s
  have h3 := srExtra_le ((SampleRateSpec.fromFreq rate).getD .unspecified)
  omega

/-! ### one frame -/

theorem mapM_count (l : List SubFrame) (h : ∀ s ∈ l, ∃ c, s.count = some c) :
    l.mapM SubFrame.count = some (l.map cnt) := by
  induction l with
  | nil => rfl
  | cons s l ih =>
    obtain ⟨c, hc⟩ := h s (by simp)
    rw [List.mapM_cons, hc, ih (fun x hx => h x (by simp [hx]))]
    simp [cnt, hc]

theorem sum_map_const {α : Type} (l : List α) (g : α → Nat) (c : Nat) (h : ∀ x ∈ l, g x = c) :
    (l.map g).sum = l.length * c := by
  induction l with
  | nil => simp
  | cons x l ih =>
    rw [List.map_cons, List.sum_cons, h x (by simp), ih (fun y hy => h y (by simp [hy])), List.length_cons,
      Nat.succ_mul]
    omega

theorem verbatimFrameBits_mono (h1 h2 nch n bps : Nat) (h : h1 ≤ h2) :
    verbatimFrameBits h1 nch n bps ≤ verbatimFrameBits h2 nch n bps := by
  unfold verbatimFrameBits
  have : (h1 + nch * verbatimBits n bps + 7) / 8 ≤ (h2 + nch * verbatimBits n bps + 7) / 8 :=
    Nat.div_le_div_right (by omega)
  omega

/-- **C09, one frame, in bits written.** -/
theorem frame_size (cfg : SubCfg) (st : StereoCfg) (chans : List (List Int)) (bps rate number n : Nat)
    (log log' : List OEvent) (f : Frame)
    (hch : 1 ≤ chans.length ∧ chans.length ≤ 8) (hlen : ∀ c ∈ chans, c.length = n) (hn : 1 ≤ n ∧ n < 2 ^ 16)
    (hb : 1 ≤ bps ∧ bps ≤ 24) (hx : ∀ c ∈ chans, ∀ x ∈ c, SubFrame.inRange bps x = true)
    (hnum : number < 2 ^ 36) (hmax : cfg.maxP ≤ 14) (hlog : ∀ e ∈ log, e.Ok)
    (h : encodeFrame cfg st chans bps rate number log = some (f, log')) :
    ∃ fb, f.bits rfcCrc8 rfcCrc16 = some fb ∧ f.count = some fb.length ∧ 8 ∣ fb.length ∧
      f.header.count = frameHeaderBits n rate number ∧
      fb.length ≤ verbatimFrameBits (frameHeaderBits n rate number) chans.length n bps := by
  obtain ⟨hwf, asg, htag, hhdr⟩ := encodeFrame_wf cfg st chans bps rate number n log log' f hch hlen hn hb hx hmax hlog h
  obtain ⟨hcnt, hnumber, hasg⟩ := headerFor_spec asg n bps rate number f.header hhdr
  obtain ⟨fb, hfb, hfc, h8⟩ := C08_frame rfcCrc8 rfcCrc16 f (by rw [hnumber]; exact hnum) (by rw [hasg]; exact htag) hwf
  obtain ⟨htot, hsome⟩ := C09.C09_frame cfg st chans bps rate number n log log' f hn.1 hlen h
  refine ⟨fb, hfb, hfc, h8, hcnt, ?_⟩
  have hfc' := hfc
  unfold Frame.count at hfc'
  rw [mapM_count f.subframes hsome] at hfc'
  simp only [Option.bind_eq_bind, Option.bind_some, Option.some.injEq] at hfc'
  rw [← hfc', hcnt]
  unfold verbatimFrameBits
  unfold C09.subTotal at htot
  have : (frameHeaderBits n rate number + (f.subframes.map cnt).foldl (· + ·) 0 + 7) / 8 ≤
      (frameHeaderBits n rate number + chans.length * verbatimBits n bps + 7) / 8 :=
    Nat.div_le_div_right (by omega)
  omega

/-- The all-verbatim frame with the same header fields is serialisable and has exactly the size
`verbatimFrameBits`. -/
theorem verbatimFrame_size (f : Frame) (chans : List (List Int)) (bps n : Nat)
    (hch : chans.length ≤ 16) (hlen : ∀ c ∈ chans, c.length = n) (hn : 1 ≤ n)
    (hb : 1 ≤ bps ∧ bps ≤ 32) (hx : ∀ c ∈ chans, ∀ x ∈ c, SubFrame.inRange bps x = true)
    (hnum : f.header.number < 2 ^ 36) :
    ∃ vb, (verbatimFrame f chans bps).bits rfcCrc8 rfcCrc16 = some vb ∧
      vb.length = verbatimFrameBits f.header.count chans.length n bps := by
  have hwf : ∀ s ∈ (verbatimFrame f chans bps).subframes, s.WF := by
    intro s hs
    simp only [verbatimFrame, List.mem_map] at hs
    obtain ⟨c, hc, rfl⟩ := hs
    exact ⟨by rw [hlen c hc]; exact hn, hb.1, hb.2, hx c hc⟩
  obtain ⟨vb, hvb, hvc, _⟩ := C08_frame rfcCrc8 rfcCrc16 (verbatimFrame f chans bps)
    hnum
    (by simp only [verbatimFrame, ChannelAssignment.tag]; omega) hwf
  refine ⟨vb, hvb, ?_⟩
  unfold Frame.count at hvc
  have hm : (verbatimFrame f chans bps).subframes.mapM SubFrame.count =
      some ((verbatimFrame f chans bps).subframes.map cnt) :=
    mapM_count _ (fun s hs => by
      simp only [verbatimFrame, List.mem_map] at hs
      obtain ⟨c, _, rfl⟩ := hs
      exact ⟨_, rfl⟩)
  rw [hm] at hvc
  simp only [Option.bind_eq_bind, Option.bind_some, Option.some.injEq] at hvc
  rw [← hvc]
  unfold verbatimFrameBits
  have hsum : ((verbatimFrame f chans bps).subframes.map cnt).foldl (· + ·) 0 = chans.length * verbatimBits n bps := by
    rw [foldl_add]
    simp only [verbatimFrame, List.map_map]
    have : ∀ c ∈ chans, (cnt ∘ fun c => SubFrame.verbatim c bps) c = verbatimBits n bps := by
      intro c hc
      simp [cnt, SubFrame.count, verbatimBits, hlen c hc]
    exact sum_map_const chans _ _ this
  have hh : (verbatimFrame f chans bps).header.count = f.header.count := rfl
  rw [hsum, hh]

/-! ### the frame loop and the stream -/

/-- The bound of the whole frame loop: block `i` of the list is frame `number + i`. -/
def framesBound (nch bps rate : Nat) : List (List (List Int)) → Nat → Nat
  | [], _ => 0
  | b :: bs, number =>
    verbatimFrameBits (frameHeaderBits (b.headD []).length rate number) nch (b.headD []).length bps +
      framesBound nch bps rate bs (number + 1)

theorem encodeFrames_size (cfg : SubCfg) (st : StereoCfg) (bps rate nch bs : Nat)
    (hnch : 1 ≤ nch ∧ nch ≤ 8) (hbs : bs < 2 ^ 16) (hb : 1 ≤ bps ∧ bps ≤ 24) (hmax : cfg.maxP ≤ 14) :
    ∀ (blocks : List (List (List Int))) (number : Nat) (log log' : List OEvent) (frames : List Frame),
      (∀ b ∈ blocks, BlockOk nch bps bs b) → number + blocks.length ≤ 2 ^ 36 →
      (∀ e ∈ log, e.Ok) →
      encodeFrames cfg st bps rate blocks number log = some (frames, log') →
      ∃ fbs : List Bits,
        frames.mapM (Frame.bits rfcCrc8 rfcCrc16) = some fbs ∧
        frames.mapM Frame.count = some (fbs.map List.length) ∧
        fbs.flatten.length ≤ framesBound nch bps rate blocks number := by
  intro blocks
  induction blocks with
  | nil =>
    intro number log log' frames _ _ _ h
    simp only [encodeFrames, Option.some.injEq, Prod.mk.injEq] at h
    obtain ⟨rfl, _⟩ := h
    exact ⟨[], rfl, rfl, by simp [framesBound]⟩
  | cons b bs' ih =>
    intro number log log' frames hok hnum hlog h
    simp only [encodeFrames, Option.bind_eq_bind, Option.bind_eq_some_iff, Option.some.injEq, Prod.mk.injEq] at h
    obtain ⟨⟨f, l1⟩, hf, ⟨fs, l2⟩, hfs, rfl, _⟩ := h
    have hbk := hok b (by simp)
    have hsub := encodeFrame_sub cfg st b bps rate number log l1 f hf
    simp only [List.length_cons] at hnum
    obtain ⟨fb, hfb, hfc, _, _, hle⟩ := frame_size cfg st b bps rate number (b.headD []).length log l1 f
      (by rw [hbk.nch]; exact hnch) hbk.len ⟨hbk.pos, Nat.lt_of_le_of_lt hbk.le hbs⟩ hb hbk.range
      (by omega) hmax hlog hf
    obtain ⟨fbs, hm1, hm2, hle2⟩ := ih (number + 1) l1 l2 fs
      (fun x hx => hok x (by simp [hx])) (by omega) (fun e he => hlog e (hsub e he)) hfs
    refine ⟨fb :: fbs, ?_, ?_, ?_⟩
    · simp [List.mapM_cons, hfb, hm1]
    · simp [List.mapM_cons, hfc, hm2]
    · rw [hbk.nch] at hle
      simp only [List.flatten_cons, List.length_append, framesBound]
      omega

/-- `framesBound` as a sum over the numbered blocks. -/
theorem framesBound_eq (nch bps rate : Nat) :
    ∀ (blocks : List (List (List Int))) (number : Nat),
      framesBound nch bps rate blocks number =
        ((blocks.zipIdx number).map fun p =>
          verbatimFrameBits (frameHeaderBits (p.1.headD []).length rate p.2) nch (p.1.headD []).length bps).sum := by
  intro blocks
  induction blocks with
  | nil => intro number; simp [framesBound]
  | cons b bs ih =>
    intro number
    simp only [framesBound, List.zipIdx_cons, List.map_cons, List.sum_cons, ih (number + 1)]

theorem verbatimFrameBits_eq (hdr nch n bps : Nat) :
    verbatimFrameBits hdr nch n bps = 8 * ((hdr + nch * (8 + n * bps) + 7) / 8 + 2) := by
  unfold verbatimFrameBits verbatimBits
  omega

/-- `framesBound` with every header replaced by a common upper bound. -/
theorem framesBound_le (nch bps rate H : Nat) :
    ∀ (blocks : List (List (List Int))) (number : Nat), number + blocks.length ≤ 2 ^ 36 → 128 ≤ H →
      framesBound nch bps rate blocks number ≤
        (blocks.map fun b => verbatimFrameBits H nch (b.headD []).length bps).sum := by
  intro blocks
  induction blocks with
  | nil => intro number _ _; simp [framesBound]
  | cons b bs ih =>
    intro number hnum hH
    simp only [List.length_cons] at hnum
    simp only [framesBound, List.map_cons, List.sum_cons]
    have h1 := frameHeaderBits_le (b.headD []).length rate number (by omega)
    have h2 := verbatimFrameBits_mono _ H nch (b.headD []).length bps (Nat.le_trans h1 hH)
    have h3 := ih (number + 1) (by omega) hH
    omega

theorem stream_bits_nometa (info : StreamInfo) (frames : List Frame) (fbs : List Bits)
    (h : frames.mapM (Frame.bits rfcCrc8 rfcCrc16) = some fbs) :
    (Stream.mk info [] frames).bits rfcCrc8 rfcCrc16 =
      some (bytesToBits [0x66, 0x4C, 0x61, 0x43] ++ Stream.blockHeader true 0 34 ++ info.bits ++ fbs.flatten) := by
  unfold Stream.bits
  simp [h]

theorem stream_count_nometa (info : StreamInfo) (frames : List Frame) (fbs : List Bits)
    (h : frames.mapM Frame.count = some (fbs.map List.length)) :
    (Stream.mk info [] frames).count = some (32 + (32 + 272) + fbs.flatten.length) := by
  unfold Stream.count
  simp [h, foldl_add, List.length_flatten]

/-- **C09, whole stream, in bits written.** -/
theorem stream_size (md5 : List Nat → List Nat) (cfg : SubCfg) (st : StereoCfg) (bs : Nat)
    (chans : List (List Int)) (bps rate : Nat) (log log' : List OEvent) (s : Stream) (total : Nat)
    (hmd5 : ∀ x, (md5 x).length = 16)
    (hch : 1 ≤ chans.length ∧ chans.length ≤ 8) (hlen : ∀ c ∈ chans, c.length = total) (htot : total < 2 ^ 36)
    (hbs : 1 ≤ bs ∧ bs < 2 ^ 16) (hb : 1 ≤ bps ∧ bps ≤ 24)
    (hx : ∀ c ∈ chans, ∀ x ∈ c, SubFrame.inRange bps x = true) (hmax : cfg.maxP ≤ 14)
    (hlog : ∀ e ∈ log, e.Ok)
    (h : encodeStream md5 cfg st bs chans bps rate log = some (s, log')) :
    ∃ sb, s.bits rfcCrc8 rfcCrc16 = some sb ∧ s.count = some sb.length ∧
      sb.length ≤ 8 * 42 + framesBound chans.length bps rate (blocksOf bs chans) 0 ∧
      (blocksOf bs chans).length ≤ 2 ^ 36 := by
  unfold encodeStream at h
  simp only [Option.bind_eq_bind, Option.bind_eq_some_iff, Option.some.injEq, Prod.mk.injEq] at h
  obtain ⟨⟨frames, l1⟩, hfr, counts, hcounts, rfl, _⟩ := h
  have hok := blocksOf_ok bs chans total chans.length bps hbs.1 hch.1 rfl hlen hx
  have hbl : (blocksOf bs chans).length ≤ 2 ^ 36 := by
    rw [blocksOf_length bs chans total hch.1 hlen]
    have : (total + bs - 1) / bs ≤ total := by
      rcases Nat.eq_zero_or_pos total with h0 | hpos
      · subst h0
        rw [Nat.div_eq_of_lt (by omega)]
        exact Nat.le_refl _
      · calc (total + bs - 1) / bs ≤ (total * bs) / bs := by
              apply Nat.div_le_div_right
              have : total + bs ≤ total * bs + 1 := by
                obtain ⟨t, rfl⟩ : ∃ t, total = t + 1 := ⟨total - 1, by omega⟩
                obtain ⟨b, rfl⟩ : ∃ b, bs = b + 1 := ⟨bs - 1, by omega⟩
                rw [Nat.add_mul, Nat.mul_add]
                have := Nat.zero_le (t * b)
                omega
              omega
          _ = total := Nat.mul_div_cancel _ (by omega)
    omega
  obtain ⟨fbs, hm1, hm2, hle⟩ := encodeFrames_size cfg st bps rate chans.length bs hch hbs.2 hb hmax
    (blocksOf bs chans) 0 log l1 frames hok (by omega) hlog hfr
  have hinfo : (assembleInfo rate chans.length bps bs
      (((blocksOf bs chans).map fun b => (b.headD []).length).zip counts) (chans.headD []).length
      (md5 (md5Input bps (Rfc.interleave chans)))).bits.length = 272 :=
    C08_streaminfo _ (by simp only [assembleInfo]; exact hmd5 _)
  refine ⟨_, stream_bits_nometa _ frames fbs hm1, ?_, ?_, hbl⟩
  · rw [stream_count_nometa _ frames fbs hm2]
    simp only [List.length_append, hinfo, Stream.blockHeader, natToBits_length, bytesToBits_length, List.length_cons,
      List.length_nil]
  · simp only [List.length_append, hinfo, Stream.blockHeader, natToBits_length, bytesToBits_length, List.length_cons,
      List.length_nil]
    omega

end Extras
end FlacVerif
