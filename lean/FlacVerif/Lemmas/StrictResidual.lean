/-
Strict round trip (C01/C02), part 2: `Residual.bits` is accepted by the RFC 9639 residual reader
`Rfc.readResidual`, which returns the decoded residual values after the warm-up.
-/
import FlacVerif.Lemmas.StrictPrim
namespace FlacVerif
namespace Strict
open Rfc

/-- The decoded value of coded sample `t` of a residual. -/
def Residual.val (r : Residual) (t : Nat) : Int :=
  unfold (r.quotients.getD t 0 * 2 ^ (r.params.getD (t / r.partLen) 0) + r.remainders.getD t 0)

theorem readRice_sample (p q rem : Nat) (k : Bits) (hr : rem < 2 ^ p) (hf : q * 2 ^ p + rem < 2 ^ 32)
    (hv : unfold (q * 2 ^ p + rem) ≠ -(2 ^ 31 : Int)) :
    readRice p (Residual.sampleBits p q rem ++ k) = .ok (unfold (q * 2 ^ p + rem), k) := by
  unfold readRice Residual.sampleBits
  rw [natToBits_stop p rem, List.append_assoc, List.cons_append, readUnary_unary]
  simp only []
  rw [readNat_natToBits_lt p rem k _ hr]
  simp only [ok_bind]
  have h1 : ¬ q * 2 ^ p + rem ≥ 2 ^ 32 := by omega
  rw [if_neg h1, if_neg hv]
  rfl

/-- `cnt` consecutive coded samples starting at index `s`, all with parameter `p`. -/
theorem readRiceN_samples (p : Nat) (qs rs : List Nat) (cnt s : Nat) (k : Bits)
    (hr : ∀ i, i < cnt → rs.getD (s + i) 0 < 2 ^ p)
    (hf : ∀ i, i < cnt → qs.getD (s + i) 0 * 2 ^ p + rs.getD (s + i) 0 < 2 ^ 32)
    (hv : ∀ i, i < cnt → unfold (qs.getD (s + i) 0 * 2 ^ p + rs.getD (s + i) 0) ≠ -(2 ^ 31 : Int)) :
    readRiceN p cnt (((List.range cnt).flatMap fun i =>
        Residual.sampleBits p (qs.getD (s + i) 0) (rs.getD (s + i) 0)) ++ k) =
      .ok ((List.range' s cnt).map (fun t => unfold (qs.getD t 0 * 2 ^ p + rs.getD t 0)), k) := by
  induction cnt generalizing s with
  | zero => rfl
  | succ c ih =>
    rw [List.range_succ_eq_map, List.flatMap_cons, List.flatMap_map, List.append_assoc, readRiceN]
    have h0r := hr 0 (by omega)
    have h0f := hf 0 (by omega)
    have h0v := hv 0 (by omega)
    rw [Nat.add_zero] at h0r h0f h0v
    rw [Nat.add_zero]
    rw [readRice_sample p _ _ _ h0r h0f h0v]
    simp only [ok_bind]
    have ih' := ih (s + 1)
      (fun i hi => by have := hr (i + 1) (by omega); rwa [show s + (i + 1) = s + 1 + i by omega] at this)
      (fun i hi => by have := hf (i + 1) (by omega); rwa [show s + (i + 1) = s + 1 + i by omega] at this)
      (fun i hi => by have := hv (i + 1) (by omega); rwa [show s + (i + 1) = s + 1 + i by omega] at this)
    have e2 : ∀ a : Nat, Residual.sampleBits p (qs.getD (s + a.succ) 0) (rs.getD (s + a.succ) 0) =
        Residual.sampleBits p (qs.getD (s + 1 + a) 0) (rs.getD (s + 1 + a) 0) := fun a => by
      rw [show s + a.succ = s + 1 + a by omega]
    simp only [e2]
    rw [ih']
    rfl

/-- What the partition reader needs to know about a residual. -/
structure ResOk (r : Residual) : Prop where
  order : r.order ≤ 15
  params : ∀ j, j < 2 ^ r.order → r.params.getD j 0 ≤ 14
  warm : r.warmup ≤ r.partLen
  full : 2 ^ r.order * r.partLen = r.blockSize
  rems : ∀ t, t < r.blockSize → r.remainders.getD t 0 < 2 ^ (r.params.getD (t / r.partLen) 0)
  fits : ∀ t, r.warmup ≤ t → t < r.blockSize →
    r.quotients.getD t 0 * 2 ^ (r.params.getD (t / r.partLen) 0) + r.remainders.getD t 0 < 2 ^ 32
  notMin : ∀ t, r.warmup ≤ t → t < r.blockSize → Residual.val r t ≠ -(2 ^ 31 : Int)

/-- `n` entries of `l` from index `t` (default 0). -/
def sliceD (l : List Nat) : (n t : Nat) → List Nat
  | 0, _ => []
  | n + 1, t => l.getD t 0 :: sliceD l n (t + 1)

theorem sliceD_all (l : List Nat) (n t : Nat) (h : t + n = l.length) : sliceD l n t = l.drop t := by
  induction n generalizing t with
  | zero =>
    rw [sliceD, List.drop_of_length_le (by omega)]
  | succ n ih =>
    rw [sliceD, ih (t + 1) (by omega)]
    have ht : t < l.length := by omega
    rw [List.getD_eq_getElem?_getD, List.getElem?_eq_getElem ht]
    simp only [Option.getD_some]
    exact (List.drop_eq_getElem_cons ht).symm

theorem range'_append' (s a b : Nat) : List.range' s (a + b) = List.range' s a ++ List.range' (s + a) b := by
  rw [List.range'_append_1]

theorem partBits_def (r : Residual) (k : Nat) :
    r.partBits k = natToBits 4 (r.params.getD k 0) ++
      ((List.range ((k + 1) * r.partLen - max r.warmup (k * r.partLen))).flatMap fun i =>
        Residual.sampleBits (r.params.getD k 0) (r.quotients.getD (max r.warmup (k * r.partLen) + i) 0)
          (r.remainders.getD (max r.warmup (k * r.partLen) + i) 0)) := rfl

theorem readPartitions_parts (r : Residual) (h : ResOk r) (left part : Nat) (hn : part + left ≤ 2 ^ r.order) (k : Bits) :
    readPartitions r.partLen r.warmup left part ((List.range' part left).flatMap r.partBits ++ k) =
      .ok (sliceD r.params left part,
           (List.range' (max r.warmup (part * r.partLen)) ((part + left) * r.partLen - max r.warmup (part * r.partLen))).map
             (Residual.val r), k) := by
  induction left generalizing part with
  | zero =>
    have : (part + 0) * r.partLen - max r.warmup (part * r.partLen) = 0 := by
      rw [Nat.add_zero]; omega
    rw [this]
    rfl
  | succ n ih =>
    have hp14 := h.params part (by omega)
    rw [List.range'_succ, List.flatMap_cons, List.append_assoc, readPartitions]
    rw [partBits_def r part, List.append_assoc, readNat_natToBits_lt 4 _ _ _ (by omega)]
    simp only [ok_bind]
    have hne : ¬ r.params.getD part 0 = 15 := by omega
    rw [if_neg hne]
    simp only [pure_eq]
    -- the count of this partition
    have hstop : (part + 1) * r.partLen = part * r.partLen + r.partLen := by rw [Nat.succ_mul]
    have hw := h.warm
    have hcnt : (if part = 0 then r.partLen - r.warmup else r.partLen) =
        (part + 1) * r.partLen - max r.warmup (part * r.partLen) := by
      by_cases hp0 : part = 0
      · subst hp0; simp
      · rw [if_neg hp0, hstop]
        have : r.partLen ≤ part * r.partLen := Nat.le_mul_of_pos_left _ (by omega)
        omega
    rw [hcnt]
    -- every index of the partition lies in partition `part`
    have hin : ∀ i, i < (part + 1) * r.partLen - max r.warmup (part * r.partLen) →
        (max r.warmup (part * r.partLen) + i) / r.partLen = part ∧
        max r.warmup (part * r.partLen) + i < r.blockSize ∧ r.warmup ≤ max r.warmup (part * r.partLen) + i := by
      intro i hi
      have hlt : max r.warmup (part * r.partLen) + i < (part + 1) * r.partLen := by omega
      have hge : part * r.partLen ≤ max r.warmup (part * r.partLen) + i := by omega
      have hpos : 0 < r.partLen := by
        rcases Nat.eq_zero_or_pos r.partLen with h0 | h0
        · rw [h0] at hlt; simp at hlt
        · exact h0
      refine ⟨?_, ?_, by omega⟩
      · apply Nat.div_eq_of_lt_le
        · rw [Nat.mul_comm] at hge; rw [Nat.mul_comm]; exact hge
        · rw [Nat.mul_comm] at hlt; rw [Nat.mul_comm]; exact hlt
      · have h1 : (part + 1) * r.partLen ≤ 2 ^ r.order * r.partLen := Nat.mul_le_mul_right _ (by omega)
        have := h.full
        omega
    rw [readRiceN_samples (r.params.getD part 0) r.quotients r.remainders _ (max r.warmup (part * r.partLen)) _
      (fun i hi => by
        obtain ⟨h1, h2, _⟩ := hin i hi
        have := h.rems _ h2
        rwa [h1] at this)
      (fun i hi => by
        obtain ⟨h1, h2, h3⟩ := hin i hi
        have := h.fits _ h3 h2
        rwa [h1] at this)
      (fun i hi => by
        obtain ⟨h1, h2, h3⟩ := hin i hi
        have := h.notMin _ h3 h2
        unfold Residual.val at this
        rwa [h1] at this)]
    simp only [ok_bind]
    rw [ih (part + 1) (by omega)]
    simp only [ok_bind]
    -- reassemble
    have hvals : (List.range' (max r.warmup (part * r.partLen)) ((part + 1) * r.partLen - max r.warmup (part * r.partLen))).map
          (fun t => unfold (r.quotients.getD t 0 * 2 ^ r.params.getD part 0 + r.remainders.getD t 0)) =
        (List.range' (max r.warmup (part * r.partLen)) ((part + 1) * r.partLen - max r.warmup (part * r.partLen))).map
          (Residual.val r) := by
      apply List.map_congr_left
      intro t ht
      rw [List.mem_range'_1] at ht
      obtain ⟨h1, _, _⟩ := hin (t - max r.warmup (part * r.partLen)) (by omega)
      have e : max r.warmup (part * r.partLen) + (t - max r.warmup (part * r.partLen)) = t := by omega
      rw [e] at h1
      unfold Residual.val
      rw [h1]
    rw [hvals]
    have hmax : max r.warmup ((part + 1) * r.partLen) = (part + 1) * r.partLen := by
      have : r.partLen ≤ (part + 1) * r.partLen := Nat.le_mul_of_pos_left _ (by omega)
      omega
    rw [hmax]
    have hle1 : max r.warmup (part * r.partLen) ≤ (part + 1) * r.partLen := by
      have : r.partLen ≤ (part + 1) * r.partLen := Nat.le_mul_of_pos_left _ (by omega)
      omega
    have hle2 : (part + 1) * r.partLen ≤ (part + 1 + n) * r.partLen := Nat.mul_le_mul_right _ (by omega)
    have e1 : (part + (n + 1)) * r.partLen - max r.warmup (part * r.partLen) =
        ((part + 1) * r.partLen - max r.warmup (part * r.partLen)) +
        ((part + 1 + n) * r.partLen - (part + 1) * r.partLen) := by
      have : part + (n + 1) = part + 1 + n := by omega
      rw [this]; omega
    rw [e1, range'_append', List.map_append]
    have e2 : max r.warmup (part * r.partLen) + ((part + 1) * r.partLen - max r.warmup (part * r.partLen)) =
        (part + 1) * r.partLen := by omega
    rw [e2]
    rfl

theorem partLen_eq (r : Residual) : r.partLen = r.blockSize / 2 ^ r.order := by
  unfold Residual.partLen
  rw [Nat.shiftRight_eq_div_pow]

theorem getD_mem_or_default (l : List Nat) (t : Nat) : l.getD t 0 ∈ l ∨ l.getD t 0 = 0 := by
  by_cases ht : t < l.length
  · left
    rw [List.getD_eq_getElem?_getD, List.getElem?_eq_getElem ht]
    simp
  · right
    rw [List.getD_eq_getElem?_getD, List.getElem?_eq_none (by omega)]
    rfl

/-- The extra conditions of the strict decoder: `(block size >> partition order)` is LARGER than the
predictor order (RFC 9639 section 9.2.7; `Residual.WF`, like the repository's own parser, allows equality),
and on the coded values: the folded value fits 32 bits and the decoded value is not `-2^31` (RFC 9639
section 9.2.7.3). -/
def Residual.Strict (r : Residual) : Prop :=
  r.warmup < r.blockSize >>> r.order ∧
  ∀ t, r.warmup ≤ t → t < r.blockSize →
    r.quotients.getD t 0 * 2 ^ (r.params.getD (t / r.partLen) 0) + r.remainders.getD t 0 < 2 ^ 32 ∧
    Residual.val r t ≠ -(2 ^ 31 : Int)

theorem resOk_of_WF (r : Residual) (hwf : r.WF) (hs : Residual.Strict r) : ResOk r := by
  obtain ⟨ho, hpl, hdvd, hw, hpos, hql, hrl, hp14, hz, hrem⟩ := hwf
  refine ⟨ho, ?_, hw, ?_, hrem, fun t h1 h2 => (hs.2 t h1 h2).1, fun t h1 h2 => (hs.2 t h1 h2).2⟩
  · intro j hj
    rcases getD_mem_or_default r.params j with h | h
    · exact hp14 _ h
    · omega
  · rw [partLen_eq]; exact Nat.mul_div_cancel' hdvd

theorem signal_drop (r : Residual) :
    r.signal.drop r.warmup = (List.range' r.warmup (r.blockSize - r.warmup)).map (Residual.val r) := by
  unfold Residual.signal
  rw [← List.map_drop, List.range_eq_range', List.drop_range', Nat.zero_add, Nat.mul_one]
  apply List.map_congr_left
  intro t ht
  rw [List.mem_range'_1] at ht
  have : ¬ t < r.warmup := by omega
  simp only [this, if_false, Residual.val]

/-- **Residual level.** The strict RFC reader accepts `Residual::write` and returns the partition
order, the Rice parameters and the decoded values after the warm-up. -/
theorem readResidual_bits (r : Residual) (n w : Nat) (hwf : r.WF) (hn : r.blockSize = n) (hw : r.warmup = w)
    (hs : Residual.Strict r) (k : Bits) :
    readResidual n w (r.bits ++ k) = .ok (⟨r.order, r.params, r.signal.drop w⟩, k) := by
  subst hn; subst hw
  have hok := resOk_of_WF r hwf hs
  obtain ⟨ho, hpl, hdvd, hwarm, hpos, hql, hrl, hp14, hz, hrem⟩ := hwf
  unfold readResidual Residual.bits
  have h6 : natToBits 6 r.order = natToBits 2 0 ++ natToBits 4 r.order := by
    have := natToBits_split 2 4 r.order
    have h0 : r.order / 2 ^ 4 = 0 := Nat.div_eq_of_lt (by omega)
    rw [h0] at this
    exact this
  rw [h6, List.append_assoc, List.append_assoc]
  rw [readNat_natToBits_lt 2 0 _ _ (by decide)]
  simp only [ok_bind]
  rw [if_neg (by decide : ¬ (0 ≥ 2)), if_neg (by decide : ¬ (0 = 1))]
  simp only [pure_eq]
  rw [readNat_natToBits_lt 4 r.order _ _ (by omega)]
  simp only [ok_bind]
  have hmod : ¬ (r.blockSize % 2 ^ r.order ≠ 0) := by
    have := Nat.mod_eq_zero_of_dvd hdvd
    omega
  rw [if_neg hmod]
  rw [← partLen_eq]
  have hlt : ¬ r.partLen ≤ r.warmup := by
    have := hs.1
    unfold Residual.partLen
    omega
  rw [if_neg hlt]
  unfold Residual.nparts
  rw [List.range_eq_range', readPartitions_parts r hok (2 ^ r.order) 0 (by omega) k]
  simp only [ok_bind]
  have e1 : sliceD r.params (2 ^ r.order) 0 = r.params := by
    rw [sliceD_all _ _ _ (by omega)]; rfl
  have e2 : max r.warmup (0 * r.partLen) = r.warmup := by omega
  have e3 : (0 + 2 ^ r.order) * r.partLen = r.blockSize := by rw [Nat.zero_add]; exact hok.full
  rw [e1, e2, e3, signal_drop]

end Strict
end FlacVerif
