/-
Safety (no-panic) calculus for the parser mirror `FlacVerif/Model/RepoParser.lean` and the
per-function safety lemmas used by C16.  `Sat r P` = "`r` is not a panic, and if it is `ok v` then
`P v`" (a partial-correctness triple with the error outcome allowed).
-/
import FlacVerif.Model.RepoParser
namespace FlacVerif.Repo
open PResult

/-- `r` does not panic and its value, if any, satisfies `P`. -/
def PResult.Sat {α : Type} (r : PResult α) (P : α → Prop) : Prop :=
  match r with
  | .ok v => P v
  | .error _ => True
  | .panic _ => False

namespace PResult

theorem Sat.noPanic {α : Type} {r : PResult α} {P : α → Prop} (h : r.Sat P) : ∀ s, r ≠ .panic s := by
  intro s hs; subst hs; exact h

theorem sat_of_noPanic {α : Type} {r : PResult α} (h : ∀ s, r ≠ .panic s) : r.Sat (fun _ => True) := by
  cases r with
  | ok v => trivial
  | error b => trivial
  | panic s => exact absurd rfl (h s)

@[simp] theorem sat_ok {α : Type} (v : α) (P : α → Prop) : (PResult.ok v).Sat P ↔ P v := Iff.rfl
@[simp] theorem sat_error {α : Type} (b : Bool) (P : α → Prop) : (PResult.error b : PResult α).Sat P ↔ True := Iff.rfl
@[simp] theorem sat_panic {α : Type} (s : String) (P : α → Prop) : (PResult.panic s : PResult α).Sat P ↔ False := Iff.rfl
@[simp] theorem sat_pure {α : Type} (v : α) (P : α → Prop) : (pure v : PResult α).Sat P ↔ P v := Iff.rfl

theorem Sat.mono {α : Type} {r : PResult α} {P Q : α → Prop} (h : r.Sat P) (hpq : ∀ v, P v → Q v) : r.Sat Q := by
  cases r with
  | ok v => exact hpq v h
  | error b => trivial
  | panic s => exact h

theorem Sat.bind {α β : Type} {x : PResult α} {f : α → PResult β} {P : α → Prop} {Q : β → Prop}
    (hx : x.Sat P) (hf : ∀ v, P v → (f v).Sat Q) : (x >>= f).Sat Q := by
  cases x with
  | ok v => exact hf v hx
  | error b => trivial
  | panic s => exact hx

theorem Sat.and {α : Type} {r : PResult α} {P Q : α → Prop} (h1 : r.Sat P) (h2 : r.Sat Q) :
    r.Sat (fun v => P v ∧ Q v) := by
  cases r with
  | ok v => exact ⟨h1, h2⟩
  | error b => trivial
  | panic s => exact h1

end PResult

/-! ### arithmetic helpers -/

theorem uadd_sat (w : Nat) (site : String) (a b : Nat) (h : a + b < 2 ^ w) :
    (uadd w site a b).Sat (fun v => v = a + b) := by
  simp [uadd, h]

theorem usub_sat (site : String) (a b : Nat) (h : b ≤ a) : (usub site a b).Sat (fun v => v = a - b) := by
  simp [usub, h]

theorem umul_sat (w : Nat) (site : String) (a b : Nat) (h : a * b < 2 ^ w) :
    (umul w site a b).Sat (fun v => v = a * b) := by
  simp [umul, h]

theorem ushl_sat (w : Nat) (site : String) (a k : Nat) (h : k < w) :
    (ushl w site a k).Sat (fun v => v = (a * 2 ^ k) % 2 ^ w) := by
  simp [ushl, h]

theorem passert_sat (c : Bool) (site : String) (h : c = true) : (passert c site).Sat (fun _ => True) := by
  simp [passert, h]

/-! ### nom primitives -/

theorem takeBits_sat (w c : Nat) (i : Bits) (h : c ≤ w) : (takeBits w c i).Sat (fun r => r.1 < 2 ^ c) := by
  unfold takeBits
  split
  · simp; exact Nat.two_pow_pos c
  · split
    · trivial
    · split
      · omega
      · rename_i h1 h2 h3
        have : (List.take c i).length = c := by simp [List.length_take]; omega
        have h4 := bitsToNat_lt (List.take c i)
        rw [this] at h4
        exact h4

theorem tagBits_sat (w p c : Nat) (i : Bits) (h : c ≤ w) : (tagBits w p c i).Sat (fun r => r.1 < 2 ^ c) := by
  unfold tagBits
  have := takeBits_sat w c i h
  revert this
  cases takeBits w c i with
  | ok v =>
    obtain ⟨v, r⟩ := v
    intro hv
    by_cases hp : v = p
    · simp [hp]; simpa [hp] using hv
    · simp [hp]
  | error b => intro _; trivial
  | panic s => intro hv; exact hv

theorem beUint_sat (n : Nat) (i : Bits) : (beUint n i).Sat (fun r => r.1 < 2 ^ (8 * n)) := by
  unfold beUint
  split
  · trivial
  · rename_i h
    have : (List.take (8 * n) i).length = 8 * n := by simp [List.length_take]; omega
    have h4 := bitsToNat_lt (List.take (8 * n) i)
    rw [this] at h4
    exact h4

theorem bitsToBytes_length (n : Nat) (i : Bits) : (bitsToBytes n i).length = n := by
  induction n generalizing i with
  | zero => rfl
  | succ n ih => simp [bitsToBytes, ih]

theorem bitsToBytes_lt (n : Nat) (i : Bits) : ∀ b ∈ bitsToBytes n i, b < 256 := by
  induction n generalizing i with
  | zero => intro b hb; simp [bitsToBytes] at hb
  | succ n ih =>
    intro b hb
    simp only [bitsToBytes, List.mem_cons] at hb
    rcases hb with hb | hb
    · subst hb
      have := bitsToNat_lt (List.take 8 i)
      have h8 : (List.take 8 i).length ≤ 8 := by simp [List.length_take]; omega
      calc bitsToNat (List.take 8 i) < 2 ^ (List.take 8 i).length := this
        _ ≤ 2 ^ 8 := Nat.pow_le_pow_right (by decide) h8
    · exact ih _ b hb

theorem byteTake_sat (n : Nat) (i : Bits) :
    (byteTake n i).Sat (fun r => r.1.length = n ∧ ∀ b ∈ r.1, b < 256) := by
  unfold byteTake
  split
  · trivial
  · exact ⟨bitsToBytes_length n i, bitsToBytes_lt n i⟩


/-! ### `u_to_i`, `raw_samples`, `unary_code` -/

theorem asSigned32_two_pow (b : Nat) (h : b ≤ 30) : asSigned 32 (((1 * 2 ^ b) % 2 ^ 32 : Nat) : Int) = (2 ^ b : Int) := by
  have h1 : (2 : Nat) ^ b ≤ 2 ^ 30 := Nat.pow_le_pow_right (by decide) h
  have h2 : (1 * 2 ^ b) % 2 ^ 32 = 2 ^ b := by
    rw [Nat.one_mul]; apply Nat.mod_eq_of_lt; omega
  rw [h2]
  unfold asSigned
  have h3 : ((2 ^ b : Nat) : Int) % (2 ^ 32 : Int) = ((2 ^ b : Nat) : Int) := by
    apply Int.emod_eq_of_lt <;> omega
  simp only [h3]
  have : ((2 ^ b : Nat) : Int) < (2 ^ (32 - 1) : Int) := by
    have : (2 ^ (32 - 1) : Int) = ((2 ^ 31 : Nat) : Int) := by decide
    omega
  rw [if_pos this]
  exact Int.natCast_pow 2 b

/-- `u_to_i` is safe for `1 ≤ bits ≤ 30` on a `bits`-bit value, and yields a `bits`-bit signed value. -/
theorem uToI_sat (x bits : Nat) (h1 : 1 ≤ bits) (h2 : bits ≤ 30) (hx : x < 2 ^ bits) :
    (uToI x bits).Sat (fun r => -(2 ^ (bits - 1) : Int) ≤ r ∧ r < (2 ^ (bits - 1) : Int)) := by
  unfold uToI
  have hp30 : (2 : Nat) ^ bits ≤ 2 ^ 30 := Nat.pow_le_pow_right (by decide) h2
  have hpm : (2 : Nat) ^ (bits - 1) ≤ 2 ^ 29 := Nat.pow_le_pow_right (by decide) (by omega)
  have hdbl : (2 : Nat) ^ bits = 2 * 2 ^ (bits - 1) := by
    have : bits = (bits - 1) + 1 := by omega
    conv => lhs; rw [this, Nat.pow_succ]
    omega
  refine Sat.bind (usub_sat _ bits 1 h1) ?_
  intro b1 hb1; subst hb1
  refine Sat.bind (ushl_sat 64 _ 1 (bits - 1) (by omega)) ?_
  intro msb hmsb
  have hmsb' : msb = 2 ^ (bits - 1) := by
    rw [hmsb, Nat.one_mul]; apply Nat.mod_eq_of_lt; omega
  subst hmsb'
  by_cases hge : x ≥ 2 ^ (bits - 1)
  · simp only [hge, if_true]
    refine Sat.bind (P := fun o => o = (2 ^ bits : Int)) ?_ ?_
    · refine Sat.bind (ushl_sat 32 _ 1 bits (by omega)) ?_
      intro v hv; subst hv
      simp only [sat_pure]
      exact asSigned32_two_pow bits h2
    · intro o ho; subst ho
      have hx31 : ¬ x ≥ 2 ^ 31 := by omega
      simp only [hx31, if_false]
      have hcast : ((2 : Int) ^ bits) = ((2 ^ bits : Nat) : Int) := by norm_cast
      have hcast1 : ((2 : Int) ^ (bits - 1)) = ((2 ^ (bits - 1) : Nat) : Int) := by norm_cast
      have hin : inI32 ((x : Int) - 2 ^ bits) = true := by
        unfold inI32
        rw [hcast]
        simp only [Bool.and_eq_true, decide_eq_true_eq]
        constructor <;> omega
      simp only [hin, if_true, sat_ok]
      rw [hcast, hcast1]
      constructor <;> omega
  · simp only [hge, if_false]
    refine Sat.bind (P := fun o => o = (0 : Int)) (by simp) ?_
    intro o ho; subst ho
    have hx31 : ¬ x ≥ 2 ^ 31 := by omega
    simp only [hx31, if_false]
    have hcast1 : ((2 : Int) ^ (bits - 1)) = ((2 ^ (bits - 1) : Nat) : Int) := by norm_cast
    have hin : inI32 ((x : Int) - 0) = true := by
      unfold inI32
      simp only [Bool.and_eq_true, decide_eq_true_eq]
      constructor <;> omega
    simp only [hin, if_true, sat_ok]
    rw [hcast1]
    constructor <;> omega


/-- Samples of `b` bits. -/
def SampleOk (b : Nat) (x : Int) : Prop := -(2 ^ (b - 1) : Int) ≤ x ∧ x < (2 ^ (b - 1) : Int)

theorem rawSamplesLoop_sat (bps : Nat) (h1 : 1 ≤ bps) (h2 : bps ≤ 30) (n : Nat) (i : Bits) :
    (rawSamplesLoop bps n i).Sat (fun r => r.1.length = n ∧ ∀ x ∈ r.1, SampleOk bps x) := by
  induction n generalizing i with
  | zero => simp [rawSamplesLoop]
  | succ n ih =>
    unfold rawSamplesLoop
    refine Sat.bind (takeBits_sat 32 bps i (by omega)) ?_
    rintro ⟨u, i1⟩ hu
    refine Sat.bind (uToI_sat u bps h1 h2 hu) ?_
    intro x hx
    refine Sat.bind (ih i1) ?_
    rintro ⟨xs, i2⟩ ⟨hl, hxs⟩
    simp only [sat_pure, List.length_cons, hl, List.mem_cons, true_and]
    intro y hy
    rcases hy with hy | hy
    · subst hy; exact hx
    · exact hxs y hy

theorem rawSamples_sat (bps size : Nat) (h1 : 1 ≤ bps) (h2 : bps ≤ 25) (i : Bits) :
    (rawSamples bps size i).Sat (fun r => r.1.length = size ∧ ∀ x ∈ r.1, SampleOk bps x) := by
  unfold rawSamples
  refine Sat.bind (passert_sat _ _ (by simp; omega)) ?_
  intro _ _
  exact rawSamplesLoop_sat bps h1 (by omega) size i

theorem unaryCode_sat (i : Bits) : (unaryCode i).Sat (fun _ => True) := by
  induction i with
  | nil => simp [unaryCode]
  | cons b r ih =>
    cases b with
    | true => simp [unaryCode]
    | false =>
      unfold unaryCode
      revert ih
      cases unaryCode r with
      | ok v => obtain ⟨q, r'⟩ := v; intro _; trivial
      | error e => intro _; trivial
      | panic s => intro h; exact h

/-! ### residual -/

theorem residualSamples_sat (p warmup : Nat) (hp : p ≤ 32) (n t : Nat) (i : Bits) :
    (residualSamples p warmup n t i).Sat
      (fun r => r.1.1.length = n ∧ r.1.2.length = n ∧ ∀ q ∈ r.1.1, q < 2 ^ 32) := by
  induction n generalizing t i with
  | zero => simp [residualSamples]
  | succ n ih =>
    unfold residualSamples
    split
    · refine Sat.bind (ih (t + 1) i) ?_
      rintro ⟨⟨qs, rs⟩, i1⟩ ⟨h1, h2, h3⟩
      simp only [sat_pure, List.length_cons, h1, h2, List.mem_cons, true_and]
      intro q hq
      rcases hq with hq | hq
      · subst hq; exact Nat.two_pow_pos 32
      · exact h3 q hq
    · refine Sat.bind (unaryCode_sat i) ?_
      rintro ⟨q, i1⟩ _
      refine Sat.bind (takeBits_sat 32 p i1 hp) ?_
      rintro ⟨r, i2⟩ _
      refine Sat.bind (ih (t + 1) i2) ?_
      rintro ⟨⟨qs, rs⟩, i3⟩ ⟨h1, h2, h3⟩
      simp only [sat_pure, List.length_cons, h1, h2, List.mem_cons, true_and]
      intro q' hq
      rcases hq with hq | hq
      · subst hq; exact Nat.mod_lt _ (Nat.two_pow_pos 32)
      · exact h3 q' hq

theorem residualParts_sat (pBits plen warmup : Nat) (hpb : pBits ≤ 5) (hplen : plen < 2 ^ 32)
    (n part : Nat) (hn : n + part ≤ 2 ^ 16) (i : Bits) :
    (residualParts pBits plen warmup n part i).Sat
      (fun r => r.1.1.length = n ∧ (∀ p ∈ r.1.1, p < 32) ∧ r.1.2.1.length = n * plen ∧
        ∀ q ∈ r.1.2.1, q < 2 ^ 32) := by
  induction n generalizing part i with
  | zero => simp [residualParts]
  | succ n ih =>
    unfold residualParts
    refine Sat.bind (takeBits_sat 8 pBits i (by omega)) ?_
    rintro ⟨p, i1⟩ hp
    have hp32 : p < 32 := by
      have : (2 : Nat) ^ pBits ≤ 2 ^ 5 := Nat.pow_le_pow_right (by decide) hpb
      simp only at hp; omega
    have hb1 : plen * part < 2 ^ 64 := by
      have : plen * part ≤ 2 ^ 32 * 2 ^ 16 := Nat.mul_le_mul (by omega) (by omega)
      omega
    have hb2 : plen * (part + 1) < 2 ^ 64 := by
      have : plen * (part + 1) ≤ 2 ^ 32 * 2 ^ 16 := Nat.mul_le_mul (by omega) (by omega)
      omega
    refine Sat.bind (umul_sat 64 _ plen part hb1) ?_
    intro lo hlo; subst hlo
    refine Sat.bind (umul_sat 64 _ plen (part + 1) hb2) ?_
    intro hi hhi; subst hhi
    have hdiff : plen * (part + 1) - plen * part = plen := by
      rw [Nat.mul_succ]; omega
    rw [hdiff]
    refine Sat.bind (residualSamples_sat p warmup (by omega) plen (plen * part) i1) ?_
    rintro ⟨⟨qs, rs⟩, i2⟩ ⟨h1, _, h3⟩
    refine Sat.bind (ih (part + 1) (by omega) i2) ?_
    rintro ⟨⟨ps, qs', rs'⟩, i3⟩ ⟨g1, g2, g3, g4⟩
    simp only [sat_pure, List.length_cons, g1, List.mem_cons, List.length_append, List.mem_append, true_and]
    simp only at h1 h3 g3 g4 g2
    refine ⟨?_, ?_, ?_⟩
    · intro p' hp'
      rcases hp' with hp' | hp'
      · subst hp'; exact hp32
      · exact g2 p' hp'
    · rw [h1, g3, Nat.succ_mul]; omega
    · intro q hq
      rcases hq with hq | hq
      · exact h3 q hq
      · exact g4 q hq

theorem foldl_max_lt (qs : List Nat) (b a : Nat) (ha : a < b) (h : ∀ q ∈ qs, q < b) : qs.foldl max a < b := by
  induction qs generalizing a with
  | nil => exact ha
  | cons q qs ih =>
    simp only [List.foldl_cons]
    apply ih
    · have := h q (by simp); omega
    · intro q' hq'; exact h q' (by simp [hq'])

theorem foldl_add_le (qs : List Nat) (b a : Nat) (h : ∀ q ∈ qs, q ≤ b) :
    qs.foldl (· + ·) a ≤ a + qs.length * b := by
  induction qs generalizing a with
  | nil => simp
  | cons q qs ih =>
    simp only [List.foldl_cons, List.length_cons]
    have h1 := ih (a + q) (fun q' hq' => h q' (by simp [hq']))
    have h2 := h q (by simp)
    rw [Nat.succ_mul]
    omega

theorem residual_sat (blockSize warmup : Nat) (hbs : blockSize < 2 ^ 32) (i : Bits) :
    (residual blockSize warmup i).Sat (fun r => r.1.blockSize = blockSize ∧ r.1.warmup = warmup) := by
  unfold residual
  refine Sat.bind (takeBits_sat 8 2 i (by decide)) ?_
  rintro ⟨method, i1⟩ _
  refine Sat.bind (P := fun pb => pb ≤ 5) ?_ ?_
  · by_cases h0 : method = 0
    · simp [h0]
    · by_cases h1 : method = 1
      · simp [h1]
      · simp [h0, h1]
  intro pBits hpb
  refine Sat.bind (takeBits_sat 8 4 i1 (by decide)) ?_
  rintro ⟨order, i2⟩ horder
  simp only at horder
  refine Sat.bind (ushl_sat 64 _ 1 order (by omega)) ?_
  intro count hcount
  have hpow : (2 : Nat) ^ order ≤ 2 ^ 15 := Nat.pow_le_pow_right (by decide) (by omega)
  have hcount' : count = 2 ^ order := by
    rw [hcount, Nat.one_mul]; apply Nat.mod_eq_of_lt; omega
  have hc0 : ¬ count = 0 := by
    have := Nat.two_pow_pos order; omega
  simp only [hc0, if_false]
  have hplen : blockSize / count < 2 ^ 32 := Nat.lt_of_le_of_lt (Nat.div_le_self _ _) hbs
  refine Sat.bind (residualParts_sat pBits (blockSize / count) warmup hpb hplen count 0 (by omega) i2) ?_
  rintro ⟨⟨ps, qs, rs⟩, i3⟩ ⟨g1, g2, g3, g4⟩
  simp only at g1 g2 g3 g4
  dsimp only
  refine Sat.bind (passert_sat _ _ (by simp [g1])) ?_
  intro _ _
  have hmax : qs.foldl max 0 < 2 ^ 32 := foldl_max_lt qs _ 0 (by decide) g4
  have hqlen : qs.length ≤ blockSize := by
    rw [g3, Nat.mul_comm]; exact Nat.div_mul_le_self blockSize count
  have hmul : qs.foldl max 0 * blockSize < 2 ^ 64 :=
    calc qs.foldl max 0 * blockSize < 2 ^ 32 * 2 ^ 32 := Nat.mul_lt_mul'' hmax hbs
      _ = 2 ^ 64 := by decide
  refine Sat.bind (umul_sat 64 _ _ _ hmul) ?_
  intro _ _
  refine Sat.bind (P := fun _ => True) ?_ ?_
  · split
    · trivial
    · have h1 := foldl_add_le qs (2 ^ 32) 0 (fun q hq => Nat.le_of_lt (g4 q hq))
      have h2 : qs.length * 2 ^ 32 ≤ 2 ^ 32 * 2 ^ 32 := Nat.mul_le_mul (by omega) (Nat.le_refl _)
      exact (uadd_sat 64 _ _ 0 (by omega)).mono (fun _ _ => trivial)
  intro _ _
  refine Sat.bind (P := fun _ => True) ?_ ?_
  · have h1 := foldl_add_le ps 32 0 (fun p hp => Nat.le_of_lt (g2 p hp))
    rw [g1] at h1
    have h2 : count * 32 ≤ 2 ^ 15 * 32 := Nat.mul_le_mul (by omega) (Nat.le_refl _)
    exact (uadd_sat 64 _ _ 0 (by omega)).mono (fun _ _ => trivial)
  intro _ _
  simp


/-! ### subframes -/

theorem subframeHeader_sat (i : Bits) : (subframeHeader i).Sat (fun r => r.1 < 128) := by
  unfold subframeHeader
  refine Sat.bind (takeBits_sat 8 7 i (by decide)) ?_
  rintro ⟨typetag, i1⟩ ht
  refine Sat.bind (takeBits_sat 8 1 i1 (by decide)) ?_
  rintro ⟨wasted, i2⟩ _
  dsimp only
  split
  · trivial
  · exact ht

theorem constant_sat (blockSize bps : Nat) (h1 : 1 ≤ bps) (h2 : bps ≤ 25) (i : Bits) :
    (constant blockSize bps i).Sat (fun _ => True) := by
  unfold constant
  refine Sat.bind (subframeHeader_sat i) ?_
  rintro ⟨typetag, i1⟩ _
  dsimp only
  split
  · trivial
  · refine Sat.bind (takeBits_sat 32 bps i1 (by omega)) ?_
    rintro ⟨u, i2⟩ hu
    refine Sat.bind (uToI_sat u bps h1 (by omega) hu) ?_
    intro dc _
    trivial

theorem quantizedNew_sat (coefs : List Int) (order : Nat) (shift : Int) (precision : Nat) :
    (quantizedNew coefs order shift precision).Sat (fun _ => True) := by
  unfold quantizedNew
  split
  · trivial
  · split
    · trivial
    · rename_i ho hl
      refine Sat.bind (passert_sat _ _ (by simpa using hl)) ?_
      intro _ _
      refine Sat.bind (passert_sat _ _ (by simp; omega)) ?_
      intro _ _
      split
      · trivial
      · split
        · trivial
        · rename_i hp
          refine Sat.bind (usub_sat _ precision 1 (by omega)) ?_
          intro p1 hp1
          refine Sat.bind (ushl_sat 32 _ 1 p1 (by omega)) ?_
          intro hi hhi
          have : (2 : Nat) ^ p1 ≤ 2 ^ 14 := Nat.pow_le_pow_right (by decide) (by omega)
          have hhi' : hi = 2 ^ p1 := by
            rw [hhi, Nat.one_mul]; apply Nat.mod_eq_of_lt; omega
          have : ¬ hi ≥ 2 ^ 31 := by omega
          simp only [this, if_false]
          split <;> trivial

theorem quantizedParameters_sat (order : Nat) (i : Bits) :
    (quantizedParameters order i).Sat (fun _ => True) := by
  unfold quantizedParameters
  refine Sat.bind (takeBits_sat 8 4 i (by decide)) ?_
  rintro ⟨p, i1⟩ hp
  simp only at hp
  refine Sat.bind (uadd_sat 64 _ p 1 (by omega)) ?_
  intro precision hprec
  refine Sat.bind (takeBits_sat 8 5 i1 (by decide)) ?_
  rintro ⟨x, i2⟩ hx
  refine Sat.bind (uToI_sat x 5 (by decide) (by decide) hx) ?_
  intro s _
  refine Sat.bind (rawSamples_sat precision order (by omega) (by omega) i2) ?_
  rintro ⟨coefs, i3⟩ _
  dsimp only
  refine Sat.bind (quantizedNew_sat _ _ _ _) ?_
  intro r _
  cases r <;> trivial

theorem fixedLpc_sat (blockSize bps : Nat) (hbs : blockSize < 2 ^ 32) (h1 : 1 ≤ bps) (h2 : bps ≤ 25) (i : Bits) :
    (fixedLpc blockSize bps i).Sat (fun _ => True) := by
  unfold fixedLpc
  refine Sat.bind (subframeHeader_sat i) ?_
  rintro ⟨typetag, i1⟩ _
  dsimp only
  split
  · trivial
  · rename_i ht
    refine Sat.bind (usub_sat _ typetag 8 (by omega)) ?_
    intro order _
    refine Sat.bind (rawSamples_sat bps order h1 h2 i1) ?_
    rintro ⟨warm, i2⟩ _
    dsimp only
    split
    · trivial
    · refine Sat.bind (residual_sat blockSize order hbs i2) ?_
      rintro ⟨res, i3⟩ _
      trivial

theorem lpc_sat (blockSize bps : Nat) (hbs : blockSize < 2 ^ 32) (h1 : 1 ≤ bps) (h2 : bps ≤ 25) (i : Bits) :
    (lpc blockSize bps i).Sat (fun _ => True) := by
  unfold lpc
  refine Sat.bind (subframeHeader_sat i) ?_
  rintro ⟨typetag, i1⟩ ht
  dsimp only at ht ⊢
  split
  · trivial
  · rename_i htt
    refine Sat.bind (usub_sat _ typetag 0x20 (by omega)) ?_
    intro o0 ho0
    refine Sat.bind (uadd_sat 64 _ o0 1 (by omega)) ?_
    intro order _
    refine Sat.bind (rawSamples_sat bps order h1 h2 i1) ?_
    rintro ⟨warm, i2⟩ ⟨hwl, _⟩
    dsimp only at hwl ⊢
    split
    · trivial
    · refine Sat.bind (quantizedParameters_sat order i2) ?_
      rintro ⟨⟨coefs, shift, precision⟩, i3⟩ _
      dsimp only
      refine Sat.bind (residual_sat blockSize order hbs i3) ?_
      rintro ⟨res, i4⟩ _
      dsimp only
      refine Sat.bind (passert_sat _ _ (by simp [hwl])) ?_
      intro _ _
      trivial

theorem verbatim_sat (blockSize bps : Nat) (h1 : 1 ≤ bps) (h2 : bps ≤ 25) (i : Bits) :
    (verbatim blockSize bps i).Sat (fun _ => True) := by
  unfold verbatim
  refine Sat.bind (subframeHeader_sat i) ?_
  rintro ⟨typetag, i1⟩ _
  dsimp only
  split
  · trivial
  · refine Sat.bind (rawSamples_sat bps blockSize h1 h2 i1) ?_
    rintro ⟨data, i2⟩ _
    trivial

theorem alt_sat {α : Type} (p q : Bits → PResult α) (i : Bits) (P : α → Prop)
    (hp : (p i).Sat P) (hq : (q i).Sat P) : (alt p q i).Sat P := by
  unfold alt
  revert hp
  cases p i with
  | ok v => intro h; exact h
  | error b => cases b <;> intro _ <;> first | exact hq | trivial
  | panic s => intro h; exact h

theorem subframe_sat (blockSize bps : Nat) (hbs : blockSize < 2 ^ 32) (h1 : 1 ≤ bps) (h2 : bps ≤ 25) (i : Bits) :
    (subframe blockSize bps i).Sat (fun _ => True) := by
  unfold subframe bpsAssert
  have hb : decide (bps ≤ 25) = true := by simpa using h2
  refine Sat.bind (passert_sat _ _ hb) ?_; intro _ _
  refine Sat.bind (passert_sat _ _ hb) ?_; intro _ _
  refine Sat.bind (passert_sat _ _ hb) ?_; intro _ _
  refine Sat.bind (passert_sat _ _ hb) ?_; intro _ _
  refine Sat.bind (passert_sat _ _ hb) ?_; intro _ _
  apply alt_sat _ _ _ _ (constant_sat blockSize bps h1 h2 i)
  apply alt_sat _ _ _ _ (fixedLpc_sat blockSize bps hbs h1 h2 i)
  exact alt_sat _ _ _ _ (lpc_sat blockSize bps hbs h1 h2 i) (verbatim_sat blockSize bps h1 h2 i)


/-! ### frame header -/

theorem utf8Code_sat (i : Bits) : (utf8Code i).Sat (fun _ => True) := by
  unfold utf8Code
  refine Sat.bind (byteTake_sat 1 i) ?_
  rintro ⟨hd, i1⟩ ⟨hl, _⟩
  dsimp only at hl ⊢
  refine Sat.bind (P := fun _ => True) ?_ ?_
  · match hd, hl with
    | [b], _ => trivial
  intro head _
  split
  · trivial
  · refine Sat.bind (byteTake_sat _ i1) ?_
    rintro ⟨tail, i2⟩ _
    trivial

/-- The block-size specs the parser can produce: never `Reserved`, parameters in their code range. -/
def SpecOk : BlockSizeSpec → Prop
  | .reserved => False
  | .s192 => True
  | .pow2Mul576 x => x ≤ 3
  | .extraByte x => x < 256
  | .extraTwoBytes x => x < 65536
  | .pow2Mul256 x => x ≤ 7

theorem blockSizeCode_sat (tag : Nat) (ht : tag < 16) (i : Bits) :
    (blockSizeCode tag i).Sat (fun r => SpecOk r.1) := by
  unfold blockSizeCode
  split
  · trivial
  · split
    · refine Sat.bind (usub_sat _ tag 2 (by omega)) ?_
      intro x hx; subst hx
      show tag - 2 ≤ 3
      omega
    · split
      · refine Sat.bind (beUint_sat 1 i) ?_
        rintro ⟨x, i1⟩ hx
        exact hx
      · split
        · refine Sat.bind (beUint_sat 2 i) ?_
          rintro ⟨x, i1⟩ hx
          exact hx
        · split
          · refine Sat.bind (usub_sat _ tag 8 (by omega)) ?_
            intro x hx; subst hx
            show tag - 8 ≤ 7
            omega
          · trivial

theorem sampleRateCode_sat (tag : Nat) (i : Bits) : (sampleRateCode tag i).Sat (fun _ => True) := by
  unfold sampleRateCode
  split
  · trivial
  · split
    · refine Sat.bind (beUint_sat 1 i) ?_
      rintro ⟨x, i1⟩ _; trivial
    · split
      · refine Sat.bind (beUint_sat 2 i) ?_
        rintro ⟨x, i1⟩ _; trivial
      · split
        · refine Sat.bind (beUint_sat 2 i) ?_
          rintro ⟨x, i1⟩ _; trivial
        · split <;> trivial

theorem channelFromTag_sat (tag : Nat) : (channelFromTag tag).Sat (fun _ => True) := by
  unfold channelFromTag
  split
  · refine Sat.bind (uadd_sat 8 _ tag 1 (by omega)) ?_
    intro _ _; trivial
  · split
    · trivial
    · split
      · trivial
      · split <;> trivial

theorem frameHeader_sat (checkCrc : Bool) (start : Bits) :
    (frameHeader checkCrc start).Sat (fun r => SpecOk r.1.blockSizeSpec) := by
  unfold frameHeader
  refine Sat.bind (tagBits_sat 16 _ 15 start (by decide)) ?_
  rintro ⟨_, i1⟩ _
  refine Sat.bind (takeBits_sat 8 1 i1 (by decide)) ?_
  rintro ⟨blocking, i2⟩ _
  refine Sat.bind (takeBits_sat 8 4 i2 (by decide)) ?_
  rintro ⟨bsTag, i3⟩ hbs
  refine Sat.bind (takeBits_sat 8 4 i3 (by decide)) ?_
  rintro ⟨srTag, i4⟩ _
  refine Sat.bind (takeBits_sat 8 4 i4 (by decide)) ?_
  rintro ⟨chTag, i5⟩ _
  refine Sat.bind (takeBits_sat 8 3 i5 (by decide)) ?_
  rintro ⟨ssTag, i6⟩ _
  refine Sat.bind (tagBits_sat 32 0 1 i6 (by decide)) ?_
  rintro ⟨_, i7⟩ _
  dsimp only at hbs ⊢
  split
  · trivial
  · refine Sat.bind (channelFromTag_sat chTag) ?_
    intro a _
    cases a with
    | none => trivial
    | some assignment =>
      dsimp only
      refine Sat.bind (utf8Code_sat _) ?_
      rintro ⟨x, i8⟩ _
      refine Sat.bind (blockSizeCode_sat bsTag hbs i8) ?_
      rintro ⟨bsSpec, i9⟩ hspec
      refine Sat.bind (sampleRateCode_sat srTag i9) ?_
      rintro ⟨srSpec, i10⟩ _
      dsimp only
      refine Sat.bind (beUint_sat 1 i10) ?_
      rintro ⟨c, i11⟩ _
      dsimp only
      split
      · trivial
      · exact hspec

theorem headerBlockSize_sat (h : FrameHeader) (hs : SpecOk h.blockSizeSpec) :
    (headerBlockSize h).Sat (fun n => n ≤ 65536) := by
  unfold headerBlockSize
  cases hspec : h.blockSizeSpec with
  | reserved => rw [hspec] at hs; exact hs
  | s192 => simp
  | pow2Mul576 x =>
    rw [hspec] at hs
    have hx : x ≤ 3 := hs
    dsimp only
    refine Sat.bind (ushl_sat 64 _ 1 x (by omega)) ?_
    intro s hsv
    have h8 : (2 : Nat) ^ x ≤ 2 ^ 3 := Nat.pow_le_pow_right (by decide) hx
    have hs' : s = 2 ^ x := by rw [hsv, Nat.one_mul]; apply Nat.mod_eq_of_lt; omega
    subst hs'
    refine (umul_sat 64 _ 576 (2 ^ x) (by omega)).mono ?_
    intro v hv; omega
  | extraByte x =>
    rw [hspec] at hs
    have hx : x < 256 := hs
    dsimp only
    refine (uadd_sat 64 _ x 1 (by omega)).mono ?_
    intro v hv; omega
  | extraTwoBytes x =>
    rw [hspec] at hs
    have hx : x < 65536 := hs
    dsimp only
    refine (uadd_sat 64 _ x 1 (by omega)).mono ?_
    intro v hv; omega
  | pow2Mul256 x =>
    rw [hspec] at hs
    have hx : x ≤ 7 := hs
    dsimp only
    refine Sat.bind (ushl_sat 64 _ 1 x (by omega)) ?_
    intro s hsv
    have h8 : (2 : Nat) ^ x ≤ 2 ^ 7 := Nat.pow_le_pow_right (by decide) hx
    have hs' : s = 2 ^ x := by rw [hsv, Nat.one_mul]; apply Nat.mod_eq_of_lt; omega
    subst hs'
    refine (umul_sat 64 _ 256 (2 ^ x) (by omega)).mono ?_
    intro v hv; omega

/-! ### frame -/

theorem bpsOffset_le (a : ChannelAssignment) (ch : Nat) : a.bpsOffset ch ≤ 1 := by
  cases a <;> simp only [ChannelAssignment.bpsOffset] <;> (try split) <;> omega

theorem subframes_sat (blockSize bps : Nat) (a : ChannelAssignment) (hbs : blockSize < 2 ^ 32)
    (h1 : 1 ≤ bps) (h2 : bps ≤ 24) (n ch : Nat) (i : Bits) :
    (subframes blockSize bps a n ch i).Sat (fun _ => True) := by
  induction n generalizing ch i with
  | zero => simp [subframes]
  | succ n ih =>
    unfold subframes
    have ho := bpsOffset_le a ch
    refine Sat.bind (uadd_sat 64 _ bps _ (by omega)) ?_
    intro b hb
    have hsub := subframe_sat blockSize b hbs (by omega) (by omega) i
    revert hsub
    cases subframe blockSize b i with
    | ok v =>
      obtain ⟨sf, tail⟩ := v
      intro _
      dsimp only
      split
      · trivial
      · refine Sat.bind (ih (ch + 1) tail) ?_
        rintro ⟨sfs, i2⟩ _
        trivial
    | error e => cases e <;> intro _ <;> trivial
    | panic s => intro h; exact h

theorem frame_sat (info : StreamInfo) (checkCrc : Bool) (h1 : 1 ≤ info.bps) (h2 : info.bps ≤ 24) (start : Bits) :
    (frame info checkCrc start).Sat (fun _ => True) := by
  unfold frame
  refine Sat.bind (frameHeader_sat true start) ?_
  rintro ⟨h, i1⟩ hspec
  dsimp only at hspec ⊢
  split
  · trivial
  · refine Sat.bind (headerBlockSize_sat h hspec) ?_
    intro blockSize hbs
    split
    · trivial
    · rename_i hbps
      have hbps' : (sampleSizeBits h.sampleSizeTag).getD info.bps = info.bps := by
        simpa using hbps
      rw [hbps']
      refine Sat.bind (subframes_sat blockSize info.bps h.assignment (by omega) h1 h2 _ 0 i1) ?_
      rintro ⟨sfs, j⟩ _
      dsimp only
      refine Sat.bind (beUint_sat 2 _) ?_
      rintro ⟨c, i2⟩ _
      dsimp only
      split <;> trivial

/-! ### metadata and stream -/

theorem streamInfo_sat (i : Bits) : (streamInfo i).Sat (fun r => 1 ≤ r.1.bps ∧ r.1.bps ≤ 24) := by
  unfold streamInfo
  refine Sat.bind (beUint_sat 2 i) ?_; rintro ⟨minBlock, i1⟩ _
  refine Sat.bind (beUint_sat 2 i1) ?_; rintro ⟨maxBlock, i2⟩ _
  refine Sat.bind (beUint_sat 3 i2) ?_; rintro ⟨minFrame, i3⟩ _
  refine Sat.bind (beUint_sat 3 i3) ?_; rintro ⟨maxFrame, i4⟩ _
  refine Sat.bind (takeBits_sat 64 20 i4 (by decide)) ?_; rintro ⟨sr, j1⟩ _
  refine Sat.bind (takeBits_sat 64 3 j1 (by decide)) ?_; rintro ⟨ch, j2⟩ hch
  refine Sat.bind (takeBits_sat 64 5 j2 (by decide)) ?_; rintro ⟨bps, j3⟩ hbps
  refine Sat.bind (takeBits_sat 64 36 j3 (by decide)) ?_; rintro ⟨total, j4⟩ _
  dsimp only at hch hbps ⊢
  refine Sat.bind (uadd_sat 64 _ ch 1 (by omega)) ?_; intro channels _
  refine Sat.bind (uadd_sat 64 _ bps 1 (by omega)) ?_; intro bitsPerSample _
  refine Sat.bind (byteTake_sat 16 _) ?_; rintro ⟨md5, i5⟩ ⟨hmd5, _⟩
  dsimp only at hmd5 ⊢
  split
  · trivial
  · split
    · trivial
    · split
      · trivial
      · split
        · trivial
        · rename_i hv
          refine Sat.bind (passert_sat _ _ (by simp [hmd5])) ?_
          intro _ _
          split
          · trivial
          · split
            · trivial
            · split
              · trivial
              · split
                · trivial
                · simp only [sat_pure]
                  simp only [verifyBps, Bool.and_eq_true, Bool.or_eq_true, decide_eq_true_eq, beq_iff_eq,
                    Decidable.not_not] at hv
                  omega

theorem metadataBlock_sat (i : Bits) :
    (metadataBlock i).Sat (fun r => match r.1.2 with
      | .streamInfo s => 1 ≤ s.bps ∧ s.bps ≤ 24
      | .unknown _ => True) := by
  unfold metadataBlock
  refine Sat.bind (beUint_sat 1 i) ?_; rintro ⟨first, i1⟩ _
  dsimp only
  refine Sat.bind (beUint_sat 3 i1) ?_; rintro ⟨length, i2⟩ _
  dsimp only
  split
  · refine Sat.bind (streamInfo_sat i2) ?_
    rintro ⟨info, i3⟩ hi
    exact hi
  · refine Sat.bind (byteTake_sat length i2) ?_
    rintro ⟨blob, i3⟩ _
    dsimp only
    split <;> trivial

theorem metadataLoop_sat (n : Nat) : ∀ i : Bits, i.length ≤ n → (metadataLoop i).Sat (fun _ => True) := by
  induction n with
  | zero =>
    intro i hi
    rw [metadataLoop]
    have hb := metadataBlock_sat i
    revert hb
    cases metadataBlock i with
    | ok v =>
      obtain ⟨⟨isLast, b⟩, i'⟩ := v
      intro _
      dsimp only
      split
      · trivial
      · split
        · omega
        · trivial
    | error e => intro _; trivial
    | panic s => intro h; exact h
  | succ n ih =>
    intro i hi
    rw [metadataLoop]
    have hb := metadataBlock_sat i
    revert hb
    cases metadataBlock i with
    | ok v =>
      obtain ⟨⟨isLast, b⟩, i'⟩ := v
      intro _
      dsimp only
      split
      · trivial
      · split
        · rename_i hlt
          have := ih i' (by omega)
          revert this
          cases metadataLoop i' with
          | ok w => obtain ⟨bs, i''⟩ := w; intro _; trivial
          | error e => intro _; trivial
          | panic s => intro h; exact h
        · trivial
    | error e => intro _; trivial
    | panic s => intro h; exact h

theorem framesTillEof_sat (info : StreamInfo) (h1 : 1 ≤ info.bps) (h2 : info.bps ≤ 24) (n : Nat) :
    ∀ i : Bits, i.length ≤ n → (framesTillEof info i).Sat (fun _ => True) := by
  induction n with
  | zero =>
    intro i hi
    rw [framesTillEof]
    have : i.length = 0 := by omega
    simp [this]
  | succ n ih =>
    intro i hi
    rw [framesTillEof]
    split
    · trivial
    · have hf := frame_sat info true h1 h2 i
      revert hf
      cases frame info true i with
      | ok v =>
        obtain ⟨f, i'⟩ := v
        intro _
        dsimp only
        split
        · rename_i hlt
          have := ih i' (by omega)
          revert this
          cases framesTillEof info i' with
          | ok w => intro _; trivial
          | error e => intro _; trivial
          | panic s => intro h; exact h
        · trivial
      | error e => intro _; trivial
      | panic s => intro h; exact h

theorem byteTag_sat (t : List Nat) (i : Bits) : (byteTag t i).Sat (fun _ => True) := by
  unfold byteTag
  dsimp only
  split
  · trivial
  · split <;> trivial

theorem stream_sat (i : Bits) : (stream i).Sat (fun _ => True) := by
  unfold stream
  refine Sat.bind (byteTag_sat _ i) ?_
  rintro ⟨_, i1⟩ _
  refine Sat.bind (metadataBlock_sat i1) ?_
  rintro ⟨⟨isLast, first⟩, i2⟩ hfirst
  dsimp only at hfirst ⊢
  cases first with
  | unknown b => trivial
  | streamInfo info =>
    dsimp only at hfirst ⊢
    refine Sat.bind (P := fun _ => True) ?_ ?_
    · split
      · trivial
      · exact metadataLoop_sat _ i2 (Nat.le_refl _)
    rintro ⟨rest, i3⟩ _
    refine Sat.bind (framesTillEof_sat info hfirst.1 hfirst.2 _ i3 (Nat.le_refl _)) ?_
    intro frames _
    trivial

end FlacVerif.Repo
