/-
Helper lemmas for C18: the `verify` decision procedures and constructors of `Model/Verify.lean`
as propositions, and the weaker (true) well-formedness `SubFrame.WF'` that `FixedLpc::new` /
`Lpc::new` really guarantee, with the C08 / C12 consequences re-proved for it.
-/
import FlacVerif.Model.Verify
import FlacVerif.Theorems.C12
namespace FlacVerif

/-- `SubFrame.WF` with `warm.length ≤ res.blockSize` instead of `<` (a subframe that consists of
warm-up samples only: `verify` accepts it, and it serialises fine). -/
def SubFrame.WF' : SubFrame → Prop
  | .constant n dc b => 1 ≤ n ∧ 1 ≤ b ∧ b ≤ 32 ∧ SubFrame.inRange b dc = true
  | .verbatim xs b => 1 ≤ xs.length ∧ 1 ≤ b ∧ b ≤ 32 ∧ ∀ x ∈ xs, SubFrame.inRange b x = true
  | .fixed warm res b => warm.length ≤ 4 ∧ warm.length = res.warmup ∧ res.WF ∧ warm.length ≤ res.blockSize ∧
      1 ≤ b ∧ b ≤ 32 ∧ ∀ x ∈ warm, SubFrame.inRange b x = true
  | .lpc warm coefs shift precision res b =>
      1 ≤ coefs.length ∧ coefs.length ≤ 32 ∧ warm.length = coefs.length ∧ warm.length = res.warmup ∧ res.WF ∧
      warm.length ≤ res.blockSize ∧ 1 ≤ precision ∧ precision ≤ 15 ∧ 0 ≤ shift ∧ shift ≤ 15 ∧
      (∀ c ∈ coefs, SubFrame.inRange precision c = true) ∧ 1 ≤ b ∧ b ≤ 32 ∧
      ∀ x ∈ warm, SubFrame.inRange b x = true

/-- The number of warm-up samples of a predicted subframe (0 for constant / verbatim). -/
def SubFrame.warmLen : SubFrame → Nat
  | .fixed warm _ _ => warm.length
  | .lpc warm _ _ _ _ _ => warm.length
  | _ => 0

namespace VerifyL
open FlacVerif FlacVerif.C11 FlacVerif.OpsL FlacVerif.Count

instance subFrameWF'Decidable (s : SubFrame) : Decidable s.WF' := by
  cases s <;> (unfold SubFrame.WF'; infer_instance)

/-! ### `WF'` versus `WF` -/

/-- `WF` is `WF'` plus "at least one residual sample is coded". -/
theorem wf_iff_wf' (s : SubFrame) :
    s.WF ↔ (s.WF' ∧ (s.warmLen = 0 ∨ s.warmLen < s.blockSize)) := by
  cases s with
  | constant n dc b => simp [SubFrame.WF, SubFrame.WF', SubFrame.warmLen]
  | verbatim xs b => simp [SubFrame.WF, SubFrame.WF', SubFrame.warmLen]
  | fixed warm res b =>
    simp only [SubFrame.WF, SubFrame.WF', SubFrame.warmLen, SubFrame.blockSize]
    constructor
    · rintro ⟨a, b, c, d, e⟩
      exact ⟨⟨a, b, c, Nat.le_of_lt d, e⟩, Or.inr d⟩
    · rintro ⟨⟨a, b, c, d, e⟩, h⟩
      have := c.2.2.2.2.1
      exact ⟨a, b, c, by omega, e⟩
  | lpc warm coefs shift precision res b =>
    simp only [SubFrame.WF, SubFrame.WF', SubFrame.warmLen, SubFrame.blockSize]
    constructor
    · rintro ⟨a, b, c, d, e, f, g⟩
      exact ⟨⟨a, b, c, d, e, Nat.le_of_lt f, g⟩, Or.inr f⟩
    · rintro ⟨⟨a, b, c, d, e, f, g⟩, h⟩
      have := e.2.2.2.2.1
      exact ⟨a, b, c, d, e, by omega, g⟩

theorem wf'_of_wf (s : SubFrame) (h : s.WF) : s.WF' := ((wf_iff_wf' s).mp h).1

/-! ### C08 / C12 consequences from `WF'` (none of them uses the strict inequality) -/

theorem subframe_count' (s : SubFrame) (h : s.WF') : s.count = some s.bits.length := by
  cases s with
  | constant n dc bps => exact subframe_count (.constant n dc bps) h
  | verbatim xs bps => exact subframe_count (.verbatim xs bps) h
  | fixed warm res bps =>
    obtain ⟨_, _, hr, _⟩ := h
    simp only [SubFrame.count, SubFrame.bits, residual_count res hr, Option.map_some, List.length_append,
      natToBits_length, length_flatMap_const _ _ bps (fun x => twoc_length bps x), Nat.mul_comm bps]
  | lpc warm coefs shift precision res bps =>
    obtain ⟨_, _, hwc, _, hr, _⟩ := h
    simp only [SubFrame.count, SubFrame.bits, residual_count res hr, Option.map_some, List.length_append,
      natToBits_length, twoc_length, length_flatMap_const _ _ bps (fun x => twoc_length bps x),
      length_flatMap_const _ _ precision (fun x => twoc_length precision x), Nat.mul_comm bps,
      Nat.mul_comm precision, hwc]

theorem subframe_ops' (s : SubFrame) (h : s.WF') (len : Nat) : idealRun len s.ops = s.bits := by
  cases s with
  | constant n dc bps => exact subframe_ops (.constant n dc bps) h len
  | verbatim xs bps => exact subframe_ops (.verbatim xs bps) h len
  | fixed warm res bps =>
    rw [idealRun_free _ (subframe_free _)]
    obtain ⟨_, _, hr, _⟩ := h
    have hp : ∀ p ∈ res.params, p ≤ 31 := fun p hp => Nat.le_trans (hr.2.2.2.2.2.2.2.1 p hp) (by decide)
    simp only [SubFrame.ops, SubFrame.bits, List.flatMap_cons, List.flatMap_append, twoc_map_ideal]
    rw [← idealRun_free _ (residual_free res) 0, residual_ops res hp]
    simp only [Op.ideal]
    rw [natToBits_mod256 _ _ (Nat.le_refl 8), List.append_assoc]
  | lpc warm coefs shift precision res bps =>
    rw [idealRun_free _ (subframe_free _)]
    obtain ⟨_, _, hwc, _, hr, _⟩ := h
    have hp : ∀ p ∈ res.params, p ≤ 31 := fun p hp => Nat.le_trans (hr.2.2.2.2.2.2.2.1 p hp) (by decide)
    simp only [SubFrame.ops, SubFrame.bits, List.flatMap_cons, List.flatMap_append, twoc_map_ideal,
      List.flatMap_nil, List.append_nil]
    rw [← idealRun_free _ (residual_free res) 0, residual_ops res hp,
      List.take_of_length_le (Nat.le_of_eq hwc)]
    simp only [Op.ideal]
    rw [lpc_head]
    simp only [List.append_assoc]

theorem subframe_valid' (s : SubFrame) (h : s.WF') : ∀ op ∈ s.ops, op.Valid := by
  cases s with
  | constant n dc bps => exact subframe_valid (.constant n dc bps) h
  | verbatim xs bps => exact subframe_valid (.verbatim xs bps) h
  | fixed warm res bps =>
    intro op hop
    obtain ⟨_, _, hres, _, h1, h2, hr⟩ := h
    simp only [SubFrame.ops, List.mem_cons, List.mem_append] at hop
    rcases hop with (rfl | hop) | hop
    · exact write8_valid _
    · exact twoc_map_valid _ _ h1 h2 hr _ hop
    · exact residual_valid _ hres _ hop
  | lpc warm coefs shift precision res bps =>
    intro op hop
    obtain ⟨_, _, _, _, hres, _, hp1, hp2, hs1, hs2, hc, h1, h2, hr⟩ := h
    simp only [SubFrame.ops, List.mem_cons, List.mem_append, List.not_mem_nil, or_false] at hop
    rcases hop with (((rfl | hop) | (rfl | rfl)) | hop) | hop
    · exact write8_valid _
    · exact twoc_map_valid _ _ h1 h2 (fun x hx => hr x (List.mem_of_mem_take hx)) _ hop
    · exact ⟨rfl, by omega, by decide⟩
    · refine ⟨by decide, by decide, ?_, ?_⟩ <;> omega
    · exact twoc_map_valid _ _ hp1 (by omega) hc _ hop
    · exact residual_valid _ hres _ hop

/-- Both in-memory sinks hold the subframe's bits and their length is the reported count. -/
theorem through_sinks_subframe' (s : SubFrame) (h : s.WF') :
    (∃ w, WordSink.empty.run s.ops = some w ∧ w.abs = s.bits ∧ some w.len = s.count) ∧
    (∃ y, ByteSink.empty.run s.ops = some y ∧ y.abs = s.bits ∧ some y.len = s.count) := by
  have hv := subframe_valid' s h
  have hb := subframe_ops' s h 0
  have hc := subframe_count' s h
  obtain ⟨w, hw, _, hwa, hwl⟩ := C11_word_run s.ops hv
  obtain ⟨y, hy, _, hya, hyl⟩ := C11_byte_run s.ops hv
  exact ⟨⟨w, hw, by rw [hwa, hb], by rw [hwl, hb, hc]⟩, ⟨y, hy, by rw [hya, hb], by rw [hyl, hb, hc]⟩⟩

/-! ### the small verification macros -/

theorem partLen_eq (r : Residual) : r.partLen = r.blockSize / 2 ^ r.order := by
  rw [Residual.partLen, Nat.shiftRight_eq_div_pow]

theorem partLen_le (r : Residual) : r.partLen ≤ r.blockSize := by
  rw [partLen_eq]; exact Nat.div_le_self _ _

theorem verifyBlockSize_iff (n : Nat) : verifyBlockSize n = true ↔ 1 ≤ n ∧ n ≤ 32767 := by
  unfold verifyBlockSize maxBlockSize
  simp only [Bool.and_eq_true, decide_eq_true_eq]

theorem verifyBps_iff (b : Nat) :
    verifyBps b = true ↔ (8 ≤ b ∧ b ≤ 25 ∧ (b % 4 = 0 ∨ b % 4 = 1)) := by
  unfold verifyBps
  simp only [Bool.and_eq_true, Bool.or_eq_true, decide_eq_true_eq, beq_iff_eq, and_assoc]

theorem verifySample_eq (b : Nat) (v : Int) : verifySample b v = SubFrame.inRange b v := by
  rw [Bool.eq_iff_iff]
  simp only [verifySample, SubFrame.inRange, Bool.and_eq_true, decide_eq_true_eq]
  omega

theorem all_verifySample (xs : List Int) (b : Nat) :
    xs.all (verifySample b) = true ↔ ∀ x ∈ xs, SubFrame.inRange b x = true := by
  simp only [List.all_eq_true, verifySample_eq]

/-! ### the residual -/

theorem residual_verify_iff (r : Residual) : r.verify = true ↔ (r.WF ∧ r.blockSize ≤ 32767) := by
  simp only [Residual.verify, Residual.WF, partLen_eq, verifyBlockSize_iff, Bool.and_eq_true, decide_eq_true_eq,
    beq_iff_eq, List.all_eq_true, List.mem_range, Nat.dvd_iff_mod_eq_zero]
  constructor
  · rintro ⟨⟨⟨⟨⟨⟨⟨⟨⟨⟨h1, h2, h2'⟩, h3⟩, h4⟩, h5⟩, h6⟩, h7⟩, h8⟩, h9⟩, h10⟩, h11⟩
    exact ⟨⟨h5, h6, h7, h8, by omega, h3, h4, h9, h10, h11⟩, by omega⟩
  · rintro ⟨⟨h5, h6, h7, h8, h0, h3, h4, h9, h10, h11⟩, hn⟩
    exact ⟨⟨⟨⟨⟨⟨⟨⟨⟨⟨by omega, by omega, by omega⟩, h3⟩, h4⟩, h5⟩, h6⟩, h7⟩, h8⟩, h9⟩, h10⟩, h11⟩

/-- `Residual::new` is exactly "build the value, then `verify`" (its own early test is subsumed). -/
theorem residual_new_eq (o n w : Nat) (ps qs rs : List Nat) :
    Residual.new o n w ps qs rs =
      if (⟨o, n, w, ps, qs, rs⟩ : Residual).verify = true then some ⟨o, n, w, ps, qs, rs⟩ else none := by
  unfold Residual.new
  by_cases hc : o ≤ 15 ∧ ps.length = 2 ^ o
  · rw [if_pos hc]
  · rw [if_neg hc, if_neg]
    intro hv
    have := ((residual_verify_iff _).mp hv).1
    exact hc ⟨this.1, this.2.1⟩

theorem residual_new_some (o n w : Nat) (ps qs rs : List Nat) (r : Residual) :
    Residual.new o n w ps qs rs = some r ↔ (r = ⟨o, n, w, ps, qs, rs⟩ ∧ r.verify = true) := by
  rw [residual_new_eq]
  constructor
  · intro h
    split at h
    · next hv => cases h; exact ⟨rfl, hv⟩
    · cases h
  · rintro ⟨rfl, hv⟩
    rw [if_pos hv]

theorem residual_new_none (o n w : Nat) (ps qs rs : List Nat) :
    Residual.new o n w ps qs rs = none ↔ ¬ ((⟨o, n, w, ps, qs, rs⟩ : Residual).WF ∧ n ≤ 32767) := by
  rw [residual_new_eq, ← residual_verify_iff]
  by_cases hv : (⟨o, n, w, ps, qs, rs⟩ : Residual).verify = true
  · simp [hv]
  · simp [hv]

/-! ### quantised LPC parameters -/

theorem qparams_verify_iff (q : QParams) :
    q.verify = true ↔ (q.coefs.length ≤ 24 ∧ 0 ≤ q.shift ∧ q.shift ≤ 15 ∧ 1 ≤ q.precision ∧ q.precision ≤ 15 ∧
      ∀ c ∈ q.coefs, SubFrame.inRange q.precision c = true) := by
  have hl : (fun c : Int => decide (-(2 ^ (q.precision - 1) : Int) ≤ c) && decide (c ≤ (2 ^ (q.precision - 1) : Int) - 1)) =
      verifySample q.precision := by
    funext c; rfl
  unfold QParams.verify
  rw [hl]
  simp only [Bool.and_eq_true, decide_eq_true_eq, all_verifySample, and_assoc]

theorem qparams_new_some (coefs : List Int) (order : Nat) (shift : Int) (precision : Nat) (q : QParams) :
    QParams.new coefs order shift precision = some q ↔
      (q = ⟨coefs, shift, precision⟩ ∧ coefs.length = order ∧ q.verify = true) := by
  unfold QParams.new
  constructor
  · intro h
    split at h
    · next hc =>
      simp only at h
      split at h
      · next hv => cases h; exact ⟨rfl, hc.2, hv⟩
      · cases h
    · cases h
  · rintro ⟨rfl, hl, hv⟩
    have h24 := ((qparams_verify_iff _).mp hv).1
    simp only at h24
    rw [if_pos ⟨by omega, hl⟩]
    simp only
    rw [if_pos hv]

/-! ### subframes -/

theorem bps_bounds {b : Nat} (h : verifyBps b = true) : 1 ≤ b ∧ b ≤ 32 := by
  have := (verifyBps_iff b).mp h
  omega

theorem constant_new_some (n : Nat) (dc : Int) (bps : Nat) (s : SubFrame) :
    Constant.new n dc bps = some s ↔
      (s = .constant n dc bps ∧ 1 ≤ n ∧ n ≤ 32767 ∧ verifyBps bps = true ∧ SubFrame.inRange bps dc = true) := by
  unfold Constant.new
  simp only [Bool.and_eq_true, verifyBlockSize_iff, verifySample_eq]
  constructor
  · intro h
    split at h
    · next hc => cases h; exact ⟨rfl, hc.1.1.1, hc.1.1.2, hc.1.2, hc.2⟩
    · cases h
  · rintro ⟨rfl, h1, h2, h3, h4⟩
    rw [if_pos ⟨⟨⟨h1, h2⟩, h3⟩, h4⟩]

theorem verbatim_new_some (xs : List Int) (bps : Nat) (s : SubFrame) :
    Verbatim.new xs bps = some s ↔
      (s = .verbatim xs bps ∧ 1 ≤ xs.length ∧ xs.length ≤ 32767 ∧ verifyBps bps = true ∧
        ∀ x ∈ xs, SubFrame.inRange bps x = true) := by
  unfold Verbatim.new
  simp only [Bool.and_eq_true, verifyBlockSize_iff, all_verifySample]
  constructor
  · intro h
    split at h
    · next hc => cases h; exact ⟨rfl, hc.2.1, hc.2.2, hc.1.1, hc.1.2⟩
    · cases h
  · rintro ⟨rfl, h1, h2, h3, h4⟩
    rw [if_pos ⟨⟨h3, h4⟩, h1, h2⟩]

theorem fixed_new_some (warm : List Int) (res : Residual) (bps : Nat) (s : SubFrame) :
    FixedLpc.new warm res bps = some s ↔
      (s = .fixed warm res bps ∧ verifyBps bps = true ∧ (∀ x ∈ warm, SubFrame.inRange bps x = true) ∧
        warm.length ≤ 4 ∧ warm.length = res.warmup ∧ res.verify = true) := by
  unfold FixedLpc.new
  simp only [Bool.and_eq_true, all_verifySample, decide_eq_true_eq, beq_iff_eq]
  constructor
  · intro h
    split at h
    · next hc => cases h; exact ⟨rfl, hc.1.1.1.1, hc.1.1.1.2, hc.1.1.2, hc.1.2, hc.2⟩
    · cases h
  · rintro ⟨rfl, h1, h2, h3, h4, h5⟩
    rw [if_pos ⟨⟨⟨⟨h1, h2⟩, h3⟩, h4⟩, h5⟩]

theorem lpc_new_some (warm : List Int) (q : QParams) (res : Residual) (bps : Nat) (s : SubFrame) :
    Lpc.new warm q res bps = some s ↔
      (s = .lpc warm q.coefs q.shift q.precision res bps ∧ verifyBps bps = true ∧
        (∀ x ∈ warm, SubFrame.inRange bps x = true) ∧ warm.length ≤ 24 ∧ warm.length = q.coefs.length ∧
        q.verify = true ∧ 1 ≤ q.coefs.length ∧ warm.length = res.warmup ∧ res.verify = true) := by
  unfold Lpc.new
  simp only [Bool.and_eq_true, all_verifySample, decide_eq_true_eq, beq_iff_eq]
  constructor
  · intro h
    split at h
    · next hc =>
      cases h
      exact ⟨rfl, hc.1.1.1.1.1.1.1, hc.1.1.1.1.1.1.2, hc.1.1.1.1.1.2, hc.1.1.1.1.2, hc.1.1.1.2, hc.1.1.2, hc.1.2, hc.2⟩
    · cases h
  · rintro ⟨rfl, h1, h2, h3, h4, h5, h6, h7, h8⟩
    rw [if_pos ⟨⟨⟨⟨⟨⟨⟨h1, h2⟩, h3⟩, h4⟩, h5⟩, h6⟩, h7⟩, h8⟩]

/-- What `Residual::verify` gives about the warm-up: it fits the first partition, hence the block. -/
theorem warmup_le_of_wf (r : Residual) (h : r.WF) : r.warmup ≤ r.blockSize :=
  Nat.le_trans h.2.2.2.1 (partLen_le r)

/-- The warm-up fills the whole block only when there is a single partition. -/
theorem warmup_eq_block (r : Residual) (h : r.WF) (he : r.warmup = r.blockSize) : r.order = 0 := by
  have hw := h.2.2.2.1
  have hpos := h.2.2.2.2.1
  rw [partLen_eq] at hw
  by_cases ho : r.order = 0
  · exact ho
  · exfalso
    have h2 : 2 ≤ 2 ^ r.order := by
      have : 2 ^ 1 ≤ 2 ^ r.order := Nat.pow_le_pow_right (by decide) (by omega)
      simpa using this
    have : r.blockSize / 2 ^ r.order < r.blockSize := Nat.div_lt_self hpos h2
    omega

/-! ### frame header -/

theorem fromSize_spec (n : Nat) (h1 : 1 ≤ n) (h2 : n ≤ 32767) :
    ∃ bss, BlockSizeSpec.fromSize n = some bss ∧ bss.blockSize = some n ∧ bss ≠ .reserved := by
  unfold BlockSizeSpec.fromSize
  split
  · next h => subst h; exact ⟨_, rfl, by decide, by decide⟩
  · split
    · next h => rcases h with h | h | h | h <;> subst h <;> exact ⟨_, rfl, by decide, by decide⟩
    · split
      · next h =>
        rcases h with h | h | h | h | h | h | h | h <;> subst h <;>
          first | exact ⟨_, rfl, by decide, by decide⟩ | omega
      · split
        · omega
        · split
          · exact ⟨_, rfl, by simp only [BlockSizeSpec.blockSize]; congr 1; omega, nofun⟩
          · exact ⟨_, rfl, by simp only [BlockSizeSpec.blockSize]; congr 1; omega, nofun⟩

theorem sampleSizeTag_ok (bps : Nat) (h0 : sampleSizeTag bps ≠ 0) (h7 : sampleSizeTag bps ≠ 7) :
    bps = 8 ∨ bps = 12 ∨ bps = 16 ∨ bps = 20 ∨ bps = 24 := by
  unfold sampleSizeTag at h0 h7
  by_cases h8 : bps = 8
  · exact Or.inl h8
  by_cases h12 : bps = 12
  · exact Or.inr (Or.inl h12)
  by_cases h16 : bps = 16
  · exact Or.inr (Or.inr (Or.inl h16))
  by_cases h20 : bps = 20
  · exact Or.inr (Or.inr (Or.inr (Or.inl h20)))
  by_cases h24 : bps = 24
  · exact Or.inr (Or.inr (Or.inr (Or.inr h24)))
  by_cases h32 : bps = 32
  · simp [h32] at h7
  · simp [h8, h12, h16, h20, h24, h32] at h0

theorem assignment_tag_le (asg : ChannelAssignment) (h : asg.verify = true) : asg.tag ≤ 15 := by
  cases asg with
  | independent n =>
    simp only [ChannelAssignment.verify, Bool.and_eq_true, decide_eq_true_eq] at h
    simp only [ChannelAssignment.tag]; omega
  | leftSide => decide
  | rightSide => decide
  | midSide => decide

theorem header_new_some (n : Nat) (asg : ChannelAssignment) (bps rate : Nat) (v : Bool) (num : Nat)
    (h : FrameHeader) (hh : FrameHeader.new n asg bps rate v num = some h) :
    1 ≤ n ∧ n ≤ 32767 ∧ BlockSizeSpec.fromSize n = some h.blockSizeSpec ∧ bps < 256 ∧ rate < 2 ^ 32 ∧
    sampleSizeTag bps ≠ 0 ∧ sampleSizeTag bps ≠ 7 ∧ asg.verify = true ∧ (v = true → num < 2 ^ 36) ∧
    SampleRateSpec.fromFreq rate = some h.sampleRateSpec ∧ h.isVariable = v ∧ h.assignment = asg ∧
    h.sampleSizeTag = sampleSizeTag bps ∧ h.number = num := by
  unfold FrameHeader.new at hh
  split at hh
  · cases hh
  next hbs =>
  split at hh
  · cases hh
  next bss hbss =>
  split at hh
  · cases hh
  next hw =>
  simp only at hh
  split at hh
  · cases hh
  next htag =>
  split at hh
  · cases hh
  next hasg =>
  split at hh
  · cases hh
  next hnum =>
  split at hh
  · cases hh
  next srs hsrs =>
  cases hh
  have hbs' := (verifyBlockSize_iff n).mp (by simpa using hbs)
  refine ⟨hbs'.1, hbs'.2, hbss, by omega, by omega, fun h => htag (Or.inl h), fun h => htag (Or.inr h),
    by simpa using hasg, fun hv => ?_, hsrs, rfl, rfl, rfl, ?_⟩
  · have : ¬ num ≥ 2 ^ 36 := fun hge => hnum ⟨hv, hge⟩
    omega
  · cases v <;> simp [FrameHeader.number]

theorem header_new_none_of (n : Nat) (asg : ChannelAssignment) (bps rate : Nat) (v : Bool) (num : Nat)
    (hbad : n = 0 ∨ n > 32767 ∨ bps ≥ 256 ∨ rate ≥ 2 ^ 32 ∨ asg.verify = false ∨ (v = true ∧ num ≥ 2 ^ 36) ∨
      ¬ (bps = 8 ∨ bps = 12 ∨ bps = 16 ∨ bps = 20 ∨ bps = 24)) :
    FrameHeader.new n asg bps rate v num = none := by
  cases hn : FrameHeader.new n asg bps rate v num with
  | none => rfl
  | some h =>
    exfalso
    obtain ⟨h1, h2, _, h4, h5, h6, h7, h8, h9, _⟩ := header_new_some n asg bps rate v num h hn
    have hb := sampleSizeTag_ok bps h6 h7
    rcases hbad with hb' | hb' | hb' | hb' | hb' | hb' | hb'
    · omega
    · omega
    · omega
    · omega
    · rw [h8] at hb'; cases hb'
    · have := h9 hb'.1; omega
    · exact hb' hb

end VerifyL
end FlacVerif
