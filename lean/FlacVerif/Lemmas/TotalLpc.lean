/-
Totality of the functional encoder (C07, second half), part 1: `compute_error`.

The checked `i32` path of `compute_error` is guarded by `maxabs(signal) · Σ|coef| < i32::MAX`.  The guard
bounds every product and every partial sum of the accumulator; it does NOT bound the final subtraction
`x[t] - (acc >> shift)`.  `LpcSafe` is the exact condition under which `compute_error` followed by the
Rice parameter search hits no panic site (`lpcCandidate_isSome_iff` in `TotalSubframe.lean`).
-/
import FlacVerif.Lemmas.StrictSearch
import FlacVerif.Lemmas.CountFrame
namespace FlacVerif
namespace Total
open Strict

/-- Sum of absolute values. -/
def sumAbs (l : List Int) : Nat := (l.map Int.natAbs).sum

theorem foldl_sumAbs (l : List Int) (s0 : Nat) : l.foldl (fun s c => s + c.natAbs) s0 = s0 + sumAbs l := by
  induction l generalizing s0 with
  | nil => simp [sumAbs]
  | cons c cs ih =>
    rw [List.foldl_cons, ih]
    simp only [sumAbs, List.map_cons, List.sum_cons]
    omega

theorem foldl_maxAbs (l : List Int) (m0 : Nat) :
    m0 ≤ l.foldl (fun m x => max m x.natAbs) m0 ∧ ∀ x ∈ l, x.natAbs ≤ l.foldl (fun m x => max m x.natAbs) m0 := by
  induction l generalizing m0 with
  | nil => exact ⟨Nat.le_refl _, fun x hx => by simp at hx⟩
  | cons c cs ih =>
    rw [List.foldl_cons]
    obtain ⟨h1, h2⟩ := ih (max m0 c.natAbs)
    refine ⟨by omega, ?_⟩
    intro x hx
    simp only [List.mem_cons] at hx
    rcases hx with rfl | hx
    · omega
    · exact h2 x hx

theorem getD_natAbs_le (l : List Int) (i M : Nat) (h : ∀ x ∈ l, x.natAbs ≤ M) : (l.getD i 0).natAbs ≤ M := by
  by_cases hi : i < l.length
  · exact h _ (getD_mem_int l i hi)
  · rw [List.getD_eq_getElem?_getD, List.getElem?_eq_none (by omega)]
    simp

theorem sumAbs_take_succ (l : List Int) (k : Nat) (hk : k < l.length) :
    sumAbs (l.take (k + 1)) = sumAbs (l.take k) + (l.getD k 0).natAbs := by
  unfold sumAbs
  rw [List.take_add_one, List.map_append, List.sum_append]
  congr 1
  rw [List.getD_eq_getElem?_getD, List.getElem?_eq_getElem hk]
  simp

theorem sumAbs_take_le (l : List Int) (k : Nat) : sumAbs (l.take k) ≤ sumAbs l := by
  unfold sumAbs
  conv => rhs; rw [← List.take_append_drop k l]
  rw [List.map_append, List.sum_append]
  omega

theorem natAbs_mul_le (c x : Int) (M : Nat) (hx : x.natAbs ≤ M) : (c * x).natAbs ≤ M * c.natAbs := by
  rw [Int.natAbs_mul, Nat.mul_comm]
  exact Nat.mul_le_mul_right _ hx

/-- One step of the checked accumulator of `compute_error_impl::<i32>`. -/
def stepOpt (coefs xs : List Int) (t : Nat) (acc : Option Int) (j : Nat) : Option Int :=
  acc.bind fun a =>
    if t ≥ j + 1 then
      let prod := coefs.getD j 0 * xs.getD (t - 1 - j) 0
      if fitsI32 prod && fitsI32 (a + prod) then some (a + prod) else none
    else some a

/-- … and of the exact accumulator. -/
def stepInt (coefs xs : List Int) (t : Nat) (a : Int) (j : Nat) : Int :=
  if t ≥ j + 1 then a + coefs.getD j 0 * xs.getD (t - 1 - j) 0 else a

/-- Under the guard, the checked accumulator never overflows: it is the exact accumulator. -/
theorem acc_checked (coefs xs : List Int) (t M : Nat) (hM : ∀ x ∈ xs, x.natAbs ≤ M)
    (hg : M * sumAbs coefs < 2 ^ 31 - 1) :
    ∀ k, k ≤ coefs.length →
      (List.range k).foldl (stepOpt coefs xs t) (some 0) = some ((List.range k).foldl (stepInt coefs xs t) 0) ∧
      ((List.range k).foldl (stepInt coefs xs t) 0).natAbs ≤ M * sumAbs (coefs.take k) := by
  intro k
  induction k with
  | zero => intro _; exact ⟨rfl, by simp⟩
  | succ k ih =>
    intro hk
    obtain ⟨e1, e2⟩ := ih (by omega)
    rw [List.range_succ, List.foldl_append, List.foldl_append, e1]
    simp only [List.foldl_cons, List.foldl_nil]
    rw [sumAbs_take_succ coefs k (by omega)]
    generalize (List.range k).foldl (stepInt coefs xs t) 0 = a at e2 ⊢
    unfold stepOpt stepInt
    simp only [Option.bind_some]
    rw [Nat.mul_add]
    by_cases ht : t ≥ k + 1
    · rw [if_pos ht, if_pos ht]
      have hx := getD_natAbs_le xs (t - 1 - k) M hM
      have hp := natAbs_mul_le (coefs.getD k 0) (xs.getD (t - 1 - k) 0) M hx
      generalize coefs.getD k 0 * xs.getD (t - 1 - k) 0 = prod at hp ⊢
      have hle : M * (sumAbs (coefs.take k) + (coefs.getD k 0).natAbs) ≤ M * sumAbs coefs := by
        apply Nat.mul_le_mul_left
        rw [← sumAbs_take_succ coefs k (by omega)]
        exact sumAbs_take_le coefs (k + 1)
      rw [Nat.mul_add] at hle
      have hle2 : M * (coefs.getD k 0).natAbs ≤ M * sumAbs coefs := by omega
      have hf1 : fitsI32 prod = true := by rw [fitsI32_iff]; omega
      have hf2 : fitsI32 (a + prod) = true := by rw [fitsI32_iff]; omega
      simp only [hf1, hf2, Bool.and_self, if_true]
      exact ⟨trivial, by omega⟩
    · rw [if_neg ht, if_neg ht]
      refine ⟨by simp, by omega⟩

theorem accE_eq_foldl (coefs xs : List Int) (t : Nat) :
    accE coefs xs t = (List.range coefs.length).foldl (stepInt coefs xs t) 0 := rfl

/-- The checked `i32` path, under its guard: it returns iff the final subtraction fits at EVERY position
(the warm-up positions included: the code subtracts there too before zeroing them). -/
theorem computeError32_guarded (coefs : List Int) (shift : Nat) (xs : List Int)
    (hg : (xs.foldl (fun m x => max m x.natAbs) 0) * (coefs.foldl (fun s c => s + c.natAbs) 0) < 2 ^ 31 - 1) :
    computeError32 coefs shift xs =
      (List.range xs.length).mapM fun t =>
        if fitsI32 (errE coefs shift xs t) then some (if t < coefs.length then 0 else errE coefs shift xs t)
        else none := by
  rw [foldl_sumAbs, Nat.zero_add] at hg
  have hM := (foldl_maxAbs xs 0).2
  unfold computeError32
  simp only []
  congr 1
  funext t
  have := (acc_checked coefs xs t _ hM hg coefs.length (Nat.le_refl _)).1
  change (List.range coefs.length).foldl (stepOpt coefs xs t) (some 0) = _ at this
  have h2 : ((List.range coefs.length).foldl (fun (acc : Option Int) j =>
      acc.bind fun a =>
        if t ≥ j + 1 then
          let prod := coefs.getD j 0 * xs.getD (t - 1 - j) 0
          if fitsI32 prod && fitsI32 (a + prod) then some (a + prod) else none
        else some a) (some 0)) = some (accE coefs xs t) := this
  rw [h2]
  rfl

theorem computeError32_some (coefs : List Int) (shift : Nat) (xs : List Int)
    (hg : (xs.foldl (fun m x => max m x.natAbs) 0) * (coefs.foldl (fun s c => s + c.natAbs) 0) < 2 ^ 31 - 1)
    (hfit : ∀ t, t < xs.length → fitsI32 (errE coefs shift xs t) = true) :
    computeError32 coefs shift xs =
      some ((List.range xs.length).map fun t => if t < coefs.length then 0 else errE coefs shift xs t) := by
  rw [computeError32_guarded coefs shift xs hg]
  apply Count.mapM_some_map
  intro t ht
  rw [List.mem_range] at ht
  rw [if_pos (hfit t ht)]

theorem computeError32_none (coefs : List Int) (shift : Nat) (xs : List Int)
    (hg : (xs.foldl (fun m x => max m x.natAbs) 0) * (coefs.foldl (fun s c => s + c.natAbs) 0) < 2 ^ 31 - 1)
    (t : Nat) (ht : t < xs.length) (hfit : fitsI32 (errE coefs shift xs t) = false) :
    computeError32 coefs shift xs = none := by
  rw [computeError32_guarded coefs shift xs hg]
  cases h : (List.range xs.length).mapM (fun t =>
      if fitsI32 (errE coefs shift xs t) then some (if t < coefs.length then 0 else errE coefs shift xs t)
      else none) with
  | none => rfl
  | some ys =>
    obtain ⟨y, hy⟩ := mapM_some_mem _ _ _ h t (List.mem_range.2 ht)
    rw [hfit] at hy
    simp at hy

/-- **The exact no-panic condition of `compute_error` + `encode_signbit`** for one parameter set:
(1) on the checked `i32` path the subtraction `x[t] - (acc >> shift)` fits an `i32` at every position;
(2) no emitted error (position `t ≥ order`, after the cast to `i32` on the `i64` path) is `i32::MIN`. -/
def LpcSafe (coefs : List Int) (shift : Nat) (xs : List Int) : Prop :=
  (¬ lpcWide coefs xs → ∀ t, t < xs.length → fitsI32 (errE coefs shift xs t) = true) ∧
  (∀ t, coefs.length ≤ t → t < xs.length → wrap32 (errE coefs shift xs t) ≠ -(2 ^ 31 : Int))

instance (coefs : List Int) (shift : Nat) (xs : List Int) : Decidable (LpcSafe coefs shift xs) := by
  unfold LpcSafe
  have d1 : Decidable (∀ t, t < xs.length → fitsI32 (errE coefs shift xs t) = true) :=
    Nat.decidableBallLT _ _
  have d2 : Decidable (∀ t, coefs.length ≤ t → t < xs.length → wrap32 (errE coefs shift xs t) ≠ -(2 ^ 31 : Int)) :=
    decidable_of_iff (∀ t, t < xs.length → coefs.length ≤ t → wrap32 (errE coefs shift xs t) ≠ -(2 ^ 31 : Int))
      ⟨fun h t a b => h t b a, fun h t a b => h t b a⟩
  infer_instance

/-- Under `LpcSafe`, `compute_error` returns errors strictly inside `(-2^31, 2^31)`. -/
theorem computeError_safe (coefs : List Int) (shift : Nat) (xs : List Int) (h : LpcSafe coefs shift xs) :
    ∃ errors, computeError coefs shift xs = some errors ∧ errors.length = xs.length ∧
      ∀ e ∈ errors, -(2 ^ 31 : Int) < e ∧ e < (2 ^ 31 : Int) := by
  obtain ⟨h1, h2⟩ := h
  unfold computeError
  simp only []
  split
  · rename_i hg
    have hnw : ¬ lpcWide coefs xs := fun hw => hw hg
    refine ⟨_, computeError32_some coefs shift xs hg (h1 hnw), by simp, ?_⟩
    intro e he
    simp only [List.mem_map, List.mem_range] at he
    obtain ⟨t, ht, rfl⟩ := he
    split
    · decide
    · have hf := (fitsI32_iff _).1 (h1 hnw t ht)
      have hne := h2 t (by omega) ht
      rw [wrap32_id _ hf.1 hf.2] at hne
      omega
  · refine ⟨_, rfl, by simp [computeError64], ?_⟩
    intro e he
    simp only [computeError64, List.mem_map, List.mem_range] at he
    obtain ⟨t, ht, rfl⟩ := he
    split
    · decide
    · have hne := h2 t (by omega) ht
      have hf := (fitsI32_iff _).1 (wrap32_fits (xs.getD t 0 - ((List.range coefs.length).foldl (fun (a : Int) j =>
        if t ≥ j + 1 then a + coefs.getD j 0 * xs.getD (t - 1 - j) 0 else a) 0 >>> shift)))
      have hne' : wrap32 (xs.getD t 0 - ((List.range coefs.length).foldl (fun (a : Int) j =>
        if t ≥ j + 1 then a + coefs.getD j 0 * xs.getD (t - 1 - j) 0 else a) 0 >>> shift)) ≠ -(2 ^ 31 : Int) := hne
      omega

end Total
end FlacVerif
