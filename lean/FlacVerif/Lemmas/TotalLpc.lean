/-
Totality of the functional encoder (C07, second half), part 1: `compute_error`.

The checked `i32` path of `compute_error` is guarded by `maxabs(signal) · (Σ|coef| + 1) < i32::MAX`.  With
`M = maxabs(signal)` and `S = Σ|coef|` the guard bounds every product (`≤ M·S`), every partial sum of the
accumulator (`≤ M·S`), its shifted value, and the final subtraction `x[t] - (acc >> shift)`
(`≤ M + M·S = M·(S + 1)`): the `i32` path never overflows (`computeError32_total`), for ANY coefficients,
shift and signal, and every value it produces lies strictly inside `-(2^31 - 1) .. 2^31 - 1`.  On the `i64`
path the flag reports whether every exact error is a FLAC residual.  So `compute_error` never panics
(`computeError_total`), its flag is `true` iff the exact LPC residual lies in `-(2^31-1) ..= 2^31-1`
(`computeError_flag_iff`), and with flag `true` the buffer holds exact values, none of them `i32::MIN`.

`computeErrorOld` is the dispatch BEFORE the fix (guard `M·S < i32::MAX`, which does not cover the final
subtraction, and an `i64` path that wraps silently); it is kept for the negative controls only.
-/
import FlacVerif.Lemmas.StrictSearch
import FlacVerif.Lemmas.CountFrame
namespace FlacVerif
namespace Total
open Strict

/-- Sum of absolute values. -/
def sumAbs (l : List Int) : Nat := (l.map Int.natAbs).sum

theorem foldl_sumAbs (l : List Int) (s0 : Nat) : l.foldl (fun s c => s + c.natAbs) s0 = s0 + sumAbs l := by
  induction l generalizing s0 with
  | nil => simp [sumAbs]
  | cons c cs ih =>
    rw [List.foldl_cons, ih]
    simp only [sumAbs, List.map_cons, List.sum_cons]
    omega

theorem foldl_maxAbs (l : List Int) (m0 : Nat) :
    m0 ≤ l.foldl (fun m x => max m x.natAbs) m0 ∧ ∀ x ∈ l, x.natAbs ≤ l.foldl (fun m x => max m x.natAbs) m0 := by
  induction l generalizing m0 with
  | nil => exact ⟨Nat.le_refl _, fun x hx => by simp at hx⟩
  | cons c cs ih =>
    rw [List.foldl_cons]
    obtain ⟨h1, h2⟩ := ih (max m0 c.natAbs)
    refine ⟨by omega, ?_⟩
    intro x hx
    simp only [List.mem_cons] at hx
    rcases hx with rfl | hx
    · omega
    · exact h2 x hx

theorem getD_natAbs_le (l : List Int) (i M : Nat) (h : ∀ x ∈ l, x.natAbs ≤ M) : (l.getD i 0).natAbs ≤ M := by
  by_cases hi : i < l.length
  · exact h _ (getD_mem_int l i hi)
  · rw [List.getD_eq_getElem?_getD, List.getElem?_eq_none (by omega)]
    simp

theorem sumAbs_take_succ (l : List Int) (k : Nat) (hk : k < l.length) :
    sumAbs (l.take (k + 1)) = sumAbs (l.take k) + (l.getD k 0).natAbs := by
  unfold sumAbs
  rw [List.take_add_one, List.map_append, List.sum_append]
  congr 1
  rw [List.getD_eq_getElem?_getD, List.getElem?_eq_getElem hk]
  simp

theorem sumAbs_take_le (l : List Int) (k : Nat) : sumAbs (l.take k) ≤ sumAbs l := by
  unfold sumAbs
  conv => rhs; rw [← List.take_append_drop k l]
  rw [List.map_append, List.sum_append]
  omega

theorem natAbs_mul_le (c x : Int) (M : Nat) (hx : x.natAbs ≤ M) : (c * x).natAbs ≤ M * c.natAbs := by
  rw [Int.natAbs_mul, Nat.mul_comm]
  exact Nat.mul_le_mul_right _ hx

/-- One step of the checked accumulator of `compute_error_impl::<i32>`. -/
def stepOpt (coefs xs : List Int) (t : Nat) (acc : Option Int) (j : Nat) : Option Int :=
  acc.bind fun a =>
    if t ≥ j + 1 then
      let prod := coefs.getD j 0 * xs.getD (t - 1 - j) 0
      if fitsI32 prod && fitsI32 (a + prod) then some (a + prod) else none
    else some a

/-- … and of the exact accumulator. -/
def stepInt (coefs xs : List Int) (t : Nat) (a : Int) (j : Nat) : Int :=
  if t ≥ j + 1 then a + coefs.getD j 0 * xs.getD (t - 1 - j) 0 else a

/-- Under the guard, the checked accumulator never overflows: it is the exact accumulator. -/
theorem acc_checked (coefs xs : List Int) (t M : Nat) (hM : ∀ x ∈ xs, x.natAbs ≤ M)
    (hg : M * sumAbs coefs < 2 ^ 31 - 1) :
    ∀ k, k ≤ coefs.length →
      (List.range k).foldl (stepOpt coefs xs t) (some 0) = some ((List.range k).foldl (stepInt coefs xs t) 0) ∧
      ((List.range k).foldl (stepInt coefs xs t) 0).natAbs ≤ M * sumAbs (coefs.take k) := by
  intro k
  induction k with
  | zero => intro _; exact ⟨rfl, by simp⟩
  | succ k ih =>
    intro hk
    obtain ⟨e1, e2⟩ := ih (by omega)
    rw [List.range_succ, List.foldl_append, List.foldl_append, e1]
    simp only [List.foldl_cons, List.foldl_nil]
    rw [sumAbs_take_succ coefs k (by omega)]
    generalize (List.range k).foldl (stepInt coefs xs t) 0 = a at e2 ⊢
    unfold stepOpt stepInt
    simp only [Option.bind_some]
    rw [Nat.mul_add]
    by_cases ht : t ≥ k + 1
    · rw [if_pos ht, if_pos ht]
      have hx := getD_natAbs_le xs (t - 1 - k) M hM
      have hp := natAbs_mul_le (coefs.getD k 0) (xs.getD (t - 1 - k) 0) M hx
      generalize coefs.getD k 0 * xs.getD (t - 1 - k) 0 = prod at hp ⊢
      have hle : M * (sumAbs (coefs.take k) + (coefs.getD k 0).natAbs) ≤ M * sumAbs coefs := by
        apply Nat.mul_le_mul_left
        rw [← sumAbs_take_succ coefs k (by omega)]
        exact sumAbs_take_le coefs (k + 1)
      rw [Nat.mul_add] at hle
      have hle2 : M * (coefs.getD k 0).natAbs ≤ M * sumAbs coefs := by omega
      have hf1 : fitsI32 prod = true := by rw [fitsI32_iff]; omega
      have hf2 : fitsI32 (a + prod) = true := by rw [fitsI32_iff]; omega
      simp only [hf1, hf2, Bool.and_self, if_true]
      exact ⟨trivial, by omega⟩
    · rw [if_neg ht, if_neg ht]
      refine ⟨by simp, by omega⟩

theorem accE_eq_foldl (coefs xs : List Int) (t : Nat) :
    accE coefs xs t = (List.range coefs.length).foldl (stepInt coefs xs t) 0 := rfl

/-- The checked `i32` path, under its guard: it returns iff the final subtraction fits at EVERY position
(the warm-up positions included: the code subtracts there too before zeroing them). -/
theorem computeError32_guarded (coefs : List Int) (shift : Nat) (xs : List Int)
    (hg : (xs.foldl (fun m x => max m x.natAbs) 0) * (coefs.foldl (fun s c => s + c.natAbs) 0) < 2 ^ 31 - 1) :
    computeError32 coefs shift xs =
      (List.range xs.length).mapM fun t =>
        if fitsI32 (errE coefs shift xs t) then some (if t < coefs.length then 0 else errE coefs shift xs t)
        else none := by
  rw [foldl_sumAbs, Nat.zero_add] at hg
  have hM := (foldl_maxAbs xs 0).2
  unfold computeError32
  simp only []
  congr 1
  funext t
  have := (acc_checked coefs xs t _ hM hg coefs.length (Nat.le_refl _)).1
  change (List.range coefs.length).foldl (stepOpt coefs xs t) (some 0) = _ at this
  have h2 : ((List.range coefs.length).foldl (fun (acc : Option Int) j =>
      acc.bind fun a =>
        if t ≥ j + 1 then
          let prod := coefs.getD j 0 * xs.getD (t - 1 - j) 0
          if fitsI32 prod && fitsI32 (a + prod) then some (a + prod) else none
        else some a) (some 0)) = some (accE coefs xs t) := this
  rw [h2]
  rfl

theorem computeError32_some (coefs : List Int) (shift : Nat) (xs : List Int)
    (hg : (xs.foldl (fun m x => max m x.natAbs) 0) * (coefs.foldl (fun s c => s + c.natAbs) 0) < 2 ^ 31 - 1)
    (hfit : ∀ t, t < xs.length → fitsI32 (errE coefs shift xs t) = true) :
    computeError32 coefs shift xs =
      some ((List.range xs.length).map fun t => if t < coefs.length then 0 else errE coefs shift xs t) := by
  rw [computeError32_guarded coefs shift xs hg]
  apply Count.mapM_some_map
  intro t ht
  rw [List.mem_range] at ht
  rw [if_pos (hfit t ht)]

theorem natAbs_shiftRight_le (a : Int) (s : Nat) : (a >>> s).natAbs ≤ a.natAbs := by
  rw [Int.shiftRight_eq_div_pow]
  exact Int.natAbs_ediv_le_natAbs _ _

/-- The exact accumulator is bounded by `M · Σ|coef|`, the exact error by `M · (Σ|coef| + 1)`. -/
theorem errE_bound (coefs : List Int) (shift : Nat) (xs : List Int) (t M : Nat) (hM : ∀ x ∈ xs, x.natAbs ≤ M)
    (hg : M * sumAbs coefs < 2 ^ 31 - 1) :
    (accE coefs xs t).natAbs ≤ M * sumAbs coefs ∧ (errE coefs shift xs t).natAbs ≤ M * (sumAbs coefs + 1) := by
  have ha := (acc_checked coefs xs t M hM hg coefs.length (Nat.le_refl _)).2
  rw [List.take_length, ← accE_eq_foldl] at ha
  refine ⟨ha, ?_⟩
  unfold errE
  have h1 := Int.natAbs_sub_le (xs.getD t 0) (accE coefs xs t >>> shift)
  have h2 := natAbs_shiftRight_le (accE coefs xs t) shift
  have h3 := getD_natAbs_le xs t M hM
  rw [Nat.mul_add, Nat.mul_one]
  omega

/-- **The checked `i32` path never overflows under the new guard** `maxabs · (Σ|coef| + 1) < i32::MAX` —
no product, partial sum or final subtraction leaves the `i32` range — for ANY coefficients, shift and
signal (no hypothesis on the samples: the guard itself bounds them). Every exact error, at every
position, is smaller in absolute value than `2^31 - 1`; in particular none is `i32::MIN`. -/
theorem computeError32_total (coefs : List Int) (shift : Nat) (xs : List Int)
    (hg : (xs.foldl (fun m x => max m x.natAbs) 0) * ((coefs.foldl (fun s c => s + c.natAbs) 0) + 1) < 2 ^ 31 - 1) :
    computeError32 coefs shift xs =
      some ((List.range xs.length).map fun t => if t < coefs.length then 0 else errE coefs shift xs t) ∧
    ∀ t, (errE coefs shift xs t).natAbs < 2 ^ 31 - 1 := by
  have hg' : (xs.foldl (fun m x => max m x.natAbs) 0) * (coefs.foldl (fun s c => s + c.natAbs) 0) < 2 ^ 31 - 1 := by
    rw [Nat.mul_add] at hg
    omega
  have hb : ∀ t, (errE coefs shift xs t).natAbs < 2 ^ 31 - 1 := by
    intro t
    have hM := (foldl_maxAbs xs 0).2
    rw [foldl_sumAbs, Nat.zero_add] at hg hg'
    have := (errE_bound coefs shift xs t _ hM hg').2
    omega
  refine ⟨computeError32_some coefs shift xs hg' ?_, hb⟩
  intro t _
  have := hb t
  rw [fitsI32_iff]
  omega

/-- **`compute_error` never panics**, for ANY coefficients, shift and signal. -/
theorem computeError_isSome (coefs : List Int) (shift : Nat) (xs : List Int) :
    ∃ errors fits, computeError coefs shift xs = some (errors, fits) := by
  unfold computeError
  simp only []
  split
  · rename_i hg
    rw [(computeError32_total coefs shift xs hg).1]
    exact ⟨_, _, rfl⟩
  · exact ⟨_, _, rfl⟩

/-- **The flag is exact**: whatever `compute_error` returns, its flag is `true` iff every value of the exact
LPC residual lies in `-(2^31-1) ..= 2^31-1`, the range of FLAC residuals (on the checked `i32` path this
always holds). -/
theorem computeError_flag_iff (coefs : List Int) (shift : Nat) (xs errors : List Int) (fits : Bool)
    (h : computeError coefs shift xs = some (errors, fits)) :
    fits = true ↔ ∀ e ∈ lpcResidual coefs shift xs, e.natAbs ≤ 2 ^ 31 - 1 := by
  unfold computeError at h
  simp only [] at h
  split at h
  · rename_i hg
    simp only [Option.map_eq_some_iff, Prod.mk.injEq] at h
    obtain ⟨_, _, _, rfl⟩ := h
    refine ⟨fun _ => ?_, fun _ => rfl⟩
    rw [lpcResidual_eq]
    intro e he
    obtain ⟨t, _, rfl⟩ := List.mem_map.1 he
    have := (computeError32_total coefs shift xs hg).2 t
    omega
  · simp only [Option.some.injEq, Prod.mk.injEq] at h
    obtain ⟨_, rfl⟩ := h
    exact fitsResidual64_iff_residual coefs shift xs

/-- With flag `true` every entry of the buffer lies strictly inside `(-2^31, 2^31)` (even inside
`-(2^31-1) ..= 2^31-1`): `encode_signbit` does not meet `i32::MIN`. -/
theorem computeError_range (coefs : List Int) (shift : Nat) (xs errors : List Int)
    (h : computeError coefs shift xs = some (errors, true)) :
    ∀ e ∈ errors, e.natAbs ≤ 2 ^ 31 - 1 := by
  unfold computeError at h
  simp only [] at h
  split at h
  · rename_i hg
    obtain ⟨h1, h2⟩ := computeError32_total coefs shift xs hg
    rw [h1] at h
    simp only [Option.map_some, Option.some.injEq, Prod.mk.injEq, and_true] at h
    subst h
    intro e he
    simp only [List.mem_map, List.mem_range] at he
    obtain ⟨t, _, rfl⟩ := he
    split
    · decide
    · have := h2 t; omega
  · simp only [Option.some.injEq, Prod.mk.injEq] at h
    obtain ⟨rfl, hflag⟩ := h
    rw [fitsResidual64_iff] at hflag
    rw [computeError64_eq]
    intro e he
    simp only [List.mem_map, List.mem_range] at he
    obtain ⟨t, ht, rfl⟩ := he
    split
    · decide
    · have := hflag t (by omega) ht
      rw [wrap32_id _ (by omega) (by omega)]
      exact this

/-- `compute_error`, summary: it returns; the buffer has one entry per sample; with flag `true` every
entry lies strictly inside `(-2^31, 2^31)` and the entries after the warm-up are the exact LPC residual. -/
theorem computeError_total (coefs : List Int) (shift : Nat) (xs : List Int) :
    ∃ errors fits, computeError coefs shift xs = some (errors, fits) ∧ errors.length = xs.length ∧
      (fits = true → (∀ e ∈ errors, -(2 ^ 31 : Int) < e ∧ e < (2 ^ 31 : Int)) ∧
        errors.drop coefs.length = lpcResidual coefs shift xs) := by
  obtain ⟨errors, fits, h⟩ := computeError_isSome coefs shift xs
  refine ⟨errors, fits, h, (computeError_fits coefs shift xs errors h).1, ?_⟩
  intro hf
  subst hf
  refine ⟨?_, (computeError_spec coefs shift xs errors h).2.2⟩
  intro e he
  have := computeError_range coefs shift xs errors h e he
  omega

/-! ### the dispatch before the fix (negative controls only) -/

/-- `compute_error` BEFORE the fix: the guard `maxabs · Σ|coef| < i32::MAX` covers the accumulation but not
the final subtraction, and the `i64` path casts with `as i32` without telling anybody. -/
def computeErrorOld (coefs : List Int) (shift : Nat) (xs : List Int) : Option (List Int) :=
  let maxabs := xs.foldl (fun m x => max m x.natAbs) 0
  let sumabs := coefs.foldl (fun s c => s + c.natAbs) 0
  if maxabs * sumabs < 2 ^ 31 - 1 then computeError32 coefs shift xs
  else some (computeError64 coefs shift xs)

end Total
end FlacVerif
