/-
MD5 invariant: the bytes already hashed followed by the queued data blocks are exactly the bytes of
the blocks read so far, in order; the queue holds data blocks followed only by stop tokens (empty
blocks); the hasher exits on the first stop token and at most one more stop token is sent after it.
Needs the (realistic) assumption that a block read from the source is never empty: an empty byte
block *is* the stop token of the md5 channel.
-/
import FlacVerif.Lemmas.ParInvC
namespace FlacVerif.Par

/-- no block of the input is empty (a read returning 0 samples is end-of-input, not a block) -/
def Params.NonemptyBlocks (p : Params) : Prop := ∀ b ∈ p.blocks, b.bytes ≠ []

def prefixBytes (p : Params) (j : Nat) : List Nat := ((p.blocks.take j).map (·.bytes)).flatten

/-- number of data blocks sent to the hasher -/
def md5Sent (m : MPc) (k : Nat) : Nat :=
  match m with
  | .filledMd5 _ | .enq _ => k + 1
  | _ => k

/-- number of stop tokens sent to the hasher -/
def emptiesSent (p : Params) (m : MPc) (readErr : Bool) : Nat :=
  match m with
  | .eofEmpty _ => 1
  | .stop _ | .reqStop => if p.eofSendsEmpty = true ∧ readErr = false then 1 else 0
  | .joinH | .joinW _ | .done => (if p.eofSendsEmpty = true ∧ readErr = false then 1 else 0) + 1
  | _ => 0

def InvMd5 (p : Params) (s : State) : Prop :=
  ∃ d e, s.md5Q = d ++ List.replicate e [] ∧ (∀ b ∈ d, b ≠ []) ∧
    s.hashed ++ d.flatten = prefixBytes p (md5Sent s.main s.k) ∧
    (s.hasher = .running → e = emptiesSent p s.main s.readErr) ∧
    (s.hasher = .exited → d = [] ∧ e + 1 = emptiesSent p s.main s.readErr)

theorem InvMd5.init (p : Params) : InvMd5 p (init p) :=
  ⟨[], 0, by simp [Par.init, prefixBytes, md5Sent, emptiesSent]⟩

theorem emptiesSent_afterStop (p : Params) (r : Nat) (re : Bool) :
    emptiesSent p (afterStop r) re = if p.eofSendsEmpty = true ∧ re = false then 1 else 0 := by
  unfold afterStop; split <;> rfl

theorem md5Sent_afterStop (r k : Nat) : md5Sent (afterStop r) k = k := by
  unfold afterStop; split <;> rfl

theorem InvMd5.congr {p : Params} {s s' : State} (h : InvMd5 p s) (hq : s'.md5Q = s.md5Q)
    (hh : s'.hashed = s.hashed) (hp : s'.hasher = s.hasher)
    (h1 : md5Sent s'.main s'.k = md5Sent s.main s.k)
    (h2 : emptiesSent p s'.main s'.readErr = emptiesSent p s.main s.readErr) : InvMd5 p s' := by
  unfold InvMd5 at *
  rw [hq, hh, hp, h1, h2]; exact h

theorem prefixBytes_succ {p : Params} {k : Nat} {b : Block} (hb : p.blocks[k]? = some b) :
    prefixBytes p (k + 1) = prefixBytes p k ++ b.bytes := by
  have hlt := getElem?_some_lt hb
  have hget : p.blocks[k] = b := by
    rw [List.getElem?_eq_getElem hlt] at hb; exact Option.some.inj hb
  simp [prefixBytes, List.take_succ_eq_append_getElem hlt, hget]

theorem InvMd5.step {p : Params} {s s' : State} {e : Ev} (hne : p.NonemptyBlocks) (hC : InvC p s)
    (h : InvMd5 p s) (hs : Step p s e s') : InvMd5 p s' := by
  have hmo := hC.mainOk
  cases hs
  case refill_recv id rest hm hq =>
    exact h.congr rfl rfl rfl (by simp [hm, md5Sent]) (by simp [hm, emptiesSent])
  case md5_data id b x hm hnf hcap hb hx =>
    obtain ⟨d, e, h1, h2, h3, h4, h5⟩ := h
    simp only [hm, emptiesSent, md5Sent] at h3 h4 h5
    have he0 : e = 0 := by
      cases hh : s.hasher with
      | running => exact h4 hh
      | exited => have := (h5 hh).2; omega
    subst he0
    have hbne : b.bytes ≠ [] := hne b (List.mem_of_getElem? hb)
    refine ⟨d ++ [b.bytes], 0, ?_, ?_, ?_, ?_, ?_⟩
    · simp [h1]
    · intro c hc
      rcases List.mem_append.1 hc with hc | hc
      · exact h2 c hc
      · simp at hc; subst hc; exact hbne
    · simp only [md5Sent, prefixBytes_succ hb, ← h3]; simp
    · intro _; simp [emptiesSent]
    · intro hh; have := (h5 hh).2; omega
  case md5_eof id hm hnf hcap hb he =>
    obtain ⟨d, e, h1, h2, h3, h4, h5⟩ := h
    simp only [hm, emptiesSent, md5Sent] at h3 h4 h5
    refine ⟨d, e + 1, ?_, h2, ?_, ?_, ?_⟩
    · simp [h1, List.replicate_succ']
    · simpa [md5Sent] using h3
    · intro hh; simp [emptiesSent, h4 hh]
    · intro hh; have := (h5 hh).2; omega
  case md5_stop hm hcap =>
    obtain ⟨d, e, h1, h2, h3, h4, h5⟩ := h
    simp only [hm, emptiesSent, md5Sent] at h3 h4 h5
    refine ⟨d, e + 1, ?_, h2, ?_, ?_, ?_⟩
    · simp [h1, List.replicate_succ']
    · simpa [md5Sent] using h3
    · intro hh; simp [emptiesSent, h4 hh]
    · intro hh; have := h5 hh; exact ⟨this.1, by simp [emptiesSent]; omega⟩
  case f_filled id x hm hx =>
    exact h.congr rfl rfl rfl (by simp [hm, md5Sent]) (by simp [hm, emptiesSent])
  case f_eof_plain id hm hnf hk he =>
    refine h.congr rfl rfl rfl (by simp only [md5Sent_afterStop]; simp [hm, md5Sent]) ?_
    simp only [emptiesSent_afterStop]; simp [hm, he, emptiesSent]
  case f_eof_empty id hm =>
    simp only [MainOk, hm] at hmo
    refine h.congr rfl rfl rfl (by simp only [md5Sent_afterStop]; simp [hm, md5Sent]) ?_
    simp only [emptiesSent_afterStop]; simp [hm, hmo.1, hmo.2.1, emptiesSent]
  case f_read_err id hm hf =>
    refine h.congr rfl rfl rfl (by simp only [md5Sent_afterStop]; simp [hm, md5Sent]) ?_
    simp only [emptiesSent_afterStop]; simp [hm, emptiesSent]
  case enc_send_some id hm hcap =>
    exact h.congr rfl rfl rfl (by simp [hm, md5Sent]) (by simp [hm, emptiesSent])
  case enc_send_none r hm hcap =>
    refine h.congr rfl rfl rfl (by simp only [md5Sent_afterStop]; simp [hm, md5Sent]) ?_
    simp only [emptiesSent_afterStop]; simp [hm, emptiesSent]
  case joined_hasher hm hh =>
    refine h.congr rfl rfl rfl ?_ ?_ <;> split <;> simp [hm, md5Sent, emptiesSent]
  case joined_worker j hm hj =>
    refine h.congr rfl rfl rfl ?_ ?_ <;> split <;> simp [hm, md5Sent, emptiesSent]
  case md5_recv_stop rest hh hq =>
    obtain ⟨d, e, h1, h2, h3, h4, h5⟩ := h
    rw [hq] at h1
    have hd : d = [] := by
      cases d with
      | nil => rfl
      | cons c d =>
        simp only [List.cons_append, List.cons.injEq] at h1
        exact absurd h1.1.symm (h2 c (by simp))
    subst hd
    cases e with
    | zero => simp at h1
    | succ e =>
      simp only [List.nil_append, List.replicate_succ, List.cons.injEq, true_and] at h1
      refine ⟨[], e, by simp [h1], by simp, h3, by simp, ?_⟩
      intro _; exact ⟨rfl, h4 hh⟩
  case md5_recv_data b rest hh hq hb =>
    obtain ⟨d, e, h1, h2, h3, h4, h5⟩ := h
    rw [hq] at h1
    cases d with
    | nil =>
      cases e with
      | zero => simp at h1
      | succ e =>
        simp only [List.nil_append, List.replicate_succ, List.cons.injEq] at h1
        exact absurd h1.1 hb
    | cons c d =>
      simp only [List.cons_append, List.cons.injEq] at h1
      obtain ⟨rfl, h1⟩ := h1
      refine ⟨d, e, h1, fun x hx => h2 x (by simp [hx]), ?_, h4, ?_⟩
      · simpa [List.append_assoc] using h3
      · intro hx; rw [hh] at hx; cases hx
  all_goals exact h.congr rfl rfl rfl rfl rfl

theorem InvMd5.of_reaches {p : Params} {s : State} (hne : p.NonemptyBlocks) (h : Reaches p s) :
    InvMd5 p s := by
  induction h with
  | init => exact InvMd5.init p
  | step hr hstep ih => exact ih.step hne (InvC.of_reaches hr) (Step_of_step hstep)

end FlacVerif.Par
