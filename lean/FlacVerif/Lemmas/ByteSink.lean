/-
Refinement lemmas for `MemSink<u8>` (model: `ByteSink`). Core Lean only.
-/
import FlacVerif.Lemmas.WordSinkOps
namespace FlacVerif
namespace ByteSink

structure Inv (s : ByteSink) : Prop where
  size : s.storage.length = (s.len + 7) / 8
  tail : ∀ i, s.len ≤ i → s.bitAt i = false

theorem inv_empty : empty.Inv := ⟨rfl, fun i _ => by simp [bitAt, empty]⟩

structure Refines (s : ByteSink) (s' : ByteSink) (bits : Bits) : Prop where
  len : s'.len = s.len + bits.length
  size : s'.storage.length = (s'.len + 7) / 8
  bits : Appends s.bitAt s'.bitAt s.len bits

theorem Refines.inv {s s' : ByteSink} {bits : Bits} (h : Refines s s' bits) : s'.Inv := by
  refine ⟨h.size, fun i hi => ?_⟩
  rw [h.bits i, h.len] at *
  have : ¬ i < s.len := by omega
  simp only [this, ↓reduceIte]
  rw [List.getD_eq_getElem?_getD, List.getElem?_eq_none (by omega)]; rfl

theorem Refines.abs {s s' : ByteSink} {bits : Bits} (h : Refines s s' bits) :
    s'.abs = s.abs ++ bits := by
  apply List.ext_getElem
  · simp [ByteSink.abs, h.len]
  · intro i h1 h2
    simp only [ByteSink.abs, List.length_map, List.length_range] at h1
    simp only [ByteSink.abs, List.getElem_map, List.getElem_range]
    rw [h.bits i]
    by_cases hi : i < s.len
    · simp only [hi, ↓reduceIte]
      rw [List.getElem_append_left (by simpa [ByteSink.abs] using hi)]
      simp
    · simp only [hi, ↓reduceIte]
      rw [List.getElem_append_right (by simpa [ByteSink.abs] using hi)]
      simp only [List.length_map, List.length_range]
      rw [List.getD_eq_getElem?_getD, List.getElem?_eq_getElem (by rw [h.len] at h1; omega)]
      rfl

theorem Refines.trans {s s' s'' : ByteSink} {b1 b2 : Bits} (h1 : Refines s s' b1) (h2 : Refines s' s'' b2) :
    Refines s s'' (b1 ++ b2) := by
  refine ⟨by rw [h2.len, h1.len, List.length_append]; omega, h2.size, fun i => ?_⟩
  rw [h2.bits i, h1.bits, h1.len]
  by_cases hi : i < s.len
  · have : i < s.len + b1.length := by omega
    simp [hi, this]
  · by_cases hi2 : i < s.len + b1.length
    · simp only [hi, hi2, ↓reduceIte]
      rw [List.getD_eq_getElem?_getD, List.getD_eq_getElem?_getD, List.getElem?_append_left (by omega)]
    · simp only [hi, hi2, ↓reduceIte]
      rw [List.getD_eq_getElem?_getD, List.getD_eq_getElem?_getD, List.getElem?_append_right (by omega)]
      congr 2; omega

theorem Refines.refl (s : ByteSink) (hs : s.Inv) : Refines s s [] := by
  refine ⟨rfl, hs.size, fun i => ?_⟩
  by_cases hi : i < s.len
  · simp [hi]
  · simp [hi, hs.tail i (by omega)]

/-- Pointwise form used to build `Refines`. -/
theorem refines_of_pointwise (s s' : ByteSink) (n : Nat) (f : Nat → Bool) (bits : Bits)
    (hlen : s'.len = s.len + n) (hsize : s'.storage.length = (s'.len + 7) / 8)
    (hf : ∀ j, n ≤ j → f j = false)
    (hpt : ∀ i, s'.bitAt i = if i < s.len then s.bitAt i else f (i - s.len))
    (hbl : bits.length = n) (hb : ∀ j, j < n → bits.getD j false = f j) : Refines s s' bits := by
  refine ⟨by rw [hlen, hbl], hsize, fun i => ?_⟩
  rw [hpt i]
  by_cases hi : i < s.len
  · simp [hi]
  · simp only [hi, ↓reduceIte]
    by_cases hj : i - s.len < n
    · rw [hb _ hj]
    · rw [hf _ (by omega), List.getD_eq_getElem?_getD, List.getElem?_eq_none (by omega)]; rfl

/-- Appending whole bytes to a byte-aligned sink. -/
theorem appendBytes_bitAt (s : ByteSink) (hs : s.Inv) (hal : s.len % 8 = 0) (bytes : List (BitVec 8))
    (f : Nat → Bool) (hf : ∀ i p, p < 8 → (bytes[i]?.getD 0).getMsbD p = f (8 * i + p))
    (len' : Nat) (i : Nat) :
    (ByteSink.mk (s.storage ++ bytes) len').bitAt i = if i < s.len then s.bitAt i else f (i - s.len) := by
  have hL : s.storage.length = s.len / 8 := by have := hs.size; omega
  simp only [bitAt]
  by_cases hi : i < s.len
  · simp only [hi, ↓reduceIte]
    rw [List.getElem?_append_left (by omega)]
  · simp only [hi, ↓reduceIte]
    rw [List.getElem?_append_right (by omega), hf _ _ (Nat.mod_lt _ (by omega))]
    congr 1; omega

/-- bit `p` of the byte `(v >>> (w - 8 (i+1))).setWidth 8` is bit `8 i + p` of `v`. -/
theorem getMsbD_byteOf {w : Nat} (v : BitVec w) (i p : Nat) (hp : p < 8) (hi : 8 * (i + 1) ≤ w) :
    ((v >>> (w - 8 * (i + 1))).setWidth 8).getMsbD p = v.getMsbD (8 * i + p) := by
  rw [BitVec.getMsbD_setWidth, BitVec.getMsbD_ushiftRight]
  have h1 : 8 - w ≤ p := by omega
  have h2 : p + w - 8 < w := by omega
  have h3 : ¬ (p + w - 8 < w - 8 * (i + 1)) := by omega
  simp only [h1, h2, h3, decide_true, decide_false, Bool.not_false, Bool.true_and]
  congr 1; omega

theorem tailBytes_spec {w : Nat} (hw8 : w % 8 = 0) (storage : List (BitVec 8)) (len' : Nat) (v : BitVec w) (n : Nat)
    (hn : n ≤ w) (hv : ∀ j, n ≤ j → v.getMsbD j = false) :
    ∃ bytes, writeMsbs.tailBytes storage len' v n = some ⟨storage ++ bytes, len'⟩ ∧
      bytes.length = (n + 7) / 8 ∧
      ∀ i p, p < 8 → (bytes[i]?.getD 0).getMsbD p = v.getMsbD (8 * i + p) := by
  have hfull : ∀ i p, p < 8 → i < n / 8 →
      ((((List.range (n / 8)).map (fun i => (v >>> (w - 8 * (i + 1))).setWidth 8))[i]?).getD 0).getMsbD p
        = v.getMsbD (8 * i + p) := by
    intro i p hp hi
    rw [List.getElem?_map, List.getElem?_range hi]
    simp only [Option.map_some, Option.getD_some]
    exact getMsbD_byteOf v i p hp (by omega)
  by_cases ht : n % 8 > 0
  · have h1 : n / 8 * 8 < w := by omega
    have h2 : 8 ≤ w := by omega
    have h3 : w - 8 < w := by omega
    refine ⟨(List.range (n / 8)).map (fun i => (v >>> (w - 8 * (i + 1))).setWidth 8) ++
        [((v <<< (n / 8 * 8)) >>> (w - 8)).setWidth 8], ?_, ?_, ?_⟩
    · simp [writeMsbs.tailBytes, ht, chkShl, chkSub, chkShr, h1, h2, h3, bind, Option.bind]
    · simp; omega
    · intro i p hp
      by_cases hi : i < n / 8
      · rw [List.getElem?_append_left (by simpa using hi)]
        exact hfull i p hp hi
      · rw [List.getElem?_append_right (by simpa using Nat.le_of_not_lt hi)]
        simp only [List.length_map, List.length_range]
        by_cases hq : i = n / 8
        · subst hq
          simp only [Nat.sub_self, List.getElem?_cons_zero, Option.getD_some]
          rw [BitVec.getMsbD_setWidth, BitVec.getMsbD_ushiftRight, BitVec.getMsbD_shiftLeft]
          have a1 : 8 - w ≤ p := by omega
          have a2 : p + w - 8 < w := by omega
          have a3 : ¬ (p + w - 8 < w - 8) := by omega
          simp only [a1, a2, a3, decide_true, decide_false, Bool.not_false, Bool.true_and]
          congr 1; omega
        · rw [List.getElem?_eq_none (by simp; omega)]
          simp only [Option.getD_none, WordSink.getMsbD_zero']
          rw [hv _ (by omega)]
  · refine ⟨(List.range (n / 8)).map (fun i => (v >>> (w - 8 * (i + 1))).setWidth 8), ?_, ?_, ?_⟩
    · simp [writeMsbs.tailBytes, ht]
    · simp; omega
    · intro i p hp
      by_cases hi : i < n / 8
      · exact hfull i p hp hi
      · rw [List.getElem?_eq_none (by simp; omega)]
        simp only [Option.getD_none, WordSink.getMsbD_zero']
        rw [hv _ (by omega)]

/-- Pointwise specification of `MemSink<u8>::write_msbs` on an already masked operand. -/
theorem writeMsbs_pointwise {w : Nat} (hw8 : w % 8 = 0) (hw : 8 ≤ w) (s : ByteSink) (hs : s.Inv) (val : BitVec w) (n : Nat)
    (h1 : 1 ≤ n) (hn : n ≤ w) :
    ∃ s', s.writeMsbs val n = some s' ∧ s'.len = s.len + n ∧ s'.storage.length = (s'.len + 7) / 8 ∧
      ∀ i, s'.bitAt i = if i < s.len then s.bitAt i else (decide (i - s.len < n) && val.getMsbD (i - s.len)) := by
  obtain ⟨m, hm, hmb⟩ := maskMsbs_spec val n h1 hn
  have hsz := hs.size
  have hmz : ∀ j, n ≤ j → m.getMsbD j = false := by
    intro j hj; rw [hmb]; simp [show ¬ j < n by omega]
  have h0 : n ≠ 0 := by omega
  by_cases hr : s.paddings = 0
  · -- byte aligned
    have hal : s.len % 8 = 0 := by simp only [paddings] at hr; omega
    obtain ⟨bytes, hb1, hb2, hb3⟩ := tailBytes_spec hw8 s.storage (s.len + n) m n hn hmz
    refine ⟨_, by simp [writeMsbs, h0, hm, hr, bind, Option.bind]; exact hb1, rfl, ?_, fun i => ?_⟩
    · simp only [List.length_append, hb2]; omega
    · rw [appendBytes_bitAt s hs hal bytes m.getMsbD hb3, hmb]
  · -- partial last byte
    have hrv : s.paddings = 8 - s.len % 8 := by simp only [paddings] at *; omega
    have hmod : s.len % 8 ≠ 0 := by simp only [paddings] at hr; omega
    have hL : s.storage.length = s.len / 8 + 1 := by omega
    have hne : s.storage.isEmpty = false := by
      cases h : s.storage with
      | nil => simp [h] at hL
      | cons a l => rfl
    have c1 : s.paddings ≤ w := by omega
    have c2 : w - s.paddings < w := by omega
    have c3 : s.paddings < w := by omega
    -- bits of the sink after OR-ing into the last byte (length field irrelevant for `bitAt`)
    have phase1 : ∀ len1 i,
        (ByteSink.mk (s.storage.modify (s.storage.length - 1) (· ||| (m >>> (w - s.paddings)).setWidth 8)) len1).bitAt i =
          if i < s.len then s.bitAt i else (decide (i - s.len < s.paddings) && m.getMsbD (i - s.len)) := by
      intro len1 i
      simp only [bitAt]
      rw [List.getElem?_modify]
      by_cases hlt : i / 8 < s.storage.length
      · have hget : s.storage[i / 8]? = some (s.storage[i / 8]'hlt) := List.getElem?_eq_getElem hlt
        rw [hget]
        simp only [Option.map_eq_map, Option.map_some, Option.getD_some]
        by_cases hq : s.storage.length - 1 = i / 8
        · simp only [hq, ↓reduceIte, BitVec.getMsbD_or, BitVec.getMsbD_setWidth, BitVec.getMsbD_ushiftRight]
          have a1 : 8 - w ≤ i % 8 := by omega
          have a2 : i % 8 + w - 8 < w := by omega
          by_cases hi : i < s.len
          · have a3 : i % 8 + w - 8 < w - s.paddings := by omega
            simp [hi, a1, a2, a3]
          · have ht := hs.tail i (by omega)
            simp only [bitAt, hget, Option.getD_some] at ht
            have a3 : ¬ (i % 8 + w - 8 < w - s.paddings) := by omega
            have a4 : i - s.len < s.paddings := by omega
            simp only [hi, ↓reduceIte, ht, a1, a2, a3, a4, decide_true, decide_false, Bool.not_false,
              Bool.true_and, Bool.false_or]
            congr 1; omega
        · have hi : i < s.len := by omega
          simp [hq, hi]
      · have hi : ¬ i < s.len := by omega
        have a4 : ¬ (i - s.len < s.paddings) := by omega
        rw [List.getElem?_eq_none (by omega)]
        simp [hi, a4]
    by_cases hrn : s.paddings ≥ n
    · refine ⟨_, by simp [writeMsbs, h0, hm, hr, chkSub, chkShr, chkShl, c1, c2, c3, hne, hrn, bind, Option.bind]; rfl,
        rfl, ?_, fun i => ?_⟩
      · simp only [List.length_modify]; omega
      · rw [phase1, hmb]
        by_cases hi : i < s.len
        · simp [hi]
        · simp only [hi, ↓reduceIte]
          by_cases hj : i - s.len < n
          · simp [hj, show i - s.len < s.paddings by omega]
          · simp [hj]
    · -- continue with whole bytes from the (now byte-aligned) position `len + r`
      let s1 : ByteSink := ⟨s.storage.modify (s.storage.length - 1) (· ||| (m >>> (w - s.paddings)).setWidth 8), s.len + s.paddings⟩
      have hs1 : s1.Inv := by
        refine ⟨by simp only [s1, List.length_modify]; omega, fun i hi => ?_⟩
        have := phase1 (s.len + s.paddings) i
        simp only [s1] at hi ⊢
        rw [this]
        simp [show ¬ i < s.len by omega, show ¬ (i - s.len < s.paddings) by omega]
      have hal1 : s1.len % 8 = 0 := by simp only [s1]; omega
      have hmz' : ∀ j, n - s.paddings ≤ j → (m <<< s.paddings).getMsbD j = false := by
        intro j hj; rw [BitVec.getMsbD_shiftLeft, hmz _ (by omega)]
      obtain ⟨bytes, hb1, hb2, hb3⟩ := tailBytes_spec hw8 s1.storage (s.len + n) (m <<< s.paddings) (n - s.paddings) (by omega) hmz'
      refine ⟨_, by simp [writeMsbs, h0, hm, hr, chkSub, chkShr, chkShl, c1, c2, c3, hne, hrn, bind, Option.bind]; exact hb1,
        rfl, ?_, fun i => ?_⟩
      · simp only [List.length_append, hb2, s1, List.length_modify]; omega
      · rw [appendBytes_bitAt s1 hs1 hal1 bytes (m <<< s.paddings).getMsbD hb3]
        simp only [s1]
        by_cases hi1 : i < s.len + s.paddings
        · simp only [hi1, ↓reduceIte]
          rw [phase1, hmb]
          by_cases hi : i < s.len
          · simp [hi]
          · simp [hi, show i - s.len < s.paddings by omega, show i - s.len < n by omega]
        · simp only [hi1, ↓reduceIte, BitVec.getMsbD_shiftLeft, show ¬ i < s.len by omega]
          rw [hmb]
          have : i - (s.len + s.paddings) + s.paddings = i - s.len := by omega
          rw [this]

end ByteSink
end FlacVerif
