/-
Helper lemmas for C08, part 2: subframes, the UTF-8-like coding, frame headers, frames,
STREAMINFO and whole streams.
-/
import FlacVerif.Lemmas.Count
namespace FlacVerif.Count
open FlacVerif

/-! ### subframes -/

/-- `SubFrame.WF` is decidable (used by the concrete non-vacuity examples). -/
instance subFrameWFDecidable (s : SubFrame) : Decidable s.WF := by
  cases s <;> (unfold SubFrame.WF; infer_instance)

theorem subframe_count (s : SubFrame) (h : s.WF) : s.count = some s.bits.length := by
  cases s with
  | constant n dc bps => simp [SubFrame.count, SubFrame.bits]
  | verbatim xs bps =>
    simp [SubFrame.count, SubFrame.bits, length_flatMap_const _ _ bps (fun x => twoc_length bps x)]
  | fixed warm res bps =>
    obtain ⟨_, _, hr, _⟩ := h
    simp only [SubFrame.count, SubFrame.bits, residual_count res hr, Option.map_some, List.length_append,
      natToBits_length, length_flatMap_const _ _ bps (fun x => twoc_length bps x), Nat.mul_comm bps]
  | lpc warm coefs shift precision res bps =>
    obtain ⟨_, _, hwc, _, hr, _⟩ := h
    simp only [SubFrame.count, SubFrame.bits, residual_count res hr, Option.map_some, List.length_append,
      natToBits_length, twoc_length, length_flatMap_const _ _ bps (fun x => twoc_length bps x),
      length_flatMap_const _ _ precision (fun x => twoc_length precision x), Nat.mul_comm bps,
      Nat.mul_comm precision, hwc]

/-! ### option-monad plumbing -/

theorem mapM_some_map {α β : Type} (f : α → Option β) (g : α → β) (l : List α)
    (h : ∀ x ∈ l, f x = some (g x)) : l.mapM f = some (l.map g) := by
  induction l with
  | nil => simp
  | cons x l ih =>
    rw [List.mapM_cons, h x (by simp), ih (fun y hy => h y (by simp [hy]))]
    simp

/-- Two option-valued maps related pointwise: the first succeeds with a list whose measured
image is the result of the second. -/
theorem mapM_pair {α β : Type} (f : α → Option β) (g : α → Option Nat) (m : β → Nat) (l : List α)
    (h : ∀ x ∈ l, ∃ b, f x = some b ∧ g x = some (m b)) :
    ∃ bs, l.mapM f = some bs ∧ l.mapM g = some (bs.map m) := by
  induction l with
  | nil => exact ⟨[], by simp, by simp⟩
  | cons x l ih =>
    obtain ⟨b, hb1, hb2⟩ := h x (by simp)
    obtain ⟨bs, hbs1, hbs2⟩ := ih (fun y hy => h y (by simp [hy]))
    refine ⟨b :: bs, ?_, ?_⟩
    · rw [List.mapM_cons, hb1, hbs1]; simp
    · rw [List.mapM_cons, hb2, hbs2]; simp

/-! ### the UTF-8-like coding -/

theorem bitLen_le_of_lt {v k : Nat} (h : v < 2 ^ k) : bitLen v ≤ k := by
  unfold bitLen
  split
  · omega
  · next hv => have := (Nat.log2_lt hv).mpr h; omega

theorem utf8_head_lt (t x : Nat) (h1 : 1 ≤ t) (h6 : t ≤ 6) :
    (if t = 6 then 0xFE
      else ([0x80, 0xC0, 0xE0, 0xF0, 0xF8, 0xFC, 0xFE].getD t 0) ||| (x % 2 ^ (6 - t))) < 256 := by
  split
  · omega
  · have hx : x % 2 ^ (6 - t) < 2 ^ 8 :=
      Nat.lt_of_lt_of_le (Nat.mod_lt _ (Nat.two_pow_pos _))
        (Nat.pow_le_pow_right (by omega) (by omega))
    have ht : [0x80, 0xC0, 0xE0, 0xF0, 0xF8, 0xFC, 0xFE].getD t 0 < 2 ^ 8 := by
      have : t = 1 ∨ t = 2 ∨ t = 3 ∨ t = 4 ∨ t = 5 ∨ t = 6 := by omega
      rcases this with h | h | h | h | h | h <;> subst h <;> decide
    exact Nat.or_lt_two_pow ht hx

theorem utf8like (v : Nat) (h : v < 2 ^ 36) :
    ∃ bs, encodeUtf8like v = some bs ∧ bs.length = utf8likeBytesize v ∧ ∀ b ∈ bs, b < 256 := by
  have hb := bitLen_le_of_lt h
  unfold encodeUtf8like utf8likeBytesize
  by_cases h7 : bitLen v ≤ 7
  · refine ⟨[v], by simp [h7], by simp [h7], ?_⟩
    intro b hbm
    simp only [List.mem_singleton] at hbm
    subst hbm
    by_cases hv : b = 0
    · omega
    · have : Nat.log2 b < 7 := by simp only [bitLen, hv, if_false] at h7; omega
      have := (Nat.log2_lt hv).mp this
      omega
  · simp only [h7, if_false, show ¬ bitLen v > 36 by omega]
    refine ⟨_, rfl, by simp; omega, ?_⟩
    intro b hbm
    rcases List.mem_cons.mp hbm with hh | hh
    · rw [hh]; exact utf8_head_lt _ _ (by omega) (by omega)
    · obtain ⟨i, _, rfl⟩ := List.mem_map.mp hh
      exact Nat.or_lt_two_pow (n := 8) (by decide) (Nat.lt_of_lt_of_le (Nat.mod_lt _ (by decide)) (by decide))

/-! ### frame headers -/

theorem header_bits (p8 : CrcParams) (h : FrameHeader) (hn : h.number < 2 ^ 36) (ht : h.assignment.tag ≤ 15) :
    ∃ b, h.bits p8 = some b ∧ b.length = h.count := by
  obtain ⟨bs, hbs, hlen, _⟩ := utf8like h.number hn
  simp only [FrameHeader.bits, FrameHeader.bodyBits, hbs, show ¬ h.assignment.tag > 15 by omega,
    Option.bind_eq_bind, Option.bind_some, if_false]
  refine ⟨_, rfl, ?_⟩
  simp only [List.length_append, natToBits_length, bytesToBits_length, FrameHeader.count, hlen]
  omega

/-! ### frames -/

theorem padTo8_length (bs : Bits) : (Frame.padTo8 bs).length = (bs.length + 7) / 8 * 8 := by
  simp only [Frame.padTo8, List.length_append, List.length_replicate]; omega

theorem subframes_mapM (l : List SubFrame) (hs : ∀ s ∈ l, s.WF) :
    l.mapM SubFrame.count = some (l.map fun s => s.bits.length) :=
  mapM_some_map _ _ _ (fun s hs' => subframe_count s (hs s hs'))

theorem frame_bits (p8 p16 : CrcParams) (f : Frame) (hn : f.header.number < 2 ^ 36)
    (ht : f.header.assignment.tag ≤ 15) (hs : ∀ s ∈ f.subframes, s.WF) :
    ∃ b, f.bits p8 p16 = some b ∧ f.count = some b.length ∧ 8 ∣ b.length := by
  obtain ⟨hb, hhb, hlen⟩ := header_bits p8 f.header hn ht
  simp only [Frame.bits, Frame.count, hhb, subframes_mapM _ hs, Option.bind_eq_bind, Option.bind_some,
    foldl_add]
  refine ⟨_, rfl, ?_, ?_⟩
  · simp only [List.length_append, natToBits_length, padTo8_length, List.length_flatMap, hlen]
  · simp only [List.length_append, natToBits_length, padTo8_length]; omega

/-! ### STREAMINFO and streams -/

theorem streaminfo_length (s : StreamInfo) (hm : s.md5.length = 16) : s.bits.length = 272 := by
  unfold StreamInfo.bits
  split
  simp only [List.length_append, natToBits_length, bytesToBits_length, hm]

theorem blockHeader_length (l : Bool) (t n : Nat) : (Stream.blockHeader l t n).length = 32 := by
  simp [Stream.blockHeader]

theorem stream_bits (p8 p16 : CrcParams) (s : Stream) (hm : s.info.md5.length = 16)
    (hf : ∀ f ∈ s.frames, f.header.number < 2 ^ 36 ∧ f.header.assignment.tag ≤ 15 ∧ ∀ sf ∈ f.subframes, sf.WF) :
    ∃ b, s.bits p8 p16 = some b ∧ s.count = some b.length := by
  obtain ⟨fbs, hfb, hfc⟩ := mapM_pair (Frame.bits p8 p16) Frame.count List.length s.frames
    (fun f hfm => by
      obtain ⟨hn, ht, hs⟩ := hf f hfm
      obtain ⟨b, hb, hc, _⟩ := frame_bits p8 p16 f hn ht hs
      exact ⟨b, hb, hc⟩)
  simp only [Stream.bits, Stream.count, hfb, hfc, Option.bind_eq_bind, Option.bind_some, foldl_add]
  refine ⟨_, rfl, ?_⟩
  have hmeta : ((List.range s.metadata.length).flatMap fun i =>
      Stream.blockHeader (i + 1 = s.metadata.length) (s.metadata.getD i ⟨0, []⟩).tag
        (s.metadata.getD i ⟨0, []⟩).data.length ++ bytesToBits (s.metadata.getD i ⟨0, []⟩).data).length =
      (s.metadata.map fun m => 32 + 8 * m.data.length).sum := by
    rw [List.length_flatMap]
    simp only [List.length_append, blockHeader_length, bytesToBits_length]
    rw [map_getD_range s.metadata ⟨0, []⟩ (fun m => 32 + 8 * m.data.length)]
  simp only [List.length_append, hmeta, blockHeader_length, bytesToBits_length, streaminfo_length s.info hm,
    List.length_flatten, List.length_cons, List.length_nil]

end FlacVerif.Count
