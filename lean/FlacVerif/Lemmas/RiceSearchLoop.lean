/-
Helper lemmas for C13, part 2: partition structure, `finestOrder`, `mergePartitions`,
`evalPartitions` and the order loop of `searchFolded`.
-/
import FlacVerif.Lemmas.RiceSearch
namespace FlacVerif
namespace RiceSearch

/-! ### admissible orders -/

theorem orderOk_iff (n warm o : Nat) :
    orderOk n warm o = true ↔ o ≤ 15 ∧ n % 2 ^ o = 0 ∧ max 64 warm * 2 ^ o ≤ n := by
  simp [orderOk, and_assoc]

theorem orderOk_pred (n warm o : Nat) (h : orderOk n warm (o + 1) = true) :
    orderOk n warm o = true := by
  rw [orderOk_iff] at h ⊢
  obtain ⟨h1, h2, h3⟩ := h
  refine ⟨by omega, ?_, ?_⟩
  · have hd : 2 ^ o ∣ n :=
      Nat.dvd_trans (Nat.pow_dvd_pow 2 (Nat.le_succ o)) (Nat.dvd_of_mod_eq_zero h2)
    exact Nat.mod_eq_zero_of_dvd hd
  · rw [Nat.pow_succ] at h3
    have : max 64 warm * 2 ^ o ≤ max 64 warm * (2 ^ o * 2) := Nat.mul_le_mul_left _ (by omega)
    omega

theorem orderOk_le (n warm o o' : Nat) (h : orderOk n warm o = true) (hle : o' ≤ o) :
    orderOk n warm o' = true := by
  induction o with
  | zero => have : o' = 0 := by omega
            subst this; exact h
  | succ o ih =>
    by_cases h' : o' = o + 1
    · subst h'; exact h
    · exact ih (orderOk_pred n warm o h) (by omega)

/-- Trailing zeros: divisibility by `2^o` in terms of the low bits. -/
theorem mod_two_pow_eq_zero_iff (n o : Nat) :
    n % 2 ^ o = 0 ↔ ∀ j, j < o → n.testBit j = false := by
  constructor
  · intro h j hj
    have := Nat.testBit_mod_two_pow n o j
    rw [h] at this
    simp only [Nat.zero_testBit, hj, decide_true, Bool.true_and] at this
    exact this.symm
  · intro h
    apply Nat.eq_of_testBit_eq
    intro i
    rw [Nat.testBit_mod_two_pow, Nat.zero_testBit]
    by_cases hi : i < o
    · simp [h i hi]
    · simp [hi]

/-- (5) `finestOrder n (max 64 warm)` is the largest admissible order. -/
theorem finestOrder_spec (n warm : Nat) (hn : max 64 warm ≤ n) (hlen : n < 2 ^ 16) :
    ∃ ofin, finestOrder n (max 64 warm) = some ofin ∧
      ∀ o, orderOk n warm o = true ↔ o ≤ ofin := by
  have hM : max 64 warm ≠ 0 := by omega
  have hn0 : n ≠ 0 := by omega
  have hdiv : 1 ≤ n / max 64 warm := (Nat.le_div_iff_mul_le (by omega)).mpr (by omega)
  have hdivlt : n / max 64 warm < u32 :=
    Nat.lt_of_le_of_lt (Nat.div_le_self _ _) (by unfold u32; omega)
  have hms : (n / max 64 warm) % u32 = n / max 64 warm := Nat.mod_eq_of_lt hdivlt
  -- the trailing-zero count
  obtain ⟨tz, htz, htzspec⟩ : ∃ tz, ((List.range 64).find? (fun i => n.testBit i)).getD 64 = tz ∧
      ∀ o, n % 2 ^ o = 0 ↔ o ≤ tz := by
    cases hf : (List.range 64).find? (fun i => n.testBit i) with
    | none =>
      exfalso
      rw [List.find?_eq_none] at hf
      have : n % 2 ^ 64 = 0 := (mod_two_pow_eq_zero_iff n 64).mpr (fun j hj => by
        have := hf j (List.mem_range.mpr hj)
        simpa using this)
      omega
    | some i =>
      refine ⟨i, rfl, ?_⟩
      obtain ⟨hi, _, hlow⟩ := List.find?_range_eq_some.mp hf
      intro o
      rw [mod_two_pow_eq_zero_iff]
      constructor
      · intro h
        by_cases hio : i < o
        · have := h i hio
          have hi' : n.testBit i = true := hi
          rw [hi'] at this; cases this
        · omega
      · intro hle j hj
        have := hlow j (by omega)
        simpa using this
  refine ⟨min 15 (min (Nat.log2 (n / max 64 warm)) tz), ?_, ?_⟩
  · unfold finestOrder
    simp only [hM, ↓reduceIte, hms, hn0]
    have : ¬ (n / max 64 warm = 0) := by omega
    simp only [this, ↓reduceIte, htz]
  · intro o
    rw [orderOk_iff, htzspec o]
    have hlog : o ≤ Nat.log2 (n / max 64 warm) ↔ 2 ^ o ≤ n / max 64 warm :=
      Nat.le_log2 (by omega)
    have hmul : 2 ^ o ≤ n / max 64 warm ↔ max 64 warm * 2 ^ o ≤ n := by
      rw [Nat.le_div_iff_mul_le (by omega), Nat.mul_comm]
    rw [← hmul, ← hlog]
    omega

/-! ### partitions -/

theorem drop_take_append {α : Type} (l : List α) (a b c : Nat) (hab : a ≤ b) (hbc : b ≤ c)
    (hc : c ≤ l.length) :
    (l.take b).drop a ++ (l.take c).drop b = (l.take c).drop a := by
  have h1 : l.take c = l.take b ++ (l.take c).drop b := by
    have := List.take_append_drop b (l.take c)
    rw [List.take_take, Nat.min_eq_left hbc] at this
    exact this.symm
  conv => rhs; rw [h1]
  rw [List.drop_append_of_le_length]
  rw [List.length_take]; omega

/-- (4) a partition at order `o` is the concatenation of its two halves at order `o+1`. -/
theorem partErrors_split (es : List Nat) (warm o k : Nat)
    (hok : orderOk es.length warm (o + 1) = true) (hk : k < 2 ^ o) :
    partErrors es warm o k
      = partErrors es warm (o + 1) (2 * k) ++ partErrors es warm (o + 1) (2 * k + 1) := by
  rw [orderOk_iff] at hok
  obtain ⟨_, hdvd, hmin⟩ := hok
  obtain ⟨q, hq⟩ := Nat.dvd_of_mod_eq_zero hdvd
  have hpos : 0 < 2 ^ o := Nat.two_pow_pos _
  have hplen1 : es.length >>> (o + 1) = q := by
    rw [Nat.shiftRight_eq_div_pow, hq, Nat.mul_div_cancel_left _ (Nat.two_pow_pos _)]
  have hplen0 : es.length >>> o = 2 * q := by
    rw [Nat.shiftRight_eq_div_pow, hq, Nat.pow_succ, Nat.mul_assoc,
      Nat.mul_div_cancel_left _ hpos]
  have hwarm : warm ≤ q := by
    rw [hq, Nat.mul_comm] at hmin
    have := Nat.le_of_mul_le_mul_left hmin (Nat.two_pow_pos _)
    omega
  unfold partErrors
  simp only [hplen0, hplen1]
  have e1 : (k + 1) * (2 * q) = (2 * k + 1 + 1) * q := by grind
  have e2 : k * (2 * q) = 2 * k * q := by grind
  have e3 : max warm ((2 * k + 1) * q) = (2 * k + 1) * q := by
    have : q ≤ (2 * k + 1) * q := Nat.le_mul_of_pos_left _ (by omega)
    omega
  rw [e1, e2, e3]
  have hlen : (2 * k + 1 + 1) * q ≤ es.length := by
    rw [hq, Nat.pow_succ]
    have : (2 * k + 1 + 1) ≤ 2 ^ o * 2 := by omega
    exact Nat.mul_le_mul_right _ this
  have hb : (2 * k + 1) * q ≤ (2 * k + 1 + 1) * q := Nat.mul_le_mul_right _ (by omega)
  have ha : max warm (2 * k * q) ≤ (2 * k + 1) * q := by
    have : 2 * k * q + q = (2 * k + 1) * q := by grind
    have : q ≤ (2 * k + 1) * q := Nat.le_mul_of_pos_left _ (by omega)
    omega
  exact (drop_take_append es _ _ _ ha hb hlen).symm

/-- The tables the search holds when it examines order `o`. -/
def tablesAt (es : List Nat) (warm o : Nat) : List Table :=
  (List.range (2 ^ o)).map fun k => satTable (partErrors es warm o k)

theorem tablesAt_length (es : List Nat) (warm o : Nat) : (tablesAt es warm o).length = 2 ^ o := by
  simp [tablesAt]

theorem partErrors_length_le (es : List Nat) (warm o k : Nat) :
    (partErrors es warm o k).length ≤ es.length := by
  unfold partErrors
  simp only [List.length_drop, List.length_take]
  omega

/-- The initial tables of `searchFolded` are the saturated tables of the finest order. -/
theorem initial_tables (es : List Nat) (warm o : Nat) (hlen : es.length < 2 ^ 16) :
    ((List.range (2 ^ o)).map fun k =>
      Table.fromErrors ((es.take ((k + 1) * (es.length / 2 ^ o))).drop
        (max (k * (es.length / 2 ^ o)) warm)) 4) = tablesAt es warm o := by
  unfold tablesAt
  apply List.map_congr_left
  intro k _
  have h : (es.take ((k + 1) * (es.length / 2 ^ o))).drop (max (k * (es.length / 2 ^ o)) warm)
      = partErrors es warm o k := by
    unfold partErrors
    simp only [Nat.shiftRight_eq_div_pow, Nat.max_comm]
  rw [h, fromErrors_eq _ (Nat.lt_of_le_of_lt (partErrors_length_le es warm o k) hlen)]

theorem mergePartitions_tablesAt (es : List Nat) (warm o : Nat)
    (hok : orderOk es.length warm (o + 1) = true) :
    mergePartitions (tablesAt es warm (o + 1)) = tablesAt es warm o := by
  unfold mergePartitions
  rw [tablesAt_length]
  have : 2 ^ (o + 1) / 2 = 2 ^ o := by rw [Nat.pow_succ]; omega
  rw [this]
  conv => rhs; unfold tablesAt
  apply List.map_congr_left
  intro k hk
  have hk : k < 2 ^ o := List.mem_range.mp hk
  have hk1 : 2 * k < 2 ^ (o + 1) := by rw [Nat.pow_succ]; omega
  have hk2 : 2 * k + 1 < 2 ^ (o + 1) := by rw [Nat.pow_succ]; omega
  unfold tablesAt
  rw [getD_map_range _ _ _ _ hk1, getD_map_range _ _ _ _ hk2, merge_eq,
    ← partErrors_split es warm o k hok hk]

/-! ### `evalPartitions` -/

theorem evalPartitions_fold (tables : List Table) (maxP : Nat) (acc : Nat × List Nat) :
    tables.foldl (fun (acc : Nat × List Nat) t =>
        let (p, b) := t.minimizer maxP; (acc.1 + b, acc.2 ++ [p])) acc
      = (acc.1 + (tables.map fun t => (t.minimizer maxP).2).sum,
         acc.2 ++ tables.map fun t => (t.minimizer maxP).1) := by
  induction tables generalizing acc with
  | nil => simp
  | cons t ts ih =>
    simp only [List.foldl_cons, List.map_cons, List.sum_cons]
    rw [ih]
    simp only [Nat.add_assoc, List.append_assoc, List.singleton_append]

theorem evalPartitions_eq (tables : List Table) (maxP : Nat) :
    evalPartitions tables maxP
      = ((tables.map fun t => (t.minimizer maxP).2).sum,
         tables.map fun t => (t.minimizer maxP).1) := by
  unfold evalPartitions
  rw [evalPartitions_fold]
  simp

/-- Computed total at order `o`. -/
def bitsAt (es : List Nat) (warm maxP o : Nat) : Nat := (evalPartitions (tablesAt es warm o) maxP).1
/-- Chosen parameters at order `o`. -/
def psAt (es : List Nat) (warm maxP o : Nat) : List Nat := (evalPartitions (tablesAt es warm o) maxP).2
/-- Candidate produced at order `o`. -/
def candAt (es : List Nat) (warm maxP o : Nat) : PrcParameter :=
  ⟨o, psAt es warm maxP o, bitsAt es warm maxP o⟩

/-- The per-partition minimiser at order `o`. -/
def pStar (es : List Nat) (warm maxP o k : Nat) : Nat :=
  ((satTable (partErrors es warm o k)).minimizer maxP).1

theorem psAt_eq (es : List Nat) (warm maxP o : Nat) :
    psAt es warm maxP o = (List.range (2 ^ o)).map (pStar es warm maxP o) := by
  unfold psAt tablesAt
  rw [evalPartitions_eq]
  simp only [List.map_map]
  rfl

theorem bitsAt_eq (es : List Nat) (warm maxP o : Nat) :
    bitsAt es warm maxP o = ((List.range (2 ^ o)).map fun k =>
      sat (partCost (pStar es warm maxP o k) (partErrors es warm o k))).sum := by
  unfold bitsAt tablesAt
  rw [evalPartitions_eq]
  simp only [List.map_map]
  congr 1
  apply List.map_congr_left
  intro k _
  exact (minimizer_satTable (partErrors es warm o k) maxP).2.2.1

theorem choiceCost_eq (es : List Nat) (warm o : Nat) (ps : List Nat) :
    choiceCost es warm o ps = ((List.range (2 ^ o)).map fun k =>
      partCost (ps.getD k 0) (partErrors es warm o k)).sum := by
  unfold choiceCost
  rw [foldl_add_eq]; omega

/-! ### the order loop -/

/-- (5) the loop visits every order below the current one and keeps the first strict minimum. -/
theorem loop_spec (es : List Nat) (warm maxP : Nat) (o : Nat) (best : PrcParameter) (fuel : Nat)
    (hf : o < fuel) (hok : orderOk es.length warm o = true) :
    let r := searchFolded.loop maxP (tablesAt es warm o) o best fuel
    (r = best ∨ ∃ o', o' < o ∧ r = candAt es warm maxP o') ∧
    r.codeBits ≤ best.codeBits ∧ ∀ o', o' < o → r.codeBits ≤ bitsAt es warm maxP o' := by
  induction o generalizing best fuel with
  | zero =>
    cases fuel with
    | zero => omega
    | succ fuel =>
      unfold searchFolded.loop
      simp [tablesAt_length]
  | succ o ih =>
    cases fuel with
    | zero => omega
    | succ fuel =>
      unfold searchFolded.loop
      have hlen : ¬ (tablesAt es warm (o + 1)).length ≤ 1 := by
        rw [tablesAt_length, Nat.pow_succ]
        have : 0 < 2 ^ o := Nat.two_pow_pos _
        omega
      simp only [hlen, ↓reduceIte, mergePartitions_tablesAt es warm o hok, Nat.add_sub_cancel]
      have hev : evalPartitions (tablesAt es warm o) maxP
          = (bitsAt es warm maxP o, psAt es warm maxP o) := rfl
      rw [hev]
      simp only []
      have hcand : (⟨o, psAt es warm maxP o, bitsAt es warm maxP o⟩ : PrcParameter)
          = candAt es warm maxP o := rfl
      rw [hcand]
      have := ih (if bitsAt es warm maxP o < best.codeBits then candAt es warm maxP o else best)
        fuel (by omega) (orderOk_pred _ _ _ hok)
      simp only [] at this
      obtain ⟨h1, h2, h3⟩ := this
      refine ⟨?_, ?_, ?_⟩
      · rcases h1 with h1 | ⟨o', ho', h1⟩
        · rw [h1]
          split
          · right; exact ⟨o, by omega, rfl⟩
          · left; rfl
        · right; exact ⟨o', by omega, h1⟩
      · refine Nat.le_trans h2 ?_
        split
        · rename_i h; simp only [candAt]; omega
        · exact Nat.le_refl _
      · intro o' ho'
        by_cases h : o' = o
        · subst h
          refine Nat.le_trans h2 ?_
          split
          · simp only [candAt]; exact Nat.le_refl _
          · rename_i h; omega
        · exact h3 o' (by omega)

/-- The result of `searchFolded`, characterised. -/
theorem searchFolded_spec (es : List Nat) (warm maxP : Nat)
    (hn : max 64 warm ≤ es.length) (hlen : es.length < 2 ^ 16) :
    ∃ ofin r, searchFolded es warm maxP = some r ∧
      (∀ o, orderOk es.length warm o = true ↔ o ≤ ofin) ∧
      (∃ o', o' ≤ ofin ∧ r = candAt es warm maxP o') ∧
      ∀ o', o' ≤ ofin → r.codeBits ≤ bitsAt es warm maxP o' := by
  obtain ⟨ofin, hfin, hspec⟩ := finestOrder_spec es.length warm hn hlen
  have hok : orderOk es.length warm ofin = true := (hspec ofin).mpr (Nat.le_refl _)
  have h15 : ofin ≤ 15 := ((orderOk_iff _ _ _).mp hok).1
  have hloop := loop_spec es warm maxP ofin (candAt es warm maxP ofin) 16 (by omega) hok
  simp only [] at hloop
  obtain ⟨h1, h2, h3⟩ := hloop
  refine ⟨ofin, searchFolded.loop maxP (tablesAt es warm ofin) ofin (candAt es warm maxP ofin) 16,
    ?_, hspec, ?_, ?_⟩
  · unfold searchFolded
    simp only [hfin, Option.bind_eq_bind, Option.bind_some, initial_tables es warm ofin hlen]
    rfl
  · rcases h1 with h1 | ⟨o', ho', h1⟩
    · exact ⟨ofin, Nat.le_refl _, h1⟩
    · exact ⟨o', by omega, h1⟩
  · intro o' ho'
    by_cases h : o' = ofin
    · subst h; exact h2
    · exact h3 o' (by omega)

end RiceSearch
end FlacVerif
