/-
Wrapping decoder (C01, release build), part 5: `Frame::decode()` of the release build (block size from
the header, every sub-frame, stereo un-mixing in wrapping `i32` arithmetic, interleaving) returns the
interleaved input for every frame `encode_frame` can return — for every oracle log satisfying
`OEvent.Ok`.
-/
import FlacVerif.Lemmas.WrapSubframe
import FlacVerif.Lemmas.StrictFrame
import FlacVerif.Lemmas.RepoRoundTripFrame
namespace FlacVerif
namespace Wrap
open Repo

/-! ### `mapM` in the decoder's result monad -/

theorem mapM_loop_ok {α β : Type} (f : α → DResult β) :
    ∀ (l : List α) (r acc : List β), l.length = r.length →
    (∀ i (h1 : i < l.length) (h2 : i < r.length), f l[i] = .ok r[i]) →
    List.mapM.loop f l acc = .ok (acc.reverse ++ r) := by
  intro l
  induction l with
  | nil =>
    intro r acc hl _
    have : r = [] := List.eq_nil_of_length_eq_zero (by simpa using hl.symm)
    subst this
    simp [List.mapM.loop]
  | cons a as ih =>
    intro r acc hl h
    match r, hl with
    | b :: bs, hl =>
      have h0 := h 0 (by simp) (by simp)
      simp only [List.getElem_cons_zero] at h0
      simp only [List.mapM.loop, h0, DResult.ok_bind]
      rw [ih bs (b :: acc) (by simpa using hl) (fun i h1 h2 => by
        have := h (i + 1) (by simp; omega) (by simp; omega)
        simpa using this)]
      simp

theorem mapM_ok {α β : Type} (f : α → DResult β) (l : List α) (r : List β) (hl : l.length = r.length)
    (h : ∀ i (h1 : i < l.length) (h2 : i < r.length), f l[i] = .ok r[i]) : l.mapM f = .ok r := by
  unfold List.mapM
  rw [mapM_loop_ok f l r [] hl h]
  rfl

/-! ### block size -/

theorem fromSize_ok (n : Nat) (h1 : 1 ≤ n) (h2 : n < 2 ^ 16) (bss : BlockSizeSpec)
    (h : BlockSizeSpec.fromSize n = some bss) : SpecOk bss ∧ bss.blockSize = some n := by
  unfold BlockSizeSpec.fromSize at h
  split at h
  · next hn => subst hn; simp only [Option.some.injEq] at h; subst h; exact ⟨trivial, rfl⟩
  · split at h
    · next hn =>
      simp only [Option.some.injEq] at h; subst h
      rcases hn with hn | hn | hn | hn <;> subst hn <;> decide
    · split at h
      · next hn =>
        simp only [Option.some.injEq] at h; subst h
        rcases hn with hn | hn | hn | hn | hn | hn | hn | hn <;> subst hn <;> decide
      · split at h
        · omega
        · split at h
          · simp only [Option.some.injEq] at h; subst h
            exact ⟨by simp only [SpecOk]; omega, by simp only [BlockSizeSpec.blockSize]; congr 1; omega⟩
          · simp only [Option.some.injEq] at h; subst h
            exact ⟨by simp only [SpecOk]; omega, by simp only [BlockSizeSpec.blockSize]; congr 1; omega⟩

theorem headerFor_facts (asg : ChannelAssignment) (n bps rate number : Nat) (hdr : FrameHeader)
    (hn : 1 ≤ n ∧ n < 2 ^ 16) (hh : headerFor asg n bps rate number = some hdr) :
    headerBlockSize hdr = .ok n ∧ hdr.assignment = asg := by
  unfold headerFor at hh
  simp only [Option.bind_eq_bind, Option.bind_eq_some_iff, Option.some.injEq] at hh
  obtain ⟨bss, hbss, rfl⟩ := hh
  obtain ⟨hok, hbs⟩ := fromSize_ok n hn.1 hn.2 bss hbss
  refine ⟨?_, rfl⟩
  obtain ⟨m, hm1, hm2⟩ := headerBlockSize_eq
    (FrameHeader.mk false bss asg (sampleSizeTag bps) ((SampleRateSpec.fromFreq rate).getD .unspecified) number 0) hok
  simp only [] at hm2
  rw [hbs] at hm2
  simp only [Option.some.injEq] at hm2
  rw [hm1, hm2]

/-! ### interleaving -/

theorem interleaveLoop_eq : ∀ (n : Nat) (chans : List (List Int)), (∀ c ∈ chans, c.length = n) →
    interleaveLoop n chans = (List.range n).flatMap fun t => chans.map fun c => c.getD t 0 := by
  intro n
  induction n with
  | zero => intro chans _; rfl
  | succ n ih =>
    intro chans h
    rw [interleaveLoop, List.range_succ_eq_map, List.flatMap_cons, List.flatMap_map]
    rw [ih (chans.map List.tail) (by
      intro c hc
      obtain ⟨c0, hc0, rfl⟩ := List.mem_map.1 hc
      rw [List.length_tail, h c0 hc0]; rfl)]
    congr 1
    · apply List.map_congr_left
      intro c hc
      cases c with
      | nil => rfl
      | cons a as => rfl
    · congr 1
      funext t
      simp only [Function.comp_def, List.map_map]
      apply List.map_congr_left
      intro c _
      cases c with
      | nil => rfl
      | cons a as => simp

theorem interleave_eq (n : Nat) (chans : List (List Int)) (hne : 1 ≤ chans.length) (h : ∀ c ∈ chans, c.length = n) :
    Repo.interleave n chans = .ok (Rfc.interleave chans) := by
  unfold Repo.interleave
  have hany : chans.any (fun c => decide (c.length > n)) = false := by
    rw [List.any_eq_false]
    intro c hc
    have := h c hc
    simp; omega
  rw [hany]
  simp only [Bool.false_eq_true, if_false]
  rw [interleaveLoop_eq n chans h]
  cases chans with
  | nil => simp at hne
  | cons c0 cs =>
    unfold Rfc.interleave
    simp only []
    rw [h c0 (by simp)]

/-! ### stereo un-mixing in wrapping `i32` arithmetic -/

theorem decorrelate_left : ∀ (l r : List Int), l.length = r.length →
    (∀ x ∈ l, -(2 ^ 29 : Int) ≤ x ∧ x < 2 ^ 29) → (∀ x ∈ r, -(2 ^ 29 : Int) ≤ x ∧ x < 2 ^ 29) →
    decorrelate false .leftSide l.length l (Strict.sideOf l r) = .ok (l, r) := by
  intro l
  induction l with
  | nil =>
    intro r hr _ _
    have : r = [] := List.eq_nil_of_length_eq_zero (by simpa using hr.symm)
    subst this; rfl
  | cons a l ih =>
    intro r hr hl hrr
    match r, hr with
    | b :: r, hr =>
      have ha := hl a (by simp)
      have hb := hrr b (by simp)
      have ih' := ih r (by simpa using hr) (fun x hx => hl x (by simp [hx])) (fun x hx => hrr x (by simp [hx]))
      simp only [Strict.sideOf, List.zipWith_cons_cons, List.map_cons, List.length_cons, decorrelate, midSide,
        i32op_false, DResult.ok_bind, DResult.pure_eq] at ih' ⊢
      rw [ih']
      simp only [DResult.ok_bind]
      rw [wrap32_id (a - (a - b)) (by omega) (by omega)]
      congr 3
      omega

theorem decorrelate_right : ∀ (l r : List Int), l.length = r.length →
    (∀ x ∈ l, -(2 ^ 29 : Int) ≤ x ∧ x < 2 ^ 29) → (∀ x ∈ r, -(2 ^ 29 : Int) ≤ x ∧ x < 2 ^ 29) →
    decorrelate false .rightSide l.length (Strict.sideOf l r) r = .ok (l, r) := by
  intro l
  induction l with
  | nil =>
    intro r hr _ _
    have : r = [] := List.eq_nil_of_length_eq_zero (by simpa using hr.symm)
    subst this; rfl
  | cons a l ih =>
    intro r hr hl hrr
    match r, hr with
    | b :: r, hr =>
      have ha := hl a (by simp)
      have hb := hrr b (by simp)
      have ih' := ih r (by simpa using hr) (fun x hx => hl x (by simp [hx])) (fun x hx => hrr x (by simp [hx]))
      simp only [Strict.sideOf, List.zipWith_cons_cons, List.map_cons, List.length_cons, decorrelate, midSide,
        i32op_false, DResult.ok_bind, DResult.pure_eq] at ih' ⊢
      rw [ih']
      simp only [DResult.ok_bind]
      rw [wrap32_id (a - b + b) (by omega) (by omega)]
      congr 3
      omega

theorem midside_elem (a b : Int) (ha : -(2 ^ 29 : Int) ≤ a ∧ a < 2 ^ 29) (hb : -(2 ^ 29 : Int) ≤ b ∧ b < 2 ^ 29) :
    wrap32 (wrap32 (wrap32 (2 * ((a + b) >>> (1 : Nat))) + (a - b) % 2) + (a - b)) / 2 = a ∧
    wrap32 (wrap32 (wrap32 (2 * ((a + b) >>> (1 : Nat))) + (a - b) % 2) - (a - b)) / 2 = b := by
  rw [Int.shiftRight_eq_div_pow]
  have e : ((2 ^ 1 : Nat) : Int) = 2 := by decide
  rw [e]
  have h1 : wrap32 (2 * ((a + b) / 2)) = 2 * ((a + b) / 2) := wrap32_id _ (by omega) (by omega)
  rw [h1]
  have h2 : 2 * ((a + b) / 2) + (a - b) % 2 = a + b := by omega
  rw [h2, wrap32_id (a + b) (by omega) (by omega)]
  rw [wrap32_id (a + b + (a - b)) (by omega) (by omega), wrap32_id (a + b - (a - b)) (by omega) (by omega)]
  constructor <;> omega

theorem decorrelate_mid : ∀ (l r : List Int), l.length = r.length →
    (∀ x ∈ l, -(2 ^ 29 : Int) ≤ x ∧ x < 2 ^ 29) → (∀ x ∈ r, -(2 ^ 29 : Int) ≤ x ∧ x < 2 ^ 29) →
    decorrelate false .midSide l.length (Strict.midOf l r) (Strict.sideOf l r) = .ok (l, r) := by
  intro l
  induction l with
  | nil =>
    intro r hr _ _
    have : r = [] := List.eq_nil_of_length_eq_zero (by simpa using hr.symm)
    subst this; rfl
  | cons a l ih =>
    intro r hr hl hrr
    match r, hr with
    | b :: r, hr =>
      have ha := hl a (by simp)
      have hb := hrr b (by simp)
      have ih' := ih r (by simpa using hr) (fun x hx => hl x (by simp [hx])) (fun x hx => hrr x (by simp [hx]))
      obtain ⟨e1, e2⟩ := midside_elem a b ha hb
      simp only [Strict.midOf, Strict.sideOf, List.zipWith_cons_cons, List.map_cons, List.length_cons, decorrelate,
        midSide, i32op_false, asSigned32_eq_wrap32, DResult.ok_bind, DResult.pure_eq] at ih' ⊢
      rw [ih']
      simp only [DResult.ok_bind]
      rw [e1, e2]

/-! ### the frame -/

/-- Per-index facts for a two-element list against another two-element list. -/
theorem two_decoded (s0 s1 : SubFrame) (c0 c1 : List Int)
    (h0 : decodeSubframe false s0 = .ok c0) (h1 : decodeSubframe false s1 = .ok c1) :
    [s0, s1].mapM (decodeSubframe false) = .ok [c0, c1] := by
  refine mapM_ok (decodeSubframe false) [s0, s1] [c0, c1] rfl ?_
  intro i hi1 hi2
  match i, hi1 with
  | 0, _ => exact h0
  | 1, _ => exact h1

theorem encodeChannels_wrap (cfg : SubCfg) (asg : ChannelAssignment) (bps n : Nat) (hn : 1 ≤ n ∧ n < 2 ^ 16)
    (hmax : cfg.maxP ≤ 14) :
    ∀ (chans : List (List Int)) (ch : Nat) (log log' : List OEvent) (subs : List SubFrame),
      (∀ c ∈ chans, c.length = n) →
      (∀ i (h : i < chans.length), 1 ≤ bps + asg.bpsOffset (ch + i) ∧ bps + asg.bpsOffset (ch + i) ≤ 25 ∧
        ∀ x ∈ chans[i], SubFrame.inRange (bps + asg.bpsOffset (ch + i)) x = true) →
      (∀ e ∈ log, e.Ok) →
      encodeChannels cfg asg bps chans ch log = some (subs, log') →
      subs.length = chans.length ∧ (∀ e ∈ log', e ∈ log) ∧
      ∀ i (h1 : i < subs.length) (h2 : i < chans.length), decodeSubframe false subs[i] = .ok chans[i] := by
  intro chans
  induction chans with
  | nil =>
    intro ch log log' subs _ _ _ h
    simp only [encodeChannels, Option.some.injEq, Prod.mk.injEq] at h
    obtain ⟨rfl, rfl⟩ := h
    exact ⟨rfl, fun e he => he, fun i h1 => absurd h1 (by simp)⟩
  | cons c cs ih =>
    intro ch log log' subs hlen hrng hlog h
    simp only [encodeChannels, Option.bind_eq_bind, Option.bind_eq_some_iff, Option.some.injEq, Prod.mk.injEq] at h
    obtain ⟨⟨s, l1⟩, hs, ⟨ss, l2⟩, hss, hsub, hl2⟩ := h
    subst hsub; subst hl2
    have hc : c.length = n := hlen c (by simp)
    obtain ⟨hb1, hb25, hx⟩ := hrng 0 (by simp)
    simp only [Nat.add_zero, List.getElem_cons_zero] at hb1 hb25 hx
    have hsub1 := Strict.encodeSubframe_sub cfg c _ log l1 s hs
    have hthis := decodeSubframe_wrap cfg c _ log l1 s (by omega) ⟨hb1, hb25⟩ hx hmax hlog hs
    obtain ⟨hl, hsub2, hrest⟩ := ih (ch + 1) l1 l2 ss (fun x hx => hlen x (by simp [hx]))
      (fun i hi => by
        have := hrng (i + 1) (by simp; omega)
        simp only [List.getElem_cons_succ] at this
        rw [show ch + (i + 1) = ch + 1 + i by omega] at this
        exact this)
      (fun e he => hlog e (hsub1 e he)) hss
    refine ⟨by simp [hl], fun e he => hsub1 e (hsub2 e he), ?_⟩
    intro i h1 h2
    cases i with
    | zero => simpa using hthis
    | succ j =>
      simp only [List.getElem_cons_succ]
      exact hrest j (by simpa using h1) (by simpa using h2)

theorem range29 (bps : Nat) (hb : bps ≤ 24) (c : List Int) (h : ∀ x ∈ c, SubFrame.inRange bps x = true) :
    ∀ x ∈ c, -(2 ^ 29 : Int) ≤ x ∧ x < 2 ^ 29 := by
  intro x hx
  have := (Strict.inRange_iff bps x).1 (h x hx)
  have hcast1 : ((2 : Int) ^ (bps - 1)) = ((2 ^ (bps - 1) : Nat) : Int) := (Int.natCast_pow 2 (bps - 1)).symm
  have hle : (2 : Nat) ^ (bps - 1) ≤ 2 ^ 29 := Nat.pow_le_pow_right (by decide) (by omega)
  rw [hcast1] at this
  omega

/-- Frame level (see `C01_frame_wrapdec`). -/
theorem frame_wrapdec (cfg : SubCfg) (st : StereoCfg) (chans : List (List Int)) (bps rate number n : Nat)
    (log log' : List OEvent) (f : Frame)
    (hch : 1 ≤ chans.length ∧ chans.length ≤ 8) (hlen : ∀ c ∈ chans, c.length = n) (hn : 1 ≤ n ∧ n < 2 ^ 16)
    (hb : 1 ≤ bps ∧ bps ≤ 24) (hx : ∀ c ∈ chans, ∀ x ∈ c, SubFrame.inRange bps x = true)
    (hmax : cfg.maxP ≤ 14) (hlog : ∀ e ∈ log, e.Ok)
    (h : encodeFrame cfg st chans bps rate number log = some (f, log')) :
    decodeFrameMode false f = .ok (Rfc.interleave chans) := by
  have hhead : (chans.headD []).length = n := by
    cases chans with
    | nil => simp at hch
    | cons c cs => exact hlen c (by simp)
  unfold encodeFrame at h
  simp only [Option.bind_eq_some_iff] at h
  obtain ⟨⟨indep, l1⟩, hi, h⟩ := h
  rw [hhead] at h
  obtain ⟨hil, hisub, hifacts⟩ := encodeChannels_wrap cfg (.independent chans.length) bps n hn hmax chans 0 log l1 indep
    hlen (fun i hi' => ⟨by simp [ChannelAssignment.bpsOffset]; omega, by simp [ChannelAssignment.bpsOffset]; omega,
      by simpa [ChannelAssignment.bpsOffset] using hx _ (List.getElem_mem hi')⟩) hlog hi
  have hfin := interleave_eq n chans hch.1 hlen
  split at h
  · rename_i l r sl sr heq
    simp only at heq
    subst heq
    simp only [Option.bind_eq_some_iff] at h
    obtain ⟨⟨msSubs, l2⟩, hm, h⟩ := h
    have hll : l.length = n := hlen l (by simp)
    have hrl : r.length = n := hlen r (by simp)
    have hlr : l.length = r.length := by omega
    obtain ⟨hmidr, hsider⟩ := Strict.midSide_range bps hb.1 l r (hx l (by simp)) (hx r (by simp))
    obtain ⟨hml, _, hmfacts⟩ := encodeChannels_wrap cfg .midSide bps n hn hmax
      [Strict.midOf l r, Strict.sideOf l r] 0 l1 l2 msSubs
      (by
        intro c hc
        simp only [List.mem_cons, List.not_mem_nil, or_false] at hc
        rcases hc with rfl | rfl <;> simp [hll, hrl])
      (Strict.two_facts (fun i c => 1 ≤ bps + ChannelAssignment.midSide.bpsOffset (0 + i) ∧
          bps + ChannelAssignment.midSide.bpsOffset (0 + i) ≤ 25 ∧
          ∀ x ∈ c, SubFrame.inRange (bps + ChannelAssignment.midSide.bpsOffset (0 + i)) x = true) _ _
        ⟨by simp [ChannelAssignment.bpsOffset]; omega, by simp [ChannelAssignment.bpsOffset]; omega,
          by simpa [ChannelAssignment.bpsOffset] using hmidr⟩
        ⟨by simp [ChannelAssignment.bpsOffset], by simp [ChannelAssignment.bpsOffset]; omega,
          by simpa [ChannelAssignment.bpsOffset] using hsider⟩)
      (fun e he => hlog e (hisub e he)) hm
    split at h
    · rename_i sm ss heq2
      simp only at heq2
      subst heq2
      simp only [Option.map_eq_some_iff, Prod.mk.injEq] at h
      obtain ⟨hdr, hhdr, hf, _⟩ := h
      subst hf
      have hsl := hifacts 0 (by simp) (by simp)
      have hsr := hifacts 1 (by simp) (by simp)
      have hsm := hmfacts 0 (by simp) (by simp)
      have hss := hmfacts 1 (by simp) (by simp)
      simp only [List.getElem_cons_zero, List.getElem_cons_succ] at hsl hsr hsm hss
      have hl29 := range29 bps hb.2 l (hx l (by simp))
      have hr29 := range29 bps hb.2 r (hx r (by simp))
      rcases Strict.chooseStereo_cases st (cnt sl) (cnt sr) (cnt sm) (cnt ss) with ha | ha | ha | ha
      · rw [ha] at hhdr ⊢
        obtain ⟨hbs, hasg⟩ := headerFor_facts _ n bps rate number hdr hn hhdr
        simp only [selectChannels]
        unfold decodeFrameMode
        simp only [hbs, hasg, DResult.ok_bind, two_decoded sl sr l r hsl hsr]
        exact hfin
      · rw [ha] at hhdr ⊢
        obtain ⟨hbs, hasg⟩ := headerFor_facts _ n bps rate number hdr hn hhdr
        simp only [selectChannels]
        unfold decodeFrameMode
        have hd := decorrelate_left l r hlr hl29 hr29
        rw [hll] at hd
        simp only [hbs, hasg, DResult.ok_bind, two_decoded sl ss l _ hsl hss, hd, DResult.pure_eq]
        exact hfin
      · rw [ha] at hhdr ⊢
        obtain ⟨hbs, hasg⟩ := headerFor_facts _ n bps rate number hdr hn hhdr
        simp only [selectChannels]
        unfold decodeFrameMode
        have hd := decorrelate_right l r hlr hl29 hr29
        rw [hll] at hd
        simp only [hbs, hasg, DResult.ok_bind, two_decoded ss sr _ r hss hsr, hd, DResult.pure_eq]
        exact hfin
      · rw [ha] at hhdr ⊢
        obtain ⟨hbs, hasg⟩ := headerFor_facts _ n bps rate number hdr hn hhdr
        simp only [selectChannels]
        unfold decodeFrameMode
        have hd := decorrelate_mid l r hlr hl29 hr29
        rw [hll] at hd
        simp only [hbs, hasg, DResult.ok_bind, two_decoded sm ss _ _ hsm hss, hd, DResult.pure_eq]
        exact hfin
    · exact absurd h (by simp)
  · split at h
    · exact absurd h (by simp)
    · rename_i chans _ _ _ _
      simp only [Option.map_eq_some_iff, Prod.mk.injEq] at h
      obtain ⟨hdr, hhdr, hf, _⟩ := h
      subst hf
      obtain ⟨hbs, hasg⟩ := headerFor_facts _ n bps rate number hdr hn hhdr
      unfold decodeFrameMode
      simp only [hbs, hasg, DResult.ok_bind, mapM_ok (decodeSubframe false) indep chans hil hifacts]
      exact hfin

end Wrap
end FlacVerif
