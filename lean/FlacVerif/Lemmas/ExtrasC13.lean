/-
Extras, part 2: C13 for the residuals `encode_subframe` emits. An emitted fixed / LPC candidate was
compared with the verbatim size (`keepBelow`, C09), its reported size is its written size (C08), and
the written size of its residual is `6 + choiceCost` (`Extras.ofErrors_bits_length`); so the cost of the
chosen partitioning is far below the saturation value `2^28 - 1` and `C13_emitted` applies.
-/
import FlacVerif.Lemmas.ExtrasCost
import FlacVerif.Lemmas.StrictSubframe
import FlacVerif.Theorems.C13
import FlacVerif.Theorems.C09
namespace FlacVerif
namespace Extras
open Count Strict

/-- What C13 says about one emitted residual, for a given error signal. -/
def OptimalFor (maxP n : Nat) (warm : List Int) (res : Residual) (errors : List Int) : Prop :=
  res = Residual.ofErrors errors warm.length res.order res.params ∧
    orderOk n warm.length res.order = true ∧ res.params.length = 2 ^ res.order ∧
    (∀ p ∈ res.params, p ≤ maxP) ∧
    ∀ o ps, orderOk n warm.length o = true → ps.length = 2 ^ o → (∀ p ∈ ps, p ≤ maxP) →
      choiceCost (errors.map fold) warm.length res.order res.params ≤
        choiceCost (errors.map fold) warm.length o ps

/-- What C13 says about one emitted residual. -/
def Optimal (maxP n : Nat) (warm : List Int) (res : Residual) : Prop :=
  ∃ errors : List Int, errors.length = n ∧ (∀ e ∈ errors, -(2 ^ 31 : Int) < e ∧ e < (2 ^ 31 : Int)) ∧
    OptimalFor maxP n warm res errors

/-- The core: a residual built from a successful search whose reported size is small is optimal. -/
theorem optimal_of_search (errors : List Int) (w maxP n : Nat) (warm : List Int) (prc : PrcParameter)
    (hwl : warm.length = w) (hel : errors.length = n)
    (hfit : ∀ e ∈ errors, fitsI32 e = true) (hn : max 64 w ≤ n) (hlen : n < 2 ^ 16)
    (hmax : maxP ≤ 14) (hs : search errors w maxP = some prc) (c : Nat)
    (hc : (Residual.ofErrors errors w prc.order prc.ps).count = some c) (hsmall : c < 2 ^ 28 - 1) :
    (∀ e ∈ errors, -(2 ^ 31 : Int) < e ∧ e < (2 ^ 31 : Int)) ∧
    OptimalFor maxP n warm (Residual.ofErrors errors w prc.order prc.ps) errors := by
  subst hel
  obtain ⟨herr, h15, hpl, hdvd, hw, hp⟩ := search_space errors w maxP prc hfit hn hlen hmax hs
  have hwf := residual_wf_of_search errors w maxP prc hfit hn hlen hmax hs
  have hopt := C13_optimal errors w maxP hmax herr hn hlen prc hs
  simp only [List.length_map] at hopt
  obtain ⟨hok, _, hpm, _⟩ := hopt
  rw [ofErrors_count errors w prc.order prc.ps herr hwf] at hc
  simp only [Option.some.injEq] at hc
  have hem := C13_emitted errors w maxP hmax herr hn hlen prc hs (by omega)
  simp only [List.length_map] at hem
  have hpar : (Residual.ofErrors errors w prc.order prc.ps).params = prc.ps := by
    rw [ofErrors_params, List.take_of_length_le (by omega)]
  refine ⟨herr, ?_, ?_, ?_, ?_, ?_⟩
  · rw [hwl, hpar, ofErrors_order]
  · rw [hwl, ofErrors_order]; exact hok
  · rw [hpar, ofErrors_order]; exact hpl
  · rw [hpar]; exact hpm
  · rw [hwl, hpar, ofErrors_order]; exact hem

theorem verbatim_small (n bps : Nat) (hlen : n < 2 ^ 16) (hb : bps ≤ 32) : verbatimBits n bps < 2 ^ 22 := by
  unfold verbatimBits
  have : n * bps ≤ 65535 * 32 := Nat.mul_le_mul (by omega) hb
  omega

/-- C13 for every residual `encode_subframe` emits (see `C13_encoder`). -/
theorem encoder_optimal (cfg : SubCfg) (xs : List Int) (bps : Nat) (log log' : List OEvent) (s : SubFrame)
    (hn : 1 ≤ xs.length) (hlen : xs.length < 2 ^ 16) (hb : 1 ≤ bps ∧ bps ≤ 25)
    (hx : ∀ x ∈ xs, SubFrame.inRange bps x = true) (hmax : cfg.maxP ≤ 14)
    (hlog : ∀ e ∈ log, e.Ok)
    (h : encodeSubframe cfg xs bps log = some (s, log')) :
    match s with
    | .fixed warm res _ => Optimal cfg.maxP xs.length warm res
    | .lpc warm _ _ _ res _ => Optimal cfg.maxP xs.length warm res
    | _ => True := by
  obtain ⟨c, hc, hcle⟩ := C09.C09_subframe cfg xs bps log log' s hn h
  have hvs := verbatim_small xs.length bps hlen (by omega)
  rcases encodeSubframe_shape cfg xs bps log log' s h with ⟨_, rfl⟩ | rfl | ⟨h64, hs⟩ | ⟨h64, log1, hsub, hs⟩
  · trivial
  · trivial
  · obtain ⟨k, prc, hk4, hsearch, rfl⟩ := hs
    obtain ⟨hdl, hdr, _⟩ := diffs_fixed bps hb xs hx k hk4 (by omega)
    simp only [SubFrame.count, Option.map_eq_some_iff] at hc
    obtain ⟨c', hc', rfl⟩ := hc
    obtain ⟨h1, h2⟩ := optimal_of_search (diffs k xs) k cfg.maxP xs.length (xs.take k) prc
      (by rw [List.length_take]; omega) hdl (fits_of_range _ hdr) (by omega) hlen hmax hsearch c' hc' (by omega)
    exact ⟨_, hdl, h1, h2⟩
  · obtain ⟨coefs, shift, precision, errors, prc, hmem, hce, hsearch, rfl⟩ := hs
    obtain ⟨hc1, hc32, _⟩ := hlog _ (hsub _ hmem)
    replace hc32 : coefs.length ≤ 32 := by unfold maxLpcOrder at hc32; omega
    obtain ⟨hel, hef⟩ := computeError_fits coefs shift.toNat xs errors hce
    simp only [SubFrame.count, Option.map_eq_some_iff] at hc
    obtain ⟨c', hc', rfl⟩ := hc
    obtain ⟨h1, h2⟩ := optimal_of_search errors coefs.length cfg.maxP xs.length (xs.take coefs.length) prc
      (by rw [List.length_take]; omega) hel hef (by omega) hlen hmax hsearch c' hc' (by omega)
    exact ⟨_, hel, h1, h2⟩

/-- The fixed case with the error signal made explicit. -/
theorem encoder_optimal_fixed (cfg : SubCfg) (xs : List Int) (bps : Nat) (log log' : List OEvent)
    (warm : List Int) (res : Residual) (b : Nat)
    (hn : 1 ≤ xs.length) (hlen : xs.length < 2 ^ 16) (hb : 1 ≤ bps ∧ bps ≤ 25)
    (hx : ∀ x ∈ xs, SubFrame.inRange bps x = true) (hmax : cfg.maxP ≤ 14)
    (h : encodeSubframe cfg xs bps log = some (.fixed warm res b, log')) :
    OptimalFor cfg.maxP xs.length warm res (diffs warm.length xs) := by
  obtain ⟨c, hc, hcle⟩ := C09.C09_subframe cfg xs bps log log' _ hn h
  have hvs := verbatim_small xs.length bps hlen (by omega)
  rcases encodeSubframe_shape cfg xs bps log log' _ h with ⟨_, he⟩ | he | ⟨h64, hs⟩ | ⟨h64, log1, hsub, hs⟩
  · cases he
  · cases he
  · obtain ⟨k, prc, hk4, hsearch, he⟩ := hs
    simp only [SubFrame.fixed.injEq] at he
    obtain ⟨rfl, rfl, rfl⟩ := he
    obtain ⟨hdl, hdr, _⟩ := diffs_fixed b hb xs hx k hk4 (by omega)
    simp only [SubFrame.count, Option.map_eq_some_iff] at hc
    obtain ⟨c', hc', rfl⟩ := hc
    have hwl : (xs.take k).length = k := by rw [List.length_take]; omega
    rw [hwl]
    exact (optimal_of_search (diffs k xs) k cfg.maxP xs.length (xs.take k) prc
      hwl hdl (fits_of_range _ hdr) (by omega) hlen hmax hsearch c' hc' (by omega)).2
  · obtain ⟨coefs, shift, precision, errors, prc, _, _, _, he⟩ := hs
    cases he

end Extras
end FlacVerif
