/-
Round trip of whole streams: `Stream.bits` against `Repo.stream` / `Repo.parseStream` (C15, stream level).
-/
import FlacVerif.Lemmas.RepoRoundTripFrame
namespace FlacVerif.Repo
open PResult

/-! ### STREAMINFO -/

/-- STREAMINFO blocks that `stream_info` reads back IDENTICALLY from what `StreamInfo::write` writes.
* block sizes: either set (`1 ≤ min ≤ max ≤ 32767`) or the initial "unset" pair `(65535, 0)` of a
  `StreamInfo` that has not seen a frame (`total = 0`);
* frame sizes: either real (`min ≤ max < 2^24`, not both 0) or the initial "unset" pair `(2^32-1, 0)`,
  which `write` emits as `(0, 0)` ("unknown") and `stream_info` maps back to the initial pair.
The pair `(0, 0)` itself is NOT read back identically (it is written as `(0, 0)` and comes back as the
initial pair, see `streamInfo_read_zero`); no `StreamInfo` that saw a frame has it (a frame has ≥ 1 byte). -/
structure InfoOk (s : StreamInfo) : Prop where
  blocks : (1 ≤ s.minBlock ∧ s.minBlock ≤ s.maxBlock ∧ s.maxBlock ≤ 32767) ∨
    (s.total = 0 ∧ s.minBlock = 65535 ∧ s.maxBlock = 0)
  frames : (s.minFrame ≤ s.maxFrame ∧ s.maxFrame < 2 ^ 24 ∧ 0 < s.maxFrame) ∨
    (s.minFrame = 2 ^ 32 - 1 ∧ s.maxFrame = 0)
  rate : s.rate ≤ 96000
  channels : 1 ≤ s.channels ∧ s.channels ≤ 8
  bps : s.bps = 8 ∨ s.bps = 12 ∨ s.bps = 16 ∨ s.bps = 20 ∨ s.bps = 24
  total : s.total < 2 ^ 36
  md5len : s.md5.length = 16
  md5 : ∀ b ∈ s.md5, b < 256

/-- `stream_info` on the STREAMINFO fields with frame sizes `(mn, mx)` on the wire: `r` is the record
with the frame sizes `stream_info` assigns (`(0, 0)` ↦ the initial pair, anything else as it is). -/
theorem streamInfo_fields (s : StreamInfo) (mn mx : Nat) (k : Bits) (hk : k.length % 8 = 0)
    (hblocks : (1 ≤ s.minBlock ∧ s.minBlock ≤ s.maxBlock ∧ s.maxBlock ≤ 32767) ∨
      (s.total = 0 ∧ s.minBlock = 65535 ∧ s.maxBlock = 0))
    (hframes : (mn ≤ mx ∧ mx < 2 ^ 24 ∧ 0 < mx ∧ s.minFrame = mn ∧ s.maxFrame = mx) ∨
      (mn = 0 ∧ mx = 0 ∧ s.minFrame = 2 ^ 32 - 1 ∧ s.maxFrame = 0))
    (hrate : s.rate ≤ 96000) (hch : 1 ≤ s.channels ∧ s.channels ≤ 8)
    (hbps : s.bps = 8 ∨ s.bps = 12 ∨ s.bps = 16 ∨ s.bps = 20 ∨ s.bps = 24)
    (htot : s.total < 2 ^ 36) (hml : s.md5.length = 16) (hmd : ∀ b ∈ s.md5, b < 256) :
    streamInfo (natToBits 16 s.minBlock ++ (natToBits 16 s.maxBlock ++ (natToBits 24 mn ++ (natToBits 24 mx ++
      (natToBits 20 s.rate ++ (natToBits 3 (s.channels - 1) ++ (natToBits 5 (s.bps - 1) ++ (natToBits 36 s.total ++
      (bytesToBits s.md5 ++ k))))))))) = .ok (s, k) := by
  obtain ⟨hch1, hch2⟩ := hch
  unfold streamInfo
  rw [show (16 : Nat) = 8 * 2 from rfl, show (24 : Nat) = 8 * 3 from rfl]
  rw [beUint_natToBits 2 _ _ (by omega)]
  simp only [ok_bind]
  rw [beUint_natToBits 2 _ _ (by omega)]
  simp only [ok_bind]
  rw [beUint_natToBits 3 _ _ (by omega)]
  simp only [ok_bind]
  rw [beUint_natToBits 3 _ _ (by omega)]
  simp only [ok_bind]
  rw [takeBits_natToBits_lt 64 20 _ _ (by decide) (by omega)]
  simp only [ok_bind]
  rw [takeBits_natToBits_lt 64 3 _ _ (by decide) (by omega)]
  simp only [ok_bind]
  rw [takeBits_natToBits_lt 64 5 _ _ (by decide) (by omega)]
  simp only [ok_bind]
  rw [takeBits_natToBits_lt 64 36 _ _ (by decide) htot]
  simp only [ok_bind]
  rw [uadd_ok 64 _ _ _ (by omega), uadd_ok 64 _ _ _ (by omega)]
  simp only [ok_bind]
  rw [alignByte_aligned _ (by simp only [List.length_append, bytesToBits_length]; omega)]
  have hb := byteTake_bytesToBits s.md5 k hmd
  rw [hml] at hb
  rw [hb]
  simp only [ok_bind]
  have e1 : s.channels - 1 + 1 = s.channels := by omega
  have e2 : s.bps - 1 + 1 = s.bps := by omega
  rw [e1, e2]
  rw [if_neg (by omega), if_neg (by omega), if_neg (by omega)]
  have hv : verifyBps s.bps = true ∧ s.bps % 4 = 0 := by
    rcases hbps with h | h | h | h | h <;> rw [h] <;> decide
  rw [if_neg (by simp [hv.1, hv.2]), passert_ok _ _ (by simp [hml])]
  simp only [ok_bind]
  rw [if_neg (by omega), if_neg (by omega), if_neg (by omega), if_neg (by omega)]
  rcases hframes with ⟨_, _, hpos, hmn, hmx⟩ | ⟨hmn0, hmx0, hmn, hmx⟩
  · rw [if_neg (by omega), ← hmn, ← hmx]
    rfl
  · rw [if_pos ⟨hmn0, hmx0⟩]
    simp only [← hmn, ← hmx]
    rfl

theorem streamInfo_read (s : StreamInfo) (h : InfoOk s) (k : Bits) (hk : k.length % 8 = 0) :
    streamInfo (s.bits ++ k) = .ok (s, k) := by
  obtain ⟨hblocks, hframes, hrate, hch, hbps, htot, hml, hmd⟩ := h
  unfold StreamInfo.bits
  rcases hframes with ⟨h1, h2, h3⟩ | ⟨h1, h2⟩
  · have hnf : ¬ s.minFrame > s.maxFrame := by omega
    simp only [hnf, if_false, List.append_assoc]
    exact streamInfo_fields s _ _ k hk hblocks (Or.inl ⟨h1, h2, h3, rfl, rfl⟩) hrate hch hbps htot hml hmd
  · have hf : s.minFrame > s.maxFrame := by omega
    simp only [hf, if_true, List.append_assoc]
    exact streamInfo_fields s 0 0 k hk hblocks (Or.inr ⟨rfl, rfl, h1, h2⟩) hrate hch hbps htot hml hmd

/-- The corner excluded by `InfoOk`: frame sizes `(0, 0)` ("unknown" on the wire).  They are written as
`(0, 0)` and `stream_info` leaves the frame sizes of the new `StreamInfo` in their initial state
`(2^32-1, 0)`; everything else is read back. Likewise every other pair with `min > max`. -/
theorem streamInfo_read_zero (s : StreamInfo) (h : InfoOk { s with minFrame := 2 ^ 32 - 1, maxFrame := 0 })
    (hz : (s.minFrame = 0 ∧ s.maxFrame = 0) ∨ s.minFrame > s.maxFrame)
    (k : Bits) (hk : k.length % 8 = 0) :
    streamInfo (s.bits ++ k) = .ok ({ s with minFrame := 2 ^ 32 - 1, maxFrame := 0 }, k) := by
  have hbits : s.bits = ({ s with minFrame := 2 ^ 32 - 1, maxFrame := 0 } : StreamInfo).bits := by
    unfold StreamInfo.bits
    rcases hz with ⟨h1, h2⟩ | h1
    · simp [h1, h2]
    · simp [h1]
  rw [hbits]
  exact streamInfo_read _ h k hk


/-! ### metadata blocks -/

/-- `Unknown` metadata blocks that `metadata_block` accepts. -/
structure MetaOk (m : UnknownBlock) : Prop where
  tag : 1 ≤ m.tag ∧ m.tag ≤ 126
  len : m.data.length < 2 ^ 24
  bytes : ∀ b ∈ m.data, b < 256

/-- The metadata blocks after STREAMINFO as `Stream::write` lays them out (last-flag on the last). -/
def metaBits : List UnknownBlock → Bits
  | [] => []
  | [m] => Stream.blockHeader true m.tag m.data.length ++ bytesToBits m.data
  | m :: m' :: ms => Stream.blockHeader false m.tag m.data.length ++ bytesToBits m.data ++ metaBits (m' :: ms)

theorem metas_eq (l : List UnknownBlock) :
    ((List.range l.length).flatMap fun i =>
      let m := l.getD i ⟨0, []⟩
      Stream.blockHeader (i + 1 = l.length) m.tag m.data.length ++ bytesToBits m.data) = metaBits l := by
  induction l with
  | nil => rfl
  | cons m l ih =>
    rw [List.length_cons, List.range_succ_eq_map, List.flatMap_cons, List.flatMap_map]
    simp only [List.getD_cons_zero, List.getD_cons_succ]
    have hrest : (List.flatMap (fun i =>
        Stream.blockHeader (decide (i + 1 + 1 = l.length + 1)) (l.getD i ⟨0, []⟩).tag (l.getD i ⟨0, []⟩).data.length ++
          bytesToBits (l.getD i ⟨0, []⟩).data) (List.range l.length)) = metaBits l := by
      rw [← ih]
      congr 1
      funext i
      have : decide (i + 1 + 1 = l.length + 1) = decide (i + 1 = l.length) := by
        by_cases h : i + 1 = l.length <;> simp [h]
      rw [this]
    rw [hrest]
    cases l with
    | nil => simp [metaBits]
    | cons m' ms =>
      have : decide (0 + 1 = (m' :: ms).length + 1) = false := by simp
      rw [this]
      simp [metaBits]

theorem blockHeader_first (isLast : Bool) (tag : Nat) (ht : tag ≤ 127) :
    decide ((tag + if isLast then 0x80 else 0) / 128 ≠ 0) = isLast ∧ (tag + if isLast then 0x80 else 0) % 128 = tag := by
  cases isLast with
  | true =>
    simp only [if_true]
    have h1 : (tag + 128) / 128 = 1 := by omega
    have h2 : (tag + 128) % 128 = tag := by omega
    simp [h1, h2]
  | false =>
    simp only [Bool.false_eq_true, if_false, Nat.add_zero]
    have h1 : tag / 128 = 0 := by omega
    have h2 : tag % 128 = tag := by omega
    simp [h1, h2]

theorem metadataBlock_unknown_read (m : UnknownBlock) (hm : MetaOk m) (isLast : Bool) (k : Bits) :
    metadataBlock (Stream.blockHeader isLast m.tag m.data.length ++ bytesToBits m.data ++ k) =
      .ok ((isLast, .unknown m), k) := by
  obtain ⟨⟨ht1, ht2⟩, hl, hb⟩ := hm
  unfold metadataBlock Stream.blockHeader
  simp only [List.append_assoc]
  rw [show (8 : Nat) = 8 * 1 from rfl, show (24 : Nat) = 8 * 3 from rfl]
  rw [beUint_natToBits 1 _ _ (by split <;> omega)]
  simp only [ok_bind]
  rw [beUint_natToBits 3 _ _ (by omega)]
  simp only [ok_bind]
  obtain ⟨h1, h2⟩ := blockHeader_first isLast m.tag (by omega)
  rw [h2, if_neg (by omega), byteTake_bytesToBits m.data k hb]
  simp only [ok_bind]
  rw [if_neg (by omega)]
  simp only [pure_eq, h1]

theorem metadataBlock_info_read (s : StreamInfo) (hs : InfoOk s) (isLast : Bool) (len : Nat) (k : Bits)
    (hl : len < 2 ^ 24) (hk : k.length % 8 = 0) :
    metadataBlock (Stream.blockHeader isLast 0 len ++ s.bits ++ k) = .ok ((isLast, .streamInfo s), k) := by
  unfold metadataBlock Stream.blockHeader
  simp only [List.append_assoc]
  rw [show (8 : Nat) = 8 * 1 from rfl, show (24 : Nat) = 8 * 3 from rfl]
  rw [beUint_natToBits 1 _ _ (by split <;> omega)]
  simp only [ok_bind]
  rw [beUint_natToBits 3 _ _ (by omega)]
  simp only [ok_bind]
  obtain ⟨h1, h2⟩ := blockHeader_first isLast 0 (by omega)
  rw [h2, if_pos rfl, streamInfo_read s hs k hk]
  simp only [ok_bind, pure_eq, h1]

theorem metaBits_len8 (l : List UnknownBlock) : (metaBits l).length % 8 = 0 := by
  induction l with
  | nil => rfl
  | cons m l ih =>
    cases l with
    | nil =>
      simp only [metaBits, Stream.blockHeader, List.length_append, natToBits_length, bytesToBits_length]; omega
    | cons m' ms =>
      simp only [metaBits, Stream.blockHeader, List.length_append, natToBits_length, bytesToBits_length] at ih ⊢
      omega

theorem metadataLoop_last (i : Bits) (b : MetaData) (i' : Bits)
    (hb : metadataBlock i = .ok ((true, b), i')) : metadataLoop i = .ok ([b], i') := by
  rw [metadataLoop, hb]
  simp

theorem metadataLoop_step (i : Bits) (b : MetaData) (i' : Bits)
    (hb : metadataBlock i = .ok ((false, b), i')) (hlt : i'.length < i.length) :
    metadataLoop i = (match metadataLoop i' with
      | .ok (bs, i'') => .ok (b :: bs, i'')
      | .error e => .error e
      | .panic s => .panic s) := by
  rw [metadataLoop, hb]
  simp only [Bool.false_eq_true, if_false, dif_pos hlt]
  cases metadataLoop i' with
  | ok v => obtain ⟨bs, i''⟩ := v; rfl
  | error e => rfl
  | panic s => rfl

theorem metadataLoop_read (l : List UnknownBlock) (hne : l ≠ []) (hl : ∀ m ∈ l, MetaOk m) (k : Bits) :
    metadataLoop (metaBits l ++ k) = .ok (l.map MetaData.unknown, k) := by
  induction l with
  | nil => exact absurd rfl hne
  | cons m l ih =>
    cases l with
    | nil =>
      simp only [metaBits]
      rw [metadataLoop_last _ _ _ (metadataBlock_unknown_read m (hl m (by simp)) true k)]
      rfl
    | cons m' ms =>
      simp only [metaBits]
      rw [List.append_assoc]
      rw [metadataLoop_step _ _ _ (metadataBlock_unknown_read m (hl m (by simp)) false _) (by
        simp only [List.length_append, Stream.blockHeader, natToBits_length]; omega)]
      rw [ih (by simp) (fun x hx => hl x (by simp [hx]))]
      rfl


/-! ### frames until end of input -/

theorem framesTillEof_nil (info : StreamInfo) : framesTillEof info [] = .ok [] := by
  rw [framesTillEof]; simp

theorem framesTillEof_step (info : StreamInfo) (i : Bits) (f : Frame) (i' : Bits)
    (hf : frame info true i = .ok (f, i')) (hlt : i'.length < i.length) :
    framesTillEof info i = (match framesTillEof info i' with
      | .ok fs => .ok (f :: fs)
      | .error e => .error e
      | .panic s => .panic s) := by
  rw [framesTillEof]
  have h0 : ¬ i.length = 0 := by omega
  rw [if_neg h0, hf]
  simp only [dif_pos hlt]
  cases framesTillEof info i' with
  | ok v => rfl
  | error e => rfl
  | panic s => rfl

theorem frame_bits_pos (f : Frame) (fb : Bits) (hbits : f.bits rfcCrc8 rfcCrc16 = some fb) : 0 < fb.length := by
  unfold Frame.bits at hbits
  cases hh : f.header.bits rfcCrc8 with
  | none => rw [hh] at hbits; simp at hbits
  | some hb =>
    rw [hh] at hbits
    simp only [Option.bind_eq_bind, Option.bind_some] at hbits
    injection hbits with hbits
    subst hbits
    simp only [List.length_append, natToBits_length]
    omega

theorem framesTillEof_read (info : StreamInfo) (frames : List Frame) :
    ∀ (fbs : List Bits), frames.mapM (Frame.bits rfcCrc8 rfcCrc16) = some fbs →
      (∀ f ∈ frames, FrameOk info f) →
      fbs.flatten.length % 8 = 0 ∧ framesTillEof info fbs.flatten = .ok frames := by
  induction frames with
  | nil =>
    intro fbs hm _
    simp only [List.mapM_nil, Option.pure_def, Option.some.injEq] at hm
    subst hm
    exact ⟨rfl, framesTillEof_nil info⟩
  | cons f fs ih =>
    intro fbs hm hok
    rw [List.mapM_cons] at hm
    cases hfb : f.bits rfcCrc8 rfcCrc16 with
    | none => rw [hfb] at hm; simp at hm
    | some fb =>
      rw [hfb] at hm
      cases hrest : fs.mapM (Frame.bits rfcCrc8 rfcCrc16) with
      | none => rw [hrest] at hm; simp at hm
      | some fbs' =>
        rw [hrest] at hm
        simp only [Option.bind_eq_bind, Option.bind_some, Option.pure_def, Option.some.injEq] at hm
        subst hm
        obtain ⟨h8, hrd⟩ := ih fbs' hrest (fun g hg => hok g (by simp [hg]))
        have hfb8 := frame_bits_len8 f fb hfb
        have hpos := frame_bits_pos f fb hfb
        rw [List.flatten_cons]
        refine ⟨by rw [List.length_append]; omega, ?_⟩
        rw [framesTillEof_step info _ f fbs'.flatten
          (frame_read f info true fb fbs'.flatten hfb (hok f (by simp)) h8)
          (by rw [List.length_append]; omega), hrd]

/-! ### the stream -/

theorem byteTag_read (t : List Nat) (k : Bits) : byteTag t (bytesToBits t ++ k) = .ok ((), k) := by
  unfold byteTag
  simp only
  have hmin : min (bytesToBits t).length (bytesToBits t ++ k).length = (bytesToBits t).length := by
    rw [List.length_append]; omega
  rw [hmin, List.take_left' rfl, List.take_length]
  simp only [ne_eq, not_true_eq_false, if_false]
  rw [if_neg (by rw [List.length_append]; omega), List.drop_left' rfl]

/-- The parsed form of a `Stream`. -/
def PStream.ofStream (s : Stream) : PStream :=
  { info := s.info, metadata := s.metadata.map MetaData.unknown, frames := s.frames }

theorem mapM_unknown (g : MetaData → Option UnknownBlock) (hg : ∀ b, g (.unknown b) = some b)
    (l : List UnknownBlock) : (l.map MetaData.unknown).mapM g = some l := by
  induction l with
  | nil => rfl
  | cons m l ih => rw [List.map_cons, List.mapM_cons, hg, ih]; rfl

theorem PStream.ofStream_toStream (s : Stream) : (PStream.ofStream s).toStream? = some s := by
  unfold PStream.toStream? PStream.ofStream
  simp only
  rw [mapM_unknown _ (fun b => rfl)]
  rfl

/-- What `parser::stream` needs to read back a stream written by `Stream::write`. -/
structure StreamOk (s : Stream) : Prop where
  info : InfoOk s.info
  metas : ∀ m ∈ s.metadata, MetaOk m
  frames : ∀ f ∈ s.frames, FrameOk s.info f

theorem stream_read (s : Stream) (sb : Bits) (hbits : s.bits rfcCrc8 rfcCrc16 = some sb) (hok : StreamOk s) :
    stream sb = .ok (PStream.ofStream s) := by
  unfold Stream.bits at hbits
  cases hfr : s.frames.mapM (Frame.bits rfcCrc8 rfcCrc16) with
  | none => rw [hfr] at hbits; simp at hbits
  | some fbs =>
    rw [hfr] at hbits
    simp only [Option.bind_eq_bind, Option.bind_some] at hbits
    injection hbits with hbits
    subst hbits
    obtain ⟨h8, hrd⟩ := framesTillEof_read s.info s.frames fbs hfr hok.frames
    rw [metas_eq]
    simp only [List.append_assoc]
    unfold stream
    rw [byteTag_read]
    simp only [ok_bind]
    have hm8 := metaBits_len8 s.metadata
    rw [← List.append_assoc (Stream.blockHeader _ 0 34)]
    rw [metadataBlock_info_read s.info hok.info _ 34 _ (by decide) (by rw [List.length_append]; omega)]
    simp only [ok_bind]
    cases hmeta : s.metadata with
    | nil =>
      simp only [List.length_nil, decide_true, if_true, ok_bind, metaBits, List.nil_append]
      rw [hrd]
      simp only [ok_bind, pure_eq, PStream.ofStream, hmeta, List.map_nil]
    | cons m ms =>
      have hne : decide ((m :: ms).length = 0) = false := by simp
      rw [hne]
      simp only [Bool.false_eq_true, if_false]
      rw [metadataLoop_read (m :: ms) (by simp) (fun x hx => hok.metas x (by rw [hmeta]; exact hx))]
      simp only [ok_bind]
      rw [hrd]
      simp only [ok_bind, pure_eq, PStream.ofStream, hmeta]

theorem stream_bits_len8 (s : Stream) (sb : Bits) (hbits : s.bits rfcCrc8 rfcCrc16 = some sb) (hok : StreamOk s) :
    sb.length % 8 = 0 := by
  unfold Stream.bits at hbits
  cases hfr : s.frames.mapM (Frame.bits rfcCrc8 rfcCrc16) with
  | none => rw [hfr] at hbits; simp at hbits
  | some fbs =>
    rw [hfr] at hbits
    simp only [Option.bind_eq_bind, Option.bind_some] at hbits
    injection hbits with hbits
    subst hbits
    obtain ⟨h8, _⟩ := framesTillEof_read s.info s.frames fbs hfr hok.frames
    rw [metas_eq]
    have hm8 := metaBits_len8 s.metadata
    have hml := hok.info.md5len
    unfold StreamInfo.bits Stream.blockHeader
    simp only [List.length_append, natToBits_length, bytesToBits_length]
    simp only [List.length_cons, List.length_nil]
    omega

/-- Byte interface: `parser::stream` on the bytes of a written stream. -/
theorem parseStream_read (s : Stream) (sb : Bits) (hbits : s.bits rfcCrc8 rfcCrc16 = some sb) (hok : StreamOk s) :
    parseStream (packBytes sb) = .ok (PStream.ofStream s) := by
  have h8 := stream_bits_len8 s sb hbits hok
  unfold parseStream
  rw [bytesToBits_packBytes (sb.length / 8) sb (by omega)]
  exact stream_read s sb hbits hok

end FlacVerif.Repo
