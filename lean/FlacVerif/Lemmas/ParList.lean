/-
List facts used by the protocol invariants: updating one element of the worker list, the sorted
association list of `ParSink`, the shape of the encode queue.
-/
import FlacVerif.Model.Par
namespace FlacVerif.Par

theorem count_set_add {α : Type} [DecidableEq α] (l : List α) (i : Nat) (a b x : α)
    (h : l[i]? = some a) :
    (l.set i b).count x + (if a = x then 1 else 0) = l.count x + (if b = x then 1 else 0) := by
  induction l generalizing i with
  | nil => simp at h
  | cons y l ih =>
    cases i with
    | zero =>
      simp at h; subst h
      simp only [List.set_cons_zero, List.count_cons, beq_iff_eq]; omega
    | succ i =>
      simp at h; have := ih i h
      simp only [List.set_cons_succ, List.count_cons]; omega

theorem count_flatMap_set {α : Type} (f : α → List Nat) (l : List α) (i : Nat) (a b : α) (x : Nat)
    (h : l[i]? = some a) :
    ((l.set i b).flatMap f).count x + (f a).count x = (l.flatMap f).count x + (f b).count x := by
  induction l generalizing i with
  | nil => simp at h
  | cons y l ih =>
    cases i with
    | zero =>
      simp at h; subst h
      simp only [List.set_cons_zero, List.flatMap_cons, List.count_append]; omega
    | succ i =>
      simp at h; have := ih i h
      simp only [List.set_cons_succ, List.flatMap_cons, List.count_append]; omega

theorem length_flatMap_set {α β : Type} (f : α → List β) (l : List α) (i : Nat) (a b : α)
    (h : l[i]? = some a) :
    ((l.set i b).flatMap f).length + (f a).length = (l.flatMap f).length + (f b).length := by
  induction l generalizing i with
  | nil => simp at h
  | cons y l ih =>
    cases i with
    | zero =>
      simp at h; subst h
      simp only [List.set_cons_zero, List.flatMap_cons, List.length_append]; omega
    | succ i =>
      simp at h; have := ih i h
      simp only [List.set_cons_succ, List.flatMap_cons, List.length_append]; omega

theorem mem_of_getElem?_eq {α : Type} {l : List α} {i : Nat} {a : α} (h : l[i]? = some a) :
    a ∈ l := List.mem_of_getElem? h

/-- an element of the list survives `set i b` unless it is the replaced one -/
theorem mem_set_or_eq {α : Type} {l : List α} {i : Nat} {a b x : α} (h : l[i]? = some a)
    (hx : x ∈ l) : x = a ∨ x ∈ l.set i b := by
  induction l generalizing i with
  | nil => simp at h
  | cons y l ih =>
    cases i with
    | zero =>
      simp at h; subst h
      rcases List.mem_cons.1 hx with rfl | hx
      · exact Or.inl rfl
      · exact Or.inr (by simp [hx])
    | succ i =>
      simp at h
      rcases List.mem_cons.1 hx with rfl | hx
      · exact Or.inr (by simp)
      · rcases ih h hx with h1 | h1
        · exact Or.inl h1
        · exact Or.inr (by simp [h1])

theorem mem_set_self {α : Type} {l : List α} {i : Nat} {a b : α} (h : l[i]? = some a) :
    b ∈ l.set i b := by
  have hi : i < l.length := by
    rcases Nat.lt_or_ge i l.length with h1 | h1
    · exact h1
    · simp [List.getElem?_eq_none h1] at h
  exact List.mem_set hi b

theorem count_range (n x : Nat) : (List.range n).count x = if x < n then 1 else 0 := by
  induction n with
  | zero => simp
  | succ n ih =>
    rw [List.range_succ, List.count_append, ih]
    simp only [List.count_cons, List.count_nil, beq_iff_eq]
    by_cases h1 : x < n <;> by_cases h2 : n = x <;> by_cases h3 : x < n + 1 <;> simp [h1, h2, h3] <;> omega

/-! ### `insertKey` -/

theorem insertKey_ne_nil {α : Type} (n : Nat) (v : α) (l : List (Nat × α)) :
    insertKey n v l ≠ [] := by
  cases l with
  | nil => simp [insertKey]
  | cons x l =>
    obtain ⟨m, u⟩ := x
    simp only [insertKey]; split
    · simp
    · split <;> simp

theorem mem_insertKey {α : Type} {n : Nat} {v : α} {l : List (Nat × α)} {x : Nat × α}
    (h : x ∈ insertKey n v l) : x = (n, v) ∨ x ∈ l := by
  induction l with
  | nil => simp [insertKey] at h; exact Or.inl h
  | cons y l ih =>
    obtain ⟨m, u⟩ := y
    simp only [insertKey] at h
    split at h
    · rcases List.mem_cons.1 h with h | h
      · exact Or.inl h
      · exact Or.inr h
    · split at h
      · rcases List.mem_cons.1 h with h | h
        · exact Or.inl h
        · exact Or.inr (List.mem_cons_of_mem _ h)
      · rcases List.mem_cons.1 h with h | h
        · exact Or.inr (by simp [h])
        · rcases ih h with h | h
          · exact Or.inl h
          · exact Or.inr (List.mem_cons_of_mem _ h)

theorem keys_insertKey {α : Type} (n : Nat) (v : α) (l : List (Nat × α)) (m : Nat) :
    m ∈ (insertKey n v l).map (·.1) ↔ m = n ∨ m ∈ l.map (·.1) := by
  induction l with
  | nil => simp [insertKey]
  | cons y l ih =>
    obtain ⟨k, u⟩ := y
    simp only [insertKey]
    split
    · simp
    · split
      · subst_vars; simp
      · simp only [List.map_cons, List.mem_cons, ih]
        constructor
        · rintro (h | h | h)
          · exact Or.inr (Or.inl h)
          · exact Or.inl h
          · exact Or.inr (Or.inr h)
        · rintro (h | h | h)
          · exact Or.inr (Or.inl h)
          · exact Or.inl h
          · exact Or.inr (Or.inr h)

theorem sorted_insertKey {α : Type} (n : Nat) (v : α) (l : List (Nat × α))
    (h : (l.map (·.1)).Pairwise (· < ·)) : ((insertKey n v l).map (·.1)).Pairwise (· < ·) := by
  induction l with
  | nil => simp [insertKey]
  | cons y l ih =>
    obtain ⟨k, u⟩ := y
    simp only [List.map_cons, List.pairwise_cons] at h
    simp only [insertKey]
    split
    · rename_i hlt
      simp only [List.map_cons, List.pairwise_cons, List.mem_cons]
      refine ⟨?_, h⟩
      rintro a (rfl | ha)
      · exact hlt
      · exact Nat.lt_trans hlt (h.1 a ha)
    · split
      · subst_vars
        simp only [List.map_cons, List.pairwise_cons]
        exact h
      · rename_i h1 h2
        simp only [List.map_cons, List.pairwise_cons]
        refine ⟨?_, ih h.2⟩
        intro a ha
        rcases (keys_insertKey n v l a).1 ha with rfl | ha
        · omega
        · exact h.1 a ha

/-- A strictly increasing list of naturals whose members are exactly the numbers below `N` is
`range N`. -/
theorem eq_range_of_sorted (l : List Nat) (N : Nat) (hs : l.Pairwise (· < ·))
    (hm : ∀ n, n ∈ l ↔ n < N) : l = List.range N := by
  induction N generalizing l with
  | zero =>
    cases l with
    | nil => rfl
    | cons a l => exact absurd ((hm a).1 (by simp)) (by omega)
  | succ N ih =>
    -- split off the last element
    have hN : N ∈ l := (hm N).2 (by omega)
    obtain ⟨l1, l2, rfl⟩ := List.append_of_mem hN
    have hs' := hs
    rw [List.pairwise_append] at hs
    obtain ⟨hs1, hs2, hs3⟩ := hs
    rw [List.pairwise_cons] at hs2
    have hl2 : l2 = [] := by
      cases l2 with
      | nil => rfl
      | cons b l2 =>
        have h1 : N < b := hs2.1 b (by simp)
        have h2 : b < N + 1 := (hm b).1 (by simp)
        omega
    subst hl2
    rw [List.range_succ]
    congr 1
    apply ih l1 hs1
    intro n
    constructor
    · intro hn
      exact hs3 n hn N (by simp)
    · intro hn
      have : n ∈ l1 ++ [N] := (hm n).2 (by omega)
      rcases List.mem_append.1 this with h | h
      · exact h
      · simp at h; omega

/-! ### shape of the encode queue: no work item after a stop token -/

def NSAN : List (Option Nat) → Prop
  | [] => True
  | some _ :: q => NSAN q
  | none :: q => ∀ x ∈ q, x = none

theorem NSAN_append_some {q : List (Option Nat)} (id : Nat) (h : q.count none = 0) :
    NSAN (q ++ [some id]) := by
  induction q with
  | nil => simp [NSAN]
  | cons x q ih =>
    cases x with
    | none => simp at h
    | some y => simp only [List.cons_append, NSAN]; exact ih (by simpa using h)

theorem NSAN_append_none {q : List (Option Nat)} (h : NSAN q) : NSAN (q ++ [none]) := by
  induction q with
  | nil => simp [NSAN]
  | cons x q ih =>
    cases x with
    | none =>
      simp only [List.cons_append, NSAN] at h ⊢
      intro x hx
      rcases List.mem_append.1 hx with hx | hx
      · exact h x hx
      · simpa using hx
    | some y => simp only [List.cons_append, NSAN] at h ⊢; exact ih h

theorem NSAN_tail {x : Option Nat} {q : List (Option Nat)} (h : NSAN (x :: q)) : NSAN q := by
  cases x with
  | some y => exact h
  | none =>
    simp only [NSAN] at h
    induction q with
    | nil => trivial
    | cons y q ih =>
      have hy : y = none := h y (by simp)
      subst hy
      simp only [NSAN]
      intro x hx
      exact h x (by simp [hx])

theorem NSAN_none_head {q : List (Option Nat)} (h : NSAN (none :: q)) : ∀ x ∈ q, x = none := h

end FlacVerif.Par
