/-
GenCount — the `count_bits_exact` side of the generated writer (Gen/Writer.lean): `count_bits` of a well-formed component whose
count is small does not overflow `usize` (C08Gen proves the `count_bits` VALUES and the `write_exact` side; this file adds
what `StreamInfo::update_frame_info` needs: `Frame::count_bits` of an encoder-built frame cannot panic).
-/
import FlacVerif.Theorems.C08Gen
import FlacVerif.Model.Encode
namespace FlacVerif
namespace GenCount
open Gen.Writer

theorem foldl_add_le (k : Nat) : ∀ (l : List Nat) (a : Nat), (∀ p ∈ l, p ≤ k) → l.foldl (· + ·) a ≤ a + k * l.length := by
  intro l
  induction l with
  | nil => intro a _; simp
  | cons x xs ih =>
    intro a h
    have hx := h x (by simp)
    have := ih (a + x) (fun p hp => h p (by simp [hp]))
    simp only [List.foldl_cons, List.length_cons, Nat.mul_add, Nat.mul_one] at this ⊢
    omega

/-- **`Residual::count_bits` cannot panic** for a well-formed residual with at most 32 warm-up samples whose (model) count is
below `2^40`. -/
theorem residual_count_exact (r : Residual) (c : Nat) (hwf : r.WF) (hw : r.warmup ≤ 32) (h : r.count = some c)
    (hc : c < 2 ^ 40) : Residual.count_bits_exact r = true := by
  obtain ⟨ho, hpl, _, _, _, _, _, hp14, _, _⟩ := hwf
  have hn := C08Gen.nparts_eq r (by omega)
  have hnp : r.nparts ≤ 32768 := by
    rw [Residual.nparts]
    calc 2 ^ r.order ≤ 2 ^ 15 := Nat.pow_le_pow_right (by decide) ho
      _ = 32768 := by decide
  have hplen : r.params.length ≤ 32768 := by rw [hpl]; exact hnp
  have hppos : 0 < r.params.length := by rw [hpl]; exact Nat.two_pow_pos _
  have hsp : r.params.foldl (· + ·) 0 ≤ 458752 := by
    have := foldl_add_le 14 r.params 0 hp14
    omega
  have hplr : r.blockSize >>> r.order = r.partLen := rfl
  have hple : r.partLen ≤ r.blockSize := by rw [Residual.partLen]; exact Nat.shiftRight_le _ _
  unfold Residual.count at h
  dsimp only at h
  by_cases h1 : r.warmup > List.foldl (· + ·) 0 r.quotients + r.blockSize
  · rw [if_pos h1] at h; contradiction
  rw [if_neg h1] at h
  by_cases h2 : r.params.isEmpty = true
  · rw [if_pos h2] at h; contradiction
  rw [if_neg h2] at h
  by_cases h3 : r.warmup * r.params.getD 0 0 > List.foldl (· + ·) 0 r.params * r.partLen
  · rw [if_pos h3] at h; contradiction
  rw [if_neg h3, Option.some.injEq] at h
  have hc' : c < 1099511627776 := hc
  have hbs : r.blockSize ≤ c + 32 := by omega
  have hprod : List.foldl (· + ·) 0 r.params * r.partLen ≤ 458752 * (c + 32) :=
    Nat.mul_le_mul hsp (by omega)
  unfold Residual.count_bits_exact
  simp only [andB, hn, hplr, Bool.and_eq_true, decide_eq_true_eq]
  refine ⟨by omega, ⟨by omega, by omega⟩, ⟨by omega, by omega⟩, ⟨⟨hppos, by omega⟩, by omega⟩, ⟨⟨⟨by omega, by omega⟩, by omega⟩, by omega⟩, by omega⟩

/-- **`SubFrame::count_bits` cannot panic** for a well-formed sub-frame whose count is below `2^40`. -/
theorem subframe_count_exact (s : SubFrame) (c : Nat) (hwf : s.WF) (h : s.count = some c) (hc : c < 2 ^ 40) :
    SubFrame.count_bits_exact s = true := by
  have hc' : c < 1099511627776 := hc
  cases s with
  | constant n dc bps =>
    simp only [SubFrame.count, Option.some.injEq] at h
    simp only [SubFrame.count_bits_exact, Constant.count_bits_exact, decide_eq_true_eq]
    omega
  | verbatim xs bps =>
    simp only [SubFrame.count, Option.some.injEq] at h
    simp only [SubFrame.count_bits_exact, Verbatim.count_bits_exact, Verbatim.count_bits_from_metadata_exact, Bool.and_eq_true,
      decide_eq_true_eq]
    omega
  | fixed warm res bps =>
    obtain ⟨hw4, hwr, hrwf, _⟩ := hwf
    simp only [SubFrame.count, Option.map_eq_some_iff] at h
    obtain ⟨cr, hcr, hsum⟩ := h
    have hre := residual_count_exact res cr hrwf (by omega) hcr (by rw [show (2:Nat) ^ 40 = 1099511627776 from by decide]; omega)
    have hrv := C08Gen.C08G_residual_count res cr (by have := hrwf.1; omega) hcr
    simp only [SubFrame.count_bits_exact, FixedLpc.count_bits_exact, hre, hrv, Bool.and_eq_true, decide_eq_true_eq, and_true]
    omega
  | lpc warm coefs shift precision res bps =>
    obtain ⟨_, hc32, hwc, hwr, hrwf, _⟩ := hwf
    simp only [SubFrame.count, Option.map_eq_some_iff] at h
    obtain ⟨cr, hcr, hsum⟩ := h
    have hre := residual_count_exact res cr hrwf (by omega) hcr (by rw [show (2:Nat) ^ 40 = 1099511627776 from by decide]; omega)
    have hrv := C08Gen.C08G_residual_count res cr (by have := hrwf.1; omega) hcr
    simp only [SubFrame.count_bits_exact, Lpc.count_bits_exact, andB, hre, hrv, Bool.and_eq_true, decide_eq_true_eq, and_true]
    omega


theorem utf8like_exact (v : Nat) : utf8like_bytesize_exact v = true ∧ utf8like_bytesize v ≤ 13 := by
  unfold utf8like_bytesize_exact utf8like_bytesize Gen.Headers.leadingZeros andB
  by_cases h0 : v = 0
  · simp [h0]
  · simp only [h0, if_false]
    constructor
    · simp only [Bool.and_eq_true, decide_eq_true_eq]
      refine ⟨by omega, ?_⟩
      split
      · rfl
      · simp only [Bool.and_eq_true, decide_eq_true_eq]; omega
    · split <;> omega

/-- **`FrameHeader::count_bits` cannot panic**, and it is at most 176 bits. -/
theorem header_count_exact (h : Gen.Writer.FrameHeader) :
    Gen.Writer.FrameHeader.count_bits_exact h = true ∧ Gen.Writer.FrameHeader.count_bits h ≤ 176 := by
  have e1 : Gen.Headers.BlockSizeSpec.count_extra_bits h.block_size_spec ≤ 16 := by
    unfold Gen.Headers.BlockSizeSpec.count_extra_bits; cases h.block_size_spec <;> simp
  have e2 : Gen.Headers.SampleRateSpec.count_extra_bits h.sample_rate_spec ≤ 16 := by
    unfold Gen.Headers.SampleRateSpec.count_extra_bits; cases h.sample_rate_spec <;> simp
  obtain ⟨a1, a2⟩ := utf8like_exact h.start_sample_number
  obtain ⟨b1, b2⟩ := utf8like_exact h.frame_number
  unfold Gen.Writer.FrameHeader.count_bits_exact Gen.Writer.FrameHeader.count_bits
  cases hv : h.variable_block_size
  · simp only [Bool.false_eq_true, if_false, bindE, andE, andB, b1, Bool.true_and, Bool.and_eq_true, decide_eq_true_eq, and_true]
    omega
  · simp only [if_true, bindE, andE, andB, a1, Bool.true_and, Bool.and_eq_true, decide_eq_true_eq, and_true]
    omega

/-- on well-formed sub-frames with a count, the generated `count_bits` is the model's `cnt` -/
theorem map_count_bits (subs : List SubFrame) (hs : ∀ s ∈ subs, s.WF ∧ ∃ c, s.count = some c) :
    subs.map SubFrame.count_bits = subs.map cnt := by
  apply List.map_congr_left
  intro s hs'
  obtain ⟨hwf, c, hc⟩ := hs s hs'
  rw [C08Gen.C08G_subframe_count s c (C08Gen.subOrd_of_WF s hwf) hc]
  simp [cnt, hc]

theorem mem_le_foldl_add (l : List Nat) (x : Nat) (hx : x ∈ l) : ∀ a, x ≤ l.foldl (· + ·) a := by
  induction l with
  | nil => simp at hx
  | cons y ys ih =>
    intro a
    simp only [List.mem_cons] at hx
    simp only [List.foldl_cons]
    rcases hx with rfl | hx
    · have := C08Gen.foldl_add ys (a + x); omega
    · exact ih hx _

/-- **`Frame::count_bits` cannot panic** for a frame without precomputed bitstream whose sub-frames are well-formed, have a
(model) count, and whose counts sum up to less than `2^40`; its value is below `2^44`. -/
theorem frame_count_exact (g : Gen.Writer.Frame) (hp : g.precomputed_bitstream = none)
    (hs : ∀ s ∈ g.subframes, s.WF ∧ ∃ c, s.count = some c)
    (hsum : (g.subframes.map cnt).foldl (· + ·) 0 < 2 ^ 40) :
    Gen.Writer.Frame.count_bits_exact g = true ∧ Gen.Writer.Frame.count_bits g < 2 ^ 44 := by
  obtain ⟨hh1, hh2⟩ := header_count_exact g.header
  have h40 : (2 : Nat) ^ 40 = 1099511627776 := by decide
  have hmap := map_count_bits g.subframes hs
  have hall : g.subframes.all SubFrame.count_bits_exact = true := by
    rw [List.all_eq_true]
    intro s hs'
    obtain ⟨hwf, c, hc⟩ := hs s hs'
    refine subframe_count_exact s c hwf hc ?_
    have h1 : cnt s ∈ g.subframes.map cnt := List.mem_map_of_mem hs'
    have h2 := mem_le_foldl_add _ _ h1 0
    have : cnt s = c := by simp [cnt, hc]
    omega
  have hsh : ∀ x : Nat, (x >>> 3) <<< 3 ≤ x := by
    intro x; simp only [Nat.shiftRight_eq_div_pow, Nat.shiftLeft_eq]; exact Nat.div_mul_le_self x _
  have h44 : (2 : Nat) ^ 44 = 17592186044416 := by decide
  have hb := hsh (Gen.Writer.FrameHeader.count_bits g.header + List.foldl (· + ·) 0 (List.map cnt g.subframes) + 7)
  have hm : ((Gen.Writer.FrameHeader.count_bits g.header + List.foldl (· + ·) 0 (List.map cnt g.subframes) + 7) >>> 3) <<< 3
      % 18446744073709551616 ≤ Gen.Writer.FrameHeader.count_bits g.header + List.foldl (· + ·) 0 (List.map cnt g.subframes) + 7 :=
    Nat.le_trans (Nat.mod_le _ _) hb
  unfold Gen.Writer.Frame.count_bits_exact Gen.Writer.Frame.count_bits
  simp only [hp, andB, hh1, hall, hmap, Bool.true_and, Bool.and_eq_true, decide_eq_true_eq]
  refine ⟨⟨by omega, ⟨by omega, by omega⟩, by omega⟩, by omega⟩

/-- ... and its VALUE is the hand model's `Frame.count` (a version of `C08G_frame_count` whose `usize` bound comes from the
sub-frames instead of being assumed). -/
theorem frame_count_value (g : Gen.Writer.Frame) (c : Nat) (hp : g.precomputed_bitstream = none)
    (hf : g.header.frame_number < 2 ^ 32) (hss : g.header.start_sample_number < 2 ^ 64)
    (hs : ∀ s ∈ g.subframes, s.WF ∧ ∃ c, s.count = some c)
    (hsum : (g.subframes.map cnt).foldl (· + ·) 0 < 2 ^ 40) (h : (C08Gen.frameOfGen g).count = some c) :
    Gen.Writer.Frame.count_bits g = c := by
  refine C08Gen.C08G_frame_count g c hp hf hss (fun s hs' => C08Gen.subOrd_of_WF s (hs s hs').1) ?_ h
  obtain ⟨_, hh2⟩ := header_count_exact g.header
  rw [C08Gen.C08G_header_count g.header hf hss] at hh2
  have hmap := map_count_bits g.subframes hs
  unfold Frame.count at h
  simp only [C08Gen.frameOfGen] at h
  cases hm : g.subframes.mapM SubFrame.count with
  | none => simp [hm] at h
  | some subs =>
    simp [hm] at h
    have hsubs := C08Gen.mapM_count g.subframes subs (fun s hs' => C08Gen.subOrd_of_WF s (hs s hs').1) hm
    rw [hmap] at hsubs
    rw [← hsubs] at h
    have h40 : (2 : Nat) ^ 40 = 1099511627776 := by decide
    have := Nat.div_mul_le_self ((C08Gen.hdrOfGen g.header).count + List.foldl (· + ·) 0 (List.map cnt g.subframes) + 7) 8
    omega

end GenCount
end FlacVerif
