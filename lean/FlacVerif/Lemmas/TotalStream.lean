/-
Totality of the functional encoder (C07, second half), part 4: the frame loop and
`encode_with_fixed_block_size` (`encodeStream`), and the link to the generated configuration model.
-/
import FlacVerif.Lemmas.TotalFrame
import FlacVerif.Lemmas.WrapParse
import FlacVerif.Lemmas.StrictBlocks
import FlacVerif.Lemmas.Config
namespace FlacVerif
namespace Total
open Strict

/-- The log supplies, frame after frame, what the frame loop asks for. -/
def FramesLogOk (cfg : SubCfg) : List (List (List Int)) → List OEvent → Prop
  | [], _ => True
  | b :: bs, log => FrameLogOk cfg b log ∧ FramesLogOk cfg bs (log.drop (frameTake cfg b))

/-- Number of oracle events the frame loop consumes. -/
def framesTake (cfg : SubCfg) : List (List (List Int)) → Nat
  | [] => 0
  | b :: bs => frameTake cfg b + framesTake cfg bs

theorem ok_le32 (log : List OEvent) (hok : ∀ e ∈ log, e.Ok) :
    ∀ c sh p, OEvent.qlpc c sh p ∈ log → c.length ≤ 32 := by
  intro c sh p hm
  exact Nat.le_trans (hok _ hm).2.1 (by decide)

theorem encodeFrames_total (cfg : SubCfg) (st : StereoCfg) (bps rate nch bsz : Nat)
    (hnch : 1 ≤ nch ∧ nch ≤ 8) (hbs : bsz < 2 ^ 16) (hb : 1 ≤ bps ∧ bps ≤ 24) (hmax : cfg.maxP ≤ 14) :
    ∀ (blocks : List (List (List Int))) (number : Nat) (log : List OEvent),
      (∀ b ∈ blocks, BlockOk nch bps bsz b) → number + blocks.length ≤ 2 ^ 32 →
      (∀ e ∈ log, e.Ok) → FramesLogOk cfg blocks log →
      ∃ frames, encodeFrames cfg st bps rate blocks number log = some (frames, log.drop (framesTake cfg blocks)) ∧
        ∃ counts, frames.mapM Frame.count = some counts := by
  intro blocks
  induction blocks with
  | nil => intro number log _ _ _ _; exact ⟨[], rfl, [], rfl⟩
  | cons b bs ih =>
    intro number log hbk hnum hok hshape
    obtain ⟨hs1, hs2⟩ := hshape
    have hb0 := hbk b (by simp)
    simp only [List.length_cons] at hnum
    obtain ⟨f, hf⟩ := encodeFrame_total cfg st b bps rate number (b.headD []).length log
      (by rw [hb0.nch]; exact hnch.1) hb0.len ⟨hb0.pos, Nat.lt_of_le_of_lt hb0.le hbs⟩ hb hb0.range hok hs1
    obtain ⟨_, fb, _, hcount⟩ := Wrap.frame_good cfg st b bps rate number (b.headD []).length log _ f
      (by rw [hb0.nch]; exact hnch) hb0.len ⟨hb0.pos, Nat.lt_of_le_of_lt hb0.le hbs⟩ hb hb0.range (by omega) hmax hok 32
      (ok_le32 log hok) hf ⟨0, 0, 0, 0, 0, b.length, bps, 0, []⟩ ⟨rfl, rfl⟩
    obtain ⟨fs, hfs, counts, hc⟩ := ih (number + 1) (log.drop (frameTake cfg b)) (fun x hx => hbk x (by simp [hx]))
      (by omega) (fun e he => hok e (List.mem_of_mem_drop he)) hs2
    refine ⟨f :: fs, ?_, fb.length :: counts, by simp [List.mapM_cons, hcount, hc]⟩
    simp only [encodeFrames, hf, hfs, Option.bind_eq_bind, Option.bind_some, List.drop_drop, framesTake]

/-- Stream totality (see `C07_stream_total`). -/
theorem encodeStream_total (md5 : List Nat → List Nat) (cfg : SubCfg) (st : StereoCfg) (bs : Nat)
    (chans : List (List Int)) (bps rate : Nat) (log : List OEvent) (total : Nat)
    (hch : 1 ≤ chans.length ∧ chans.length ≤ 8) (hlen : ∀ c ∈ chans, c.length = total)
    (hbs : 1 ≤ bs ∧ bs < 2 ^ 16) (hb : 1 ≤ bps ∧ bps ≤ 24)
    (hx : ∀ c ∈ chans, ∀ x ∈ c, SubFrame.inRange bps x = true) (hmax : cfg.maxP ≤ 14)
    (hnb : (total + bs - 1) / bs ≤ 2 ^ 32)
    (hok : ∀ e ∈ log, e.Ok) (hshape : FramesLogOk cfg (blocksOf bs chans) log) :
    ∃ s, encodeStream md5 cfg st bs chans bps rate log = some (s, log.drop (framesTake cfg (blocksOf bs chans))) := by
  obtain ⟨frames, hf, counts, hc⟩ := encodeFrames_total cfg st bps rate chans.length bs hch hbs.2 hb hmax
    (blocksOf bs chans) 0 log (blocksOf_ok bs chans total chans.length bps hbs.1 hch.1 rfl hlen hx)
    (by rw [blocksOf_length bs chans total hch.1 hlen]; omega) hok hshape
  unfold encodeStream
  simp only [hf, hc, Option.bind_eq_bind, Option.bind_some]
  exact ⟨_, rfl⟩


/-! ### cases in which the log hypothesis is vacuous -/

/-- No oracle is consulted at all: LPC disabled and the fixed stage either disabled or selecting by exact
bit count. -/
theorem subLogOk_noOracle (cfg : SubCfg) (hl : cfg.useLpc = false) (hf : cfg.bitCount = true ∨ cfg.useFixed = false)
    (xs : List Int) (log : List OEvent) : SubLogOk cfg xs log ∧ subTake cfg xs = 0 := by
  have he : estTake cfg = 0 := by
    unfold estTake
    rcases hf with h | h <;> simp [h]
  refine ⟨Or.inr (Or.inr ⟨by omega, by simp [he], by simp [hl]⟩), ?_⟩
  unfold subTake
  simp [he, hl]

theorem chansLogOk_noOracle (cfg : SubCfg) (hl : cfg.useLpc = false) (hf : cfg.bitCount = true ∨ cfg.useFixed = false) :
    ∀ (chans : List (List Int)) (log : List OEvent), ChansLogOk cfg chans log ∧ chansTake cfg chans = 0 := by
  intro chans
  induction chans with
  | nil => intro log; exact ⟨trivial, rfl⟩
  | cons c cs ih =>
    intro log
    obtain ⟨h1, h2⟩ := subLogOk_noOracle cfg hl hf c log
    obtain ⟨h3, h4⟩ := ih (log.drop (subTake cfg c))
    exact ⟨⟨h1, h3⟩, by simp [chansTake, h2, h4]⟩

theorem framesLogOk_noOracle (cfg : SubCfg) (hl : cfg.useLpc = false) (hf : cfg.bitCount = true ∨ cfg.useFixed = false) :
    ∀ (blocks : List (List (List Int))) (log : List OEvent), FramesLogOk cfg blocks log ∧ framesTake cfg blocks = 0 := by
  intro blocks
  induction blocks with
  | nil => intro log; exact ⟨trivial, rfl⟩
  | cons b bs ih =>
    intro log
    obtain ⟨h1, h2⟩ := chansLogOk_noOracle cfg hl hf b log
    obtain ⟨h3, h4⟩ := chansLogOk_noOracle cfg hl hf (msOf b) (log.drop (chansTake cfg b))
    obtain ⟨h5, h6⟩ := ih (log.drop (frameTake cfg b))
    exact ⟨⟨⟨h1, h3⟩, h5⟩, by simp [framesTake, frameTake, h2, h4, h6]⟩

/-- Blocks shorter than `MIN_BLOCK_SIZE_FOR_PREDICTION = 64`: only constant / verbatim sub-frames. -/
theorem chansLogOk_short (cfg : SubCfg) :
    ∀ (chans : List (List Int)) (log : List OEvent), (∀ c ∈ chans, c.length < 64) →
      ChansLogOk cfg chans log ∧ chansTake cfg chans = 0 := by
  intro chans
  induction chans with
  | nil => intro log _; exact ⟨trivial, rfl⟩
  | cons c cs ih =>
    intro log h
    have hc : c.length < minBlockForPrediction := h c (by simp)
    have ht : subTake cfg c = 0 := by
      unfold subTake
      simp [hc]
    obtain ⟨h3, h4⟩ := ih (log.drop (subTake cfg c)) (fun x hx => h x (by simp [hx]))
    exact ⟨⟨Or.inr (Or.inl hc), h3⟩, by simp [chansTake, ht, h4]⟩

theorem msOf_short (chans : List (List Int)) (h : ∀ c ∈ chans, c.length < 64) : ∀ c ∈ msOf chans, c.length < 64 := by
  match chans, h with
  | [l, r], h =>
    intro c hc
    have hl := h l (by simp)
    simp only [msOf, List.mem_cons, List.not_mem_nil, or_false] at hc
    rcases hc with rfl | rfl <;> simp only [List.length_map, List.length_zipWith] <;> omega
  | [], _ => intro c hc; simp [msOf] at hc
  | [_], _ => intro c hc; simp [msOf] at hc
  | _ :: _ :: _ :: _, _ => intro c hc; simp [msOf] at hc

theorem framesLogOk_short (cfg : SubCfg) :
    ∀ (blocks : List (List (List Int))) (log : List OEvent), (∀ b ∈ blocks, ∀ c ∈ b, c.length < 64) →
      FramesLogOk cfg blocks log ∧ framesTake cfg blocks = 0 := by
  intro blocks
  induction blocks with
  | nil => intro log _; exact ⟨trivial, rfl⟩
  | cons b bs ih =>
    intro log h
    obtain ⟨h1, h2⟩ := chansLogOk_short cfg b log (h b (by simp))
    obtain ⟨h3, h4⟩ := chansLogOk_short cfg (msOf b) (log.drop (chansTake cfg b)) (msOf_short b (h b (by simp)))
    obtain ⟨h5, h6⟩ := ih (log.drop (frameTake cfg b)) (fun x hx => h x (by simp [hx]))
    exact ⟨⟨⟨h1, h3⟩, h5⟩, by simp [framesTake, frameTake, h2, h4, h6]⟩

theorem blocksOf_short (bs : Nat) (chans : List (List Int)) (hbs : bs < 64) :
    ∀ b ∈ blocksOf bs chans, ∀ c ∈ b, c.length < 64 := by
  intro b hb c hc
  unfold blocksOf at hb
  simp only [List.mem_map, List.mem_range] at hb
  obtain ⟨j, _, rfl⟩ := hb
  simp only [List.mem_map] at hc
  obtain ⟨c0, _, rfl⟩ := hc
  rw [List.length_take]
  omega

/-! ### the configuration -/

/-- The integer-relevant part of `config::SubFrameCoding`, from the generated configuration model. -/
def subCfgOf (c : Gen.SubFrameCoding) : SubCfg :=
  { useConstant := c.use_constant, useFixed := c.use_fixed, useLpc := c.use_lpc,
    fixedMaxOrder := c.fixed.max_order,
    bitCount := (match c.fixed.order_sel with | .BitCount => true | .ApproxEnt _ => false),
    maxP := c.prc.max_parameter }

def stereoCfgOf (c : Gen.StereoCoding) : StereoCfg :=
  { useLeftSide := c.use_leftside, useRightSide := c.use_rightside, useMidSide := c.use_midside }

/-- What the encoder's integer pipeline needs from an accepted configuration. -/
theorem verify_facts (exp : Bool) (c : Gen.Encoder) (h : Gen.Encoder.verify exp c = true) :
    (subCfgOf c.subframe_coding).maxP ≤ 14 ∧ (subCfgOf c.subframe_coding).fixedMaxOrder ≤ 4 ∧
    32 ≤ c.block_size ∧ c.block_size ≤ 32767 ∧ c.subframe_coding.qlpc.lpc_order ≤ 24 ∧
    1 ≤ c.subframe_coding.qlpc.quant_precision ∧ c.subframe_coding.qlpc.quant_precision ≤ 15 := by
  rw [ConfigL.encoder_verify_iff, ConfigL.subframe_verify_iff, ConfigL.fixed_verify_iff, ConfigL.qlpc_verify_iff,
    ConfigL.prc_verify_iff] at h
  obtain ⟨h1, h2, ⟨h3, _⟩, ⟨_, h6, h7, h8, _⟩, h11⟩ := h
  exact ⟨h11, h3, h1, h2, h6, h7, h8⟩

end Total
end FlacVerif
