/-
Value-level inverse lemmas: sign folding, linear prediction, fixed predictors, stereo.
-/
import FlacVerif.Model.Rice
import FlacVerif.Model.Predict
namespace FlacVerif

theorem unfold_fold (v : Int) : unfold (fold v) = v := by
  unfold unfold fold
  by_cases h : v < 0
  · simp only [h, ↓reduceIte]
    have h1 : (2 * (-v).toNat - 1) % 2 = 1 := by omega
    simp only [h1, ↓reduceIte]
    omega
  · simp only [h, ↓reduceIte]
    have h1 : ¬ ((2 * v.toNat) % 2 = 1) := by omega
    simp only [h1, ↓reduceIte]
    omega

theorem fold_unfold (u : Nat) : fold (unfold u) = u := by
  unfold unfold fold
  by_cases h : u % 2 = 1
  · simp only [h, ↓reduceIte]
    have : (-(((u / 2 + 1 : Nat)) : Int)) < 0 := by omega
    simp only [this, ↓reduceIte]
    omega
  · simp only [h, ↓reduceIte]
    have : ¬ (((u / 2 : Nat) : Int) < 0) := by omega
    simp only [this, ↓reduceIte]
    omega

/-- The `u32` computation of `encode_signbit` is the mathematical folding, for every `i32` value
except `i32::MIN` (where the Rust code overflows). -/
theorem encodeSignbit_eq_fold (v : Int) (h1 : -(2 ^ 31 : Int) < v) (h2 : v < (2 ^ 31 : Int)) :
    encodeSignbit v = some (fold v) := by
  unfold encodeSignbit fold u32
  have hn : 2 * v.natAbs < 2 ^ 32 := by omega
  simp only [Nat.mod_eq_of_lt hn]
  by_cases h : v < 0
  · simp only [h, ↓reduceIte]
    have : 1 ≤ 2 * v.natAbs := by omega
    simp only [this, ↓reduceIte]
    congr 1; omega
  · simp only [h, ↓reduceIte, Nat.zero_le, Nat.sub_zero]
    congr 1; omega

theorem encodeSignbit_min : encodeSignbit (-(2 ^ 31 : Int)) = none := by decide

theorem fold_lt (v : Int) (h1 : -(2 ^ 31 : Int) < v) (h2 : v < (2 ^ 31 : Int)) : fold v < 2 ^ 32 := by
  unfold fold; split <;> omega

/-! ### linear prediction -/

theorem restoreFrom_residualFrom (coefs : List Int) (shift : Nat) (hist xs : List Int) :
    restoreFrom coefs shift hist (residualFrom coefs shift hist xs) = xs := by
  induction xs generalizing hist with
  | nil => rfl
  | cons x xs ih =>
    simp only [residualFrom, restoreFrom]
    have : x - predict coefs shift hist + predict coefs shift hist = x := by omega
    rw [this, ih]

theorem residualFrom_restoreFrom (coefs : List Int) (shift : Nat) (hist rs : List Int) :
    residualFrom coefs shift hist (restoreFrom coefs shift hist rs) = rs := by
  induction rs generalizing hist with
  | nil => rfl
  | cons r rs ih =>
    simp only [residualFrom, restoreFrom]
    have : r + predict coefs shift hist - predict coefs shift hist = r := by omega
    rw [this, ih]

/-- A decoder reconstructs the block exactly from its warm-up and exact residual, for **any**
coefficients and shift (the float estimator's output is irrelevant to losslessness). -/
theorem lpcRestore_lpcResidual (coefs : List Int) (shift : Nat) (xs : List Int) :
    lpcRestore coefs shift (xs.take coefs.length) (lpcResidual coefs shift xs) = xs := by
  unfold lpcRestore lpcResidual
  rw [restoreFrom_residualFrom, List.take_append_drop]

theorem fixedRestore_fixedResidual (k : Nat) (xs : List Int) (hk : k ≤ 4) :
    fixedRestore k (xs.take k) (fixedResidual k xs) = xs := by
  have hl : (fixedCoefs k).length = k := by
    rcases k with _ | _ | _ | _ | _ | k <;> simp [fixedCoefs] <;> omega
  have := lpcRestore_lpcResidual (fixedCoefs k) 0 xs
  rw [hl] at this
  exact this

theorem residualFrom_length (coefs : List Int) (shift : Nat) (h ys : List Int) :
    (residualFrom coefs shift h ys).length = ys.length := by
  induction ys generalizing h with
  | nil => rfl
  | cons y ys ih => simp [residualFrom, ih]

theorem lpcResidual_length (coefs : List Int) (shift : Nat) (xs : List Int) :
    (lpcResidual coefs shift xs).length = xs.length - coefs.length := by
  unfold lpcResidual
  rw [residualFrom_length, List.length_drop]

/-! ### stereo -/

theorem unMidSide_midSide (l r : Int) : unMidSide (midSide l r).1 (midSide l r).2 = (l, r) := by
  simp only [midSide, unMidSide, Int.shiftRight_eq_div_pow, Nat.pow_one, Int.pow_succ, Int.pow_zero, Int.one_mul]
  have h1 : ((2 : Nat) : Int) = 2 := rfl
  ext <;> simp only [] <;> omega

theorem unLeftSide_spec (l r : Int) : unLeftSide l (l - r) = (l, r) := by
  simp only [unLeftSide]; congr 1; omega

theorem unRightSide_spec (l r : Int) : unRightSide (l - r) r = (l, r) := by
  simp only [unRightSide]; congr 1; omega

end FlacVerif
