/-
Wrapping decoder (C01, release build), part 3: the prediction loop of `decode_lpc` in the release build
(`Repo.lpcLoop false`: `i64` prediction sum, `(pred >> shift) as i32`, wrapping `i32` addition) inverts
the encoder's 32-bit residual `wrap32 (x - prediction)` for EVERY bounded coefficient set — no
hypothesis that the exact residual fits 32 bits.
-/
import FlacVerif.Lemmas.WrapResidual
namespace FlacVerif
namespace Wrap
open Repo

theorem mul_bound (c h : Int) (hc : -(2 ^ 15 : Int) ≤ c ∧ c ≤ 2 ^ 15) (hh : -(2 ^ 31 : Int) ≤ h ∧ h < 2 ^ 31) :
    -(2 ^ 46 : Int) ≤ c * h ∧ c * h ≤ 2 ^ 46 := by
  have h1 : (c * h).natAbs = c.natAbs * h.natAbs := Int.natAbs_mul c h
  have h2 : c.natAbs ≤ 2 ^ 15 := by omega
  have h3 : h.natAbs ≤ 2 ^ 31 := by omega
  have h4 : c.natAbs * h.natAbs ≤ 2 ^ 15 * 2 ^ 31 := Nat.mul_le_mul h2 h3
  have h5 : (2 : Nat) ^ 15 * 2 ^ 31 = 2 ^ 46 := by decide
  omega

/-- The `i64` prediction sum of `decode_lpc` never overflows for at most `2^15` coefficients of at most
16 bits and `i32` history: both build modes return the exact sum. -/
theorem predict_ok (debug : Bool) : ∀ (coefs hist : List Int) (acc : Int),
    coefs.length ≤ hist.length →
    (∀ c ∈ coefs, -(2 ^ 15 : Int) ≤ c ∧ c ≤ 2 ^ 15) →
    (∀ h ∈ hist, -(2 ^ 31 : Int) ≤ h ∧ h < 2 ^ 31) →
    -(2 ^ 62 : Int) ≤ acc - coefs.length * 2 ^ 46 → acc + coefs.length * 2 ^ 46 ≤ 2 ^ 62 →
    Repo.predict debug coefs hist acc = .ok ((List.zipWith (· * ·) coefs hist).foldl (· + ·) acc) := by
  intro coefs
  induction coefs with
  | nil => intro hist acc _ _ _ _ _; rfl
  | cons w ws ih =>
    intro hist acc hl hc hh h1 h2
    match hist, hl with
    | h :: hs, hl =>
      have hb := mul_bound w h (hc w (by simp)) (hh h (by simp))
      simp only [List.length_cons, Int.natCast_add, Int.natCast_one] at h1 h2
      unfold Repo.predict
      simp only []
      have hin : ((decide (-(2 ^ 63 : Int) ≤ w * h) && decide (w * h < (2 ^ 63 : Int))) &&
          (decide (-(2 ^ 63 : Int) ≤ acc + w * h) && decide (acc + w * h < (2 ^ 63 : Int)))) = true := by
        simp only [Bool.and_eq_true, decide_eq_true_eq]
        omega
      rw [if_pos hin]
      rw [ih hs (acc + w * h) (by simpa using hl) (fun c hc' => hc c (by simp [hc']))
        (fun x hx => hh x (by simp [hx])) (by omega) (by omega)]
      rfl

/-- The release-build prediction loop on the 32-bit reductions of the exact residual. -/
theorem lpcLoop_wrap (coefs : List Int) (shift : Nat) (hlen : coefs.length ≤ 32)
    (hc : ∀ c ∈ coefs, -(2 ^ 15 : Int) ≤ c ∧ c ≤ 2 ^ 15) :
    ∀ (xs hist : List Int), coefs.length ≤ hist.length →
    (∀ h ∈ hist, -(2 ^ 31 : Int) ≤ h ∧ h < 2 ^ 31) → (∀ x ∈ xs, -(2 ^ 31 : Int) ≤ x ∧ x < 2 ^ 31) →
    lpcLoop false coefs shift ((residualFrom coefs shift hist xs).map wrap32) hist = .ok (hist.reverse ++ xs) := by
  intro xs
  induction xs with
  | nil => intro hist _ _ _; simp [residualFrom, lpcLoop]
  | cons x xs ih =>
    intro hist hl hh hx
    have hxr := hx x (by simp)
    rw [residualFrom, List.map_cons, lpcLoop]
    rw [predict_ok false coefs hist 0 hl hc hh (by omega) (by omega)]
    simp only [DResult.ok_bind]
    have hP : ((List.zipWith (· * ·) coefs hist).foldl (· + ·) 0) / (2 ^ shift : Int) = FlacVerif.predict coefs shift hist := by
      unfold FlacVerif.predict
      rw [Int.shiftRight_eq_div_pow, Int.natCast_pow]
      rfl
    rw [hP, asSigned32_eq_wrap32, i32op_false]
    simp only [DResult.ok_bind]
    rw [wrap32_recon x _ hxr.1 hxr.2]
    rw [ih (x :: hist) (by simp; omega) (fun h hm => by
      simp only [List.mem_cons] at hm
      rcases hm with rfl | hm
      · exact hxr
      · exact hh h hm) (fun y hy => hx y (by simp [hy]))]
    simp

/-- `decode_lpc` (release build) on the encoder's residual component: for 32-bit errors that are the
32-bit reductions of the exact residual, the block is reconstructed exactly. -/
theorem decodeLpc_wrap (xs errors coefs : List Int) (shift : Nat) (o : Nat) (ps : List Nat)
    (hsh : shift < 64) (hlen : coefs.length ≤ 32) (hc : ∀ c ∈ coefs, -(2 ^ 15 : Int) ≤ c ∧ c ≤ 2 ^ 15)
    (hx : ∀ x ∈ xs, -(2 ^ 31 : Int) ≤ x ∧ x < 2 ^ 31)
    (hel : errors.length = xs.length) (hpos : 0 < xs.length)
    (hed : errors.drop coefs.length = (lpcResidual coefs shift xs).map wrap32)
    (ho : o ≤ 15) (hps : ps.length = 2 ^ o) (hdvd : 2 ^ o ∣ errors.length)
    (hw : coefs.length ≤ errors.length >>> o) (hp : ∀ p ∈ ps, p ≤ 14)
    (herr : ∀ e ∈ errors, -(2 ^ 31 : Int) < e ∧ e < (2 ^ 31 : Int)) :
    decodeLpc false (xs.take coefs.length) coefs (shift : Int) (Residual.ofErrors errors coefs.length o ps) = .ok xs := by
  have hwn : coefs.length ≤ xs.length := by
    have : errors.length >>> o ≤ errors.length := by
      rw [Nat.shiftRight_eq_div_pow]; exact Nat.div_le_self _ _
    omega
  unfold decodeLpc
  rw [residualSignal_ofErrors false errors coefs.length o ps (by omega) ho hps hdvd hp herr]
  simp only [DResult.ok_bind, List.length_take, List.length_map, List.length_range]
  rw [if_neg (by omega)]
  have hs : (0 ≤ (shift : Int) ∧ (shift : Int) < 64) := by omega
  rw [if_pos hs]
  simp only [DResult.ok_bind, Int.toNat_natCast, Nat.min_eq_left hwn]
  rw [Strict.map_ite_drop, Strict.map_getD_range' errors coefs.length _ (by omega), hed]
  unfold lpcResidual
  simp only []
  rw [lpcLoop_wrap coefs shift hlen hc _ _ (by simp; omega)
    (fun h hm => hx h (List.mem_of_mem_take (List.mem_reverse.1 hm)))
    (fun y hy => hx y (List.mem_of_mem_drop hy))]
  rw [List.reverse_reverse, List.take_append_drop]

/-! ### `compute_error`, without any fit hypothesis -/

/-- Whenever `compute_error` returns (the checked `i32` path panics on overflow), whatever its flag, its
buffer has one entry per sample, every entry is an `i32`, and the entries after the warm-up are the
32-bit reductions of the exact LPC residual — on BOTH paths, with no hypothesis on the parameters. -/
theorem computeError_wrap (coefs : List Int) (shift : Nat) (xs errors : List Int) {fits : Bool}
    (h : computeError coefs shift xs = some (errors, fits)) :
    errors.length = xs.length ∧ (∀ e ∈ errors, fitsI32 e = true) ∧
    errors.drop coefs.length = (lpcResidual coefs shift xs).map wrap32 := by
  obtain ⟨hl, hf⟩ := Strict.computeError_fits coefs shift xs errors h
  refine ⟨hl, hf, ?_⟩
  unfold computeError at h
  simp only [] at h
  split at h
  · simp only [Option.map_eq_some_iff, Prod.mk.injEq] at h
    obtain ⟨es, h, rfl, _⟩ := h
    obtain ⟨e1, e2⟩ := Strict.computeError32_spec coefs shift xs es h
    have e3 : es.drop coefs.length = (List.range' coefs.length (xs.length - coefs.length)).map (Strict.errE coefs shift xs) := by
      rw [e1, Strict.map_ite_drop]
    rw [Strict.lpcResidual_eq, List.map_map, e3]
    apply List.map_congr_left
    intro t ht
    have hmem : Strict.errE coefs shift xs t ∈ es.drop coefs.length := by
      rw [e3]; exact List.mem_map.2 ⟨t, ht, rfl⟩
    have := (Strict.fitsI32_iff _).1 (e2 _ (List.mem_of_mem_drop hmem))
    exact (wrap32_id _ this.1 this.2).symm
  · simp only [Option.some.injEq, Prod.mk.injEq] at h
    obtain ⟨rfl, _⟩ := h
    rw [Strict.computeError64_eq, Strict.map_ite_drop, Strict.lpcResidual_eq, List.map_map]
    rfl

end Wrap
end FlacVerif
