/-
Strict round trip (C01/C02), part 24: STREAMINFO — the eight fields and the MD5 signature are read
back, the block-level checks pass, and no further metadata block is expected.
-/
import FlacVerif.Lemmas.StrictStreamTail
namespace FlacVerif
namespace Strict
open Rfc
open Repo (bytesToBits_cons)

theorem drop_bytesToBits (bs : List Nat) (i : Nat) : (bytesToBits bs).drop (8 * i) = bytesToBits (bs.drop i) := by
  induction i generalizing bs with
  | zero => rfl
  | succ i ih =>
    cases bs with
    | nil => simp [bytesToBits]
    | cons b bs =>
      rw [bytesToBits_cons, List.drop_succ_cons, ← ih bs, show 8 * (i + 1) = 8 + 8 * i by omega, ← List.drop_drop,
        drop_append_len _ _ 8 (natToBits_length 8 b)]

/-- The 16 signature bytes as `analyze` extracts them. -/
theorem md5_read (md5b : List Nat) (hl : md5b.length = 16) (hb : ∀ b ∈ md5b, b < 256) :
    ((List.range 16).map fun i => bitsToNat (((bytesToBits md5b).drop (8 * i)).take 8)) = md5b := by
  apply List.ext_getElem
  · simp [hl]
  · intro i h1 h2
    simp only [List.length_map, List.length_range] at h1
    rw [List.getElem_map, List.getElem_range, drop_bytesToBits, List.drop_eq_getElem_cons h2, bytesToBits_cons,
      take_append_len _ _ 8 (natToBits_length 8 _), bitsToNat_natToBits,
      Nat.mod_eq_of_lt (hb _ (List.getElem_mem h2))]

theorem skipMetadata_last (fuel : Nat) (rest : List Nat) (n : Nat) :
    skipMetadata fuel rest true n = .ok (rest, true, n) := by
  cases fuel <;> rfl

/-- `analyze` from the STREAMINFO fields to the end, when STREAMINFO is the only metadata block. -/
theorem analyzeInfo_ok (md5 : List Nat → List Nat) (bytes rest : List Nat) (h0 : Nat)
    (minBlock maxBlock mn mx rate ch1 bps1 total : Nat) (md5b : List Nat) (frames : List FrameRep)
    (b1 : minBlock < 2 ^ 16) (b2 : maxBlock < 2 ^ 16) (b3 : mn < 2 ^ 24) (b4 : mx < 2 ^ 24) (b5 : rate < 2 ^ 20)
    (b6 : ch1 < 2 ^ 3) (b7 : bps1 < 2 ^ 5) (b8 : total < 2 ^ 36)
    (c1 : 16 ≤ minBlock) (c2 : minBlock ≤ maxBlock) (c3 : rate ≠ 0) (c4 : 4 ≤ bps1 + 1)
    (c5 : ¬ (mx ≠ 0 ∧ mn > mx)) (hlast : decide (h0 ≥ 128) = true)
    (hl : md5b.length = 16) (hb : ∀ b ∈ md5b, b < 256)
    (hframes : readFrames ⟨minBlock, maxBlock, mn, mx, rate, ch1 + 1, bps1 + 1, total, md5b⟩ bytes.length
      (rest.drop 38) (bytesToBits (rest.drop 38)) 0 [] = .ok frames) :
    analyzeInfo md5 bytes rest h0
        (natToBits 16 minBlock ++ (natToBits 16 maxBlock ++ (natToBits 24 mn ++ (natToBits 24 mx ++
          (natToBits 20 rate ++ (natToBits 3 ch1 ++ (natToBits 5 bps1 ++ (natToBits 36 total ++
            bytesToBits md5b)))))))) =
      analyzeTail md5 ⟨minBlock, maxBlock, mn, mx, rate, ch1 + 1, bps1 + 1, total, md5b⟩ minBlock maxBlock mn mx
        total md5b 0 frames := by
  unfold analyzeInfo
  rw [readNat_natToBits_lt 16 _ _ _ b1]
  simp only [ok_bind]
  rw [readNat_natToBits_lt 16 _ _ _ b2]
  simp only [ok_bind]
  rw [readNat_natToBits_lt 24 _ _ _ b3]
  simp only [ok_bind]
  rw [readNat_natToBits_lt 24 _ _ _ b4]
  simp only [ok_bind]
  rw [readNat_natToBits_lt 20 _ _ _ b5]
  simp only [ok_bind]
  rw [readNat_natToBits_lt 3 _ _ _ b6]
  simp only [ok_bind]
  rw [readNat_natToBits_lt 5 _ _ _ b7]
  simp only [ok_bind]
  have h36 := readNat_natToBits_lt 36 total (bytesToBits md5b) "total samples" b8
  rw [show bytesToBits md5b = bytesToBits md5b ++ [] by simp] at h36 ⊢
  rw [h36]
  simp only [ok_bind, List.append_nil]
  rw [md5_read md5b hl hb]
  rw [if_neg (by omega : ¬ minBlock < 16), if_neg (by omega : ¬ maxBlock < 16), if_neg (by omega : ¬ minBlock > maxBlock),
    if_neg c3, if_neg (by show ¬ bps1 + 1 < 4; omega), if_neg c5, hlast, skipMetadata_last]
  simp only [ok_bind, Bool.not_true, Bool.false_eq_true, if_false]
  rw [hframes]
  simp only [ok_bind]

end Strict
end FlacVerif
