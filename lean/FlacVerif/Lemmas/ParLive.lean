/-
Deadlock freedom: in every state satisfying the invariants that is not final, some thread has an
enabled step. Moreover a `join` of a worker is only ever needed when all workers have exited (so the
statement also holds when `join` waits for one particular worker).
-/
import FlacVerif.Lemmas.ParInvNum
import FlacVerif.Lemmas.ParInvMd5
namespace FlacVerif.Par

theorem exists_getElem?_of_mem {α : Type} {l : List α} {a : α} (h : a ∈ l) :
    ∃ i : Nat, l[i]? = some a := by
  obtain ⟨i, hi, rfl⟩ := List.mem_iff_getElem.1 h
  exact ⟨i, List.getElem?_eq_getElem hi⟩

theorem exists_ne_of_count_lt {α : Type} [DecidableEq α] {l : List α} {a : α}
    (h : l.count a < l.length) : ∃ x ∈ l, x ≠ a := by
  induction l with
  | nil => simp at h
  | cons y l ih =>
    by_cases hy : y = a
    · subst hy
      simp only [List.count_cons_self, List.length_cons] at h
      obtain ⟨x, hx, hne⟩ := ih (by omega)
      exact ⟨x, by simp [hx], hne⟩
    · exact ⟨y, by simp, hy⟩

theorem length_eq_somes_add_nones (q : List (Option Nat)) :
    q.length = (somes q).length + q.count none := by
  induction q with
  | nil => rfl
  | cons x q ih => cases x <;> simp [ih] <;> omega

theorem lockedBuf_hand {m : MPc} {id : Nat} (h : m.lockedBuf = some id) : id ∈ m.hand := by
  cases m <;> simp_all [MPc.lockedBuf, MPc.hand]

theorem exists_hand_of_flatMap_pos {l : List WPc} (h : 0 < (l.flatMap WPc.hand).length) :
    ∃ pc ∈ l, pc.hand ≠ [] := by
  obtain ⟨x, hx⟩ := List.exists_mem_of_length_pos h
  obtain ⟨pc, hpc, hx'⟩ := List.mem_flatMap.1 hx
  exact ⟨pc, hpc, by intro h0; rw [h0] at hx'; cases hx'⟩

variable {p : Params} {s : State}

/-- a worker that is neither idle nor exited can always take its next step -/
theorem worker_progress (hT : InvTok p s) (hN : InvNum p s) {pc : WPc} (hpc : pc ∈ s.workers)
    (hni : pc ≠ .idle) (hne : pc ≠ .exited) :
    ∃ e s', Step p s e s' ∧ e ≠ .m_joined_worker := by
  obtain ⟨w, hw⟩ := exists_getElem?_of_mem hpc
  cases pc with
  | idle => exact absurd rfl hni
  | exited => exact absurd rfl hne
  | got id =>
    have hwo := hN.workers _ hpc
    simp only [WOk, Holds] at hwo
    obtain ⟨n, x, hx1, hx2, _, _⟩ := hwo
    have hl : s.main.lockedBuf ≠ some id := by
      intro hl
      exact (hT.excl_main (lockedBuf_hand hl)).2.2.1 _ hpc (by simp [WPc.hand])
    exact ⟨_, _, Step.w_lock w id n x hw hx1 hx2 hl, by simp⟩
  | encoded id n res =>
    have hlen := hT.lengths
    have : 0 < (s.workers.flatMap WPc.hand).length :=
      List.length_pos_of_mem (a := id) (List.mem_flatMap.2 ⟨_, hpc, by simp [WPc.hand]⟩)
    exact ⟨_, _, Step.refill_send w id n res hw (by simp only [Params.refillCap]; omega), by simp⟩
  | sent id n res =>
    cases res with
    | some f => exact ⟨_, _, Step.w_push w id n f hw, by simp⟩
    | none => exact ⟨_, _, Step.w_err w id n hw, by simp⟩

/-- work or a stop token is queued and some worker has not exited: a worker step is enabled -/
theorem queue_progress (hC : InvC p s) (hT : InvTok p s) (hN : InvNum p s)
    (hq : s.encodeQ ≠ []) (hex : s.exitedCount < p.W) :
    ∃ e s', Step p s e s' ∧ e ≠ .m_joined_worker := by
  obtain ⟨pc, hpc, hne⟩ := exists_ne_of_count_lt (l := s.workers) (a := .exited)
    (by rw [hC.wlen]; exact hex)
  by_cases hi : pc = .idle
  · subst hi
    obtain ⟨w, hw⟩ := exists_getElem?_of_mem hpc
    cases hq' : s.encodeQ with
    | nil => exact absurd hq' hq
    | cons x rest =>
      cases x with
      | some id => exact ⟨_, _, Step.enc_recv_some w id rest hw hq', by simp⟩
      | none => exact ⟨_, _, Step.enc_recv_none w rest hw hq', by simp⟩
  · exact worker_progress hT hN hpc hi hne

theorem hasher_progress (hh : s.hasher = .running) (hq : s.md5Q ≠ []) :
    ∃ e s', Step p s e s' ∧ e ≠ .m_joined_worker := by
  cases hq' : s.md5Q with
  | nil => exact absurd hq' hq
  | cons b rest =>
    by_cases hb : b = []
    · subst hb; exact ⟨_, _, Step.md5_recv_stop rest hh hq', by simp⟩
    · exact ⟨_, _, Step.md5_recv_data b rest hh hq' hb, by simp⟩

/-- the md5 queue is nonempty when it is full -/
theorem md5_full_ne {s : State} (h : ¬ s.md5Q.length < md5Cap) : s.md5Q ≠ [] := by
  intro h0; rw [h0] at h; simp [md5Cap] at h

theorem progress (hW : 0 < p.W) (hC : InvC p s) (hT : InvTok p s) (hN : InvNum p s)
    (hM : InvMd5 p s) (hnf : ¬ s.final) :
    ∃ e s', Step p s e s' ∧ (e = .m_joined_worker → ∀ pc ∈ s.workers, pc = .exited) := by
  have wk : (∃ e s', Step p s e s' ∧ e ≠ .m_joined_worker) →
      ∃ e s', Step p s e s' ∧ (e = .m_joined_worker → ∀ pc ∈ s.workers, pc = .exited) := by
    rintro ⟨e, s', h1, h2⟩; exact ⟨e, s', h1, fun h => absurd h h2⟩
  have hmo := hC.mainOk
  have hnones := hC.nones
  have hlen := hT.lengths
  obtain ⟨d, e, hq, hdne, _, hrun, hexi⟩ := hM
  cases hm : s.main with
  | recv =>
    cases hr : s.refillQ with
    | cons id rest => exact wk ⟨_, _, Step.refill_recv id rest hm hr, by simp⟩
    | nil =>
      simp only [hm, hr, MPc.hand, MPc.lost, MPc.pastFeed, MPc.nonesSent] at hlen hnones
      simp only [List.length_nil, reduceIte] at hlen
      by_cases hh : 0 < (s.workers.flatMap WPc.hand).length
      · obtain ⟨pc, hpc, hhand⟩ := exists_hand_of_flatMap_pos hh
        exact wk (worker_progress hT hN hpc (by rintro rfl; exact hhand rfl)
          (by rintro rfl; exact hhand rfl))
      · have hs : 0 < (somes s.encodeQ).length := by omega
        refine wk (queue_progress hC hT hN ?_ (by omega))
        intro h0; rw [h0] at hs; simp at hs
  | locked id =>
    by_cases hf : p.readFailAt = some s.k
    · exact wk ⟨_, _, Step.f_read_err id hm hf, by simp⟩
    · have hid := (hT.excl_main (x := id) (by simp [hm, MPc.hand])).2.2.2
      have hrunning : s.hasher = .running := by
        cases hh : s.hasher with
        | running => rfl
        | exited => have := (hexi hh).2; simp [hm, emptiesSent] at this
      by_cases hcap : s.md5Q.length < md5Cap
      · cases hb : p.blocks[s.k]? with
        | some b =>
          have hlt : id < s.bufs.length := by rw [hC.blen]; exact hid
          exact wk ⟨_, _, Step.md5_data id b s.bufs[id] hm hf hcap hb
            (List.getElem?_eq_getElem hlt), by simp⟩
        | none =>
          cases he : p.eofSendsEmpty with
          | true => exact wk ⟨_, _, Step.md5_eof id hm hf hcap hb he, by simp⟩
          | false => exact wk ⟨_, _, Step.f_eof_plain id hm hf (getElem?_none_ge hb) he, by simp⟩
      · exact wk (hasher_progress hrunning (md5_full_ne hcap))
  | eofEmpty id => exact wk ⟨_, _, Step.f_eof_empty id hm, by simp⟩
  | filledMd5 id =>
    have hmb := hN.mainBuf
    simp only [MainBuf, hm] at hmb
    obtain ⟨x, hx, _⟩ := hmb
    exact wk ⟨_, _, Step.f_filled id x hm hx, by simp⟩
  | enq id =>
    simp only [hm, MPc.hand, MPc.lost, MPc.pastFeed, MPc.nonesSent] at hlen hnones
    simp only [List.length_nil, List.length_cons, reduceIte] at hlen
    have := length_eq_somes_add_nones s.encodeQ
    exact wk ⟨_, _, Step.enc_send_some id hm (by simp only [Params.encodeCap]; omega), by simp⟩
  | stop r =>
    simp only [MainOk, hm] at hmo
    cases r with
    | zero => omega
    | succ r =>
      by_cases hcap : s.encodeQ.length < p.encodeCap
      · exact wk ⟨_, _, Step.enc_send_none r hm hcap, by simp⟩
      · simp only [hm, MPc.nonesSent] at hnones
        refine wk (queue_progress hC hT hN ?_ (by omega))
        intro h0; rw [h0] at hcap; simp [Params.encodeCap] at hcap
  | reqStop =>
    by_cases hcap : s.md5Q.length < md5Cap
    · exact wk ⟨_, _, Step.md5_stop hm hcap, by simp⟩
    · have hne := md5_full_ne hcap
      cases hh : s.hasher with
      | running => exact wk (hasher_progress hh hne)
      | exited =>
        obtain ⟨hd, he⟩ := hexi hh
        have he0 : e = 0 := by
          simp only [hm, emptiesSent] at he; split at he <;> omega
        subst hd he0
        simp at hq; exact absurd hq hne
  | joinH =>
    cases hh : s.hasher with
    | exited => exact wk ⟨_, _, Step.joined_hasher hm hh, by simp⟩
    | running =>
      have he := hrun hh
      have hpos : 0 < e := by simp only [hm, emptiesSent] at he; omega
      refine wk (hasher_progress hh ?_)
      intro h0; rw [h0] at hq
      have := congrArg List.length hq
      simp at this; omega
  | joinW j =>
    simp only [MainOk, hm] at hmo
    simp only [hm, MPc.nonesSent] at hnones
    by_cases hall : s.exitedCount = p.W
    · refine ⟨_, _, Step.joined_worker j hm (by omega), ?_⟩
      intro _ pc hpc
      have : s.workers.count .exited = s.workers.length := by rw [hC.wlen]; exact hall
      exact (List.count_eq_length.1 this pc hpc).symm
    · have hle : s.exitedCount ≤ p.W := by
        have : s.exitedCount ≤ s.workers.length := List.count_le_length
        rw [hC.wlen] at this; exact this
      refine wk (queue_progress hC hT hN ?_ (by omega))
      intro h0; rw [h0] at hnones; simp at hnones; omega
  | done => exact absurd hm hnf

end FlacVerif.Par
