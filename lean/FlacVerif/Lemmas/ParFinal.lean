/-
Final states of the protocol: everything joined, nothing in flight, and the return value equals
the return value of the single-thread loop.
-/
import FlacVerif.Lemmas.ParInvNum
import FlacVerif.Lemmas.ParInvMd5
namespace FlacVerif.Par

/-- frames the single-thread loop produces when nothing fails -/
def expFrames : Nat → List Block → List OutFrame
  | _, [] => []
  | k, b :: bs => ⟨k, b.bytes⟩ :: expFrames (k + 1) bs

theorem expFrames_length (k : Nat) (bs : List Block) : (expFrames k bs).length = bs.length := by
  induction bs generalizing k with
  | nil => rfl
  | cons b bs ih => simp [expFrames, ih]

theorem expFrames_getElem? (k : Nat) (bs : List Block) (i : Nat) :
    (expFrames k bs)[i]? = bs[i]?.map (fun b => ⟨k + i, b.bytes⟩) := by
  induction bs generalizing k i with
  | nil => simp [expFrames]
  | cons b bs ih =>
    cases i with
    | zero => simp [expFrames]
    | succ i => simp only [expFrames, List.getElem?_cons_succ, ih]; congr; funext b; congr 1; omega

theorem expFrames_nums (k : Nat) (bs : List Block) :
    (expFrames k bs).map (·.num) = List.range' k bs.length := by
  induction bs generalizing k with
  | nil => rfl
  | cons b bs ih => simp [expFrames, ih, List.range'_succ]

/-- Specification of the single-thread loop relative to an index `m`: the first `m` reads succeed
and then either read `m` fails or `m` is the end of the input and that read succeeds. -/
theorem seqLoop_spec (fail : Option Nat) (k0 : Nat) (bs : List Block) (m : Nat)
    (hm : m ≤ bs.length) (hnf : ∀ j, j < m → fail ≠ some (k0 + j))
    (hend : fail = some (k0 + m) ∨ (m = bs.length ∧ fail ≠ some (k0 + m))) :
    ((∃ j b, j < m ∧ bs[j]? = some b ∧ b.valid = false) → seqLoop fail k0 bs = .error .config) ∧
    ((∀ j b, j < m → bs[j]? = some b → b.valid = true) →
      (fail = some (k0 + m) → seqLoop fail k0 bs = .error .source) ∧
      (fail ≠ some (k0 + m) → seqLoop fail k0 bs = .ok (expFrames k0 bs))) := by
  induction bs generalizing k0 m with
  | nil =>
    have hm0 : m = 0 := by simpa using hm
    subst hm0
    refine ⟨?_, ?_⟩
    · rintro ⟨j, b, hj, _⟩; omega
    · intro _; simp [seqLoop, expFrames]
  | cons b bs ih =>
    cases m with
    | zero =>
      have hf : fail = some k0 := by
        rcases hend with h | ⟨h, _⟩
        · simpa using h
        · simp at h
      refine ⟨?_, ?_⟩
      · rintro ⟨j, b, hj, _⟩; omega
      · intro _; simp [seqLoop, hf]
    | succ m =>
      have h0 : fail ≠ some k0 := by simpa using hnf 0 (by omega)
      have hm' : m ≤ bs.length := by simpa using hm
      have hnf' : ∀ j, j < m → fail ≠ some (k0 + 1 + j) := by
        intro j hj; have := hnf (j + 1) (by omega)
        rwa [show k0 + (j + 1) = k0 + 1 + j by omega] at this
      have hend' : fail = some (k0 + 1 + m) ∨ (m = bs.length ∧ fail ≠ some (k0 + 1 + m)) := by
        rw [show k0 + 1 + m = k0 + (m + 1) by omega]
        rcases hend with h | ⟨h1, h2⟩
        · exact Or.inl h
        · exact Or.inr ⟨by simpa using h1, h2⟩
      obtain ⟨ih1, ih2⟩ := ih (k0 + 1) m hm' hnf' hend'
      rw [show k0 + 1 + m = k0 + (m + 1) by omega] at ih2
      cases hv : b.valid with
      | false =>
        refine ⟨fun _ => by simp [seqLoop, h0, enc, hv], ?_⟩
        intro hall
        have := hall 0 b (by omega) (by simp)
        rw [hv] at this; cases this
      | true =>
        refine ⟨?_, ?_⟩
        · rintro ⟨j, c, hj, hc, hcv⟩
          cases j with
          | zero => simp at hc; subst hc; rw [hv] at hcv; cases hcv
          | succ j =>
            have := ih1 ⟨j, c, by omega, by simpa using hc, hcv⟩
            simp [seqLoop, h0, enc, hv, this]
        · intro hall
          have hall' : ∀ j c, j < m → bs[j]? = some c → c.valid = true := by
            intro j c hj hc; exact hall (j + 1) c (by omega) (by simpa using hc)
          obtain ⟨ih2a, ih2b⟩ := ih2 hall'
          refine ⟨?_, ?_⟩
          · intro hf; simp [seqLoop, h0, enc, hv, ih2a hf]
          · intro hf; simp [seqLoop, h0, enc, hv, ih2b hf, expFrames]

structure FinalFacts (p : Params) (s : State) : Prop where
  workersExited : ∀ pc ∈ s.workers, pc = .exited
  nworkers : s.workers.length = p.W
  hasherExited : s.hasher = .exited
  queueDrained : ∀ x ∈ s.encodeQ, x = none
  feedEnd : FeedEnd p s

theorem final_facts {p : Params} {s : State} (hW : 0 < p.W) (hC : InvC p s) (hf : s.final) :
    FinalFacts p s := by
  have hmo := hC.mainOk
  have hf' : s.main = .done := hf
  simp only [MainOk, hf'] at hmo
  obtain ⟨h1, h2, h3⟩ := hmo
  have hall : ∀ pc ∈ s.workers, pc = .exited := by
    have : s.workers.count .exited = s.workers.length := by
      rw [hC.wlen]; exact h3
    intro pc hpc
    exact (List.count_eq_length.1 this pc hpc).symm
  exact ⟨hall, hC.wlen, h2, hC.drained (by rw [h3]; exact hW), h1⟩

theorem no_inflight {p : Params} {s : State} (hF : FinalFacts p s) (n : Nat) : ¬ InFlight s n := by
  rintro (⟨id, hid, _⟩ | ⟨pc, hpc, hc⟩)
  · have := hF.queueDrained _ hid; cases this
  · rw [hF.workersExited pc hpc] at hc; exact hc

theorem enc_some {n : Nat} {b : Block} {f : OutFrame} (h : enc n b = some f) :
    b.valid = true ∧ f = ⟨n, b.bytes⟩ := by
  unfold enc at h; split at h
  · exact ⟨‹_›, by cases h; rfl⟩
  · cases h

theorem enc_none {n : Nat} {b : Block} (h : enc n b = none) : b.valid = false := by
  unfold enc at h; split at h
  · cases h
  · simpa using ‹¬ b.valid = true›

theorem mem_keys {α : Type} {l : List (Nat × α)} {n : Nat} (h : n ∈ l.map (·.1)) :
    ∃ v, (n, v) ∈ l := by
  obtain ⟨⟨m, v⟩, hmem, rfl⟩ := List.mem_map.1 h
  exact ⟨v, hmem⟩

/-- In a final state the sink holds exactly the frames of the single-thread loop when there was no
failure. -/
theorem final_frames {p : Params} {s : State} (hN : InvNum p s) (hF : FinalFacts p s)
    (hk : s.k = p.blocks.length) (he : s.errors = []) : s.frames = expFrames 0 p.blocks := by
  have hcov : ∀ n, n < p.blocks.length → n ∈ s.sink.map (·.1) := by
    intro n hn
    rcases hN.cover n (by omega) with h | h | h
    · exact absurd h (no_inflight hF n)
    · exact h
    · simp [he] at h
  have hkeys : s.sink.map (·.1) = List.range p.blocks.length := by
    apply eq_range_of_sorted _ _ hN.sorted
    intro n
    constructor
    · intro hn
      obtain ⟨f, hf⟩ := mem_keys hn
      have := (hN.sink n f hf).1; omega
    · exact hcov n
  have hlen : s.sink.length = p.blocks.length := by
    have := congrArg List.length hkeys; simpa using this
  apply List.ext_getElem?
  intro i
  rw [expFrames_getElem?]
  by_cases hi : i < p.blocks.length
  · have hi' : i < s.sink.length := by omega
    have hki : (s.sink.map (·.1))[i]? = some i := by
      rw [hkeys]; simp [hi]
    simp only [List.getElem?_map, List.getElem?_eq_getElem hi', Option.map_some,
      Option.some.injEq] at hki
    have hmem : s.sink[i] ∈ s.sink := List.getElem_mem hi'
    obtain ⟨_, b, hb, hf⟩ := hN.sink s.sink[i].1 s.sink[i].2 hmem
    rw [hki] at hb hf
    simp only [State.frames, List.getElem?_map, List.getElem?_eq_getElem hi', Option.map_some, hb]
    rw [(enc_some hf).2]; simp
  · have h1 : s.sink.length ≤ i := by omega
    have h2 : p.blocks.length ≤ i := by omega
    simp [State.frames, List.getElem?_eq_none h1, List.getElem?_eq_none h2]

theorem final_result {p : Params} {s : State} (hC : InvC p s) (hN : InvNum p s)
    (hF : FinalFacts p s) : s.result = seqResult p := by
  have hcov : ∀ n, n < s.k → n ∈ s.sink.map (·.1) ∨ n ∈ s.errors.map (·.1) := by
    intro n hn
    rcases hN.cover n hn with h | h
    · exact absurd h (no_inflight hF n)
    · exact h
  have hend : p.readFailAt = some (0 + s.k) ∨
      (s.k = p.blocks.length ∧ p.readFailAt ≠ some (0 + s.k)) := by
    rw [Nat.zero_add]
    cases hr : s.readErr with
    | true => exact Or.inl (hF.feedEnd.1 hr)
    | false => exact Or.inr (hF.feedEnd.2 hr)
  obtain ⟨sp1, sp2⟩ := seqLoop_spec p.readFailAt 0 p.blocks s.k hC.kle
    (by intro j hj; rw [Nat.zero_add]; exact hC.nofail j hj) hend
  rw [Nat.zero_add] at sp2
  by_cases hinv : ∃ j b, j < s.k ∧ p.blocks[j]? = some b ∧ b.valid = false
  · have hseq := sp1 hinv
    obtain ⟨j, b, hj, hb, hbv⟩ := hinv
    have herr : s.errors ≠ [] := by
      rcases hcov j hj with h | h
      · obtain ⟨f, hf⟩ := mem_keys h
        obtain ⟨_, b', hb', hf'⟩ := hN.sink j f hf
        rw [hb] at hb'; cases hb'
        have := (enc_some hf').1; rw [hbv] at this; cases this
      · intro he; simp [he] at h
    simp only [State.result, herr, ne_eq, not_false_eq_true, if_true, seqResult, seqFrames, hseq]
  · have hall : ∀ j b, j < s.k → p.blocks[j]? = some b → b.valid = true := by
      intro j b hj hb
      cases hv : b.valid with
      | true => rfl
      | false => exact absurd ⟨j, b, hj, hb, hv⟩ hinv
    obtain ⟨sp2a, sp2b⟩ := sp2 hall
    have herr : s.errors = [] := by
      cases he : s.errors with
      | nil => rfl
      | cons x l =>
        obtain ⟨n, u⟩ := x
        obtain ⟨hn, b, hb, hnone⟩ := hN.errs n u (by simp [he])
        have := hall n b hn hb
        rw [enc_none hnone] at this; cases this
    cases hr : s.readErr with
    | true =>
      have hseq := sp2a (hF.feedEnd.1 hr)
      simp [State.result, herr, hr, seqResult, seqFrames, hseq]
    | false =>
      obtain ⟨hk, hnf⟩ := hF.feedEnd.2 hr
      have hseq := sp2b hnf
      have hfr := final_frames hN hF hk herr
      simp [State.result, herr, hr, seqResult, seqFrames, hseq, hfr]

/-- The error reported by a final state (`first_encode_error`: smallest key of `parerrors`) belongs
to the first invalid block, and every read up to and including that block succeeded — the point
where the single-thread loop returns its `Config` error. -/
theorem final_first_error {p : Params} {s : State} (hC : InvC p s) (hN : InvNum p s)
    (hF : FinalFacts p s) {n : Nat} {u : Unit} {rest : List (Nat × Unit)}
    (he : s.errors = (n, u) :: rest) :
    (∃ b, p.blocks[n]? = some b ∧ b.valid = false) ∧
    (∀ j b, j < n → p.blocks[j]? = some b → b.valid = true) ∧
    (∀ j, j ≤ n → p.readFailAt ≠ some j) := by
  obtain ⟨hn, b, hb, hnone⟩ := hN.errs n u (by simp [he])
  refine ⟨⟨b, hb, enc_none hnone⟩, ?_, fun j hj => hC.nofail j (by omega)⟩
  intro j c hj hc
  rcases hN.cover j (by omega) with h | h | h
  · exact absurd h (no_inflight hF j)
  · obtain ⟨f, hf⟩ := mem_keys h
    obtain ⟨_, c', hc', hf'⟩ := hN.sink j f hf
    rw [hc] at hc'; cases hc'
    exact (enc_some hf').1
  · have hs := hN.esorted
    rw [he] at hs h
    simp only [List.map_cons, List.pairwise_cons, List.mem_cons] at hs h
    rcases h with h | h
    · omega
    · have := hs.1 j h; omega

theorem prefixBytes_all (p : Params) : prefixBytes p p.blocks.length = seqHashed p := by
  simp [prefixBytes, seqHashed]

/-- In a final state the hasher has consumed exactly the bytes of the blocks that were read. -/
theorem final_hashed {p : Params} {s : State} (hM : InvMd5 p s) (hF : FinalFacts p s)
    (hf : s.final) : s.hashed = prefixBytes p s.k := by
  obtain ⟨d, e, _, _, h3, _, h5⟩ := hM
  have hf' : s.main = .done := hf
  obtain ⟨hd, _⟩ := h5 hF.hasherExited
  subst hd
  simpa [hf', md5Sent] using h3

end FlacVerif.Par
