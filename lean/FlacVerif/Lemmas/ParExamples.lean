/-
Concrete complete traces of the protocol model (`Model/Par.lean`) for `W = 1`, two blocks:
fault-free, read failure at read 1, invalid block 0. Checked by kernel evaluation (`decide`).
-/
import FlacVerif.Model.Par
namespace FlacVerif.Par.Examples
open FlacVerif.Par

def blk (n : Nat) (valid : Bool := true) : Block := ⟨[n, n + 1], valid⟩

/-- `W = 1`, two valid blocks, no fault. -/
def pOk : Params := { W := 1, blocks := [blk 1, blk 5] }
/-- read number 1 fails. -/
def pReadFail : Params := { W := 1, blocks := [blk 1, blk 5], readFailAt := some 1 }
/-- block 0 holds an out-of-range sample. -/
def pInvalid : Params := { W := 1, blocks := [blk 1 false, blk 5] }

def trOk : List Ev :=
  [.refill_recv 0, .md5_send 2, .md5_recv 2, .f_filled 0 0, .encode_send (some 0),
   .encode_recv 0 (some 0), .w_lock 0 0 0, .refill_send 0 0, .refill_recv 1, .md5_send 2,
   .w_push 0 0 0, .md5_recv 2, .f_filled 1 1, .encode_send (some 1), .encode_recv 0 (some 1),
   .w_lock 0 1 1, .refill_recv 0, .refill_send 0 1, .md5_send 0, .f_eof 0, .encode_send none,
   .w_push 0 1 1, .encode_recv 0 none, .md5_recv 0, .md5_send 0, .m_joined_hasher,
   .m_joined_worker]

def trReadFail : List Ev :=
  [.refill_recv 0, .md5_send 2, .md5_recv 2, .f_filled 0 0, .encode_send (some 0),
   .encode_recv 0 (some 0), .w_lock 0 0 0, .refill_send 0 0, .refill_recv 1, .f_read_err 1,
   .w_push 0 0 0, .encode_send none, .encode_recv 0 none, .md5_send 0, .md5_recv 0,
   .m_joined_hasher, .m_joined_worker]

def trInvalid : List Ev :=
  [.refill_recv 0, .md5_send 2, .md5_recv 2, .f_filled 0 0, .encode_send (some 0),
   .encode_recv 0 (some 0), .w_lock 0 0 0, .refill_send 0 0, .refill_recv 1, .md5_send 2,
   .w_err 0 0 0, .md5_recv 2, .f_filled 1 1, .encode_send (some 1), .encode_recv 0 (some 1),
   .w_lock 0 1 1, .refill_recv 0, .refill_send 0 1, .md5_send 0, .f_eof 0, .encode_send none,
   .w_push 0 1 1, .encode_recv 0 none, .md5_recv 0, .md5_send 0, .m_joined_hasher,
   .m_joined_worker]

example : outcome pOk trOk = some (.ok [0, 1], [1, 2, 5, 6]) := by decide
example : outcome pReadFail trReadFail = some (.error .source, [1, 2]) := by decide
example : outcome pInvalid trInvalid = some (.error .config, [1, 2, 5, 6]) := by decide
example : seqResult pOk = .ok [0, 1] ∧ seqResult pReadFail = .error .source ∧
    seqResult pInvalid = .error .config := by decide

/-- strictness: a wrong frame number, a wrong buffer id, a premature join are rejected -/
example : run pOk (init pOk) [.refill_recv 0, .md5_send 2, .f_filled 0 1] = none := by decide
example : run pOk (init pOk) [.refill_recv 1] = none := by decide
example : run pOk (init pOk) [.m_joined_hasher] = none := by decide
example : run pOk (init pOk) [.refill_recv 0, .md5_send 3] = none := by decide

end FlacVerif.Par.Examples
