/-
Helper lemmas for C10: histories of calls on one thread (`Scratch.runHistory`, `Scratch.stepAll`).
Core Lean only.
-/
import FlacVerif.Lemmas.ScratchCache
import FlacVerif.Lemmas.ScratchFinder
import FlacVerif.Lemmas.ScratchQlpc
import FlacVerif.Lemmas.ScratchFixed
import FlacVerif.Lemmas.ScratchMs
import FlacVerif.Lemmas.ScratchCrc
namespace FlacVerif.Scratch
open FlacVerif

/-- If every single call, from every state satisfying an invariant, replies what a fixed function
of the call alone says, and keeps the invariant, then so does every history. -/
theorem runHistory_eq {S A R : Type} (step : S → A → Option (S × R)) (Inv : S → Prop) (P : A → Prop)
    (f : A → Option R)
    (h : ∀ s a, Inv s → P a → (step s a).map (·.2) = f a ∧ ∀ s' r, step s a = some (s', r) → Inv s')
    (s : S) (hs : Inv s) (calls : List A) (hc : ∀ a ∈ calls, P a) :
    runHistory step s calls = calls.map f := by
  induction calls generalizing s with
  | nil => rfl
  | cons a rest ih =>
    obtain ⟨h1, h2⟩ := h s a hs (hc a (by simp))
    have hr : ∀ x ∈ rest, P x := fun x hx => hc x (by simp [hx])
    unfold runHistory
    cases hst : step s a with
    | none =>
      rw [hst] at h1
      simp only [List.map_cons, ← h1, Option.map_none, ih s hs hr]
    | some p =>
      obtain ⟨s', r⟩ := p
      rw [hst] at h1
      simp only [List.map_cons, ← h1, Option.map_some, ih s' (h2 s' r hst) hr]

/-- The invariant of the whole scratch state. -/
def ThreadState.Inv (st : ThreadState) : Prop := st.fixed.length = 5 ∧ st.ms.Inv ∧ st.cache.Inv

theorem ThreadState.inv_fresh : ThreadState.fresh.Inv :=
  ⟨by simp [ThreadState.fresh], FrameBuf.inv_new, Cache.inv_empty⟩

theorem readAll_eq (st : List SimdVec) (h5 : st.length = 5) (signal : List Int) :
    resetFixedLpcErrors st signal
        = [errAt signal 0, errAt signal 1, errAt signal 2, errAt signal 3, errAt signal 4] := by
  match st, h5 with
  | [s0, s1, s2, s3, s4], _ => exact resetFixedLpcErrors_eq s0 s1 s2 s3 s4 signal

/-- One call from any reachable state replies what the same call replies on a fresh thread, and
keeps the invariant. -/
theorem stepAll_frame (st : ThreadState) (c : Call) (hinv : st.Inv) (hok : c.Ok) :
    (stepAll st c).map (·.2) = (stepAll ThreadState.fresh c).map (·.2) ∧
    ∀ st' r, stepAll st c = some (st', r) → st'.Inv := by
  obtain ⟨h5, hms, hca⟩ := hinv
  have f5 : ThreadState.fresh.fixed.length = 5 := by simp [ThreadState.fresh]
  cases c with
  | fixed signal =>
    refine ⟨?_, ?_⟩
    · simp only [stepAll, Option.map_some, readAll_eq _ h5, readAll_eq _ f5]
    · intro st' r h
      simp only [stepAll, Option.some.injEq, Prod.mk.injEq] at h
      rw [← h.1]
      exact ⟨by simp [readAll_eq _ h5], hms, hca⟩
  | qlpc coefs shift signal =>
    refine ⟨?_, ?_⟩
    · simp only [stepAll, Option.map_map, qlpcErrors_eq]
      cases computeError coefs shift signal <;> rfl
    · intro st' r h
      simp only [stepAll, Option.map_eq_some_iff] at h
      obtain ⟨e, _, he⟩ := h
      simp only [Prod.mk.injEq] at he
      rw [← he.1]; exact ⟨h5, hms, hca⟩
  | ms size l r =>
    obtain ⟨fb1, e1, i1⟩ := msFrameBuf_spec st.ms hms size hok l r
    obtain ⟨fb2, e2, _⟩ := msFrameBuf_spec ThreadState.fresh.ms FrameBuf.inv_new size hok l r
    refine ⟨?_, ?_⟩
    · simp only [stepAll, e1, e2, Option.map_some]
    · intro st' r' h
      simp only [stepAll, e1, Option.map_some, Option.some.injEq, Prod.mk.injEq] at h
      rw [← h.1]; exact ⟨h5, i1, hca⟩
  | find signal warm maxP =>
    refine ⟨?_, ?_⟩
    · have a := findResult_eq st.finder signal warm maxP
      have b := findResult_eq ThreadState.fresh.finder signal warm maxP
      unfold findResult at a b
      simp only [stepAll, Option.map_map]
      have e : ∀ o : Option (FinderState × PrcParameter),
          Option.map ((fun x : ThreadState × Reply => x.2) ∘ fun p => ({ st with finder := p.1 }, Reply.find p.2)) o
            = (o.map (·.2)).map Reply.find := by intro o; cases o <;> rfl
      have e' : ∀ o : Option (FinderState × PrcParameter),
          Option.map ((fun x : ThreadState × Reply => x.2) ∘ fun p => ({ ThreadState.fresh with finder := p.1 }, Reply.find p.2)) o
            = (o.map (·.2)).map Reply.find := by intro o; cases o <;> rfl
      rw [e, e', a, b]
    · intro st' r h
      simp only [stepAll, Option.map_eq_some_iff] at h
      obtain ⟨e, _, he⟩ := h
      simp only [Prod.mk.injEq] at he
      rw [← he.1]; exact ⟨h5, hms, hca⟩
  | frameCrc cb ops =>
    obtain ⟨s1, _, e1⟩ := frameCrcWrite_eq st.frameCrc cb ops hok
    obtain ⟨s2, _, e2⟩ := frameCrcWrite_eq ThreadState.fresh.frameCrc cb ops hok
    have : s1 = s2 := by simp_all
    subst this
    refine ⟨?_, ?_⟩
    · simp only [stepAll, e1, e2, Option.map_some]
    · intro st' r h
      simp only [stepAll, e1, Option.map_some, Option.some.injEq, Prod.mk.injEq] at h
      rw [← h.1]; exact ⟨h5, hms, hca⟩
  | headerCrc cb ops =>
    refine ⟨?_, ?_⟩
    · simp only [stepAll, headerCrcWrite_eq, Option.map_map]
      cases ByteSink.empty.run ops <;> rfl
    · intro st' r h
      simp only [stepAll, Option.map_eq_some_iff] at h
      obtain ⟨e, _, he⟩ := h
      simp only [Prod.mk.injEq] at he
      rw [← he.1]; exact ⟨h5, hms, hca⟩
  | window size w =>
    obtain ⟨a1, a2⟩ := Cache.lookupOrInsert_spec st.cache hca size w hok
    obtain ⟨b1, _⟩ := Cache.lookupOrInsert_spec ThreadState.fresh.cache Cache.inv_empty size w hok
    refine ⟨?_, ?_⟩
    · simp only [stepAll, Option.map_some, a1, b1]
    · intro st' r h
      simp only [stepAll, Option.some.injEq, Prod.mk.injEq] at h
      rw [← h.1]; exact ⟨h5, hms, a2⟩

end FlacVerif.Scratch
