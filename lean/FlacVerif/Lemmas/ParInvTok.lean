/-
Token conservation: every buffer id `0..2W-1` is in exactly one place — the refill queue, the main
thread's hand, the encode queue, or the hand of a worker (between `encode_recv` and `refill_send`).
The only ids that leave circulation are the ones the main thread holds at `f_eof` / `f_read_err`.
Consequences: no buffer is ever held by two threads (the per-buffer mutex is never contended) and the
refill queue can never be full.
-/
import FlacVerif.Lemmas.ParInvC
namespace FlacVerif.Par

def WPc.hand : WPc → List Nat
  | .got id => [id]
  | .encoded id _ _ => [id]
  | _ => []

def MPc.hand : MPc → List Nat
  | .locked id | .eofEmpty id | .filledMd5 id | .enq id => [id]
  | _ => []

/-- work items of the encode queue -/
def somes (q : List (Option Nat)) : List Nat := q.filterMap id

def tokens (s : State) : List Nat :=
  s.refillQ ++ s.main.hand ++ somes s.encodeQ ++ s.workers.flatMap WPc.hand

theorem afterStop_hand (r : Nat) : (afterStop r).hand = [] := by
  unfold afterStop; split <;> rfl

theorem afterStop_pastFeed (r : Nat) : (afterStop r).pastFeed := by
  unfold afterStop; split <;> trivial

theorem somes_append (a b : List (Option Nat)) : somes (a ++ b) = somes a ++ somes b := by
  simp [somes]

/-- `1` when the feed loop is over (its last buffer id is out of circulation). -/
def MPc.lost (m : MPc) : Nat := if m.pastFeed then 1 else 0

theorem afterStop_lost (r : Nat) : (afterStop r).lost = 1 := by
  simp [MPc.lost, afterStop_pastFeed]

@[simp] theorem somes_nil : somes [] = [] := rfl
@[simp] theorem somes_cons_some (x : Nat) (q : List (Option Nat)) :
    somes (some x :: q) = x :: somes q := by simp [somes]
@[simp] theorem somes_cons_none (q : List (Option Nat)) : somes (none :: q) = somes q := by
  simp [somes]

theorem mem_somes {q : List (Option Nat)} {x : Nat} : x ∈ somes q ↔ some x ∈ q := by
  simp [somes]

/-- No step creates a token. -/
theorem Step.tokens_count {p : Params} {s s' : State} {e : Ev} (hs : Step p s e s') (x : Nat) :
    (tokens s').count x ≤ (tokens s).count x := by
  cases hs
  case enc_recv_some w id rest hw hq =>
    have := count_flatMap_set WPc.hand s.workers w _ (.got id) x hw
    simp only [tokens, hq, somes_cons_some, List.count_append, List.count_cons, WPc.hand,
      List.count_nil] at this ⊢; omega
  case enc_recv_none w rest hw hq =>
    have := count_flatMap_set WPc.hand s.workers w _ .exited x hw
    simp only [tokens, hq, somes_cons_none, List.count_append, WPc.hand,
      List.count_nil] at this ⊢; omega
  case w_lock w id n b hw hx hn hl =>
    have := count_flatMap_set WPc.hand s.workers w _ (.encoded id n (enc n b.blk)) x hw
    simp only [tokens, List.count_append, List.count_cons, WPc.hand, List.count_nil] at this ⊢
    omega
  case refill_send w id n res hw hcap =>
    have := count_flatMap_set WPc.hand s.workers w _ (.sent id n res) x hw
    simp only [tokens, List.count_append, List.count_cons, WPc.hand, List.count_nil] at this ⊢
    omega
  case w_push w id n f hw =>
    have := count_flatMap_set WPc.hand s.workers w _ .idle x hw
    simp only [tokens, List.count_append, WPc.hand, List.count_nil] at this ⊢
    omega
  case w_err w id n hw =>
    have := count_flatMap_set WPc.hand s.workers w _ .idle x hw
    simp only [tokens, List.count_append, WPc.hand, List.count_nil] at this ⊢
    omega
  case joined_hasher hm hh => split <;> simp [tokens, hm, MPc.hand]
  case joined_worker j hm hj => split <;> simp [tokens, hm, MPc.hand]
  all_goals
    simp only [tokens, afterStop_hand, *]
    simp only [List.count_append, somes_append, somes_cons_some,
      somes_cons_none, somes_nil, List.count_cons, List.count_nil, MPc.hand]
  all_goals omega

theorem Step.tokens_len {p : Params} {s s' : State} {e : Ev} (hs : Step p s e s') :
    (tokens s').length + s'.main.lost = (tokens s).length + s.main.lost := by
  cases hs
  case enc_recv_some w id rest hw hq =>
    have := length_flatMap_set WPc.hand s.workers w _ (.got id) hw
    simp only [tokens, hq, somes_cons_some, List.length_append, List.length_cons, WPc.hand,
      List.length_nil] at this ⊢; omega
  case enc_recv_none w rest hw hq =>
    have := length_flatMap_set WPc.hand s.workers w _ .exited hw
    simp only [tokens, hq, somes_cons_none, List.length_append, WPc.hand,
      List.length_nil] at this ⊢; omega
  case w_lock w id n b hw hx hn hl =>
    have := length_flatMap_set WPc.hand s.workers w _ (.encoded id n (enc n b.blk)) hw
    simp only [tokens, List.length_append, List.length_cons, WPc.hand, List.length_nil] at this ⊢
    omega
  case refill_send w id n res hw hcap =>
    have := length_flatMap_set WPc.hand s.workers w _ (.sent id n res) hw
    simp only [tokens, List.length_append, List.length_cons, WPc.hand, List.length_nil] at this ⊢
    omega
  case w_push w id n f hw =>
    have := length_flatMap_set WPc.hand s.workers w _ .idle hw
    simp only [tokens, List.length_append, WPc.hand, List.length_nil] at this ⊢
    omega
  case w_err w id n hw =>
    have := length_flatMap_set WPc.hand s.workers w _ .idle hw
    simp only [tokens, List.length_append, WPc.hand, List.length_nil] at this ⊢
    omega
  case joined_hasher hm hh => split <;> simp [tokens, hm, MPc.hand, MPc.lost, MPc.pastFeed]
  case joined_worker j hm hj => split <;> simp [tokens, hm, MPc.hand, MPc.lost, MPc.pastFeed]
  all_goals
    simp only [tokens, afterStop_hand, afterStop_lost, *]
    try simp [somes_append, MPc.hand, MPc.lost, MPc.pastFeed]
  all_goals try omega

structure InvTok (p : Params) (s : State) : Prop where
  cnt : ∀ x, (tokens s).count x ≤ if x < 2 * p.W then 1 else 0
  len : (tokens s).length + s.main.lost = 2 * p.W

theorem InvTok.init (p : Params) : InvTok p (init p) := by
  constructor
  · intro x
    have : ((List.replicate p.W WPc.idle).flatMap WPc.hand) = [] := by
      simp [WPc.hand]
    simp [tokens, Par.init, MPc.hand, somes, this, Params.nbuf]
  · have : ((List.replicate p.W WPc.idle).flatMap WPc.hand) = [] := by
      simp [WPc.hand]
    simp [tokens, Par.init, MPc.hand, somes, this, Params.nbuf, MPc.lost, MPc.pastFeed]

theorem InvTok.step {p : Params} {s s' : State} {e : Ev} (h : InvTok p s) (hs : Step p s e s') :
    InvTok p s' where
  cnt x := Nat.le_trans (hs.tokens_count x) (h.cnt x)
  len := (hs.tokens_len).trans h.len

theorem InvTok.of_reaches {p : Params} {s : State} (h : Reaches p s) : InvTok p s := by
  induction h with
  | init => exact InvTok.init p
  | step _ hstep ih => exact ih.step (Step_of_step hstep)

/-- every token is a valid buffer id -/
theorem InvTok.lt {p : Params} {s : State} (h : InvTok p s) {x : Nat} (hx : x ∈ tokens s) :
    x < 2 * p.W := by
  have h1 := h.cnt x
  have h2 : 0 < (tokens s).count x := List.count_pos_iff.2 hx
  split at h1
  · assumption
  · omega

/-- The buffer held by the main thread is held by nobody else. -/
theorem InvTok.excl_main {p : Params} {s : State} (h : InvTok p s) {x : Nat}
    (hx : x ∈ s.main.hand) :
    x ∉ s.refillQ ∧ some x ∉ s.encodeQ ∧ (∀ pc ∈ s.workers, x ∉ pc.hand) ∧ x < 2 * p.W := by
  have h1 := h.cnt x
  have h2 : 0 < s.main.hand.count x := List.count_pos_iff.2 hx
  have h3 : (if x < 2 * p.W then 1 else 0) ≤ 1 := by split <;> omega
  simp only [tokens, List.count_append] at h1
  refine ⟨?_, ?_, ?_, ?_⟩
  · intro hm
    have : 0 < s.refillQ.count x := List.count_pos_iff.2 hm
    omega
  · intro hm
    have : 0 < (somes s.encodeQ).count x := List.count_pos_iff.2 (mem_somes.2 hm)
    omega
  · intro pc hpc hm
    have : 0 < (s.workers.flatMap WPc.hand).count x :=
      List.count_pos_iff.2 (List.mem_flatMap.2 ⟨pc, hpc, hm⟩)
    omega
  · split at h1
    · assumption
    · omega

/-- A buffer held by a worker is held by no other thread and is not queued. -/
theorem InvTok.excl_worker {p : Params} {s : State} (h : InvTok p s) {x : Nat} {pc : WPc}
    (hpc : pc ∈ s.workers) (hx : x ∈ pc.hand) :
    x ∉ s.refillQ ∧ some x ∉ s.encodeQ ∧ x ∉ s.main.hand ∧ x < 2 * p.W := by
  have h1 := h.cnt x
  have h2 : 0 < (s.workers.flatMap WPc.hand).count x :=
      List.count_pos_iff.2 (List.mem_flatMap.2 ⟨pc, hpc, hx⟩)
  have h3 : (if x < 2 * p.W then 1 else 0) ≤ 1 := by split <;> omega
  simp only [tokens, List.count_append] at h1
  refine ⟨?_, ?_, ?_, ?_⟩
  · intro hm
    have : 0 < s.refillQ.count x := List.count_pos_iff.2 hm
    omega
  · intro hm
    have : 0 < (somes s.encodeQ).count x := List.count_pos_iff.2 (mem_somes.2 hm)
    omega
  · intro hm
    have : 0 < s.main.hand.count x := List.count_pos_iff.2 hm
    omega
  · split at h1
    · assumption
    · omega

/-- a queued buffer id is valid -/
theorem InvTok.queue_lt {p : Params} {s : State} (h : InvTok p s) {x : Nat}
    (hx : some x ∈ s.encodeQ) : x < 2 * p.W :=
  h.lt (by simp [tokens, mem_somes.2 hx])

theorem InvTok.lengths {p : Params} {s : State} (h : InvTok p s) :
    s.refillQ.length + s.main.hand.length + (somes s.encodeQ).length +
      (s.workers.flatMap WPc.hand).length + s.main.lost = 2 * p.W := by
  have := h.len
  simpa [tokens, Nat.add_assoc] using this

end FlacVerif.Par
