/-
Helper lemmas for C10, site 5: `FRAME_CRC_BUFFER` and `HEADER_CRC_BUFFER`
(`Scratch.frameCrcWrite`, `Scratch.headerCrcWrite`). Core Lean only.
-/
import FlacVerif.Model.Scratch
import FlacVerif.Lemmas.ScratchFinder
import FlacVerif.Lemmas.WordSinkStep
import FlacVerif.Lemmas.ByteSinkStep
namespace FlacVerif.Scratch
open FlacVerif

/-- `MemSink::<u64>::clear()` gives the state of `MemSink::new()` (up to capacity, which is not
observable). -/
theorem wordSinkClear_eq (s : WordSink) : wordSinkClear s = WordSink.empty := rfl

theorem byteSinkClear_eq (s : ByteSink) : byteSinkClear s = ByteSink.empty := rfl

theorem beBytes_length (v : BitVec 64) : (beBytes v).length = 8 := by simp [beBytes]

theorem flatMap_beBytes_length (st : List (BitVec 64)) : (st.flatMap beBytes).length = 8 * st.length := by
  induction st with
  | nil => rfl
  | cons v st ih => simp only [List.flatMap_cons, List.length_append, beBytes_length, ih, List.length_cons]; omega

theorem copyInto_spec (dest : List Nat) (start : Nat) (src : List Nat) (h : start + src.length ≤ dest.length) :
    copyInto dest start src = some (dest.take start ++ src ++ dest.drop (start + src.length)) := by
  unfold copyInto; rw [if_pos h]

/-- The loop of `write_to_byte_slice`: all bytes of `dest` from `head` up to the end of the stored
words are overwritten (the hypothesis says that the subtraction `destlen - head` never
underflows: at most the last word is cut). -/
theorem writeWords_spec (destlen : Nat) (st : List (BitVec 64)) (head : Nat) (dest : List Nat)
    (hd : dest.length = destlen) (hh : head ≤ destlen)
    (hp : st = [] ∨ head + 8 * (st.length - 1) ≤ destlen) :
    writeWords destlen st head dest
      = some (dest.take head ++ (st.flatMap beBytes).take (destlen - head)
              ++ dest.drop (head + (st.flatMap beBytes).length)) := by
  induction st generalizing head dest with
  | nil => simp [writeWords]
  | cons v rest ih =>
    have hb := beBytes_length v
    have hp' : head + 8 * rest.length ≤ destlen := by
      rcases hp with hp | hp
      · cases hp
      · simpa using hp
    unfold writeWords
    by_cases h8 : head + 8 ≤ destlen
    · rw [if_pos h8, copyInto_spec dest head (beBytes v) (by omega)]
      simp only [Option.bind_eq_bind, Option.bind_some, hb]
      rw [ih (head + 8) _ (by simp [hb]; omega) h8
        (by cases rest with
            | nil => left; rfl
            | cons w r => right; simp at hp' ⊢; omega)]
      congr 1
      have e1 : (dest.take head ++ beBytes v ++ dest.drop (head + 8)).take (head + 8)
          = dest.take head ++ beBytes v := by
        rw [List.take_append_of_le_length (by simp [hb]; omega), List.take_of_length_le (by simp [hb]; omega)]
      have e2 : (dest.take head ++ beBytes v ++ dest.drop (head + 8)).drop (head + 8 + (rest.flatMap beBytes).length)
          = dest.drop (head + 8 + (rest.flatMap beBytes).length) := by
        rw [List.drop_append]
        rw [List.drop_of_length_le (by simp [hb]; omega), List.nil_append]
        simp only [List.length_append, List.length_take, hb, List.drop_drop]
        congr 1; omega
      have e3 : (beBytes v ++ rest.flatMap beBytes).take (destlen - head)
          = beBytes v ++ (rest.flatMap beBytes).take (destlen - (head + 8)) := by
        rw [List.take_append, List.take_of_length_le (by rw [hb]; omega), hb]
        congr 2 <;> omega
      rw [e1, e2, List.flatMap_cons, e3, List.length_append, hb]
      simp only [List.append_assoc]
      congr 4 <;> omega
    · have hr : rest = [] := by
        cases rest with
        | nil => rfl
        | cons w r => simp at hp'; omega
      subst hr
      rw [if_neg h8]
      simp only [chkSub, hh, ↓reduceIte, Option.bind_eq_bind, Option.bind_some]
      rw [copyInto_spec dest head _ (by simp [hb]; omega)]
      simp only [writeWords, Option.bind_some, List.flatMap_cons, List.flatMap_nil, List.append_nil]
      congr 1
      rw [List.drop_of_length_le (by simp [hb]; omega), List.drop_of_length_le (by omega)]

/-- Alignment keeps the word count right and makes the length a whole number of bytes. -/
theorem alignToByte_facts (s : WordSink) (hs : s.Inv) :
    s.alignToByte.len % 8 = 0 ∧ s.alignToByte.storage.length = (s.alignToByte.len + 63) / 64 := by
  have := hs.size
  simp only [WordSink.alignToByte, WordSink.paddingsToByte]
  omega

/-- `bytebuf.resize(len >> 3, 0)` followed by `write_to_byte_slice`: every byte of the (stale,
resized) vector is overwritten by the contents of the sink. -/
theorem writeToByteSlice_eq (s : WordSink) (dest : List Nat) (h8 : s.len % 8 = 0)
    (hsz : s.storage.length = (s.len + 63) / 64) (hd : dest.length = s.len >>> 3) :
    writeToByteSlice s dest = some s.exportBytes := by
  have hd' : dest.length = s.len / 8 := by rw [hd, Nat.shiftRight_eq_div_pow]
  unfold writeToByteSlice
  rw [writeWords_spec dest.length s.storage 0 dest rfl (Nat.zero_le _)
    (by cases hst : s.storage with
        | nil => left; rfl
        | cons v r => right; rw [← hst, hsz]; omega)]
  have hl := flatMap_beBytes_length s.storage
  simp only [List.take_zero, List.nil_append, Nat.sub_zero, Nat.zero_add]
  rw [List.drop_of_length_le (by rw [hl, hsz]; omega), List.append_nil]
  unfold WordSink.exportBytes
  have : (s.len + 7) / 8 = dest.length := by omega
  rw [this]
  rfl

/-- `Frame::write` on ANY stale `(MemSink<u64>, Vec<u8>)`: the bytes handed to `dest` and to the
CRC are those of a freshly created sink. -/
theorem frameCrcWrite_eq (stale : WordSink × List Nat) (countBits : Nat) (ops : List Op)
    (hv : ∀ op ∈ ops, op.Valid) :
    ∃ s, WordSink.empty.run ops = some s ∧
      frameCrcWrite stale countBits ops
        = some ((s.alignToByte, s.alignToByte.exportBytes), s.alignToByte.exportBytes) := by
  obtain ⟨s, hrun, hr⟩ := WordSink.run_refines WordSink.empty WordSink.inv_empty ops hv
  refine ⟨s, hrun, ?_⟩
  obtain ⟨h8, hsz⟩ := alignToByte_facts s hr.inv
  unfold frameCrcWrite
  simp only [wordSinkClear_eq, wordSinkReserve, hrun, Option.bind_eq_bind, Option.bind_some]
  rw [writeToByteSlice_eq s.alignToByte _ h8 hsz (vecResize_length _ _ _)]
  rfl

/-- `FrameHeader::write` on ANY stale `ByteSink`. -/
theorem headerCrcWrite_eq (stale : ByteSink) (countBits : Nat) (ops : List Op) :
    headerCrcWrite stale countBits ops = (ByteSink.empty.run ops).map fun s => (s, s.exportBytes) := by
  unfold headerCrcWrite
  simp only [byteSinkClear_eq, byteSinkReserve]
  cases ByteSink.empty.run ops <;> rfl

end FlacVerif.Scratch
