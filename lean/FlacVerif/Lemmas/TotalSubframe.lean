/-
Totality of the functional encoder (C07, second half), part 2: `encode_subframe` hits no panic site
whenever the oracle log has the SHAPE the function consumes (`SubLogOk`) — the `est` events of the
`ApproxEnt` fixed stage, then the `qlpc` event of the LPC stage.  Nothing is asked of the quantised
parameter set beyond `OEvent.Ok`: `compute_error` never panics, and the LPC candidate is dropped exactly
when the exact residual is not encodable (`lpcCandidate_total`).  The bound `maxLpcOrder = 24` of `OEvent.Ok` on the
number of coefficients is needed: beyond it the warm-up vector overflows its capacity (`lpcCandidate_over_capacity`).
-/
import FlacVerif.Lemmas.TotalLpc
import FlacVerif.Lemmas.WrapLpc
import FlacVerif.Lemmas.StrictSubframe
import FlacVerif.Theorems.C13
namespace FlacVerif
namespace Total
open Strict

/-! ### what `encode_subframe` consumes -/

/-- Number of `est` events the fixed stage takes. -/
def estTake (cfg : SubCfg) : Nat :=
  if cfg.useFixed && !cfg.bitCount then min (cfg.fixedMaxOrder + 1) 5 else 0

/-- Number of oracle events `encode_subframe` consumes for the block `xs`. -/
def subTake (cfg : SubCfg) (xs : List Int) : Nat :=
  if (cfg.useConstant && isConstant xs) || decide (xs.length < minBlockForPrediction) then 0
  else estTake cfg + (if cfg.useLpc then 1 else 0)

/-- The log starts with the events `encode_subframe` asks for on the block `xs` (shape only: nothing is
asked of the quantised LPC parameter set). -/
def SubLogOk (cfg : SubCfg) (xs : List Int) (log : List OEvent) : Prop :=
  (cfg.useConstant && isConstant xs) = true ∨ xs.length < minBlockForPrediction ∨
  (estTake cfg ≤ log.length ∧ (∀ e ∈ log.take (estTake cfg), ∃ o b, e = OEvent.est o b) ∧
    (cfg.useLpc = true → ∃ c s p, (log.drop (estTake cfg)).head? = some (.qlpc c s p)))

theorem takeEsts_ok : ∀ (k : Nat) (log : List OEvent), k ≤ log.length →
    (∀ e ∈ log.take k, ∃ o b, e = OEvent.est o b) → ∃ bs, takeEsts k log = some (bs, log.drop k) := by
  intro k
  induction k with
  | zero => intro log _ _; exact ⟨[], rfl⟩
  | succ k ih =>
    intro log hl h
    match log, hl with
    | e :: log', hl =>
      obtain ⟨o, b, rfl⟩ := h e (by simp)
      obtain ⟨bs, hbs⟩ := ih log' (by simpa using hl) (fun e he => h e (by simp [he]))
      exact ⟨b :: bs, by simp [takeEsts, hbs]⟩

theorem mapM_isSome {α β : Type} (f : α → Option β) (l : List α) (h : ∀ x ∈ l, ∃ y, f x = some y) :
    ∃ ys, l.mapM f = some ys := by
  induction l with
  | nil => exact ⟨[], rfl⟩
  | cons a as ih =>
    obtain ⟨y, hy⟩ := h a (by simp)
    obtain ⟨ys, hys⟩ := ih (fun x hx => h x (by simp [hx]))
    exact ⟨y :: ys, by simp [List.mapM_cons, hy, hys]⟩

theorem search_some (signal : List Int) (warm maxP : Nat)
    (hsig : ∀ v ∈ signal, -(2 ^ 31 : Int) < v ∧ v < (2 ^ 31 : Int))
    (hn : max 64 warm ≤ signal.length) (hlen : signal.length < 2 ^ 16) :
    ∃ prc, search signal warm maxP = some prc := by
  have := C13_total signal warm maxP hsig hn hlen
  cases h : search signal warm maxP with
  | none => rw [h] at this; cases this
  | some prc => exact ⟨prc, rfl⟩

/-! ### the fixed stage -/

theorem fixed_search_some (cfg : SubCfg) (xs : List Int) (bps : Nat)
    (hn : 64 ≤ xs.length) (hlen : xs.length < 2 ^ 16) (hb : 1 ≤ bps ∧ bps ≤ 25)
    (hx : ∀ x ∈ xs, SubFrame.inRange bps x = true) (k : Nat) (hk : k ≤ 4) :
    ∃ prc, search (diffs k xs) k cfg.maxP = some prc := by
  obtain ⟨hdl, hdr, _⟩ := diffs_fixed bps hb xs hx k hk (by omega)
  exact search_some _ _ _ hdr (by rw [hdl]; omega) (by rw [hdl]; exact hlen)

theorem fixedCandidate_total (cfg : SubCfg) (xs : List Int) (bps baseline : Nat) (log : List OEvent)
    (hn : 64 ≤ xs.length) (hlen : xs.length < 2 ^ 16) (hb : 1 ≤ bps ∧ bps ≤ 25)
    (hx : ∀ x ∈ xs, SubFrame.inRange bps x = true)
    (hl : (if cfg.bitCount then 0 else min (cfg.fixedMaxOrder + 1) 5) ≤ log.length)
    (hest : ∀ e ∈ log.take (if cfg.bitCount then 0 else min (cfg.fixedMaxOrder + 1) 5), ∃ o b, e = OEvent.est o b) :
    ∃ c, fixedCandidate cfg xs bps baseline log =
      some (c, log.drop (if cfg.bitCount then 0 else min (cfg.fixedMaxOrder + 1) 5)) := by
  unfold fixedCandidate
  simp only []
  by_cases hbc : cfg.bitCount = true
  · simp only [hbc, if_true, List.drop_zero]
    obtain ⟨cands, hc⟩ := mapM_isSome (fun k => do
        let prc ← search (diffs k xs) k cfg.maxP
        some (k, prc, bps * k + prc.codeBits)) (List.range (min (cfg.fixedMaxOrder + 1) 5)) (by
      intro k hk
      rw [List.mem_range] at hk
      obtain ⟨prc, hp⟩ := fixed_search_some cfg xs bps hn hlen hb hx k (by omega)
      exact ⟨(k, prc, bps * k + prc.codeBits), by simp [hp]⟩)
    rw [hc]
    simp only [Option.bind_eq_bind, Option.bind_some]
    split
    · exact ⟨_, rfl⟩
    · split <;> exact ⟨_, rfl⟩
  · simp only [hbc, Bool.false_eq_true, if_false] at hl hest ⊢
    obtain ⟨ests, he⟩ := takeEsts_ok _ log hl hest
    rw [he]
    simp only [Option.bind_eq_bind, Option.bind_some]
    split
    · exact ⟨_, rfl⟩
    · rename_i k bits hmin
      have hmem := firstMinBy_mem _ _ _ hmin
      simp only [List.mem_map, List.mem_range, Prod.mk.injEq] at hmem
      obtain ⟨k0, hk0, rfl, _⟩ := hmem
      split
      · obtain ⟨prc, hp⟩ := fixed_search_some cfg xs bps hn hlen hb hx k0 (by omega)
        simp only [encodeResidual, hp, Option.bind_eq_bind, Option.bind_some]
        exact ⟨_, rfl⟩
      · exact ⟨_, rfl⟩

theorem fixedStage_total (cfg : SubCfg) (xs : List Int) (bps baseline : Nat) (log : List OEvent)
    (hn : 64 ≤ xs.length) (hlen : xs.length < 2 ^ 16) (hb : 1 ≤ bps ∧ bps ≤ 25)
    (hx : ∀ x ∈ xs, SubFrame.inRange bps x = true)
    (hl : estTake cfg ≤ log.length) (hest : ∀ e ∈ log.take (estTake cfg), ∃ o b, e = OEvent.est o b) :
    ∃ c, fixedStage cfg xs bps baseline log = some (c, log.drop (estTake cfg)) := by
  unfold fixedStage
  have hnb : decide (xs.length < minBlockForPrediction) = false :=
    decide_eq_false (by unfold minBlockForPrediction; omega)
  rw [hnb]
  by_cases hf : cfg.useFixed = true
  · simp only [hf, Bool.not_false, Bool.and_self, if_true]
    have e : estTake cfg = (if cfg.bitCount then 0 else min (cfg.fixedMaxOrder + 1) 5) := by
      unfold estTake
      cases cfg.bitCount <;> simp [hf]
    rw [e] at hl hest ⊢
    obtain ⟨c, hc⟩ := fixedCandidate_total cfg xs bps baseline log hn hlen hb hx hl hest
    rw [hc]
    exact ⟨_, rfl⟩
  · have e : estTake cfg = 0 := by unfold estTake; simp [hf]
    simp only [hf, Bool.and_false, Bool.false_eq_true, if_false, e, List.drop_zero]
    exact ⟨_, rfl⟩

/-! ### the LPC stage -/

/-- **The LPC stage never panics**, for ANY quantised parameter set of at most `maxLpcOrder = 24` coefficients
(`qlpc::MAX_ORDER`, the capacity of the warm-up vector; with more, `lpcCandidate_over_capacity` shows the panic): it
consumes the `qlpc` event and returns a candidate exactly when every value of the exact LPC residual lies in
`-(2^31-1) ..= 2^31-1` (the range of FLAC residuals); otherwise the candidate is dropped. -/
theorem lpcCandidate_total (cfg : SubCfg) (xs : List Int) (bps : Nat) (c : List Int) (s : Int) (p : Nat)
    (rest : List OEvent) (hn : 64 ≤ xs.length) (hlen : xs.length < 2 ^ 16) (hc : c.length ≤ maxLpcOrder) :
    ∃ f, lpcCandidate cfg xs bps (.qlpc c s p :: rest) = some (f, rest) ∧
      (f.isSome = true ↔ ∀ e ∈ lpcResidual c s.toNat xs, e.natAbs ≤ 2 ^ 31 - 1) := by
  obtain ⟨errors, fits, he, hel, her⟩ := computeError_total c s.toNat xs
  have hflag := computeError_flag_iff c s.toNat xs errors fits he
  unfold lpcCandidate
  simp only [he, Option.bind_some]
  cases fits with
  | false =>
    refine ⟨none, by simp, ?_⟩
    rw [← hflag]
    simp
  | true =>
    have hc64 : c.length ≤ 64 := by unfold maxLpcOrder at hc; omega
    obtain ⟨prc, hp⟩ := search_some errors c.length cfg.maxP (her rfl).1 (by rw [hel]; omega) (by rw [hel]; exact hlen)
    simp only [encodeResidual, hp, Option.bind_eq_bind, Option.bind_some, if_true, if_pos hc]
    refine ⟨_, rfl, ?_⟩
    rw [← hflag]
    simp

/-- **The capacity of the warm-up vector is a panic site**: a parameter set of more than `maxLpcOrder = 24`
coefficients whose exact residual is encodable panics (in `encode_residual`, or else at `expect("LPC order exceeded the
maximum")`); one whose residual is not encodable is dropped before that site is reached.  (Unreachable with a verified
configuration: `OEvent.Ok`.) -/
theorem lpcCandidate_over_capacity (cfg : SubCfg) (xs : List Int) (bps : Nat) (c : List Int) (s : Int) (p : Nat)
    (rest : List OEvent) (hc : maxLpcOrder < c.length) :
    lpcCandidate cfg xs bps (.qlpc c s p :: rest) =
      if ∀ e ∈ lpcResidual c s.toNat xs, e.natAbs ≤ 2 ^ 31 - 1 then none else some (none, rest) := by
  obtain ⟨errors, fits, he, hel, her⟩ := computeError_total c s.toNat xs
  have hflag := computeError_flag_iff c s.toNat xs errors fits he
  unfold lpcCandidate
  simp only [he, Option.bind_some]
  cases fits with
  | false =>
    have : ¬ ∀ e ∈ lpcResidual c s.toNat xs, e.natAbs ≤ 2 ^ 31 - 1 := by rw [← hflag]; simp
    rw [if_neg this]
    simp
  | true =>
    have : ∀ e ∈ lpcResidual c s.toNat xs, e.natAbs ≤ 2 ^ 31 - 1 := hflag.mp rfl
    rw [if_pos this]
    have hnc : ¬ c.length ≤ maxLpcOrder := by omega
    simp only [if_true, if_neg hnc]
    cases encodeResidual cfg.maxP errors c.length <;> rfl

theorem lpcStage_total (cfg : SubCfg) (xs : List Int) (bps limit : Nat) (log : List OEvent)
    (hn : 64 ≤ xs.length) (hlen : xs.length < 2 ^ 16) (hok : ∀ e ∈ log, e.Ok)
    (hq : cfg.useLpc = true → ∃ c s p, log.head? = some (.qlpc c s p)) :
    ∃ c, lpcStage cfg xs bps limit log = some (c, log.drop (if cfg.useLpc then 1 else 0)) := by
  unfold lpcStage
  have hnb : decide (xs.length < minBlockForPrediction) = false :=
    decide_eq_false (by unfold minBlockForPrediction; omega)
  rw [hnb]
  by_cases hl : cfg.useLpc = true
  · obtain ⟨c, s, p, hh⟩ := hq hl
    match log, hh with
    | e :: rest, hh =>
      simp only [List.head?_cons, Option.some.injEq] at hh
      subst hh
      have hcl : c.length ≤ maxLpcOrder := (hok _ (List.mem_cons_self)).2.1
      obtain ⟨f, hf, _⟩ := lpcCandidate_total cfg xs bps c s p rest hn hlen hcl
      simp only [hl, Bool.not_false, Bool.and_self, if_true, hf, Option.map_some, List.drop_succ_cons, List.drop_zero]
      exact ⟨_, rfl⟩
  · simp only [hl, Bool.and_false, Bool.false_eq_true, if_false, List.drop_zero]
    exact ⟨_, rfl⟩

/-! ### `encode_subframe` -/

/-- Sub-frame totality (see `C07_subframe_total`). -/
theorem encodeSubframe_total (cfg : SubCfg) (xs : List Int) (bps : Nat) (log : List OEvent)
    (hlen : xs.length < 2 ^ 16) (hb : 1 ≤ bps ∧ bps ≤ 25)
    (hx : ∀ x ∈ xs, SubFrame.inRange bps x = true) (hok : ∀ e ∈ log, e.Ok)
    (hshape : SubLogOk cfg xs log) :
    ∃ s, encodeSubframe cfg xs bps log = some (s, log.drop (subTake cfg xs)) := by
  unfold encodeSubframe subTake
  by_cases hc : (cfg.useConstant && isConstant xs) = true
  · rw [if_pos hc]
    simp only [hc, Bool.true_or, if_true, List.drop_zero]
    exact ⟨_, rfl⟩
  · rw [if_neg hc]
    simp only [Bool.not_eq_true] at hc
    simp only [hc, Bool.false_or]
    by_cases hshort : xs.length < minBlockForPrediction
    · have hd : decide (xs.length < minBlockForPrediction) = true := decide_eq_true hshort
      simp only [fixedStage, lpcStage, hd, Bool.not_true, Bool.false_and, Bool.false_eq_true, if_false, if_true,
        Option.bind_some, List.drop_zero]
      exact ⟨_, rfl⟩
    · have hd : decide (xs.length < minBlockForPrediction) = false := decide_eq_false hshort
      simp only [hd, Bool.false_eq_true, if_false]
      have hn : 64 ≤ xs.length := by simp [minBlockForPrediction] at hshort; omega
      rcases hshape with h | h | ⟨hl, hest, hq⟩
      · rw [hc] at h; cases h
      · exact absurd h hshort
      · obtain ⟨fixed, hf⟩ := fixedStage_total cfg xs bps (verbatimBits xs.length bps) log hn hlen hb hx hl hest
        obtain ⟨lpc, hlp⟩ := lpcStage_total cfg xs bps (baselineAfter (verbatimBits xs.length bps) fixed)
          (log.drop (estTake cfg)) hn hlen (fun e he => hok e (List.mem_of_mem_drop he)) hq
        rw [hf]
        simp only [Option.bind_some, hlp, List.drop_drop]
        exact ⟨_, by rw [Nat.add_comm]⟩

/-! ### `SubLogOk` is exact -/

theorem takeEsts_inv : ∀ (k : Nat) (log : List OEvent) (bs : List Nat) (l : List OEvent),
    takeEsts k log = some (bs, l) →
    k ≤ log.length ∧ (∀ e ∈ log.take k, ∃ o b, e = OEvent.est o b) ∧ l = log.drop k := by
  intro k
  induction k with
  | zero =>
    intro log bs l h
    simp only [takeEsts, Option.some.injEq, Prod.mk.injEq] at h
    exact ⟨by omega, by simp, h.2.symm⟩
  | succ k ih =>
    intro log bs l h
    match log, h with
    | .est o b :: log', h =>
      simp only [takeEsts, Option.map_eq_some_iff, Prod.mk.injEq] at h
      obtain ⟨⟨bs', l'⟩, h1, _, rfl⟩ := h
      obtain ⟨i1, i2, i3⟩ := ih log' bs' l' h1
      refine ⟨by simp; omega, ?_, by simpa using i3⟩
      intro e he
      simp only [List.take_succ_cons, List.mem_cons] at he
      rcases he with rfl | he
      · exact ⟨o, b, rfl⟩
      · exact i2 e he
    | .qlpc _ _ _ :: _, h => simp [takeEsts] at h
    | [], h => simp [takeEsts] at h

theorem fixedStage_inv (cfg : SubCfg) (xs : List Int) (bps baseline : Nat) (log log1 : List OEvent)
    (c : Option SubFrame) (hn : 64 ≤ xs.length) (h : fixedStage cfg xs bps baseline log = some (c, log1)) :
    estTake cfg ≤ log.length ∧ (∀ e ∈ log.take (estTake cfg), ∃ o b, e = OEvent.est o b) ∧
      log1 = log.drop (estTake cfg) := by
  unfold fixedStage at h
  have hnb : decide (xs.length < minBlockForPrediction) = false :=
    decide_eq_false (by unfold minBlockForPrediction; omega)
  rw [hnb] at h
  by_cases hf : cfg.useFixed = true
  · simp only [hf, Bool.not_false, Bool.and_self, if_true, Option.map_eq_some_iff, Prod.mk.injEq] at h
    obtain ⟨⟨c0, l0⟩, hfc, _, rfl⟩ := h
    unfold fixedCandidate at hfc
    simp only [] at hfc
    by_cases hbc : cfg.bitCount = true
    · have e : estTake cfg = 0 := by unfold estTake; simp [hbc]
      rw [if_pos hbc] at hfc
      simp only [Option.bind_eq_bind, Option.bind_eq_some_iff] at hfc
      obtain ⟨cands, _, hfc⟩ := hfc
      have hl : l0 = log := by
        split at hfc
        · simp only [Option.some.injEq, Prod.mk.injEq] at hfc; exact hfc.2.symm
        · split at hfc <;> (simp only [Option.some.injEq, Prod.mk.injEq] at hfc; exact hfc.2.symm)
      rw [e, hl]
      exact ⟨by omega, by simp, by simp⟩
    · have e : estTake cfg = min (cfg.fixedMaxOrder + 1) 5 := by
        unfold estTake
        simp [hf, hbc]
      rw [if_neg hbc] at hfc
      simp only [Option.bind_eq_bind, Option.bind_eq_some_iff] at hfc
      obtain ⟨⟨ests, log2⟩, hte, hfc⟩ := hfc
      obtain ⟨i1, i2, i3⟩ := takeEsts_inv _ _ _ _ hte
      have hl : l0 = log2 := by
        simp only [] at hfc
        split at hfc
        · simp only [Option.some.injEq, Prod.mk.injEq] at hfc; exact hfc.2.symm
        · split at hfc
          · simp only [Option.bind_eq_some_iff, Option.some.injEq, Prod.mk.injEq] at hfc
            obtain ⟨_, _, _, h2⟩ := hfc
            exact h2.symm
          · simp only [Option.some.injEq, Prod.mk.injEq] at hfc; exact hfc.2.symm
      rw [e, hl]
      exact ⟨i1, i2, i3⟩
  · have e : estTake cfg = 0 := by unfold estTake; simp [hf]
    simp only [hf, Bool.and_false, Bool.false_eq_true, if_false, Option.some.injEq, Prod.mk.injEq] at h
    rw [e, ← h.2]
    exact ⟨by omega, by simp, by simp⟩

/-- **`SubLogOk` is exact**: `encode_subframe` returns iff the log has the shape it consumes — `none` never
means a panic site. -/
theorem encodeSubframe_isSome_iff (cfg : SubCfg) (xs : List Int) (bps : Nat) (log : List OEvent)
    (hlen : xs.length < 2 ^ 16) (hb : 1 ≤ bps ∧ bps ≤ 25)
    (hx : ∀ x ∈ xs, SubFrame.inRange bps x = true) (hok : ∀ e ∈ log, e.Ok) :
    (encodeSubframe cfg xs bps log).isSome = true ↔ SubLogOk cfg xs log := by
  constructor
  · intro h
    by_cases hc : (cfg.useConstant && isConstant xs) = true
    · exact Or.inl hc
    by_cases hshort : xs.length < minBlockForPrediction
    · exact Or.inr (Or.inl hshort)
    have hn : 64 ≤ xs.length := by unfold minBlockForPrediction at hshort; omega
    refine Or.inr (Or.inr ?_)
    cases hes : encodeSubframe cfg xs bps log with
    | none => rw [hes] at h; cases h
    | some r =>
      unfold encodeSubframe at hes
      rw [if_neg hc] at hes
      simp only [Option.bind_eq_some_iff] at hes
      obtain ⟨⟨fixed, log1⟩, hf, ⟨lpc, log2⟩, hl, _⟩ := hes
      obtain ⟨i1, i2, i3⟩ := fixedStage_inv cfg xs bps _ log log1 fixed hn hf
      refine ⟨i1, i2, ?_⟩
      intro hlpc
      subst i3
      unfold lpcStage at hl
      have hnb : decide (xs.length < minBlockForPrediction) = false := decide_eq_false hshort
      simp only [hnb, hlpc, Bool.not_false, Bool.and_self, if_true, Option.map_eq_some_iff, Prod.mk.injEq] at hl
      obtain ⟨⟨c0, l0⟩, hlc, _, _⟩ := hl
      match hlog1 : log.drop (estTake cfg), hlc with
      | .qlpc c s p :: rest, hlc =>
        exact ⟨c, s, p, rfl⟩
      | .est _ _ :: _, hlc => simp [lpcCandidate] at hlc
      | [], hlc => simp [lpcCandidate] at hlc
  · intro h
    obtain ⟨s, hs⟩ := encodeSubframe_total cfg xs bps log hlen hb hx hok h
    rw [hs]; rfl

end Total
end FlacVerif
