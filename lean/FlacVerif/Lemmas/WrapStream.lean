/-
Wrapping decoder (C01, release build), part 8: the whole stream — the release-build decoder applied to
the frames `encode_with_fixed_block_size` emits returns the interleaved input audio, for every oracle
log satisfying `OEvent.Ok`.
-/
import FlacVerif.Lemmas.WrapParse
import FlacVerif.Lemmas.StrictBlocks
namespace FlacVerif
namespace Wrap
open Repo Strict

theorem flatMap_congr_mem {α β : Type} (l : List α) (f g : α → List β) (h : ∀ x ∈ l, f x = g x) :
    l.flatMap f = l.flatMap g := by
  induction l with
  | nil => rfl
  | cons a as ih =>
    rw [List.flatMap_cons, List.flatMap_cons, h a (by simp), ih (fun x hx => h x (by simp [hx]))]

theorem interleave_def (chans : List (List Int)) (total : Nat) (hne : 1 ≤ chans.length)
    (hlen : ∀ c ∈ chans, c.length = total) :
    Rfc.interleave chans = (List.range total).flatMap fun t => chans.map fun c => c.getD t 0 := by
  cases chans with
  | nil => simp at hne
  | cons c0 cs =>
    unfold Rfc.interleave
    simp only []
    rw [hlen c0 (by simp)]

theorem chunk_range (total bs j : Nat) :
    ((List.range total).drop (j * bs)).take bs =
      (List.range (min bs (total - j * bs))).map fun t => j * bs + t := by
  apply List.ext_getElem
  · simp
  · intro i h1 h2
    simp

theorem getD_take_drop (c : List Int) (a b t : Nat) (ht : t < b) :
    ((c.drop a).take b).getD t 0 = c.getD (a + t) 0 := by
  rw [List.getD_eq_getElem?_getD, List.getD_eq_getElem?_getD, List.getElem?_take, if_pos ht, List.getElem?_drop]

/-- The interleaved blocks, concatenated, are the interleaved input. -/
theorem interleave_blocks (bs : Nat) (chans : List (List Int)) (total : Nat) (hbs : 1 ≤ bs)
    (hne : 1 ≤ chans.length) (hlen : ∀ c ∈ chans, c.length = total) :
    (blocksOf bs chans).flatMap Rfc.interleave = Rfc.interleave chans := by
  rw [interleave_def chans total hne hlen, blocksOf_eq bs chans total hne hlen, List.flatMap_map]
  have hr := chunks_all (List.range total) bs hbs
  rw [List.length_range] at hr
  conv => rhs; rw [← hr]
  rw [List.flatMap_assoc]
  apply flatMap_congr_mem
  intro j _
  have hbl : ∀ c ∈ (chans.map fun c => (c.drop (j * bs)).take bs), c.length = min bs (total - j * bs) := by
    intro c hc
    obtain ⟨c0, hc0, rfl⟩ := List.mem_map.1 hc
    rw [List.length_take, List.length_drop, hlen c0 hc0]
  rw [interleave_def _ (min bs (total - j * bs)) (by simpa using hne) hbl, chunk_range, List.flatMap_map]
  apply flatMap_congr_mem
  intro t ht
  rw [List.mem_range] at ht
  rw [List.map_map]
  apply List.map_congr_left
  intro c _
  exact getD_take_drop c (j * bs) bs t (by omega)

/-- The frame loop: the release-build decoder on the emitted frames returns the interleaved blocks. -/
theorem encodeFrames_wrapdec (cfg : SubCfg) (st : StereoCfg) (bps rate nch bsz : Nat)
    (hnch : 1 ≤ nch ∧ nch ≤ 8) (hbs : bsz < 2 ^ 16) (hb : 1 ≤ bps ∧ bps ≤ 24) (hmax : cfg.maxP ≤ 14) :
    ∀ (blocks : List (List (List Int))) (number : Nat) (log log' : List OEvent) (frames : List Frame),
      (∀ b ∈ blocks, BlockOk nch bps bsz b) → (∀ e ∈ log, e.Ok) →
      encodeFrames cfg st bps rate blocks number log = some (frames, log') →
      decodeAll false frames = .ok (blocks.flatMap Rfc.interleave) := by
  intro blocks
  induction blocks with
  | nil =>
    intro number log log' frames _ _ h
    simp only [encodeFrames, Option.some.injEq, Prod.mk.injEq] at h
    obtain ⟨rfl, _⟩ := h
    rfl
  | cons b bs' ih =>
    intro number log log' frames hok hlog h
    simp only [encodeFrames, Option.bind_eq_bind, Option.bind_eq_some_iff, Option.some.injEq, Prod.mk.injEq] at h
    obtain ⟨⟨f, l1⟩, hf, ⟨fs, l2⟩, hfs, rfl, _⟩ := h
    have hbk := hok b (by simp)
    have hsub := encodeFrame_sub cfg st b bps rate number log l1 f hf
    have h1 := frame_wrapdec cfg st b bps rate number (b.headD []).length log l1 f
      (by rw [hbk.nch]; exact hnch) hbk.len ⟨hbk.pos, Nat.lt_of_le_of_lt hbk.le hbs⟩ hb hbk.range hmax hlog hf
    have h2 := ih (number + 1) l1 l2 fs (fun x hx => hok x (by simp [hx])) (fun e he => hlog e (hsub e he)) hfs
    simp only [decodeAll, h1, h2, DResult.ok_bind, DResult.pure_eq, List.flatMap_cons]

/-- Stream level (see `C01_stream_wrapdec`). -/
theorem stream_wrapdec (md5 : List Nat → List Nat) (cfg : SubCfg) (st : StereoCfg) (bs : Nat)
    (chans : List (List Int)) (bps rate : Nat) (log log' : List OEvent) (s : Stream) (total : Nat)
    (hch : 1 ≤ chans.length ∧ chans.length ≤ 8) (hlen : ∀ c ∈ chans, c.length = total)
    (hbs : 1 ≤ bs ∧ bs < 2 ^ 16) (hb : 1 ≤ bps ∧ bps ≤ 24)
    (hx : ∀ c ∈ chans, ∀ x ∈ c, SubFrame.inRange bps x = true) (hmax : cfg.maxP ≤ 14)
    (hlog : ∀ e ∈ log, e.Ok)
    (h : encodeStream md5 cfg st bs chans bps rate log = some (s, log')) :
    decodeAll false s.frames = .ok (Rfc.interleave chans) := by
  unfold encodeStream at h
  simp only [Option.bind_eq_bind, Option.bind_eq_some_iff, Option.some.injEq, Prod.mk.injEq] at h
  obtain ⟨⟨frames, l1⟩, hf, counts, _, rfl, _⟩ := h
  have := encodeFrames_wrapdec cfg st bps rate chans.length bs hch hbs.2 hb hmax (blocksOf bs chans) 0 log l1 frames
    (blocksOf_ok bs chans total chans.length bps hbs.1 hch.1 rfl hlen hx) hlog hf
  rw [interleave_blocks bs chans total hbs.1 hch.1 hlen] at this
  exact this

end Wrap
end FlacVerif
