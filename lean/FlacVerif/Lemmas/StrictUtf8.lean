/-
Strict round trip (C01/C02), part 11: the strict decoder of the UTF-8-like coded number inverts
`encode_to_utf8like` for every frame number below `2^31`; `packBytes` / `bytesToBits`.
-/
import FlacVerif.Lemmas.StrictPrim
import FlacVerif.Lemmas.RepoRoundTripFrame
namespace FlacVerif
namespace Strict
open Repo (bitLen_le_iff or_add tail_byte)

/-- The multi-byte branch of `decodeUtf8like`, with its side conditions as hypotheses. -/
theorem decode_multi (b0 k : Nat) (conts rest : List Nat) (v : Nat) (hb0 : ¬ b0 < 0x80) (hk : k ≠ 0)
    (hsel : (if b0 < 0xC0 then 0 else if b0 < 0xE0 then 1 else if b0 < 0xF0 then 2 else if b0 < 0xF8 then 3
               else if b0 < 0xFC then 4 else if b0 < 0xFE then 5 else if b0 = 0xFE then 6 else 0) = k)
    (hlen : conts.length = k) (hc : ∀ c ∈ conts, c / 64 = 2)
    (hv : conts.foldl (fun acc c => acc * 64 + c % 64) (b0 % 2 ^ (6 - k)) = v)
    (hsz : utf8likeBytesize v = k + 1) :
    decodeUtf8like (b0 :: (conts ++ rest)) = some (v, k + 1) := by
  unfold decodeUtf8like
  simp only [hsel]
  rw [if_neg hb0, if_neg hk]
  have htake : (conts ++ rest).take k = conts := by rw [← hlen]; simp
  rw [htake]
  have hany : (conts.any fun c => decide (c / 64 ≠ 2)) = false := by
    rw [List.any_eq_false]
    intro c hcm
    simp [hc c hcm]
  rw [if_neg (by rw [hany, hlen]; simp), hv, if_neg (by rw [hsz]; simp)]

theorem decode_case0 (v : Nat) (h7 : v < 2 ^ 7) (bs rest : List Nat) (he : encodeUtf8like v = some bs) :
    decodeUtf8like (bs ++ rest) = some (v, bs.length) := by
  have hb7 : bitLen v ≤ 7 := by rw [bitLen_le_iff]; exact h7
  unfold encodeUtf8like at he
  simp only [hb7, if_true] at he
  injection he with he
  subst he
  simp only [List.cons_append, List.nil_append, decodeUtf8like, List.length_cons, List.length_nil]
  rw [if_pos (by omega)]

set_option linter.unusedSimpArgs false

theorem decode_case1 (v : Nat) (hlo : ¬ v < 2 ^ 7) (hhi : v < 2 ^ 11) (bs rest : List Nat)
    (he : encodeUtf8like v = some bs) : decodeUtf8like (bs ++ rest) = some (v, bs.length) := by
  have hblo : ¬ bitLen v ≤ 7 := by rw [bitLen_le_iff]; exact hlo
  have hbhi : bitLen v ≤ 11 := by rw [bitLen_le_iff]; exact hhi
  have ht : (bitLen v - 2) / 5 = 1 := by omega
  have hr : List.range 1 = [0] := rfl
  unfold encodeUtf8like at he
  simp only [hblo, if_false, show ¬ bitLen v > 36 by omega, ht, hr] at he
  injection he with he
  subst he
  simp only [List.map_cons, List.map_nil, List.getD_cons_succ, List.getD_cons_zero, Nat.shiftRight_eq_div_pow]
  simp only [Nat.reduceMul, Nat.reduceSub, Nat.reducePow, Nat.reduceEqDiff, if_false, if_true, Nat.div_one]
  have hx : v / 64 % 32 < 2 ^ 5 := Nat.mod_lt _ (by decide)
  have hhead : 192 ||| v / 64 % 32 = 192 + v / 64 % 32 := by
    have := or_add 5 6 _ hx
    simpa using this
  rw [hhead, tail_byte (v % 64) (Nat.mod_lt _ (by decide))]
  have := decode_multi (192 + v / 64 % 32) 1 [128 + v % 64] rest v (by omega) (by omega)
    (by rw [if_neg (by omega), if_pos (by omega)]) rfl
    (by intro c hc; simp at hc; omega)
    (by simp only [List.foldl_cons, List.foldl_nil]; omega)
    (by unfold utf8likeBytesize; simp only [hblo, if_false]; omega)
  simpa using this

theorem decode_case2 (v : Nat) (hlo : ¬ v < 2 ^ 11) (hhi : v < 2 ^ 16) (bs rest : List Nat)
    (he : encodeUtf8like v = some bs) : decodeUtf8like (bs ++ rest) = some (v, bs.length) := by
  have hblo : ¬ bitLen v ≤ 11 := by rw [bitLen_le_iff]; exact hlo
  have hbhi : bitLen v ≤ 16 := by rw [bitLen_le_iff]; exact hhi
  have hb7 : ¬ bitLen v ≤ 7 := by omega
  have ht : (bitLen v - 2) / 5 = 2 := by omega
  have hr : List.range 2 = [0, 1] := rfl
  unfold encodeUtf8like at he
  simp only [hb7, if_false, show ¬ bitLen v > 36 by omega, ht, hr] at he
  injection he with he
  subst he
  simp only [List.map_cons, List.map_nil, List.getD_cons_succ, List.getD_cons_zero, Nat.shiftRight_eq_div_pow]
  simp only [Nat.reduceMul, Nat.reduceSub, Nat.reducePow, Nat.reduceEqDiff, if_false, if_true, Nat.div_one]
  have hx : v / 4096 % 16 < 2 ^ 4 := Nat.mod_lt _ (by decide)
  have hhead : 224 ||| v / 4096 % 16 = 224 + v / 4096 % 16 := by
    have := or_add 4 14 _ hx
    simpa using this
  rw [hhead, tail_byte (v / 64 % 64) (Nat.mod_lt _ (by decide)), tail_byte (v % 64) (Nat.mod_lt _ (by decide))]
  have := decode_multi (224 + v / 4096 % 16) 2 [128 + v / 64 % 64, 128 + v % 64] rest v (by omega) (by omega)
    (by rw [if_neg (by omega), if_neg (by omega), if_pos (by omega)]) rfl
    (by intro c hc; simp at hc; omega)
    (by simp only [List.foldl_cons, List.foldl_nil]; omega)
    (by unfold utf8likeBytesize; simp only [hb7, if_false]; omega)
  simpa using this

theorem decode_case3 (v : Nat) (hlo : ¬ v < 2 ^ 16) (hhi : v < 2 ^ 21) (bs rest : List Nat)
    (he : encodeUtf8like v = some bs) : decodeUtf8like (bs ++ rest) = some (v, bs.length) := by
  have hblo : ¬ bitLen v ≤ 16 := by rw [bitLen_le_iff]; exact hlo
  have hbhi : bitLen v ≤ 21 := by rw [bitLen_le_iff]; exact hhi
  have hb7 : ¬ bitLen v ≤ 7 := by omega
  have ht : (bitLen v - 2) / 5 = 3 := by omega
  have hr : List.range 3 = [0, 1, 2] := rfl
  unfold encodeUtf8like at he
  simp only [hb7, if_false, show ¬ bitLen v > 36 by omega, ht, hr] at he
  injection he with he
  subst he
  simp only [List.map_cons, List.map_nil, List.getD_cons_succ, List.getD_cons_zero, Nat.shiftRight_eq_div_pow]
  simp only [Nat.reduceMul, Nat.reduceSub, Nat.reducePow, Nat.reduceEqDiff, if_false, if_true, Nat.div_one]
  have hx : v / 262144 % 8 < 2 ^ 3 := Nat.mod_lt _ (by decide)
  have hhead : 240 ||| v / 262144 % 8 = 240 + v / 262144 % 8 := by
    have := or_add 3 30 _ hx
    simpa using this
  rw [hhead, tail_byte (v / 4096 % 64) (Nat.mod_lt _ (by decide)), tail_byte (v / 64 % 64) (Nat.mod_lt _ (by decide)),
    tail_byte (v % 64) (Nat.mod_lt _ (by decide))]
  have := decode_multi (240 + v / 262144 % 8) 3 [128 + v / 4096 % 64, 128 + v / 64 % 64, 128 + v % 64] rest v
    (by omega) (by omega)
    (by rw [if_neg (by omega), if_neg (by omega), if_neg (by omega), if_pos (by omega)]) rfl
    (by intro c hc; simp at hc; omega)
    (by simp only [List.foldl_cons, List.foldl_nil]; omega)
    (by unfold utf8likeBytesize; simp only [hb7, if_false]; omega)
  simpa using this

theorem decode_case4 (v : Nat) (hlo : ¬ v < 2 ^ 21) (hhi : v < 2 ^ 26) (bs rest : List Nat)
    (he : encodeUtf8like v = some bs) : decodeUtf8like (bs ++ rest) = some (v, bs.length) := by
  have hblo : ¬ bitLen v ≤ 21 := by rw [bitLen_le_iff]; exact hlo
  have hbhi : bitLen v ≤ 26 := by rw [bitLen_le_iff]; exact hhi
  have hb7 : ¬ bitLen v ≤ 7 := by omega
  have ht : (bitLen v - 2) / 5 = 4 := by omega
  have hr : List.range 4 = [0, 1, 2, 3] := rfl
  unfold encodeUtf8like at he
  simp only [hb7, if_false, show ¬ bitLen v > 36 by omega, ht, hr] at he
  injection he with he
  subst he
  simp only [List.map_cons, List.map_nil, List.getD_cons_succ, List.getD_cons_zero, Nat.shiftRight_eq_div_pow]
  simp only [Nat.reduceMul, Nat.reduceSub, Nat.reducePow, Nat.reduceEqDiff, if_false, if_true, Nat.div_one]
  have hx : v / 16777216 % 4 < 2 ^ 2 := Nat.mod_lt _ (by decide)
  have hhead : 248 ||| v / 16777216 % 4 = 248 + v / 16777216 % 4 := by
    have := or_add 2 62 _ hx
    simpa using this
  rw [hhead, tail_byte (v / 262144 % 64) (Nat.mod_lt _ (by decide)), tail_byte (v / 4096 % 64) (Nat.mod_lt _ (by decide)),
    tail_byte (v / 64 % 64) (Nat.mod_lt _ (by decide)), tail_byte (v % 64) (Nat.mod_lt _ (by decide))]
  have := decode_multi (248 + v / 16777216 % 4) 4
    [128 + v / 262144 % 64, 128 + v / 4096 % 64, 128 + v / 64 % 64, 128 + v % 64] rest v
    (by omega) (by omega)
    (by rw [if_neg (by omega), if_neg (by omega), if_neg (by omega), if_neg (by omega), if_pos (by omega)]) rfl
    (by intro c hc; simp at hc; omega)
    (by simp only [List.foldl_cons, List.foldl_nil]; omega)
    (by unfold utf8likeBytesize; simp only [hb7, if_false]; omega)
  simpa using this

theorem decode_case5 (v : Nat) (hlo : ¬ v < 2 ^ 26) (hhi : v < 2 ^ 31) (bs rest : List Nat)
    (he : encodeUtf8like v = some bs) : decodeUtf8like (bs ++ rest) = some (v, bs.length) := by
  have hblo : ¬ bitLen v ≤ 26 := by rw [bitLen_le_iff]; exact hlo
  have hbhi : bitLen v ≤ 31 := by rw [bitLen_le_iff]; exact hhi
  have hb7 : ¬ bitLen v ≤ 7 := by omega
  have ht : (bitLen v - 2) / 5 = 5 := by omega
  have hr : List.range 5 = [0, 1, 2, 3, 4] := rfl
  unfold encodeUtf8like at he
  simp only [hb7, if_false, show ¬ bitLen v > 36 by omega, ht, hr] at he
  injection he with he
  subst he
  simp only [List.map_cons, List.map_nil, List.getD_cons_succ, List.getD_cons_zero, Nat.shiftRight_eq_div_pow]
  simp only [Nat.reduceMul, Nat.reduceSub, Nat.reducePow, Nat.reduceEqDiff, if_false, if_true, Nat.div_one]
  have hx : v / 1073741824 % 2 < 2 ^ 1 := Nat.mod_lt _ (by decide)
  have hhead : 252 ||| v / 1073741824 % 2 = 252 + v / 1073741824 % 2 := by
    have := or_add 1 126 _ hx
    simpa using this
  rw [hhead, tail_byte (v / 16777216 % 64) (Nat.mod_lt _ (by decide)),
    tail_byte (v / 262144 % 64) (Nat.mod_lt _ (by decide)), tail_byte (v / 4096 % 64) (Nat.mod_lt _ (by decide)),
    tail_byte (v / 64 % 64) (Nat.mod_lt _ (by decide)), tail_byte (v % 64) (Nat.mod_lt _ (by decide))]
  have := decode_multi (252 + v / 1073741824 % 2) 5
    [128 + v / 16777216 % 64, 128 + v / 262144 % 64, 128 + v / 4096 % 64, 128 + v / 64 % 64, 128 + v % 64] rest v
    (by omega) (by omega)
    (by rw [if_neg (by omega), if_neg (by omega), if_neg (by omega), if_neg (by omega), if_neg (by omega),
      if_pos (by omega)]) rfl
    (by intro c hc; simp at hc; omega)
    (by simp only [List.foldl_cons, List.foldl_nil]; omega)
    (by unfold utf8likeBytesize; simp only [hb7, if_false]; omega)
  simpa using this

/-- **Coded number.** The strict decoder (canonical form enforced) inverts the encoder on every
value below `2^31`, whatever follows. -/
theorem decodeUtf8like_encode (v : Nat) (hv : v < 2 ^ 31) (bs rest : List Nat) (he : encodeUtf8like v = some bs) :
    decodeUtf8like (bs ++ rest) = some (v, bs.length) := by
  by_cases h7 : v < 2 ^ 7
  · exact decode_case0 v h7 bs rest he
  by_cases h11 : v < 2 ^ 11
  · exact decode_case1 v h7 h11 bs rest he
  by_cases h16 : v < 2 ^ 16
  · exact decode_case2 v h11 h16 bs rest he
  by_cases h21 : v < 2 ^ 21
  · exact decode_case3 v h16 h21 bs rest he
  by_cases h26 : v < 2 ^ 26
  · exact decode_case4 v h21 h26 bs rest he
  · exact decode_case5 v h26 hv bs rest he

end Strict
end FlacVerif
