/-
Helper lemmas for C16 (CRC properties): GF(2)-linearity of the bitwise CRC register, the
zero-feed map `Z`, and the closed form `crcFold 0 b = Z^width (bitsToNat b)` for `|b| ≤ width`.
-/
import FlacVerif.Model.Codes
namespace FlacVerif

/-- Bitwise xor of two bit strings (truncating to the shorter one). -/
def xorBits (a b : Bits) : Bits := List.zipWith (· != ·) a b

namespace Crc

/-- The CRC register fold from an arbitrary start register. -/
def crcFold (p : CrcParams) (r : Nat) (bs : Bits) : Nat := bs.foldl (crcStepBit p) r

/-- Feeding `n` zero bits. -/
def zfeed (p : CrcParams) (n : Nat) (r : Nat) : Nat := crcFold p r (List.replicate n false)

theorem crcBits_eq_fold (p : CrcParams) (bs : Bits) : crcBits p bs = crcFold p p.init bs := rfl

@[simp] theorem crcFold_nil (p : CrcParams) (r : Nat) : crcFold p r [] = r := rfl
@[simp] theorem crcFold_cons (p : CrcParams) (r : Nat) (b : Bool) (bs : Bits) :
    crcFold p r (b :: bs) = crcFold p (crcStepBit p r b) bs := rfl
theorem crcFold_append (p : CrcParams) (r : Nat) (a b : Bits) :
    crcFold p r (a ++ b) = crcFold p (crcFold p r a) b := by
  simp [crcFold, List.foldl_append]

/-! ### xorBits -/

@[simp] theorem xorBits_length (a b : Bits) : (xorBits a b).length = min a.length b.length := by
  simp [xorBits]

theorem xorBits_append (a1 a2 b1 b2 : Bits) (h : a1.length = b1.length) :
    xorBits (a1 ++ a2) (b1 ++ b2) = xorBits a1 b1 ++ xorBits a2 b2 :=
  List.zipWith_append h

theorem xorBits_take (n : Nat) (a b : Bits) : (xorBits a b).take n = xorBits (a.take n) (b.take n) :=
  List.take_zipWith

theorem xorBits_drop (n : Nat) (a b : Bits) : (xorBits a b).drop n = xorBits (a.drop n) (b.drop n) :=
  List.drop_zipWith

theorem xorBits_replicate_false (n : Nat) :
    xorBits (List.replicate n false) (List.replicate n false) = List.replicate n false := by
  induction n with
  | zero => rfl
  | succ n ih => simp [xorBits, List.replicate_succ] at ih ⊢

theorem xorBits_replicate_false_left (b : Bits) :
    xorBits (List.replicate b.length false) b = b := by
  induction b with
  | nil => rfl
  | cons x xs ih => simpa [xorBits, List.replicate_succ] using ih

/-! ### one step -/

theorem step_eq (p : CrcParams) (r : Nat) (b : Bool) :
    crcStepBit p r b =
      (r * 2 % 2 ^ p.width) ^^^ (if (r.testBit (p.width - 1) != b) then p.poly else 0) := by
  by_cases h : (r.testBit (p.width - 1) != b) = true <;> simp [crcStepBit, h]

theorem shift_xor (w r1 r2 : Nat) :
    (r1 ^^^ r2) * 2 % 2 ^ w = (r1 * 2 % 2 ^ w) ^^^ (r2 * 2 % 2 ^ w) := by
  rw [← Nat.xor_mod_two_pow]
  congr 1
  have := @Nat.shiftLeft_xor_distrib 1 r1 r2
  simpa [Nat.shiftLeft_eq] using this

/-- The register update is GF(2)-linear in (register, input bit). -/
theorem step_linear (p : CrcParams) (r1 r2 : Nat) (b1 b2 : Bool) :
    crcStepBit p (r1 ^^^ r2) (b1 != b2) = crcStepBit p r1 b1 ^^^ crcStepBit p r2 b2 := by
  rw [step_eq, step_eq, step_eq, shift_xor, Nat.testBit_xor]
  generalize r1 * 2 % 2 ^ p.width = x
  generalize r2 * 2 % 2 ^ p.width = y
  generalize r1.testBit (p.width - 1) = t1
  generalize r2.testBit (p.width - 1) = t2
  cases t1 <;> cases t2 <;> cases b1 <;> cases b2 <;> simp <;>
    (apply Nat.eq_of_testBit_eq; intro i; simp only [Nat.testBit_xor]
     cases x.testBit i <;> cases y.testBit i <;> cases p.poly.testBit i <;> rfl)

theorem step_lt (p : CrcParams) (hp : p.poly < 2 ^ p.width) (r : Nat) (b : Bool) :
    crcStepBit p r b < 2 ^ p.width := by
  rw [step_eq]
  apply Nat.xor_lt_two_pow (Nat.mod_lt _ (Nat.two_pow_pos _))
  split
  · exact hp
  · exact Nat.two_pow_pos _

theorem step_zero_false (p : CrcParams) : crcStepBit p 0 false = 0 := by
  simp [crcStepBit]

theorem step_zero_true (p : CrcParams) : crcStepBit p 0 true = p.poly := by
  simp [crcStepBit]

/-- A zero-bit step reflects zero (the generator polynomial has a non-zero constant term). -/
theorem step_false_eq_zero (p : CrcParams) (hw : 0 < p.width) (hodd : p.poly % 2 = 1)
    (r : Nat) (h : crcStepBit p r false = 0) (hr : r < 2 ^ p.width) : r = 0 := by
  rw [step_eq] at h
  cases ht : r.testBit (p.width - 1) with
  | true =>
    exfalso
    rw [ht] at h
    have h0 := congrArg (fun n => n.testBit 0) h
    simp only [Nat.testBit_xor, Nat.testBit_mod_two_pow, hw, decide_true, Bool.true_and,
      Nat.zero_testBit] at h0
    have h1 : (r * 2).testBit 0 = false := by
      rw [Nat.testBit_zero]; simp
    have h2 : p.poly.testBit 0 = true := Nat.mod_two_eq_one_iff_testBit_zero.mp hodd
    simp [h1, h2] at h0
  | false =>
    rw [ht] at h
    simp only [Bool.bne_false, Bool.false_eq_true, if_false, Nat.xor_zero] at h
    -- r < 2^(w-1)
    have hlt : r < 2 ^ (p.width - 1) := by
      apply Nat.lt_pow_two_of_testBit
      intro j hj
      by_cases hj' : j = p.width - 1
      · rw [hj']; exact ht
      · have : j ≥ p.width := by omega
        exact Nat.testBit_lt_two_pow
          (Nat.lt_of_lt_of_le hr (Nat.pow_le_pow_right (by omega) this))
    have hpow : 2 ^ p.width = 2 ^ (p.width - 1) * 2 := by
      rw [← Nat.pow_succ]; congr 1; omega
    rw [Nat.mod_eq_of_lt (by omega)] at h
    omega

/-! ### folds -/

theorem crcFold_lt (p : CrcParams) (hp : p.poly < 2 ^ p.width) (r : Nat) (hr : r < 2 ^ p.width)
    (bs : Bits) : crcFold p r bs < 2 ^ p.width := by
  induction bs generalizing r with
  | nil => exact hr
  | cons b bs ih => exact ih _ (step_lt p hp r b)

theorem crcFold_linear (p : CrcParams) (r1 r2 : Nat) (a b : Bits) (h : a.length = b.length) :
    crcFold p (r1 ^^^ r2) (xorBits a b) = crcFold p r1 a ^^^ crcFold p r2 b := by
  induction a generalizing b r1 r2 with
  | nil =>
    cases b with
    | nil => rfl
    | cons _ _ => simp at h
  | cons x xs ih =>
    cases b with
    | nil => simp at h
    | cons y ys =>
      simp only [List.length_cons, Nat.add_right_cancel_iff] at h
      show crcFold p (crcStepBit p (r1 ^^^ r2) (x != y)) (xorBits xs ys) = _
      rw [step_linear, ih _ _ _ h]
      rfl

theorem zfeed_zero (p : CrcParams) (r : Nat) : zfeed p 0 r = r := rfl

theorem zfeed_succ (p : CrcParams) (n r : Nat) :
    zfeed p (n + 1) r = zfeed p n (crcStepBit p r false) := rfl

theorem zfeed_succ' (p : CrcParams) (n r : Nat) :
    zfeed p (n + 1) r = crcStepBit p (zfeed p n r) false := by
  unfold zfeed
  rw [List.replicate_succ', crcFold_append]
  rfl

theorem zfeed_of_zero (p : CrcParams) (n : Nat) : zfeed p n 0 = 0 := by
  induction n with
  | zero => rfl
  | succ n ih => rw [zfeed_succ, step_zero_false, ih]

theorem zfeed_lt (p : CrcParams) (hp : p.poly < 2 ^ p.width) (n r : Nat) (hr : r < 2 ^ p.width) :
    zfeed p n r < 2 ^ p.width := crcFold_lt p hp r hr _

theorem zfeed_linear (p : CrcParams) (n r1 r2 : Nat) :
    zfeed p n (r1 ^^^ r2) = zfeed p n r1 ^^^ zfeed p n r2 := by
  unfold zfeed
  rw [← crcFold_linear p r1 r2 _ _ rfl, xorBits_replicate_false]

theorem zfeed_eq_zero (p : CrcParams) (hw : 0 < p.width) (hp : p.poly < 2 ^ p.width)
    (hodd : p.poly % 2 = 1) (n r : Nat) (hr : r < 2 ^ p.width) (h : zfeed p n r = 0) : r = 0 := by
  induction n generalizing r with
  | zero => exact h
  | succ n ih =>
    rw [zfeed_succ] at h
    exact step_false_eq_zero p hw hodd r (ih _ (step_lt p hp r false) h) hr

/-- `Z^k 1 = 2^k` while no reduction takes place. -/
theorem zfeed_one (p : CrcParams) (k : Nat) (hk : k < p.width) : zfeed p k 1 = 2 ^ k := by
  induction k with
  | zero => rfl
  | succ k ih =>
    rw [zfeed_succ', ih (by omega), step_eq]
    have ht : (2 ^ k).testBit (p.width - 1) = false := by
      rw [Nat.testBit_two_pow]; simp; omega
    rw [ht]
    simp only [bne_self_eq_false, Bool.false_eq_true, if_false, Nat.xor_zero]
    rw [← Nat.pow_succ]
    exact Nat.mod_eq_of_lt (Nat.pow_lt_pow_right (by omega) hk)

/-- `Z^width 1 = poly`. -/
theorem zfeed_width_one (p : CrcParams) (hw : 0 < p.width) : zfeed p p.width 1 = p.poly := by
  obtain ⟨k, hk⟩ : ∃ k, p.width = k + 1 := ⟨p.width - 1, by omega⟩
  rw [hk, zfeed_succ', zfeed_one p k (by omega), step_eq]
  have ht : (2 ^ k).testBit (p.width - 1) = true := by
    rw [Nat.testBit_two_pow]; simp; omega
  rw [ht]
  have : 2 ^ k * 2 % 2 ^ p.width = 0 := by
    have e : 2 ^ k * 2 = 2 ^ p.width := by rw [hk, Nat.pow_succ]
    rw [e]; exact Nat.mod_self _
  simp [this]

/-! ### the "augmented" (plain polynomial division) fold and its relation to the CRC fold -/

/-- Shift the bit in at the bottom, then reduce. -/
def aStep (p : CrcParams) (a : Nat) (b : Bool) : Nat := crcStepBit p a false ^^^ b.toNat

def aFold (p : CrcParams) (a : Nat) (bs : Bits) : Nat := bs.foldl (aStep p) a

theorem crcStep_split (p : CrcParams) (r : Nat) (b : Bool) :
    crcStepBit p r b = crcStepBit p r false ^^^ (if b then p.poly else 0) := by
  have := step_linear p r 0 false b
  rw [Nat.xor_zero] at this
  cases b
  · simp
  · simp only [Bool.false_bne] at this
    rw [this, step_zero_true]; simp

theorem crcStep_zfeed (p : CrcParams) (hw : 0 < p.width) (a : Nat) (b : Bool) :
    crcStepBit p (zfeed p p.width a) b = zfeed p p.width (aStep p a b) := by
  rw [crcStep_split, aStep, zfeed_linear, ← zfeed_succ', zfeed_succ]
  congr 1
  cases b
  · simp [zfeed_of_zero]
  · simp [zfeed_width_one p hw]

theorem crcFold_zfeed (p : CrcParams) (hw : 0 < p.width) (a : Nat) (bs : Bits) :
    crcFold p (zfeed p p.width a) bs = zfeed p p.width (aFold p a bs) := by
  induction bs generalizing a with
  | nil => rfl
  | cons b bs ih =>
    rw [crcFold_cons, crcStep_zfeed p hw, ih]
    rfl

/-- No reduction happens while fewer than `width` significant bits are in the register. -/
theorem aFold_small (p : CrcParams) (k a : Nat) (bs : Bits) (ha : a < 2 ^ k)
    (hk : k + bs.length ≤ p.width) :
    aFold p a bs = a * 2 ^ bs.length + bitsToNat bs := by
  induction bs generalizing a k with
  | nil => simp [aFold, bitsToNat]
  | cons b bs ih =>
    simp only [List.length_cons] at hk
    have hstep : aStep p a b = 2 * a + b.toNat := by
      rw [aStep, step_eq]
      have ht : a.testBit (p.width - 1) = false :=
        Nat.testBit_lt_two_pow (Nat.lt_of_lt_of_le ha (Nat.pow_le_pow_right (by omega) (by omega)))
      rw [ht]
      simp only [bne_self_eq_false, Bool.false_eq_true, if_false, Nat.xor_zero]
      have h2 : a * 2 < 2 ^ p.width := by
        have : 2 ^ (k + 1) ≤ 2 ^ p.width := Nat.pow_le_pow_right (by omega) (by omega)
        rw [Nat.pow_succ] at this; omega
      rw [Nat.mod_eq_of_lt h2]
      cases b
      · simp [Nat.mul_comm]
      · simp only [Bool.toNat_true]
        rw [Nat.mul_comm a 2]
        apply Nat.eq_of_testBit_eq
        intro i
        rw [Nat.testBit_xor]
        cases i with
        | zero => simp [Nat.testBit_zero, Nat.add_mod]
        | succ i =>
          simp only [Nat.testBit_succ]
          have e1 : (2 * a + 1) / 2 = a := by omega
          have e2 : 2 * a / 2 = a := by omega
          rw [e1, e2]
          simp
    show aFold p (aStep p a b) bs = _
    rw [hstep, ih (k + 1) (2 * a + b.toNat) (by
      rw [Nat.pow_succ]; cases b <;> simp <;> omega) (by omega)]
    rw [bitsToNat_cons, List.length_cons, Nat.pow_succ, Nat.add_mul]
    have : 2 * a * 2 ^ bs.length = a * (2 ^ bs.length * 2) := by
      rw [Nat.mul_comm 2 a, Nat.mul_assoc, Nat.mul_comm 2]
    omega

/-- Closed form: feeding at most `width` bits into a zero register. -/
theorem crcFold_zero_short (p : CrcParams) (hw : 0 < p.width) (bs : Bits)
    (hl : bs.length ≤ p.width) :
    crcFold p 0 bs = zfeed p p.width (bitsToNat bs) := by
  have h := crcFold_zfeed p hw 0 bs
  rw [zfeed_of_zero] at h
  rw [h, aFold_small p 0 0 bs (by simp) (by omega)]
  simp

theorem bitsToNat_ne_zero (bs : Bits) (h : bs.any id = true) : bitsToNat bs ≠ 0 := by
  induction bs with
  | nil => simp at h
  | cons b bs ih =>
    rw [bitsToNat_cons]
    cases b
    · have h' : bs.any id = true := by simpa using h
      have := ih h'
      simpa using this
    · have := Nat.two_pow_pos bs.length
      simp only [Bool.toNat_true, Nat.one_mul]; omega

/-! ### the generic results -/

structure Good (p : CrcParams) : Prop where
  width_pos : 0 < p.width
  poly_lt : p.poly < 2 ^ p.width
  poly_odd : p.poly % 2 = 1
  init_zero : p.init = 0

theorem good_crc8 : Good rfcCrc8 := ⟨by decide, by decide, by decide, rfl⟩
theorem good_crc16 : Good rfcCrc16 := ⟨by decide, by decide, by decide, rfl⟩

theorem crcBits_lt (p : CrcParams) (hp : p.poly < 2 ^ p.width) (hi : p.init < 2 ^ p.width)
    (bs : Bits) : crcBits p bs < 2 ^ p.width := crcFold_lt p hp _ hi bs

theorem crcBits_linear (p : CrcParams) (hi : p.init = 0) (a b : Bits) (h : a.length = b.length) :
    crcBits p (xorBits a b) = crcBits p a ^^^ crcBits p b := by
  rw [crcBits_eq_fold, crcBits_eq_fold, crcBits_eq_fold, hi, ← crcFold_linear p 0 0 a b h]
  rfl

/-- A non-zero burst of at most `width` bits, anywhere, has a non-zero CRC. -/
theorem crcBits_burst_ne_zero (p : CrcParams) (g : Good p) (i t : Nat) (b : Bits)
    (hb : b.length ≤ p.width) (hnz : b.any id = true) :
    crcBits p (List.replicate i false ++ b ++ List.replicate t false) ≠ 0 := by
  rw [crcBits_eq_fold, g.init_zero, crcFold_append, crcFold_append]
  have h0 : crcFold p 0 (List.replicate i false) = 0 := zfeed_of_zero p i
  rw [h0, crcFold_zero_short p g.width_pos b hb]
  intro h
  have hlt : bitsToNat b < 2 ^ p.width :=
    Nat.lt_of_lt_of_le (bitsToNat_lt b) (Nat.pow_le_pow_right (by omega) hb)
  have h1 := zfeed_eq_zero p g.width_pos g.poly_lt g.poly_odd t _
    (zfeed_lt p g.poly_lt _ _ hlt) h
  have h2 := zfeed_eq_zero p g.width_pos g.poly_lt g.poly_odd _ _ hlt h1
  exact bitsToNat_ne_zero b hnz h2

theorem crcBits_burst (p : CrcParams) (g : Good p) (m : Bits) (i : Nat) (b : Bits)
    (hb : b.length ≤ p.width) (hnz : b.any id = true) (t : Nat)
    (hlen : m.length = i + b.length + t) :
    crcBits p (xorBits m (List.replicate i false ++ b ++ List.replicate t false)) ≠ crcBits p m := by
  rw [crcBits_linear p g.init_zero _ _ (by simp; omega)]
  intro h
  apply crcBits_burst_ne_zero p g i t b hb hnz
  have := congrArg (crcBits p m ^^^ ·) h
  simpa [← Nat.xor_assoc] using this

/-- Feeding the register's own value (MSB first) clears it. -/
theorem crcFold_own (p : CrcParams) (g : Good p) (r : Nat) (hr : r < 2 ^ p.width) :
    crcFold p r (natToBits p.width r) = 0 := by
  have hlin := crcFold_linear p r 0 (List.replicate p.width false) (natToBits p.width r) (by simp)
  have hx : xorBits (List.replicate p.width false) (natToBits p.width r) = natToBits p.width r := by
    have := xorBits_replicate_false_left (natToBits p.width r)
    rwa [natToBits_length] at this
  rw [Nat.xor_zero, hx] at hlin
  rw [hlin, crcFold_zero_short p g.width_pos _ (by simp), bitsToNat_natToBits,
    Nat.mod_eq_of_lt hr]
  exact Nat.xor_self _

theorem crcBits_accepts_own (p : CrcParams) (g : Good p) (m : Bits) :
    crcBits p (m ++ natToBits p.width (crcBits p m)) = 0 := by
  rw [crcBits_eq_fold, crcFold_append, ← crcBits_eq_fold]
  exact crcFold_own p g _ (crcBits_lt p g.poly_lt (by rw [g.init_zero]; exact Nat.two_pow_pos _) m)

/-- The check in the shape a parser performs it: if the stored `width`-bit value equals the CRC of
the preceding bits, the CRC over everything is zero. -/
theorem crcBits_zero_of_stored_eq (p : CrcParams) (g : Good p) (m c : Bits) (hc : c.length = p.width)
    (h : crcBits p m = bitsToNat c) : crcBits p (m ++ c) = 0 := by
  have : c = natToBits p.width (crcBits p m) := by
    rw [h, ← hc, natToBits_bitsToNat]
  rw [this]
  exact crcBits_accepts_own p g m

/-- Any non-zero error burst of at most `width` bits anywhere in `body ++ check` makes the
parser-side comparison fail. -/
theorem frame_burst_rejected (p : CrcParams) (g : Good p) (body e : Bits)
    (he : e.length = body.length + p.width)
    (hburst : ∃ i b t, e = List.replicate i false ++ b ++ List.replicate t false ∧
      b.length ≤ p.width ∧ b.any id = true) :
    crcBits p ((xorBits (body ++ natToBits p.width (crcBits p body)) e).take body.length) ≠
      bitsToNat ((xorBits (body ++ natToBits p.width (crcBits p body)) e).drop body.length) := by
  obtain ⟨i, b, t, hE, hb, hnz⟩ := hburst
  intro hEq
  have hlenF : (body ++ natToBits p.width (crcBits p body)).length = e.length := by simp [he]
  have hdl : ((xorBits (body ++ natToBits p.width (crcBits p body)) e).drop body.length).length
      = p.width := by
    simp [he]
  have hz := crcBits_zero_of_stored_eq p g _ _ hdl hEq
  rw [List.take_append_drop, crcBits_linear p g.init_zero _ _ hlenF, crcBits_accepts_own p g,
    Nat.zero_xor, hE] at hz
  exact crcBits_burst_ne_zero p g i t b hb hnz hz

end Crc
end FlacVerif
