/-
Strict round trip (C01/C02), part 22: every emitted frame is shorter than `2^24` bits (so its byte
length fits the 24-bit STREAMINFO fields), via C09.
-/
import FlacVerif.Lemmas.StrictFrame
import FlacVerif.Theorems.C09
namespace FlacVerif
namespace Strict

theorem encodeFrame_header (cfg : SubCfg) (st : StereoCfg) (chans : List (List Int)) (bps rate number : Nat)
    (log log' : List OEvent) (f : Frame) (h : encodeFrame cfg st chans bps rate number log = some (f, log')) :
    ∃ asg, headerFor asg (chans.headD []).length bps rate number = some f.header := by
  unfold encodeFrame at h
  simp only [Option.bind_eq_some_iff] at h
  obtain ⟨⟨indep, l1⟩, _, h⟩ := h
  split at h
  · simp only [Option.bind_eq_some_iff] at h
    obtain ⟨⟨msSubs, l2⟩, _, h⟩ := h
    split at h
    · simp only [Option.map_eq_some_iff, Prod.mk.injEq] at h
      obtain ⟨hdr, hh, rfl, _⟩ := h
      exact ⟨_, hh⟩
    · exact absurd h (by simp)
  · split at h
    · exact absurd h (by simp)
    · simp only [Option.map_eq_some_iff, Prod.mk.injEq] at h
      obtain ⟨hdr, hh, rfl, _⟩ := h
      exact ⟨_, hh⟩

theorem mapM_count_eq (l : List SubFrame) (subs : List Nat) (h : l.mapM SubFrame.count = some subs) :
    subs = l.map cnt :=
  (mapM_spec SubFrame.count cnt (fun _ => True) (fun s v hv => ⟨by simp [cnt, hv], trivial⟩) l subs h).1

theorem header_count_le (hdr : FrameHeader) (asg : ChannelAssignment) (n bps rate number : Nat)
    (hnum : number < 2 ^ 31) (hh : headerFor asg n bps rate number = some hdr) : hdr.count ≤ 120 := by
  unfold headerFor at hh
  simp only [Option.bind_eq_bind, Option.bind_eq_some_iff, Option.some.injEq] at hh
  obtain ⟨bss, _, rfl⟩ := hh
  simp only [FrameHeader.count, FrameHeader.number, Bool.false_eq_true, if_false]
  have h1 : utf8likeBytesize number ≤ 6 := by
    unfold utf8likeBytesize
    have := (Repo.bitLen_le_iff number 31).2 hnum
    simp only []
    split <;> omega
  have h2 : bss.extraBits.length ≤ 16 := by cases bss <;> simp [BlockSizeSpec.extraBits]
  have h3 : ((SampleRateSpec.fromFreq rate).getD .unspecified).extraBits.length ≤ 16 := by
    cases (SampleRateSpec.fromFreq rate).getD .unspecified <;> simp [SampleRateSpec.extraBits]
  omega

/-- The reported size of an emitted frame is below `2^24` bits. -/
theorem frame_count_lt (cfg : SubCfg) (st : StereoCfg) (chans : List (List Int)) (bps rate number n : Nat)
    (log log' : List OEvent) (f : Frame) (c : Nat)
    (hch : chans.length ≤ 8) (hlen : ∀ c ∈ chans, c.length = n) (hn : 1 ≤ n ∧ n < 2 ^ 16) (hb : bps ≤ 24)
    (hnum : number < 2 ^ 31) (h : encodeFrame cfg st chans bps rate number log = some (f, log'))
    (hc : f.count = some c) : c < 2 ^ 24 := by
  obtain ⟨asg, hh⟩ := encodeFrame_header cfg st chans bps rate number log log' f h
  have hhc := header_count_le f.header asg _ bps rate number hnum hh
  obtain ⟨hsub, _⟩ := C09.C09_frame cfg st chans bps rate number n log log' f hn.1 hlen h
  unfold Frame.count at hc
  simp only [Option.bind_eq_bind, Option.bind_eq_some_iff, Option.some.injEq] at hc
  obtain ⟨subs, hsubs, rfl⟩ := hc
  have := mapM_count_eq _ _ hsubs
  subst this
  have hst : (f.subframes.map cnt).foldl (· + ·) 0 ≤ 8 * (8 + 65535 * 24) := by
    have h1 : n * bps ≤ 65535 * 24 := Nat.mul_le_mul (by omega) hb
    have h2 : chans.length * verbatimBits n bps ≤ 8 * (8 + 65535 * 24) :=
      Nat.mul_le_mul hch (by unfold verbatimBits; omega)
    exact Nat.le_trans hsub h2
  omega

end Strict
end FlacVerif
