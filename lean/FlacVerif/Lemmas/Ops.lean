/-
Helper lemmas for C12: the operation sequences of `Model/Ops.lean` write the component bit strings
of `Model/Component.lean`, every operation is valid, and prefixes of operation sequences write
prefixes of the bit string.
-/
import FlacVerif.Model.Ops
import FlacVerif.Theorems.C11
import FlacVerif.Theorems.C08
import FlacVerif.Lemmas.Crc
namespace FlacVerif.OpsL
open FlacVerif FlacVerif.C11

/-! ### `natToBits` arithmetic -/

theorem natToBits_ext (w a b : Nat) (h : ∀ i, i < w → a.testBit i = b.testBit i) :
    natToBits w a = natToBits w b := by
  induction w with
  | zero => rfl
  | succ w ih =>
    rw [natToBits, natToBits, h w (Nat.lt_succ_self w), ih (fun i hi => h i (Nat.lt_succ_of_lt hi))]

/-- Reducing the operand modulo a power of two at least as large as the field is a no-op. -/
theorem natToBits_mod (w k n : Nat) (h : w ≤ k) : natToBits w (n % 2 ^ k) = natToBits w n := by
  apply natToBits_ext
  intro i hi
  rw [Nat.testBit_mod_two_pow]
  simp [show i < k by omega]

theorem natToBits_mod256 (w n : Nat) (h : w ≤ 8) : natToBits w (n % 256) = natToBits w n :=
  natToBits_mod w 8 n h

/-- `write_msbs(x << (W - n), n)` writes the `n` low bits of `x` (no bound on `x` needed). -/
theorem take_natToBits_shift (W n x : Nat) (h : n ≤ W) :
    (natToBits W ((x <<< (W - n)) % 2 ^ W)).take n = natToBits n x := by
  apply List.ext_getElem
  · simp [List.length_take]; omega
  · intro j hj1 hj2
    have hj : j < n := by simpa using hj2
    rw [List.getElem_take, getElem_natToBits, getElem_natToBits, Nat.testBit_mod_two_pow,
      Nat.testBit_shiftLeft]
    have a1 : W - 1 - j < W := by omega
    have a2 : W - 1 - j ≥ W - n := by omega
    have a3 : W - 1 - j - (W - n) = n - 1 - j := by omega
    simp [a1, a2, a3]

theorem or_shift_lt (rem p : Nat) (h : rem < 2 ^ p) : rem ||| (1 <<< p) < 2 ^ (p + 1) := by
  apply Nat.or_lt_two_pow
  · exact Nat.lt_of_lt_of_le h (Nat.pow_le_pow_right (by decide) (Nat.le_succ p))
  · rw [Nat.shiftLeft_eq, Nat.one_mul]; exact Nat.pow_lt_pow_right (by decide) (Nat.lt_succ_self p)

/-! ### packing a whole number of bytes -/

theorem bytesToBits_cons (b : Nat) (bs : List Nat) :
    bytesToBits (b :: bs) = natToBits 8 b ++ bytesToBits bs := by simp [bytesToBits]

theorem bytesToBits_packBytes (b : Bits) (h : 8 ∣ b.length) : bytesToBits (packBytes b) = b := by
  induction hn : b.length using Nat.strongRecOn generalizing b with
  | _ n ih =>
    cases b with
    | nil => simp [packBytes, bytesToBits]
    | cons b0 rest =>
      have hlen : 8 ≤ (b0 :: rest).length := Nat.le_of_dvd (by simp) h
      rw [packBytes, bytesToBits_cons]
      have htake : ((b0 :: rest).take 8).length = 8 := by rw [List.length_take]; omega
      have hdrop : 8 ∣ ((b0 :: rest).drop 8).length := by
        rw [List.length_drop]; omega
      rw [ih _ (by rw [List.length_drop]; omega) _ hdrop rfl]
      simp only [htake, Nat.sub_self, List.replicate_zero, List.append_nil]
      have := natToBits_bitsToNat ((b0 :: rest).take 8)
      rw [htake] at this
      rw [this, List.take_append_drop]

theorem packBytes_lt (b : Bits) : ∀ x ∈ packBytes b, x < 256 := by
  induction hn : b.length using Nat.strongRecOn generalizing b with
  | _ n ih =>
    cases b with
    | nil => simp [packBytes]
    | cons b0 rest =>
      rw [packBytes]
      intro x hx
      rcases List.mem_cons.mp hx with rfl | hx
      · have := bitsToNat_lt (List.take 8 (b0 :: rest) ++ List.replicate (8 - (List.take 8 (b0 :: rest)).length) false)
        have hl : (List.take 8 (b0 :: rest) ++ List.replicate (8 - (List.take 8 (b0 :: rest)).length) false).length = 8 := by
          simp only [List.length_append, List.length_replicate, List.length_take]; omega
        rw [hl] at this; exact this
      · exact ih _ (by rw [← hn, List.length_drop]; simp; omega) _ rfl x hx

/-! ### position-independent operations -/

/-- Operations whose ideal output does not depend on the current length. -/
def free : Op → Bool
  | .alignToByte => false
  | .writeBytesAligned _ => false
  | _ => true

theorem ideal_free (op : Op) (h : free op = true) (len : Nat) : op.ideal len = op.ideal 0 := by
  cases op <;> simp_all [free, Op.ideal]

theorem idealRun_free (ops : List Op) (h : ∀ op ∈ ops, free op = true) (len : Nat) :
    idealRun len ops = ops.flatMap (Op.ideal 0) := by
  induction ops generalizing len with
  | nil => rfl
  | cons op ops ih =>
    simp only [idealRun, List.flatMap_cons]
    rw [ideal_free op (h op (by simp)) len, ih (fun o ho => h o (by simp [ho]))]


theorem getD_le (l : List Nat) (c : Nat) (h : ∀ p ∈ l, p ≤ c) (k : Nat) : l.getD k 0 ≤ c := by
  by_cases hk : k < l.length
  · rw [List.getD_eq_getElem?_getD, List.getElem?_eq_getElem hk]; exact h _ (List.getElem_mem hk)
  · rw [List.getD_eq_getElem?_getD, List.getElem?_eq_none (by omega)]; simp

theorem flatMap_congr' {α β : Type} (l : List α) (f g : α → List β) (h : ∀ x ∈ l, f x = g x) :
    l.flatMap f = l.flatMap g := by
  induction l with
  | nil => rfl
  | cons x l ih => rw [List.flatMap_cons, List.flatMap_cons, h x (by simp), ih (fun y hy => h y (by simp [hy]))]

theorem flatMap_flatMap' {α β γ : Type} (l : List α) (f : α → List β) (g : β → List γ) :
    (l.flatMap f).flatMap g = l.flatMap (fun x => (f x).flatMap g) := by
  induction l with
  | nil => rfl
  | cons x l ih => rw [List.flatMap_cons, List.flatMap_cons, List.flatMap_append, ih]

theorem flatMap_map' {α β γ : Type} (l : List α) (f : α → β) (g : β → List γ) :
    (l.map f).flatMap g = l.flatMap (fun x => g (f x)) := by
  induction l with
  | nil => rfl
  | cons x l ih => rw [List.map_cons, List.flatMap_cons, List.flatMap_cons, ih]

/-! ### residuals -/

theorem residual_free (r : Residual) : ∀ op ∈ r.ops, free op = true := by
  intro op hop
  simp only [Residual.ops, List.mem_cons, List.mem_flatMap, List.mem_range] at hop
  rcases hop with rfl | ⟨k, _, rfl | ⟨i, _, hi⟩⟩
  · rfl
  · rfl
  · simp only [List.not_mem_nil, or_false] at hi
    rcases hi with rfl | rfl <;> rfl

theorem sample_ideal (p q rem : Nat) (hp : p ≤ 31) :
    [Op.writeZeros q, Op.writeMsbs 32 (((rem ||| (1 <<< p)) <<< (32 - (p + 1))) % 2 ^ 32) (p + 1)].flatMap
      (Op.ideal 0) = Residual.sampleBits p q rem := by
  simp only [List.flatMap_cons, List.flatMap_nil, Op.ideal, Residual.sampleBits, List.append_nil]
  rw [take_natToBits_shift 32 (p + 1) _ (by omega)]

/-- Only `p ≤ 31` is needed for the bit strings to agree. -/
theorem residual_ops (r : Residual) (hp : ∀ p ∈ r.params, p ≤ 31) (len : Nat) :
    idealRun len r.ops = r.bits := by
  rw [idealRun_free _ (residual_free r)]
  unfold Residual.ops Residual.bits
  rw [List.flatMap_cons, flatMap_flatMap']
  congr 1
  apply flatMap_congr'
  intro k _
  have hk : r.params.getD k 0 ≤ 31 := getD_le _ _ hp k
  unfold Residual.partBits
  simp only []
  rw [List.flatMap_cons, flatMap_flatMap']
  congr 1
  apply flatMap_congr'
  intro i _
  exact sample_ideal _ _ _ hk

/-! ### subframes -/

theorem twoc_map_free (xs : List Int) (b : Nat) : ∀ op ∈ xs.map (fun x => Op.writeTwoc x b), free op = true := by
  intro op hop
  obtain ⟨x, _, rfl⟩ := List.mem_map.mp hop
  rfl

theorem twoc_map_ideal (xs : List Int) (b : Nat) :
    (xs.map (fun x => Op.writeTwoc x b)).flatMap (Op.ideal 0) = xs.flatMap (twoc b) := by
  rw [flatMap_map']; rfl

theorem subframe_free (s : SubFrame) : ∀ op ∈ s.ops, free op = true := by
  intro op hop
  cases s with
  | constant n dc bps =>
    simp only [SubFrame.ops, List.mem_cons, List.not_mem_nil, or_false] at hop
    rcases hop with rfl | rfl <;> rfl
  | verbatim xs bps =>
    simp only [SubFrame.ops, List.mem_cons] at hop
    rcases hop with rfl | hop
    · rfl
    · exact twoc_map_free _ _ _ hop
  | fixed warm res bps =>
    simp only [SubFrame.ops, List.mem_cons, List.mem_append] at hop
    rcases hop with (rfl | hop) | hop
    · rfl
    · exact twoc_map_free _ _ _ hop
    · exact residual_free _ _ hop
  | lpc warm coefs shift precision res bps =>
    simp only [SubFrame.ops, List.mem_cons, List.mem_append, List.not_mem_nil, or_false] at hop
    rcases hop with (((rfl | hop) | (rfl | rfl)) | hop) | hop
    · rfl
    · exact twoc_map_free _ _ _ hop
    · rfl
    · rfl
    · exact twoc_map_free _ _ _ hop
    · exact residual_free _ _ hop

theorem lpc_head (c : Nat) :
    natToBits 8 ((0x40 ||| ((c % 256) <<< 1)) % 256) = natToBits 8 (0x40 ||| (c <<< 1)) := by
  rw [natToBits_mod256 _ _ (Nat.le_refl 8)]
  apply natToBits_ext
  intro i hi
  rw [Nat.testBit_or, Nat.testBit_or, Nat.testBit_shiftLeft, Nat.testBit_shiftLeft,
    show (256 : Nat) = 2 ^ 8 from rfl, Nat.testBit_mod_two_pow]
  by_cases h1 : i ≥ 1
  · simp [h1, show i - 1 < 8 by omega]
  · simp [h1]

/-- The residual parameters and (for LPC) the warm-up length are all that is needed. -/
theorem subframe_ops (s : SubFrame) (h : s.WF) (len : Nat) : idealRun len s.ops = s.bits := by
  rw [idealRun_free _ (subframe_free s)]
  cases s with
  | constant n dc bps =>
    simp only [SubFrame.ops, SubFrame.bits, List.flatMap_cons, List.flatMap_nil, Op.ideal, List.append_nil]
  | verbatim xs bps =>
    simp only [SubFrame.ops, SubFrame.bits, List.flatMap_cons, twoc_map_ideal, Op.ideal]
  | fixed warm res bps =>
    obtain ⟨_, _, hr, _⟩ := h
    have hp : ∀ p ∈ res.params, p ≤ 31 := fun p hp => Nat.le_trans (hr.2.2.2.2.2.2.2.1 p hp) (by decide)
    simp only [SubFrame.ops, SubFrame.bits, List.flatMap_cons, List.flatMap_append, twoc_map_ideal]
    rw [← idealRun_free _ (residual_free res) 0, residual_ops res hp]
    simp only [Op.ideal]
    rw [natToBits_mod256 _ _ (Nat.le_refl 8), List.append_assoc]
  | lpc warm coefs shift precision res bps =>
    obtain ⟨_, _, hwc, _, hr, _⟩ := h
    have hp : ∀ p ∈ res.params, p ≤ 31 := fun p hp => Nat.le_trans (hr.2.2.2.2.2.2.2.1 p hp) (by decide)
    simp only [SubFrame.ops, SubFrame.bits, List.flatMap_cons, List.flatMap_append, twoc_map_ideal,
      List.flatMap_nil, List.append_nil]
    rw [← idealRun_free _ (residual_free res) 0, residual_ops res hp,
      List.take_of_length_le (Nat.le_of_eq hwc)]
    simp only [Op.ideal]
    rw [lpc_head]
    simp only [List.append_assoc]

/-! ### prefixes: a sink failing on its `k`-th call -/

theorem idealRun_take_prefix (len : Nat) (ops : List Op) (k : Nat) :
    idealRun len (ops.take k) <+: idealRun len ops := by
  have h : idealRun len ops = idealRun len (ops.take k ++ ops.drop k) := by rw [List.take_append_drop]
  rw [h, idealRun_append]
  exact List.prefix_append _ _

theorem failing_sink (ops : List Op) (hv : ∀ op ∈ ops, op.Valid) (bits : Bits) (hb : idealRun 0 ops = bits)
    (k : Nat) :
    (k < (ops.flatMap Op.expand).length →
      ∃ acc, writeFailing ops k = .sinkError acc ∧ acc.length = k ∧ idealRun 0 acc <+: bits) ∧
    ((ops.flatMap Op.expand).length ≤ k → writeFailing ops k = .done) := by
  constructor
  · intro hk
    refine ⟨(ops.flatMap Op.expand).take k, by unfold writeFailing; exact if_pos hk, ?_, ?_⟩
    · rw [List.length_take]; omega
    · rw [← hb, ← C11_defaults 0 ops hv]
      exact idealRun_take_prefix 0 _ k
  · intro hk
    unfold writeFailing; exact if_neg (by omega)

/-! ### byte-aligned blocks -/

/-- Started at any byte-aligned position, `ops` writes `b`, a whole number of bytes. -/
def Aligned (ops : List Op) (b : Bits) : Prop :=
  8 ∣ b.length ∧ ∀ len, len % 8 = 0 → idealRun len ops = b

theorem Aligned.nil : Aligned [] [] := ⟨by simp, fun _ _ => rfl⟩

theorem Aligned.append {o1 o2 : List Op} {b1 b2 : Bits} (h1 : Aligned o1 b1) (h2 : Aligned o2 b2) :
    Aligned (o1 ++ o2) (b1 ++ b2) := by
  obtain ⟨d1, r1⟩ := h1
  obtain ⟨d2, r2⟩ := h2
  refine ⟨by rw [List.length_append]; omega, fun len hl => ?_⟩
  rw [idealRun_append, r1 len hl, r2 _ (by omega)]

/-- Pointwise relation between two lists (core has no `Forall₂`). -/
inductive Forall2 {α β : Type} (R : α → β → Prop) : List α → List β → Prop
  | nil : Forall2 R [] []
  | cons {a b l1 l2} : R a b → Forall2 R l1 l2 → Forall2 R (a :: l1) (b :: l2)

theorem Aligned.flatten {os : List (List Op)} {bs : List Bits} (h : Forall2 Aligned os bs) :
    Aligned os.flatten bs.flatten := by
  induction h with
  | nil => exact Aligned.nil
  | cons h _ ih => simp only [List.flatten_cons]; exact h.append ih

theorem Aligned.flatMap_range (n : Nat) (f : Nat → List Op) (g : Nat → Bits)
    (h : ∀ i, i < n → Aligned (f i) (g i)) : Aligned ((List.range n).flatMap f) ((List.range n).flatMap g) := by
  induction n with
  | zero => exact Aligned.nil
  | succ n ih =>
    rw [List.range_succ, List.flatMap_append, List.flatMap_append]
    refine (ih (fun i hi => h i (by omega))).append ?_
    simpa using h n (Nat.lt_succ_self n)

theorem Aligned.of_free (ops : List Op) (hf : ∀ op ∈ ops, free op = true) (b : Bits)
    (hb : ops.flatMap (Op.ideal 0) = b) (h8 : 8 ∣ b.length) : Aligned ops b :=
  ⟨h8, fun len _ => by rw [idealRun_free ops hf, hb]⟩

theorem pad_zero (len : Nat) (h : len % 8 = 0) : (8 - len % 8) % 8 = 0 := by omega

theorem Aligned.bytes (bs : List Nat) : Aligned [.writeBytesAligned bs] (bytesToBits bs) := by
  refine ⟨by rw [Count.bytesToBits_length]; exact Nat.dvd_mul_right 8 _, fun len hl => ?_⟩
  simp [idealRun, Op.ideal, pad_zero len hl]

/-- Free operations followed by `write_bytes_aligned` at a position that happens to be aligned. -/
theorem Aligned.free_then_bytes (ops : List Op) (hf : ∀ op ∈ ops, free op = true) (bs : List Nat)
    (h8 : 8 ∣ (ops.flatMap (Op.ideal 0)).length) :
    Aligned (ops ++ [.writeBytesAligned bs]) (ops.flatMap (Op.ideal 0) ++ bytesToBits bs) :=
  (Aligned.of_free ops hf _ rfl h8).append (Aligned.bytes bs)

/-- A buffered body forwarded as bytes, then its checksum. -/
theorem Aligned.bytes_then_write (body : Bits) (h8 : 8 ∣ body.length) (w v : Nat) (hw : 8 ∣ w) :
    Aligned [.writeBytesAligned (packBytes body), .write w v] (body ++ natToBits w v) := by
  have h1 := Aligned.bytes (packBytes body)
  rw [bytesToBits_packBytes body h8] at h1
  exact h1.append (Aligned.of_free [.write w v] (by simp [free]) _ (by simp [Op.ideal]) (by simpa using hw))

/-! ### STREAMINFO -/

/-- No fitting hypothesis is needed: `StreamInfo.bits` truncates each field exactly as the
narrowing casts in front of the sink calls do. -/
theorem streaminfo_aligned (s : StreamInfo) : Aligned s.ops s.bits := by
  unfold StreamInfo.ops StreamInfo.bits
  generalize (if s.minFrame > s.maxFrame then ((0 : Nat), (0 : Nat)) else (s.minFrame, s.maxFrame)) = mm
  obtain ⟨mn, mx⟩ := mm
  have h := Aligned.free_then_bytes
    [ .write 16 (s.minBlock % 2 ^ 16), .write 16 (s.maxBlock % 2 ^ 16),
      .writeLsbs 32 (mn % 2 ^ 32) 24, .writeLsbs 32 (mx % 2 ^ 32) 24,
      .writeLsbs 32 (s.rate % 2 ^ 32) 20, .writeLsbs 8 ((s.channels - 1) % 256) 3,
      .writeLsbs 8 ((s.bps - 1) % 256) 5, .writeLsbs 64 (s.total % 2 ^ 64) 36 ]
    (by intro op hop; simp only [List.mem_cons, List.not_mem_nil, or_false] at hop
        rcases hop with rfl | rfl | rfl | rfl | rfl | rfl | rfl | rfl <;> rfl)
    s.md5
    (by simp only [List.flatMap_cons, List.flatMap_nil, Op.ideal, List.length_append, natToBits_length,
          List.length_nil]; decide)
  simp only [List.flatMap_cons, List.flatMap_nil, Op.ideal, List.append_nil, List.cons_append,
    List.nil_append] at h
  rw [natToBits_mod 16 16 _ (by decide), natToBits_mod 16 16 _ (by decide),
    natToBits_mod 24 32 _ (by decide), natToBits_mod 24 32 _ (by decide), natToBits_mod 20 32 _ (by decide),
    natToBits_mod256 3 _ (by decide), natToBits_mod256 5 _ (by decide), natToBits_mod 36 64 _ (by decide)] at h
  simpa only [List.append_assoc] using h

/-! ### frame headers -/

theorem blockSizeSpec_extra_dvd (b : BlockSizeSpec) : 8 ∣ b.extraBits.length := by
  cases b <;> simp [BlockSizeSpec.extraBits] <;> decide

theorem sampleRateSpec_extra_dvd (b : SampleRateSpec) : 8 ∣ b.extraBits.length := by
  cases b <;> simp [SampleRateSpec.extraBits] <;> decide

/-- The header body is a whole number of bytes. -/
theorem bodyBits_dvd (h : FrameHeader) (b : Bits) (hb : h.bodyBits = some b) : 8 ∣ b.length := by
  unfold FrameHeader.bodyBits at hb
  cases hn : encodeUtf8like h.number with
  | none => simp [hn] at hb
  | some num =>
    simp only [hn, Option.bind_eq_bind, Option.bind_some] at hb
    split at hb
    · simp at hb
    · simp only [Option.some.injEq] at hb
      subst hb
      simp only [List.length_append, natToBits_length, Count.bytesToBits_length]
      have h1 := blockSizeSpec_extra_dvd h.blockSizeSpec
      have h2 := sampleRateSpec_extra_dvd h.sampleRateSpec
      omega

theorem header_aligned (p8 : CrcParams) (h : FrameHeader) (ops : List Op) (ho : h.ops p8 = some ops) :
    ∃ b, h.bits p8 = some b ∧ Aligned ops b := by
  unfold FrameHeader.ops at ho
  cases hb : h.bodyBits with
  | none => simp [hb] at ho
  | some body =>
    simp only [hb, Option.bind_eq_bind, Option.bind_some, Option.some.injEq] at ho
    subst ho
    refine ⟨body ++ natToBits 8 (crcBits p8 body), by simp [FrameHeader.bits, hb], ?_⟩
    exact Aligned.bytes_then_write body (bodyBits_dvd h body hb) 8 _ (by decide)

/-! ### frames -/

theorem padTo8_dvd (bs : Bits) : 8 ∣ (Frame.padTo8 bs).length := by
  rw [Count.padTo8_length]; exact Nat.dvd_mul_left 8 _

theorem frame_aligned (p8 p16 : CrcParams) (f : Frame) (ops : List Op) (ho : Frame.ops p8 p16 f = some ops) :
    ∃ b, f.bits p8 p16 = some b ∧ Aligned ops b := by
  unfold Frame.ops at ho
  cases hh : f.header.bits p8 with
  | none => simp [hh] at ho
  | some hb =>
    simp only [hh, Option.bind_eq_bind, Option.bind_some, Option.some.injEq] at ho
    subst ho
    refine ⟨Frame.padTo8 (hb ++ f.subframes.flatMap SubFrame.bits) ++
      natToBits 16 (crcBits p16 (Frame.padTo8 (hb ++ f.subframes.flatMap SubFrame.bits))),
      by simp only [Frame.bits, hh, Option.bind_eq_bind, Option.bind_some], ?_⟩
    exact Aligned.bytes_then_write _ (padTo8_dvd _) 16 _ (by decide)

theorem frame_bits_dvd (p8 p16 : CrcParams) (f : Frame) (b : Bits) (hb : f.bits p8 p16 = some b) :
    8 ∣ b.length := by
  unfold Frame.bits at hb
  cases hh : f.header.bits p8 with
  | none => simp [hh] at hb
  | some h =>
    simp only [hh, Option.bind_eq_bind, Option.bind_some, Option.some.injEq] at hb
    subst hb
    rw [List.length_append, natToBits_length]
    have := padTo8_dvd (h ++ f.subframes.flatMap SubFrame.bits)
    omega

theorem frame_precomputed_aligned (p8 p16 : CrcParams) (f : Frame) (ops : List Op)
    (ho : Frame.opsPrecomputed p8 p16 f = some ops) : ∃ b, f.bits p8 p16 = some b ∧ Aligned ops b := by
  unfold Frame.opsPrecomputed at ho
  cases hb : f.bits p8 p16 with
  | none => simp [hb] at ho
  | some b =>
    simp only [hb, Option.bind_eq_bind, Option.bind_some, Option.some.injEq] at ho
    subst ho
    refine ⟨b, rfl, ?_⟩
    have h1 := Aligned.bytes (packBytes b)
    rwa [bytesToBits_packBytes b (frame_bits_dvd p8 p16 f b hb)] at h1

/-! ### streams -/

/-- Two option-valued maps related pointwise on success of the first. -/
theorem mapM_forall2 {α β γ : Type} (f : α → Option β) (g : α → Option γ) (R : β → γ → Prop) (l : List α)
    (h : ∀ x ∈ l, ∀ o, f x = some o → ∃ b, g x = some b ∧ R o b) (os : List β) (ho : l.mapM f = some os) :
    ∃ bs, l.mapM g = some bs ∧ Forall2 R os bs := by
  induction l generalizing os with
  | nil =>
    simp only [List.mapM_nil, Option.pure_def, Option.some.injEq] at ho
    subst ho
    exact ⟨[], by simp, Forall2.nil⟩
  | cons x l ih =>
    rw [List.mapM_cons] at ho
    cases hx : f x with
    | none => simp [hx] at ho
    | some o =>
      cases hl : l.mapM f with
      | none => simp [hx, hl] at ho
      | some os' =>
        simp only [hx, hl, Option.bind_eq_bind, Option.bind_some, Option.pure_def, Option.some.injEq] at ho
        subst ho
        obtain ⟨b, hb, hr⟩ := h x (by simp) o hx
        obtain ⟨bs, hbs, hrs⟩ := ih (fun y hy => h y (by simp [hy])) os' hl
        refine ⟨b :: bs, ?_, Forall2.cons hr hrs⟩
        rw [List.mapM_cons, hb, hbs]; simp

theorem blockHeader_aligned (isLast : Bool) (tag len : Nat) :
    Aligned (blockHeaderOps isLast tag len) (Stream.blockHeader isLast tag len) := by
  apply Aligned.of_free
  · intro op hop
    simp only [blockHeaderOps, List.mem_cons, List.not_mem_nil, or_false] at hop
    rcases hop with rfl | rfl <;> rfl
  · simp only [blockHeaderOps, Stream.blockHeader, List.flatMap_cons, List.flatMap_nil, Op.ideal,
      List.append_nil]
    rw [natToBits_mod256 8 _ (by decide), natToBits_mod 24 32 _ (by decide)]
  · rw [Count.blockHeader_length]; decide

theorem stream_aligned (p8 p16 : CrcParams) (s : Stream) (ops : List Op) (ho : Stream.ops p8 p16 s = some ops) :
    ∃ b, s.bits p8 p16 = some b ∧ Aligned ops b := by
  unfold Stream.ops at ho
  cases hf : s.frames.mapM (Frame.ops p8 p16) with
  | none => simp [hf] at ho
  | some fops =>
    simp only [hf, Option.bind_eq_bind, Option.bind_some, Option.some.injEq] at ho
    subst ho
    obtain ⟨fbits, hfb, hrel⟩ := mapM_forall2 (Frame.ops p8 p16) (Frame.bits p8 p16) Aligned s.frames
      (fun f _ o hfo => frame_aligned p8 p16 f o hfo) fops hf
    refine ⟨bytesToBits [0x66, 0x4C, 0x61, 0x43] ++ Stream.blockHeader (s.metadata.length = 0) 0 34 ++ s.info.bits ++
      ((List.range s.metadata.length).flatMap fun i =>
        Stream.blockHeader (i + 1 = s.metadata.length) (s.metadata.getD i ⟨0, []⟩).tag
          (s.metadata.getD i ⟨0, []⟩).data.length ++ bytesToBits (s.metadata.getD i ⟨0, []⟩).data) ++
      fbits.flatten, by simp only [Stream.bits, hfb, Option.bind_eq_bind, Option.bind_some], ?_⟩
    have hmark : Aligned [Op.writeBytesAligned [0x66, 0x4C, 0x61, 0x43]] (bytesToBits [0x66, 0x4C, 0x61, 0x43]) :=
      Aligned.bytes _
    have hmeta := Aligned.flatMap_range s.metadata.length
      (fun i => blockHeaderOps (i + 1 = s.metadata.length) (s.metadata.getD i ⟨0, []⟩).tag
          (s.metadata.getD i ⟨0, []⟩).data.length ++ [Op.writeBytesAligned (s.metadata.getD i ⟨0, []⟩).data])
      (fun i => Stream.blockHeader (i + 1 = s.metadata.length) (s.metadata.getD i ⟨0, []⟩).tag
          (s.metadata.getD i ⟨0, []⟩).data.length ++ bytesToBits (s.metadata.getD i ⟨0, []⟩).data)
      (fun i _ => (blockHeader_aligned _ _ _).append (Aligned.bytes _))
    exact ((((hmark.append (blockHeader_aligned _ _ _)).append (streaminfo_aligned s.info)).append hmeta).append
      (Aligned.flatten hrel))

/-! ### validity of every issued operation -/

theorem residual_valid' (r : Residual) (ho : r.order < 2 ^ 32) (hp : ∀ p ∈ r.params, p ≤ 31) :
    ∀ op ∈ r.ops, op.Valid := by
  intro op hop
  simp only [Residual.ops, List.mem_cons, List.mem_flatMap, List.mem_range] at hop
  rcases hop with rfl | ⟨k, _, rfl | ⟨i, _, hi⟩⟩
  · exact ⟨rfl, ho, by decide⟩
  · have := getD_le _ _ hp k
    exact ⟨rfl, by omega, by decide⟩
  · simp only [List.not_mem_nil, or_false] at hi
    rcases hi with rfl | rfl
    · trivial
    · have := getD_le _ _ hp k
      exact ⟨rfl, Nat.mod_lt _ (by decide), by omega⟩

theorem residual_valid (r : Residual) (h : r.WF) : ∀ op ∈ r.ops, op.Valid :=
  residual_valid' r (Nat.lt_of_le_of_lt h.1 (by decide))
    (fun p hp => Nat.le_trans (h.2.2.2.2.2.2.2.1 p hp) (by decide))

theorem twoc_valid (b : Nat) (v : Int) (h1 : 1 ≤ b) (h2 : b ≤ 32) (hr : SubFrame.inRange b v = true) :
    (Op.writeTwoc v b).Valid := by
  simp only [SubFrame.inRange, Bool.and_eq_true, decide_eq_true_eq] at hr
  have hpow : (2 : Int) ^ (b - 1) ≤ 2 ^ 31 := by
    have : (2 : Nat) ^ (b - 1) ≤ 2 ^ 31 := Nat.pow_le_pow_right (by decide) (by omega)
    exact_mod_cast this
  refine ⟨h1, by omega, ?_, ?_⟩ <;> omega

theorem twoc_map_valid (xs : List Int) (b : Nat) (h1 : 1 ≤ b) (h2 : b ≤ 32)
    (hr : ∀ x ∈ xs, SubFrame.inRange b x = true) : ∀ op ∈ xs.map (fun x => Op.writeTwoc x b), op.Valid := by
  intro op hop
  obtain ⟨x, hx, rfl⟩ := List.mem_map.mp hop
  exact twoc_valid b x h1 h2 (hr x hx)

theorem write8_valid (v : Nat) : (Op.write 8 (v % 256)).Valid := ⟨rfl, Nat.mod_lt _ (by decide)⟩

theorem subframe_valid (s : SubFrame) (h : s.WF) : ∀ op ∈ s.ops, op.Valid := by
  intro op hop
  cases s with
  | constant n dc bps =>
    obtain ⟨_, h1, h2, hr⟩ := h
    simp only [SubFrame.ops, List.mem_cons, List.not_mem_nil, or_false] at hop
    rcases hop with rfl | rfl
    · exact ⟨rfl, by decide⟩
    · exact twoc_valid _ _ h1 h2 hr
  | verbatim xs bps =>
    obtain ⟨_, h1, h2, hr⟩ := h
    simp only [SubFrame.ops, List.mem_cons] at hop
    rcases hop with rfl | hop
    · exact ⟨rfl, by decide⟩
    · exact twoc_map_valid _ _ h1 h2 hr _ hop
  | fixed warm res bps =>
    obtain ⟨_, _, hres, _, h1, h2, hr⟩ := h
    simp only [SubFrame.ops, List.mem_cons, List.mem_append] at hop
    rcases hop with (rfl | hop) | hop
    · exact write8_valid _
    · exact twoc_map_valid _ _ h1 h2 hr _ hop
    · exact residual_valid _ hres _ hop
  | lpc warm coefs shift precision res bps =>
    obtain ⟨_, _, _, _, hres, _, hp1, hp2, hs1, hs2, hc, h1, h2, hr⟩ := h
    simp only [SubFrame.ops, List.mem_cons, List.mem_append, List.not_mem_nil, or_false] at hop
    rcases hop with (((rfl | hop) | (rfl | rfl)) | hop) | hop
    · exact write8_valid _
    · exact twoc_map_valid _ _ h1 h2 (fun x hx => hr x (List.mem_of_mem_take hx)) _ hop
    · exact ⟨rfl, by omega, by decide⟩
    · refine ⟨by decide, by decide, ?_, ?_⟩ <;> omega
    · exact twoc_map_valid _ _ hp1 (by omega) hc _ hop
    · exact residual_valid _ hres _ hop

theorem bytes_valid_packed (b : Bits) : (Op.writeBytesAligned (packBytes b)).Valid := packBytes_lt b

theorem header_valid (p8 : CrcParams) (h8 : p8.width = 8 ∧ p8.poly < 2 ^ 8 ∧ p8.init < 2 ^ 8)
    (h : FrameHeader) (ops : List Op) (ho : h.ops p8 = some ops) : ∀ op ∈ ops, op.Valid := by
  unfold FrameHeader.ops at ho
  cases hb : h.bodyBits with
  | none => simp [hb] at ho
  | some body =>
    simp only [hb, Option.bind_eq_bind, Option.bind_some, Option.some.injEq] at ho
    subst ho
    intro op hop
    simp only [List.mem_cons, List.not_mem_nil, or_false] at hop
    rcases hop with rfl | rfl
    · exact bytes_valid_packed _
    · have := Crc.crcBits_lt p8 (by rw [h8.1]; exact h8.2.1) (by rw [h8.1]; exact h8.2.2) body
      rw [h8.1] at this
      exact ⟨rfl, this⟩

theorem frame_valid (p8 p16 : CrcParams) (h16 : p16.width = 16 ∧ p16.poly < 2 ^ 16 ∧ p16.init < 2 ^ 16)
    (f : Frame) (ops : List Op) (ho : Frame.ops p8 p16 f = some ops) : ∀ op ∈ ops, op.Valid := by
  unfold Frame.ops at ho
  cases hh : f.header.bits p8 with
  | none => simp [hh] at ho
  | some hb =>
    simp only [hh, Option.bind_eq_bind, Option.bind_some, Option.some.injEq] at ho
    subst ho
    intro op hop
    simp only [List.mem_cons, List.not_mem_nil, or_false] at hop
    rcases hop with rfl | rfl
    · exact bytes_valid_packed _
    · have := Crc.crcBits_lt p16 (by rw [h16.1]; exact h16.2.1) (by rw [h16.1]; exact h16.2.2)
        (Frame.padTo8 (hb ++ f.subframes.flatMap SubFrame.bits))
      rw [h16.1] at this
      exact ⟨rfl, this⟩

theorem frame_precomputed_valid (p8 p16 : CrcParams) (f : Frame) (ops : List Op)
    (ho : Frame.opsPrecomputed p8 p16 f = some ops) : ∀ op ∈ ops, op.Valid := by
  unfold Frame.opsPrecomputed at ho
  cases hb : f.bits p8 p16 with
  | none => simp [hb] at ho
  | some b =>
    simp only [hb, Option.bind_eq_bind, Option.bind_some, Option.some.injEq] at ho
    subst ho
    intro op hop
    simp only [List.mem_cons, List.not_mem_nil, or_false] at hop
    subst hop
    exact bytes_valid_packed _

theorem streaminfo_valid (s : StreamInfo) (hm : ∀ b ∈ s.md5, b < 256) : ∀ op ∈ s.ops, op.Valid := by
  unfold StreamInfo.ops
  generalize (if s.minFrame > s.maxFrame then ((0 : Nat), (0 : Nat)) else (s.minFrame, s.maxFrame)) = mm
  obtain ⟨mn, mx⟩ := mm
  intro op hop
  simp only [List.mem_cons, List.not_mem_nil, or_false] at hop
  rcases hop with rfl | rfl | rfl | rfl | rfl | rfl | rfl | rfl | rfl
  · exact ⟨rfl, Nat.mod_lt _ (by decide)⟩
  · exact ⟨rfl, Nat.mod_lt _ (by decide)⟩
  · exact ⟨rfl, Nat.mod_lt _ (by decide), by decide⟩
  · exact ⟨rfl, Nat.mod_lt _ (by decide), by decide⟩
  · exact ⟨rfl, Nat.mod_lt _ (by decide), by decide⟩
  · exact ⟨rfl, Nat.mod_lt _ (by decide), by decide⟩
  · exact ⟨rfl, Nat.mod_lt _ (by decide), by decide⟩
  · exact ⟨rfl, Nat.mod_lt _ (by decide), by decide⟩
  · exact hm

theorem blockHeader_valid (isLast : Bool) (tag len : Nat) : ∀ op ∈ blockHeaderOps isLast tag len, op.Valid := by
  intro op hop
  simp only [blockHeaderOps, List.mem_cons, List.not_mem_nil, or_false] at hop
  rcases hop with rfl | rfl
  · exact write8_valid _
  · exact ⟨rfl, Nat.mod_lt _ (by decide), by decide⟩

theorem mapM_mem {α β : Type} (f : α → Option β) (l : List α) (os : List β) (ho : l.mapM f = some os) :
    ∀ o ∈ os, ∃ x ∈ l, f x = some o := by
  induction l generalizing os with
  | nil =>
    simp only [List.mapM_nil, Option.pure_def, Option.some.injEq] at ho
    subst ho; simp
  | cons x l ih =>
    rw [List.mapM_cons] at ho
    cases hx : f x with
    | none => simp [hx] at ho
    | some o =>
      cases hl : l.mapM f with
      | none => simp [hx, hl] at ho
      | some os' =>
        simp only [hx, hl, Option.bind_eq_bind, Option.bind_some, Option.pure_def, Option.some.injEq] at ho
        subst ho
        intro o' ho'
        rcases List.mem_cons.mp ho' with rfl | ho'
        · exact ⟨x, by simp, hx⟩
        · obtain ⟨y, hy, hfy⟩ := ih os' hl o' ho'
          exact ⟨y, by simp [hy], hfy⟩

theorem getD_mem_data (l : List UnknownBlock) (i : Nat) (h : ∀ m ∈ l, ∀ b ∈ m.data, b < 256) :
    ∀ b ∈ (l.getD i ⟨0, []⟩).data, b < 256 := by
  by_cases hi : i < l.length
  · rw [List.getD_eq_getElem?_getD, List.getElem?_eq_getElem hi]; exact h _ (List.getElem_mem hi)
  · rw [List.getD_eq_getElem?_getD, List.getElem?_eq_none (by omega)]; simp

theorem stream_valid (p8 p16 : CrcParams) (h16 : p16.width = 16 ∧ p16.poly < 2 ^ 16 ∧ p16.init < 2 ^ 16)
    (s : Stream) (hmd5 : ∀ b ∈ s.info.md5, b < 256) (hmeta : ∀ m ∈ s.metadata, ∀ b ∈ m.data, b < 256)
    (ops : List Op) (ho : Stream.ops p8 p16 s = some ops) : ∀ op ∈ ops, op.Valid := by
  unfold Stream.ops at ho
  cases hf : s.frames.mapM (Frame.ops p8 p16) with
  | none => simp [hf] at ho
  | some fops =>
    simp only [hf, Option.bind_eq_bind, Option.bind_some, Option.some.injEq] at ho
    subst ho
    intro op hop
    simp only [List.mem_cons, List.mem_append, List.mem_flatMap, List.mem_range, List.mem_flatten,
      List.not_mem_nil, or_false] at hop
    rcases hop with (((rfl | hop) | hop) | ⟨i, _, hop | rfl⟩) | ⟨o, ho, hop⟩
    · intro b hb
      simp only [List.mem_cons, List.not_mem_nil, or_false] at hb
      rcases hb with rfl | rfl | rfl | rfl <;> decide
    · exact blockHeader_valid _ _ _ _ hop
    · exact streaminfo_valid _ hmd5 _ hop
    · exact blockHeader_valid _ _ _ _ hop
    · exact getD_mem_data _ _ hmeta
    · obtain ⟨f, _, hfo⟩ := mapM_mem _ _ _ hf o ho
      exact frame_valid p8 p16 h16 f o hfo op hop

/-! ### `write` issues operations whenever the bit string exists (no `RangeError`) -/

theorem frame_ops_of_bits (p8 p16 : CrcParams) (f : Frame) (b : Bits) (hb : f.bits p8 p16 = some b) :
    ∃ ops, Frame.ops p8 p16 f = some ops := by
  cases hh : f.header.bits p8 with
  | none => simp [Frame.bits, hh] at hb
  | some x => simp only [Frame.ops, hh, Option.bind_eq_bind, Option.bind_some]; exact ⟨_, rfl⟩

theorem stream_ops_of_bits (p8 p16 : CrcParams) (s : Stream) (b : Bits) (hb : s.bits p8 p16 = some b) :
    ∃ ops, Stream.ops p8 p16 s = some ops := by
  cases hf : s.frames.mapM (Frame.bits p8 p16) with
  | none => simp [Stream.bits, hf] at hb
  | some fbits =>
    obtain ⟨fops, hfo, _⟩ := mapM_forall2 (Frame.bits p8 p16) (Frame.ops p8 p16) (fun _ _ => True) s.frames
      (fun f _ o hfo => by
        obtain ⟨ops, h⟩ := frame_ops_of_bits p8 p16 f o hfo
        exact ⟨ops, h, trivial⟩) fbits hf
    simp only [Stream.ops, hfo, Option.bind_eq_bind, Option.bind_some]; exact ⟨_, rfl⟩

/-! ### the slice indexings of `Residual::write` stay in bounds -/

theorem residual_in_bounds (r : Residual) (h : r.WF) (k : Nat) (hk : k < r.nparts) :
    k < r.params.length ∧ (k + 1) * r.partLen ≤ r.quotients.length ∧ (k + 1) * r.partLen ≤ r.remainders.length := by
  obtain ⟨_, hpl, hdvd, _, _, hq, hr, _⟩ := h
  have hb : (k + 1) * r.partLen ≤ r.blockSize := by
    have h1 : 2 ^ r.order * r.partLen = r.blockSize := by
      unfold Residual.partLen; rw [Nat.shiftRight_eq_div_pow]; exact Nat.mul_div_cancel' hdvd
    have h2 : (k + 1) * r.partLen ≤ 2 ^ r.order * r.partLen := Nat.mul_le_mul_right _ hk
    omega
  exact ⟨by rw [hpl]; exact hk, by rw [hq]; exact hb, by rw [hr]; exact hb⟩

/-! ### STREAMINFO: when the narrowing casts keep every field intact -/

theorem streaminfo_lossless (s : StreamInfo)
    (hfit : s.minBlock < 2 ^ 16 ∧ s.maxBlock < 2 ^ 16 ∧ s.maxFrame < 2 ^ 24 ∧ s.rate < 2 ^ 20 ∧
      1 ≤ s.channels ∧ s.channels ≤ 8 ∧ 1 ≤ s.bps ∧ s.bps ≤ 32 ∧ s.total < 2 ^ 36) :
    ∃ mn mx, (mn, mx) = (if s.minFrame > s.maxFrame then (0, 0) else (s.minFrame, s.maxFrame)) ∧
      mn < 2 ^ 24 ∧ mx < 2 ^ 24 ∧ s.channels - 1 < 2 ^ 3 ∧ s.bps - 1 < 2 ^ 5 ∧
      s.ops = [ .write 16 s.minBlock, .write 16 s.maxBlock, .writeLsbs 32 mn 24, .writeLsbs 32 mx 24,
        .writeLsbs 32 s.rate 20, .writeLsbs 8 (s.channels - 1) 3, .writeLsbs 8 (s.bps - 1) 5,
        .writeLsbs 64 s.total 36, .writeBytesAligned s.md5 ] := by
  obtain ⟨h1, h2, h3, h4, h5, h6, h7, h8, h9⟩ := hfit
  unfold StreamInfo.ops
  by_cases hc : s.minFrame > s.maxFrame
  · refine ⟨0, 0, by simp [hc], by decide, by decide, by omega, by omega, ?_⟩
    simp only [hc, if_true]
    rw [Nat.mod_eq_of_lt h1, Nat.mod_eq_of_lt h2, Nat.mod_eq_of_lt (show s.rate < 2 ^ 32 by omega),
      Nat.mod_eq_of_lt (show s.channels - 1 < 256 by omega), Nat.mod_eq_of_lt (show s.bps - 1 < 256 by omega),
      Nat.mod_eq_of_lt (show s.total < 2 ^ 64 by omega)]
  · refine ⟨s.minFrame, s.maxFrame, by simp [hc], by omega, h3, by omega, by omega, ?_⟩
    simp only [hc, if_false]
    rw [Nat.mod_eq_of_lt h1, Nat.mod_eq_of_lt h2, Nat.mod_eq_of_lt (show s.rate < 2 ^ 32 by omega),
      Nat.mod_eq_of_lt (show s.channels - 1 < 256 by omega), Nat.mod_eq_of_lt (show s.bps - 1 < 256 by omega),
      Nat.mod_eq_of_lt (show s.total < 2 ^ 64 by omega),
      Nat.mod_eq_of_lt (show s.minFrame < 2 ^ 32 by omega), Nat.mod_eq_of_lt (show s.maxFrame < 2 ^ 32 by omega)]

end FlacVerif.OpsL
