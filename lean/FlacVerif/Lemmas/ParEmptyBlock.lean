/-
Why `Params.NonemptyBlocks` is needed: the empty byte block is the stop token of the md5 channel, so a
source that hands over an *empty* block (returns a non-zero sample count but fills zero bytes) stops
the hasher early; 16 blocks later the md5 channel is full and the feeder blocks forever. Concrete
reachable deadlock for `W = 1` and 18 blocks of which the first is empty.
-/
import FlacVerif.Lemmas.ParStep
namespace FlacVerif.Par

/-- shape of the deadlock: the feeder is inside a read, the md5 channel is full, the hasher is gone,
every worker is idle and there is nothing to encode -/
def StuckOnMd5 (p : Params) (s : State) : Prop :=
  (∃ id, s.main = .locked id) ∧ p.readFailAt ≠ some s.k ∧ (p.blocks[s.k]?).isSome = true ∧
  s.md5Q.length = md5Cap ∧ s.hasher = .exited ∧ s.encodeQ = [] ∧ ∀ pc ∈ s.workers, pc = .idle

theorem StuckOnMd5.no_step {p : Params} {s : State} (h : StuckOnMd5 p s) (e : Ev) :
    step p s e = none := by
  obtain ⟨⟨id, hm⟩, hf, hb, hq, hh, he, hw⟩ := h
  have hwk : ∀ w : Nat, s.workers[w]? = none ∨ s.workers[w]? = some WPc.idle := by
    intro w
    cases hw' : s.workers[w]? with
    | none => exact Or.inl rfl
    | some pc => exact Or.inr (by rw [hw pc (List.mem_of_getElem? hw')])
  cases e
  case encode_send x => cases x <;> simp [step, hm]
  case md5_send len => simp [step, hm, hf, hq]
  case f_eof id' =>
    obtain ⟨b, hb'⟩ := Option.isSome_iff_exists.1 hb
    have := (List.getElem?_eq_some_iff.1 hb').1
    simp only [step, hm]; split
    · omega
    · rfl
  case encode_recv w x => rcases hwk w with h | h <;> simp [step, h, he]
  case w_lock w id' n => rcases hwk w with h | h <;> simp [step, h]
  case refill_send w id' => rcases hwk w with h | h <;> simp [step, h]
  case w_push w id' n => rcases hwk w with h | h <;> simp [step, h]
  case w_err w id' n => rcases hwk w with h | h <;> simp [step, h]
  all_goals simp [step, hm, hh, hf]

instance (p : Params) (s : State) : Decidable (StuckOnMd5 p s) := by
  unfold StuckOnMd5
  have : Decidable (∃ id, s.main = .locked id) := by
    cases s.main <;> first | exact isTrue ⟨_, rfl⟩ | exact isFalse (by rintro ⟨_, h⟩; cases h)
  infer_instance

namespace Examples

/-- `W = 1`; block 0 has no bytes, 17 ordinary blocks follow -/
def pEmptyBlock : Params :=
  { W := 1, blocks := ⟨[], true⟩ :: List.replicate 17 ⟨[7], true⟩ }

def trEmptyBlock : List Ev :=
  [.refill_recv 0, .md5_send 0, .f_filled 0 0, .encode_send (some 0), .refill_recv 1,
   .md5_send 1, .f_filled 1 1, .encode_send (some 1), .encode_recv 0 (some 0), .w_lock 0 0 0,
   .refill_send 0 0, .refill_recv 0, .md5_send 1, .f_filled 0 2, .encode_send (some 0),
   .w_push 0 0 0, .encode_recv 0 (some 1), .w_lock 0 1 1, .refill_send 0 1, .refill_recv 1,
   .md5_send 1, .f_filled 1 3, .encode_send (some 1), .w_push 0 1 1, .encode_recv 0 (some 0),
   .w_lock 0 0 2, .refill_send 0 0, .refill_recv 0, .md5_send 1, .f_filled 0 4,
   .encode_send (some 0), .w_push 0 0 2, .encode_recv 0 (some 1), .w_lock 0 1 3,
   .refill_send 0 1, .refill_recv 1, .md5_send 1, .f_filled 1 5, .encode_send (some 1),
   .w_push 0 1 3, .encode_recv 0 (some 0), .w_lock 0 0 4, .refill_send 0 0, .refill_recv 0,
   .md5_send 1, .f_filled 0 6, .encode_send (some 0), .w_push 0 0 4, .encode_recv 0 (some 1),
   .w_lock 0 1 5, .refill_send 0 1, .refill_recv 1, .md5_send 1, .f_filled 1 7,
   .encode_send (some 1), .w_push 0 1 5, .encode_recv 0 (some 0), .w_lock 0 0 6,
   .refill_send 0 0, .refill_recv 0, .md5_send 1, .f_filled 0 8, .encode_send (some 0),
   .w_push 0 0 6, .encode_recv 0 (some 1), .w_lock 0 1 7, .refill_send 0 1, .refill_recv 1,
   .md5_send 1, .f_filled 1 9, .encode_send (some 1), .w_push 0 1 7, .encode_recv 0 (some 0),
   .w_lock 0 0 8, .refill_send 0 0, .refill_recv 0, .md5_send 1, .f_filled 0 10,
   .encode_send (some 0), .w_push 0 0 8, .encode_recv 0 (some 1), .w_lock 0 1 9,
   .refill_send 0 1, .refill_recv 1, .md5_send 1, .f_filled 1 11, .encode_send (some 1),
   .w_push 0 1 9, .encode_recv 0 (some 0), .w_lock 0 0 10, .refill_send 0 0, .refill_recv 0,
   .md5_send 1, .f_filled 0 12, .encode_send (some 0), .w_push 0 0 10, .encode_recv 0 (some 1),
   .w_lock 0 1 11, .refill_send 0 1, .refill_recv 1, .md5_send 1, .f_filled 1 13,
   .encode_send (some 1), .w_push 0 1 11, .encode_recv 0 (some 0), .w_lock 0 0 12,
   .refill_send 0 0, .refill_recv 0, .md5_send 1, .f_filled 0 14, .encode_send (some 0),
   .w_push 0 0 12, .encode_recv 0 (some 1), .w_lock 0 1 13, .refill_send 0 1, .refill_recv 1,
   .md5_send 1, .f_filled 1 15, .encode_send (some 1), .w_push 0 1 13, .encode_recv 0 (some 0),
   .w_lock 0 0 14, .refill_send 0 0, .refill_recv 0, .w_push 0 0 14, .encode_recv 0 (some 1),
   .w_lock 0 1 15, .refill_send 0 1, .w_push 0 1 15, .md5_recv 0, .md5_send 1, .f_filled 0 16,
   .encode_send (some 0), .refill_recv 1, .encode_recv 0 (some 0), .w_lock 0 0 16,
   .refill_send 0 0, .w_push 0 0 16]

/-- `W = 1`; block 0 has no bytes, block 1 is ordinary -/
def pEmptyBlock2 : Params := { W := 1, blocks := [⟨[], true⟩, ⟨[7], true⟩] }

def trEmptyBlock2 : List Ev :=
  [.refill_recv 0, .md5_send 0, .f_filled 0 0, .encode_send (some 0), .refill_recv 1, .md5_send 1,
   .f_filled 1 1, .encode_send (some 1), .encode_recv 0 (some 0), .w_lock 0 0 0, .refill_send 0 0,
   .refill_recv 0, .md5_send 0, .f_eof 0, .encode_send none, .md5_send 0, .w_push 0 0 0,
   .encode_recv 0 (some 1), .w_lock 0 1 1, .refill_send 0 1, .w_push 0 1 1, .encode_recv 0 none,
   .md5_recv 0, .m_joined_hasher, .m_joined_worker]

end Examples
end FlacVerif.Par
