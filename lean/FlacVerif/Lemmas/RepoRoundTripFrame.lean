/-
Round trip of frame headers and frames: `FrameHeader.bits` / `Frame.bits` against `Repo.frameHeader` /
`Repo.frame` (C15 (c)).
-/
import FlacVerif.Lemmas.RepoRoundTrip
namespace FlacVerif.Repo
open PResult

/-! ### bytes -/

theorem bytesToBits_append (a b : List Nat) : bytesToBits (a ++ b) = bytesToBits a ++ bytesToBits b := by
  simp [bytesToBits]

theorem bytesToBits_cons (a : Nat) (b : List Nat) : bytesToBits (a :: b) = natToBits 8 a ++ bytesToBits b := by
  simp [bytesToBits]

theorem bytesToBits_length (bs : List Nat) : (bytesToBits bs).length = 8 * bs.length := by
  induction bs with
  | nil => rfl
  | cons b bs ih => rw [bytesToBits_cons, List.length_append, natToBits_length, ih, List.length_cons]; omega

theorem bitsToBytes_bytesToBits (bs : List Nat) (k : Bits) (h : ∀ b ∈ bs, b < 256) :
    bitsToBytes bs.length (bytesToBits bs ++ k) = bs := by
  induction bs with
  | nil => rfl
  | cons b bs ih =>
    rw [List.length_cons, bitsToBytes, bytesToBits_cons, List.append_assoc]
    have h1 : List.take 8 (natToBits 8 b ++ (bytesToBits bs ++ k)) = natToBits 8 b := by
      rw [List.take_append_of_le_length (by simp), List.take_of_length_le (by simp)]
    have h2 : List.drop 8 (natToBits 8 b ++ (bytesToBits bs ++ k)) = bytesToBits bs ++ k := by
      rw [List.drop_append_of_le_length (by simp), List.drop_of_length_le (by simp)]; rfl
    rw [h1, h2, bitsToNat_natToBits, ih (fun b' hb' => h b' (by simp [hb']))]
    rw [Nat.mod_eq_of_lt (h b (by simp))]

theorem byteTake_bytesToBits (bs : List Nat) (k : Bits) (h : ∀ b ∈ bs, b < 256) :
    byteTake bs.length (bytesToBits bs ++ k) = .ok (bs, k) := by
  unfold byteTake
  have hl : ¬ (bytesToBits bs ++ k).length < 8 * bs.length := by
    rw [List.length_append, bytesToBits_length]; omega
  rw [if_neg hl, bitsToBytes_bytesToBits bs k h]
  have : List.drop (8 * bs.length) (bytesToBits bs ++ k) = k := by
    rw [List.drop_append_of_le_length (by rw [bytesToBits_length]; omega),
      List.drop_of_length_le (by rw [bytesToBits_length]; omega)]; rfl
  rw [this]

theorem beUint_natToBits (n v : Nat) (k : Bits) (hv : v < 2 ^ (8 * n)) :
    beUint n (natToBits (8 * n) v ++ k) = .ok (v, k) := by
  unfold beUint
  have hl : ¬ (natToBits (8 * n) v ++ k).length < 8 * n := by simp
  rw [if_neg hl]
  have h1 : List.take (8 * n) (natToBits (8 * n) v ++ k) = natToBits (8 * n) v := by
    rw [List.take_append_of_le_length (by simp), List.take_of_length_le (by simp)]
  have h2 : List.drop (8 * n) (natToBits (8 * n) v ++ k) = k := by
    rw [List.drop_append_of_le_length (by simp), List.drop_of_length_le (by simp)]; rfl
  rw [h1, h2, bitsToNat_natToBits, Nat.mod_eq_of_lt hv]

/-! ### the UTF-8-like number -/

theorem bitLen_le_iff (v k : Nat) : bitLen v ≤ k ↔ v < 2 ^ k := by
  unfold bitLen
  by_cases hv : v = 0
  · subst hv; simp [Nat.two_pow_pos]
  · simp only [hv, if_false]
    have := Nat.log2_lt (k := k) hv
    omega

theorem or_add (i a b : Nat) (hb : b < 2 ^ i) : (2 ^ i * a) ||| b = 2 ^ i * a + b :=
  (Nat.two_pow_add_eq_or_of_lt hb a).symm

theorem utf8_step (a b : Nat) (ha : a < 2 ^ 58) : ((a * 64) % 2 ^ 64) ||| (b % 64) = a * 64 + b % 64 := by
  rw [Nat.mod_eq_of_lt (by omega)]
  have := or_add 6 a (b % 64) (Nat.mod_lt _ (by decide))
  rw [Nat.mul_comm] at this
  simpa using this

theorem tail_byte (y : Nat) (hy : y < 64) : (0x80 ||| y) = 128 + y := by
  have := or_add 6 2 y hy
  simpa using this

set_option linter.unusedSimpArgs false

def utf8Sel (head : Nat) : Option (Nat × Nat) :=
    if head < 128 then some (0, head % 128)
    else if head < 0xE0 then some (1, head % 32)
    else if head < 0xF0 then some (2, head % 16)
    else if head < 0xF8 then some (3, head % 8)
    else if head < 0xFC then some (4, head % 4)
    else if head < 0xFE then some (5, head % 2)
    else if head = 0xFE then some (6, 0)
    else none

def utf8Fold (acc : Nat) (tail : List Nat) : Nat := tail.foldl (fun a b => ((a * 64) % 2 ^ 64) ||| (b % 64)) acc

theorem utf8Code_bytes (head : Nat) (tail : List Nat) (k : Bits) (acc : Nat) (hh : head < 256)
    (ht : ∀ b ∈ tail, b < 256) (hsel : utf8Sel head = some (tail.length, acc)) :
    utf8Code (bytesToBits (head :: tail) ++ k) = .ok (utf8Fold acc tail, k) := by
  unfold utf8Code
  have h1 := byteTake_bytesToBits [head] (bytesToBits tail ++ k) (by simpa using hh)
  have e : bytesToBits (head :: tail) ++ k = bytesToBits [head] ++ (bytesToBits tail ++ k) := by
    rw [← List.append_assoc, ← bytesToBits_append]; rfl
  rw [e]
  simp only [List.length_singleton] at h1
  rw [h1]
  simp only [ok_bind]
  unfold utf8Sel at hsel
  rw [hsel]
  simp only
  rw [byteTake_bytesToBits tail k ht]
  rfl

theorem utf8_fold_cons (acc b : Nat) (tail : List Nat) (ha : acc < 2 ^ 58) :
    utf8Fold acc (b :: tail) = utf8Fold (acc * 64 + b % 64) tail := by
  unfold utf8Fold
  rw [List.foldl_cons, utf8_step acc b ha]

theorem utf8_case1 (v : Nat) (k : Bits) (hlo : ¬ v < 2 ^ 7) (hhi : v < 2 ^ 11) (bs : List Nat)
    (he : encodeUtf8like v = some bs) : utf8Code (bytesToBits bs ++ k) = .ok (v, k) := by
  have hb7 : ¬ bitLen v ≤ 7 := by rw [bitLen_le_iff]; omega
  have hblo : ¬ bitLen v ≤ 7 := by rw [bitLen_le_iff]; exact hlo
  have hbhi : bitLen v ≤ 11 := by rw [bitLen_le_iff]; exact hhi
  have ht : (bitLen v - 2) / 5 = 1 := by omega
  have hr : List.range 1 = [0] := rfl
  unfold encodeUtf8like at he
  simp only [hb7, if_false, show ¬ bitLen v > 36 by omega, ht, hr] at he
  injection he with he
  subst he
  simp only [List.map_cons, List.map_nil, List.getD_cons_succ, List.getD_cons_zero, Nat.shiftRight_eq_div_pow]
  simp only [Nat.reduceMul, Nat.reduceSub, Nat.reducePow, Nat.reduceEqDiff, if_false, if_true, Nat.div_one]
  have hx : v / 64 % 32 < 2 ^ 5 := Nat.mod_lt _ (by decide)
  have hhead : 192 ||| v / 64 % 32 = 192 + v / 64 % 32 := by
    have := or_add 5 6 _ hx
    simpa using this
  rw [hhead]
  rw [tail_byte (v % 64) (Nat.mod_lt _ (by decide))]
  rw [utf8Code_bytes _ _ k (v / 64 % 32) (by omega) (by intro b hb; simp at hb; omega)
    (by unfold utf8Sel; rw [if_neg (by omega), if_pos (by omega)]; simp; omega)]
  rw [utf8_fold_cons _ _ _ (by omega)]
  unfold utf8Fold
  simp only [List.foldl_nil]
  congr 2
  omega

theorem utf8_case2 (v : Nat) (k : Bits) (hlo : ¬ v < 2 ^ 11) (hhi : v < 2 ^ 16) (bs : List Nat)
    (he : encodeUtf8like v = some bs) : utf8Code (bytesToBits bs ++ k) = .ok (v, k) := by
  have hb7 : ¬ bitLen v ≤ 7 := by rw [bitLen_le_iff]; omega
  have hblo : ¬ bitLen v ≤ 11 := by rw [bitLen_le_iff]; exact hlo
  have hbhi : bitLen v ≤ 16 := by rw [bitLen_le_iff]; exact hhi
  have ht : (bitLen v - 2) / 5 = 2 := by omega
  have hr : List.range 2 = [0, 1] := rfl
  unfold encodeUtf8like at he
  simp only [hb7, if_false, show ¬ bitLen v > 36 by omega, ht, hr] at he
  injection he with he
  subst he
  simp only [List.map_cons, List.map_nil, List.getD_cons_succ, List.getD_cons_zero, Nat.shiftRight_eq_div_pow]
  simp only [Nat.reduceMul, Nat.reduceSub, Nat.reducePow, Nat.reduceEqDiff, if_false, if_true, Nat.div_one]
  have hx : v / 4096 % 16 < 2 ^ 4 := Nat.mod_lt _ (by decide)
  have hhead : 224 ||| v / 4096 % 16 = 224 + v / 4096 % 16 := by
    have := or_add 4 14 _ hx
    simpa using this
  rw [hhead]
  rw [tail_byte (v / 64 % 64) (Nat.mod_lt _ (by decide))]
  rw [tail_byte (v % 64) (Nat.mod_lt _ (by decide))]
  rw [utf8Code_bytes _ _ k (v / 4096 % 16) (by omega) (by intro b hb; simp at hb; omega)
    (by unfold utf8Sel; rw [if_neg (by omega), if_neg (by omega), if_pos (by omega)]; simp; omega)]
  rw [utf8_fold_cons _ _ _ (by omega)]
  rw [utf8_fold_cons _ _ _ (by omega)]
  unfold utf8Fold
  simp only [List.foldl_nil]
  congr 2
  omega

theorem utf8_case3 (v : Nat) (k : Bits) (hlo : ¬ v < 2 ^ 16) (hhi : v < 2 ^ 21) (bs : List Nat)
    (he : encodeUtf8like v = some bs) : utf8Code (bytesToBits bs ++ k) = .ok (v, k) := by
  have hb7 : ¬ bitLen v ≤ 7 := by rw [bitLen_le_iff]; omega
  have hblo : ¬ bitLen v ≤ 16 := by rw [bitLen_le_iff]; exact hlo
  have hbhi : bitLen v ≤ 21 := by rw [bitLen_le_iff]; exact hhi
  have ht : (bitLen v - 2) / 5 = 3 := by omega
  have hr : List.range 3 = [0, 1, 2] := rfl
  unfold encodeUtf8like at he
  simp only [hb7, if_false, show ¬ bitLen v > 36 by omega, ht, hr] at he
  injection he with he
  subst he
  simp only [List.map_cons, List.map_nil, List.getD_cons_succ, List.getD_cons_zero, Nat.shiftRight_eq_div_pow]
  simp only [Nat.reduceMul, Nat.reduceSub, Nat.reducePow, Nat.reduceEqDiff, if_false, if_true, Nat.div_one]
  have hx : v / 262144 % 8 < 2 ^ 3 := Nat.mod_lt _ (by decide)
  have hhead : 240 ||| v / 262144 % 8 = 240 + v / 262144 % 8 := by
    have := or_add 3 30 _ hx
    simpa using this
  rw [hhead]
  rw [tail_byte (v / 4096 % 64) (Nat.mod_lt _ (by decide))]
  rw [tail_byte (v / 64 % 64) (Nat.mod_lt _ (by decide))]
  rw [tail_byte (v % 64) (Nat.mod_lt _ (by decide))]
  rw [utf8Code_bytes _ _ k (v / 262144 % 8) (by omega) (by intro b hb; simp at hb; omega)
    (by unfold utf8Sel; rw [if_neg (by omega), if_neg (by omega), if_neg (by omega), if_pos (by omega)]; simp; omega)]
  rw [utf8_fold_cons _ _ _ (by omega)]
  rw [utf8_fold_cons _ _ _ (by omega)]
  rw [utf8_fold_cons _ _ _ (by omega)]
  unfold utf8Fold
  simp only [List.foldl_nil]
  congr 2
  omega

theorem utf8_case4 (v : Nat) (k : Bits) (hlo : ¬ v < 2 ^ 21) (hhi : v < 2 ^ 26) (bs : List Nat)
    (he : encodeUtf8like v = some bs) : utf8Code (bytesToBits bs ++ k) = .ok (v, k) := by
  have hb7 : ¬ bitLen v ≤ 7 := by rw [bitLen_le_iff]; omega
  have hblo : ¬ bitLen v ≤ 21 := by rw [bitLen_le_iff]; exact hlo
  have hbhi : bitLen v ≤ 26 := by rw [bitLen_le_iff]; exact hhi
  have ht : (bitLen v - 2) / 5 = 4 := by omega
  have hr : List.range 4 = [0, 1, 2, 3] := rfl
  unfold encodeUtf8like at he
  simp only [hb7, if_false, show ¬ bitLen v > 36 by omega, ht, hr] at he
  injection he with he
  subst he
  simp only [List.map_cons, List.map_nil, List.getD_cons_succ, List.getD_cons_zero, Nat.shiftRight_eq_div_pow]
  simp only [Nat.reduceMul, Nat.reduceSub, Nat.reducePow, Nat.reduceEqDiff, if_false, if_true, Nat.div_one]
  have hx : v / 16777216 % 4 < 2 ^ 2 := Nat.mod_lt _ (by decide)
  have hhead : 248 ||| v / 16777216 % 4 = 248 + v / 16777216 % 4 := by
    have := or_add 2 62 _ hx
    simpa using this
  rw [hhead]
  rw [tail_byte (v / 262144 % 64) (Nat.mod_lt _ (by decide))]
  rw [tail_byte (v / 4096 % 64) (Nat.mod_lt _ (by decide))]
  rw [tail_byte (v / 64 % 64) (Nat.mod_lt _ (by decide))]
  rw [tail_byte (v % 64) (Nat.mod_lt _ (by decide))]
  rw [utf8Code_bytes _ _ k (v / 16777216 % 4) (by omega) (by intro b hb; simp at hb; omega)
    (by unfold utf8Sel; rw [if_neg (by omega), if_neg (by omega), if_neg (by omega), if_neg (by omega), if_pos (by omega)]; simp; omega)]
  rw [utf8_fold_cons _ _ _ (by omega)]
  rw [utf8_fold_cons _ _ _ (by omega)]
  rw [utf8_fold_cons _ _ _ (by omega)]
  rw [utf8_fold_cons _ _ _ (by omega)]
  unfold utf8Fold
  simp only [List.foldl_nil]
  congr 2
  omega

theorem utf8_case5 (v : Nat) (k : Bits) (hlo : ¬ v < 2 ^ 26) (hhi : v < 2 ^ 31) (bs : List Nat)
    (he : encodeUtf8like v = some bs) : utf8Code (bytesToBits bs ++ k) = .ok (v, k) := by
  have hb7 : ¬ bitLen v ≤ 7 := by rw [bitLen_le_iff]; omega
  have hblo : ¬ bitLen v ≤ 26 := by rw [bitLen_le_iff]; exact hlo
  have hbhi : bitLen v ≤ 31 := by rw [bitLen_le_iff]; exact hhi
  have ht : (bitLen v - 2) / 5 = 5 := by omega
  have hr : List.range 5 = [0, 1, 2, 3, 4] := rfl
  unfold encodeUtf8like at he
  simp only [hb7, if_false, show ¬ bitLen v > 36 by omega, ht, hr] at he
  injection he with he
  subst he
  simp only [List.map_cons, List.map_nil, List.getD_cons_succ, List.getD_cons_zero, Nat.shiftRight_eq_div_pow]
  simp only [Nat.reduceMul, Nat.reduceSub, Nat.reducePow, Nat.reduceEqDiff, if_false, if_true, Nat.div_one]
  have hx : v / 1073741824 % 2 < 2 ^ 1 := Nat.mod_lt _ (by decide)
  have hhead : 252 ||| v / 1073741824 % 2 = 252 + v / 1073741824 % 2 := by
    have := or_add 1 126 _ hx
    simpa using this
  rw [hhead]
  rw [tail_byte (v / 16777216 % 64) (Nat.mod_lt _ (by decide))]
  rw [tail_byte (v / 262144 % 64) (Nat.mod_lt _ (by decide))]
  rw [tail_byte (v / 4096 % 64) (Nat.mod_lt _ (by decide))]
  rw [tail_byte (v / 64 % 64) (Nat.mod_lt _ (by decide))]
  rw [tail_byte (v % 64) (Nat.mod_lt _ (by decide))]
  rw [utf8Code_bytes _ _ k (v / 1073741824 % 2) (by omega) (by intro b hb; simp at hb; omega)
    (by unfold utf8Sel; rw [if_neg (by omega), if_neg (by omega), if_neg (by omega), if_neg (by omega), if_neg (by omega), if_pos (by omega)]; simp; omega)]
  rw [utf8_fold_cons _ _ _ (by omega)]
  rw [utf8_fold_cons _ _ _ (by omega)]
  rw [utf8_fold_cons _ _ _ (by omega)]
  rw [utf8_fold_cons _ _ _ (by omega)]
  rw [utf8_fold_cons _ _ _ (by omega)]
  unfold utf8Fold
  simp only [List.foldl_nil]
  congr 2
  omega

theorem utf8_case6 (v : Nat) (k : Bits) (hlo : ¬ v < 2 ^ 31) (hhi : v < 2 ^ 36) (bs : List Nat)
    (he : encodeUtf8like v = some bs) : utf8Code (bytesToBits bs ++ k) = .ok (v, k) := by
  have hb7 : ¬ bitLen v ≤ 7 := by rw [bitLen_le_iff]; omega
  have hblo : ¬ bitLen v ≤ 31 := by rw [bitLen_le_iff]; exact hlo
  have hbhi : bitLen v ≤ 36 := by rw [bitLen_le_iff]; exact hhi
  have ht : (bitLen v - 2) / 5 = 6 := by omega
  have hr : List.range 6 = [0, 1, 2, 3, 4, 5] := rfl
  unfold encodeUtf8like at he
  simp only [hb7, if_false, show ¬ bitLen v > 36 by omega, ht, hr] at he
  injection he with he
  subst he
  simp only [List.map_cons, List.map_nil, List.getD_cons_succ, List.getD_cons_zero, Nat.shiftRight_eq_div_pow]
  simp only [Nat.reduceMul, Nat.reduceSub, Nat.reducePow, Nat.reduceEqDiff, if_false, if_true, Nat.div_one]
  rw [tail_byte (v / 1073741824 % 64) (Nat.mod_lt _ (by decide))]
  rw [tail_byte (v / 16777216 % 64) (Nat.mod_lt _ (by decide))]
  rw [tail_byte (v / 262144 % 64) (Nat.mod_lt _ (by decide))]
  rw [tail_byte (v / 4096 % 64) (Nat.mod_lt _ (by decide))]
  rw [tail_byte (v / 64 % 64) (Nat.mod_lt _ (by decide))]
  rw [tail_byte (v % 64) (Nat.mod_lt _ (by decide))]
  rw [utf8Code_bytes _ _ k (0) (by decide) (by intro b hb; simp at hb; omega)
    (by unfold utf8Sel; simp)]
  rw [utf8_fold_cons _ _ _ (by omega)]
  rw [utf8_fold_cons _ _ _ (by omega)]
  rw [utf8_fold_cons _ _ _ (by omega)]
  rw [utf8_fold_cons _ _ _ (by omega)]
  rw [utf8_fold_cons _ _ _ (by omega)]
  rw [utf8_fold_cons _ _ _ (by omega)]
  unfold utf8Fold
  simp only [List.foldl_nil]
  congr 2
  omega


theorem utf8_case0 (v : Nat) (k : Bits) (h7 : v < 2 ^ 7) (bs : List Nat)
    (he : encodeUtf8like v = some bs) : utf8Code (bytesToBits bs ++ k) = .ok (v, k) := by
  have hb7 : bitLen v ≤ 7 := by rw [bitLen_le_iff]; exact h7
  unfold encodeUtf8like at he
  simp only [hb7, if_true] at he
  injection he with he
  subst he
  rw [utf8Code_bytes v [] k v (by omega) (by intro b hb; simp at hb)
    (by unfold utf8Sel; rw [if_pos (by omega)]; simp; omega)]
  rfl

/-- `utf8_code` reads back what `encode_to_utf8like` wrote (values below `2^36`). -/
theorem utf8_read (v : Nat) (k : Bits) (bs : List Nat) (he : encodeUtf8like v = some bs) :
    utf8Code (bytesToBits bs ++ k) = .ok (v, k) := by
  have h36 : v < 2 ^ 36 := by
    rw [← bitLen_le_iff]
    unfold encodeUtf8like at he
    by_cases h7 : bitLen v ≤ 7
    · omega
    · simp only [h7, if_false] at he
      by_cases h : bitLen v > 36
      · simp [h] at he
      · omega
  by_cases h7 : v < 2 ^ 7
  · exact utf8_case0 v k h7 bs he
  by_cases h11 : v < 2 ^ 11
  · exact utf8_case1 v k h7 h11 bs he
  by_cases h16 : v < 2 ^ 16
  · exact utf8_case2 v k h11 h16 bs he
  by_cases h21 : v < 2 ^ 21
  · exact utf8_case3 v k h16 h21 bs he
  by_cases h26 : v < 2 ^ 26
  · exact utf8_case4 v k h21 h26 bs he
  by_cases h31 : v < 2 ^ 31
  · exact utf8_case5 v k h26 h31 bs he
  · exact utf8_case6 v k h31 h36 bs he


/-! ### CRC values fit their width -/

theorem crcStepBit_lt (p : CrcParams) (reg : Nat) (b : Bool) (hp : p.poly < 2 ^ p.width) :
    crcStepBit p reg b < 2 ^ p.width := by
  unfold crcStepBit
  have h1 : (reg * 2) % 2 ^ p.width < 2 ^ p.width := Nat.mod_lt _ (Nat.two_pow_pos _)
  dsimp only
  split
  · exact Nat.xor_lt_two_pow h1 hp
  · exact h1

theorem crcBits_lt (p : CrcParams) (bs : Bits) (hp : p.poly < 2 ^ p.width) (hi : p.init < 2 ^ p.width) :
    crcBits p bs < 2 ^ p.width := by
  unfold crcBits
  have : ∀ (reg : Nat), reg < 2 ^ p.width → bs.foldl (crcStepBit p) reg < 2 ^ p.width := by
    induction bs with
    | nil => intro reg h; exact h
    | cons b bs ih => intro reg _; exact ih _ (crcStepBit_lt p reg b hp)
  exact this _ hi

theorem crc8_lt (bs : Bits) : crcBits rfcCrc8 bs < 2 ^ 8 := crcBits_lt rfcCrc8 bs (by decide) (by decide)
theorem crc16_lt (bs : Bits) : crcBits rfcCrc16 bs < 2 ^ 16 := crcBits_lt rfcCrc16 bs (by decide) (by decide)

/-! ### header code fields -/

theorem tagBits_natToBits (w p c : Nat) (k : Bits) (h : c ≤ w) (hp : p < 2 ^ c) :
    tagBits w p c (natToBits c p ++ k) = .ok (p, k) := by
  unfold tagBits
  rw [takeBits_natToBits_lt w c p k h hp]
  simp

/-- Sample-rate specs in their code range (`Fixed(tag)` stands for the eleven table entries). -/
def SrOk : SampleRateSpec → Prop
  | .unspecified => True
  | .fixed t => 1 ≤ t ∧ t ≤ 11
  | .kHz v => v < 256
  | .hz v => v < 65536
  | .daHz v => v < 65536

/-- Channel assignments `ChannelAssignment::from_tag` can produce. -/
def ChOk : ChannelAssignment → Prop
  | .independent n => 1 ≤ n ∧ n ≤ 8
  | _ => True

theorem blockSizeCode_read (spec : BlockSizeSpec) (hs : SpecOk spec) (k : Bits) :
    blockSizeCode spec.tag (spec.extraBits ++ k) = .ok (spec, k) := by
  cases spec with
  | reserved => exact absurd hs (by simp [SpecOk])
  | s192 => show blockSizeCode 1 ([] ++ k) = _; simp [blockSizeCode]
  | pow2Mul576 x =>
    have hx : x ≤ 3 := hs
    show blockSizeCode (2 + x) ([] ++ k) = _
    unfold blockSizeCode
    rw [if_neg (by omega), if_pos (by omega), usub_ok _ _ _ (by omega)]
    simp only [ok_bind, pure_eq, List.nil_append]
    congr 3; omega
  | extraByte x =>
    have hx : x < 256 := hs
    show blockSizeCode 6 (natToBits 8 x ++ k) = _
    unfold blockSizeCode
    rw [if_neg (by omega), if_neg (by omega), if_pos rfl, beUint_natToBits 1 x k (by simpa using hx)]
    rfl
  | extraTwoBytes x =>
    have hx : x < 65536 := hs
    show blockSizeCode 7 (natToBits 16 x ++ k) = _
    unfold blockSizeCode
    rw [if_neg (by omega), if_neg (by omega), if_neg (by omega), if_pos rfl,
      beUint_natToBits 2 x k (by simpa using hx)]
    rfl
  | pow2Mul256 x =>
    have hx : x ≤ 7 := hs
    show blockSizeCode (8 + x) ([] ++ k) = _
    unfold blockSizeCode
    rw [if_neg (by omega), if_neg (by omega), if_neg (by omega), if_neg (by omega), if_pos (by omega),
      usub_ok _ _ _ (by omega)]
    simp only [ok_bind, pure_eq, List.nil_append]
    congr 3; omega

theorem sampleRateCode_read (spec : SampleRateSpec) (hs : SrOk spec) (k : Bits) :
    sampleRateCode spec.tag (spec.extraBits ++ k) = .ok (spec, k) := by
  cases spec with
  | unspecified => show sampleRateCode 0 ([] ++ k) = _; simp [sampleRateCode]
  | fixed t =>
    obtain ⟨h1, h2⟩ := hs
    show sampleRateCode t ([] ++ k) = _
    unfold sampleRateCode
    rw [if_neg (by omega), if_neg (by omega), if_neg (by omega), if_neg (by omega), if_neg (by omega)]
    rfl
  | kHz v =>
    have hv : v < 256 := hs
    show sampleRateCode 12 (natToBits 8 v ++ k) = _
    unfold sampleRateCode
    rw [if_neg (by omega), if_pos rfl, beUint_natToBits 1 v k (by simpa using hv)]
    simp only [ok_bind, pure_eq, Nat.mod_eq_of_lt hv]
  | hz v =>
    have hv : v < 65536 := hs
    show sampleRateCode 13 (natToBits 16 v ++ k) = _
    unfold sampleRateCode
    rw [if_neg (by omega), if_neg (by omega), if_pos rfl, beUint_natToBits 2 v k (by simpa using hv)]
    simp only [ok_bind, pure_eq, Nat.mod_eq_of_lt hv]
  | daHz v =>
    have hv : v < 65536 := hs
    show sampleRateCode 14 (natToBits 16 v ++ k) = _
    unfold sampleRateCode
    rw [if_neg (by omega), if_neg (by omega), if_neg (by omega), if_pos rfl,
      beUint_natToBits 2 v k (by simpa using hv)]
    simp only [ok_bind, pure_eq, Nat.mod_eq_of_lt hv]

theorem channelFromTag_read (a : ChannelAssignment) (ha : ChOk a) : channelFromTag a.tag = .ok (some a) := by
  cases a with
  | independent n =>
    obtain ⟨h1, h2⟩ := ha
    show channelFromTag (n - 1) = _
    unfold channelFromTag
    rw [if_pos (by omega), uadd_ok 8 _ _ _ (by omega)]
    simp only [ok_bind, pure_eq]
    congr 3; omega
  | leftSide => rfl
  | rightSide => rfl
  | midSide => rfl

theorem specTag_lt (spec : BlockSizeSpec) (hs : SpecOk spec) : spec.tag < 16 := by
  cases spec <;> simp only [BlockSizeSpec.tag] <;> simp only [SpecOk] at hs <;> omega

theorem srTag_lt (spec : SampleRateSpec) (hs : SrOk spec) : spec.tag < 16 := by
  cases spec <;> simp only [SampleRateSpec.tag] <;> simp only [SrOk] at hs <;> omega

theorem chTag_lt (a : ChannelAssignment) (ha : ChOk a) : a.tag < 16 := by
  cases a <;> simp only [ChannelAssignment.tag] <;> simp only [ChOk] at ha <;> omega


/-! ### frame header -/

/-- Headers that `frame_header` can produce (and therefore read back). -/
def HdrOk (h : FrameHeader) : Prop :=
  SpecOk h.blockSizeSpec ∧ SrOk h.sampleRateSpec ∧ ChOk h.assignment ∧ h.sampleSizeTag < 8 ∧
  (if h.isVariable then h.frameNumber = 0 else h.startSample = 0 ∧ h.frameNumber < 2 ^ 32)

instance (s : BlockSizeSpec) : Decidable (SpecOk s) := by
  cases s <;> (unfold SpecOk; infer_instance)
instance (s : SampleRateSpec) : Decidable (SrOk s) := by
  cases s <;> (unfold SrOk; infer_instance)
instance (a : ChannelAssignment) : Decidable (ChOk a) := by
  cases a <;> (unfold ChOk; infer_instance)
instance (h : FrameHeader) : Decidable (HdrOk h) := by
  unfold HdrOk; infer_instance

theorem header_fixed_bits (var bs sr ch ss : Nat) (hvar : var ≤ 1) (hsr : sr < 16) :
    natToBits 16 (0xFFF8 + var) ++ natToBits 8 ((bs <<< 4) ||| sr) ++ natToBits 4 ch ++ natToBits 4 (ss <<< 1) =
      natToBits 15 0x7FFC ++ (natToBits 1 var ++ (natToBits 4 bs ++ (natToBits 4 sr ++ (natToBits 4 ch ++
        (natToBits 3 ss ++ natToBits 1 0))))) := by
  have h1 : natToBits 16 (0xFFF8 + var) = natToBits 15 0x7FFC ++ natToBits 1 var := by
    have := natToBits_split 15 1 (0xFFF8 + var)
    rw [this]
    have e1 : (0xFFF8 + var) / 2 ^ 1 = 0x7FFC := by omega
    rw [e1]
    congr 1
    apply natToBits_congr
    intro j hj
    have : j = 0 := by omega
    subst this
    simp only [Nat.testBit_zero]
    have : (65528 + var) % 2 = var % 2 := by omega
    rw [this]
  have h2 : natToBits 8 ((bs <<< 4) ||| sr) = natToBits 4 bs ++ natToBits 4 sr := by
    have e : (bs <<< 4) ||| sr = 16 * bs + sr := by
      rw [Nat.shiftLeft_eq, Nat.mul_comm]
      exact or_add 4 bs sr hsr
    rw [e]
    have := natToBits_split 4 4 (16 * bs + sr)
    rw [this]
    have e1 : (16 * bs + sr) / 2 ^ 4 = bs := by omega
    rw [e1]
    congr 1
    apply natToBits_congr
    intro j hj
    have e2 : 16 * bs + sr = 2 ^ 4 * bs + sr := by omega
    rw [e2, Nat.testBit_two_pow_mul_add bs hsr]
    simp [hj]
  have h3 : natToBits 4 (ss <<< 1) = natToBits 3 ss ++ natToBits 1 0 := by
    have e : ss <<< 1 = 2 * ss := by rw [Nat.shiftLeft_eq]; omega
    rw [e]
    have := natToBits_split 3 1 (2 * ss)
    rw [this]
    have e1 : 2 * ss / 2 ^ 1 = ss := by omega
    rw [e1]
    congr 1
    apply natToBits_congr
    intro j hj
    have : j = 0 := by omega
    subst this
    simp
  rw [h1, h2, h3]
  simp only [List.append_assoc]

theorem consumed_append (a b : Bits) : consumed (a ++ b) b = a := by
  unfold consumed
  have : (a ++ b).length - b.length = a.length := by simp
  rw [this, List.take_left']
  rfl

theorem alignByte_aligned (i : Bits) (h : i.length % 8 = 0) : alignByte i = i := by
  unfold alignByte
  rw [h]; rfl

theorem bsExtra_len (spec : BlockSizeSpec) : spec.extraBits.length % 8 = 0 := by
  cases spec <;> simp [BlockSizeSpec.extraBits]

theorem srExtra_len (spec : SampleRateSpec) : spec.extraBits.length % 8 = 0 := by
  cases spec <;> simp [SampleRateSpec.extraBits]


theorem frameHeader_read (h : FrameHeader) (cc : Bool) (hb k : Bits) (hbits : h.bits rfcCrc8 = some hb)
    (hok : HdrOk h) (hk : k.length % 8 = 0) : frameHeader cc (hb ++ k) = .ok (h, k) := by
  obtain ⟨hspec, hsr, hch, hss, hnum⟩ := hok
  unfold FrameHeader.bits FrameHeader.bodyBits at hbits
  cases hu : encodeUtf8like h.number with
  | none => rw [hu] at hbits; simp at hbits
  | some num =>
    rw [hu] at hbits
    have htag : ¬ h.assignment.tag > 15 := by have := chTag_lt _ hch; omega
    simp only [Option.bind_eq_bind, Option.bind_some, htag, if_false] at hbits
    injection hbits with hbits
    subst hbits
    have hvar : (if h.isVariable = true then 1 else 0) ≤ 1 := by split <;> omega
    rw [header_fixed_bits _ _ _ _ _ hvar (srTag_lt _ hsr)]
    -- the body, right-nested
    generalize hcrc : crcBits rfcCrc8 _ = crc
    simp only [List.append_assoc]
    unfold frameHeader
    rw [tagBits_natToBits 16 0x7FFC 15 _ (by decide) (by decide)]
    simp only [ok_bind]
    rw [takeBits_natToBits_lt 8 1 _ _ (by decide) (by omega)]
    simp only [ok_bind]
    rw [takeBits_natToBits_lt 8 4 _ _ (by decide) (specTag_lt _ hspec)]
    simp only [ok_bind]
    rw [takeBits_natToBits_lt 8 4 _ _ (by decide) (srTag_lt _ hsr)]
    simp only [ok_bind]
    rw [takeBits_natToBits_lt 8 4 _ _ (by decide) (chTag_lt _ hch)]
    simp only [ok_bind]
    rw [takeBits_natToBits_lt 8 3 _ _ (by decide) (by omega)]
    simp only [ok_bind]
    rw [tagBits_natToBits 32 0 1 _ (by decide) (by decide)]
    simp only [ok_bind]
    rw [alignByte_aligned _ (by
      simp only [List.length_append, bytesToBits_length, natToBits_length]
      have := bsExtra_len h.blockSizeSpec
      have := srExtra_len h.sampleRateSpec
      omega)]
    rw [if_neg (by omega), channelFromTag_read _ hch]
    simp only [ok_bind]
    rw [utf8_read h.number _ num hu]
    simp only [ok_bind]
    rw [blockSizeCode_read _ hspec]
    simp only [ok_bind]
    rw [sampleRateCode_read _ hsr]
    simp only [ok_bind]
    rw [beUint_natToBits 1 crc k (by rw [← hcrc]; exact crc8_lt _)]
    simp only [ok_bind]
    have hcons : ∀ (B R : Bits), B ++ R = (natToBits 15 32764 ++
                    (natToBits 1 (if h.isVariable = true then 1 else 0) ++
                      (natToBits 4 h.blockSizeSpec.tag ++
                        (natToBits 4 h.sampleRateSpec.tag ++
                          (natToBits 4 h.assignment.tag ++
                            (natToBits 3 h.sampleSizeTag ++
                              (natToBits 1 0 ++
                                (bytesToBits num ++
                                  (h.blockSizeSpec.extraBits ++
                                    (h.sampleRateSpec.extraBits ++ (natToBits 8 crc ++ k))))))))))) →
        R = natToBits 8 crc ++ k → crcBits rfcCrc8 B = crc →
        crcBits rfcCrc8 (consumed (natToBits 15 32764 ++
                    (natToBits 1 (if h.isVariable = true then 1 else 0) ++
                      (natToBits 4 h.blockSizeSpec.tag ++
                        (natToBits 4 h.sampleRateSpec.tag ++
                          (natToBits 4 h.assignment.tag ++
                            (natToBits 3 h.sampleSizeTag ++
                              (natToBits 1 0 ++
                                (bytesToBits num ++
                                  (h.blockSizeSpec.extraBits ++
                                    (h.sampleRateSpec.extraBits ++ (natToBits 8 crc ++ k))))))))))) (natToBits 8 crc ++ k)) = crc := by
      intro B R hBR hR hB
      rw [← hBR, hR, consumed_append, hB]
    rw [hcons _ (natToBits 8 crc ++ k) (by simp only [List.append_assoc]) rfl hcrc]
    have hne : (cc && crc != crc) = false := by simp
    rw [hne]
    simp only [Bool.false_eq_true, if_false, pure_eq]
    congr 2
    cases hv : h.isVariable with
    | true =>
      rw [hv] at hnum
      simp only [if_true] at hnum
      cases h
      simp only [FrameHeader.number] at *
      subst hv
      subst hnum
      simp
    | false =>
      rw [hv] at hnum
      simp only [Bool.false_eq_true, if_false] at hnum
      obtain ⟨h1, h2⟩ := hnum
      cases h
      simp only [FrameHeader.number] at *
      subst hv
      subst h1
      simp [Nat.mod_eq_of_lt h2]


/-! ### frame -/

theorem subframe_bits_pos (s : SubFrame) : 0 < s.bits.length := by
  cases s <;> simp [SubFrame.bits] <;> omega

theorem subframes_read (bs bps : Nat) (a : ChannelAssignment) (hbps : bps + 1 < 2 ^ 64) (sfs : List SubFrame) (ch : Nat)
    (k : Bits)
    (h : ∀ j (hj : j < sfs.length), (sfs[j]).WF ∧ SubOk (sfs[j]) ∧ (sfs[j]).blockSize = bs ∧
      (sfs[j]).bps = bps + a.bpsOffset (ch + j)) :
    subframes bs bps a sfs.length ch (sfs.flatMap SubFrame.bits ++ k) = .ok (sfs, k) := by
  induction sfs generalizing ch with
  | nil => rfl
  | cons s sfs ih =>
    obtain ⟨hwf, hok, hbs, hb⟩ := h 0 (by simp)
    simp only [List.getElem_cons_zero, Nat.add_zero] at hwf hok hbs hb
    rw [List.length_cons, subframes, List.flatMap_cons, List.append_assoc]
    have ho := bpsOffset_le a ch
    rw [uadd_ok 64 _ _ _ (by omega)]
    simp only [ok_bind]
    rw [← hb, ← hbs, subframe_read s hwf hok]
    simp only
    have hpos := subframe_bits_pos s
    rw [if_neg (by simp only [List.length_append]; omega)]
    rw [hbs, ih (ch + 1) (fun j hj => by
      have := h (j + 1) (by simp; omega)
      simp only [List.getElem_cons_succ] at this
      rw [show ch + (j + 1) = ch + 1 + j by omega] at this
      exact this)]
    rfl

theorem headerBlockSize_eq (h : FrameHeader) (hs : SpecOk h.blockSizeSpec) :
    ∃ n, headerBlockSize h = .ok n ∧ h.blockSizeSpec.blockSize = some n := by
  unfold headerBlockSize
  cases hspec : h.blockSizeSpec with
  | reserved => rw [hspec] at hs; exact absurd hs (by simp [SpecOk])
  | s192 => exact ⟨192, rfl, rfl⟩
  | pow2Mul576 x =>
    rw [hspec] at hs
    have hx : x ≤ 3 := hs
    have h8 : (2 : Nat) ^ x ≤ 2 ^ 3 := Nat.pow_le_pow_right (by decide) hx
    refine ⟨576 * 2 ^ x, ?_, rfl⟩
    simp only
    rw [ushl_one_ok 64 _ x (by omega)]
    simp only [ok_bind]
    rw [umul_ok 64 _ _ _ (by omega)]
  | extraByte x =>
    rw [hspec] at hs
    have hx : x < 256 := hs
    refine ⟨x + 1, ?_, rfl⟩
    simp only
    rw [uadd_ok 64 _ _ _ (by omega)]
  | extraTwoBytes x =>
    rw [hspec] at hs
    have hx : x < 65536 := hs
    refine ⟨x + 1, ?_, rfl⟩
    simp only
    rw [uadd_ok 64 _ _ _ (by omega)]
  | pow2Mul256 x =>
    rw [hspec] at hs
    have hx : x ≤ 7 := hs
    have h8 : (2 : Nat) ^ x ≤ 2 ^ 7 := Nat.pow_le_pow_right (by decide) hx
    refine ⟨256 * 2 ^ x, ?_, rfl⟩
    simp only
    rw [ushl_one_ok 64 _ x (by omega)]
    simp only [ok_bind]
    rw [umul_ok 64 _ _ _ (by omega)]

/-- What `frame(info, ..)` needs to read back a frame written by `Frame::write`. -/
structure FrameOk (info : StreamInfo) (f : Frame) : Prop where
  hdr : HdrOk f.header
  channels : f.header.assignment.channels = info.channels
  count : f.subframes.length = f.header.assignment.channels
  bps : (sampleSizeBits f.header.sampleSizeTag).getD info.bps = info.bps
  bpsRange : info.bps ≤ 24
  subs : ∀ j (hj : j < f.subframes.length), (f.subframes[j]).WF ∧ SubOk (f.subframes[j]) ∧
    some (f.subframes[j]).blockSize = f.header.blockSizeSpec.blockSize ∧
    (f.subframes[j]).bps = info.bps + f.header.assignment.bpsOffset j

theorem header_bits_len8 (h : FrameHeader) (hb : Bits) (hbits : h.bits rfcCrc8 = some hb) : hb.length % 8 = 0 := by
  unfold FrameHeader.bits FrameHeader.bodyBits at hbits
  cases hu : encodeUtf8like h.number with
  | none => rw [hu] at hbits; simp at hbits
  | some num =>
    rw [hu] at hbits
    by_cases htag : h.assignment.tag > 15
    · simp [htag] at hbits
    · simp only [Option.bind_eq_bind, Option.bind_some, htag, if_false] at hbits
      injection hbits with hbits
      subst hbits
      simp only [List.length_append, natToBits_length, bytesToBits_length]
      have := bsExtra_len h.blockSizeSpec
      have := srExtra_len h.sampleRateSpec
      omega

/-- (c) `Frame::write` followed by `parser::frame` is the identity. -/
theorem frame_read (f : Frame) (info : StreamInfo) (cc : Bool) (fb k : Bits)
    (hbits : f.bits rfcCrc8 rfcCrc16 = some fb) (hok : FrameOk info f) (hk : k.length % 8 = 0) :
    frame info cc (fb ++ k) = .ok (f, k) := by
  unfold Frame.bits at hbits
  cases hh : f.header.bits rfcCrc8 with
  | none => rw [hh] at hbits; simp at hbits
  | some hb =>
    rw [hh] at hbits
    simp only [Option.bind_eq_bind, Option.bind_some] at hbits
    injection hbits with hbits
    subst hbits
    have hhb8 := header_bits_len8 f.header hb hh
    obtain ⟨n, hn1, hn2⟩ := headerBlockSize_eq f.header hok.hdr.1
    generalize hcrc : crcBits rfcCrc16 _ = crc
    unfold Frame.padTo8 at hcrc ⊢
    generalize hpad : List.replicate ((8 - (hb ++ f.subframes.flatMap SubFrame.bits).length % 8) % 8) false = pad at hcrc ⊢
    have hpadlen : pad.length = (8 - (hb ++ f.subframes.flatMap SubFrame.bits).length % 8) % 8 := by
      rw [← hpad]; simp
    simp only [List.append_assoc]
    unfold frame
    rw [frameHeader_read f.header true hb _ hh hok.hdr (by
      simp only [List.length_append, natToBits_length] at hpadlen ⊢
      omega)]
    simp only [ok_bind]
    rw [if_neg (by rw [hok.channels]; simp), hn1]
    simp only [ok_bind]
    rw [if_neg (by rw [hok.bps]; simp), hok.bps]
    rw [← hok.count, subframes_read n info.bps f.header.assignment (by have := hok.bpsRange; omega)
      f.subframes 0 _ (fun j hj => by
        obtain ⟨h1, h2, h3, h4⟩ := hok.subs j hj
        rw [hn2] at h3
        injection h3 with h3
        exact ⟨h1, h2, h3, by rw [Nat.zero_add]; exact h4⟩)]
    simp only [ok_bind]
    have halign : alignByte (pad ++ (natToBits 16 crc ++ k)) = natToBits 16 crc ++ k := by
      unfold alignByte
      have hl : (pad ++ (natToBits 16 crc ++ k)).length % 8 = pad.length := by
        simp only [List.length_append, natToBits_length] at hpadlen ⊢
        omega
      rw [hl, List.drop_left]
    rw [halign]
    have hcons : consumed (hb ++ (f.subframes.flatMap SubFrame.bits ++ (pad ++ (natToBits 16 crc ++ k))))
        (natToBits 16 crc ++ k) = hb ++ f.subframes.flatMap SubFrame.bits ++ pad := by
      have : hb ++ (f.subframes.flatMap SubFrame.bits ++ (pad ++ (natToBits 16 crc ++ k))) =
          (hb ++ f.subframes.flatMap SubFrame.bits ++ pad) ++ (natToBits 16 crc ++ k) := by
        simp only [List.append_assoc]
      rw [this, consumed_append]
    rw [hcons, hcrc, beUint_natToBits 2 crc k (by rw [← hcrc]; exact crc16_lt _)]
    simp only [ok_bind]
    have hne : (cc && crc != crc) = false := by simp
    rw [hne]
    simp only [Bool.false_eq_true, if_false, pure_eq]


/-! ### the byte interface -/

theorem bytesToBits_packBytes (n : Nat) : ∀ bs : Bits, bs.length = 8 * n → bytesToBits (packBytes bs) = bs := by
  induction n with
  | zero =>
    intro bs h
    have : bs = [] := List.eq_nil_of_length_eq_zero (by omega)
    subst this
    rw [packBytes]; rfl
  | succ n ih =>
    intro bs h
    match bs, h with
    | b0 :: rest, h =>
      rw [packBytes]
      have hlen : (List.take 8 (b0 :: rest)).length = 8 := by
        rw [List.length_take]; simp only [List.length_cons] at h ⊢; omega
      rw [hlen]
      simp only [Nat.sub_self, List.replicate_zero, List.append_nil]
      rw [bytesToBits_cons]
      have h8 := natToBits_bitsToNat (List.take 8 (b0 :: rest))
      rw [hlen] at h8
      rw [h8, ih (List.drop 8 (b0 :: rest)) (by rw [List.length_drop]; simp only [List.length_cons] at h ⊢; omega)]
      exact List.take_append_drop 8 (b0 :: rest)

theorem packBytes_length (n : Nat) : ∀ bs : Bits, bs.length = 8 * n → (packBytes bs).length = n := by
  induction n with
  | zero =>
    intro bs h
    have : bs = [] := List.eq_nil_of_length_eq_zero (by omega)
    subst this
    rw [packBytes]; rfl
  | succ n ih =>
    intro bs h
    match bs, h with
    | b0 :: rest, h =>
      rw [packBytes]
      simp only [List.length_cons]
      rw [ih (List.drop 8 (b0 :: rest)) (by rw [List.length_drop]; simp only [List.length_cons] at h ⊢; omega)]

theorem frame_bits_len8 (f : Frame) (fb : Bits) (hbits : f.bits rfcCrc8 rfcCrc16 = some fb) : fb.length % 8 = 0 := by
  unfold Frame.bits at hbits
  cases hh : f.header.bits rfcCrc8 with
  | none => rw [hh] at hbits; simp at hbits
  | some hb =>
    rw [hh] at hbits
    simp only [Option.bind_eq_bind, Option.bind_some] at hbits
    injection hbits with hbits
    subst hbits
    unfold Frame.padTo8
    simp only [List.length_append, natToBits_length, List.length_replicate]
    omega

theorem parseFrame_read (f : Frame) (info : StreamInfo) (cc : Bool) (fb : Bits) (more : List Nat)
    (hbits : f.bits rfcCrc8 rfcCrc16 = some fb) (hok : FrameOk info f) :
    parseFrame info cc (packBytes fb ++ more) = .ok (f, more) := by
  have h8 := frame_bits_len8 f fb hbits
  have hlen : fb.length = 8 * (fb.length / 8) := by omega
  unfold parseFrame
  rw [bytesToBits_append, bytesToBits_packBytes _ fb hlen,
    frame_read f info cc fb (bytesToBits more) hbits hok (by rw [bytesToBits_length]; omega)]
  simp only
  congr 2
  unfold restBytes
  rw [bytesToBits_length, List.length_append, packBytes_length _ fb hlen]
  have : fb.length / 8 + more.length - 8 * more.length / 8 = fb.length / 8 := by omega
  rw [this]
  have hl := packBytes_length _ fb hlen
  rw [← hl, List.drop_left]

end FlacVerif.Repo
