/-
`ByteSink.step` refines the ideal bit string for every valid op; lifted to op sequences.
-/
import FlacVerif.Lemmas.ByteSink
import FlacVerif.Lemmas.WordSinkStep
namespace FlacVerif
namespace ByteSink
open WordSink (getMsbD_ofNat' natToBits_getD testBit_emod_two_pow)

theorem validWidth_facts {w : Nat} (hw : validWidth w = true) : w % 8 = 0 ∧ 8 ≤ w ∧ w ≤ 64 := by
  simp [validWidth] at hw; omega

theorem writeMsbs_refines (s : ByteSink) (hs : s.Inv) (w v n : Nat) (hw : validWidth w = true) (hn : n ≤ w) :
    ∃ s', s.writeMsbs (BitVec.ofNat w v) n = some s' ∧ Refines s s' ((natToBits w v).take n) := by
  obtain ⟨hw8, hw1, _⟩ := validWidth_facts hw
  by_cases h0 : n = 0
  · subst h0
    exact ⟨s, by simp [writeMsbs], by simpa using Refines.refl s hs⟩
  · obtain ⟨s', e, hl, hz, hp⟩ := writeMsbs_pointwise hw8 hw1 s hs (BitVec.ofNat w v) n (by omega) hn
    refine ⟨s', e, refines_of_pointwise s s' n (fun j => decide (j < n) && (BitVec.ofNat w v).getMsbD j) _ hl hz ?_ hp ?_ ?_⟩
    · intro j hj; simp [show ¬ j < n by omega]
    · simp [List.length_take]; omega
    · intro j hj
      rw [List.getD_eq_getElem?_getD, List.getElem?_take_of_lt hj, ← List.getD_eq_getElem?_getD,
        natToBits_getD w v j (by omega), getMsbD_ofNat']
      simp [hj, show j < w by omega]

theorem writeLsbs_refines (s : ByteSink) (hs : s.Inv) (w v n : Nat) (hw : validWidth w = true) (hn : n ≤ w) :
    ∃ s', s.writeLsbs (BitVec.ofNat w v) n = some s' ∧ Refines s s' (natToBits n v) := by
  obtain ⟨hw8, hw1, _⟩ := validWidth_facts hw
  by_cases h0 : n = 0
  · subst h0
    exact ⟨s, by simp [writeLsbs], by simpa [natToBits] using Refines.refl s hs⟩
  · have hk : w - n < w := by omega
    obtain ⟨s', e, hl, hz, hp⟩ := writeMsbs_pointwise hw8 hw1 s hs (BitVec.ofNat w v <<< (w - n)) n (by omega) hn
    refine ⟨s', by simp [writeLsbs, h0, chkSub, chkShl, hn, hk, bind, Option.bind]; exact e,
      refines_of_pointwise s s' n (fun j => decide (j < n) && (BitVec.ofNat w v <<< (w - n)).getMsbD j) _ hl hz ?_ hp ?_ ?_⟩
    · intro j hj; simp [show ¬ j < n by omega]
    · simp
    · intro j hj
      show _ = (decide (j < n) && (BitVec.ofNat w v <<< (w - n)).getMsbD j)
      rw [BitVec.getMsbD_shiftLeft, getMsbD_ofNat', natToBits_getD n v j hj]
      have : j + (w - n) < w := by omega
      simp only [hj, this, decide_true, Bool.true_and]
      congr 1; omega

theorem writeTwoc_refines (s : ByteSink) (hs : s.Inv) (v : Int) (n : Nat) (h1 : 1 ≤ n) (hn : n ≤ 64) :
    ∃ s', s.step (.writeTwoc v n) = some s' ∧ Refines s s' (twoc n v) := by
  have hk : 64 - n < 64 := by omega
  obtain ⟨s', e, hl, hz, hp⟩ := writeMsbs_pointwise (w := 64) (by decide) (by decide) s hs (BitVec.ofInt 64 v <<< (64 - n)) n h1 hn
  refine ⟨s', by simp [step, chkSub, chkShl, hn, hk, bind, Option.bind]; exact e,
    refines_of_pointwise s s' n (fun j => decide (j < n) && (BitVec.ofInt 64 v <<< (64 - n)).getMsbD j) _ hl hz ?_ hp ?_ ?_⟩
  · intro j hj; simp [show ¬ j < n by omega]
  · simp [twoc]
  · intro j hj
    show _ = (decide (j < n) && (BitVec.ofInt 64 v <<< (64 - n)).getMsbD j)
    rw [BitVec.getMsbD_shiftLeft]
    simp only [twoc]
    rw [natToBits_getD n _ j hj]
    simp only [hj, decide_true, Bool.true_and, BitVec.getMsbD, BitVec.getLsbD, BitVec.toNat_ofInt]
    have : j + (64 - n) < 64 := by omega
    simp only [this, decide_true, Bool.true_and]
    have e : 64 - 1 - (j + (64 - n)) = n - 1 - j := by omega
    rw [e]
    have := testBit_emod_two_pow v n (n - 1 - j) (by omega) hn
    simpa using this.symm

theorem getD_replicate_false (n j : Nat) : (List.replicate n false).getD j false = false := by
  rw [List.getD_eq_getElem?_getD]
  cases h : (List.replicate n false)[j]? with
  | none => rfl
  | some b =>
    have := List.getElem?_replicate ▸ h
    split at this <;> simp_all

theorem alignToByte_refines (s : ByteSink) (hs : s.Inv) :
    Refines s s.alignToByte (List.replicate ((8 - s.len % 8) % 8) false) := by
  refine ⟨by simp [alignToByte, paddings], ?_, fun i => ?_⟩
  · have := hs.size
    simp only [alignToByte, paddings]; omega
  · by_cases hi : i < s.len
    · simp [hi, alignToByte, bitAt]
    · have := hs.tail i (by omega)
      simp only [bitAt] at this
      simp only [hi, ↓reduceIte, alignToByte, bitAt, this, getD_replicate_false]

theorem writeZeros_refines (s : ByteSink) (hs : s.Inv) (n : Nat) :
    Refines s (s.writeZeros n) (List.replicate n false) := by
  have hsz := hs.size
  by_cases hnp : n ≤ s.paddings
  · have e : s.writeZeros n = { s with len := s.len + n } := by simp [writeZeros, hnp]
    rw [e]
    refine ⟨by simp, ?_, fun i => ?_⟩
    · simp only [paddings] at hnp; simp only []; omega
    · by_cases hi : i < s.len
      · simp [hi, bitAt]
      · have := hs.tail i (by omega)
        simp only [bitAt] at this
        simp only [hi, ↓reduceIte, bitAt, this, getD_replicate_false]
  · have e : s.writeZeros n = ⟨s.storage ++ List.replicate ((n - s.paddings + 7) / 8) 0, s.len + s.paddings + (n - s.paddings)⟩ := by
      simp [writeZeros, hnp]
    rw [e]
    refine ⟨by simp only [List.length_replicate]; omega, ?_, fun i => ?_⟩
    · simp only [paddings] at hnp ⊢
      simp only [List.length_append, List.length_replicate]; omega
    · by_cases hi : i < s.len
      · have : i / 8 < s.storage.length := by omega
        simp [hi, bitAt, List.getElem?_append_left this]
      · simp only [hi, ↓reduceIte, getD_replicate_false, bitAt]
        by_cases hlt : i / 8 < s.storage.length
        · rw [List.getElem?_append_left hlt]
          have := hs.tail i (by omega)
          simpa [bitAt] using this
        · rw [List.getElem?_append_right (by omega)]
          cases h : (List.replicate ((n - s.paddings + 7) / 8) (0 : BitVec 8))[i / 8 - s.storage.length]? with
          | none => simp
          | some b =>
            have := List.getElem?_replicate ▸ h
            split at this
            · simp at this; subst this; simp
            · simp at this

/-- Appending whole bytes (as `write_bytes_aligned` and the tail of `write` do) to an aligned sink. -/
theorem extend_refines (s : ByteSink) (hs : s.Inv) (hal : s.len % 8 = 0) (bytes : List (BitVec 8)) :
    Refines s ⟨s.storage ++ bytes, s.len + 8 * bytes.length⟩ (bytes.flatMap fun b => natToBits 8 b.toNat) := by
  have hflen : (bytes.flatMap fun b => natToBits 8 b.toNat).length = 8 * bytes.length := by
    induction bytes with
    | nil => rfl
    | cons b bs ih => simp [List.flatMap_cons, ih]; omega
  have hget : ∀ (bs : List (BitVec 8)) (j : Nat), (bs.flatMap fun b => natToBits 8 b.toNat).getD j false
      = (bs[j / 8]?.getD 0).getMsbD (j % 8) := by
    intro bs
    induction bs with
    | nil => intro j; simp
    | cons b bs ih =>
      intro j
      simp only [List.flatMap_cons]
      rw [List.getD_eq_getElem?_getD]
      by_cases hj : j < 8
      · rw [List.getElem?_append_left (by simpa using hj), ← List.getD_eq_getElem?_getD, natToBits_getD 8 _ j hj]
        have : j / 8 = 0 := by omega
        simp only [this, List.getElem?_cons_zero, Option.getD_some, BitVec.getMsbD, BitVec.getLsbD]
        have h2 : j % 8 = j := by omega
        simp [h2, hj]
      · rw [List.getElem?_append_right (by simpa using Nat.le_of_not_lt hj), ← List.getD_eq_getElem?_getD]
        simp only [natToBits_length]
        rw [ih (j - 8)]
        have e1 : j / 8 = (j - 8) / 8 + 1 := by omega
        have e2 : (j - 8) % 8 = j % 8 := by omega
        rw [e1, List.getElem?_cons_succ, e2]
  refine ⟨by simp [hflen], ?_, fun i => ?_⟩
  · have := hs.size
    simp only [List.length_append]; omega
  · rw [appendBytes_bitAt s hs hal bytes (fun j => (bytes[j / 8]?.getD 0).getMsbD (j % 8))]
    · by_cases hi : i < s.len
      · simp [hi]
      · simp only [hi, ↓reduceIte]; rw [hget]
    · intro k p hp
      have e1 : (8 * k + p) / 8 = k := by omega
      have e2 : (8 * k + p) % 8 = p := by omega
      simp only [e1, e2]

theorem writeBytesAligned_refines (s : ByteSink) (hs : s.Inv) (bs : List Nat) (hb : ∀ b ∈ bs, b < 256) :
    Refines s (s.writeBytesAligned bs) (List.replicate ((8 - s.len % 8) % 8) false ++ bytesToBits bs) := by
  have ra := alignToByte_refines s hs
  have hal : s.alignToByte.len % 8 = 0 := by simp only [alignToByte, paddings]; omega
  have r2 := extend_refines s.alignToByte ra.inv hal (bs.map (BitVec.ofNat 8))
  have e : ((bs.map (BitVec.ofNat 8)).flatMap fun b => natToBits 8 b.toNat) = bytesToBits bs := by
    clear r2
    induction bs with
    | nil => rfl
    | cons b bs ih =>
      have hb0 : b < 256 := hb b (by simp)
      simp only [List.map_cons, List.flatMap_cons, bytesToBits] at ih ⊢
      rw [ih (fun x hx => hb x (by simp [hx]))]
      simp [Nat.mod_eq_of_lt hb0]
  rw [e] at r2
  have := ra.trans r2
  simpa [writeBytesAligned] using this

theorem write_refines (s : ByteSink) (hs : s.Inv) (w v : Nat) (hw : validWidth w = true) (hv : v < 2 ^ w) :
    ∃ s', s.write (BitVec.ofNat w v) = some s' ∧ Refines s s' (natToBits w v) := by
  obtain ⟨hw8, hw1, hw64⟩ := validWidth_facts hw
  have hpad : s.paddings < 8 := by simp only [paddings]; omega
  -- the bytes appended after the alignment step
  let val' := BitVec.ofNat w v <<< s.paddings
  let bytes := (List.range (w / 8)).map (fun i => (val' >>> (w - 8 * (i + 1))).setWidth 8)
  have hbytes : ∀ i p, p < 8 → (bytes[i]?.getD 0).getMsbD p = val'.getMsbD (8 * i + p) := by
    intro i p hp
    by_cases hi : i < w / 8
    · simp only [bytes]
      rw [List.getElem?_map, List.getElem?_range hi]
      simp only [Option.map_some, Option.getD_some]
      exact getMsbD_byteOf val' i p hp (by omega)
    · simp only [bytes]
      rw [List.getElem?_eq_none (by simp; omega)]
      simp only [Option.getD_none, WordSink.getMsbD_zero']
      rw [BitVec.getMsbD_of_ge]; omega
  obtain ⟨s1, e1, r1⟩ : ∃ s1, (if s.paddings > 0 then s.writeMsbs (BitVec.ofNat w v) s.paddings else some s) = some s1 ∧
      Refines s s1 ((natToBits w v).take s.paddings) := by
    by_cases hp : s.paddings > 0
    · simp only [hp, ↓reduceIte]
      exact writeMsbs_refines s hs w v s.paddings hw (by omega)
    · have : s.paddings = 0 := by omega
      simp only [hp, ↓reduceIte, this, List.take_zero]
      exact ⟨s, rfl, Refines.refl s hs⟩
  have hs1 := r1.inv
  have hl1 : s1.len = s.len + s.paddings := by
    rw [r1.len]; simp [List.length_take]; omega
  have hal : s1.len % 8 = 0 := by rw [hl1]; simp only [paddings]; omega
  refine ⟨⟨s1.storage ++ bytes, s.len + w⟩, ?_, ?_⟩
  · have c : s.paddings < w := by omega
    unfold write
    simp only [chkShl, c, ↓reduceIte, bind, Option.bind]
    by_cases hp : s.paddings > 0
    · simp only [hp, ↓reduceIte] at e1 ⊢
      rw [e1]
    · simp only [hp, ↓reduceIte] at e1 ⊢
      cases e1; rfl
  · refine ⟨by simp, ?_, fun i => ?_⟩
    · have := hs1.size
      simp only [List.length_append, bytes, List.length_map, List.length_range]; omega
    · rw [appendBytes_bitAt s1 hs1 hal bytes val'.getMsbD hbytes, r1.bits i]
      by_cases hi : i < s.len
      · simp [hi, show i < s1.len by omega]
      · simp only [hi, ↓reduceIte]
        by_cases hi1 : i < s1.len
        · simp only [hi1, ↓reduceIte]
          rw [List.getD_eq_getElem?_getD, List.getD_eq_getElem?_getD, List.getElem?_take_of_lt (by omega)]
        · simp only [hi1, ↓reduceIte, val', BitVec.getMsbD_shiftLeft, getMsbD_ofNat']
          have e : i - s1.len + s.paddings = i - s.len := by omega
          rw [e]
          by_cases hj : i - s.len < w
          · rw [natToBits_getD w v _ hj]; simp [hj]
          · rw [List.getD_eq_getElem?_getD, List.getElem?_eq_none (by simp; omega)]
            simp [hj]

/-- Every valid operation succeeds on `MemSink<u8>` (no panic) and appends exactly the ideal bits. -/
theorem step_refines (s : ByteSink) (hs : s.Inv) (op : Op) (hv : op.Valid) :
    ∃ s', s.step op = some s' ∧ Refines s s' (op.ideal s.len) := by
  cases op with
  | alignToByte => exact ⟨_, rfl, alignToByte_refines s hs⟩
  | writeLsbs w v n =>
    obtain ⟨hw, _, hn⟩ := hv
    exact writeLsbs_refines s hs w v n hw hn
  | writeMsbs w v n =>
    obtain ⟨hw, _, hn⟩ := hv
    exact writeMsbs_refines s hs w v n hw hn
  | write w v =>
    obtain ⟨hw, hv⟩ := hv
    exact write_refines s hs w v hw hv
  | writeTwoc v n =>
    obtain ⟨h1, hn, _⟩ := hv
    exact writeTwoc_refines s hs v n h1 hn
  | writeZeros n => exact ⟨_, rfl, writeZeros_refines s hs n⟩
  | writeBytesAligned bs => exact ⟨_, rfl, writeBytesAligned_refines s hs bs hv⟩

theorem run_refines (s : ByteSink) (hs : s.Inv) (ops : List Op) (hv : ∀ op ∈ ops, op.Valid) :
    ∃ s', s.run ops = some s' ∧ Refines s s' (idealRun s.len ops) := by
  induction ops generalizing s with
  | nil => exact ⟨s, rfl, Refines.refl s hs⟩
  | cons op ops ih =>
    obtain ⟨s1, h1, r1⟩ := step_refines s hs op (hv op (by simp))
    obtain ⟨s2, h2, r2⟩ := ih s1 r1.inv (fun o ho => hv o (by simp [ho]))
    refine ⟨s2, by simp [run, List.foldlM_cons, h1, bind, Option.bind]; exact h2, ?_⟩
    have := r1.trans r2
    simpa [idealRun, r1.len] using this

end ByteSink
end FlacVerif
