/-
Strict round trip (C01/C02), part 18: the frame theorem, assembled.
-/
import FlacVerif.Lemmas.StrictFrameEnc
namespace FlacVerif
namespace Strict
open Rfc

theorem frame_assemble (asg : ChannelAssignment)
    (hasg : match asg with | .independent k => 1 ≤ k ∧ k ≤ 8 | _ => True)
    (subs : List SubFrame) (raws chans : List (List Int)) (n bps rate number : Nat) (hdr : FrameHeader)
    (hn : 1 ≤ n ∧ n < 2 ^ 16) (hnum : number < 2 ^ 31)
    (hh : headerFor asg n bps rate number = some hdr)
    (hsl : subs.length = asg.channels) (hrl : raws.length = asg.channels)
    (hwf : ∀ s ∈ subs, s.WF)
    (hsub : ∀ i (h1 : i < subs.length) (h2 : i < raws.length), ∀ k, ∃ rep,
      readSubframe n (bps + asg.bpsOffset i) (subs[i].bits ++ k) = .ok (rep, k) ∧ rep.samples = raws[i])
    (hrec : reconstruct asg.tag raws = chans)
    (hrange : ∀ c ∈ chans, ∀ x ∈ c, SubFrame.inRange bps x = true)
    (info : Info) (hinfo : info.rate = rate ∧ info.channels = asg.channels ∧ info.bps = bps) (more : List Nat) :
    ∃ fb rep, (Frame.mk hdr subs).bits rfcCrc8 rfcCrc16 = some fb ∧
      readFrame info number (packBytes fb ++ more) (fb ++ bytesToBits more) = .ok (rep, more, bytesToBits more) ∧
      rep.channels = chans ∧ rep.blockSize = n ∧ rep.number = number ∧ rep.byteLen * 8 = fb.length ∧
      (Frame.mk hdr subs).count = some fb.length := by
  unfold headerFor at hh
  simp only [Option.bind_eq_bind, Option.bind_eq_some_iff, Option.some.injEq] at hh
  obtain ⟨bss, hbss, rfl⟩ := hh
  have htag : asg.tag ≤ 15 := by
    have := (C02.C02_channel_code asg hasg).1
    omega
  generalize hhdr : (FrameHeader.mk false bss asg (sampleSizeTag bps)
    ((SampleRateSpec.fromFreq rate).getD .unspecified) number 0) = hdr
  have e1 : hdr.isVariable = false := by rw [← hhdr]
  have e2 : hdr.frameNumber = number := by rw [← hhdr]
  have e3 : hdr.blockSizeSpec = bss := by rw [← hhdr]
  have e4 : hdr.sampleRateSpec = (SampleRateSpec.fromFreq rate).getD .unspecified := by rw [← hhdr]
  have e5 : hdr.sampleSizeTag = sampleSizeTag bps := by rw [← hhdr]
  have e6 : hdr.assignment = asg := by rw [← hhdr]
  obtain ⟨fb, hfb, hcount, _⟩ := Count.frame_bits rfcCrc8 rfcCrc16 (Frame.mk hdr subs)
    (by simp only [FrameHeader.number, e1, e2, Bool.false_eq_true, if_false]; omega) (by rw [e6]; exact htag) hwf
  obtain ⟨rep, h1, h2, h3, h4, h5⟩ := readFrame_frame _ fb more info n bps rate number raws chans hfb e1 e2 hnum
    (by rw [e3]; exact hbss) ⟨hn.1, by omega⟩ e4 e5 (by rw [e6]; exact hasg) (by rw [e6]; exact hinfo)
    (by rw [e6]; exact hsl) (by rw [e6]; exact hrl) (by rw [e6]; exact hsub) (by rw [e6]; exact hrec) hrange
  exact ⟨fb, rep, hfb, h1, h2, h3, h4, h5, hcount⟩

/-- Per-index facts for a two-element list. -/
theorem two_facts {α : Type} (P : Nat → α → Prop) (a b : α) (h0 : P 0 a) (h1 : P 1 b) :
    ∀ i (h : i < [a, b].length), P i [a, b][i] := by
  intro i h
  match i, h with
  | 0, _ => exact h0
  | 1, _ => exact h1

theorem frame_strict (cfg : SubCfg) (st : StereoCfg) (chans : List (List Int)) (bps rate number n : Nat)
    (log log' : List OEvent) (f : Frame)
    (hch : 1 ≤ chans.length ∧ chans.length ≤ 8) (hlen : ∀ c ∈ chans, c.length = n) (hn : 1 ≤ n ∧ n < 2 ^ 16)
    (hb : 1 ≤ bps ∧ bps ≤ 24) (hx : ∀ c ∈ chans, ∀ x ∈ c, SubFrame.inRange bps x = true)
    (hnum : number < 2 ^ 31) (hmax : cfg.maxP ≤ 14)
    (hlog : ∀ e ∈ log, e.Ok)
    (h : encodeFrame cfg st chans bps rate number log = some (f, log'))
    (info : Info) (hinfo : info.rate = rate ∧ info.channels = chans.length ∧ info.bps = bps) (more : List Nat) :
    ∃ fb rep, f.bits rfcCrc8 rfcCrc16 = some fb ∧
      readFrame info number (packBytes fb ++ more) (fb ++ bytesToBits more) = .ok (rep, more, bytesToBits more) ∧
      rep.channels = chans ∧ rep.blockSize = n ∧ rep.number = number ∧ rep.byteLen * 8 = fb.length ∧
      f.count = some fb.length := by
  have hhead : (chans.headD []).length = n := by
    cases chans with
    | nil => simp at hch
    | cons c cs => exact hlen c (by simp)
  unfold encodeFrame at h
  simp only [Option.bind_eq_some_iff] at h
  obtain ⟨⟨indep, l1⟩, hi, h⟩ := h
  rw [hhead] at h
  -- the independent encoding
  obtain ⟨hil, hisub, hifacts⟩ := encodeChannels_strict cfg (.independent chans.length) bps n hn hmax chans 0 log l1 indep
    hlen (fun i hi' => ⟨by simp [ChannelAssignment.bpsOffset]; omega, by simp [ChannelAssignment.bpsOffset]; omega,
      by simpa [ChannelAssignment.bpsOffset] using hx _ (List.getElem_mem hi')⟩) hlog hi
  have hiwf : ∀ s ∈ indep, s.WF := by
    intro s hs
    obtain ⟨i, hi', rfl⟩ := List.getElem_of_mem hs
    exact (hifacts i hi' (by omega)).1
  have hird : ∀ i (h1 : i < indep.length) (h2 : i < chans.length), ∀ k, ∃ rep,
      readSubframe n bps (indep[i].bits ++ k) = .ok (rep, k) ∧ rep.samples = chans[i] := by
    intro i h1 h2 k
    have := (hifacts i h1 h2).2 k
    simpa [ChannelAssignment.bpsOffset] using this
  split at h
  · -- two channels: stereo
    rename_i l r sl sr heq
    simp only at heq
    subst heq
    simp only [Option.bind_eq_some_iff] at h
    obtain ⟨⟨msSubs, l2⟩, hm, h⟩ := h
    have hll : l.length = n := hlen l (by simp)
    have hrl : r.length = n := hlen r (by simp)
    have hlr : l.length = r.length := by omega
    obtain ⟨hmidr, hsider⟩ := midSide_range bps hb.1 l r (hx l (by simp)) (hx r (by simp))
    obtain ⟨hml, _, hmfacts⟩ := encodeChannels_strict cfg .midSide bps n hn hmax
      [midOf l r, sideOf l r] 0 l1 l2 msSubs
      (by
        intro c hc
        simp only [List.mem_cons, List.not_mem_nil, or_false] at hc
        rcases hc with rfl | rfl <;> simp [hll, hrl])
      (two_facts (fun i c => 1 ≤ bps + ChannelAssignment.midSide.bpsOffset (0 + i) ∧
          bps + ChannelAssignment.midSide.bpsOffset (0 + i) ≤ 25 ∧
          ∀ x ∈ c, SubFrame.inRange (bps + ChannelAssignment.midSide.bpsOffset (0 + i)) x = true) _ _
        ⟨by simp [ChannelAssignment.bpsOffset]; omega, by simp [ChannelAssignment.bpsOffset]; omega,
          by simpa [ChannelAssignment.bpsOffset] using hmidr⟩
        ⟨by simp [ChannelAssignment.bpsOffset], by simp [ChannelAssignment.bpsOffset]; omega,
          by simpa [ChannelAssignment.bpsOffset] using hsider⟩)
      (fun e he => hlog e (hisub e he)) hm
    split at h
    · rename_i sm ss heq2
      simp only at heq2
      subst heq2
      simp only [Option.map_eq_some_iff, Prod.mk.injEq] at h
      obtain ⟨hdr, hhdr, hf, _⟩ := h
      subst hf
      -- the four candidate sub-frames
      have hsl := hird 0 (by simp) (by simp)
      have hsr := hird 1 (by simp) (by simp)
      have hsm := fun k => (hmfacts 0 (by simp) (by simp)).2 k
      have hss := fun k => (hmfacts 1 (by simp) (by simp)).2 k
      simp only [List.getElem_cons_zero, List.getElem_cons_succ, ChannelAssignment.bpsOffset, Nat.zero_add,
        Nat.add_zero, if_true, show ¬ ((0 : Nat) = 1) by decide, if_false] at hsl hsr hsm hss
      have wsl : sl.WF := hiwf sl (by simp)
      have wsr : sr.WF := hiwf sr (by simp)
      have wsm : sm.WF := (hmfacts 0 (by simp) (by simp)).1
      have wss : ss.WF := (hmfacts 1 (by simp) (by simp)).1
      have hinfo2 : ∀ a : ChannelAssignment, a.channels = 2 →
          info.rate = rate ∧ info.channels = a.channels ∧ info.bps = bps := by
        intro a ha
        rw [ha]
        exact ⟨hinfo.1, by simpa using hinfo.2.1, hinfo.2.2⟩
      rcases chooseStereo_cases st (cnt sl) (cnt sr) (cnt sm) (cnt ss) with ha | ha | ha | ha
      · rw [ha] at hhdr ⊢
        simp only [selectChannels]
        exact frame_assemble (.independent 2) (by simp) [sl, sr] [l, r] [l, r] n bps rate number hdr hn hnum hhdr rfl rfl
          (by intro s hs; simp at hs; rcases hs with rfl | rfl <;> assumption)
          (two_facts (fun i s => ∀ (h2 : i < [l, r].length) k, ∃ rep,
              readSubframe n (bps + (ChannelAssignment.independent 2).bpsOffset i) (s.bits ++ k) = .ok (rep, k) ∧
                rep.samples = [l, r][i]) sl sr
            (fun _ k => by simpa [ChannelAssignment.bpsOffset] using hsl k)
            (fun _ k => by simpa [ChannelAssignment.bpsOffset] using hsr k))
          (recon_indep 1 (by decide) _) hx info (hinfo2 _ rfl) more
      · rw [ha] at hhdr ⊢
        simp only [selectChannels]
        exact frame_assemble .leftSide (by simp) [sl, ss] [l, sideOf l r] [l, r] n bps rate
          number hdr hn hnum hhdr rfl rfl
          (by intro s hs; simp at hs; rcases hs with rfl | rfl <;> assumption)
          (two_facts (fun i s => ∀ (h2 : i < [l, sideOf l r].length) k, ∃ rep,
              readSubframe n (bps + ChannelAssignment.leftSide.bpsOffset i) (s.bits ++ k) = .ok (rep, k) ∧
                rep.samples = [l, sideOf l r][i]) sl ss
            (fun _ k => by simpa [ChannelAssignment.bpsOffset] using hsl k)
            (fun _ k => by simpa [ChannelAssignment.bpsOffset] using hss k))
          (recon_left l r hlr) hx info (hinfo2 _ rfl) more
      · rw [ha] at hhdr ⊢
        simp only [selectChannels]
        exact frame_assemble .rightSide (by simp) [ss, sr] [sideOf l r, r] [l, r] n bps rate
          number hdr hn hnum hhdr rfl rfl
          (by intro s hs; simp at hs; rcases hs with rfl | rfl <;> assumption)
          (two_facts (fun i s => ∀ (h2 : i < [sideOf l r, r].length) k, ∃ rep,
              readSubframe n (bps + ChannelAssignment.rightSide.bpsOffset i) (s.bits ++ k) = .ok (rep, k) ∧
                rep.samples = [sideOf l r, r][i]) ss sr
            (fun _ k => by simpa [ChannelAssignment.bpsOffset] using hss k)
            (fun _ k => by simpa [ChannelAssignment.bpsOffset] using hsr k))
          (recon_right l r hlr) hx info (hinfo2 _ rfl) more
      · rw [ha] at hhdr ⊢
        simp only [selectChannels]
        exact frame_assemble .midSide (by simp) [sm, ss]
          [midOf l r, sideOf l r] [l, r] n bps rate
          number hdr hn hnum hhdr rfl rfl
          (by intro s hs; simp at hs; rcases hs with rfl | rfl <;> assumption)
          (two_facts (fun i s => ∀ (h2 : i < [midOf l r,
                sideOf l r].length) k, ∃ rep,
              readSubframe n (bps + ChannelAssignment.midSide.bpsOffset i) (s.bits ++ k) = .ok (rep, k) ∧
                rep.samples = [midOf l r, sideOf l r][i]) sm ss
            (fun _ k => by simpa [ChannelAssignment.bpsOffset] using hsm k)
            (fun _ k => by simpa [ChannelAssignment.bpsOffset] using hss k))
          (recon_mid l r hlr) hx info (hinfo2 _ rfl) more
    · exact absurd h (by simp)
  · split at h
    · exact absurd h (by simp)
    · rename_i chans _ _ _ _
      simp only [Option.map_eq_some_iff, Prod.mk.injEq] at h
      obtain ⟨hdr, hhdr, hf, _⟩ := h
      subst hf
      exact frame_assemble (.independent chans.length) (by simpa using hch) indep chans chans n bps rate number hdr hn hnum
        hhdr hil rfl hiwf
        (fun i h1 h2 k => by simpa [ChannelAssignment.bpsOffset] using hird i h1 h2 k)
        (recon_indep _ (by simp only [ChannelAssignment.tag]; omega) _) hx info
        ⟨hinfo.1, hinfo.2.1, hinfo.2.2⟩ more

end Strict
end FlacVerif
