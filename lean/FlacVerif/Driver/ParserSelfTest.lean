/-
Self-test of the parser/decoder mirror (`FlacVerif/Model/RepoParser.lean`) against the REAL parser.
Not part of the library build; run with `lake env lean FlacVerif/Driver/ParserSelfTest.lean`.

The records below were printed by `/verif/.cache/harness-target/release/fvh parser --cases 12
--burst-stride 64 --random 40` (fields trimmed): `base` is a stream emitted by the real encoder,
`flips` the real parser's outcome for every single-bit flip of `base` (bit 0 = MSB of byte 0),
`truncs` its outcome for every proper prefix.  For each record the test checks
  * `parseStream base` accepts and `Stream.bits rfcCrc8 rfcCrc16` of the result repacks to `base`,
  * `outcomeChar` (debug build semantics) and `outcomeCharMode false` (release) agree with the real
    outcome on every flip and every truncation.
Expected output: one line per record, `agree=N/N`, and a final `TOTAL ... ALL-AGREE`.
-/
import FlacVerif.Model.RepoParser
import FlacVerif.Driver.Proto
open FlacVerif FlacVerif.Repo FlacVerif.Proto

namespace ParserSelfTest

def records : List String := [
  "parser id=b0 ch=1 bps=16 rate=96000 pcm=0,0,0,0,0,0,0,0,0,0,1,1,1,1,1,1,1,1,1,1,1,1,1,1,1,1,1,1,1,1,1,1,2,2,2,2,2,2,2,2,2,2,2,2,2,2,2,2,2,2,2,2,2,2,2,2,2,2,2,2,2,2,2,2,2,2,2,2,2,1,1,1,1,1,1,1,1,1,1,1,1,1,1,1,1,1,1,1,1,1,1,1,0,0,0,0,0,0,0,0,0,0,0,0,0,0,0,0,0,0,-1,-1,-1,-1,-1,-1,-1,-1,-1,-1,-1,-1,-1,-1,-1,-1,-1,-1,-1,-1,-1,-1,-1,-2,-2,-2,-2,-2,-2,-2,-2,-2,-2,-2,-2,-2,-2,-2,-2,-2 base=664c61438000002200400040000016000036177000f00000009640002425d891dd05a05f050e48cbb567fff86b08003f8c120000003fe7ffffe7fffffff85a07fff86b08013f99120002003dfffffdffffbffff01e72fff86b0802157002fffffffffffffffffffffffefffefffefffefffefffefffefffefffefffefffefffefffefffefffefffefffe8fc4 flips=eeeeeeeeeeeeeeeeeeeeeeeeeeeeeeeeeeeeeeeesssssssssssssssssssssssseeeeeeeeeeeeeeeeessssssssesssssseeeeeeeeeeeeeeeeeesssssssssssssssssssssssssssssseeededddedddeeeeeeeeeeeeeeeesssssssssssssssssssssssssssssssssssssssssssssssssssssssssssssssssssssssssssssssssssssssssssssssssssssssssssssssssssssssssssssssssssssssssssssssssssssssssssssssssssseeeeeeeeeeeeeeeeeeeeeeeeeeeeeeeeeeeeeeeeeeeeeeeeeeeeeeeeeeeeeeeeeeeeeeeeeeeeeeeeeeeeeeeeeeeeeeeeeeeeeeeeeeeeeeeeeeeeeeeeeeeeeeeeeeeeeeeeeeeeeeeeeeeeeeeeeeeeeeeeeeeeeeeeeeeeeeeeeeeeeeeeeeeeeeeeeeeeeeeeeeeeeeeeeeeeeeeeeeeeeeeeeeeeeeeeeeeeeeeeeeeeeeeeeeeeeeeeeeeeeeeeeeeeeeeeeeeeeeeeeeeeeeeeeeeeeeeeeeeeeeeeeeeeeeeeeeeeeeeeeeeeeeeeeeeeeeeeeeeeeeeeeeeeeeeeeeeeeeeeeeeeeeeeeeeeeeeeeeeeeeeeeeeeeeeeeeeeeeeeeeeeeeeeeeeeeeeeeeeeeeeeeeeeeeeeeeeeeeeeeeeeeeeeeeeeeeeeeeeeeeeeeeeeeeeeeeeeeeeeeeeeeeeeeeeeeeeeeeeeeeeeeeeeeeeeeeeeeeeeeeeeeeeeeeeeeeeeeeeeeeeeeeeeeeeeeeeeeeeeeeeeeeeeeeeeeeeeeeeeeeeeeeeeeeeeeeeeeeeeeeeeeeeeeeeeeeeeeeeeeeeeeeeeeeeeeeeeeeeeeeeeeeeeeeeeeeeeeeeeeeeeeeeeeeeeeeeeeeeeeeeeeeeeeeeeeeeeeeeeeeeeeeeeeeeeeeeeeeeeeeeeeeeeeeeeeeeeeeeeeeeeeeeeeeeeeeeeeeeeeeeeeeeeeeeeeeeeeeeeeeee truncs=eeeeeeeeeeeeeeeeeeeeeeeeeeeeeeeeeeeeeeeeeedeeeeeeeeeeeeeeeeeeeeedeeeeeeeeeeeeeeeeeeeeedeeeeeeeeeeeeeeeeeeeeeeeeeeeeeeeeeeeeeeeeeeeeeeeeeeeee",
  "parser id=b2 ch=1 bps=8 rate=48000 pcm=-41,-117,67,-104,-58,54,67,106,120,-97,54,-123,52,-20,-104,41,-112,80,127,97,-116,-60,67,-119,7,99,-12,-90,67,-5,27,53,114,87,90,-102,-127,-24,-1,-126 base=664c6143800000220020002000001200002a0bb8007000000028c5871715820c0bd9a7bf1fa831ac1e03fff86a02001ffd02d78b4398c636436a789f368534ec982990507f618cc443890763f4a643fb1b35776dfff86a020107a00272575a9a81e8ff82a2bc flips=eeeeeeeeeeeeeeeeeeeeeeeeeeeeeeeeeeeeeeeesssssssssssssssssssssssseeeeeeeeeeeeeeeeesssssssssessssseeeeeeeeeeeeeeeeeeesssssssssssssssssssssssessssseeeeddddddddddddddddeeeeeeeesssssssssssssssssssssssssssssssssssssssssssssssssssssssssssssssssssssssssssssssssssssssssssssssssssssssssssssssssssssssssssssssssssssssssssssssssssssssssssssssssssseeeeeeeeeeeeeeeeeeeeeeeeeeeeeeeeeeeeeeeeeeeeeeeeeeeeeeeeeeeeeeeeeeeeeeeeeeeeeeeeeeeeeeeeeeeeeeeeeeeeeeeeeeeeeeeeeeeeeeeeeeeeeeeeeeeeeeeeeeeeeeeeeeeeeeeeeeeeeeeeeeeeeeeeeeeeeeeeeeeeeeeeeeeeeeeeeeeeeeeeeeeeeeeeeeeeeeeeeeeeeeeeeeeeeeeeeeeeeeeeeeeeeeeeeeeeeeeeeeeeeeeeeeeeeeeeeeeeeeeeeeeeeeeeeeeeeeeeeeeeeeeeeeeeeeeeeeeeeeeeeeeeeeeeeeeeeeeeeeeeeeeeeeeeeeeeeeeeeeeeeeeeeeeeeeeeeeeeeeeeeeeeeeeeeeeeeeeeeeeeeeeeeeeeeeeeeeeeeeeeeeeeeeeeeeeeeeeeeeeeeeeeeeeeeeeeeeeeeeeeeeeeeeeeeeeeeeeeeeee truncs=eeeeeeeeeeeeeeeeeeeeeeeeeeeeeeeeeeeeeeeeeedeeeeeeeeeeeeeeeeeeeeeeeeeeeeeeeeeeeeeeeeedeeeeeeeeeeeeeeeee",
  "parser id=b3 ch=2 bps=24 rate=8000 pcm=8388607,-4194304,8388607,-4194304,8388607,-4194304,8388607,-4194304,8388607,-4194304,8388607,-4194304,8388607,-4194304,8388607,-4194304,8388607,-4194304,8388607,-4194304,8388607,-4194304,8388607,-4194304,8388607,-4194304,8388607,-4194304,8388607,-4194304,8388607,-4194304,8388607,-4194304,8388607,-4194304,8388607,-4194304,8388607,-4194304,8388607,-4194304,8388607,-4194304,8388607,-4194304,8388607,-4194304,8388607,-4194304,8388607,-4194304,8388607,-4194304,8388607,-4194304,8388607,-4194304,8388607,-4194304,8388607,-4194304,8388607,-4194304,8388607,-4194304,8388607,-4194304,8388607,-4194304,8388607,-4194304,8388607,-4194304,8388607,-4194304,8388607,-4194304,8388607,-4194304,8388607,-4194304,8388607,-4194304,8388607,-4194304,8388607,-4194304,8388607,-4194304,8388607,-4194304,8388607,-4194304,8388607,-4194304,8388607,-4194304,8388607,-4194304,8388607,-4194304,8388607,-4194304,8388607,-4194304,8388607,-4194304,8388607,-4194304,8388607,-4194304,8388607,-4194304,8388607,-4194304,8388607,-4194304,8388607,-4194304,8388607,-4194304,8388607,-4194304,8388607,-4194304,8388607,-4194304 base=664c6143800000220040004000001100001101f4037000000040814ff1dd0339fe01b11a831f99be21fefff8641c003f57007fffff00c00000d757 flips=eeeeeeeeeeeeeeeeeeeeeeeeeeeeeeeeeeeeeeeesssssssssssssssssssssssseeeeeeeeeeeeeeeeessssssssesssssseeeeeeeeeeeeeeeeeeeseeessssssssssssssssssssessseeeedddddddddddddddddeeeeeeeesssssssssssssssssssssssssssssssssssssssssssssssssssssssssssssssssssssssssssssssssssssssssssssssssssssssssssssssssssssssssssssssssssssssssssssssssssssssssssssssssssseeeeeeeeeeeeeeeeeeeeeeeeeeeeeeeeeeeeeeeeeeeeeeeeeeeeeeeeeeeeeeeeeeeeeeeeeeeeeeeeeeeeeeeeeeeeeeeeeeeeeeeeeeeeeeeeeeeeeeeeeeeeeeeeeeeeeeee truncs=eeeeeeeeeeeeeeeeeeeeeeeeeeeeeeeeeeeeeeeeeedeeeeeeeeeeeeeeee",
  "parser id=b5 ch=2 bps=16 rate=8000 pcm=0,0,980,980,1959,1959,2936,2936,3910,3910,4880,4880,5844,5844,6801,6801,7751,7751,8693,8693,9625,9625,10546,10546,11455,11455,12352,12352,13236,13236,14104,14104,14957,14957,15794,15794,16613,16613,17414,17414,18195,18195,18957,18957,19697,19697,20416,20416,21112,21112,21785,21785,22433,22433,23057,23057,23656,23656,24228,24228,24773,24773,25292,25292,25782,25782,26243,26243,26676,26676,27079,27079,27453,27453,27796,27796,28108,28108,28389,28389,28639,28639,28857,28857,29043,29043,29197,29197,29319,29319,29409,29409,29466,29466,29490,29490,29482,29482,29441,29441,29368,29368,29262,29262,29124,29124,28954,28954,28752,28752,28518,28518,28252,28252,27956,27956,27628,27628,27270,27270,26881,26881,26463,26463,26016,26016,25540,25540 base=664c6143800000220040004000002800002801f402f0000000400b7bfdc1e36605968e200e93c816a4f8fff86488003f5516000003d407a70015168ad04a3120918946419123df6529f08850e000000055a0 flips=eeeeeeeeeeeeeeeeeeeeeeeeeeeeeeeeeeeeeeeesssssssssssssssssssssssseeeeeeeeeeeeeeeeessssssssesssssseeeeeeeeeeeeeeeeeeseseeessssssssssssssssssesessseeedddddddddddddddddeeeeeeeesssssssssssssssssssssssssssssssssssssssssssssssssssssssssssssssssssssssssssssssssssssssssssssssssssssssssssssssssssssssssssssssssssssssssssssssssssssssssssssssssssseeeeeeeeeeeeeeeeeeeeeeeeeeeeeeeeeeeeeeeeeeeeeeeeeeeeeeeeeeeeeeeeeeeeeeeeeeeeeeeeeeeeeeeeeeeeeeeeeeeeeeeeeeeeeeeeeeeeeeeeeeeeeeeeeeeeeeeeeeeeeeeeeeeeeeeeeeeeeeeeeeeeeeeeeeeeeeeeeeeeeeeeeeeeeeeeeeeeeeeeeeeeeeeeeeeeeeeeeeeeeeeeeeeeeeeeeeeeeeeeeeeeeeeeeeeeeeeeeeeeeeeeeeeeeeeeeeeeeeeeeeeeeeeeeeeeeeeeeeeeeeeeeeeeeeeeeeeeeeee truncs=eeeeeeeeeeeeeeeeeeeeeeeeeeeeeeeeeeeeeeeeeedeeeeeeeeeeeeeeeeeeeeeeeeeeeeeeeeeeeeeee"
]

def flipBit (bytes : List Nat) (bit : Nat) : List Nat :=
  bytes.mapIdx fun k b => if k = bit / 8 then b ^^^ (0x80 >>> (bit % 8)) else b

def checkRecord (line : String) : IO (Nat × Nat) := do
  let (_, r) := parseRecord line
  let id := r.get "id"
  let bytes := unhex (r.get "base")
  let pcm := intList (r.get "pcm")
  let fmt := (r.nat "rate", r.nat "ch", r.nat "bps")
  let flips := (r.get "flips").toList
  let truncs := (r.get "truncs").toList
  let repack := match parseStream bytes with
    | .ok s => (match s.toStream? with
        | some st => (match st.bits rfcCrc8 rfcCrc16 with
            | some b => decide (packBytes b = bytes)
            | none => false)
        | none => false)
    | _ => false
  let mut agree := 0
  let mut total := 0
  let both := fun (bs : List Nat) =>
    let d := outcomeChar bs pcm fmt
    let rl := outcomeCharMode false bs pcm fmt
    if d = rl then d else '!'
  for bit in List.range (bytes.length * 8) do
    total := total + 1
    if both (flipBit bytes bit) = flips.getD bit '?' then agree := agree + 1
    else IO.println s!"MISMATCH {id} flip={bit}"
  for n in List.range bytes.length do
    total := total + 1
    if both (bytes.take n) = truncs.getD n '?' then agree := agree + 1
    else IO.println s!"MISMATCH {id} trunc={n}"
  IO.println s!"{id} bytes={bytes.length} accepted+repacks={repack} base-outcome={both bytes} agree={agree}/{total}"
  return (if repack then agree else 0, total)

def run : IO Unit := do
  let mut a := 0
  let mut t := 0
  for l in records do
    let (x, y) ← checkRecord l
    a := a + x
    t := t + y
  IO.println s!"TOTAL agree={a}/{t} {if a = t then "ALL-AGREE" else "DISAGREEMENT"}"

end ParserSelfTest

#eval ParserSelfTest.run
