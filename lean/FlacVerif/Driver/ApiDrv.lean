import FlacVerif.Model.Api
import FlacVerif.Driver.Proto
namespace FlacVerif.Drv
open FlacVerif Proto

def okStr (b : Bool) : String := if b then "ok" else "err"

/-- `api` records: the model's accept/reject decision against the implementation's, per entry point. -/
def apiRecord (r : Record) : List Verdict × List String :=
  let a := natList (r.get "a")
  let g (i : Nat) : Nat := a.getD i 0
  let fn := r.get "fn"
  let impl := r.get "impl"
  let dec (b : Bool) : List Verdict × List String := ([check ("c17." ++ fn) (okStr b) impl], [s!"api.{fn}={impl}"])
  let fullBuf (ch size : Nat) : Option FrameBuf :=
    (FrameBuf.withSize ch size).bind fun fb =>
      match fb.fillInterleaved (List.replicate (ch * size) 1) with
      | .ok fb' => some fb'
      | .error _ => none
  let stripMode (s : String) : String :=
    if s.startsWith "encode_st_" then (s.drop 10).toString else if s.startsWith "encode_mt_" then (s.drop 10).toString else s
  match stripMode fn with
  | "streaminfo_new" => dec (StreamInfo.new (g 0) (g 1) (g 2)).isSome
  | "framebuf_with_size" => dec (FrameBuf.withSize (g 0) (g 1)).isSome
  | "fill_interleaved" =>
    dec (match fullBuf (g 0) (g 1) with
      | none => false
      | some fb => match fb.fillInterleaved (List.replicate (g 2) 2) with | .ok _ => true | .error _ => false)
  | "fill_le_bytes" | "fill_le_bytes_raw" =>
    dec (match (if fn = "fill_le_bytes" then fullBuf (g 0) (g 1) else FrameBuf.withSize (g 0) (g 1)) with
      | none => false
      | some fb => match fb.fillLeBytes (List.replicate (g 2) 0x5a) (g 3) with | .ok _ => true | .error _ => false)
  | "fill_after_resize" =>   -- a = [ch, n, m, len, k]: the buffer has size m after the resize; k = 0: integer delivery
    dec (match FrameBuf.withSize (g 0) (g 2) with
      | none => false
      | some fb =>
        if g 4 = 0 then (match fb.fillInterleaved (List.replicate (g 3) 2) with | .ok _ => true | .error _ => false)
        else (match fb.fillLeBytes (List.replicate (g 3 * g 4) 0x5a) (g 4) with | .ok _ => true | .error _ => false))
  | "context_fill_le_bytes" => dec (ctxFillLeBytesOk (g 0) (g 3))
  | "frame_number" =>
    dec (match fullBuf 2 64 with
      | none => false
      | some fb => encodeFrameArgsOk (g 0) fb 2 16)
  | "frame_sample_range" =>
    let bps := g 0
    let v : Int := -(2 ^ (bps - 1) : Int) + (g 1 : Int)
    dec (match FrameBuf.withSize 2 64 with
      | none => false
      | some fb =>
        let d := (List.range 128).map fun i => if i = g 2 then v else 0
        match fb.fillInterleaved d with
        | .ok fb' => encodeFrameArgsOk 0 fb' 2 bps
        | .error _ => false)
  | "frame_channel_mismatch" =>
    dec (match fullBuf (g 0) 64 with
      | none => false
      | some fb => encodeFrameArgsOk 0 fb (g 1) 16)
  | "block_size" => dec (encodeStreamArgsOk (g 0) 2 16 44100)
  | "channels" => dec (encodeStreamArgsOk 64 (g 0) 16 44100)
  | "bps" => dec (encodeStreamArgsOk 64 2 (g 0) 44100)
  | "rate" => dec (encodeStreamArgsOk 64 2 16 (g 0))
  | "sample" => dec false   -- a 16-bit stream holding a sample outside the 16-bit range: `verifySamples` fails for its block
  | "bad_blocks" => dec false   -- the first `g 0` blocks each hold a sample outside the 16-bit range: the first of them fails
  | "byte_width" => dec (ctxFillLeBytesOk (g 0) (g 1) && decide (1 ≤ g 1 ∧ g 1 ≤ 4))
  | f => ([.skip s!"unknown-api-fn-{f}"], [])

end FlacVerif.Drv
