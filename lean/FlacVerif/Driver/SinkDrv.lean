import FlacVerif.Model.Sink
import FlacVerif.Driver.Proto
namespace FlacVerif.Drv
open FlacVerif Proto

def parseOp (s : String) : Option Op :=
  let k := (s.take 1).toString
  let rest := (s.drop 1).toString
  let ps := rest.splitOn ":"
  let nat (i : Nat) : Nat := (ps.getD i "").toNat?.getD 0
  match k with
  | "A" => some .alignToByte
  | "L" => some (.writeLsbs (nat 0) (nat 1) (nat 2))
  | "M" => some (.writeMsbs (nat 0) (nat 1) (nat 2))
  | "W" => some (.write (nat 0) (nat 1))
  | "T" => some (.writeTwoc ((ps.getD 0 "").toInt?.getD 0) (nat 1))
  | "Z" => some (.writeZeros (nat 0))
  | "B" => some (.writeBytesAligned (unhex rest))
  | _ => none

def renderOp : Op → String
  | .alignToByte => "A"
  | .writeLsbs w v n => s!"L{w}:{v}:{n}"
  | .writeMsbs w v n => s!"M{w}:{v}:{n}"
  | .write w v => s!"W{w}:{v}"
  | .writeTwoc v n => s!"T{v}:{n}"
  | .writeZeros n => s!"Z{n}"
  | .writeBytesAligned bs => s!"B{hex bs}"

def sinkRecord (r : Record) : Verdict :=
  let ops := (splitList (r.get "ops")).filterMap parseOp
  let implPanic := r.get "impl_panic" = "1"
  let ideal := idealRun 0 ops
  let idealBytes := hex (packBytes ideal)
  let allValid := ops.all fun op => decide op.Valid
  match r.get "kind" with
  | "byte" =>
    match ByteSink.empty.run ops with
    | none => if implPanic then .ok else
        if allValid then .diff "panic" "panic" "ok" else .skip "model-panic-on-invalid-op"
    | some s =>
      if implPanic then .diff "panic" "ok" "panic" else
      check "len" (toString s.len) (r.get "impl_len") <|
      check "raw" (hex s.exportBytes) (r.get "impl_raw") <|
      check "bytes" (hex (s.exportBytes.take ((s.len + 7) / 8))) (r.get "impl_bytes") <|
      check "abs-vs-ideal" (hex (packBytes s.abs)) idealBytes <|
      check "ideal" idealBytes (r.get "impl_bytes") .ok
  | "word" =>
    match WordSink.empty.run ops with
    | none => if implPanic then .ok else
        if allValid then .diff "panic" "panic" "ok" else .skip "model-panic-on-invalid-op"
    | some s =>
      if implPanic then .diff "panic" "ok" "panic" else
      check "len" (toString s.len) (r.get "impl_len") <|
      check "raw" (hex (s.storage.flatMap fun v => (List.range 8).map fun i => (v.toNat >>> (56 - 8 * i)) % 256)) (r.get "impl_raw") <|
      check "bytes" (hex s.exportBytes) (r.get "impl_bytes") <|
      check "abs-vs-ideal" (hex (packBytes s.abs)) idealBytes <|
      check "ideal" idealBytes (r.get "impl_bytes") .ok
  | _ =>
    -- user sink: receives the expansion into required ops; bits must be the ideal ones
    let expanded := ops.flatMap Op.expand
    if implPanic then .diff "panic" "ok" "panic" else
    check "len" (toString ideal.length) (r.get "impl_len") <|
    check "bits" idealBytes (r.get "impl_bytes") <|
    check "ops" (String.intercalate "," (expanded.map renderOp)) (r.get "impl_raw") <|
    check "expand-ideal" (hex (packBytes (idealRun 0 expanded))) idealBytes .ok

end FlacVerif.Drv
