/-
Line-protocol helpers for `fvdriver` (import-free). Records are space-separated `key=value`
tokens; lists are comma-separated; byte strings are lower-case hex, `-` = empty.
-/
namespace FlacVerif.Proto

abbrev Record := List (String × String)

def parseRecord (line : String) : String × Record :=
  let toks := (line.trimAscii.toString.splitOn " ").filter (· ≠ "")
  match toks with
  | [] => ("", [])
  | kind :: rest =>
    (kind, rest.filterMap fun t =>
      match t.splitOn "=" with
      | k :: v :: more => some (k, String.intercalate "=" (v :: more))
      | _ => none)

def Record.get (r : Record) (k : String) : String := (r.lookup k).getD ""
def Record.get? (r : Record) (k : String) : Option String := r.lookup k
def Record.nat (r : Record) (k : String) : Nat := (r.get k).toNat?.getD 0
def Record.int (r : Record) (k : String) : Int := (r.get k).toInt?.getD 0

def hexDigit (c : Char) : Nat :=
  if '0' ≤ c ∧ c ≤ '9' then c.toNat - '0'.toNat
  else if 'a' ≤ c ∧ c ≤ 'f' then c.toNat - 'a'.toNat + 10
  else if 'A' ≤ c ∧ c ≤ 'F' then c.toNat - 'A'.toNat + 10 else 0

def unhexAux : List Char → List Nat → List Nat
  | a :: b :: rest, acc => unhexAux rest ((hexDigit a * 16 + hexDigit b) :: acc)
  | _, acc => acc.reverse

def unhex (s : String) : List Nat := if s = "-" then [] else unhexAux s.toList []

def hexChar (n : Nat) : Char := if n < 10 then Char.ofNat (n + 48) else Char.ofNat (n + 87)

def hex (bs : List Nat) : String :=
  if bs.isEmpty then "-" else String.ofList (bs.flatMap fun b => [hexChar (b / 16 % 16), hexChar (b % 16)])

def splitList (s : String) : List String := if s = "-" ∨ s = "" then [] else s.splitOn ","
def natList (s : String) : List Nat := (splitList s).map fun t => t.toNat?.getD 0
def intList (s : String) : List Int := (splitList s).map fun t => t.toInt?.getD 0
def showInts (xs : List Int) : String := if xs.isEmpty then "-" else String.intercalate "," (xs.map toString)
def showNats (xs : List Nat) : String := if xs.isEmpty then "-" else String.intercalate "," (xs.map toString)

/-- Result of checking one record. -/
inductive Verdict
  | ok
  | diff (field model impl : String)
  | skip (why : String)

def check (field model impl : String) (rest : Verdict := .ok) : Verdict :=
  if model = impl then rest else .diff field model impl

def trunc (s : String) : String := if s.length > 160 then (s.take 160).toString ++ "…" else s

def Verdict.render (id : String) : Verdict → String
  | .ok => s!"OK {id}"
  | .diff f m i => s!"DIFF {id} field={f} model={trunc m} impl={trunc i}"
  | .skip w => s!"SKIP {id} {w}"

end FlacVerif.Proto
