import FlacVerif.Model.Par
import FlacVerif.Driver.Proto
namespace FlacVerif.Drv
open FlacVerif Proto

def optNat (s : String) : Option Nat := if s = "-" then none else s.toNat?

/-- Trace validation (DESIGN 3 C05/C06): the protocol event log of a real multi-thread run is
replayed through `Par.step`; every event must be an enabled transition whose logged values agree
with the model state, the run must end in a final state, and the result kind must be the model's
(which is proved equal to the sequential one). -/
def parRecord (r : Record) : List Verdict × List String :=
  let impl := r.get "impl"
  let nworkers := r.nat "nworkers"
  let blocks : List Par.Block := (splitList (r.get "blocks")).map fun b =>
    match b.splitOn ":" with
    | [len, v] => ⟨List.replicate (len.toNat?.getD 0) 0, v = "1"⟩
    | _ => ⟨[], true⟩
  let failAt := optNat (r.get "fail")
  -- a failure planned after the end-of-input read never happens
  let failAt := match failAt with
    | some k => if k ≤ blocks.length then some k else none
    | none => none
  let p : Par.Params := { W := nworkers, blocks := blocks, readFailAt := failAt, eofSendsEmpty := true }
  let raw := (r.get "trace").splitOn ";" |>.filter (· ≠ "") |>.filter (· ≠ "-")
  -- thread roles: the main thread is the one that receives from the refill queue; workers are
  -- numbered in order of first appearance on the encode queue
  let toks := raw.map fun e => e.splitOn ":"
  let workerThreads : List Nat := toks.foldl (fun acc t =>
    if t.getD 1 "" = "encode_recv" then
      let th := (t.getD 0 "").toNat?.getD 0
      if acc.contains th then acc else acc ++ [th]
    else acc) []
  let mainThread : Nat := (toks.find? fun t => t.getD 1 "" = "refill_recv").map (fun t => (t.getD 0 "").toNat?.getD 0) |>.getD 0
  let evs : List Par.Ev := toks.filterMap fun t =>
    let th := (t.getD 0 "").toNat?.getD 0
    let w := (workerThreads.idxOf th)
    Par.Ev.ofLog (t.getD 1 "") (th == mainThread) w (optNat (t.getD 2 "-")) (optNat (t.getD 3 "-"))
  let capsOk := r.get "caps" == s!"{p.refillCap}:{p.encodeCap}:{Par.md5Cap}"
  let kindOf (x : Except Par.ErrKind (List Nat)) : String :=
    match x with
    | .ok _ => "ok"
    | .error .config => "err:config"
    | .error .source => "err:source"
  let stats := [s!"par.W={nworkers}", s!"par.events={evs.length / 50 * 50}+"]
  if impl = "hang" ∨ impl = "panic" then
    ([.diff "c06.result" (kindOf (Par.seqResult p)) impl], stats)
  else if nworkers = 0 then
    ([.diff "c05.workers" "at least one worker" "0 workers observed"], stats)
  else
  match Par.replay p evs with
  | .error e => ([.diff "c05.trace" "every logged event is an enabled model transition" e, .diff "c06.trace" "valid" e], stats)
  | .ok s =>
    let vs := [check "c05.caps" "true" (toString capsOk),
               check "c06.final" "true" (toString (decide s.final)),
               check "c06.result" (kindOf s.result) impl,
               check "c06.seq" (kindOf (Par.seqResult p)) (r.get "st"),
               check "c05.frames" (toString (s.result == Par.seqResult p)) "true",
               check "c05.hashed" (toString (decide (impl ≠ "ok") || s.hashed.length == (blocks.map (·.bytes.length)).foldl (· + ·) 0)) "true",
               check "c06.joined" (toString (s.workers.all (· == .exited) && s.hasher == .exited)) "true"]
    (vs, stats)

end FlacVerif.Drv
