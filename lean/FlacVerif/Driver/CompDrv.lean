import FlacVerif.Model.Verify
import FlacVerif.Model.Ops
import FlacVerif.Driver.Proto
import FlacVerif.Driver.SinkDrv
import FlacVerif.Driver.StreamDrv
import FlacVerif.Model.RfcRec
namespace FlacVerif.Drv
open FlacVerif Proto

def nthS (xs : List String) (i : Nat) : String := xs.getD i ""
def nthN (xs : List String) (i : Nat) : Nat := (nthS xs i).toNat?.getD 0
def nthI (xs : List String) (i : Nat) : Int := (nthS xs i).toInt?.getD 0

def parseAsg (s : String) : ChannelAssignment :=
  if s = "ls" then .leftSide else if s = "rs" then .rightSide else if s = "ms" then .midSide
  else .independent ((s.drop 1).toString.toNat?.getD 0)

/-- What the model predicts for an accepted component: (count, bits, ops). -/
structure Pred where
  count : Option Nat
  bits : Option Bits
  ops : Option (List Op)

def predSub (s : SubFrame) : Pred := ⟨s.count, some s.bits, some s.ops⟩

/-- Compares an accepted component with the model's prediction. -/
def checkAccepted (r : Record) (p : Pred) (withBits : Bool) : List Verdict :=
  let vs := [check "c18.verify" "1" (r.get "impl_verify"),
             check "c08.count" (toString (p.count.getD 0)) (r.get "impl_count")]
  if !withBits then vs else
  match p.bits with
  | none => vs ++ [.diff "c18.bits" "not serialisable" "serialised"]
  | some b =>
    let vs := vs ++ [check "c08.len8" (toString b.length) (r.get "impl_len8"),
                     check "c08.len64" (toString b.length) (r.get "impl_len64"),
                     check "c08.bytes" (hex (packBytes b)) (r.get "impl_bytes")]
    match p.ops with
    | none => vs
    | some ops =>
      let ex := ops.flatMap Op.expand
      let rendered := if ex.isEmpty then "-" else String.intercalate "," (ex.map renderOp)
      -- (that a sink failing on its k-th call sees exactly the first k of these is theorem C12_failing_sink)
      vs ++ [check "c12.ops" rendered (r.get "impl_ops"),
             check "c12.fail" "ok" (r.get "impl_fail"),
             check "c12.idealbits" (hex (packBytes (idealRun 0 ops))) (r.get "impl_bytes")]

def ctorVerdict (r : Record) (modelOk : Bool) : Verdict :=
  check "c18.ctor" (if modelOk then "ok" else "err") (r.get "impl_ctor")

def compRecord (r : Record) : List Verdict × List String :=
  let a := (r.get "a").splitOn ";"
  let impl := r.get "impl_ctor"
  let stats := [s!"ctor={r.get "ctor"}:{impl}"]
  let fin (m : Option Pred) (withBits : Bool := true) : List Verdict × List String :=
    match m with
    | none => ([ctorVerdict r false], stats)
    | some p => if impl = "ok" then (ctorVerdict r true :: checkAccepted r p withBits, stats) else ([ctorVerdict r true], stats)
  let mkResidual (i : Nat) : Option Residual :=
    Residual.new (nthN a i) (nthN a (i + 1)) (nthN a (i + 2)) (natList (nthS a (i + 3))) (natList (nthS a (i + 4))) (natList (nthS a (i + 5)))
  match r.get "ctor" with
  | "residual" => fin ((mkResidual 0).map fun x => ⟨x.count, some x.bits, some x.ops⟩)
  | "residual_count" => fin ((mkResidual 0).map fun x => ⟨x.count, none, none⟩) false
  | "qparams" =>
    match QParams.new (intList (nthS a 0)) (nthN a 1) (nthI a 2) (nthN a 3) with
    | none => ([ctorVerdict r false], stats)
    | some _ => ([ctorVerdict r true] ++ (if impl = "ok" then [check "c18.verify" "1" (r.get "impl_verify")] else []), stats)
  | "constant" => fin ((Constant.new (nthN a 0) (nthI a 1) (nthN a 2)).map predSub)
  | "verbatim" =>
    let s0 := nthS a 0
    let samples := match s0.splitOn ":" with
      | ["rep", v, n] => List.replicate (n.toNat?.getD 0) (v.toInt?.getD 0)
      | _ => intList s0
    fin ((Verbatim.new samples (nthN a 1)).map predSub)
  | "fixed" =>
    fin (do
      let res ← mkResidual 2
      let s ← FixedLpc.new (intList (nthS a 0)) res (nthN a 1)
      pure (predSub s))
  | "lpc" =>
    fin (do
      let res ← mkResidual 6
      let q ← QParams.new (intList (nthS a 2)) (nthN a 3) (nthI a 4) (nthN a 5)
      let s ← Lpc.new (intList (nthS a 0)) q res (nthN a 1)
      pure (predSub s))
  | "header" =>
    let isVar := nthN a 4 = 1
    let num := if isVar then nthN a 5 else nthN a 5 % 2 ^ 32
    fin ((FrameHeader.new (nthN a 0) (parseAsg (nthS a 1)) (nthN a 2) (nthN a 3) isVar num).map fun h =>
      ⟨some h.count, h.bits rfcCrc8, h.ops rfcCrc8⟩)
  | "unknown" =>
    fin ((UnknownBlock.new (nthN a 0) (unhex (nthS a 1))).map fun m =>
      ⟨some (8 * m.data.length), some (bytesToBits m.data), some [.writeBytesAligned m.data]⟩)
  | "sinfo" =>
    fin ((StreamInfo.new (nthN a 0) (nthN a 1) (nthN a 2)).map fun si =>
      let si := if nthN a 3 > 0 then { si with minBlock := nthN a 3, maxBlock := nthN a 3 } else si
      ⟨some 272, some si.bits, some si.ops⟩)
  | "streammeta" =>
    -- a frameless stream with extra metadata blocks, built through the public constructors
    let blocks : Option (List UnknownBlock) :=
      if nthS a 4 = "-" then some [] else
      ((nthS a 4).splitOn "|").mapM fun t =>
        match t.splitOn ":" with
        | [tag, d] => UnknownBlock.new (tag.toNat?.getD 0) (unhex d)
        | _ => none
    fin (do
      let si ← StreamInfo.new (nthN a 0) (nthN a 1) (nthN a 2)
      let si := if nthN a 3 > 0 then { si with minBlock := nthN a 3, maxBlock := nthN a 3 } else si
      let ms ← blocks
      let st : Stream := { info := si, metadata := ms, frames := [] }
      some ⟨st.count, st.bits rfcCrc8 rfcCrc16, st.ops rfcCrc8 rfcCrc16⟩)
  | "streamwrite" =>
    let bytes := unhex (r.get "bytes")
    match Rfc.analyzeRec Md5.md5 bytes with
    | .error e => ([.diff "c12.stream" "decodable" e], stats)
    | .ok rep =>
      let st := streamOf rep
      let ops := if nthS a 0 = "mt" then
          -- frames carry a precomputed bitstream: one aligned byte write per frame
          (st.frames.mapM (Frame.opsPrecomputed rfcCrc8 rfcCrc16)).map fun fs =>
            (.writeBytesAligned [0x66, 0x4C, 0x61, 0x43] :: blockHeaderOps true 0 34 ++ st.info.ops ++ fs.flatten)
        else st.ops rfcCrc8 rfcCrc16
      fin (some ⟨st.count, st.bits rfcCrc8 rfcCrc16, ops⟩)
  | c => ([.skip s!"unknown-ctor-{c}"], [])

end FlacVerif.Drv
