import FlacVerif.Model.Rice
import FlacVerif.Model.Codes
import FlacVerif.Model.Predict
import FlacVerif.Model.Source
import FlacVerif.Model.Encoder
import FlacVerif.Model.Md5
import FlacVerif.Driver.Proto
namespace FlacVerif.Drv
open FlacVerif Proto

def hexDigitChar (n : Nat) : Char := hexChar (n % 16)

def optInts (o : Option (List Int)) : String :=
  match o with
  | some xs => showInts xs
  | none => "panic"

/-- `impl` values that start with `panic:` are normalised to `panic`. -/
def normPanic (s : String) : String := if s.startsWith "panic" then "panic" else s

def kernelRecord (r : Record) : List Verdict × List String :=
  let fn := r.get "fn"
  match fn with
  | "search" =>
    let sig := intList (r.get "sig")
    let warm := r.nat "warm"
    let maxP := r.nat "maxp"
    let impl := r.get "impl"
    if impl.startsWith "panic" then
      ([.diff "c13.total" (if (search sig warm maxP).isSome then "some" else "none") impl], [])
    else
      match impl.splitOn ":" with
      | [o, ps, cb] =>
        let io := o.toNat?.getD 0
        let ips := natList ps
        let icb := cb.toNat?.getD 0
        let es := sig.map fold
        let implCost := choiceCost es warm io ips
        let vs0 := [check "c13.harnesscost" (toString implCost) (r.get "impl_cost")]
        match search sig warm maxP with
        | none => (.diff "c13.total" "none" impl :: vs0, [])
        | some m =>
          let modelCost := choiceCost es warm m.order m.ps
          let vs1 :=
            if modelCost < 2 ^ 28 - 1 then
              [check "c13.cost" (toString modelCost) (toString implCost),
               check "c13.codebits" (toString modelCost) (toString icb)]
            else []
          let vs2 := [check "c13.space" "true" (toString (orderOk es.length warm io && ips.length == 2 ^ io && ips.all (· ≤ maxP))),
                      check "mirror.search" s!"{m.order}:{showNats m.ps}:{m.codeBits}" impl]
          (vs0 ++ vs1 ++ vs2, [s!"search.order={io}", s!"search.saturated={decide (modelCost ≥ 2 ^ 28 - 1)}"])
      | _ => ([.diff "c13.format" "order:ps:bits" impl], [])
  | "fold" =>
    let vals := intList (r.get "vals")
    let m := vals.map fun v => (encodeSignbit v).map (fun (u : Nat) => (u : Int)) |>.getD (-1)
    let back := (natList (r.get "impl")).map decodeSignbit
    ([check "c01.fold" (showInts m) (r.get "impl"), check "c01.unfold" (showInts back) (r.get "impl_back"),
      check "c01.foldinverse" (showInts vals) (r.get "impl_back")], [])
  | "diffs" =>
    let sig := intList (r.get "sig")
    let m := String.intercalate ";" ((List.range 5).map fun k => showInts (diffs k sig))
    ([check "c01.diffs" m (r.get "impl")], [])
  | "lpcerr" =>
    let coefs := intList (r.get "coefs")
    let sig := intList (r.get "sig")
    let shift := r.nat "shift"
    let res := computeError coefs shift sig
    let m := optInts (res.map (·.1))
    let impl := normPanic (r.get "impl")
    -- the exact residual, where it fits i32, must be what the code computed (losslessness of the LPC path)
    let exact := List.replicate coefs.length (0 : Int) ++ lpcResidual coefs shift sig
    let fits := exact.all fitsI32
    let vs := [check "c01.lpcerr" m impl]
    let vs := if fits ∧ impl ≠ "panic" then check "c01.lpcexact" (showInts exact) impl :: vs else vs
    -- the flag `compute_error` returns (recorded as `impl_fits=1/0` by newer harnesses)
    let vs := match r.get? "impl_fits", res with
      | some f, some (_, flag) => check "c01.lpcfits" (if flag then "1" else "0") f :: vs
      | _, _ => vs
    (vs, [s!"lpcerr.exactfits={fits}"])
  | "fbuf" =>
    -- `FrameBuf` filled block by block (Model/Source.lean): both delivery paths, state after every fill
    let ch := r.nat "ch"
    let bps := r.nat "bps"
    let k := (bps + 7) / 8
    let size := r.nat "size"
    let lens := ((r.get "lens").splitOn ",").map fun t => t.toNat?.getD 0
    let data := intList (r.get "data")
    let render (fb : FrameBuf) : String :=
      s!"{fb.filled}:{"/".intercalate ((List.range ch).map fun c => showInts (fb.channelSlice c))}"
    let run (bytesPath : Bool) : String :=
      match FrameBuf.withSize ch size with
      | none => "nobuf"
      | some fb0 =>
        let (_, _, steps) := lens.foldl (fun (st : FrameBuf × List Int × List String) n =>
          let (fb, rest, acc) := st
          let block := rest.take (n * ch)
          let r := if bytesPath then fb.fillLeBytes (block.flatMap (Rfc.toLeBytes k)) k else fb.fillInterleaved block
          match r with
          | .ok fb' => (fb', rest.drop (n * ch), acc ++ [render fb'])
          | .error _ => (fb, rest.drop (n * ch), acc ++ ["err"])) (fb0, data, [])
        ";".intercalate steps
    ([check "c14.fbint" (run false) (r.get "impl_int"), check "c14.fbbytes" (run true) (r.get "impl_bytes")], [])
  | "ctx" =>
    -- `Context` fed block by block (Model/Encoder.lean `Ctx`): both delivery paths
    let ch := r.nat "ch"
    let bps := r.nat "bps"
    let k := (bps + 7) / 8
    let lens := ((r.get "lens").splitOn ",").map fun t => t.toNat?.getD 0
    let data := intList (r.get "data")
    let step (bytesPath : Bool) (st : Ctx × List Int) (n : Nat) : Ctx × List Int :=
      let block := st.2.take (n * ch)
      let c := if bytesPath then st.1.fillLeBytes ch k (block.flatMap (Rfc.toLeBytes k)) else st.1.fillInterleaved bps ch block
      (c, st.2.drop (n * ch))
    let render (c : Ctx) : String :=
      s!"{hex (Md5.md5 c.hashed)}:{c.samples}:{if c.frames = 0 then "none" else toString (c.frames - 1)}"
    let ci := (lens.foldl (step false) (⟨[], 0, 0⟩, data)).1
    let cb := (lens.foldl (step true) (⟨[], 0, 0⟩, data)).1
    ([check "c14.ctxint" (render ci) (r.get "impl_int"), check "c14.ctxbytes" (render cb) (r.get "impl_bytes")], [])
  | "deint" =>
    let ch := r.nat "ch"
    let stride := r.nat "stride"
    let data := intList (r.get "data")
    let stale := r.int "stale"
    let m := deinterleave data ch stride (List.replicate (stride * ch) stale)
    ([check "c14.deint" (showInts m) (r.get "impl")], [])
  | "le" =>
    let k := r.nat "k"
    let vals := intList (r.get "vals")
    let bytes := i32sToLeBytes k vals
    ([check "c14.i2le" (hex bytes) (r.get "impl_bytes"),
      check "c14.le2i" (showInts (leBytesToI32s k bytes)) (r.get "impl_back"),
      check "c14.roundtrip" (showInts vals) (r.get "impl_back")], [])
  | "le2i" =>
    let k := r.nat "k"
    ([check "c14.le2i" (showInts (leBytesToI32s k (unhex (r.get "bytes")))) (r.get "impl")], [])
  | "bscode" =>
    let m := String.ofList ((List.range 65535).flatMap fun i =>
      let size := i + 1
      match BlockSizeSpec.fromSize size with
      | none => ['?', '?', '?']
      | some s => [hexDigitChar s.tag, hexDigitChar (s.extraBits.length / 8), if s.blockSize = some size then 'y' else 'n'])
    ([check "c02.bscode" m (r.get "impl")], [])
  | "sscode" =>
    let m := String.ofList ((List.range 256).map fun b => let t := sampleSizeTag b; if t = 0 then '-' else hexDigitChar t)
    ([check "c02.sscode" m (r.get "impl")], [])
  | "srcode" =>
    let from_ := r.nat "from"
    let m := String.ofList ((List.range 65536).map fun i =>
      match SampleRateSpec.fromFreq (from_ + i) with
      | some s => hexDigitChar s.tag
      | none => '-')
    ([check "c02.srcode" m (r.get "impl")], [])
  | "utf8" =>
    let vals := natList (r.get "vals")
    let m := String.intercalate "," (vals.map fun v => match encodeUtf8like v with | some b => hex b | none => "x")
    let sizes := vals.all fun v => match encodeUtf8like v with | some b => b.length == utf8likeBytesize v | none => true
    ([check "c02.utf8" m (r.get "impl"), check "c08.utf8size" "true" (toString sizes)], [])
  | "finest" =>
    let args := (splitList (r.get "args")).map fun a =>
      match a.splitOn ":" with
      | [x, y] => (x.toNat?.getD 0, y.toNat?.getD 0)
      | _ => (0, 0)
    let m := String.ofList (args.map fun (s, mp) => match finestOrder s mp with | some o => hexDigitChar o | none => '!')
    ([check "c13.finest" m (r.get "impl")], [])
  | f => ([.skip s!"unknown-kernel-fn-{f}"], [])

end FlacVerif.Drv
