import FlacVerif.Model.RepoParser
import FlacVerif.Driver.Proto
namespace FlacVerif.Drv
open FlacVerif Proto

def flipBit (bytes : Array Nat) (bit : Nat) : Array Nat :=
  let i := bit / 8
  bytes.set! i ((bytes.getD i 0) ^^^ (0x80 >>> (bit % 8)))

/-- The burst masks of 2..8 bits in the harness's canonical order: `(len, pattern)`. -/
def burstPatterns : List (Nat × Nat) :=
  (List.range 7).flatMap fun k =>
    let len := k + 2
    (List.range (2 ^ (len - 2))).map fun mid => (len, (1 <<< (len - 1)) ||| (mid <<< 1) ||| 1)

def applyBurst (bytes : Array Nat) (pos len pat : Nat) : Array Nat :=
  (List.range len).foldl (fun b j => if (pat >>> (len - 1 - j)) % 2 = 1 then flipBit b (pos + j) else b) bytes

/-- First index where two strings differ, with both characters. -/
def firstDiff (a b : String) : String :=
  let rec go (xs ys : List Char) (i : Nat) : String :=
    match xs, ys with
    | [], [] => "none"
    | x :: xs, y :: ys => if x = y then go xs ys (i + 1) else s!"index {i}: model={x} impl={y}"
    | _, _ => s!"length differs at {i}"
  go a.toList b.toList 0

/-- `parser` records: the mirrored parser + decoder must classify every mutant of the base stream
exactly as the real parser did (flips, bursts, truncations, random strings). -/
def parserRecord (r : Record) : List Verdict × List String :=
  let debug := r.get "prof" = "debug"
  match r.get? "rand" with
  | some h =>
    let c := Repo.outcomeCharMode debug (unhex h) [] (0, 0, 0)
    let m := if c = 's' ∨ c = 'd' ∨ c = 'q' then "a" else String.singleton c
    ([check "c16.random" m (r.get "impl")], [s!"parser.random={m}"])
  | none =>
    if (r.get? "xonly").isSome then
      -- directed mutants given explicitly (forced check sums) and selected truncations of a long stream
      let pcm := intList (r.get "pcm")
      let fmt := (r.nat "rate", r.nat "ch", r.nat "bps")
      let xm := if r.get "xm" = "-" then [] else (r.get "xm").splitOn "|"
      let mo := String.ofList (xm.map fun h => Repo.outcomeCharMode debug (unhex h) pcm fmt)
      let base := if r.get "base" = "-" then [] else unhex (r.get "base")
      let cuts := if r.get "xcuts" = "-" then [] else ((r.get "xcuts").splitOn ",").map fun t => t.toNat?.getD 0
      let co := String.ofList (cuts.map fun n => Repo.outcomeCharMode debug (base.take n) pcm fmt)
      ([check "c16.forced" "none" (firstDiff mo (if r.get "impl_xm" = "-" then "" else r.get "impl_xm")),
        check "c16.xcuts" "none" (firstDiff co (if r.get "impl_xcuts" = "-" then "" else r.get "impl_xcuts"))],
       [s!"parser.directed={xm.length + cuts.length}"])
    else
    let base := unhex (r.get "base")
    let arr := base.toArray
    let pcm := intList (r.get "pcm")
    let fmt := (r.nat "rate", r.nat "ch", r.nat "bps")
    let nbits := base.length * 8
    let stride := r.nat "stride"
    let oc (bs : Array Nat) : Char := Repo.outcomeCharMode debug bs.toList pcm fmt
    let flips := String.ofList ((List.range nbits).map fun bit => oc (flipBit arr bit))
    let positions := (List.range ((nbits - 42 * 8 + stride - 1) / (if stride = 0 then 1 else stride))).map fun k => 42 * 8 + k * stride
    let bursts := String.ofList (positions.flatMap fun pos =>
      burstPatterns.map fun (len, pat) => if pos + len > nbits then '-' else oc (applyBurst arr pos len pat))
    let truncs := String.ofList ((List.range base.length).map fun n => Repo.outcomeCharMode debug (base.take n) pcm fmt)
    let clean := oc arr
    let vs := [check "c15.clean" "s" (String.singleton clean),
               check "c16.flips" "none" (firstDiff flips (r.get "flips")),
               check "c16.bursts" "none" (firstDiff bursts (r.get "bursts")),
               check "c16.truncs" "none" (firstDiff truncs (r.get "truncs"))]
    (vs, [s!"parser.mutants={(flips.length + bursts.length + truncs.length) / 1000}k"])

end FlacVerif.Drv
