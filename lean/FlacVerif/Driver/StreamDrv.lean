import FlacVerif.Model.Rfc
import FlacVerif.Model.Md5
import FlacVerif.Model.Component
import FlacVerif.Model.Encoder
import FlacVerif.Model.Encode
import FlacVerif.Model.RepoParser
import FlacVerif.Model.RfcRec
import FlacVerif.Model.EncodeStream
import FlacVerif.Driver.Proto
namespace FlacVerif.Drv
open FlacVerif Proto

/-- key:value,key:value configuration field. -/
def cfgField (cfg : String) (k : String) : String :=
  ((cfg.splitOn ",").filterMap fun kv =>
    match kv.splitOn ":" with
    | [a, b] => if a = k then some b else none
    | _ => none).headD ""

def cfgNat (cfg k : String) : Nat := (cfgField cfg k).toNat?.getD 0

def deinterleaveModel (ch : Nat) (xs : List Int) : List (List Int) :=
  let arr := xs.toArray
  let n := if ch = 0 then 0 else arr.size / ch
  (List.range ch).map fun c => (List.range n).map fun t => arr.getD (t * ch + c) 0

/-- Rebuilds the component tree the bytes denote (model types) from the strict decoder's report. -/
def subFrameOf (n : Nat) (s : Rfc.SubRep) : SubFrame :=
  match s.kind with
  | .constant => .constant n (s.samples.headD 0) s.bps
  | .verbatim => .verbatim s.samples s.bps
  | .fixed =>
    let errs := List.replicate s.order (0 : Int) ++ s.residual
    .fixed (s.samples.take s.order) (Residual.ofErrors errs s.order s.partOrder s.params) s.bps
  | .lpc =>
    let errs := List.replicate s.order (0 : Int) ++ s.residual
    .lpc (s.samples.take s.order) s.coefs (s.shift : Int) s.precision (Residual.ofErrors errs s.order s.partOrder s.params) s.bps

def assignmentOf (code : Nat) : ChannelAssignment :=
  if code < 8 then .independent (code + 1) else if code = 8 then .leftSide else if code = 9 then .rightSide else .midSide

def frameOf (rate bps : Nat) (f : Rfc.FrameRep) : Frame :=
  { header := { isVariable := false,
                blockSizeSpec := (BlockSizeSpec.fromSize f.blockSize).getD .reserved,
                assignment := assignmentOf f.assignment,
                sampleSizeTag := sampleSizeTag bps,
                sampleRateSpec := (SampleRateSpec.fromFreq rate).getD .unspecified,
                frameNumber := f.number, startSample := 0 },
    subframes := f.subs.map (subFrameOf f.blockSize) }

def streamOf (r : Rfc.Report) : Stream :=
  -- frame sizes 0/0 on the wire are the crate's "unknown" state, held as (u32::MAX, 0) in `StreamInfo`
  let (mnf, mxf) := if r.info.minFrame = 0 ∧ r.info.maxFrame = 0 then (2 ^ 32 - 1, 0) else (r.info.minFrame, r.info.maxFrame)
  { info := ⟨r.info.minBlock, r.info.maxBlock, mnf, mxf, r.info.rate, r.info.channels,
             r.info.bps, r.info.total, r.info.md5⟩,
    metadata := [], frames := r.frames.map (frameOf r.info.rate r.info.bps) }

def kindName : Rfc.SubKind → String
  | .constant => "constant" | .verbatim => "verbatim" | .fixed => "fixed" | .lpc => "lpc"

/-- Parses the oracle log `q:shift:precision:c_c_c;e:order:bits;…`. -/
def parseOlog (s : String) : List OEvent :=
  if s = "-" ∨ s = "" then [] else
  (s.splitOn ";").filterMap fun ev =>
    match ev.splitOn ":" with
    | ["q", sh, pr, cs] =>
      some (.qlpc ((if cs = "-" then [] else cs.splitOn "_").map fun t => t.toInt?.getD 0) (sh.toInt?.getD 0) (pr.toNat?.getD 0))
    | ["e", o, b] => some (.est (o.toNat?.getD 0) (b.toNat?.getD 0))
    | _ => none

/-- Functional correspondence (DESIGN 1.1): replays the decision logic of the encoder on the
logged oracle values, frame by frame, and compares the bytes. Returns the first disagreement. -/
def functionalCheck (cfg : String) (chans : List (List Int)) (bps rate bs : Nat) (olog : List OEvent)
    (frames : List (List Nat)) : Verdict := Id.run do
  let sc : SubCfg := ⟨cfgNat cfg "uc" = 1, cfgNat cfg "uf" = 1, cfgNat cfg "ul" = 1, cfgNat cfg "fmo",
                      cfgField cfg "sel" = "bc", cfgNat cfg "maxp"⟩
  let st : StereoCfg := ⟨cfgNat cfg "ls" = 1, cfgNat cfg "rs" = 1, cfgNat cfg "ms" = 1⟩
  let mut log := olog
  let mut idx := 0
  for fb in frames do
    let block := chans.map fun c => (c.drop (idx * bs)).take bs
    match encodeFrame sc st block bps rate idx log with
    | none => return .diff "c09.functional" s!"frame {idx}: model encoder fails (panic site or oracle log exhausted)" "frame emitted"
    | some (f, log') =>
      log := log'
      match f.bits rfcCrc8 rfcCrc16 with
      | none => return .diff "c09.functional" s!"frame {idx}: model frame not serialisable" "frame emitted"
      | some b =>
        if packBytes b ≠ fb then
          return .diff "c09.functional" s!"frame {idx}: {hex (packBytes b)}" (hex fb)
    idx := idx + 1
  if !log.isEmpty then
    return .diff "c09.functional" "oracle log fully consumed" s!"{log.length} events left"
  return .ok

/-- All checks on one `stream` record; returns verdicts (tagged by property) and statistics. -/
def streamRecord (r : Record) : List Verdict × List String := Id.run do
  let cfg := r.get "cfg"
  let bs := cfgNat cfg "bs"
  let maxP := cfgNat cfg "maxp"
  let ch := r.nat "ch"
  let bps := r.nat "bps"
  let rate := r.nat "rate"
  let pcm := intList (r.get "pcm")
  let impl := r.get "impl"
  if impl ≠ "ok" then
    -- the model has no error path for valid inputs: any error/panic is a disagreement
    return ([.diff "c01.result" "ok" impl, .diff "c02.result" "ok" impl, .diff "c03.result" "ok" impl,
             .diff "c04.result" "ok" impl, .diff "c09.result" "ok" impl, .diff "c15.result" "ok" impl], [])
  -- a stream far above the verbatim size is not decoded bit by bit (a defective encoder can emit
  -- megabytes per frame): it is reported at once
  let nsamples := if ch = 0 then 0 else pcm.length / ch
  let nframes := if bs = 0 then 0 else (nsamples + bs - 1) / bs
  let bound := 42 + nframes * (24 + ch * (bs * ((bps + 1 + 7) / 8) + 4)) + 64
  if (r.get "impl_bytes").length / 2 > 2 * bound then
    let msg := s!"{(r.get "impl_bytes").length / 2} bytes, more than twice the verbatim bound {bound}"
    return ([.diff "c09.frame" "at most the verbatim size" msg, .diff "c01.decodable" "decodable in bounded space" msg,
             .diff "c02.wellformed" "frame sizes within STREAMINFO's 24-bit fields and the verbatim bound" msg,
             .diff "c04.framesizes" "bounded" msg, .diff "c13.cost" "optimal" msg], [])
  let bytes := unhex (r.get "impl_bytes")
  match Rfc.analyzeRec Md5.md5 bytes with
  | .error e =>
    -- C03 concerns only rate/channels/bps/total/md5: they are read at their fixed offsets
    let k := (bps + 7) / 8
    let digest := Md5.md5 (pcm.flatMap (Rfc.toLeBytes k))
    let n := if ch = 0 then 0 else pcm.length / ch
    let mi := assembleInfo rate ch bps bs [] n digest
    let c03 := check "c03.infobits" (hex ((packBytes mi.bits).drop 10)) (hex (((bytes.drop 8).take 34).drop 10))
    let c04 := if (e.splitOn "STREAMINFO").length > 1 ∨ (e.splitOn "block size").length > 1
      then [Verdict.diff "c04.strict" "accepted" e] else []
    return ([.diff "c02.wellformed" "accepted" e, .diff "c01.decodable" "accepted" e, c03] ++ c04, [])
  | .ok rep =>
    let mut vs : List Verdict := []
    let mut stats : List String := []
    let chans := deinterleaveModel ch pcm
    let n := if ch = 0 then 0 else pcm.length / ch
    -- C01
    vs := check "c01.audio" (toString (chans == rep.audio)) "true" :: vs
    vs := check "c01.format" s!"{rate}/{ch}/{bps}" s!"{rep.info.rate}/{rep.info.channels}/{rep.info.bps}" :: vs
    vs := check "c01.length" (toString n) (toString ((rep.frames.map (·.blockSize)).foldl (· + ·) 0)) :: vs
    -- C03
    let k := (bps + 7) / 8
    let digest := Md5.md5 (pcm.flatMap (Rfc.toLeBytes k))
    vs := check "c03.total" (toString n) (toString rep.info.total) :: vs
    vs := check "c03.md5" (hex digest) (hex rep.info.md5) :: vs
    vs := check "c03.format" s!"{rate}/{ch}/{bps}" s!"{rep.info.rate}/{rep.info.channels}/{rep.info.bps}" :: vs
    -- C04 / C03: the model's book-keeping (`assembleInfo`, the object of theorem C04_bounds) against the bytes
    let mi := assembleInfo rate ch bps bs (rep.frames.map fun f => (f.blockSize, 8 * f.byteLen)) n digest
    let (mn, mx) := if mi.minFrame > mi.maxFrame then (0, 0) else (mi.minFrame, mi.maxFrame)
    vs := check "c04.blocks" s!"{mi.minBlock}/{mi.maxBlock}" s!"{rep.info.minBlock}/{rep.info.maxBlock}" :: vs
    vs := check "c04.framesizes" s!"{mn}/{mx}" s!"{rep.info.minFrame}/{rep.info.maxFrame}" :: vs
    vs := check "c03.infobits" (hex ((packBytes mi.bits).drop 10)) (hex (((bytes.drop 8).take 34).drop 10)) :: vs
    let ctx := (Ctx.mk [] 0 0).fillInterleaved bps ch pcm
    vs := check "c03.ctx" (hex (Md5.md5 ctx.hashed)) (hex rep.info.md5) :: vs
    -- model re-serialisation of the decoded tree (ties `bits`/`count` of the model to the real bytes)
    let ms := streamOf rep
    match ms.bits rfcCrc8 rfcCrc16 with
    | none => vs := .diff "c15.reserialize" "none" "bytes" :: vs
    | some b =>
      vs := check "c15.reserialize" (toString (packBytes b == bytes)) "true" :: vs
      vs := check "c08.streamcount" (toString ((ms.count).getD 0)) (r.get "impl_count") :: vs
      vs := check "c08.streambits" (toString b.length) (r.get "impl_count") :: vs
    vs := check "c15.verify" "1" (r.get "impl_verify") :: vs
    -- the mirror of the crate's own parser on the real bytes: accepts, and builds the same tree as
    -- the strict RFC decoder recovered
    match Repo.parseStream bytes with
    | .ok ps =>
      vs := check "c15.modelparse" (toString ((ps.toStream?.map fun t => decide (t = ms)).getD false)) "true" :: vs
      match Repo.decodeAll false ps.frames with
      | .ok audio => vs := check "c15.modeldecode" (toString (audio == pcm)) "true" :: vs
      | .panic site => vs := .diff "c15.modeldecode" "decodes" s!"panic {site}" :: vs
    | .error _ => vs := .diff "c15.modelparse" "accepted" "parse error" :: vs
    | .panic site => vs := .diff "c15.modelparse" "accepted" s!"panic {site}" :: vs
    -- functional view: the decision logic replayed on the logged oracle (single-thread records only)
    if r.get "mode" = "st" ∧ (r.get? "olog").isSome then
      let mut off := 42
      let mut fbs : List (List Nat) := []
      for f in rep.frames do
        fbs := fbs ++ [(bytes.drop off).take f.byteLen]
        off := off + f.byteLen
      vs := functionalCheck cfg chans bps rate bs (parseOlog (r.get "olog")) fbs :: vs
      stats := "functional=1" :: stats
      -- the stream-level functional model (`encodeStream`, the object of C01_stream_strict) must
      -- reproduce the WHOLE stream byte for byte, STREAMINFO included
      let sc : SubCfg := ⟨cfgNat cfg "uc" = 1, cfgNat cfg "uf" = 1, cfgNat cfg "ul" = 1, cfgNat cfg "fmo",
                          cfgField cfg "sel" = "bc", cfgNat cfg "maxp"⟩
      let stc : StereoCfg := ⟨cfgNat cfg "ls" = 1, cfgNat cfg "rs" = 1, cfgNat cfg "ms" = 1⟩
      let whole := match encodeStream Md5.md5 sc stc bs chans bps rate (parseOlog (r.get "olog")) with
        | some (st, []) => (match st.bits rfcCrc8 rfcCrc16 with
            | some b => if packBytes b == bytes then "same" else "different bytes"
            | none => "model stream not serialisable")
        | some (_, _) => "oracle log not fully consumed"
        | none => "model encoder fails (panic site or oracle log exhausted)"
      for pfx in ["c01", "c02", "c03", "c04", "c09"] do
        vs := check (pfx ++ ".functionalstream") "same" whole :: vs
    -- per frame
    for f in rep.frames do
      -- C02: the header codes the implementation chose are the ones the model's coders choose
      vs := check "c02.bscode" (toString ((BlockSizeSpec.fromSize f.blockSize).map (·.tag) |>.getD 0)) (toString f.bsCode) :: vs
      vs := check "c02.srcode" (toString ((SampleRateSpec.fromFreq rate).map (·.tag) |>.getD 0)) (toString f.srCode) :: vs
      vs := check "c02.sscode" (toString (sampleSizeTag bps)) (toString f.ssCode) :: vs
      -- C09: frame against its verbatim size (same header, independent verbatim subframes)
      let headerBits := (frameOf rate bps f).header.count
      let verbatim := (headerBits + ch * (8 + f.blockSize * bps) + 7) / 8 + 2
      if f.byteLen > verbatim + 2 * ch then
        vs := .diff "c09.frame" s!"at most {verbatim + 2 * ch} bytes" s!"{f.byteLen} bytes" :: vs
      stats := s!"assign={f.assignment}" :: s!"bscode={f.bsCode}" :: s!"srcode={f.srCode}" :: stats
      for s in f.subs do
        stats := s!"kind={kindName s.kind}" :: stats
        if s.kind == .fixed ∨ s.kind == .lpc then
          stats := s!"order={kindName s.kind}{s.order}" :: s!"porder={s.partOrder}" :: stats
          for p in s.params do
            stats := s!"param={p}" :: stats
          -- C13: cost of the implementation's choice against the model's search on the same residual
          let errs := List.replicate s.order (0 : Int) ++ s.residual
          let folded := errs.map fold
          let implCost := choiceCost folded s.order s.partOrder s.params
          match search errs s.order maxP with
          | none => vs := .diff "c13.search" "none" "some" :: vs
          | some m =>
            let modelCost := choiceCost folded s.order m.order m.ps
            if modelCost < 2 ^ 28 then
              vs := check "c13.cost" (toString modelCost) (toString implCost) :: vs
              vs := check "c13.codebits" (toString modelCost) (toString m.codeBits) :: vs
            if !(orderOk errs.length s.order s.partOrder) then
              vs := .diff "c13.space" "order inside the search space" s!"order {s.partOrder} for n={errs.length} warm={s.order}" :: vs
            if s.params.any (· > maxP) then
              vs := .diff "c13.space" s!"parameters <= {maxP}" (showNats s.params) :: vs
          if s.residual.any (fun e => e.natAbs ≥ 2 ^ 15) then stats := "bigresidual=1" :: stats
    return (vs.reverse, stats)

end FlacVerif.Drv
