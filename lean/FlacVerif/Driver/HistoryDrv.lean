import FlacVerif.Driver.Proto
import FlacVerif.Model.Scratch
namespace FlacVerif.Drv
open FlacVerif Proto

/-- `fingerprint_window` of lpc.rs: the model function the cache theorems of C10 are about. -/
def windowFingerprint (rect : Bool) (alphaBits : Nat) : Nat :=
  Scratch.fingerprint (if rect then .rectangle else .tukey alphaBits)

/-- `history` records: every call of a history made on one long-lived thread must equal the same
call on a fresh thread (`same` is all ones), and the window-cache key is the model's. -/
def historyRecord (r : Record) : List Verdict × List String :=
  if r.get "fn" = "winfp" then
    let bits := natList (r.get "bits")
    let m := showNats (bits.map (windowFingerprint false))
    let injective := (bits.eraseDups.length == (bits.map (windowFingerprint false)).eraseDups.length)
    ([check "c10.winfp" m (r.get "impl"), check "c10.winfp.rect" (toString (windowFingerprint true 0)) (r.get "rect"),
      check "c10.winfp.injective" "true" (toString injective)], [])
  else
    let same := r.get "same"
    let n := ((r.get "calls").splitOn ";").length
    ([check "c10.same" (String.ofList (List.replicate n '1')) same], [s!"history.calls={n / 10 * 10}+"])

end FlacVerif.Drv
