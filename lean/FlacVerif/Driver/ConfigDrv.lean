import FlacVerif.Gen.Config
import FlacVerif.Driver.Proto
import FlacVerif.Driver.StreamDrv
namespace FlacVerif.Drv
open FlacVerif Proto Gen

/-- Builds the generated configuration structure from the harness's flat `cfg=` field. -/
def encoderOfCfg (cfg : String) : Encoder :=
  let n := cfgNat cfg
  let b (k : String) : Bool := cfgNat cfg k = 1
  { block_size := n "bs", multithread := b "mt",
    workers := if n "w" = 0 then none else some (n "w"),
    stereo_coding := ⟨b "ls", b "rs", b "ms"⟩,
    subframe_coding :=
      { use_constant := b "uc", use_fixed := b "uf", use_lpc := b "ul",
        fixed := ⟨n "fmo", if cfgField cfg "sel" = "bc" then .BitCount else .ApproxEnt (n "parts")⟩,
        qlpc := ⟨n "lo", n "qp", b "dm", n "mae", if cfgField cfg "win" = "rect" then .Rectangle else .Tukey (n "alpha")⟩,
        prc := ⟨n "maxp"⟩ } }

def canonAlpha (a : Nat) : Nat := if F32.isNaN a then 0x7FC00000 else a

/-- The harness's `Cfg::render()` of a configuration in normal form. -/
def renderCfg (c : Encoder) : String :=
  let bb (x : Bool) : String := if x then "1" else "0"
  let (sel, parts) := match c.subframe_coding.fixed.order_sel with
    | .BitCount => ("bc", 0) | .ApproxEnt p => ("ent", p)
  let (win, alpha) := match c.subframe_coding.qlpc.window with
    | .Rectangle => ("rect", 0) | .Tukey a => ("tukey", canonAlpha a)
  s!"bs:{c.block_size},mt:{bb c.multithread},w:{c.workers.getD 0},ls:{bb c.stereo_coding.use_leftside},rs:{bb c.stereo_coding.use_rightside},ms:{bb c.stereo_coding.use_midside},uc:{bb c.subframe_coding.use_constant},uf:{bb c.subframe_coding.use_fixed},ul:{bb c.subframe_coding.use_lpc},fmo:{c.subframe_coding.fixed.max_order},sel:{sel},parts:{parts},lo:{c.subframe_coding.qlpc.lpc_order},qp:{c.subframe_coding.qlpc.quant_precision},dm:{bb c.subframe_coding.qlpc.use_direct_mse},mae:{c.subframe_coding.qlpc.mae_optimization_steps},win:{win},alpha:{alpha},maxp:{c.subframe_coding.prc.max_parameter}"

/-- Canonical text of a `TVal` (tables sorted by key, as `toml::Value` keeps them). -/
partial def renderT : TVal → String
  | .int n => s!"i{n}"
  | .bool b => if b then "b1" else "b0"
  | .f32 x => s!"f{canonAlpha x}"
  | .str s => s!"s{s}"
  | .table kv =>
    let sorted := kv.toArray.qsort (fun a b => a.1 < b.1) |>.toList
    "{" ++ String.intercalate "," (sorted.map fun (k, v) => s!"{k}={renderT v}") ++ "}"

/-- Parser for the canonical text. Returns the value and the rest. -/
partial def parseT : List Char → Option (TVal × List Char)
  | 'i' :: rest =>
    let ds := rest.takeWhile Char.isDigit
    some (.int ((String.ofList ds).toNat?.getD 0), rest.drop ds.length)
  | 'b' :: c :: rest => some (.bool (c == '1'), rest)
  | 'f' :: rest =>
    let ds := rest.takeWhile Char.isDigit
    some (.f32 ((String.ofList ds).toNat?.getD 0), rest.drop ds.length)
  | 's' :: rest =>
    let cs := rest.takeWhile fun c => c != ',' && c != '}'
    some (.str (String.ofList cs), rest.drop cs.length)
  | '{' :: rest =>
    let rec items (cs : List Char) (acc : List (String × TVal)) : Option (TVal × List Char) :=
      match cs with
      | '}' :: r => some (.table acc.reverse, r)
      | ',' :: r => items r acc
      | _ =>
        let k := cs.takeWhile (· != '=')
        match cs.drop k.length with
        | '=' :: r =>
          match parseT r with
          | some (v, r2) => items r2 ((String.ofList k, v) :: acc)
          | none => none
        | _ => none
    items rest []
  | _ => none

def configRecord (r : Record) : List Verdict × List String :=
  let cfg := r.get "cfg"
  let exp := r.get "exp" = "1"
  let par := r.get "par" = "1"
  let c := encoderOfCfg cfg
  match r.get "kind" with
  | "verify" =>
    let m := if Encoder.verify exp c then "ok" else "err"
    let impl := if (r.get "impl_verify").startsWith "err" then "err" else r.get "impl_verify"
    ([check "c07.verify" m impl], [s!"verify={impl}"])
  | "toml" =>
    if r.get "ser" = "err" then ([], ["toml.unserialisable=1"]) else
    let vs := [check "c19.ser" (renderT (Encoder.toT c)) (r.get "ser")]
    match parseT (r.get "doc").toList with
    | none => (vs ++ [.diff "c19.doc" "parsable canonical document" (r.get "doc")], [])
    | some (doc, _) =>
      let m := match Encoder.fromT par doc with
        | .ok e => renderCfg e
        | .error _ => "err"
      -- the full document must parse back to the configuration itself (round trip in the model)
      let rt := match Encoder.fromT par (Encoder.toT c) with
        | .ok e => decide (e = c)
        | .error _ => false
      (vs ++ [check "c19.parsed" m (r.get "impl_parsed"), check "c19.modelroundtrip" "true" (toString rt)], [s!"toml.parsed={if m = "err" then "err" else "ok"}"])
  | k => ([.skip s!"unknown-config-kind-{k}"], [])

end FlacVerif.Drv
