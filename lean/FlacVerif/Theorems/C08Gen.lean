/-
C08 (generated writer) — the HAND-WRITTEN model of the bitstream writer (`Model/Ops.lean`: the lists of `BitSink`
operations each component's `write` issues; `Model/Component.lean` / `Model/Rice.lean`: `count`) agrees with the
Rust source text of `src/component/bitrepr.rs`.

`Gen/Writer.lean` is regenerated on every run by `tools/translate.py` (part `writer`): it PARSES the bodies of
`impl BitRepr for X { fn count_bits; fn write }` and mirrors them statement by statement (widths, literals, order
of the writes, loop ranges, casts all come from the source text).  All other theorems of the project (C08, C12,
C15, C02, C01Strict, ...) are about the hand-written definitions; the theorems below are the bridge: for EVERY
component value (no sampling) the hand-written operation list / count and the generated one coincide.

Casts.  `e as T` to a narrower type is carried INTO the generated operation (`Op.writeLsbs 32 (x % 2^32) 24`),
exactly as the hand-written lists do; so the equalities need no "no truncation" side condition.  The only domain
hypotheses that remain are where the hand model and the source differ in where they reduce: `s.total < 2^64`
(`usize as u64` is the identity on the domain, the hand model writes `% 2^64`), `order < 64` (`1usize << order`),
Rice parameters `< 32` (`1u32 << p`), `tag + 0x80 < 256` (the hand model reduces the block-type byte mod 256, Rust
adds in `u8`).  All of them are implied by the well-formedness predicates of C08/C18 (`Residual.WF`,
`SubFrame.WF`): `resOk_of_WF`, `subOk_of_WF`.

Panics.  Next to each function the translator emits `<fn>_exact`: the mechanically derived condition under which
no step panics in the dev profile (overflow, index out of bounds, `assert!`).  `C08G_*_exact` below state what
these conditions are for STREAMINFO, constant, verbatim and LPC/fixed subframes over a well-formed residual.

External functions.  `FrameHeader::write` and `Frame::write` assemble their output in a thread-local scratch sink
(`reuse!`) and forward its bytes followed by a CRC.  What these bodies call outside bitrepr.rs is NOT given a
meaning by the translator: `encode_to_utf8like` (left untranslated: mutable shifts in a loop), `HEADER_CRC.checksum`
/ `FRAME_CRC.checksum` (crate `crc`), the read-out of the scratch sink (`as_slice`, `len`, `write_to_byte_slice`)
and the stale content of the reused byte vector are PARAMETERS of the generated functions.  The theorems
instantiate them: `encodeUtf8like` (hand model), `crc p8` / `crc p16` (bitwise CRC over the bytes, any parameters),
`scratchBytes` / `idealLen` / `wordExport` (a `MemSink` holds the ideal bit string of the operations it received:
the subject of C05/C06), and hold for EVERY stale content.

Types without a counterpart in the hand model (`MetadataBlock`, `MetadataBlockData`, `FrameHeader`, `Frame`,
`Stream` are generated from their Rust definitions) are related to it by explicit maps: `hdrOfGen`, `frameOfGen`
(Rust value -> model value, total) and `streamToGen` (model stream -> Rust value with the `is_last` flags).

NEGATIVE CONTROLS (executed on mutated copies of the crate; "breaks T" = `lake build` fails in theorem T):
see the table at the end of this file.
-/
import FlacVerif.Gen.Writer
import FlacVerif.Theorems.C02Hdr
import FlacVerif.Theorems.C08
import FlacVerif.Lemmas.Ops
namespace FlacVerif.C08Gen
open FlacVerif FlacVerif.Gen.Writer

/-! ### glue: the sequencing combinators of `Gen/Writer.lean` -/

@[simp] theorem emit_some (a b : List Op) : emit a (some b) = some (a ++ b) := rfl
@[simp] theorem emit_none (a : List Op) : emit a none = none := rfl
@[simp] theorem seqW_some (a b : List Op) : seqW (some a) (some b) = some (a ++ b) := rfl
@[simp] theorem seqW_none (b : W) : seqW none b = none := rfl
@[simp] theorem seqW_some_none (a : List Op) : seqW (some a) none = none := rfl
@[simp] theorem seqW_nil (a : W) : seqW a (some []) = a := by cases a <;> simp [seqW]

theorem forW_some {α : Type} (xs : List α) (f : α → W) (g : α → List Op) (h : ∀ x ∈ xs, f x = some (g x)) :
    forW xs f = some (xs.flatMap g) := by
  induction xs with
  | nil => rfl
  | cons x xs ih =>
    rw [forW, h x (by simp), ih (fun y hy => h y (by simp [hy]))]
    simp

theorem forW_map {α β : Type} (xs : List α) (h : α → β) (f : β → W) : forW (xs.map h) f = forW xs (fun x => f (h x)) := by
  induction xs with
  | nil => rfl
  | cons x xs ih => simp [forW, ih]

theorem flatMap_single {α β : Type} (l : List α) (g : α → β) : l.flatMap (fun x => [g x]) = l.map g := by
  induction l with
  | nil => rfl
  | cons x xs ih => simp [List.flatMap_cons, ih]

theorem range_map_getD {β : Type} (xs : List Int) (f : Int → β) :
    (List.range xs.length).map (fun i => f (xs.getD i 0)) = xs.map f := by
  apply List.ext_getElem
  · simp
  · intro i h1 h2
    simp at h1 h2 ⊢
    simp [h1]

theorem take_map_getD {β : Type} (xs : List Int) (n : Nat) (h : n ≤ xs.length) (f : Int → β) :
    (List.range n).map (fun i => f (xs.getD i 0)) = (xs.take n).map f := by
  apply List.ext_getElem
  · simp [Nat.min_eq_left h]
  · intro i h1 h2
    simp at h1 h2 ⊢
    have : i < xs.length := by omega
    simp [this]

theorem getD_lt (l : List Nat) (c : Nat) (hc : 0 < c) (h : ∀ p ∈ l, p < c) (k : Nat) : l.getD k 0 < c := by
  by_cases hk : k < l.length
  · rw [List.getD_eq_getElem?_getD, List.getElem?_eq_getElem hk]; exact h _ (List.getElem_mem hk)
  · rw [List.getD_eq_getElem?_getD, List.getElem?_eq_none (by omega)]; simpa using hc

/-! counting loops -/

theorem countUp_one (a b : Nat) : countUp a b 1 = List.range' a (b - a) := by
  simp [countUp, List.range'_eq_map_range]

theorem countUp_zero_one (b : Nat) : countUp 0 b 1 = List.range b := by
  simp [countUp]

theorem countUp_nil (a b N : Nat) (hN : 0 < N) (h : b ≤ a) : countUp a b N = [] := by
  have : (b - a + (N - 1)) / N = 0 := by
    rw [Nat.div_eq_zero_iff]; omega
  simp [countUp, this]

theorem countUp_cons (a b N : Nat) (hN : 0 < N) (h : a < b) : countUp a b N = a :: countUp (a + N) b N := by
  have hc : (b - a + (N - 1)) / N = (b - (a + N) + (N - 1)) / N + 1 := by
    by_cases hd : b - a ≤ N
    · have h1 : (b - a + (N - 1)) / N = 1 := by
        apply Nat.div_eq_of_lt_le <;> omega
      have h2 : (b - (a + N) + (N - 1)) / N = 0 := by
        rw [Nat.div_eq_zero_iff]; omega
      omega
    · have : b - a + (N - 1) = (b - (a + N) + (N - 1)) + N := by omega
      rw [this, Nat.add_div_right _ hN]
  simp only [countUp, hc, List.range_succ_eq_map, List.map_cons, List.map_map]
  congr 1
  · simp
  · apply List.map_congr_left
    intro j _
    simp [Nat.succ_mul]; omega

/-- `try_repeat!(o to N; while a + o < b => F o)` runs `F` on `a, a+1, …` up to `N` times, stopping at `b`. -/
theorem repeatWhileAux_eq (a b : Nat) (f : Nat → List Op) (F : Nat → W) (hF : ∀ o, F o = some (f (a + o))) (n s : Nat) :
    repeatWhileAux (fun o => decide (a + o < b)) F (List.range' s n) =
      some ((List.range' (a + s) (min n (b - a - s))).flatMap f) := by
  induction n generalizing s with
  | zero => simp [repeatWhileAux]
  | succ n ih =>
    rw [List.range'_succ, repeatWhileAux]
    by_cases h : a + s < b
    · have hm : min (n + 1) (b - a - s) = min n (b - a - (s + 1)) + 1 := by omega
      simp only [h, decide_true, if_true, hF, ih (s + 1), hm, List.range'_succ, List.flatMap_cons, seqW_some]
      rfl
    · have hm : min (n + 1) (b - a - s) = 0 := by omega
      simp [h, hm]

theorem repeatWhile_eq (N a b : Nat) (f : Nat → List Op) (F : Nat → W) (hF : ∀ o, F o = some (f (a + o))) :
    repeatWhile N (fun o => decide (a + o < b)) F = some ((List.range' a (min N (b - a))).flatMap f) := by
  have := repeatWhileAux_eq a b f F hF N 0
  simpa [repeatWhile, List.range_eq_range'] using this

/-- The unrolled inner loop of `Residual::write` (`while t0 < end { try_repeat!(o to N; while t0 + o < end => ..);
t0 += N }`) visits exactly `a, a+1, …, b-1`, for every unroll factor `N > 0`. -/
theorem chunked (N : Nat) (hN : 0 < N) (b : Nat) (f : Nat → List Op) (F : Nat → Nat → W)
    (hF : ∀ t0 o, F t0 o = some (f (t0 + o))) (d : Nat) : ∀ a, b - a ≤ d →
    forW (countUp a b N) (fun t0 => seqW (repeatWhile N (fun o => decide (t0 + o < b)) (F t0)) (some [])) =
      some ((List.range' a (b - a)).flatMap f) := by
  induction d with
  | zero =>
    intro a h
    have : b ≤ a := by omega
    simp [countUp_nil a b N hN this, forW, show b - a = 0 by omega]
  | succ d ih =>
    intro a h
    by_cases hab : a < b
    · rw [countUp_cons a b N hN hab, forW, repeatWhile_eq N a b f (F a) (hF a), ih (a + N) (by omega)]
      simp only [seqW_some, List.append_nil, ← List.flatMap_append]
      congr 2
      by_cases hd : N ≤ b - a
      · rw [Nat.min_eq_left hd, show b - a = N + (b - (a + N)) by omega, List.range'_append_1]
      · rw [Nat.min_eq_right (by omega), show b - (a + N) = 0 by omega]; simp
    · have : b ≤ a := by omega
      simp [countUp_nil a b N hN this, forW, show b - a = 0 by omega]

/-- A loop that threads a `let mut` variable: if the variable is `inv k` at the start of iteration `k`. -/
theorem loopS_range' {σ : Type} (f : Nat → σ → WS σ) (inv : Nat → σ) (g : Nat → List Op) (n : Nat) : ∀ a,
    (∀ k, a ≤ k → k < a + n → f k (inv k) = some (g k, inv (k + 1))) →
    loopS (List.range' a n) (inv a) f = some ((List.range' a n).flatMap g, inv (a + n)) := by
  induction n with
  | zero => intro a _; simp [loopS]
  | succ n ih =>
    intro a h
    rw [List.range'_succ, loopS, h a (Nat.le_refl _) (by omega)]
    simp only
    rw [ih (a + 1) (fun k h1 h2 => h k (by omega) (by omega))]
    simp [List.flatMap_cons, Nat.add_assoc, Nat.add_comm 1 n]

/-! ### RESIDUAL -/

/-- What `Residual::write` needs of a residual to be the hand-written list: `1usize << order` and `1u32 << p` keep
their bit (implied by `Residual.WF`: `order ≤ 15`, `p ≤ 14`). -/
def ResOk (r : Residual) : Prop := r.order < 64 ∧ ∀ p ∈ r.params, p < 32

theorem resOk_of_WF (r : Residual) (h : r.WF) : ResOk r := by
  obtain ⟨ho, _, _, _, _, _, _, hp, _⟩ := h
  exact ⟨by omega, fun p hm => by have := hp p hm; omega⟩

theorem nparts_eq (r : Residual) (ho : r.order < 64) : (1 <<< r.order) % 18446744073709551616 = r.nparts := by
  rw [Nat.one_shiftLeft, Residual.nparts]
  apply Nat.mod_eq_of_lt
  calc 2 ^ r.order < 2 ^ 64 := Nat.pow_lt_pow_right (by decide) (by omega)
    _ = 18446744073709551616 := by decide

/-- `Residual::write`: partition-order field, then per partition the 4-bit parameter and for every coded sample
`write_zeros(q)` and the `p+1` bits "stop bit, remainder" (`write_msbs` of `(r | 1 << p) << (32 - (p+1))`). -/
theorem C08G_residual_ops (r : Residual) (h : ResOk r) : Gen.Writer.Residual.write r = some r.ops := by
  obtain ⟨ho, hp⟩ := h
  have hn := nparts_eq r ho
  have hom : r.order % 4294967296 = r.order := Nat.mod_eq_of_lt (by omega)
  unfold Gen.Writer.Residual.write Residual.ops
  simp only [hn, hom, countUp_one, Nat.sub_zero]
  have hl := loopS_range' (σ := Nat)
    (fun p offset =>
      emitS [Op.writeLsbs 8 (r.params.getD p 0) 4] <|
      seqS (forW (countUp (Nat.max r.warmup offset) (offset + (r.blockSize >>> r.order)) RESIDUAL_WRITE_UNROLL_N) (fun t0 =>
           seqW (repeatWhile RESIDUAL_WRITE_UNROLL_N (fun offset_1 => decide ((t0 + offset_1) < (offset + (r.blockSize >>> r.order)))) (fun offset_1 =>
                emit [Op.writeZeros (r.quotients.getD (t0 + offset_1) 0)] <|
                emit [Op.writeMsbs 32 ((((r.remainders.getD (t0 + offset_1) 0) ||| ((1 <<< (r.params.getD p 0)) % 4294967296)) <<< (32 - ((r.params.getD p 0) + 1))) % 4294967296) ((r.params.getD p 0) + 1)] <|
                some [])) <|
           some [])) <|
      retS (offset + (r.blockSize >>> r.order)))
    (fun k => k * r.partLen)
    (fun k =>
      let p := r.params.getD k 0
      let start := max r.warmup (k * r.partLen)
      let stop := (k + 1) * r.partLen
      Op.writeLsbs 8 p 4 ::
        (List.range (stop - start)).flatMap fun i =>
          let t := start + i
          [ Op.writeZeros (r.quotients.getD t 0),
            Op.writeMsbs 32 (((r.remainders.getD t 0 ||| (1 <<< p)) <<< (32 - (p + 1))) % 2 ^ 32) (p + 1) ])
    r.nparts 0 ?_
  · simp only [Nat.zero_mul, Nat.zero_add] at hl
    simp only [hl, bindS, List.range_eq_range']
    simp
  · intro k _ _
    have hp' := getD_lt r.params 32 (by decide) hp k
    have hsb : (1 <<< r.params.getD k 0) % 4294967296 = 1 <<< r.params.getD k 0 := by
      rw [Nat.one_shiftLeft]
      apply Nat.mod_eq_of_lt
      calc 2 ^ r.params.getD k 0 < 2 ^ 32 := Nat.pow_lt_pow_right (by decide) hp'
        _ = 4294967296 := by decide
    simp only [hsb]
    have hc := chunked RESIDUAL_WRITE_UNROLL_N (by decide) (k * r.partLen + r.blockSize >>> r.order) (fun t =>
          [ Op.writeZeros (r.quotients.getD t 0),
            Op.writeMsbs 32 (((r.remainders.getD t 0 ||| (1 <<< r.params.getD k 0)) <<< (32 - (r.params.getD k 0 + 1))) % 4294967296) (r.params.getD k 0 + 1) ])
          (fun t0 offset_1 =>
              emit [Op.writeZeros (r.quotients.getD (t0 + offset_1) 0)]
                (emit [Op.writeMsbs 32 ((r.remainders.getD (t0 + offset_1) 0 ||| 1 <<< r.params.getD k 0) <<<
                          (32 - (r.params.getD k 0 + 1)) % 4294967296) (r.params.getD k 0 + 1)] (some [])))
          (fun t0 o => rfl) _ (r.warmup.max (k * r.partLen)) (Nat.le_refl _)
    rw [hc]
    simp only [seqS, retS, emitS, Residual.partLen, Nat.succ_mul, List.range'_eq_map_range, List.flatMap_map]
    simp [Nat.max_def]

/-- Order 1, block size 8, warm-up 2 (the residual of the C08 examples): 2 partitions, 6 coded samples. -/
example : Gen.Writer.Residual.write ⟨1, 8, 2, [2, 3], [0, 0, 1, 2, 0, 3, 1, 0], [0, 0, 3, 1, 2, 7, 0, 5]⟩ = some (Residual.ops ⟨1, 8, 2, [2, 3], [0, 0, 1, 2, 0, 3, 1, 0], [0, 0, 3, 1, 2, 7, 0, 5]⟩) :=
  C08G_residual_ops _ ⟨by decide, by decide⟩
example : Gen.Writer.Residual.write ⟨1, 8, 2, [2, 3], [0, 0, 1, 2, 0, 3, 1, 0], [0, 0, 3, 1, 2, 7, 0, 5]⟩ = some
    [.writeLsbs 32 1 6,
     .writeLsbs 8 2 4, .writeZeros 1, .writeMsbs 32 0xE0000000 3, .writeZeros 2, .writeMsbs 32 0xA0000000 3,
     .writeLsbs 8 3 4, .writeZeros 0, .writeMsbs 32 0xA0000000 4, .writeZeros 3, .writeMsbs 32 0xF0000000 4,
       .writeZeros 1, .writeMsbs 32 0x80000000 4, .writeZeros 0, .writeMsbs 32 0xD0000000 4] := by decide

/-- `Residual::count_bits`: whenever the hand-written count is defined (no `usize` underflow), the generated
expression has that value. -/
theorem C08G_residual_count (r : Residual) (c : Nat) (ho : r.order < 64) (h : r.count = some c) :
    Gen.Writer.Residual.count_bits r = c := by
  have hn := nparts_eq r ho
  have hpl : r.blockSize >>> r.order = r.partLen := rfl
  unfold Gen.Writer.Residual.count_bits
  simp only [hn, hpl]
  unfold Residual.count at h
  dsimp only at h
  by_cases h1 : r.warmup > List.foldl (· + ·) 0 r.quotients + r.blockSize
  · rw [if_pos h1] at h; contradiction
  rw [if_neg h1] at h
  by_cases h2 : r.params.isEmpty = true
  · rw [if_pos h2] at h; contradiction
  rw [if_neg h2] at h
  by_cases h3 : r.warmup * r.params.getD 0 0 > List.foldl (· + ·) 0 r.params * r.partLen
  · rw [if_pos h3] at h; contradiction
  rw [if_neg h3, Option.some.injEq] at h
  omega

example : Gen.Writer.Residual.count_bits ⟨1, 8, 2, [2, 3], [0, 0, 1, 2, 0, 3, 1, 0], [0, 0, 3, 1, 2, 7, 0, 5]⟩ = 43 := C08G_residual_count _ 43 (by decide) (by decide)

/-- For a well-formed residual the generated count is the number of bits the hand-written writer emits. -/
theorem C08G_residual_count_WF (r : Residual) (h : r.WF) : Gen.Writer.Residual.count_bits r = r.bits.length :=
  C08G_residual_count r _ (by have := h.1; omega) (C08_residual r h)

/-! exactness of `Residual::write` -/

theorem loopE_range' {σ : Type} (f : Nat → σ → Bool × σ) (inv : Nat → σ) (n : Nat) : ∀ a,
    (∀ k, a ≤ k → k < a + n → f k (inv k) = (true, inv (k + 1))) →
    loopE (List.range' a n) (inv a) f = (true, inv (a + n)) := by
  unfold loopE
  suffices h : ∀ n a, (∀ k, a ≤ k → k < a + n → f k (inv k) = (true, inv (k + 1))) →
      List.foldl (fun acc x => let r := f x acc.2; (acc.1 && r.1, r.2)) (true, inv a) (List.range' a n) = (true, inv (a + n)) from h n
  intro n
  induction n with
  | zero => intro a _; simp
  | succ n ih =>
    intro a h
    rw [List.range'_succ, List.foldl_cons]
    simp only [h a (Nat.le_refl _) (by omega), Bool.and_self]
    rw [ih (a + 1) (fun k h1 h2 => h k (by omega) (by omega))]
    simp [Nat.add_assoc, Nat.add_comm 1 n]

theorem mem_countUp (a b N t : Nat) (hN : 0 < N) (h : t ∈ countUp a b N) : a ≤ t ∧ t < b := by
  simp only [countUp, List.mem_map, List.mem_range] at h
  obtain ⟨j, hj, rfl⟩ := h
  refine ⟨by omega, ?_⟩
  have : j * N < b - a + (N - 1) - (N - 1) := by
    have h1 : j + 1 ≤ (b - a + (N - 1)) / N := hj
    have h2 := (Nat.le_div_iff_mul_le hN).1 h1
    rw [Nat.add_mul] at h2; omega
  omega

theorem repeatWhileEAux_true (c cex bex : Nat → Bool) (l : List Nat) (h : ∀ o ∈ l, cex o = true ∧ (c o = true → bex o = true)) :
    repeatWhileEAux c cex bex l = true := by
  induction l with
  | nil => rfl
  | cons t ts ih =>
    have ht := h t (by simp)
    simp only [repeatWhileEAux, ht.1, Bool.true_and]
    split
    · rename_i hc; simp [ht.2 hc, ih (fun o ho => h o (by simp [ho]))]
    · rfl

/-- For a well-formed residual whose block size leaves room for the loop counters (for any unroll factor), `Residual::write` does not panic:
in particular every index into `rice_params`, `quotients`, `remainders` is in bounds. -/
theorem C08G_residual_exact (r : Residual) (h : r.WF) (hb : r.blockSize + RESIDUAL_WRITE_UNROLL_N ≤ 2 ^ 64) :
    Gen.Writer.Residual.write_exact r = true := by
  obtain ⟨ho, hpl, hdv, _, _, hq, hrm, hp, _⟩ := h
  have hn := nparts_eq r (by omega)
  have hnp : r.nparts ≤ 2 ^ 15 := by
    rw [Residual.nparts]; exact Nat.pow_le_pow_right (by decide) ho
  have hbs : r.nparts * r.partLen = r.blockSize := by
    rw [Residual.nparts, Residual.partLen, Nat.shiftRight_eq_div_pow, Nat.mul_div_cancel' hdv]
  have hpl' : r.blockSize >>> r.order = r.partLen := rfl
  unfold Gen.Writer.Residual.write_exact
  simp only [hn, hpl', countUp_one, Nat.sub_zero, andB, bindE]
  have hl := loopE_range' (σ := Nat)
    (fun p offset =>
      andE (decide (p < r.params.length)) <|
      andE (decide (offset + r.partLen < 18446744073709551616)) <|
      andE (decide ((r.params.getD p 0) < 32)) <|
      andE (decide ((r.params.getD p 0) + 1 < 256)) <|
      andE (decide ((offset + r.partLen) + RESIDUAL_WRITE_UNROLL_N ≤ 18446744073709551616) && (countUp (Nat.max r.warmup offset) (offset + r.partLen) RESIDUAL_WRITE_UNROLL_N).all (fun t0 =>
          repeatWhileE RESIDUAL_WRITE_UNROLL_N (fun offset_1 => decide ((t0 + offset_1) < (offset + r.partLen))) (fun offset_1 => decide (t0 + offset_1 < 18446744073709551616)) (fun offset_1 =>
              (decide (t0 + offset_1 < 18446744073709551616)) &&
              ((decide ((t0 + offset_1) < r.quotients.length)) &&
              (((decide ((t0 + offset_1) < r.remainders.length) && decide (((r.params.getD p 0) + 1) ≤ 32)) && decide ((32 - ((r.params.getD p 0) + 1)) < 32)) &&
              decide (((r.params.getD p 0) + 1) ≤ 32)))))) <|
      (true, (offset + r.partLen)))
    (fun k => k * r.partLen) r.nparts 0 ?_
  · simp only [Nat.zero_mul, Nat.zero_add] at hl
    simp only [hl, Bool.and_true, Bool.and_eq_true, decide_eq_true_eq]
    omega
  · intro k _ hk
    have hk' : k < r.nparts := by omega
    have hp' : r.params.getD k 0 ≤ 14 := by
      have := getD_lt r.params 15 (by decide) (fun p hm => by have := hp p hm; omega) k; omega
    have hend : k * r.partLen + r.partLen ≤ r.blockSize := by
      have : (k + 1) * r.partLen ≤ r.nparts * r.partLen := Nat.mul_le_mul_right _ hk'
      rw [Nat.succ_mul, hbs] at this; exact this
    have hall : (countUp (Nat.max r.warmup (k * r.partLen)) (k * r.partLen + r.partLen) RESIDUAL_WRITE_UNROLL_N).all (fun t0 =>
          repeatWhileE RESIDUAL_WRITE_UNROLL_N (fun offset_1 => decide ((t0 + offset_1) < (k * r.partLen + r.partLen))) (fun offset_1 => decide (t0 + offset_1 < 18446744073709551616)) (fun offset_1 =>
              (decide (t0 + offset_1 < 18446744073709551616)) &&
              ((decide ((t0 + offset_1) < r.quotients.length)) &&
              (((decide ((t0 + offset_1) < r.remainders.length) && decide (((r.params.getD k 0) + 1) ≤ 32)) && decide ((32 - ((r.params.getD k 0) + 1)) < 32)) &&
              decide (((r.params.getD k 0) + 1) ≤ 32))))) = true := by
      rw [List.all_eq_true]
      intro t0 ht0
      have ht := mem_countUp _ _ _ _ (by decide) ht0
      apply repeatWhileEAux_true
      intro o ho
      have ho' : o < RESIDUAL_WRITE_UNROLL_N := by simpa using ho
      simp only [Bool.and_eq_true, decide_eq_true_eq]
      refine ⟨by omega, fun hc => ?_⟩
      omega
    have hkn : k < r.params.length := by rw [hpl, ← Residual.nparts]; exact hk'
    have hNpos : 0 < RESIDUAL_WRITE_UNROLL_N := by decide
    simp only [andE, hall]
    simp only [Bool.and_true, Prod.mk.injEq, Bool.and_eq_true, decide_eq_true_eq, Nat.succ_mul]
    clear hpl'
    refine ⟨⟨hkn, ?_, ?_, ?_, ?_⟩, trivial⟩ <;> omega

example : Gen.Writer.Residual.write_exact ⟨1, 8, 2, [2, 3], [0, 0, 1, 2, 0, 3, 1, 0], [0, 0, 3, 1, 2, 7, 0, 5]⟩ = true := C08G_residual_exact _ (by decide) (by decide)
/-- A quotient vector shorter than the block (`quotients.length = blockSize` of `WF` fails): `self.quotients()[t]`
is out of bounds — the exactness condition is false (Rust panics), although the operation list is defined. -/
example : Gen.Writer.Residual.write_exact ⟨0, 4, 0, [0], [1, 0, 2], [0, 0, 0, 0]⟩ = false := by decide

/-! ### SUBFRAMES -/

theorem head_fixed (n : Nat) : (16 ||| (((n <<< 1) % 18446744073709551616) % 256)) = (0x10 ||| (n <<< 1)) % 256 := by
  have h1 : (n <<< 1) % 18446744073709551616 % 256 = (n <<< 1) % 256 :=
    Nat.mod_mod_of_dvd _ (by decide)
  rw [h1, show (256 : Nat) = 2 ^ 8 by rfl, Nat.or_mod_two_pow]

theorem head_lpc (n : Nat) : (64 ||| ((((n - 1) % 256) <<< 1) % 256)) = (0x40 ||| (((n - 1) % 256) <<< 1)) % 256 := by
  rw [show (256 : Nat) = 2 ^ 8 by rfl, Nat.or_mod_two_pow]

/-- `Constant::write`: the type byte 0, then the value in two's complement. -/
theorem C08G_constant_ops (n : Nat) (dc : Int) (bps : Nat) :
    Gen.Writer.Constant.write n dc bps = some (SubFrame.constant n dc bps).ops := rfl

example : Gen.Writer.Constant.write 4096 (-5) 17 = some [.write 8 0, .writeTwoc (-5) 17] := C08G_constant_ops 4096 (-5) 17

/-- `Verbatim::write`: the type byte 2, then every sample (index loop `0..len`). -/
theorem C08G_verbatim_ops (xs : List Int) (bps : Nat) :
    Gen.Writer.Verbatim.write xs bps = some (SubFrame.verbatim xs bps).ops := by
  unfold Gen.Writer.Verbatim.write SubFrame.ops
  rw [countUp_zero_one, forW_some (List.range xs.length) (fun i => emit [Op.writeTwoc (xs.getD i 0) bps] (some []))
    (fun i => [Op.writeTwoc (xs.getD i 0) bps]) (fun _ _ => rfl)]
  rw [flatMap_single, range_map_getD xs (fun x => Op.writeTwoc x bps)]
  simp

example : Gen.Writer.Verbatim.write [3, -1, 200, -32768] 16 =
    some [.write 8 2, .writeTwoc 3 16, .writeTwoc (-1) 16, .writeTwoc 200 16, .writeTwoc (-32768) 16] :=
  C08G_verbatim_ops [3, -1, 200, -32768] 16

/-- `FixedLpc::write`: type byte `0x10 | order << 1`, warm-up samples, residual. -/
theorem C08G_fixed_ops (warm : List Int) (res : Residual) (bps : Nat) (hr : ResOk res) :
    Gen.Writer.FixedLpc.write warm res bps = some (SubFrame.fixed warm res bps).ops := by
  unfold Gen.Writer.FixedLpc.write SubFrame.ops
  rw [C08G_residual_ops res hr, head_fixed,
    forW_some warm (fun v => emit [Op.writeTwoc v bps] (some [])) (fun v => [Op.writeTwoc v bps]) (fun _ _ => rfl)]
  simp [flatMap_single]

/-- Second-order fixed predictor: type byte `0x10 | 2 << 1 = 0x14`. -/
example : Gen.Writer.FixedLpc.write [5, -3] ⟨1, 8, 2, [2, 3], [0, 0, 1, 2, 0, 3, 1, 0], [0, 0, 3, 1, 2, 7, 0, 5]⟩ 16 =
    some (.write 8 0x14 :: .writeTwoc 5 16 :: .writeTwoc (-3) 16 :: Residual.ops ⟨1, 8, 2, [2, 3], [0, 0, 1, 2, 0, 3, 1, 0], [0, 0, 3, 1, 2, 7, 0, 5]⟩) :=
  C08G_fixed_ops [5, -3] _ 16 ⟨by decide, by decide⟩

/-- `Lpc::write`: type byte `0x40 | (order-1) << 1`, `order` warm-up samples, precision-1 (4 bits), shift (5 bits,
two's complement), the coefficients on `precision` bits, residual — in this order. -/
theorem C08G_lpc_ops (warm coefs : List Int) (shift : Int) (precision : Nat) (res : Residual) (bps : Nat)
    (hw : coefs.length ≤ warm.length) (hr : ResOk res) :
    Gen.Writer.Lpc.write warm coefs shift precision res bps = some (SubFrame.lpc warm coefs shift precision res bps).ops := by
  unfold Gen.Writer.Lpc.write SubFrame.ops
  rw [C08G_residual_ops res hr, head_lpc, countUp_zero_one,
    forW_some (List.range coefs.length) (fun i => emit [Op.writeTwoc (warm.getD i 0) bps] (some []))
      (fun i => [Op.writeTwoc (warm.getD i 0) bps]) (fun _ _ => rfl),
    forW_some coefs (fun c => emit [Op.writeTwoc c precision] (some [])) (fun c => [Op.writeTwoc c precision]) (fun _ _ => rfl),
    flatMap_single, flatMap_single, take_map_getD warm coefs.length hw (fun x => Op.writeTwoc x bps)]
  simp

/-- The LPC subframe of the C08 examples (order 2, precision 4, shift 3): type byte `0x40 | 1 << 1 = 0x42`. -/
example : Gen.Writer.Lpc.write [5, -3] [7, -2] 3 4 ⟨1, 8, 2, [2, 3], [0, 0, 1, 2, 0, 3, 1, 0], [0, 0, 3, 1, 2, 7, 0, 5]⟩ 16 =
    some ([.write 8 0x42, .writeTwoc 5 16, .writeTwoc (-3) 16, .writeLsbs 64 3 4, .writeTwoc 3 5,
           .writeTwoc 7 4, .writeTwoc (-2) 4] ++ Residual.ops ⟨1, 8, 2, [2, 3], [0, 0, 1, 2, 0, 3, 1, 0], [0, 0, 3, 1, 2, 7, 0, 5]⟩) :=
  C08G_lpc_ops [5, -3] [7, -2] 3 4 _ 16 (by decide) ⟨by decide, by decide⟩

/-- What `SubFrame::write` needs of a subframe to be the hand-written list (implied by `SubFrame.WF`). -/
def SubOk : SubFrame → Prop
  | .constant _ _ _ => True
  | .verbatim _ _ => True
  | .fixed _ res _ => ResOk res
  | .lpc warm coefs _ _ res _ => coefs.length ≤ warm.length ∧ ResOk res

theorem subOk_of_WF (s : SubFrame) (h : s.WF) : SubOk s := by
  cases s with
  | constant => trivial
  | verbatim => trivial
  | fixed warm res bps => exact resOk_of_WF res h.2.2.1
  | lpc warm coefs shift precision res bps =>
    exact ⟨by have := h.2.2.1; omega, resOk_of_WF res h.2.2.2.2.1⟩

/-- `SubFrame::write`: dispatch on the variant. -/
theorem C08G_subframe_ops (s : SubFrame) (h : SubOk s) : Gen.Writer.SubFrame.write s = some s.ops := by
  cases s with
  | constant n dc bps => exact C08G_constant_ops n dc bps
  | verbatim xs bps => exact C08G_verbatim_ops xs bps
  | fixed warm res bps => exact C08G_fixed_ops warm res bps h
  | lpc warm coefs shift precision res bps => exact C08G_lpc_ops warm coefs shift precision res bps h.1 h.2

example : Gen.Writer.SubFrame.write (.lpc [5, -3] [7, -2] 3 4 ⟨1, 8, 2, [2, 3], [0, 0, 1, 2, 0, 3, 1, 0], [0, 0, 3, 1, 2, 7, 0, 5]⟩ 16) =
    some (SubFrame.ops (.lpc [5, -3] [7, -2] 3 4 ⟨1, 8, 2, [2, 3], [0, 0, 1, 2, 0, 3, 1, 0], [0, 0, 3, 1, 2, 7, 0, 5]⟩ 16)) :=
  C08G_subframe_ops _ ⟨by decide, by decide, by decide⟩
/-- Every well-formed subframe satisfies the premise. -/
example (s : SubFrame) (h : s.WF) : Gen.Writer.SubFrame.write s = some s.ops := C08G_subframe_ops s (subOk_of_WF s h)

/-- `Verbatim::write` never panics (the index loop stays in bounds); `FixedLpc::write` panics exactly when its
residual does. -/
theorem C08G_verbatim_fixed_exact (xs warm : List Int) (res : Residual) (bps : Nat) :
    Gen.Writer.Verbatim.write_exact xs bps = true ∧
    Gen.Writer.FixedLpc.write_exact warm res bps = Gen.Writer.Residual.write_exact res := by
  refine ⟨?_, rfl⟩
  unfold Gen.Writer.Verbatim.write_exact
  rw [List.all_eq_true]
  intro i hi
  have := (mem_countUp 0 xs.length 1 i (by decide) hi).2
  simpa using this

example : Gen.Writer.Verbatim.write_exact [3, -1, 200, -32768] 16 = true := (C08G_verbatim_fixed_exact _ [] ⟨0, 0, 0, [], [], []⟩ 16).1

/-- The residual of a subframe has a partition order the `usize` shift `1 << order` accepts. -/
def SubOrd : SubFrame → Prop
  | .fixed _ res _ => res.order < 64
  | .lpc _ _ _ _ res _ => res.order < 64
  | _ => True

theorem subOrd_of_WF (s : SubFrame) (h : s.WF) : SubOrd s := by
  cases s with
  | constant => trivial
  | verbatim => trivial
  | fixed warm res bps => have := h.2.2.1.1; simp only [SubOrd]; omega
  | lpc warm coefs shift precision res bps => have := h.2.2.2.2.1.1; simp only [SubOrd]; omega

/-- `count_bits` of the four subframe kinds and the dispatch of `SubFrame::count_bits`. -/
theorem C08G_subframe_count (s : SubFrame) (c : Nat) (ho : SubOrd s) (h : s.count = some c) :
    Gen.Writer.SubFrame.count_bits s = c := by
  cases s with
  | constant n dc bps =>
    simp [SubFrame.count] at h
    simp [Gen.Writer.SubFrame.count_bits, Gen.Writer.Constant.count_bits, h]
  | verbatim xs bps =>
    simp [SubFrame.count] at h
    simp [Gen.Writer.SubFrame.count_bits, Gen.Writer.Verbatim.count_bits, Gen.Writer.Verbatim.count_bits_from_metadata, h]
  | fixed warm res bps =>
    simp only [SubFrame.count, Option.map_eq_some_iff] at h
    obtain ⟨c', hc', rfl⟩ := h
    simp [Gen.Writer.SubFrame.count_bits, Gen.Writer.FixedLpc.count_bits, C08G_residual_count res c' ho hc']
  | lpc warm coefs shift precision res bps =>
    simp only [SubFrame.count, Option.map_eq_some_iff] at h
    obtain ⟨c', hc', rfl⟩ := h
    simp [Gen.Writer.SubFrame.count_bits, Gen.Writer.Lpc.count_bits, C08G_residual_count res c' ho hc']

example : Gen.Writer.SubFrame.count_bits (.lpc [5, -3] [7, -2] 3 4 ⟨1, 8, 2, [2, 3], [0, 0, 1, 2, 0, 3, 1, 0], [0, 0, 3, 1, 2, 7, 0, 5]⟩ 16) = 100 :=
  C08G_subframe_count _ 100 (by show 1 < 64; decide) (by decide)
example : Gen.Writer.SubFrame.count_bits (.verbatim [3, -1, 200, -32768] 16) = 72 :=
  C08G_subframe_count _ 72 trivial (by decide)

theorem C08G_subframe_count_WF (s : SubFrame) (h : s.WF) : Gen.Writer.SubFrame.count_bits s = s.bits.length :=
  C08G_subframe_count s _ (subOrd_of_WF s h) (C08_subframe s h)

/-! ### STREAMINFO -/

/-- `StreamInfo::write`: the nine fields, their widths and their order; unknown (0, 0) frame sizes while
`min > max`; `channels - 1`, `bits_per_sample - 1`. -/
theorem C08G_streaminfo_ops (s : StreamInfo) (ht : s.total < 2 ^ 64) :
    Gen.Writer.StreamInfo.write s = some s.ops := by
  unfold Gen.Writer.StreamInfo.write StreamInfo.ops
  by_cases h : s.minFrame > s.maxFrame <;> simp [h, Nat.mod_eq_of_lt ht]

example : Gen.Writer.StreamInfo.write ⟨4096, 4096, 1234, 14000, 44100, 2, 16, 441000, [1, 2, 3, 4, 5, 6, 7, 8, 9, 10, 11, 12, 13, 14, 15, 255]⟩ = some
    [.write 16 4096, .write 16 4096, .writeLsbs 32 1234 24, .writeLsbs 32 14000 24, .writeLsbs 32 44100 20,
     .writeLsbs 8 1 3, .writeLsbs 8 15 5, .writeLsbs 64 441000 36,
     .writeBytesAligned [1, 2, 3, 4, 5, 6, 7, 8, 9, 10, 11, 12, 13, 14, 15, 255]] :=
  C08G_streaminfo_ops _ (by decide)
/-- A stream without frames (`min_frame_size > max_frame_size`): both frame sizes are written as 0. -/
example : Gen.Writer.StreamInfo.write (StreamInfo.empty 48000 6 24) = some (StreamInfo.ops (StreamInfo.empty 48000 6 24)) ∧
    (StreamInfo.ops (StreamInfo.empty 48000 6 24)).take 4 = [.write 16 65535, .write 16 0, .writeLsbs 32 0 24, .writeLsbs 32 0 24] :=
  ⟨C08G_streaminfo_ops _ (by decide), by decide⟩

/-- `StreamInfo::count_bits` (the literal in the source) is the number of bits `write` emits. -/
theorem C08G_streaminfo_count (s : StreamInfo) (hm : s.md5.length = 16) :
    Gen.Writer.StreamInfo.count_bits s = s.bits.length := by
  rw [C08_streaminfo s hm]; rfl

example : Gen.Writer.StreamInfo.count_bits ⟨4096, 4096, 1234, 14000, 44100, 2, 16, 441000, [1, 2, 3, 4, 5, 6, 7, 8, 9, 10, 11, 12, 13, 14, 15, 255]⟩ = (StreamInfo.bits ⟨4096, 4096, 1234, 14000, 44100, 2, 16, 441000, [1, 2, 3, 4, 5, 6, 7, 8, 9, 10, 11, 12, 13, 14, 15, 255]⟩).length := C08G_streaminfo_count _ rfl

/-- `StreamInfo::write` does not panic iff `channels ≥ 1` and `bits_per_sample ≥ 1` (`x - 1` in `usize`). -/
theorem C08G_streaminfo_exact (s : StreamInfo) :
    Gen.Writer.StreamInfo.write_exact s = true ↔ 1 ≤ s.channels ∧ 1 ≤ s.bps := by
  simp [Gen.Writer.StreamInfo.write_exact, andB]

example : Gen.Writer.StreamInfo.write_exact ⟨4096, 4096, 1234, 14000, 44100, 2, 16, 441000, [1, 2, 3, 4, 5, 6, 7, 8, 9, 10, 11, 12, 13, 14, 15, 255]⟩ = true ∧ Gen.Writer.StreamInfo.write_exact (StreamInfo.empty 48000 0 24) = false :=
  ⟨(C08G_streaminfo_exact _).2 (by decide), by decide⟩

/-! ### METADATA BLOCKS -/

/-- `MetadataBlock::write` of an unknown block: type byte (`typetag + 0x80` for the last block), 24-bit length in
bytes (`count_bits / 8`), the data. -/
theorem C08G_block_unknown_ops (isLast : Bool) (tag : Nat) (data : List Nat)
    (ht : tag + (if isLast then 128 else 0) < 256) :
    Gen.Writer.MetadataBlock.write ⟨isLast, .Unknown tag data⟩ =
      some (blockHeaderOps isLast tag data.length ++ [.writeBytesAligned data]) := by
  simp [Gen.Writer.MetadataBlock.write, Gen.Writer.MetadataBlockData.write, Gen.Writer.MetadataBlockData.typetag,
    Gen.Writer.MetadataBlockData.count_bits, blockHeaderOps]
  cases isLast <;> simp at ht ⊢ <;> omega

/-- A last PADDING-like block of type 4 with three bytes: type byte `4 + 0x80`, length 3. -/
example : Gen.Writer.MetadataBlock.write ⟨true, .Unknown 4 [0xAA, 0xBB, 0xCC]⟩ =
    some [.write 8 0x84, .writeLsbs 32 3 24, .writeBytesAligned [0xAA, 0xBB, 0xCC]] :=
  C08G_block_unknown_ops true 4 [0xAA, 0xBB, 0xCC] (by decide)

/-- `MetadataBlock::write` of the STREAMINFO block: type 0, length 34 = 272 / 8, the STREAMINFO fields. -/
theorem C08G_block_streaminfo_ops (isLast : Bool) (s : StreamInfo) (ht : s.total < 2 ^ 64) :
    Gen.Writer.MetadataBlock.write ⟨isLast, .StreamInfo s⟩ = some (blockHeaderOps isLast 0 34 ++ s.ops) := by
  simp [Gen.Writer.MetadataBlock.write, Gen.Writer.MetadataBlockData.write, Gen.Writer.MetadataBlockData.typetag,
    Gen.Writer.MetadataBlockData.count_bits, Gen.Writer.StreamInfo.count_bits, blockHeaderOps, C08G_streaminfo_ops s ht]
  cases isLast <;> simp

example : Gen.Writer.MetadataBlock.write ⟨false, .StreamInfo ⟨4096, 4096, 1234, 14000, 44100, 2, 16, 441000, [1, 2, 3, 4, 5, 6, 7, 8, 9, 10, 11, 12, 13, 14, 15, 255]⟩⟩ =
    some (.write 8 0 :: .writeLsbs 32 34 24 :: StreamInfo.ops ⟨4096, 4096, 1234, 14000, 44100, 2, 16, 441000, [1, 2, 3, 4, 5, 6, 7, 8, 9, 10, 11, 12, 13, 14, 15, 255]⟩) :=
  C08G_block_streaminfo_ops false _ (by decide)

/-- `MetadataBlock::count_bits`: 32 header bits plus the data. -/
theorem C08G_block_count (isLast : Bool) (tag : Nat) (data : List Nat) (s : StreamInfo) :
    Gen.Writer.MetadataBlock.count_bits ⟨isLast, .Unknown tag data⟩ = 32 + 8 * data.length ∧
    Gen.Writer.MetadataBlock.count_bits ⟨isLast, .StreamInfo s⟩ = 32 + 272 := by
  simp [Gen.Writer.MetadataBlock.count_bits, Gen.Writer.MetadataBlockData.count_bits, Gen.Writer.StreamInfo.count_bits,
    Nat.mul_comm]

example : Gen.Writer.MetadataBlock.count_bits ⟨true, .Unknown 4 [0xAA, 0xBB, 0xCC]⟩ = 56 :=
  (C08G_block_count true 4 [0xAA, 0xBB, 0xCC] ⟨4096, 4096, 1234, 14000, 44100, 2, 16, 441000, [1, 2, 3, 4, 5, 6, 7, 8, 9, 10, 11, 12, 13, 14, 15, 255]⟩).1

/-! ### FRAME HEADER and FRAME: `count_bits` -/

/-- The hand-model image of a Rust frame header (enum maps of C02Hdr; the sample-size code is `into_tag`). -/
def hdrOfGen (g : Gen.Writer.FrameHeader) : FrameHeader :=
  { isVariable := g.variable_block_size
    blockSizeSpec := C02Hdr.bsOfGen g.block_size_spec
    assignment := C02Hdr.caOfGen g.channel_assignment
    sampleSizeTag := Gen.Headers.SampleSizeSpec.into_tag g.sample_size_spec
    sampleRateSpec := C02Hdr.srOfGen g.sample_rate_spec
    frameNumber := g.frame_number
    startSample := g.start_sample_number }

/-- `utf8like_bytesize` (via `usize::BITS - leading_zeros`) is the hand-written byte size, for every `usize`. -/
theorem C08G_utf8like_bytesize (v : Nat) (hv : v < 2 ^ 64) : Gen.Writer.utf8like_bytesize v = utf8likeBytesize v := by
  unfold Gen.Writer.utf8like_bytesize utf8likeBytesize bitLen Gen.Headers.leadingZeros
  by_cases h0 : v = 0
  · simp [h0]
  · have hl : Nat.log2 v < 64 := (Nat.log2_lt h0).2 hv
    have : 64 - (64 - 1 - Nat.log2 v) = Nat.log2 v + 1 := by omega
    simp [h0, this]

example : Gen.Writer.utf8like_bytesize 300 = 2 ∧ Gen.Writer.utf8like_bytesize (2 ^ 36 - 1) = 7 :=
  ⟨(C08G_utf8like_bytesize 300 (by decide)).trans (by decide), (C08G_utf8like_bytesize _ (by decide)).trans (by decide)⟩

/-- `FrameHeader::count_bits`: 40 fixed bits, the UTF-8-like number (sample number in variable-blocking mode,
frame number otherwise), the extra block-size and sample-rate fields. -/
theorem C08G_header_count (g : Gen.Writer.FrameHeader) (hf : g.frame_number < 2 ^ 32) (hs : g.start_sample_number < 2 ^ 64) :
    Gen.Writer.FrameHeader.count_bits g = (hdrOfGen g).count := by
  have e1 := C02Hdr.C02H_blockSize_extraCount (C02Hdr.bsOfGen g.block_size_spec)
  rw [C02Hdr.bsToGen_ofGen] at e1
  have e2 := C02Hdr.C02H_sampleRate_extraCount g.sample_rate_spec
  unfold Gen.Writer.FrameHeader.count_bits FrameHeader.count FrameHeader.number
  simp only [hdrOfGen, e1, e2]
  by_cases hv : g.variable_block_size = true
  · simp [hv, C08G_utf8like_bytesize g.start_sample_number hs]
  · simp [hv, C08G_utf8like_bytesize g.frame_number (by omega)]

/-- The Rust-side value of the frame header of the C08 examples (fixed blocking, frame 300, 8-sample block coded
in an extra byte, left/side stereo, 16 bit, 44.1 kHz). -/
def exHeader : Gen.Writer.FrameHeader := ⟨false, .ExtraByte 7, .LeftSide, .B16, .R44_1kHz, 300, 0⟩

example : hdrOfGen exHeader = ⟨false, .extraByte 7, .leftSide, 4, .fixed 9, 300, 0⟩ ∧
    Gen.Writer.FrameHeader.count_bits exHeader = 64 :=
  ⟨by decide, (C08G_header_count exHeader (by decide) (by decide)).trans (by decide)⟩

/-! ### FRAME HEADER: `write` -/
/-- Writer functions of part `headers` as operations on a sink: their ideal image is `writesBits`. -/
theorem idealRun_hdrOps (w : Gen.Headers.Writes) (ops : List Op) (h : hdrOps w = some ops) (len : Nat) :
    C02Hdr.writesBits w = some (idealRun len ops) := by
  cases w with
  | none => simp [hdrOps] at h
  | some ws =>
    simp only [hdrOps, Option.some.injEq] at h
    subst h
    simp only [C02Hdr.writesBits, Option.some.injEq]
    induction ws generalizing len with
    | nil => rfl
    | cons p ps ih => simp only [List.map_cons, idealRun, Op.ideal, List.flatMap_cons]; rw [← ih]

theorem idealRun_append (len : Nat) (a b : List Op) :
    idealRun len (a ++ b) = idealRun len a ++ idealRun (len + (idealRun len a).length) b := by
  induction a generalizing len with
  | nil => simp [idealRun]
  | cons op ops ih => simp [idealRun, ih, Nat.add_assoc]

/-- The scratch sink is modelled by the ideal bit string of the operations it received (`MemSink<u8>` implements
it: C05/C06), exported as bytes. -/
def scratchBytes (ops : List Op) : List Nat := packBytes (idealRun 0 ops)

def ChanOk : Gen.Headers.ChannelAssignment → Prop
  | .Independent n => 1 ≤ n ∧ n ≤ 8
  | _ => True


theorem header_core (p8 : CrcParams) (hw tb tbm ss ssm N catag : Nat) (caOps bsOps srOps : List Op) (bsx srx : Bits)
    (t1 : natToBits 8 tbm = natToBits 8 tb) (t2 : natToBits 4 ssm = natToBits 4 ss)
    (ica : ∀ len, idealRun len caOps = natToBits 4 catag) (ibs : ∀ len, idealRun len bsOps = bsx)
    (isr : ∀ len, idealRun len srOps = srx) (h1 : 8 ∣ bsx.length) (h2 : 8 ∣ srx.length) :
    bindW
      (emit [Op.writeLsbs 16 hw 16]
        (emit [Op.writeLsbs 8 tbm 8]
          (seqW (some caOps)
            (emit [Op.writeLsbs 8 ssm 4]
              (seqW (bindO (encodeUtf8like N) fun v => emit [Op.writeBytesAligned v] (some []))
                (seqW (some bsOps) (some srOps)))))))
      (fun header_buffer =>
        emit [Op.writeBytesAligned (scratchBytes header_buffer)]
          (emit [Op.write 8 (crc p8 (scratchBytes header_buffer))] (some []))) =
    ((encodeUtf8like N).bind fun num =>
        some (natToBits 16 hw ++ natToBits 8 tb ++ natToBits 4 catag ++ natToBits 4 ss ++ bytesToBits num ++ bsx ++ srx)).bind
      fun b => some [Op.writeBytesAligned (packBytes b), Op.write 8 (crcBits p8 b)] := by
  cases hnum : encodeUtf8like N with
  | none => simp [bindO, bindW]
  | some num =>
    simp only [bindO, bindW, emit_some, seqW_some, Option.bind_some, List.append_nil]
    have hb8 : 8 ∣ (natToBits 16 hw ++ natToBits 8 tb ++ natToBits 4 catag ++ natToBits 4 ss ++ bytesToBits num ++ bsx ++ srx).length := by
      simp only [List.length_append, natToBits_length, Count.bytesToBits_length]
      omega
    have hS : idealRun 0 ([Op.writeLsbs 16 hw 16] ++ ([Op.writeLsbs 8 tbm 8] ++ (caOps ++ ([Op.writeLsbs 8 ssm 4] ++
        ([Op.writeBytesAligned num] ++ (bsOps ++ srOps)))))) =
        natToBits 16 hw ++ natToBits 8 tb ++ natToBits 4 catag ++ natToBits 4 ss ++ bytesToBits num ++ bsx ++ srx := by
      simp only [idealRun_append, idealRun, Op.ideal, ica, ibs, isr, t1, t2, List.append_nil, List.length_append,
        natToBits_length, List.append_assoc]
      simp
    rw [scratchBytes, hS, crc, OpsL.bytesToBits_packBytes _ hb8]
    rfl

/-- `FrameHeader::write`: sync code + blocking bit (16 bits), block-size and sample-rate codes, channel assignment,
sample-size code and the reserved bit, the UTF-8-like frame / sample number, the extra fields — assembled in the
scratch sink — then forwarded as bytes, followed by the CRC-8 of exactly these bytes.  `encode_to_utf8like`, the
export of the scratch sink and the checksum are parameters of the generated function; they are instantiated with
the hand-written `encodeUtf8like`, the ideal byte image and the bitwise CRC. -/
theorem C08G_header_ops (p8 : CrcParams) (g : Gen.Writer.FrameHeader) (ex : Nat → Bool) (hc : ChanOk g.channel_assignment) :
    Gen.Writer.FrameHeader.write encodeUtf8like ex scratchBytes (crc p8) g = (hdrOfGen g).ops p8 := by
  have hca := (C02Hdr.C02H_channel_write (C02Hdr.caOfGen g.channel_assignment)
    (by cases hg : g.channel_assignment <;> simp_all [ChanOk, C02Hdr.caOfGen])).1
  rw [C02Hdr.caToGen_ofGen] at hca
  have hbs := C02Hdr.C02H_blockSize_extraBits (C02Hdr.bsOfGen g.block_size_spec)
  rw [C02Hdr.bsToGen_ofGen] at hbs
  have hsr := C02Hdr.C02H_sampleRate_extraBits g.sample_rate_spec
  have htag : ¬ (C02Hdr.caOfGen g.channel_assignment).tag > 15 := by
    cases hg : g.channel_assignment <;> simp_all [ChanOk, C02Hdr.caOfGen, ChannelAssignment.tag] <;> omega
  have hbt : (C02Hdr.bsOfGen g.block_size_spec).tag = Gen.Headers.BlockSizeSpec.tag g.block_size_spec := by
    have := C02Hdr.C02H_blockSize_tag (C02Hdr.bsOfGen g.block_size_spec); rwa [C02Hdr.bsToGen_ofGen] at this
  have hst := C02Hdr.C02H_sampleRate_tag g.sample_rate_spec
  unfold Gen.Writer.FrameHeader.write FrameHeader.ops FrameHeader.bodyBits
  simp only [hdrOfGen, FrameHeader.number, htag, if_false, hbt, hst]
  cases hcw : hdrOps (Gen.Headers.ChannelAssignment.write g.channel_assignment) with
  | none =>
    cases hw : Gen.Headers.ChannelAssignment.write g.channel_assignment with
    | none => rw [hw] at hca; simp [C02Hdr.writesBits] at hca
    | some ws => simp [hdrOps, hw] at hcw
  | some caOps =>
  cases hbw : hdrOps (Gen.Headers.BlockSizeSpec.write_extra_bits g.block_size_spec) with
  | none =>
    cases hw : Gen.Headers.BlockSizeSpec.write_extra_bits g.block_size_spec with
    | none => rw [hw] at hbs; simp [C02Hdr.writesBits] at hbs
    | some ws => simp [hdrOps, hw] at hbw
  | some bsOps =>
  cases hsw : hdrOps (Gen.Headers.SampleRateSpec.write_extra_bits g.sample_rate_spec) with
  | none =>
    cases hw : Gen.Headers.SampleRateSpec.write_extra_bits g.sample_rate_spec with
    | none => rw [hw] at hsr; simp [C02Hdr.writesBits] at hsr
    | some ws => simp [hdrOps, hw] at hsw
  | some srOps =>
  have ica : ∀ len, idealRun len caOps = natToBits 4 (C02Hdr.caOfGen g.channel_assignment).tag := by
    intro len; have := idealRun_hdrOps _ _ hcw len; rw [hca] at this; exact (Option.some.inj this).symm
  have ibs : ∀ len, idealRun len bsOps = (C02Hdr.bsOfGen g.block_size_spec).extraBits := by
    intro len; have := idealRun_hdrOps _ _ hbw len; rw [← hbs] at this; exact (Option.some.inj this).symm
  have isr : ∀ len, idealRun len srOps = (C02Hdr.srOfGen g.sample_rate_spec).extraBits := by
    intro len; have := idealRun_hdrOps _ _ hsw len; rw [← hsr] at this; exact (Option.some.inj this).symm
  have t1 : natToBits 8 (Gen.Headers.BlockSizeSpec.tag g.block_size_spec <<< 4 % 256 ||| Gen.Headers.SampleRateSpec.tag g.sample_rate_spec) =
      natToBits 8 (Gen.Headers.BlockSizeSpec.tag g.block_size_spec <<< 4 ||| Gen.Headers.SampleRateSpec.tag g.sample_rate_spec) := by
    rw [← OpsL.natToBits_mod256 8 _ (Nat.le_refl _), ← OpsL.natToBits_mod256 8 (_ ||| _) (Nat.le_refl _)]
    congr 1
    rw [show (256 : Nat) = 2 ^ 8 by rfl, Nat.or_mod_two_pow, Nat.or_mod_two_pow, Nat.mod_mod]
  have t2 : natToBits 4 (Gen.Headers.SampleSizeSpec.into_tag g.sample_size_spec <<< 1 % 256) =
      natToBits 4 (Gen.Headers.SampleSizeSpec.into_tag g.sample_size_spec <<< 1) := OpsL.natToBits_mod256 4 _ (by decide)
  have h1 := OpsL.blockSizeSpec_extra_dvd (C02Hdr.bsOfGen g.block_size_spec)
  have h2 := OpsL.sampleRateSpec_extra_dvd (C02Hdr.srOfGen g.sample_rate_spec)
  by_cases hv : g.variable_block_size = true
  · simp only [hv, if_true]
    exact header_core p8 _ _ _ _ _ _ _ caOps bsOps srOps _ _ t1 t2 ica ibs isr h1 h2
  · simp only [hv]
    exact header_core p8 _ _ _ _ _ _ _ caOps bsOps srOps _ _ t1 t2 ica ibs isr h1 h2

example : Gen.Writer.FrameHeader.write encodeUtf8like (fun _ => true) scratchBytes (crc rfcCrc8) exHeader =
    (hdrOfGen exHeader).ops rfcCrc8 := C08G_header_ops rfcCrc8 exHeader _ trivial
/-- More than 8 independent channels: `ChannelAssignment::write` returns `Err`, and so does the header. -/
example : Gen.Writer.FrameHeader.write encodeUtf8like (fun _ => true) scratchBytes (crc rfcCrc8)
    { exHeader with channel_assignment := .Independent 9 } = none := by decide

/-- The hand-model image of a Rust frame (its precomputed bitstream, if any, is not part of the model value). -/
def frameOfGen (g : Gen.Writer.Frame) : Frame := ⟨hdrOfGen g.header, g.subframes⟩

theorem foldl_add (l : List Nat) (a : Nat) : l.foldl (· + ·) a = a + l.foldl (· + ·) 0 := by
  induction l generalizing a with
  | nil => simp
  | cons x xs ih =>
    simp only [List.foldl_cons, ih (a + x), ih (0 + x)]
    omega

theorem foldl_add_map {α : Type} (l : List α) (f : α → Nat) (a : Nat) :
    l.foldl (fun acc x => acc + f x) a = a + (l.map f).foldl (· + ·) 0 := by
  induction l generalizing a with
  | nil => simp
  | cons x xs ih =>
    simp only [List.foldl_cons, List.map_cons, ih (a + f x), foldl_add _ (0 + f x)]
    omega

/-- Element-wise relation between two lists of the same length. -/
inductive Rel2 {α β : Type} (R : α → β → Prop) : List α → List β → Prop
  | nil : Rel2 R [] []
  | cons {a : α} {b : β} {as : List α} {bs : List β} : R a b → Rel2 R as bs → Rel2 R (a :: as) (b :: bs)

theorem mapM_count (l : List SubFrame) (subs : List Nat) (ho : ∀ s ∈ l, SubOrd s) (h : l.mapM SubFrame.count = some subs) :
    l.map Gen.Writer.SubFrame.count_bits = subs := by
  induction l generalizing subs with
  | nil => simp at h; simp [h]
  | cons x xs ih =>
    rw [List.mapM_cons] at h
    cases hx : x.count with
    | none => simp [hx] at h
    | some c =>
      cases hxs : xs.mapM SubFrame.count with
      | none => simp [hx, hxs] at h
      | some cs =>
        simp [hx, hxs] at h
        subst h
        simp [C08G_subframe_count x c (ho x (by simp)) hx, ih cs (fun s hs => ho s (by simp [hs])) hxs]

/-- `Frame::count_bits` without a precomputed bitstream: header + subframes, rounded up to a byte (`>> 3 << 3`),
plus the 16-bit footer. `c < 2^64`: the count itself fits `usize`. -/
theorem C08G_frame_count (g : Gen.Writer.Frame) (c : Nat) (hp : g.precomputed_bitstream = none)
    (hf : g.header.frame_number < 2 ^ 32) (hs : g.header.start_sample_number < 2 ^ 64)
    (ho : ∀ s ∈ g.subframes, SubOrd s) (hc : c < 2 ^ 64) (h : (frameOfGen g).count = some c) :
    Gen.Writer.Frame.count_bits g = c := by
  unfold Frame.count at h
  simp only [frameOfGen] at h
  cases hm : g.subframes.mapM SubFrame.count with
  | none => simp [hm] at h
  | some subs =>
    simp [hm] at h
    unfold Gen.Writer.Frame.count_bits
    simp only [hp, mapM_count g.subframes subs ho hm, C08G_header_count g.header hf hs]
    have hsh : ∀ x : Nat, (x >>> 3) <<< 3 = x / 8 * 8 := by
      intro x; simp [Nat.shiftRight_eq_div_pow, Nat.shiftLeft_eq]
    rw [hsh, Nat.mod_eq_of_lt (by omega)]
    exact h

/-- The stereo frame of the C08 examples (LPC + constant subframe): 64 + 100 + 25 = 189 bits, padded to 192, + 16. -/
def exFrame : Gen.Writer.Frame :=
  ⟨exHeader, [.lpc [5, -3] [7, -2] 3 4 ⟨1, 8, 2, [2, 3], [0, 0, 1, 2, 0, 3, 1, 0], [0, 0, 3, 1, 2, 7, 0, 5]⟩ 16, .constant 8 (-5) 17], none⟩

example : Gen.Writer.Frame.count_bits exFrame = 208 :=
  C08G_frame_count exFrame 208 rfl (by decide) (by decide)
    (by intro s hs; simp [exFrame] at hs; rcases hs with rfl | rfl <;> simp [SubOrd]) (by decide) (by decide)

/-- `Frame::count_bits` with a precomputed bitstream: eight times its length. -/
theorem C08G_frame_count_precomputed (g : Gen.Writer.Frame) (bytes : List Nat) (hp : g.precomputed_bitstream = some bytes)
    (hl : bytes.length * 8 < 2 ^ 64) : Gen.Writer.Frame.count_bits g = 8 * bytes.length := by
  unfold Gen.Writer.Frame.count_bits
  simp only [hp, Nat.shiftLeft_eq]
  rw [Nat.mod_eq_of_lt (by simpa using hl)]; omega

example : Gen.Writer.Frame.count_bits { exFrame with precomputed_bitstream := some [0xFF, 0xF8, 0x69, 0x18] } = 32 :=
  C08G_frame_count_precomputed _ [0xFF, 0xF8, 0x69, 0x18] rfl (by decide)

/-! ### FRAME: `write` -/

/-- `MemSink<u64>::write_to_byte_slice(dest)` on a sink holding the ideal bit string of `ops`: the big-endian bytes
of its 64-bit words overwrite a prefix of `dest` (as many as fit). -/
def wordExport (ops : List Op) (old : List Nat) : List Nat :=
  let b := packBytes (idealRun 0 ops)
  let wb := b ++ List.replicate ((8 - b.length % 8) % 8) 0
  wb.take old.length ++ old.drop wb.length

def idealLen (ops : List Op) : Nat := (idealRun 0 ops).length

theorem packBytes_len (b : Bits) (h : 8 ∣ b.length) : (packBytes b).length = b.length / 8 := by
  have := congrArg List.length (OpsL.bytesToBits_packBytes b h)
  rw [Count.bytesToBits_length] at this
  omega

theorem idealRun_subframes (l : List SubFrame) (hs : ∀ s ∈ l, s.WF) (len : Nat) :
    idealRun len (l.flatMap SubFrame.ops) = l.flatMap SubFrame.bits := by
  induction l generalizing len with
  | nil => rfl
  | cons s ss ih =>
    simp only [List.flatMap_cons]
    rw [idealRun_append, OpsL.subframe_ops s (hs s (by simp)) len, ih (fun t ht => hs t (by simp [ht]))]

theorem C08G_frame_ops (p8 p16 : CrcParams) (g : Gen.Writer.Frame) (stale : List Nat) (ex : Nat → Bool)
    (hp : g.precomputed_bitstream = none) (hc : ChanOk g.header.channel_assignment) (hs : ∀ s ∈ g.subframes, s.WF) :
    Gen.Writer.Frame.write stale encodeUtf8like ex scratchBytes (crc p8) idealLen wordExport (crc p16) g =
      Frame.ops p8 p16 (frameOfGen g) := by
  unfold Gen.Writer.Frame.write Frame.ops
  simp only [hp, frameOfGen, C08G_header_ops p8 g.header ex hc]
  rw [forW_some g.subframes _ SubFrame.ops (fun s hm => C08G_subframe_ops s (subOk_of_WF s (hs s hm)))]
  cases ho : (hdrOfGen g.header).ops p8 with
  | none =>
    have : (hdrOfGen g.header).bits p8 = none := by
      unfold FrameHeader.ops at ho; unfold FrameHeader.bits
      cases hb : (hdrOfGen g.header).bodyBits with
      | none => rfl
      | some b => simp [hb] at ho
    simp [this, bindW]
  | some hops =>
    obtain ⟨hb, hbits, ⟨h8, hrun⟩⟩ := OpsL.header_aligned p8 _ hops ho
    simp only [hbits, seqW_some, emit_some, bindW, Option.bind_eq_bind, Option.bind_some, List.append_nil]
    have hS : idealRun 0 (hops ++ (g.subframes.flatMap SubFrame.ops ++ [Op.alignToByte])) =
        Frame.padTo8 (hb ++ g.subframes.flatMap SubFrame.bits) := by
      rw [idealRun_append, hrun 0 rfl, idealRun_append, idealRun_subframes _ hs]
      simp [idealRun, Op.ideal, Frame.padTo8]
    have hd := OpsL.padTo8_dvd (hb ++ g.subframes.flatMap SubFrame.bits)
    generalize Frame.padTo8 (hb ++ g.subframes.flatMap SubFrame.bits) = body at hS hd
    have hlen := packBytes_len body hd
    have hrs : (vecResize stale (idealLen (hops ++ (g.subframes.flatMap SubFrame.ops ++ [Op.alignToByte])) >>> 3) 0).length =
        (packBytes body).length := by
      simp [vecResize, idealLen, hS, hlen, Nat.shiftRight_eq_div_pow]; omega
    have hw : wordExport (hops ++ (g.subframes.flatMap SubFrame.ops ++ [Op.alignToByte]))
        (vecResize stale (idealLen (hops ++ (g.subframes.flatMap SubFrame.ops ++ [Op.alignToByte])) >>> 3) 0) = packBytes body := by
      simp only [wordExport, hS, hrs]
      rw [List.take_append_of_le_length (Nat.le_refl _), List.take_length, List.drop_eq_nil_of_le (by simp [hrs])]
      simp
    simp only [hw, crc, OpsL.bytesToBits_packBytes body hd]
    rfl

example (stale : List Nat) : Gen.Writer.Frame.write stale encodeUtf8like (fun _ => true) scratchBytes (crc rfcCrc8) idealLen wordExport
    (crc rfcCrc16) exFrame = Frame.ops rfcCrc8 rfcCrc16 (frameOfGen exFrame) :=
  C08G_frame_ops rfcCrc8 rfcCrc16 exFrame stale _ rfl trivial (by decide)

/-- `Frame::write` with a precomputed bitstream forwards exactly these bytes; when they are the packed bits of the
frame (what `precompute_bitstream` stores) this is the hand-written `Frame.opsPrecomputed`. -/
theorem C08G_frame_ops_precomputed (p8 p16 : CrcParams) (g : Gen.Writer.Frame) (stale : List Nat) (ex : Nat → Bool)
    (bytes : List Nat) (hp : g.precomputed_bitstream = some bytes) :
    Gen.Writer.Frame.write stale encodeUtf8like ex scratchBytes (crc p8) idealLen wordExport (crc p16) g =
      some [.writeBytesAligned bytes] ∧
    ∀ b, (frameOfGen g).bits p8 p16 = some b → bytes = packBytes b →
      Frame.opsPrecomputed p8 p16 (frameOfGen g) = some [.writeBytesAligned bytes] := by
  refine ⟨by unfold Gen.Writer.Frame.write; simp [hp], fun b hb he => ?_⟩
  simp [Frame.opsPrecomputed, hb, he]

example : Gen.Writer.Frame.write [] encodeUtf8like (fun _ => true) scratchBytes (crc rfcCrc8) idealLen wordExport (crc rfcCrc16)
    { exFrame with precomputed_bitstream := some [0xFF, 0xF8, 0x69, 0x18] } = some [.writeBytesAligned [0xFF, 0xF8, 0x69, 0x18]] :=
  (C08G_frame_ops_precomputed rfcCrc8 rfcCrc16 _ [] _ _ rfl).1

/-! ### STREAM -/

/-- The Rust-side value of a model stream: the STREAMINFO block first (last iff there is no other block), then
the unknown blocks with `is_last` set on the final one — the invariant `Stream::add_metadata_block` maintains. -/
def streamToGen (s : Stream) (gfs : List Gen.Writer.Frame) : Gen.Writer.Stream where
  stream_info := ⟨decide (s.metadata.length = 0), .StreamInfo s.info⟩
  metadata := (List.range s.metadata.length).map fun i =>
    let m := s.metadata.getD i ⟨0, []⟩
    ⟨decide (i + 1 = s.metadata.length), .Unknown m.tag m.data⟩
  frames := gfs

theorem forW_frames (p8 p16 : CrcParams) (fw : Gen.Writer.Frame → W) (gfs : List Gen.Writer.Frame) (fs : List Frame)
    (hf : Rel2 (fun g f => fw g = Frame.ops p8 p16 f) gfs fs) :
    forW gfs fw = (fs.mapM (Frame.ops p8 p16)).map List.flatten := by
  induction hf with
  | nil => rfl
  | @cons g f gs fs' hgf _ ih =>
    rw [forW, hgf, ih, List.mapM_cons]
    cases Frame.ops p8 p16 f with
    | none => simp
    | some o =>
      cases List.mapM (Frame.ops p8 p16) fs' with
      | none => simp
      | some os => simp

theorem rel2_map {α β : Type} (R : α → β → Prop) (f : α → β) (l : List α) (h : ∀ a ∈ l, R a (f a)) : Rel2 R l (l.map f) := by
  induction l with
  | nil => exact Rel2.nil
  | cons a as ih => exact Rel2.cons (h a (by simp)) (ih (fun b hb => h b (by simp [hb])))

/-- What `C08G_frame_ops` needs of a Rust-side frame. -/
def FrameOk (g : Gen.Writer.Frame) : Prop :=
  g.precomputed_bitstream = none ∧ ChanOk g.header.channel_assignment ∧ ∀ sf ∈ g.subframes, sf.WF

/-- `Stream::write`: the marker `fLaC`, the STREAMINFO block, the other metadata blocks, the frames. -/
theorem C08G_stream_ops (p8 p16 : CrcParams) (s : Stream) (gfs : List Gen.Writer.Frame) (stale : List Nat) (ex : Nat → Bool)
    (hf : gfs.map frameOfGen = s.frames) (hg : ∀ g ∈ gfs, FrameOk g)
    (ht : s.info.total < 2 ^ 64) (htag : ∀ m ∈ s.metadata, m.tag < 128) :
    Gen.Writer.Stream.write stale encodeUtf8like ex scratchBytes (crc p8) idealLen wordExport (crc p16) (streamToGen s gfs) =
      s.ops p8 p16 := by
  have hrel : Rel2 (fun g f => Gen.Writer.Frame.write stale encodeUtf8like ex scratchBytes (crc p8) idealLen wordExport (crc p16) g =
      Frame.ops p8 p16 f) gfs s.frames := by
    rw [← hf]
    exact rel2_map _ _ _ (fun g hm => C08G_frame_ops p8 p16 g stale ex (hg g hm).1 (hg g hm).2.1 (hg g hm).2.2)
  unfold Gen.Writer.Stream.write Stream.ops
  simp only [streamToGen]
  rw [C08G_block_streaminfo_ops _ _ ht, forW_frames p8 p16 _ gfs s.frames hrel, forW_map,
    forW_some (List.range s.metadata.length) _ (fun i =>
      blockHeaderOps (decide (i + 1 = s.metadata.length)) (s.metadata.getD i ⟨0, []⟩).tag (s.metadata.getD i ⟨0, []⟩).data.length ++
        [Op.writeBytesAligned (s.metadata.getD i ⟨0, []⟩).data])]
  · cases List.mapM (Frame.ops p8 p16) s.frames with
    | none => simp
    | some os => simp
  · intro i hi
    apply C08G_block_unknown_ops
    have hi' : i < s.metadata.length := by simpa using hi
    have hm : s.metadata.getD i ⟨0, []⟩ ∈ s.metadata := by
      rw [List.getD_eq_getElem?_getD, List.getElem?_eq_getElem hi']; exact List.getElem_mem hi'
    have := htag _ hm
    split <;> omega

/-- A stream with STREAMINFO, two further metadata blocks and one frame. -/
def exStream : Stream := ⟨⟨4096, 4096, 1234, 14000, 44100, 2, 16, 441000, [1, 2, 3, 4, 5, 6, 7, 8, 9, 10, 11, 12, 13, 14, 15, 255]⟩, [⟨4, [0xAA, 0xBB, 0xCC]⟩, ⟨1, []⟩], [frameOfGen exFrame]⟩

example : Gen.Writer.Stream.write [9, 9, 9] encodeUtf8like (fun _ => true) scratchBytes (crc rfcCrc8) idealLen wordExport (crc rfcCrc16)
    (streamToGen exStream [exFrame]) = exStream.ops rfcCrc8 rfcCrc16 :=
  C08G_stream_ops rfcCrc8 rfcCrc16 exStream [exFrame] _ _ rfl
    (by intro g hg; simp at hg; subst hg; exact ⟨rfl, trivial, by decide⟩) (by decide) (by decide)
/-- The `is_last` flags of the Rust-side value: STREAMINFO not last, type-4 block not last, type-1 block last. -/
example : (streamToGen exStream [exFrame]).stream_info.is_last = false ∧
    (streamToGen exStream [exFrame]).metadata.map (·.is_last) = [false, true] := by decide

theorem mapM_frame_count (gfs : List Gen.Writer.Frame) (fs : List Frame) (cs : List Nat)
    (hf : Rel2 (fun g f => ∀ c, f.count = some c → Gen.Writer.Frame.count_bits g = c) gfs fs)
    (h : fs.mapM Frame.count = some cs) : gfs.map Gen.Writer.Frame.count_bits = cs := by
  induction hf generalizing cs with
  | nil => simp at h; simp [h]
  | @cons g f gs fs' hgf _ ih =>
    rw [List.mapM_cons] at h
    cases hx : f.count with
    | none => simp [hx] at h
    | some c =>
      cases hxs : fs'.mapM Frame.count with
      | none => simp [hx, hxs] at h
      | some cs' =>
        simp [hx, hxs] at h
        subst h
        simp [hgf c hx, ih cs' hxs]

/-- `Stream::count_bits`: 32 (marker) + the STREAMINFO block + every other block + every frame. -/
theorem C08G_stream_count (s : Stream) (gfs : List Gen.Writer.Frame) (c : Nat)
    (hf : Rel2 (fun g f => ∀ c, f.count = some c → Gen.Writer.Frame.count_bits g = c) gfs s.frames)
    (h : s.count = some c) : Gen.Writer.Stream.count_bits (streamToGen s gfs) = c := by
  unfold Stream.count at h
  cases hm : s.frames.mapM Frame.count with
  | none => simp [hm] at h
  | some cs =>
    simp [hm] at h
    unfold Gen.Writer.Stream.count_bits
    simp only [streamToGen, foldl_add_map, mapM_frame_count gfs s.frames cs hf hm, (C08G_block_count _ 0 [] s.info).2,
      List.map_map]
    have hmeta : (List.range s.metadata.length).map (Gen.Writer.MetadataBlock.count_bits ∘ fun i =>
        (⟨decide (i + 1 = s.metadata.length), .Unknown (s.metadata.getD i ⟨0, []⟩).tag (s.metadata.getD i ⟨0, []⟩).data⟩ : Gen.Writer.MetadataBlock)) =
        s.metadata.map (fun m => 32 + 8 * m.data.length) := by
      apply List.ext_getElem
      · simp
      · intro i h1 h2
        simp at h1 h2 ⊢
        simp [(C08G_block_count _ _ _ s.info).1, h1]
    rw [hmeta, ← h]

example : Gen.Writer.Stream.count_bits (streamToGen exStream [exFrame]) = 32 + (32 + 272) + (32 + 24) + 32 + 208 :=
  C08G_stream_count exStream [exFrame] _
    (Rel2.cons (fun c hc => C08G_frame_count exFrame c rfl (by decide) (by decide)
      (by intro s hs; simp [exFrame] at hs; rcases hs with rfl | rfl <;> simp [SubOrd])
      (by have : (frameOfGen exFrame).count = some 208 := by decide
          rw [this] at hc; cases hc; decide) hc) Rel2.nil)
    (by decide)

end FlacVerif.C08Gen

/-
NEGATIVE CONTROLS.  Each line: a source mutation applied to a copy of the crate, then `FV_REPO=<copy> python3
tools/translate.py` and `lake build FlacVerif.Theorems.C08Gen`.  BREAKS T = the build fails in T; FAIL-CLOSED = the
translator refuses to generate (part status `writer`); PASSES = regenerated file, all theorems still hold.

M01 width: StreamInfo sample_rate write_lsbs(.., 20) -> 24: BREAKS C08G_streaminfo_ops
M02 swap two adjacent writes in StreamInfo::write (channels / bits_per_sample): BREAKS C08G_streaminfo_ops, C08G_streaminfo_exact
M03 drop `- 1`: (self.channels() - 1) -> self.channels(): BREAKS C08G_streaminfo_ops, C08G_streaminfo_exact, an example
M04 StreamInfo::count_bits 272 -> 264: BREAKS C08G_streaminfo_count, C08G_block_streaminfo_ops, C08G_block_count
M05 write_twoc bits argument: Constant bits_per_sample() -> bits_per_sample() + 1: BREAKS C08G_constant_ops
M06 unary stop bit: 1u32 << rice_p -> 0u32 << rice_p: BREAKS C08G_residual_ops, an example
M07 Lpc::write: precision field before the warm-up samples: BREAKS C08G_lpc_ops
M08 block-header length field width 24 -> 16: BREAKS C08G_block_unknown_ops, C08G_block_streaminfo_ops
M09 Verbatim type byte 0x02 -> 0x03: BREAKS C08G_verbatim_ops
M10 Residual: remainder shift (32 - rice_p_plus_1) -> (31 - rice_p_plus_1): BREAKS C08G_residual_ops, an example, C08G_residual_exact
M11 Residual unroll loop: t0 += RESIDUAL_WRITE_UNROLL_N -> t0 += 3 (samples written twice): BREAKS C08G_residual_ops, an example, C08G_residual_exact
M12 Residual::count_bits: drop the warm-up correction of remainder_bits: BREAKS C08G_residual_count
M13 FixedLpc head byte: self.order() << 1 -> self.order() << 2: BREAKS C08G_fixed_ops
M14 MetadataBlock: is_last flag 0x80 -> 0x40: BREAKS C08G_block_unknown_ops, C08G_block_streaminfo_ops
M15 Stream::write: frames before the metadata blocks: BREAKS C08G_stream_ops
M16 Stream marker fLaC: 0x43 -> 0x63: BREAKS C08G_stream_ops
M17 FrameHeader::write: block-size tag << 4 -> << 3: BREAKS C08G_header_ops
M18 FrameHeader::write: sync word 0xFFF8 -> 0xFFF0: BREAKS C08G_header_ops
M19 FrameHeader::write: extra sample-rate field before extra block-size field: BREAKS C08G_header_ops
M20 FrameHeader::write: variable-blocking writes the frame number: BREAKS C08G_header_ops
M21 FrameHeader::count_bits: 40 -> 48: BREAKS C08G_header_count
M22 Frame::write: CRC-16 written before the frame bytes: BREAKS C08G_frame_ops
M23 Frame::write: no align_to_byte before exporting the scratch sink: BREAKS C08G_frame_ops
M24 Frame::count_bits: footer 16 -> 8: BREAKS C08G_frame_count
M25 FrameHeader::write: scratch sink not cleared: FAIL-CLOSED: translator cannot read bitrepr.rs: fn FrameHeader.write: reuse!: the closure does not start with `header_buffer.clear();`
M26 datatype.rs accessor: Residual::block_size returns block_size + 1: FAIL-CLOSED: translator cannot read bitrepr.rs: fn Residual.count_bits: datatype.rs: body of the accessor Residual::block_size is `self.block_size+1`, the accessor table was written for `self.block_size`
M27 datatype.rs: rice_params() -> &[u16] (operand type of the parameter write): BREAKS C08G_residual_ops, an example, C08G_residual_exact
M28 repeat.rs: try_repeat! passes the condition negated: FAIL-CLOSED: translator cannot read repeat.rs: the definition of `try_repeat!` changed (fingerprint d60bbde08d772e09, the translator's reading was written for 55d0251f2aff10e0)
H1 harmless: local `let` for an expression (StreamInfo sample rate): PASSES (translator ok, all theorems hold)
H2 harmless: reorder two independent `let`s (Residual::write nparts / part_len): PASSES (translator ok, all theorems hold)
H3 harmless: Verbatim::write iterates `for v in self.samples()` instead of indexing: BREAKS C08G_verbatim_ops, C08G_verbatim_fixed_exact, an example
H4 harmless: unroll factor RESIDUAL_WRITE_UNROLL_N 4 -> 8: PASSES (translator ok, all theorems hold)
H5 harmless?: Stream::write frames loop written with an iterator adaptor (.iter().try_for_each): FAIL-CLOSED: translator cannot read bitrepr.rs: fn Stream.write: `?` applied to something that is neither a sink operation, a component write nor try_repeat!

F1 unreadable: #[cfg(feature = "x")] on a statement of StreamInfo::write: FAIL-CLOSED: translator cannot read bitrepr.rs: fn StreamInfo.write: attribute #[cfg..] inside a function body (near `:: from_sink ) ? ; # [ cfg ( feature =`)
F2 unreadable: result of a sink write ignored (no `?`): FAIL-CLOSED: translator cannot read bitrepr.rs: fn Verbatim.write: unknown name `dest`
F3 unreadable: new accessor not in the table (self.residual().rice_parameter(0)): FAIL-CLOSED: translator cannot read bitrepr.rs: fn FixedLpc.count_bits: Residual::rice_parameter: an accessor takes only `&self`
F4 unreadable: `while` with a `break`: FAIL-CLOSED: translator cannot read bitrepr.rs: fn Residual.write: `break` in expression position (near `if p > 100 { break ; } p += 1`)
F5 unreadable: a thirteenth impl of BitRepr: FAIL-CLOSED: translator cannot read bitrepr.rs: the types implementing BitRepr are ['ChannelAssignment', 'Constant', 'FixedLpc', 'Frame', 'FrameHeader', 'Lpc', 'MetadataBlock', 'MetadataBlockData', 'Residual', 'Stream', 'StreamInfo', 'SubFrame', 'Verbatim', 'u8'], expected ['ChannelAssignment', 'Constant', 'FixedLpc', 'Frame', 'FrameHeader', 'Lpc', 'MetadataBlock', 'MetadataBlockData', 'Residual', 'Stream', 'StreamInfo', 'SubFrame', 'Verbatim']
F6 Frame::write: the scratch sink is written again after its content was forwarded: FAIL-CLOSED: translator cannot read bitrepr.rs: fn Frame.write: reuse!: `frame_sink` is written after its content was forwarded to `dest`
F7 lib.rs: reuse! hands out a clone instead of the stored value: FAIL-CLOSED: translator cannot read lib.rs: the definition of `reuse!` changed (fingerprint 468c34e4a3d81fdf, the translator's reading was written for ef7a5ff5070a9c6e)
F8 datatype.rs: FrameHeader fields frame_number / start_sample_number exchanged: BREAKS an example, an example, an example
F9 datatype.rs: Frame::subframes() returns the header's ... (non-trivial accessor body): FAIL-CLOSED: translator cannot read bitrepr.rs: fn Frame.count_bits: datatype.rs: accessor Frame::subframes is not of the form `&self.field`: `&self.subframes[1..]`


H3 is a false alarm, not a missed bug: the statements stay true for the iterator form, but the proof scripts name the
index loop and have to be adapted.  F8 (field order of a struct) only affects the anonymous-constructor examples.
-/
