/-
C16 — the repository's own parser never panics (totality of the mirror).

Property theorems only; the safety calculus and the per-function lemmas are in
`FlacVerif/Lemmas/RepoSat.lean`.  The mirror `FlacVerif/Model/RepoParser.lean` keeps a `panic site`
branch at every `expect`/`unwrap`/`assert!`/`debug_assert!`/index/checked-arithmetic step of
`parser.rs` and of the `datatype.rs`/`verify.rs` helpers it calls (DEBUG build semantics); the
theorems below say that none of these branches is reachable, for every input.
-/
import FlacVerif.Lemmas.RepoSat
namespace FlacVerif
open Repo Repo.PResult

/-- `parser::stream` never panics, whatever the bytes are. (`hb` is not needed: the mirror reads the
low 8 bits of every list element.) -/
theorem C16_total (bytes : List Nat) (_hb : ∀ b ∈ bytes, b < 256) :
    ∀ site, Repo.parseStream bytes ≠ .panic site :=
  (stream_sat (bytesToBits bytes)).noPanic

/-- `parser::frame(info, check_crc)` never panics when the STREAMINFO it is given has a
bits-per-sample value in `1..=24` (every STREAMINFO accepted by `parser::stream_info` has one in
`{8,12,16,20,24}`); no condition on the channel count, the block sizes or the bytes. -/
theorem C16_total_frame (info : StreamInfo) (checkCrc : Bool) (bytes : List Nat)
    (h1 : 1 ≤ info.bps) (h2 : info.bps ≤ 24) :
    ∀ site, Repo.parseFrame info checkCrc bytes ≠ .panic site := by
  intro site
  unfold parseFrame
  have h := (frame_sat info checkCrc h1 h2 (bytesToBits bytes)).noPanic
  revert h
  cases frame info checkCrc (bytesToBits bytes) with
  | ok v => intro _ hc; cases hc
  | error e => intro _ hc; cases hc
  | panic s => intro h hc; exact h s rfl

/-- `parser::subframe(block_size, bits_per_sample)` never panics for `1 ≤ bits_per_sample ≤ 25`
(what `frame` supplies: the STREAMINFO value plus one for a side channel) and a block size below
`2^32` (`frame` supplies at most 65536). -/
theorem C16_total_subframe (blockSize bps : Nat) (i : Bits)
    (hbs : blockSize < 2 ^ 32) (h1 : 1 ≤ bps) (h2 : bps ≤ 25) :
    ∀ site, Repo.parseSubframe blockSize bps i ≠ .panic site :=
  (subframe_sat blockSize bps hbs h1 h2 i).noPanic

/-- `parser::residual(block_size, warmup_length)` never panics for a block size below `2^32` and any
warm-up length. -/
theorem C16_total_residual (blockSize warmup : Nat) (i : Bits) (hbs : blockSize < 2 ^ 32) :
    ∀ site, Repo.parseResidual blockSize warmup i ≠ .panic site :=
  (residual_sat blockSize warmup hbs i).noPanic

/-- What `parser::stream_info` lets through: the precondition of `C16_total_frame` holds for the
STREAMINFO of every accepted stream. -/
theorem C16_streaminfo_range (i : Bits) (info : StreamInfo) (rest : Bits)
    (h : Repo.streamInfo i = .ok (info, rest)) : 1 ≤ info.bps ∧ info.bps ≤ 24 := by
  have := streamInfo_sat i
  rw [h] at this
  exact this

/-! ### the panic branches are real: outside the stated ranges the mirror does panic -/

/-- `bits_per_sample = 26` trips the `debug_assert!` of `subframe`. -/
example : (Repo.parseSubframe 1 26 (natToBits 8 0 ++ natToBits 26 0)).isPanic = true := by decide

/-- `bits_per_sample = 0` underflows `bits - 1` in `u_to_i`. -/
example : (Repo.parseSubframe 1 0 (natToBits 8 0)).isPanic = true := by decide

/-- `u_to_i(x, 32)` on a negative 32-bit sample: `1u32 << 32`. -/
example : (Repo.uToI (2 ^ 31) 32).isPanic = true := by decide

/-- `u_to_i(x, 31)` on a negative 31-bit sample: `x - i32::MIN` overflows. -/
example : (Repo.uToI (2 ^ 30) 31).isPanic = true := by decide

/-- A reserved block-size spec (never produced by the parser) makes `FrameHeader::block_size` panic. -/
example : (Repo.headerBlockSize ⟨false, .reserved, .independent 1, 4, .fixed 9, 0, 0⟩).isPanic = true := by decide

/-! ### findings: the DECODER panics on frames that the parser accepts

`Repo.frameAcceptedDecoderPanics debug info bytes` = "`parser::frame(info, true)` accepts `bytes` as
exactly one frame (both CRCs are correct) and `Decode::decode` of the accepted frame panics".  All
four witnesses were replayed on the real crate (`outcome = q`, debug and release builds for the
first three, debug only for the last). -/

private def monoInfo (blockSize : Nat) : StreamInfo :=
  { minBlock := blockSize, maxBlock := blockSize, minFrame := 0, maxFrame := 0, rate := 44100, channels := 1,
    bps := 16, total := blockSize, md5 := List.replicate 16 0 }

set_option maxRecDepth 100000 in
/-- Fixed predictor of order 4 in a block of 2 samples: `decode_lpc` writes `dest[t] = warm_up[t]`
past the end of the block (`decode.rs:145`). -/
theorem C16_decoder_panic_warmup_exceeds_block :
    Repo.frameAcceptedDecoderPanics true (monoInfo 2)
      [0xff,0xf8,0x69,0x08,0x00,0x01,0x1a,0x18,0x00,0x01,0x00,0x01,0x00,0x01,0x00,0x01,0x00,0x00,0xe1,0x69] = true ∧
    Repo.frameAcceptedDecoderPanics false (monoInfo 2)
      [0xff,0xf8,0x69,0x08,0x00,0x01,0x1a,0x18,0x00,0x01,0x00,0x01,0x00,0x01,0x00,0x01,0x00,0x00,0xe1,0x69] = true := by
  decide

set_option maxRecDepth 100000 in
/-- Partition order 5 in a block of 16 samples: 32 Rice parameters and no residual are parsed, then
`assert!(part_len > 0)` fails (`decode.rs:207`). -/
theorem C16_decoder_panic_partition_longer_than_block :
    Repo.frameAcceptedDecoderPanics true (monoInfo 16)
      [0xff,0xf8,0x69,0x08,0x00,0x0f,0x30,0x10,0x14,0xcc,0xcc,0xcc,0xcc,0xcc,0xcc,0xcc,0xcc,0xcc,0xcc,0xcc,0xcc,
       0xcc,0xcc,0xcc,0xcc,0x02,0x18] = true ∧
    Repo.frameAcceptedDecoderPanics false (monoInfo 16)
      [0xff,0xf8,0x69,0x08,0x00,0x0f,0x30,0x10,0x14,0xcc,0xcc,0xcc,0xcc,0xcc,0xcc,0xcc,0xcc,0xcc,0xcc,0xcc,0xcc,
       0xcc,0xcc,0xcc,0xcc,0x02,0x18] = true := by
  decide

set_option maxRecDepth 100000 in
/-- Four partitions in a block of 10 samples: only 8 quotients are parsed, `self.quotients()[8]` is out
of range (`decode.rs:211`). -/
theorem C16_decoder_panic_partitions_do_not_divide_block :
    Repo.frameAcceptedDecoderPanics true (monoInfo 10)
      [0xff,0xf8,0x69,0x08,0x00,0x09,0x22,0x10,0x08,0x30,0xc3,0x0c,0x4f,0x13] = true ∧
    Repo.frameAcceptedDecoderPanics false (monoInfo 10)
      [0xff,0xf8,0x69,0x08,0x00,0x09,0x22,0x10,0x08,0x30,0xc3,0x0c,0x4f,0x13] = true := by
  decide

set_option maxRecDepth 100000 in
/-- 5-bit Rice parameter 31, quotient 1, remainder `2^31 - 1`: the folded value is `u32::MAX` and
`decode_signbit` negates `i32::MIN` (`rice.rs:161`); a debug-build panic, the release build wraps. -/
theorem C16_decoder_panic_signbit_overflow :
    Repo.frameAcceptedDecoderPanics true (monoInfo 1)
      [0xff,0xf8,0x69,0x08,0x00,0x00,0x1d,0x10,0x43,0xef,0xff,0xff,0xff,0xf0,0xb4,0x3b] = true ∧
    Repo.frameAcceptedDecoderPanics false (monoInfo 1)
      [0xff,0xf8,0x69,0x08,0x00,0x00,0x1d,0x10,0x43,0xef,0xff,0xff,0xff,0xf0,0xb4,0x3b] = false := by
  decide

end FlacVerif
