/-
C07 — "Configuration verification accepts a configuration if and only if every field at every
nesting level lies in its documented range (block size 32..=32767, fixed max order <= 4,
entropy-estimator partitions 1..=64, LPC order 1..=24, coefficient precision 1..=15, Rice max
parameter <= 14, Tukey alpha within [0,1] and not NaN, experimental options only when compiled in)."

`Encoder.verify` & co. are the mechanical translation of the `impl Verify` blocks of
`src/config.rs` (`Gen/Config.lean`, numeric constants from `src/constant.rs` in
`Gen/Constants.lean`).  The specification `InRange` below is written by hand from the sentence above
with literal numbers; it mentions neither `verify` nor the `Const.*` definitions.
`alpha` is an `f32` given by its IEEE-754 bit pattern; `F32.inRange` (`Model/TVal.lean`) is the IEEE
comparison `0.0 <= alpha && alpha <= 1.0` on bit patterns.
-/
import FlacVerif.Lemmas.Config
namespace FlacVerif
open Gen ConfigL

/-- An f32 bit pattern denoting a number in `[0,1]` (so not a NaN): `+0.0 … 1.0`
(`0x00000000 … 0x3F800000`; for non-negative floats the bit pattern is monotone in the value), or
`-0.0` (`0x80000000`, which IEEE compares equal to `+0.0`). -/
def AlphaOk (bits : Nat) : Prop := bits ≤ 0x3F800000 ∨ bits = 0x80000000

/-- The documented ranges, every nesting level, literal numbers. -/
def InRange (exp : Bool) (c : Encoder) : Prop :=
  32 ≤ c.block_size ∧ c.block_size ≤ 32767 ∧ c.subframe_coding.fixed.max_order ≤ 4 ∧
  (match c.subframe_coding.fixed.order_sel with
    | .BitCount => True | .ApproxEnt p => 1 ≤ p ∧ p ≤ 64) ∧
  1 ≤ c.subframe_coding.qlpc.lpc_order ∧ c.subframe_coding.qlpc.lpc_order ≤ 24 ∧
  1 ≤ c.subframe_coding.qlpc.quant_precision ∧ c.subframe_coding.qlpc.quant_precision ≤ 15 ∧
  (exp = false → c.subframe_coding.qlpc.use_direct_mse = false ∧
                 c.subframe_coding.qlpc.mae_optimization_steps = 0) ∧
  (match c.subframe_coding.qlpc.window with
    | .Rectangle => True | .Tukey a => a < 2^32 → AlphaOk a) ∧
  c.subframe_coding.prc.max_parameter ≤ 14

/-- The float lemma: on genuine f32 bit patterns, IEEE `0.0 <= a && a <= 1.0` holds exactly for the
patterns of `AlphaOk`. Proved from the bit-level definitions (sign bit, exponent, mantissa). -/
theorem C07_alpha (a : Nat) (ha : a < 2^32) :
    F32.inRange 0x00000000 0x3F800000 a = true ↔ AlphaOk a :=
  f32_inRange_unit a ha

/-- `AlphaOk` patterns are not NaN, and every NaN pattern is rejected. -/
theorem C07_alpha_not_nan (a : Nat) (h : AlphaOk a) : F32.isNaN a = false := by
  unfold AlphaOk at h
  unfold F32.isNaN
  simp only [Bool.and_eq_false_imp, beq_iff_eq, bne_eq_false_iff_eq, Nat.reducePow]
  omega

theorem C07_nan_rejected (exp : Bool) (a : Nat) (h : F32.isNaN a = true) :
    Window.verify exp (.Tukey a) = false := by
  simp [Window.verify, F32.inRange, F32.le, h]

/-- Verification accepts exactly the configurations in the documented ranges. -/
theorem C07_exact (exp : Bool) (c : Encoder)
    (hbits : match c.subframe_coding.qlpc.window with | .Rectangle => True | .Tukey a => a < 2^32) :
    Encoder.verify exp c = true ↔ InRange exp c := by
  have hw : Window.verify exp c.subframe_coding.qlpc.window = true ↔
      (match c.subframe_coding.qlpc.window with
        | .Rectangle => True | .Tukey a => a < 2^32 → AlphaOk a) := by
    rw [window_verify_iff]
    cases hwin : c.subframe_coding.qlpc.window with
    | Rectangle => simp
    | Tukey a =>
      rw [hwin] at hbits; simp only at hbits ⊢; rw [C07_alpha a hbits]; simp [hbits]
  rw [encoder_verify_iff, subframe_verify_iff, fixed_verify_iff, qlpc_verify_iff, prc_verify_iff,
    orderSel_verify_iff, hw]
  simp only [InRange, and_assoc]
  exact Iff.rfl

/-- Rejection, spelled out: a configuration is rejected iff some clause is violated. -/
theorem C07_rejects (exp : Bool) (c : Encoder)
    (hbits : match c.subframe_coding.qlpc.window with | .Rectangle => True | .Tukey a => a < 2^32) :
    Encoder.verify exp c = false ↔ ¬ InRange exp c := by
  rw [← C07_exact exp c hbits]; simp

/-- The default configuration verifies, whatever the feature set. -/
theorem C07_default_verifies (par exp : Bool) :
    Encoder.verify exp (Encoder.default par) = true := by
  cases par <;> cases exp <;> decide

/-- The preconditions the integer consumers of the configuration rely on (non-zero partition count,
fixed order table of 5 entries, non-zero precision, LPC order within the 24-entry FLAC limit, Rice
parameter within 4 bits and below the escape code, a block of at least 32 samples). -/
theorem C07_consumers (exp : Bool) (c : Encoder) (h : Encoder.verify exp c = true) :
    (match c.subframe_coding.fixed.order_sel with | .ApproxEnt p => p ≠ 0 | _ => True) ∧
    c.subframe_coding.fixed.max_order + 1 ≤ 5 ∧
    1 ≤ c.subframe_coding.qlpc.quant_precision ∧ c.subframe_coding.qlpc.lpc_order ≤ 24 ∧
    c.subframe_coding.prc.max_parameter < 16 ∧ 32 ≤ c.block_size := by
  rw [encoder_verify_iff, subframe_verify_iff, fixed_verify_iff, qlpc_verify_iff, prc_verify_iff,
    orderSel_verify_iff] at h
  obtain ⟨h1, _, ⟨h3, h4⟩, ⟨_, h6, h7, _, _, _⟩, h11⟩ := h
  refine ⟨?_, by omega, h7, h6, by omega, h1⟩
  cases hos : c.subframe_coding.fixed.order_sel with
  | BitCount => trivial
  | ApproxEnt p => rw [hos] at h4; simp only at h4 ⊢; omega

/-! ### Non-vacuity: the default is accepted, one configuration per violated clause is rejected -/

section Examples

private def dflt : Encoder := Encoder.default true
private def withSub (f : SubFrameCoding → SubFrameCoding) : Encoder :=
  { dflt with subframe_coding := f dflt.subframe_coding }
private def withAlpha (a : Nat) : Encoder :=
  withSub fun s => { s with qlpc := { s.qlpc with window := .Tukey a } }

example : Encoder.verify false dflt = true := by decide
example : Encoder.verify true (Encoder.default false) = true := by decide
example : InRange false dflt := by
  simp [InRange, dflt, Encoder.default, SubFrameCoding.default, Fixed.default, OrderSel.default,
    Qlpc.default, Window.default, Prc.default, AlphaOk, Const.DEFAULT_BLOCK_SIZE,
    Const.fixed_MAX_LPC_ORDER, Const.DEFAULT_ENTROPY_ESTIMATOR_PARTITIONS, Const.qlpc_DEFAULT_ORDER,
    Const.qlpc_DEFAULT_PRECISION, Const.qlpc_DEFAULT_TUKEY_ALPHA_bits,
    Const.rice_MAX_RICE_PARAMETER]
-- block size
example : Encoder.verify false { dflt with block_size := 31 } = false := by decide
example : Encoder.verify false { dflt with block_size := 32 } = true := by decide
example : Encoder.verify false { dflt with block_size := 32767 } = true := by decide
example : Encoder.verify false { dflt with block_size := 32768 } = false := by decide
-- fixed max order
example : Encoder.verify false
    (withSub fun s => { s with fixed := { s.fixed with max_order := 5 } }) = false := by decide
example : Encoder.verify false
    (withSub fun s => { s with fixed := { s.fixed with max_order := 0 } }) = true := by decide
-- entropy-estimator partitions
example : Encoder.verify false
    (withSub fun s => { s with fixed := { s.fixed with order_sel := .ApproxEnt 0 } }) = false := by
  decide
example : Encoder.verify false
    (withSub fun s => { s with fixed := { s.fixed with order_sel := .ApproxEnt 65 } }) = false := by
  decide
example : Encoder.verify false
    (withSub fun s => { s with fixed := { s.fixed with order_sel := .ApproxEnt 64 } }) = true := by
  decide
example : Encoder.verify false
    (withSub fun s => { s with fixed := { s.fixed with order_sel := .BitCount } }) = true := by
  decide
-- LPC order
example : Encoder.verify false
    (withSub fun s => { s with qlpc := { s.qlpc with lpc_order := 0 } }) = false := by decide
example : Encoder.verify false
    (withSub fun s => { s with qlpc := { s.qlpc with lpc_order := 25 } }) = false := by decide
example : Encoder.verify false
    (withSub fun s => { s with qlpc := { s.qlpc with lpc_order := 24 } }) = true := by decide
-- coefficient precision
example : Encoder.verify false
    (withSub fun s => { s with qlpc := { s.qlpc with quant_precision := 0 } }) = false := by decide
example : Encoder.verify false
    (withSub fun s => { s with qlpc := { s.qlpc with quant_precision := 16 } }) = false := by decide
-- Rice max parameter
example : Encoder.verify false (withSub fun s => { s with prc := ⟨15⟩ }) = false := by decide
example : Encoder.verify false (withSub fun s => { s with prc := ⟨0⟩ }) = true := by decide
-- experimental options only when compiled in
example : Encoder.verify false
    (withSub fun s => { s with qlpc := { s.qlpc with use_direct_mse := true } }) = false := by decide
example : Encoder.verify true
    (withSub fun s => { s with qlpc := { s.qlpc with use_direct_mse := true } }) = true := by decide
example : Encoder.verify false
    (withSub fun s => { s with qlpc := { s.qlpc with mae_optimization_steps := 1 } }) = false := by
  decide
example : Encoder.verify true
    (withSub fun s => { s with qlpc := { s.qlpc with mae_optimization_steps := 1 } }) = true := by
  decide
-- Tukey alpha
example : Encoder.verify false (withAlpha 0x3F800001) = false := by decide   -- just above 1.0
example : Encoder.verify false (withAlpha 0x7FC00000) = false := by decide   -- quiet NaN
example : Encoder.verify false (withAlpha 0x7F800001) = false := by decide   -- signalling NaN
example : Encoder.verify false (withAlpha 0xFFC00000) = false := by decide   -- negative NaN
example : Encoder.verify false (withAlpha 0x7F800000) = false := by decide   -- +inf
example : Encoder.verify false (withAlpha 0xBF800000) = false := by decide   -- -1.0
example : Encoder.verify false (withAlpha 0x80000001) = false := by decide   -- smallest negative
example : Encoder.verify false (withAlpha 0x80000000) = true := by decide    -- -0.0 accepted
example : Encoder.verify false (withAlpha 0x00000000) = true := by decide    -- +0.0
example : Encoder.verify false (withAlpha 0x3F800000) = true := by decide    -- 1.0
example : Encoder.verify false (withAlpha 0x00000001) = true := by decide    -- smallest subnormal
example : Encoder.verify false
    (withSub fun s => { s with qlpc := { s.qlpc with window := .Rectangle } }) = true := by decide

end Examples

end FlacVerif
