/-
C13 — The partitioned-Rice parameter search is cost-optimal.

Property theorems only; helper lemmas live in `FlacVerif/Lemmas/RiceSearch{,Loop,Opt}.lean`.
The model `search` / `searchFolded` mirrors `src/rice.rs` with its `u32` arithmetic and the
saturation at `maxPToBits = 2^28 - 1` (`FlacVerif/Model/Rice.lean`); `none` is a panic of the
Rust code. The specification side is `partCost` / `partErrors` / `choiceCost` / `orderOk`.

The optimality statement needs the true optimum to be **strictly below** the saturation value
`2^28 - 1`: at exactly `2^28 - 1` the search can return a parameter whose true cost is far larger
(`C13_saturation_edge_counterexample`), because a saturated table entry and an entry that is
exactly `2^28 - 1` are indistinguishable and `minimizer` breaks the tie by the smaller index.
-/
import FlacVerif.Lemmas.RiceSearchOpt
namespace FlacVerif
open RiceSearch

/-- The search never hits a panic site. -/
theorem C13_total (signal : List Int) (warm maxP : Nat)
    (hsig : ∀ v ∈ signal, -(2 ^ 31 : Int) < v ∧ v < (2 ^ 31 : Int))
    (hn : max 64 warm ≤ signal.length) (hlen : signal.length < 2 ^ 16) :
    (search signal warm maxP).isSome = true := by
  rw [search_eq signal warm maxP hsig]
  obtain ⟨_, r, hr, _⟩ := searchFolded_spec (signal.map fold) warm maxP
    (by rw [List.length_map]; exact hn) (by rw [List.length_map]; exact hlen)
  rw [hr]; rfl

/-- The returned choice lies in the search space, and no other choice of the space is cheaper,
whenever the optimum is below the saturation value `2^28 - 1`; the reported `codeBits` is then the
true cost of the returned choice. -/
theorem C13_optimal (signal : List Int) (warm maxP : Nat) (hmax : maxP ≤ 14)
    (hsig : ∀ v ∈ signal, -(2 ^ 31 : Int) < v ∧ v < (2 ^ 31 : Int))
    (hn : max 64 warm ≤ signal.length) (hlen : signal.length < 2 ^ 16)
    (r : PrcParameter) (hr : search signal warm maxP = some r) :
    let es := signal.map fold
    -- the choice lies in the search space
    orderOk es.length warm r.order = true ∧ r.ps.length = 2 ^ r.order ∧ (∀ p ∈ r.ps, p ≤ maxP) ∧
    -- and no other choice of the space is cheaper, whenever the optimum is below 2^28 - 1
    (∀ o ps, orderOk es.length warm o = true → ps.length = 2 ^ o → (∀ p ∈ ps, p ≤ maxP) →
        choiceCost es warm o ps < 2 ^ 28 - 1 →
        choiceCost es warm r.order r.ps ≤ choiceCost es warm o ps ∧
        r.codeBits = choiceCost es warm r.order r.ps) := by
  intro es
  rw [search_eq signal warm maxP hsig] at hr
  obtain ⟨h1, h2, h3, h4, h5⟩ := searchFolded_optimal es warm maxP hmax
    (by simp only [es, List.length_map]; exact hn) (by simp only [es, List.length_map]; exact hlen) r hr
  refine ⟨h1, h2, h3, ?_⟩
  intro o ps hok _ hps hlt
  have hle := h4 o ps hok hps
  have heq := h5 (Or.inl (by omega))
  exact ⟨by omega, heq⟩

/-- The form the property takes for a residual the encoder actually *emits*: an emitted residual
was compared with the verbatim size first (C09), so the true cost of the returned choice is far
below the saturation value; then no other choice of the search space is cheaper. -/
theorem C13_emitted (signal : List Int) (warm maxP : Nat) (hmax : maxP ≤ 14)
    (hsig : ∀ v ∈ signal, -(2 ^ 31 : Int) < v ∧ v < (2 ^ 31 : Int))
    (hn : max 64 warm ≤ signal.length) (hlen : signal.length < 2 ^ 16)
    (r : PrcParameter) (hr : search signal warm maxP = some r)
    (hsmall : choiceCost (signal.map fold) warm r.order r.ps < 2 ^ 28 - 1) :
    ∀ o ps, orderOk (signal.map fold).length warm o = true → ps.length = 2 ^ o → (∀ p ∈ ps, p ≤ maxP) →
      choiceCost (signal.map fold) warm r.order r.ps ≤ choiceCost (signal.map fold) warm o ps := by
  intro o ps hok hl hps
  by_cases h : choiceCost (signal.map fold) warm o ps < 2 ^ 28 - 1
  · exact ((C13_optimal signal warm maxP hmax hsig hn hlen r hr).2.2.2 o ps hok hl hps h).1
  · omega

/-- Same conclusion at the saturation edge (optimum `= 2^28 - 1` allowed) when the returned order
is not 0: with at least two partitions no table entry of the winner can be saturated. -/
theorem C13_optimal_edge (signal : List Int) (warm maxP : Nat) (hmax : maxP ≤ 14)
    (hsig : ∀ v ∈ signal, -(2 ^ 31 : Int) < v ∧ v < (2 ^ 31 : Int))
    (hn : max 64 warm ≤ signal.length) (hlen : signal.length < 2 ^ 16)
    (r : PrcParameter) (hr : search signal warm maxP = some r) (hro : r.order ≠ 0) :
    let es := signal.map fold
    (∀ o ps, orderOk es.length warm o = true → ps.length = 2 ^ o → (∀ p ∈ ps, p ≤ maxP) →
        choiceCost es warm o ps < 2 ^ 28 →
        choiceCost es warm r.order r.ps ≤ choiceCost es warm o ps ∧
        r.codeBits = choiceCost es warm r.order r.ps) := by
  intro es
  rw [search_eq signal warm maxP hsig] at hr
  obtain ⟨_, _, _, h4, h5⟩ := searchFolded_optimal es warm maxP hmax
    (by simp only [es, List.length_map]; exact hn) (by simp only [es, List.length_map]; exact hlen) r hr
  intro o ps hok _ hps hlt
  have hle := h4 o ps hok hps
  have heq := h5 (Or.inr ⟨by omega, hro⟩)
  exact ⟨by omega, heq⟩

/-- Unconditionally (no bound on the optimum), the reported `codeBits` is a lower bound of the
true cost of every choice of the search space. -/
theorem C13_codeBits_lower_bound (signal : List Int) (warm maxP : Nat) (hmax : maxP ≤ 14)
    (hsig : ∀ v ∈ signal, -(2 ^ 31 : Int) < v ∧ v < (2 ^ 31 : Int))
    (hn : max 64 warm ≤ signal.length) (hlen : signal.length < 2 ^ 16)
    (r : PrcParameter) (hr : search signal warm maxP = some r) :
    let es := signal.map fold
    ∀ o ps, orderOk es.length warm o = true → (∀ p ∈ ps, p ≤ maxP) →
      r.codeBits ≤ choiceCost es warm o ps := by
  intro es
  rw [search_eq signal warm maxP hsig] at hr
  exact (searchFolded_optimal es warm maxP hmax
    (by simp only [es, List.length_map]; exact hn)
    (by simp only [es, List.length_map]; exact hlen) r hr).2.2.2.1

set_option maxRecDepth 100000 in
/-- The bound `< 2^28 - 1` in `C13_optimal` cannot be relaxed to `< 2^28` in general: here the
only admissible order is 0, the true optimum is exactly `2^28 - 1` (parameter 5), all six table
entries `p ≤ 5` are (or equal) the saturation value, `minimizer` returns index 0, and the true cost
of the returned choice is 8589922212. All hypotheses of `C13_optimal` hold for this input. -/
theorem C13_saturation_edge_counterexample :
    let signal : List Int := [2147483632, 2147477440] ++ List.replicate 62 0
    let es := signal.map fold
    (∀ v ∈ signal, -(2 ^ 31 : Int) < v ∧ v < (2 ^ 31 : Int)) ∧ max 64 0 ≤ signal.length ∧
    search signal 0 5 = some ⟨0, [0], 2 ^ 28 - 1⟩ ∧
    orderOk es.length 0 0 = true ∧ choiceCost es 0 0 [5] = 2 ^ 28 - 1 ∧
    choiceCost es 0 0 [0] = 8589922212 := by
  decide

/-! ### non-vacuity -/

/-- The hypotheses of `C13_optimal` / `C13_total` are satisfiable. -/
example : ∃ (signal : List Int) (warm maxP : Nat), maxP ≤ 14 ∧
    (∀ v ∈ signal, -(2 ^ 31 : Int) < v ∧ v < (2 ^ 31 : Int)) ∧
    max 64 warm ≤ signal.length ∧ signal.length < 2 ^ 16 :=
  ⟨List.replicate 128 3, 2, 14, by omega,
    fun v hv => by rw [List.eq_of_mem_replicate hv]; omega, by simp, by simp⟩

set_option maxRecDepth 100000 in
/-- … and so is the hypothesis of the optimality clause (order 0, parameter 2, cost 508). -/
example :
    let es := (List.replicate 128 (3 : Int)).map fold
    orderOk es.length 2 0 = true ∧ [2].length = 2 ^ 0 ∧ (∀ p ∈ [2], p ≤ 14) ∧
      choiceCost es 2 0 [2] < 2 ^ 28 - 1 := by
  decide

-- #eval search (List.replicate 128 3) 2 14
--   some { order := 0, ps := [2], codeBits := 508 }
-- #eval choiceCost ((List.replicate 128 (3 : Int)).map fold) 2 0 [2]
--   508

end FlacVerif
