/-
C02 — every emitted stream is well-formed FLAC (RFC 9639).
This file: the three finite header code spaces, as ∀-theorems relating the implementation's
coders (`BlockSizeSpec::from_size`, `SampleRateSpec::from_freq`, `SampleSizeSpec::from_bits`,
mirrored in `Model/Codes.lean`) to the RFC's decoding tables (`Model/Rfc.lean`).
-/
import FlacVerif.Model.Codes
import FlacVerif.Model.Rfc
namespace FlacVerif.C02
open FlacVerif

/-- Value written in the extra header bits of a block-size spec. -/
def bsExtra : BlockSizeSpec → Nat
  | .extraByte v => v | .extraTwoBytes v => v | _ => 0

def srExtra : SampleRateSpec → Nat
  | .kHz v => v | .hz v => v | .daHz v => v | _ => 0

/-- **Block-size code space.** For every block length 1..=65535 (the final frame may hold any
length 1..=32767) the code chosen by the encoder is never the reserved code 0000, its extra field
fits the 8/16 bits written, and the RFC's table decodes it back to the same length. -/
theorem C02_blocksize_all (n : Nat) (h1 : 1 ≤ n) (h2 : n ≤ 65535) :
    ∃ spec, BlockSizeSpec.fromSize n = some spec ∧ 1 ≤ spec.tag ∧ spec.tag ≤ 15 ∧
      spec.blockSize = some n ∧ Rfc.blockSizeOfCode spec.tag (bsExtra spec) = some n ∧
      (spec.tag = 6 → bsExtra spec < 2 ^ 8) ∧ (spec.tag = 7 → bsExtra spec < 2 ^ 16) := by
  unfold BlockSizeSpec.fromSize
  by_cases h192 : n = 192
  · subst h192; exact ⟨_, rfl, by decide⟩
  · simp only [h192, ↓reduceIte]
    by_cases h576 : n = 576 ∨ n = 1152 ∨ n = 2304 ∨ n = 4608
    · simp only [h576, ↓reduceIte]
      rcases h576 with h | h | h | h <;> subst h <;> exact ⟨_, rfl, by decide⟩
    · simp only [h576, ↓reduceIte]
      by_cases h256 : n = 256 ∨ n = 512 ∨ n = 1024 ∨ n = 2048 ∨ n = 4096 ∨ n = 8192 ∨ n = 16384 ∨ n = 32768
      · simp only [h256, ↓reduceIte]
        rcases h256 with h | h | h | h | h | h | h | h <;> subst h <;> exact ⟨_, rfl, by decide⟩
      · simp only [h256, ↓reduceIte]
        have h0 : n ≠ 0 := by omega
        simp only [h0, ↓reduceIte]
        by_cases hs : n ≤ 256
        · simp only [hs, ↓reduceIte]
          refine ⟨_, rfl, by simp [BlockSizeSpec.tag], by simp [BlockSizeSpec.tag], ?_, ?_, ?_, ?_⟩
          · simp [BlockSizeSpec.blockSize]; omega
          · simp [BlockSizeSpec.tag, bsExtra, Rfc.blockSizeOfCode]; omega
          · intro _; simp [bsExtra]; omega
          · intro h; simp [BlockSizeSpec.tag] at h
        · simp only [hs, ↓reduceIte]
          refine ⟨_, rfl, by simp [BlockSizeSpec.tag], by simp [BlockSizeSpec.tag], ?_, ?_, ?_, ?_⟩
          · simp [BlockSizeSpec.blockSize]; omega
          · simp [BlockSizeSpec.tag, bsExtra, Rfc.blockSizeOfCode]; omega
          · intro h; simp [BlockSizeSpec.tag] at h
          · intro _; simp [bsExtra]; omega

theorem lookup_sampleRate (freq t : Nat) (h : sampleRateTable.lookup freq = some t) :
    1 ≤ t ∧ t ≤ 11 ∧ Rfc.rateOfCode t 0 0 = some freq := by
  simp only [sampleRateTable, List.lookup] at h
  repeat' split at h
  all_goals first
    | (cases h; rename_i heq; simp at heq; subst heq; decide)
    | (simp at h)

/-- **Sample-rate code space.** For every rate (in particular 1..=96000): when the encoder finds a
code it is never the invalid code 1111, its extra field fits, and the RFC's table decodes it to
the same rate; when it finds none it writes code 0000 ("see STREAMINFO"), which decodes to the
STREAMINFO rate. -/
theorem C02_samplerate_all (r : Nat) :
    match SampleRateSpec.fromFreq r with
    | some spec => spec.tag ≤ 14 ∧ Rfc.rateOfCode spec.tag (srExtra spec) r = some r ∧
        (spec.tag = 12 → srExtra spec < 2 ^ 8) ∧ (spec.tag = 13 ∨ spec.tag = 14 → srExtra spec < 2 ^ 16)
    | none => Rfc.rateOfCode SampleRateSpec.unspecified.tag 0 r = some r := by
  unfold SampleRateSpec.fromFreq
  cases hl : sampleRateTable.lookup r with
  | some t =>
    obtain ⟨h1, h2, h3⟩ := lookup_sampleRate r t hl
    simp only [SampleRateSpec.tag, srExtra]
    refine ⟨by omega, ?_, by omega, by omega⟩
    have : t ≠ 0 ∧ t ≠ 12 ∧ t ≠ 13 ∧ t ≠ 14 := by omega
    revert h3
    unfold Rfc.rateOfCode
    rcases t with _ | _ | _ | _ | _ | _ | _ | _ | _ | _ | _ | _ | t <;> simp_all <;> omega
  | none =>
    simp only
    by_cases hk : r % 1000 = 0 ∧ r / 1000 < 256
    · simp only [hk, and_self, ↓reduceIte, SampleRateSpec.tag, srExtra, Rfc.rateOfCode]
      have := hk.2
      refine ⟨by decide, ?_, ?_, ?_⟩
      · congr 1; omega
      · intro _; trivial
      · intro h; simp at h
    · simp only [hk, ↓reduceIte]
      by_cases hd : r % 10 = 0 ∧ r / 10 < 65536
      · simp only [hd, and_self, ↓reduceIte, SampleRateSpec.tag, srExtra, Rfc.rateOfCode]
        have := hd.2
        refine ⟨by decide, ?_, ?_, ?_⟩
        · congr 1; omega
        · intro h; simp at h
        · intro _; trivial
      · simp only [hd, ↓reduceIte]
        by_cases hh : r < 65536
        · simp only [hh, ↓reduceIte, SampleRateSpec.tag, srExtra, Rfc.rateOfCode]
          refine ⟨by decide, trivial, ?_, ?_⟩
          · intro h; simp at h
          · intro _; trivial
        · simp only [hh, ↓reduceIte, SampleRateSpec.tag, Rfc.rateOfCode]

/-- **Sample-size code space**: the supported widths never map to the reserved code 011 and
decode to themselves. -/
theorem C02_samplesize_all (b : Nat) (hb : b = 8 ∨ b = 12 ∨ b = 16 ∨ b = 20 ∨ b = 24) :
    sampleSizeTag b ≠ 3 ∧ sampleSizeTag b ≠ 0 ∧ Rfc.bpsOfCode (sampleSizeTag b) b = some b := by
  rcases hb with h | h | h | h | h <;> subst h <;> decide

/-- Channel assignment codes are never reserved (≤ 10) and carry the channel count. -/
theorem C02_channel_code (a : ChannelAssignment) (ha : match a with | .independent n => 1 ≤ n ∧ n ≤ 8 | _ => True) :
    a.tag ≤ 10 ∧ (if a.tag < 8 then a.tag + 1 else 2) = a.channels := by
  cases a with
  | independent n =>
    simp only [ChannelAssignment.tag, ChannelAssignment.channels] at *
    have : n - 1 < 8 := by omega
    simp only [this, ↓reduceIte]; omega
  | leftSide => decide
  | rightSide => decide
  | midSide => decide

end FlacVerif.C02
