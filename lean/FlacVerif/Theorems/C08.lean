/-
C08 — the reported bit count (`count_bits`) equals the number of bits actually written (`write`),
for every residual, subframe, frame header, frame, STREAMINFO block and stream; every frame is a
whole number of bytes.  `count = none` models an arithmetic-underflow panic in `count_bits`, and
`bits = none` a `RangeError` of `write`; under the stated well-formedness premises neither happens.
-/
import FlacVerif.Lemmas.CountFrame
namespace FlacVerif

/-- Residual: `count_bits` does not underflow and reports exactly the written length. -/
theorem C08_residual (r : Residual) (h : r.WF) : r.count = some r.bits.length :=
  Count.residual_count r h

/-- Subframe (constant / verbatim / fixed / LPC). -/
theorem C08_subframe (s : SubFrame) (h : s.WF) : s.count = some s.bits.length :=
  Count.subframe_count s h

/-- UTF-8-like number coding: succeeds below 2^36, has the announced byte size, and emits bytes. -/
theorem C08_utf8 (v : Nat) (h : v < 2 ^ 36) :
    ∃ bs, encodeUtf8like v = some bs ∧ bs.length = utf8likeBytesize v ∧ ∀ b ∈ bs, b < 256 :=
  Count.utf8like v h

/-- Frame header (including the CRC-8 byte). -/
theorem C08_header (p8 : CrcParams) (h : FrameHeader) (hn : h.number < 2 ^ 36) (ht : h.assignment.tag ≤ 15) :
    ∃ b, h.bits p8 = some b ∧ b.length = h.count :=
  Count.header_bits p8 h hn ht

/-- Frame: written, counted exactly, and byte aligned. -/
theorem C08_frame (p8 p16 : CrcParams) (f : Frame) (hn : f.header.number < 2 ^ 36)
    (ht : f.header.assignment.tag ≤ 15) (hs : ∀ s ∈ f.subframes, s.WF) :
    ∃ b, f.bits p8 p16 = some b ∧ f.count = some b.length ∧ 8 ∣ b.length :=
  Count.frame_bits p8 p16 f hn ht hs

/-- STREAMINFO body: always 272 bits (the constant `Stream::count_bits` uses). -/
theorem C08_streaminfo (s : StreamInfo) (hm : s.md5.length = 16) : s.bits.length = 272 :=
  Count.streaminfo_length s hm

/-- Whole stream: marker, STREAMINFO, further metadata blocks and all frames. -/
theorem C08_stream (p8 p16 : CrcParams) (s : Stream) (hm : s.info.md5.length = 16)
    (hf : ∀ f ∈ s.frames, f.header.number < 2 ^ 36 ∧ f.header.assignment.tag ≤ 15 ∧ ∀ sf ∈ f.subframes, sf.WF) :
    ∃ b, s.bits p8 p16 = some b ∧ s.count = some b.length :=
  Count.stream_bits p8 p16 s hm hf

/-! ### non-vacuity: the premises are satisfiable by non-trivial objects -/

/-- Order 1, block size 8, warm-up 2, non-zero quotients: well formed, 43 bits. -/
example :
    let r : Residual := ⟨1, 8, 2, [2, 3], [0, 0, 1, 2, 0, 3, 1, 0], [0, 0, 3, 1, 2, 7, 0, 5]⟩
    r.WF ∧ r.count = some 43 ∧ r.bits.length = 43 := by decide

/-- A second-order LPC subframe over that residual: well formed, 100 bits. -/
example :
    let s : SubFrame := .lpc [5, -3] [7, -2] 3 4
      ⟨1, 8, 2, [2, 3], [0, 0, 1, 2, 0, 3, 1, 0], [0, 0, 3, 1, 2, 7, 0, 5]⟩ 16
    s.WF ∧ s.count = some 100 ∧ s.bits.length = 100 := by decide

/-- A stereo frame (LPC + constant subframe) meeting all premises of `C08_frame` / `C08_stream`. -/
example :
    let f : Frame :=
      { header := ⟨false, .extraByte 7, .leftSide, 4, .fixed 9, 300, 0⟩,
        subframes := [.lpc [5, -3] [7, -2] 3 4
            ⟨1, 8, 2, [2, 3], [0, 0, 1, 2, 0, 3, 1, 0], [0, 0, 3, 1, 2, 7, 0, 5]⟩ 16,
          .constant 8 (-5) 17] }
    f.header.number < 2 ^ 36 ∧ f.header.assignment.tag ≤ 15 ∧ (∀ s ∈ f.subframes, s.WF) ∧
      f.count = some 208 := by decide

/-! ### necessity: dropping any one of three `WF` clauses breaks `C08_residual`

Each residual below satisfies every clause of `Residual.WF` except the one named, and its reported
count differs from the written length. -/

/-- Block size not divisible by `2 ^ order` (3 samples, 2 partitions): reports 17, writes 16. -/
example :
    let r : Residual := ⟨1, 3, 0, [0, 0], [0, 0, 0], [0, 0, 0]⟩
    ¬ 2 ^ r.order ∣ r.blockSize ∧
    (r.order ≤ 15 ∧ r.params.length = 2 ^ r.order ∧ r.warmup ≤ r.partLen ∧ 0 < r.blockSize ∧
      r.quotients.length = r.blockSize ∧ r.remainders.length = r.blockSize ∧ (∀ p ∈ r.params, p ≤ 14) ∧
      (∀ t, t < r.warmup → r.quotients.getD t 0 = 0 ∧ r.remainders.getD t 0 = 0) ∧
      (∀ t, t < r.blockSize → r.remainders.getD t 0 < 2 ^ (r.params.getD (t / r.partLen) 0))) ∧
    r.count = some 17 ∧ r.bits.length = 16 ∧ r.count ≠ some r.bits.length := by decide

/-- `params.length ≠ 2 ^ order` (a stale third parameter): reports 28, writes 18. -/
example :
    let r : Residual := ⟨1, 4, 0, [0, 0, 5], [0, 0, 0, 0], [0, 0, 0, 0]⟩
    r.params.length ≠ 2 ^ r.order ∧
    (r.order ≤ 15 ∧ 2 ^ r.order ∣ r.blockSize ∧ r.warmup ≤ r.partLen ∧ 0 < r.blockSize ∧
      r.quotients.length = r.blockSize ∧ r.remainders.length = r.blockSize ∧ (∀ p ∈ r.params, p ≤ 14) ∧
      (∀ t, t < r.warmup → r.quotients.getD t 0 = 0 ∧ r.remainders.getD t 0 = 0) ∧
      (∀ t, t < r.blockSize → r.remainders.getD t 0 < 2 ^ (r.params.getD (t / r.partLen) 0))) ∧
    r.count = some 28 ∧ r.bits.length = 18 ∧ r.count ≠ some r.bits.length := by decide

/-- Non-zero quotient on the warm-up (never written, but summed): reports 15, writes 13. -/
example :
    let r : Residual := ⟨0, 4, 1, [0], [2, 0, 0, 0], [0, 0, 0, 0]⟩
    ¬ (∀ t, t < r.warmup → r.quotients.getD t 0 = 0 ∧ r.remainders.getD t 0 = 0) ∧
    (r.order ≤ 15 ∧ r.params.length = 2 ^ r.order ∧ 2 ^ r.order ∣ r.blockSize ∧ r.warmup ≤ r.partLen ∧
      0 < r.blockSize ∧ r.quotients.length = r.blockSize ∧ r.remainders.length = r.blockSize ∧
      (∀ p ∈ r.params, p ≤ 14) ∧
      (∀ t, t < r.blockSize → r.remainders.getD t 0 < 2 ^ (r.params.getD (t / r.partLen) 0))) ∧
    r.count = some 15 ∧ r.bits.length = 13 ∧ r.count ≠ some r.bits.length := by decide

/-- Two further clauses are also needed. Warm-up longer than a partition (`warmup ≤ partLen` fails):
`count_bits` underflows (`none` = panic) although `write` emits 15 bits. -/
example :
    let r : Residual := ⟨1, 4, 3, [1, 0], [0, 0, 0, 0], [0, 0, 0, 0]⟩
    ¬ r.warmup ≤ r.partLen ∧
    (r.order ≤ 15 ∧ r.params.length = 2 ^ r.order ∧ 2 ^ r.order ∣ r.blockSize ∧ 0 < r.blockSize ∧
      r.quotients.length = r.blockSize ∧ r.remainders.length = r.blockSize ∧ (∀ p ∈ r.params, p ≤ 14) ∧
      (∀ t, t < r.warmup → r.quotients.getD t 0 = 0 ∧ r.remainders.getD t 0 = 0) ∧
      (∀ t, t < r.blockSize → r.remainders.getD t 0 < 2 ^ (r.params.getD (t / r.partLen) 0))) ∧
    r.count = none ∧ r.bits.length = 15 := by decide

/-- A stale quotient beyond the block (`quotients.length = blockSize` fails): reports 19, writes 12. -/
example :
    let r : Residual := ⟨0, 2, 0, [0], [0, 0, 7], [0, 0]⟩
    r.quotients.length ≠ r.blockSize ∧
    (r.order ≤ 15 ∧ r.params.length = 2 ^ r.order ∧ 2 ^ r.order ∣ r.blockSize ∧ r.warmup ≤ r.partLen ∧
      0 < r.blockSize ∧ r.remainders.length = r.blockSize ∧ (∀ p ∈ r.params, p ≤ 14) ∧
      (∀ t, t < r.warmup → r.quotients.getD t 0 = 0 ∧ r.remainders.getD t 0 = 0) ∧
      (∀ t, t < r.blockSize → r.remainders.getD t 0 < 2 ^ (r.params.getD (t / r.partLen) 0))) ∧
    r.count = some 19 ∧ r.bits.length = 12 := by decide

end FlacVerif
