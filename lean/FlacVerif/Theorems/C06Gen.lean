/-
C06Gen — the thread protocol of `src/par.rs`, tied to the CURRENT source by proof (translator part `par`).

`tools/translate_par.py` extracts the programs of the three thread roles (`Gen.Par.mainProg`, `workerProg`,
`hasherProg`, the two `Fill` methods, the set-up with its capacities / tokens / spawn counts) from `par.rs`;
`Model/ParProg.lean` gives the statement language its small-step semantics over the shared state components of
`Par.State`.  This file proves that the hand-written transition system `Par.step` (about which C05 / C06 speak) is the
MACRO-STEP semantics of those generated programs: a macro step of a thread = internal steps, ONE protocol step (channel
operation or `sched_point` hook, labelled with the event `Par.Ev.ofLog` gives to the logged record), internal steps up
to the canonical continuation of the next hand pc.

Correspondence `Corr p g s` (g : state of the generated programs, s : `Par.State`): same shared state (`shOf`), and for
each thread the continuation IN THE GENERATED PROGRAM that belongs to its hand pc (`MCorrPc`, `WCorr`, `HCorr`: `mRecv`,
`mLocked`, `mAfterSend`, `mEnq`, `mStopOk r`, `mStopErr r`, `mReqStop`, `mJoinH`, `mJoinW r`, `wIdle`, `wGot`, `wEncoded`,
`wSent`, `hRun`, all defined as suffixes of `Gen.Par.*`), the mutexes held, and the live locals (`bufid`, `frame_count`,
position of the source, `frame_number`, `encode_result`, `feed_result.is_err()`, handles joined).

Theorems
  (a) constants   C06G_refillCap, C06G_encodeCap, C06G_md5Cap, C06G_nbuf, C06G_initTokens, C06G_spawnedWorkers
                  (generated `bounded(..)` arguments, tokens of `ParFrameBuf::new`, spawn count = the hand model's)
  (b) per event   C06G_refill_recv_fwd, C06G_md5_send_fwd, C06G_f_filled_fwd, C06G_f_eof_fwd, C06G_f_read_err_fwd,
                  C06G_encode_send_some_fwd, C06G_encode_send_none_fwd, C06G_m_joined_hasher_fwd,
                  C06G_m_joined_worker_fwd (main); C06G_encode_recv_fwd, C06G_w_lock_fwd, C06G_refill_send_fwd,
                  C06G_w_push_fwd, C06G_w_err_fwd (worker); C06G_hasher_fwd (hasher): every hand step is a macro step
                  of the generated program of that thread with the same event, same shared-state effect, corresponding
                  continuations
      C06G_fwd            all of them in one statement (hand model -> program)
      C06G_next_unique    the next protocol step of a thread is unique (the semantics is a function per thread)
      C06G_bwd_enabled    program -> hand model for enabled threads: if the hand model has a step of a thread, every
                          protocol step that thread's program reaches by internal steps IS that step
      C06G_init           the start state of the generated programs (generated constants, whole programs) reaches by
                          internal steps a state corresponding to `Par.init p`
      C06G_result         the result assembled by the generated epilogue (first encode error, `feed_result?`, frames in
                          key order) = `State.result`
      C06G_worker_err_arms  the two `Err` arms of the worker have the same program
      C06G_main_dichotomy, C06G_worker_dichotomy, C06G_hasher_dichotomy
                          for every hand pc and guard: the hand model has a step of the thread, or the thread's program
                          is stuck after finitely many internal steps (`stuckAt`); with `stuck_no_vis`:
      C06G_bwd            program -> hand model, complete: EVERY protocol step a thread of the generated programs can
                          reach from corresponding states is a `Par.step` with the same event and a corresponding successor
      C06G_run_fwd, C06G_traces, C06G_run_bwd, C06G_canon_run_sound
                          trace level (see the caveat on `CanonRun` in notes/par_design.md: it names the stopping point of
                          the internal steps through the hand successor; the program-pure statement is `C06G_bwd`)
      C06G_worker_count_pos, _config, _env, _total, _err
                          the generated `determine_worker_count`: >= 1 for every environment string and configuration
                          (discharges `0 < p.W` of C05 / C06), explicit `config.workers` wins, `FLACENC_WORKERS` otherwise
      settle_unique, C06G_bwdC, C06G_prog_run_fwd, C06G_prog_run_bwd, C06G_start0, C06G_traces_prog
                          the per-event theorems are stated for `ParProg.macroStepC`: the internal steps after the protocol
                          step end at the thread's FIRST yield point (a notion of the program text, `ParProg.yieldMain /
                          yieldWorker / yieldHasher`), so the stopping point is unique (`settle_unique`);
                          `C06G_traces_prog`: an event list is accepted by iterated `Par.step` from `Par.init p` iff it is
                          a `ParProg.ProgRun` (no hand state in its definition) from `start0 p`, end states corresponding
  `C06G_result` also gives, on the `Ok` path, `digest = hashed` and that the final STREAMINFO updates were made.
  Corollaries for the generated programs from C05 / C06: Theorems/C06GenCor.lean.
  NOT proved: interleavings of internal steps of different threads (a macro step is atomic,
  the hand model's own atomicity assumption).
Hypotheses: `fill = fillInterleaved ∨ fill = fillLeBytes` (which `Fill` method the source calls); satisfiable: the
`example` at the end.  `Cond.bpsMismatch` (the width check of `fill_le_bytes`) is read as false (sources pass the
context's own width).
-/
import FlacVerif.Gen.Par

namespace FlacVerif.C06Gen
open FlacVerif.Par FlacVerif.ParProg FlacVerif.Gen.Par

/-! ## (a) generated constants -/

theorem C06G_refillCap (p : Params) : refillCap p.W = p.refillCap := by
  simp [refillCap, refillCapExpr, Count.eval, Params.refillCap, FlacVerif.Gen.Const.par_FRAMEBUF_MULTIPLICITY]; omega

theorem C06G_encodeCap (p : Params) : encodeCap p.W = p.encodeCap := by
  simp [encodeCap, encodeCapExpr, Count.eval, Params.encodeCap, FlacVerif.Gen.Const.par_FRAMEBUF_MULTIPLICITY]; omega

theorem C06G_md5Cap (W : Nat) : Gen.Par.md5Cap W = Par.md5Cap := rfl

theorem C06G_nbuf (p : Params) : nbuf p.W = p.nbuf := by
  simp [nbuf, nbufExpr, Count.eval, Params.nbuf, FlacVerif.Gen.Const.par_FRAMEBUF_MULTIPLICITY]; omega

theorem C06G_initTokens (p : Params) : initTokens p.W = (init p).refillQ := by
  simp [initTokens, initTokensExpr, Count.eval, init, Params.nbuf, FlacVerif.Gen.Const.par_FRAMEBUF_MULTIPLICITY, Nat.mul_comm]

theorem C06G_spawnedWorkers (p : Params) : spawnedWorkers p.W = (init p).workers.length := by
  simp [spawnedWorkers, spawnedWorkersExpr, Count.eval, init]

/-! ## environment, shared state, canonical continuations -/

/-- The semantics is run with the GENERATED capacities. -/
def env (p : Params) (fill : List Stmt) : Env := ⟨p, refillCap p.W, encodeCap p.W, Gen.Par.md5Cap p.W, fill⟩

def shOf (s : State) : Shared := ⟨s.refillQ, s.encodeQ, s.md5Q, s.bufs, s.sink, s.errors, s.hashed⟩

def hBody : List Stmt := match hasherProg with | [.loop _ b] => b | _ => []
/-- hasher, blocked in `recv` -/
def hRun : List Stmt := hBody ++ hasherProg

def HCorr (t : Thr) : HPc → Prop
  | .running => t.cont = hRun ∧ t.held = []
  | .exited => t.cont = [] ∧ t.held = []

def wBody : List Stmt := match workerProg with | [.whileRecv _ _ b] => b | _ => []
def wIdle : List Stmt := workerProg
def wGot : List Stmt := wBody ++ workerProg
def wEncoded : List Stmt := wBody.drop 5 ++ workerProg
def wSent : List Stmt := wBody.drop 6 ++ workerProg

def WCorr (t : Thr) : WPc → Prop
  | .idle => t.cont = wIdle ∧ t.held = []
  | .got id => t.cont = wGot ∧ t.held = [] ∧ t.bufid = id
  | .encoded id n res => t.cont = wEncoded ∧ t.held = [] ∧ t.bufid = id ∧ t.frameNumber = n ∧ t.encRes = res
  | .sent id n res => t.cont = wSent ∧ t.held = [] ∧ t.bufid = id ∧ t.frameNumber = n ∧ t.encRes = res
  | .exited => t.cont = [] ∧ t.held = []

inductive WsCorr : List Thr → List WPc → Prop
  | nil : WsCorr [] []
  | cons {t pc ts pcs} : WCorr t pc → WsCorr ts pcs → WsCorr (t :: ts) (pc :: pcs)


/-! main thread -/
def feedFn : List Stmt := match mainProg with | .call _ b :: _ => b | _ => []
def fb : List Stmt := match feedFn.drop 3 with | .loop _ b :: _ => b | _ => []
def loopK : List Stmt := feedFn.drop 3 ++ .callEnd "feed_fixed_block_size" :: mainProg.drop 1
def recvBody : List Stmt := match fb with | .call _ b :: _ => b | _ => []
def errArm : List Stmt := match fb.drop 3 with | .matchRead _ e :: _ => e | _ => []
def enqBody : List Stmt := match fb.drop 9 with | .call _ b :: _ => b | _ => []
def stopBody : List Stmt := [.act (.send .encode .noneTok)]

def mRecv : List Stmt := recvBody ++ .callEnd "ParFrameBuf::recv_refill_request" :: fb.drop 1 ++ loopK
def mLocked : List Stmt := fb.drop 2 ++ loopK
def mAfterSend : List Stmt :=
  [.callEnd "ParContext::enqueue_buffer", .ret .fillOk, .callEnd "Fill::fill", .ite .readErr errArm []] ++ fb.drop 4 ++ loopK
def mEnq : List Stmt := enqBody.drop 1 ++ .callEnd "ParFrameBuf::enqueue_encode" :: fb.drop 10 ++ loopK
def mStopOk (r : Nat) : List Stmt :=
  stopBody ++ .forK 5 r stopBody :: .callEnd "ParFrameBuf::request_stop" :: feedFn.drop 5 ++ .callEnd "feed_fixed_block_size" :: mainProg.drop 1
def mStopErr (r : Nat) : List Stmt :=
  stopBody ++ .forK 4 r stopBody :: .callEnd "ParFrameBuf::request_stop" :: .ret .feedErr :: fb.drop 4 ++ loopK
def mReqStop : List Stmt := [.act (.send .md5 .emptyVec), .callEnd "ParContext::request_stop"] ++ mainProg.drop 2
def mJoinH : List Stmt := [.act .joinHasher, .act (.destructArc "inner"), .callEnd "ParContext::finalize"] ++ mainProg.drop 3
def joinBody : List Stmt := [.act .joinWorker, .act (.sched "m_joined_worker" none none)]
def mJoinW (r : Nat) : List Stmt := joinBody ++ .forK 6 r joinBody :: mainProg.drop 5

def MCorrPc (p : Params) (t : Thr) (s : State) : Prop :=
  match s.main with
  | .recv => t.cont = mRecv ∧ t.held = [] ∧ t.frameCount = s.k ∧ t.reads = s.k ∧ s.readErr = false
  | .locked id => t.cont = mLocked ∧ t.held = [.buf id] ∧ t.bufid = id ∧ t.frameCount = s.k ∧ t.reads = s.k ∧ s.readErr = false
  | .eofEmpty id => t.cont = mAfterSend ∧ t.held = [.buf id] ∧ t.bufid = id ∧ t.readRes = .okZero ∧ s.readErr = false
  | .filledMd5 id => t.cont = mAfterSend ∧ t.held = [.buf id] ∧ t.bufid = id ∧ t.readRes = .okData ∧ t.frameCount = s.k ∧
      t.reads = s.k + 1 ∧ s.readErr = false
  | .enq id => t.cont = mEnq ∧ t.held = [] ∧ t.bufid = id ∧ t.frameCount = s.k + 1 ∧ t.reads = s.k + 1 ∧ s.readErr = false
  | .stop r => ∃ r', r = r' + 1 ∧ (s.readErr = false → t.cont = mStopOk r') ∧ (s.readErr = true → t.cont = mStopErr r') ∧ t.held = []
  | .reqStop => t.cont = mReqStop ∧ t.held = [] ∧ t.feedErr = s.readErr
  | .joinH => t.cont = mJoinH ∧ t.held = [] ∧ t.feedErr = s.readErr
  | .joinW j => ∃ r, j + r + 1 = p.W ∧ t.cont = mJoinW r ∧ t.held = [] ∧ t.joined = j ∧ t.feedErr = s.readErr
  | .done => t.cont = [] ∧ t.held = []

/-- hand pcs before the worker joins: no worker handle has been joined -/
def preJoin : MPc → Prop
  | .joinW _ => False
  | .done => False
  | _ => True

def MCorr (p : Params) (t : Thr) (s : State) : Prop := MCorrPc p t s ∧ (preJoin s.main → t.joined = 0)

/-- The correspondence between a state of the generated programs and a state of the hand model: same shared state,
every thread at the canonical continuation of its hand pc with the live locals agreeing. -/
structure Corr (p : Params) (g : PState) (s : State) : Prop where
  sh : g.sh = shOf s
  main : MCorr p g.main s
  ws : WsCorr g.workers s.workers
  hs : HCorr g.hasher s.hasher

theorem mcorr_held {p t s} (h : MCorr p t s) :
    t.held = (match s.main.lockedBuf with | some id => [.buf id] | none => []) := by
  replace h := h.1
  unfold MCorrPc at h
  cases hm : s.main <;> simp only [hm] at h <;> simp [MPc.lockedBuf] <;> first | exact h.2.1 | exact h.2 | (obtain ⟨_, _, _, _, h⟩ := h; exact h) | (obtain ⟨_, _, _, h⟩ := h; first | exact h | exact h.1)

theorem wcorr_held {t pc} (h : WCorr t pc) : t.held = [] := by
  cases pc <;> first | exact h.2.1 | exact h.2

theorem wscorr_quiet {ts pcs} (h : WsCorr ts pcs) : ∀ t ∈ ts, t.held = [] := by
  induction h with
  | nil => simp
  | cons h _ ih => intro t ht; rcases List.mem_cons.mp ht with rfl | ht; exact wcorr_held h; exact ih t ht

theorem hcorr_held {t pc} (h : HCorr t pc) : t.held = [] := by
  cases pc <;> exact h.2

theorem quiet_all {ts : List Thr} (h : ∀ t ∈ ts, t.held = []) (m : MtxId) :
    ∀ t ∈ ts, m ∉ t.held := by
  intro t ht; simp [h t ht]


theorem ofLog_md5_recv (m w len) : Ev.ofLog "md5_recv" m w none (some len) = some (.md5_recv len) := rfl
theorem ofLog_md5_send (m w len) : Ev.ofLog "md5_send" m w none (some len) = some (.md5_send len) := rfl
theorem ofLog_refill_recv (m w id) : Ev.ofLog "refill_recv" m w (some id) none = some (.refill_recv id) := rfl
theorem ofLog_refill_send (w id) : Ev.ofLog "refill_send" false w (some id) none = some (.refill_send w id) := rfl
theorem ofLog_encode_send (m w x) : Ev.ofLog "encode_send" m w x none = some (.encode_send x) := rfl
theorem ofLog_encode_recv (m w x) : Ev.ofLog "encode_recv" m w x none = some (.encode_recv w x) := rfl
theorem ofLog_f_filled (m w id n) : Ev.ofLog "f_filled" m w (some id) (some n) = some (.f_filled id n) := rfl
theorem ofLog_f_eof (m w id) : Ev.ofLog "f_eof" m w (some id) none = some (.f_eof id) := rfl
theorem ofLog_f_read_err (m w id) : Ev.ofLog "f_read_err" m w (some id) none = some (.f_read_err id) := rfl
theorem ofLog_w_lock (m w id n) : Ev.ofLog "w_lock" m w (some id) (some n) = some (.w_lock w id n) := rfl
theorem ofLog_w_push (m w id n) : Ev.ofLog "w_push" m w (some id) (some n) = some (.w_push w id n) := rfl
theorem ofLog_w_err (m w id n) : Ev.ofLog "w_err" m w (some id) (some n) = some (.w_err w id n) := rfl
theorem ofLog_m_joined_hasher (m w) : Ev.ofLog "m_joined_hasher" m w none none = some .m_joined_hasher := rfl
theorem ofLog_m_joined_worker (m w) : Ev.ofLog "m_joined_worker" m w none none = some .m_joined_worker := rfl

theorem main_not_holds {p t s} (h : MCorr p t s) (m : MtxId) (hm : ∀ id, s.main.lockedBuf = some id → m ≠ .buf id) :
    m ∉ t.held := by
  rw [mcorr_held h]
  cases hl : s.main.lockedBuf with
  | none => simp
  | some id => simp; exact hm id hl

theorem eraseIdx_set_self {α} (l : List α) (w : Nat) (a : α) : (l.set w a).eraseIdx w = l.eraseIdx w := by
  induction l generalizing w with
  | nil => simp
  | cons x xs ih => cases w <;> simp [ih]

theorem quiet_erase {ts : List Thr} {m : MtxId} (h : ∀ t ∈ ts, m ∉ t.held) (w : Nat) : ∀ t ∈ ts.eraseIdx w, m ∉ t.held :=
  fun t ht => h t (List.mem_of_mem_eraseIdx ht)

open Lean.Parser.Tactic in
/-- evaluates the interpreter on a continuation that starts with literal statements -/
macro "par_simp" "[" ts:simpLemma,* "]" loc:(location)? : tactic =>
  `(tactic| simp [macroStep, macroStepC, settle, PState.yields, yieldMain, yieldWorker, yieldHasher, runTau, visStep, ParProg.step, stepThr, doStmt, doAct, doSend, doRecv, doRead, doRet, vis, tau,
      PState.view, PState.free, PState.exited, Cond.eval, Arg.eval, Mtx.id, dropLoop, dropCall, shOf, env, Count.eval, eraseIdx_set_self,
      ofLog_md5_recv, ofLog_md5_send, ofLog_refill_recv, ofLog_refill_send, ofLog_encode_send, ofLog_encode_recv,
      ofLog_f_filled, ofLog_f_eof, ofLog_f_read_err, ofLog_w_lock, ofLog_w_push, ofLog_w_err, ofLog_m_joined_hasher,
      ofLog_m_joined_worker, $ts,*] $[$loc]?)

/-- hasher: hand step -> macro step of the generated program -/
theorem C06G_hasher_fwd {p fill g s s'} (len : Nat) (hc : Corr p g s) (h : Par.step p s (.md5_recv len) = some s') :
    ∃ b g', macroStepC (env p fill) .hasher 0 b g = some (.md5_recv len, g') ∧ Corr p g' s' := by
  have hmh := main_not_holds hc.main .ctx (by intros; simp)
  have hq := quiet_all (wscorr_quiet hc.ws) .ctx
  obtain ⟨hsh, hm, hws, hh⟩ := hc
  obtain ⟨sh, mt, ws, ht⟩ := g
  simp only at hsh hm hws hh hmh hq
  subst hsh
  simp only [Par.step] at h
  split at h
  · rename_i b rest hpc hq'
    rw [hpc] at hh
    obtain ⟨hcont, hheld⟩ := hh
    obtain ⟨cont, held⟩ := ht
    simp only at hcont hheld
    subst hcont hheld
    split at h
    · rename_i hlen
      subst hlen
      split at h
      · rename_i hb
        subst hb
        injection h with h; subst h
        refine ⟨2, ?_⟩
        par_simp [hRun, hBody, hasherProg, hq']
        exact ⟨rfl, hm, hws, ⟨rfl, rfl⟩⟩
      · rename_i hb
        injection h with h; subst h
        refine ⟨5, ?_⟩
        par_simp [hRun, hBody, hasherProg, hq', hb, hmh, eq_true hq, List.isEmpty_iff]
        refine ⟨rfl, hm, hws, ?_⟩
        show HCorr _ s.hasher
        rw [hpc]; exact ⟨rfl, rfl⟩
    · simp at h
  · simp at h


theorem wscorr_get {ts : List Thr} {pcs : List WPc} {w : Nat} {pc : WPc} (h : WsCorr ts pcs) (hw : pcs[w]? = some pc) : ∃ t, ts[w]? = some t ∧ WCorr t pc := by
  induction h generalizing w with
  | nil => simp at hw
  | cons h _ ih =>
    cases w with
    | zero => simp at hw; subst hw; exact ⟨_, by simp, h⟩
    | succ w => simp at hw; obtain ⟨t, ht, hc⟩ := ih hw; exact ⟨t, by simpa using ht, hc⟩

theorem wscorr_set {ts pcs t' pc'} (h : WsCorr ts pcs) (w : Nat) (h' : WCorr t' pc') :
    WsCorr (ts.set w t') (pcs.set w pc') := by
  induction h generalizing w with
  | nil => simpa using WsCorr.nil
  | cons h hs ih =>
    cases w with
    | zero => exact .cons h' hs
    | succ w => exact .cons h (ih w)

theorem lt_of_get {α} {l : List α} {w : Nat} {a : α} (h : l[w]? = some a) : w < l.length := by
  rcases Nat.lt_or_ge w l.length with h' | h'
  · exact h'
  · simp [List.getElem?_eq_none h'] at h

/-- worker `w_lock`: lock, read the frame number, hook, encode, unlock -/
theorem C06G_w_lock_fwd {p fill g s s'} (w id n : Nat) (hc : Corr p g s) (h : Par.step p s (.w_lock w id n) = some s') :
    ∃ g', macroStepC (env p fill) (.worker w) 4 2 g = some (.w_lock w id n, g') ∧ Corr p g' s' := by
  simp only [Par.step] at h
  split at h
  · rename_i id' hwk
    split at h
    · rename_i x hx
      split at h
      · rename_i hg
        obtain ⟨rfl, hnum, hlock⟩ := hg
        injection h with h; subst h
        obtain ⟨t, htw, htc⟩ := wscorr_get hc.ws hwk
        have hmh := main_not_holds hc.main (.buf id') (by intro i hi he; apply hlock; rw [hi]; injection he with he; rw [he])
        have hq := quiet_erase (quiet_all (wscorr_quiet hc.ws) (.buf id')) w
        have hhh := hcorr_held hc.hs
        have hwlt := lt_of_get htw
        have hidlt := lt_of_get hx
        obtain ⟨_, hx'⟩ := List.getElem?_eq_some_iff.mp hx
        obtain ⟨hsh, hm, hws, hh⟩ := hc
        obtain ⟨sh, mt, ws, ht⟩ := g
        simp only at hsh hm hws hh hmh hq htw hhh hwlt
        subst hsh
        obtain ⟨hcont, hheld, hbuf⟩ := htc
        obtain ⟨cont, held, bufid⟩ := t
        simp only at hcont hheld hbuf
        subst hcont hheld hbuf
        par_simp [wGot, wBody, workerProg, htw, hmh, eq_true hq, hhh, hidlt, hx, hx', hnum, List.getElem?_set_self hwlt]
        exact ⟨rfl, hm, wscorr_set hws w ⟨rfl, rfl, rfl, rfl, rfl⟩, hh⟩
      · simp at h
    · simp at h
  · simp at h


/-- worker `encode_recv`: the head of `while let Some(bufid) = parbuf.pop_encode_queue()` -/
theorem C06G_encode_recv_fwd {p fill g s s'} (w : Nat) (x : Option Nat) (hc : Corr p g s)
    (h : Par.step p s (.encode_recv w x) = some s') :
    ∃ g', macroStepC (env p fill) (.worker w) 0 0 g = some (.encode_recv w x, g') ∧ Corr p g' s' := by
  simp only [Par.step] at h
  split at h
  · rename_i y rest hwk hq'
    split at h
    · rename_i hxy
      subst hxy
      injection h with h; subst h
      obtain ⟨t, htw, htc⟩ := wscorr_get hc.ws hwk
      have hmh := main_not_holds hc.main .ctx (by intros; simp)
      have hq := quiet_erase (quiet_all (wscorr_quiet hc.ws) .ctx) w
      have hhh := hcorr_held hc.hs
      have hwlt := lt_of_get htw
      obtain ⟨hsh, hm, hws, hh⟩ := hc
      obtain ⟨sh, mt, ws, ht⟩ := g
      simp only at hsh hm hws hh hmh hq htw hhh hwlt
      subst hsh
      obtain ⟨hcont, hheld⟩ := htc
      obtain ⟨cont, held⟩ := t
      simp only at hcont hheld
      subst hcont hheld
      cases x with
      | none =>
        par_simp [wIdle, workerProg, htw, hq', List.getElem?_set_self hwlt]
        exact ⟨rfl, hm, wscorr_set hws w ⟨rfl, rfl⟩, hh⟩
      | some id =>
        par_simp [wIdle, workerProg, htw, hq', List.getElem?_set_self hwlt]
        exact ⟨rfl, hm, wscorr_set hws w ⟨rfl, rfl, rfl⟩, hh⟩
    · simp at h
  · simp at h

/-- worker `refill_send`: `parbuf.enqueue_refill(bufid)` -/
theorem C06G_refill_send_fwd {p fill g s s'} (w id : Nat) (hc : Corr p g s)
    (h : Par.step p s (.refill_send w id) = some s') :
    ∃ g', macroStepC (env p fill) (.worker w) 1 1 g = some (.refill_send w id, g') ∧ Corr p g' s' := by
  simp only [Par.step] at h
  split at h
  · rename_i id' n res hwk
    split at h
    · rename_i hg
      obtain ⟨rfl, hcap⟩ := hg
      injection h with h; subst h
      obtain ⟨t, htw, htc⟩ := wscorr_get hc.ws hwk
      have hmh := main_not_holds hc.main .ctx (by intros; simp)
      have hq := quiet_erase (quiet_all (wscorr_quiet hc.ws) .ctx) w
      have hhh := hcorr_held hc.hs
      have hwlt := lt_of_get htw
      obtain ⟨hsh, hm, hws, hh⟩ := hc
      obtain ⟨sh, mt, ws, ht⟩ := g
      simp only at hsh hm hws hh hmh hq htw hhh hwlt
      subst hsh
      obtain ⟨hcont, hheld, hbuf, hfn, henc⟩ := htc
      obtain ⟨cont, held, bufid⟩ := t
      simp only at hcont hheld hbuf hfn henc
      subst hcont hheld hbuf hfn henc
      par_simp [wEncoded, wBody, workerProg, htw, hcap, C06G_refillCap, List.getElem?_set_self hwlt]
      exact ⟨rfl, hm, wscorr_set hws w ⟨rfl, rfl, rfl, rfl, rfl⟩, hh⟩
    · simp at h
  · simp at h

/-- worker `w_push`: hook, `Ok` arm: `parsink.push(frame_number, frame)` -/
theorem C06G_w_push_fwd {p fill g s s'} (w id n : Nat) (hc : Corr p g s)
    (h : Par.step p s (.w_push w id n) = some s') :
    ∃ g', macroStepC (env p fill) (.worker w) 0 7 g = some (.w_push w id n, g') ∧ Corr p g' s' := by
  simp only [Par.step] at h
  split at h
  · rename_i id' n' f hwk
    split at h
    · rename_i hg
      obtain ⟨rfl, rfl⟩ := hg
      injection h with h; subst h
      obtain ⟨t, htw, htc⟩ := wscorr_get hc.ws hwk
      have hmh := main_not_holds hc.main .sink (by intros; simp)
      have hq := quiet_erase (quiet_all (wscorr_quiet hc.ws) .sink) w
      have hhh := hcorr_held hc.hs
      have hwlt := lt_of_get htw
      obtain ⟨hsh, hm, hws, hh⟩ := hc
      obtain ⟨sh, mt, ws, ht⟩ := g
      simp only at hsh hm hws hh hmh hq htw hhh hwlt
      subst hsh
      obtain ⟨hcont, hheld, hbuf, hfn, henc⟩ := htc
      obtain ⟨cont, held, bufid, _, _, _, _, _, _, _, _, _, _, _, _, fnum, encr⟩ := t
      simp only at hcont hheld hbuf hfn henc
      subst hcont hheld hbuf hfn henc
      par_simp [wSent, wBody, workerProg, htw, hmh, eq_true hq, hhh, List.getElem?_set_self hwlt]
      exact ⟨rfl, hm, wscorr_set hws w ⟨rfl, rfl⟩, hh⟩
    · simp at h
  · simp at h

/-- worker `w_err`: hook, `Err` arm: `parerrors.push(frame_number, e)` -/
theorem C06G_w_err_fwd {p fill g s s'} (w id n : Nat) (hc : Corr p g s)
    (h : Par.step p s (.w_err w id n) = some s') :
    ∃ g', macroStepC (env p fill) (.worker w) 0 6 g = some (.w_err w id n, g') ∧ Corr p g' s' := by
  simp only [Par.step] at h
  split at h
  · rename_i id' n' hwk
    split at h
    · rename_i hg
      obtain ⟨rfl, rfl⟩ := hg
      injection h with h; subst h
      obtain ⟨t, htw, htc⟩ := wscorr_get hc.ws hwk
      have hmh := main_not_holds hc.main .errs (by intros; simp)
      have hq := quiet_erase (quiet_all (wscorr_quiet hc.ws) .errs) w
      have hhh := hcorr_held hc.hs
      have hwlt := lt_of_get htw
      obtain ⟨hsh, hm, hws, hh⟩ := hc
      obtain ⟨sh, mt, ws, ht⟩ := g
      simp only at hsh hm hws hh hmh hq htw hhh hwlt
      subst hsh
      obtain ⟨hcont, hheld, hbuf, hfn, henc⟩ := htc
      obtain ⟨cont, held, bufid, _, _, _, _, _, _, _, _, _, _, _, _, fnum, encr⟩ := t
      simp only at hcont hheld hbuf hfn henc
      subst hcont hheld hbuf hfn henc
      par_simp [wSent, wBody, workerProg, htw, hmh, eq_true hq, hhh, List.getElem?_set_self hwlt]
      exact ⟨rfl, hm, wscorr_set hws w ⟨rfl, rfl⟩, hh⟩
    · simp at h
  · simp at h


/-! ### main thread -/

macro "mclose" : tactic =>
  `(tactic| (refine ⟨rfl, ⟨?_, ?_⟩, ‹WsCorr _ _›, ‹HCorr _ _›⟩ <;>
      first
      | exact fun hp => hp.elim
      | (intro _; assumption)
      | ((simp only [MCorrPc]; repeat' (apply And.intro)) <;> first | rfl | trivial | assumption | (symm; assumption) | omega)))

/-- main `refill_recv`: `recv_refill_request`, then the lock of `buffers[bufid]` -/
theorem C06G_refill_recv_fwd {p fill g s s'} (id : Nat) (hc : Corr p g s)
    (h : Par.step p s (.refill_recv id) = some s') :
    ∃ g', macroStepC (env p fill) .main 0 2 g = some (.refill_recv id, g') ∧ Corr p g' s' := by
  have hq := quiet_all (wscorr_quiet hc.ws) (.buf id)
  have hhh := hcorr_held hc.hs
  obtain ⟨hsh, hm, hws, hh⟩ := hc
  obtain ⟨sh, mt, ws, ht⟩ := g
  simp only at hsh hm hws hh hhh
  subst hsh
  obtain ⟨hm, hj⟩ := hm
  simp only [Par.step] at h
  split at h
  · rename_i x rest hpc hq'
    split at h
    · rename_i hx
      subst hx
      injection h with h; subst h
      have hj' := hj (by rw [hpc]; trivial)
      simp only [MCorrPc, hpc] at hm
      obtain ⟨hcont, hheld, hfc, hrd, hre⟩ := hm
      obtain ⟨cont, held, bufid, frameCount, reads, readRes, input, bytebuf, starved, feedErr, joined⟩ := mt
      simp only at hcont hheld hfc hrd hj'
      subst hcont hheld hfc hrd
      par_simp [mRecv, mLocked, mAfterSend, mEnq, mStopOk, mStopErr, mReqStop, mJoinH, mJoinW, joinBody, stopBody, recvBody, errArm, enqBody, fb, feedFn, loopK, mainProg, hq', eq_true hq, hhh]
      mclose
    · simp at h
  · simp at h

/-- main `md5_send` (1): `read_samples` delivers a block into the locked buffer and calls `Fill`, which sends the bytes -/
theorem C06G_md5_send_fwd {p fill g s s'} (len : Nat) (hf : fill = fillInterleaved ∨ fill = fillLeBytes) (hc : Corr p g s)
    (h : Par.step p s (.md5_send len) = some s') :
    ∃ a b g', macroStepC (env p fill) .main a b g = some (.md5_send len, g') ∧ Corr p g' s' := by
  have hhh := hcorr_held hc.hs
  obtain ⟨hsh, hm, hws, hh⟩ := hc
  obtain ⟨sh, mt, ws, ht⟩ := g
  simp only at hsh hm hws hh hhh
  subst hsh
  obtain ⟨hm, hj⟩ := hm
  simp only [Par.step] at h
  split at h
  · rename_i id hpc
    have hj' := hj (by rw [hpc]; trivial)
    simp only [MCorrPc, hpc] at hm
    obtain ⟨hcont, hheld, hbuf, hfc, hrd, hre⟩ := hm
    obtain ⟨cont, held, bufid, frameCount, reads, readRes, input, bytebuf, starved, feedErr, joined⟩ := mt
    simp only at hcont hheld hbuf hfc hrd hj'
    subst hcont hheld hbuf hfc hrd
    split at h
    · simp at h
    · rename_i hnf
      split at h
      · rename_i hcap
        split at h
        · rename_i b x hb hx
          split at h
          · rename_i hlen
            subst hlen
            injection h with h; subst h
            refine ⟨8, 0, ?_⟩
            rcases hf with rfl | rfl
            · par_simp [mRecv, mLocked, mAfterSend, mEnq, mStopOk, mStopErr, mReqStop, mJoinH, mJoinW, joinBody, stopBody, recvBody, errArm, enqBody, fb, feedFn, loopK, mainProg, fillInterleaved, hnf, hb, hx, hcap, C06G_md5Cap]
              mclose
            · par_simp [mRecv, mLocked, mAfterSend, mEnq, mStopOk, mStopErr, mReqStop, mJoinH, mJoinW, joinBody, stopBody, recvBody, errArm, enqBody, fb, feedFn, loopK, mainProg, fillLeBytes, hnf, hb, hx, hcap, C06G_md5Cap]
              mclose
          · simp at h
        · simp at h
        · rename_i hb
          split at h
          · rename_i hg
            obtain ⟨hes, rfl⟩ := hg
            injection h with h; subst h
            refine ⟨8, 0, ?_⟩
            rcases hf with rfl | rfl
            · par_simp [mRecv, mLocked, mAfterSend, mEnq, mStopOk, mStopErr, mReqStop, mJoinH, mJoinW, joinBody, stopBody, recvBody, errArm, enqBody, fb, feedFn, loopK, mainProg, fillInterleaved, hnf, hb, hes, hcap, C06G_md5Cap]
              mclose
            · par_simp [mRecv, mLocked, mAfterSend, mEnq, mStopOk, mStopErr, mReqStop, mJoinH, mJoinW, joinBody, stopBody, recvBody, errArm, enqBody, fb, feedFn, loopK, mainProg, fillLeBytes, hnf, hb, hes, hcap, C06G_md5Cap]
              mclose
          · simp at h
      · simp at h
  · rename_i hpc
    have hj' := hj (by rw [hpc]; trivial)
    simp only [MCorrPc, hpc] at hm
    obtain ⟨hcont, hheld, hfe⟩ := hm
    obtain ⟨cont, held, bufid, frameCount, reads, readRes, input, bytebuf, starved, feedErr, joined⟩ := mt
    simp only at hcont hheld hfe hj'
    subst hcont hheld
    split at h
    · rename_i hg
      obtain ⟨rfl, hcap⟩ := hg
      injection h with h; subst h
      refine ⟨0, 2, ?_⟩
      par_simp [mRecv, mLocked, mAfterSend, mEnq, mStopOk, mStopErr, mReqStop, mJoinH, mJoinW, joinBody, stopBody, recvBody, errArm, enqBody, fb, feedFn, loopK, mainProg, hcap, C06G_md5Cap]
      mclose
    · simp at h
  · simp at h


/-- main `f_filled`: the frame number is stored, hook, the guard ends, `frame_count += 1`, `is_empty` is read -/
theorem C06G_f_filled_fwd {p fill g s s'} (id n : Nat) (hc : Corr p g s)
    (h : Par.step p s (.f_filled id n) = some s') :
    ∃ g', macroStepC (env p fill) .main 5 4 g = some (.f_filled id n, g') ∧ Corr p g' s' := by
  have hhh := hcorr_held hc.hs
  obtain ⟨hsh, hm, hws, hh⟩ := hc
  obtain ⟨sh, mt, ws, ht⟩ := g
  simp only at hsh hm hws hh hhh
  subst hsh
  obtain ⟨hm, hj⟩ := hm
  simp only [Par.step] at h
  split at h
  · rename_i id' hpc
    split at h
    · rename_i x hx
      split at h
      · rename_i hg
        obtain ⟨rfl, rfl⟩ := hg
        injection h with h; subst h
        have hj' := hj (by rw [hpc]; trivial)
        simp only [MCorrPc, hpc] at hm
        obtain ⟨hcont, hheld, hbuf, hrr, hfc, hrd, hre⟩ := hm
        obtain ⟨cont, held, bufid, frameCount, reads, readRes, input, bytebuf, starved, feedErr, joined⟩ := mt
        simp only at hcont hheld hbuf hrr hfc hrd hj'
        subst hcont hheld hbuf hrr hfc hrd
        par_simp [mRecv, mLocked, mAfterSend, mEnq, mStopOk, mStopErr, mReqStop, mJoinH, mJoinW, joinBody, stopBody, recvBody, errArm, enqBody, fb, feedFn, loopK, mainProg, hx]
        mclose
      · simp at h
    · simp at h
  · simp at h

theorem afterStop_zero : afterStop 0 = .reqStop := rfl
theorem afterStop_succ (r : Nat) : afterStop (r + 1) = .stop (r + 1) := rfl

/-- main `f_eof`: hook, the guard ends at `break 'feed`, then `request_stop(workers)` is entered -/
theorem C06G_f_eof_fwd {p fill g s s'} (id : Nat) (hc : Corr p g s)
    (h : Par.step p s (.f_eof id) = some s') :
    ∃ a b g', macroStepC (env p fill) .main a b g = some (.f_eof id, g') ∧ Corr p g' s' := by
  have hhh := hcorr_held hc.hs
  obtain ⟨hsh, hm, hws, hh⟩ := hc
  obtain ⟨sh, mt, ws, ht⟩ := g
  simp only at hsh hm hws hh hhh
  subst hsh
  obtain ⟨hm, hj⟩ := hm
  simp only [Par.step] at h
  split at h
  · rename_i id' hpc
    split at h
    · rename_i hg
      obtain ⟨rfl, hnf, hlen, hes⟩ := hg
      injection h with h; subst h
      have hj' := hj (by rw [hpc]; trivial)
      simp only [MCorrPc, hpc] at hm
      obtain ⟨hcont, hheld, hbuf, hfc, hrd, hre⟩ := hm
      obtain ⟨cont, held, bufid, frameCount, reads, readRes, input, bytebuf, starved, feedErr, joined⟩ := mt
      simp only at hcont hheld hbuf hfc hrd hj'
      subst hcont hheld hbuf hfc hrd
      have hb : p.blocks[s.k]? = none := List.getElem?_eq_none hlen
      cases hW : p.W with
      | zero =>
        refine ⟨5, 9, ?_⟩
        par_simp [mRecv, mLocked, mAfterSend, mEnq, mStopOk, mStopErr, mReqStop, mJoinH, mJoinW, joinBody, stopBody, recvBody, errArm, enqBody, fb, feedFn, loopK, mainProg, hnf, hb, hes, hW, afterStop_zero]
        mclose
      | succ r =>
        refine ⟨5, 5, ?_⟩
        par_simp [mRecv, mLocked, mAfterSend, mEnq, mStopOk, mStopErr, mReqStop, mJoinH, mJoinW, joinBody, stopBody, recvBody, errArm, enqBody, fb, feedFn, loopK, mainProg, hnf, hb, hes, hW, afterStop_succ]
        refine ⟨rfl, ⟨?_, fun _ => hj'⟩, hws, hh⟩
        simp only [MCorrPc]
        exact ⟨_, rfl, fun _ => rfl, fun h => Bool.noConfusion (hre.symm.trans h), trivial⟩
    · simp at h
  · rename_i id' hpc
    split at h
    · rename_i hg
      subst hg
      injection h with h; subst h
      have hj' := hj (by rw [hpc]; trivial)
      simp only [MCorrPc, hpc] at hm
      obtain ⟨hcont, hheld, hbuf, hrr, hre⟩ := hm
      obtain ⟨cont, held, bufid, frameCount, reads, readRes, input, bytebuf, starved, feedErr, joined⟩ := mt
      simp only at hcont hheld hbuf hrr hj'
      subst hcont hheld hbuf hrr
      cases hW : p.W with
      | zero =>
        refine ⟨4, 9, ?_⟩
        par_simp [mRecv, mLocked, mAfterSend, mEnq, mStopOk, mStopErr, mReqStop, mJoinH, mJoinW, joinBody, stopBody, recvBody, errArm, enqBody, fb, feedFn, loopK, mainProg, hW, afterStop_zero]
        mclose
      | succ r =>
        refine ⟨4, 5, ?_⟩
        par_simp [mRecv, mLocked, mAfterSend, mEnq, mStopOk, mStopErr, mReqStop, mJoinH, mJoinW, joinBody, stopBody, recvBody, errArm, enqBody, fb, feedFn, loopK, mainProg, hW, afterStop_succ]
        refine ⟨rfl, ⟨?_, fun _ => hj'⟩, hws, hh⟩
        simp only [MCorrPc]
        exact ⟨_, rfl, fun _ => rfl, fun h => Bool.noConfusion (hre.symm.trans h), trivial⟩
    · simp at h
  · simp at h

/-- main `f_read_err`: `drop(numbuf)`, hook, `request_stop(workers)` is entered, `return Err(e)` follows it -/
theorem C06G_f_read_err_fwd {p fill g s s'} (id : Nat) (hc : Corr p g s)
    (h : Par.step p s (.f_read_err id) = some s') :
    ∃ b g', macroStepC (env p fill) .main 5 b g = some (.f_read_err id, g') ∧ Corr p g' s' := by
  have hhh := hcorr_held hc.hs
  obtain ⟨hsh, hm, hws, hh⟩ := hc
  obtain ⟨sh, mt, ws, ht⟩ := g
  simp only at hsh hm hws hh hhh
  subst hsh
  obtain ⟨hm, hj⟩ := hm
  simp only [Par.step] at h
  split at h
  · rename_i id' hpc
    split at h
    · rename_i hg
      obtain ⟨rfl, hnf⟩ := hg
      injection h with h; subst h
      have hj' := hj (by rw [hpc]; trivial)
      simp only [MCorrPc, hpc] at hm
      obtain ⟨hcont, hheld, hbuf, hfc, hrd, hre⟩ := hm
      obtain ⟨cont, held, bufid, frameCount, reads, readRes, input, bytebuf, starved, feedErr, joined⟩ := mt
      simp only at hcont hheld hbuf hfc hrd hj'
      subst hcont hheld hbuf hfc hrd
      cases hW : p.W with
      | zero =>
        refine ⟨7, ?_⟩
        par_simp [mRecv, mLocked, mAfterSend, mEnq, mStopOk, mStopErr, mReqStop, mJoinH, mJoinW, joinBody, stopBody, recvBody, errArm, enqBody, fb, feedFn, loopK, mainProg, hnf, hW, afterStop_zero]
        mclose
      | succ r =>
        refine ⟨3, ?_⟩
        par_simp [mRecv, mLocked, mAfterSend, mEnq, mStopOk, mStopErr, mReqStop, mJoinH, mJoinW, joinBody, stopBody, recvBody, errArm, enqBody, fb, feedFn, loopK, mainProg, hnf, hW, afterStop_succ]
        refine ⟨rfl, ⟨?_, fun _ => hj'⟩, hws, hh⟩
        simp only [MCorrPc]
        exact ⟨_, rfl, fun h => Bool.noConfusion h, fun _ => rfl, trivial⟩
    · simp at h
  · simp at h


/-- main `encode_send (some id)`: the send of `enqueue_encode`, then the loop is re-entered up to the next `recv` -/
theorem C06G_encode_send_some_fwd {p fill g s s'} (id : Nat) (hc : Corr p g s)
    (h : Par.step p s (.encode_send (some id)) = some s') :
    ∃ b g', macroStepC (env p fill) .main 0 b g = some (.encode_send (some id), g') ∧ Corr p g' s' := by
  have hhh := hcorr_held hc.hs
  obtain ⟨hsh, hm, hws, hh⟩ := hc
  obtain ⟨sh, mt, ws, ht⟩ := g
  simp only at hsh hm hws hh hhh
  subst hsh
  obtain ⟨hm, hj⟩ := hm
  simp only [Par.step] at h
  split at h
  · rename_i id' hpc
    split at h
    · rename_i hg
      obtain ⟨rfl, hcap⟩ := hg
      injection h with h; subst h
      have hj' := hj (by rw [hpc]; trivial)
      simp only [MCorrPc, hpc] at hm
      obtain ⟨hcont, hheld, hbuf, hfc, hrd, hre⟩ := hm
      obtain ⟨cont, held, bufid, frameCount, reads, readRes, input, bytebuf, starved, feedErr, joined⟩ := mt
      simp only at hcont hheld hbuf hfc hrd hj'
      subst hcont hheld hbuf hfc hrd
      cases starved with
      | true =>
        refine ⟨5, ?_⟩
        par_simp [mRecv, mLocked, mAfterSend, mEnq, mStopOk, mStopErr, mReqStop, mJoinH, mJoinW, joinBody, stopBody, recvBody, errArm, enqBody, fb, feedFn, loopK, mainProg, hcap, C06G_encodeCap]
        mclose
      | false =>
        refine ⟨4, ?_⟩
        par_simp [mRecv, mLocked, mAfterSend, mEnq, mStopOk, mStopErr, mReqStop, mJoinH, mJoinW, joinBody, stopBody, recvBody, errArm, enqBody, fb, feedFn, loopK, mainProg, hcap, C06G_encodeCap]
        mclose
    · simp at h
  · simp at h

/-- main `encode_send none`: one iteration of `request_stop(workers)`; after the last one the function returns and
`ParContext::request_stop` reads `len()` -/
theorem C06G_encode_send_none_fwd {p fill g s s'} (hc : Corr p g s)
    (h : Par.step p s (.encode_send none) = some s') :
    ∃ b g', macroStepC (env p fill) .main 0 b g = some (.encode_send none, g') ∧ Corr p g' s' := by
  have hhh := hcorr_held hc.hs
  obtain ⟨hsh, hm, hws, hh⟩ := hc
  obtain ⟨sh, mt, ws, ht⟩ := g
  simp only at hsh hm hws hh hhh
  subst hsh
  obtain ⟨hm, hj⟩ := hm
  simp only [Par.step] at h
  split at h
  · rename_i r hpc
    split at h
    · rename_i hcap
      injection h with h; subst h
      have hj' := hj (by rw [hpc]; trivial)
      simp only [MCorrPc, hpc] at hm
      obtain ⟨r', hr, hok, herr, hheld⟩ := hm
      have hrr : r = r' := by omega
      subst hrr
      obtain ⟨cont, held, bufid, frameCount, reads, readRes, input, bytebuf, starved, feedErr, joined⟩ := mt
      simp only at hok herr hheld hj'
      subst hheld
      cases hre : s.readErr with
      | false =>
        have hcont := hok hre
        subst hcont
        cases r with
        | zero =>
          refine ⟨5, ?_⟩
          par_simp [mRecv, mLocked, mAfterSend, mEnq, mStopOk, mStopErr, mReqStop, mJoinH, mJoinW, joinBody, stopBody, recvBody, errArm, enqBody, fb, feedFn, loopK, mainProg, hcap, C06G_encodeCap, afterStop_zero]
          mclose
        | succ r2 =>
          refine ⟨1, ?_⟩
          par_simp [mRecv, mLocked, mAfterSend, mEnq, mStopOk, mStopErr, mReqStop, mJoinH, mJoinW, joinBody, stopBody, recvBody, errArm, enqBody, fb, feedFn, loopK, mainProg, hcap, C06G_encodeCap, afterStop_succ]
          refine ⟨rfl, ⟨?_, fun _ => hj'⟩, hws, hh⟩
          simp only [MCorrPc]
          exact ⟨_, rfl, fun _ => rfl, fun h => Bool.noConfusion h, trivial⟩
      | true =>
        have hcont := herr hre
        subst hcont
        cases r with
        | zero =>
          refine ⟨5, ?_⟩
          par_simp [mRecv, mLocked, mAfterSend, mEnq, mStopOk, mStopErr, mReqStop, mJoinH, mJoinW, joinBody, stopBody, recvBody, errArm, enqBody, fb, feedFn, loopK, mainProg, hcap, C06G_encodeCap, afterStop_zero]
          mclose
        | succ r2 =>
          refine ⟨1, ?_⟩
          par_simp [mRecv, mLocked, mAfterSend, mEnq, mStopOk, mStopErr, mReqStop, mJoinH, mJoinW, joinBody, stopBody, recvBody, errArm, enqBody, fb, feedFn, loopK, mainProg, hcap, C06G_encodeCap, afterStop_succ]
          refine ⟨rfl, ⟨?_, fun _ => hj'⟩, hws, hh⟩
          simp only [MCorrPc]
          exact ⟨_, rfl, fun h => Bool.noConfusion h, fun _ => rfl, trivial⟩
    · simp at h
  · simp at h

theorem wscorr_exited {ts pcs} (h : WsCorr ts pcs) : ts.countP (fun t => t.cont.isEmpty) = pcs.count .exited := by
  induction h with
  | nil => rfl
  | @cons t pc ts pcs h _ ih =>
    cases pc <;> simp only [WCorr] at h <;>
      simp [ih, h.1, wIdle, wGot, wEncoded, wSent, wBody, workerProg]

/-- main `m_joined_hasher`: `finalize` joins the hasher, hook, the join loop is entered; with no worker the result is
assembled -/
theorem C06G_m_joined_hasher_fwd {p fill g s s'} (hc : Corr p g s)
    (h : Par.step p s .m_joined_hasher = some s') :
    ∃ b g', macroStepC (env p fill) .main 3 b g = some (.m_joined_hasher, g') ∧ Corr p g' s' ∧
      (s'.main = .done → g'.main.result = some s'.result ∧
        ∀ l, s'.result = .ok l → g'.main.digest = s'.hashed ∧ g'.main.sizesSet = true ∧ g'.main.totalSet = true) := by
  have hhh := hcorr_held hc.hs
  obtain ⟨hsh, hm, hws, hh⟩ := hc
  obtain ⟨sh, mt, ws, ht⟩ := g
  simp only at hsh hm hws hh hhh
  subst hsh
  obtain ⟨hm, hj⟩ := hm
  simp only [Par.step] at h
  split at h
  · rename_i hpc hhx
    injection h with h; subst h
    have hj' := hj (by rw [hpc]; trivial)
    simp only [MCorrPc, hpc] at hm
    obtain ⟨hcont, hheld, hfe⟩ := hm
    have hh' := hh
    rw [hhx] at hh'
    obtain ⟨hhc, _⟩ := hh'
    obtain ⟨cont, held, bufid, frameCount, reads, readRes, input, bytebuf, starved, feedErr, joined⟩ := mt
    simp only at hcont hheld hfe hj'
    subst hcont hheld hj'
    cases hW : p.W with
    | succ r =>
      refine ⟨2, ?_⟩
      par_simp [mRecv, mLocked, mAfterSend, mEnq, mStopOk, mStopErr, mReqStop, mJoinH, mJoinW, joinBody, stopBody, recvBody, errArm, enqBody, fb, feedFn, loopK, mainProg, hhc, hW]
      refine ⟨rfl, ⟨?_, fun hp => hp.elim⟩, hws, hh⟩
      simp only [MCorrPc]
      exact ⟨r, by omega, rfl, trivial, trivial, hfe⟩
    | zero =>
      cases he : s.errors with
      | cons e es =>
        refine ⟨7, ?_⟩
        par_simp [mRecv, mLocked, mAfterSend, mEnq, mStopOk, mStopErr, mReqStop, mJoinH, mJoinW, joinBody, stopBody, recvBody, errArm, enqBody, fb, feedFn, loopK, mainProg, he, hhc, hW]
        refine ⟨?_, ?_⟩
        · refine ⟨rfl, ⟨?_, fun hp => hp.elim⟩, hws, hh⟩
          simp only [MCorrPc]; exact ⟨trivial, trivial⟩
        · first | (intro _; simp [State.result, he]) | simp [State.result, he]
      | nil =>
        cases hre : s.readErr with
        | true =>
          refine ⟨7, ?_⟩
          par_simp [mRecv, mLocked, mAfterSend, mEnq, mStopOk, mStopErr, mReqStop, mJoinH, mJoinW, joinBody, stopBody, recvBody, errArm, enqBody, fb, feedFn, loopK, mainProg, he, hre, hfe, hhc, hW]
          refine ⟨?_, ?_⟩
          · refine ⟨rfl, ⟨?_, fun hp => hp.elim⟩, hws, hh⟩
            simp only [MCorrPc]; exact ⟨trivial, trivial⟩
          · first | (intro _; simp [State.result, he, hre]) | simp [State.result, he, hre]
        | false =>
          refine ⟨14, ?_⟩
          par_simp [mRecv, mLocked, mAfterSend, mEnq, mStopOk, mStopErr, mReqStop, mJoinH, mJoinW, joinBody, stopBody, recvBody, errArm, enqBody, fb, feedFn, loopK, mainProg, he, hre, hfe, hhc, hW]
          refine ⟨?_, ?_⟩
          · refine ⟨rfl, ⟨?_, fun hp => hp.elim⟩, hws, hh⟩
            simp only [MCorrPc]; exact ⟨trivial, trivial⟩
          · first | (intro _; simp [State.result, State.frames, he, hre]) | simp [State.result, State.frames, he, hre]
  · simp at h

/-- main `m_joined_worker`: one iteration of the join loop; after the last one the result is assembled -/
theorem C06G_m_joined_worker_fwd {p fill g s s'} (hc : Corr p g s)
    (h : Par.step p s .m_joined_worker = some s') :
    ∃ b g', macroStepC (env p fill) .main 1 b g = some (.m_joined_worker, g') ∧ Corr p g' s' ∧
      (s'.main = .done → g'.main.result = some s'.result ∧
        ∀ l, s'.result = .ok l → g'.main.digest = s'.hashed ∧ g'.main.sizesSet = true ∧ g'.main.totalSet = true) := by
  have hex := wscorr_exited hc.ws
  have hhh := hcorr_held hc.hs
  obtain ⟨hsh, hm, hws, hh⟩ := hc
  obtain ⟨sh, mt, ws, ht⟩ := g
  simp only at hsh hm hws hh hhh
  subst hsh
  obtain ⟨hm, hj⟩ := hm
  simp only [Par.step] at h
  split at h
  · rename_i j hpc
    split at h
    · rename_i hjx
      injection h with h; subst h
      simp only [MCorrPc, hpc] at hm
      obtain ⟨r, hr, hcont, hheld, hjd, hfe⟩ := hm
      simp only [State.exitedCount] at hjx
      obtain ⟨cont, held, bufid, frameCount, reads, readRes, input, bytebuf, starved, feedErr, joined⟩ := mt
      simp only at hcont hheld hfe hjd hex
      subst hcont hheld hjd
      cases r with
      | succ r2 =>
        have hle : ¬ p.W ≤ joined + 1 := by omega
        refine ⟨1, ?_⟩
        par_simp [mRecv, mLocked, mAfterSend, mEnq, mStopOk, mStopErr, mReqStop, mJoinH, mJoinW, joinBody, stopBody, recvBody, errArm, enqBody, fb, feedFn, loopK, mainProg, hex, hjx, hle]
        refine ⟨rfl, ⟨?_, fun hp => hp.elim⟩, hws, hh⟩
        simp only [MCorrPc]
        exact ⟨r2, by omega, rfl, trivial, trivial, hfe⟩
      | zero =>
        have hle : p.W ≤ joined + 1 := by omega
        cases he : s.errors with
        | cons e es =>
          refine ⟨6, ?_⟩
          par_simp [mRecv, mLocked, mAfterSend, mEnq, mStopOk, mStopErr, mReqStop, mJoinH, mJoinW, joinBody, stopBody, recvBody, errArm, enqBody, fb, feedFn, loopK, mainProg, he, hex, hjx, hle]
          refine ⟨?_, ?_⟩
          · refine ⟨rfl, ⟨?_, fun hp => hp.elim⟩, hws, hh⟩
            simp only [MCorrPc]; exact ⟨trivial, trivial⟩
          · first | (intro _; simp [State.result, he]) | simp [State.result, he]
        | nil =>
          cases hre : s.readErr with
          | true =>
            refine ⟨6, ?_⟩
            par_simp [mRecv, mLocked, mAfterSend, mEnq, mStopOk, mStopErr, mReqStop, mJoinH, mJoinW, joinBody, stopBody, recvBody, errArm, enqBody, fb, feedFn, loopK, mainProg, he, hre, hfe, hex, hjx, hle]
            refine ⟨?_, ?_⟩
            · refine ⟨rfl, ⟨?_, fun hp => hp.elim⟩, hws, hh⟩
              simp only [MCorrPc]; exact ⟨trivial, trivial⟩
            · first | (intro _; simp [State.result, he, hre]) | simp [State.result, he, hre]
          | false =>
            refine ⟨13, ?_⟩
            par_simp [mRecv, mLocked, mAfterSend, mEnq, mStopOk, mStopErr, mReqStop, mJoinH, mJoinW, joinBody, stopBody, recvBody, errArm, enqBody, fb, feedFn, loopK, mainProg, he, hre, hfe, hex, hjx, hle]
            refine ⟨?_, ?_⟩
            · refine ⟨rfl, ⟨?_, fun hp => hp.elim⟩, hws, hh⟩
              simp only [MCorrPc]; exact ⟨trivial, trivial⟩
            · first | (intro _; simp [State.result, State.frames, he, hre]) | simp [State.result, State.frames, he, hre]
    · simp at h
  · simp at h


/-! ## assembled statements -/

/-- SIMULATION, hand model -> generated programs.  Whenever the hand transition system takes a step with event `e`
from a state that corresponds to `g`, the thread `tidOf e` of the generated programs can take a macro step (internal
steps, the protocol step with the SAME event, internal steps) to a state that corresponds again: same shared state,
canonical continuations, agreeing locals. -/
theorem C06G_fwdC {p : Params} {fill : List Stmt} (hf : fill = fillInterleaved ∨ fill = fillLeBytes)
    {g : PState} {s s' : State} (e : Ev) (hc : Corr p g s) (h : Par.step p s e = some s') :
    ∃ a b g', macroStepC (env p fill) (tidOf e) a b g = some (e, g') ∧ Corr p g' s' := by
  cases e with
  | refill_recv id => exact ⟨0, 2, C06G_refill_recv_fwd id hc h⟩
  | md5_send len => exact C06G_md5_send_fwd len hf hc h
  | f_filled id n => exact ⟨5, 4, C06G_f_filled_fwd id n hc h⟩
  | f_eof id => exact C06G_f_eof_fwd id hc h
  | f_read_err id => exact ⟨5, C06G_f_read_err_fwd id hc h⟩
  | encode_send x =>
    cases x with
    | some id => exact ⟨0, C06G_encode_send_some_fwd id hc h⟩
    | none => exact ⟨0, C06G_encode_send_none_fwd hc h⟩
  | m_joined_hasher => obtain ⟨b, g', h1, h2, _⟩ := C06G_m_joined_hasher_fwd (fill := fill) hc h; exact ⟨3, b, g', h1, h2⟩
  | m_joined_worker => obtain ⟨b, g', h1, h2, _⟩ := C06G_m_joined_worker_fwd (fill := fill) hc h; exact ⟨1, b, g', h1, h2⟩
  | encode_recv w x => exact ⟨0, 0, C06G_encode_recv_fwd w x hc h⟩
  | w_lock w id n => exact ⟨4, 2, C06G_w_lock_fwd w id n hc h⟩
  | refill_send w id => exact ⟨1, 1, C06G_refill_send_fwd w id hc h⟩
  | w_push w id n => exact ⟨0, 7, C06G_w_push_fwd w id n hc h⟩
  | w_err w id n => exact ⟨0, 6, C06G_w_err_fwd w id n hc h⟩
  | md5_recv len => exact ⟨0, C06G_hasher_fwd len hc h⟩

theorem settle_runTau {en : Env} {tid : Tid} : ∀ (b : Nat) (g g' : PState), settle en tid b g = some g' → runTau en tid b g = some g' := by
  intro b
  induction b with
  | zero => intro g g' h; exact h
  | succ b ih =>
    intro g g' h
    simp only [settle] at h
    split at h
    · simp at h
    · simp only [runTau]
      cases hs : ParProg.step en g tid with
      | none => simp [hs] at h
      | some x =>
        obtain ⟨l, gx⟩ := x
        cases l with
        | ev e0 => simp [hs] at h
        | tau => simp only [hs] at h ⊢; exact ih gx g' h

/-- a macro step to the first yield point is a macro step -/
theorem macroStepC_sound {en : Env} {tid : Tid} {a b : Nat} {g : PState} {r : Ev × PState}
    (h : macroStepC en tid a b g = some r) : macroStep en tid a b g = some r := by
  simp only [macroStepC] at h
  simp only [macroStep]
  split at h
  · rename_i x1 hx1
    split at h
    · rename_i ex x2 hx2
      split at h
      · rename_i x3 hx3
        split at h
        · simp only [settle_runTau _ _ _ hx3]; exact h
        · simp at h
      · simp at h
    · simp at h
  · simp at h

theorem C06G_fwd {p : Params} {fill : List Stmt} (hf : fill = fillInterleaved ∨ fill = fillLeBytes)
    {g : PState} {s s' : State} (e : Ev) (hc : Corr p g s) (h : Par.step p s e = some s') :
    ∃ a b g', macroStep (env p fill) (tidOf e) a b g = some (e, g') ∧ Corr p g' s' := by
  obtain ⟨a, b, g', hm, hc'⟩ := C06G_fwdC hf e hc h
  exact ⟨a, b, g', macroStepC_sound hm, hc'⟩

/-- A thread's next protocol step is unique: the program semantics is a function per thread. -/
theorem C06G_next_unique (env : Env) (tid : Tid) : ∀ (a a' : Nat) (g g1 g1' : PState) (e e' : Ev) (g2 g2' : PState),
    runTau env tid a g = some g1 → visStep env tid g1 = some (e, g2) →
    runTau env tid a' g = some g1' → visStep env tid g1' = some (e', g2') → a = a' ∧ e = e' ∧ g2 = g2' := by
  intro a
  induction a with
  | zero =>
    intro a' g g1 g1' e e' g2 g2' h1 h2 h3 h4
    simp only [runTau] at h1; injection h1 with h1; subst h1
    cases a' with
    | zero =>
      simp only [runTau] at h3; injection h3 with h3; subst h3
      rw [h2] at h4; injection h4 with h4; injection h4 with h5 h6
      exact ⟨rfl, h5, h6⟩
    | succ m =>
      simp only [runTau] at h3
      simp only [visStep] at h2
      cases hs : ParProg.step env g tid with
      | none => simp [hs] at h2
      | some x => obtain ⟨l, gx⟩ := x; cases l <;> simp [hs] at h2 h3
  | succ n ih =>
    intro a' g g1 g1' e e' g2 g2' h1 h2 h3 h4
    simp only [runTau] at h1
    cases hs : ParProg.step env g tid with
    | none => simp [hs] at h1
    | some x =>
      obtain ⟨l, gx⟩ := x
      cases l with
      | ev ev0 => simp [hs] at h1
      | tau =>
        simp only [hs] at h1
        cases a' with
        | zero =>
          simp only [runTau] at h3; injection h3 with h3; subst h3
          simp [visStep, hs] at h4
        | succ m =>
          simp only [runTau, hs] at h3
          obtain ⟨h5, h6, h7⟩ := ih m gx g1 g1' e e' g2 g2' h1 h2 h3 h4
          exact ⟨by omega, h6, h7⟩

/-- SIMULATION, generated programs -> hand model, for enabled threads.  If the hand model has a step of thread
`tidOf e0` from `s`, then EVERY protocol step the generated program of that thread can reach from `g` by internal steps
is that hand step: same event, and the internal steps that follow lead to a corresponding state. -/
theorem C06G_bwd_enabled {p : Params} {fill : List Stmt} (hf : fill = fillInterleaved ∨ fill = fillLeBytes)
    {g : PState} {s s0 : State} (e0 : Ev) (hc : Corr p g s) (h0 : Par.step p s e0 = some s0)
    {a : Nat} {g1 g2 : PState} {e : Ev} (h1 : runTau (env p fill) (tidOf e0) a g = some g1)
    (h2 : visStep (env p fill) (tidOf e0) g1 = some (e, g2)) :
    e = e0 ∧ ∃ b g', runTau (env p fill) (tidOf e0) b g2 = some g' ∧ Corr p g' s0 := by
  obtain ⟨a0, b, g', hm, hc'⟩ := C06G_fwd hf e0 hc h0
  simp only [macroStep] at hm
  split at hm
  · rename_i x1 hx1
    split at hm
    · rename_i ex x2 hx2
      split at hm
      · rename_i x3 hx3
        injection hm with hm; injection hm with hm1 hm2
        subst hm1 hm2
        obtain ⟨_, h6, h7⟩ := C06G_next_unique _ _ a a0 g g1 x1 e ex g2 x2 h1 h2 hx1 hx2
        subst h6 h7
        exact ⟨rfl, b, x3, hx3, hc'⟩
      · simp at hm
    · simp at hm
  · simp at hm

/-! ### program -> hand model: a thread the hand model blocks is blocked in the generated program -/

/-- thread `tid` is stuck after `k` internal steps -/
def stuckAt (env : Env) (tid : Tid) (k : Nat) (g : PState) : Prop :=
  ∃ gk, runTau env tid k g = some gk ∧ ParProg.step env gk tid = none

theorem stuck_no_vis (env : Env) (tid : Tid) : ∀ (k : Nat) (g : PState), stuckAt env tid k g →
    ∀ (a : Nat) (g1 : PState) (e : Ev) (g2 : PState), runTau env tid a g = some g1 → visStep env tid g1 = some (e, g2) → False := by
  intro k
  induction k with
  | zero =>
    intro g ⟨gk, h1, h2⟩ a g1 e g2 h3 h4
    simp only [runTau] at h1; injection h1 with h1; subst h1
    cases a with
    | zero => simp only [runTau] at h3; injection h3 with h3; subst h3; simp [visStep, h2] at h4
    | succ a => simp [runTau, h2] at h3
  | succ k ih =>
    intro g ⟨gk, h1, h2⟩ a g1 e g2 h3 h4
    simp only [runTau] at h1
    cases hs : ParProg.step env g tid with
    | none => simp [hs] at h1
    | some x =>
      obtain ⟨l, gx⟩ := x
      cases l with
      | ev ev0 => simp [hs] at h1
      | tau =>
        simp only [hs] at h1
        cases a with
        | zero => simp only [runTau] at h3; injection h3 with h3; subst h3; simp [visStep, hs] at h4
        | succ a => simp only [runTau, hs] at h3; exact ih gx ⟨gk, h1, h2⟩ a g1 e g2 h3 h4

/-- what the per-thread analysis delivers: the hand model has a step of the thread, or the program is stuck -/
def EnabledOrStuck (p : Params) (fill : List Stmt) (tid : Tid) (g : PState) (s : State) : Prop :=
  (∃ e0, tidOf e0 = tid ∧ (Par.step p s e0).isSome = true) ∨ ∃ k, stuckAt (env p fill) tid k g

theorem C06G_hasher_dichotomy {p fill g s} (hc : Corr p g s) : EnabledOrStuck p fill .hasher g s := by
  obtain ⟨hsh, hm, hws, hh⟩ := hc
  obtain ⟨sh, mt, ws, ht⟩ := g
  simp only at hsh hm hws hh
  subst hsh
  cases hpc : s.hasher with
  | exited =>
    rw [hpc] at hh
    obtain ⟨hcont, hheld⟩ := hh
    refine Or.inr ⟨0, ?_⟩
    simp [stuckAt, runTau, ParProg.step, stepThr, hcont]
  | running =>
    rw [hpc] at hh
    obtain ⟨hcont, hheld⟩ := hh
    cases hq : s.md5Q with
    | nil =>
      refine Or.inr ⟨0, ?_⟩
      par_simp [stuckAt, hcont, hRun, hBody, hasherProg, hq]
    | cons b rest =>
      refine Or.inl ⟨.md5_recv b.length, rfl, ?_⟩
      simp [Par.step, hpc, hq]
      split <;> rfl

theorem wscorr_none {ts : List Thr} {pcs : List WPc} {w : Nat} (h : WsCorr ts pcs) (hw : pcs[w]? = none) : ts[w]? = none := by
  induction h generalizing w with
  | nil => simp
  | cons _ _ ih =>
    cases w with
    | zero => simp at hw
    | succ w => rw [List.getElem?_cons_succ] at hw ⊢; exact ih hw

theorem C06G_worker_dichotomy {p fill g s} (w : Nat) (hc : Corr p g s) : EnabledOrStuck p fill (.worker w) g s := by
  cases hwk : s.workers[w]? with
  | none =>
    have := wscorr_none hc.ws hwk
    refine Or.inr ⟨0, ?_⟩
    simp [stuckAt, runTau, ParProg.step, this]
  | some pc =>
    obtain ⟨t, htw, htc⟩ := wscorr_get hc.ws hwk
    have hq : ∀ m, ∀ t ∈ g.workers.eraseIdx w, m ∉ t.held := fun m => quiet_erase (quiet_all (wscorr_quiet hc.ws) m) w
    have hhh := hcorr_held hc.hs
    have hwlt := lt_of_get htw
    have hmh := mcorr_held hc.main
    obtain ⟨hsh, hm, hws, hh⟩ := hc
    obtain ⟨sh, mt, ws, ht⟩ := g
    simp only at hsh hm hws hh hq htw hhh hwlt hmh
    subst hsh
    cases pc with
    | exited =>
      obtain ⟨hcont, hheld⟩ := htc
      obtain ⟨cont, held⟩ := t
      simp only at hcont hheld
      subst hcont hheld
      refine Or.inr ⟨0, ?_⟩
      simp [stuckAt, runTau, ParProg.step, stepThr, htw]
    | idle =>
      obtain ⟨hcont, hheld⟩ := htc
      obtain ⟨cont, held⟩ := t
      simp only at hcont hheld
      subst hcont hheld
      cases hq' : s.encodeQ with
      | nil =>
        refine Or.inr ⟨0, ?_⟩
        par_simp [stuckAt, wIdle, wGot, wEncoded, wSent, wBody, workerProg, htw, hq']
      | cons y rest =>
        refine Or.inl ⟨.encode_recv w y, rfl, ?_⟩
        simp [Par.step, hwk, hq']
    | got id =>
      obtain ⟨hcont, hheld, hbuf⟩ := htc
      obtain ⟨cont, held, bufid⟩ := t
      simp only at hcont hheld hbuf
      subst hcont hheld hbuf
      by_cases hl : s.main.lockedBuf = some bufid
      · refine Or.inr ⟨1, ?_⟩
        rw [hl] at hmh
        par_simp [stuckAt, wIdle, wGot, wEncoded, wSent, wBody, workerProg, htw, hmh, List.getElem?_set_self hwlt]
      · have hmh' : MtxId.buf bufid ∉ mt.held := by
          rw [hmh]; cases hl' : s.main.lockedBuf with
          | none => simp
          | some i => simp; intro h; apply hl; rw [hl', h]
        cases hx : s.bufs[bufid]? with
        | none =>
          refine Or.inr ⟨3, ?_⟩
          par_simp [stuckAt, wIdle, wGot, wEncoded, wSent, wBody, workerProg, htw, hmh', eq_true (hq (.buf bufid)), hhh, hx, List.getElem?_set_self hwlt]
        | some x =>
          cases hn : x.num with
          | none =>
            refine Or.inr ⟨3, ?_⟩
            par_simp [stuckAt, wIdle, wGot, wEncoded, wSent, wBody, workerProg, htw, hmh', eq_true (hq (.buf bufid)), hhh, hx, hn, List.getElem?_set_self hwlt]
          | some n =>
            refine Or.inl ⟨.w_lock w bufid n, rfl, ?_⟩
            simp [Par.step, hwk, hx, hn, hl]
    | encoded id n res =>
      obtain ⟨hcont, hheld, hbuf, hfn, henc⟩ := htc
      obtain ⟨cont, held, bufid⟩ := t
      simp only at hcont hheld hbuf hfn henc
      subst hcont hheld hbuf hfn henc
      by_cases hcap : s.refillQ.length < p.refillCap
      · refine Or.inl ⟨.refill_send w bufid, rfl, ?_⟩
        simp [Par.step, hwk, hcap]
      · refine Or.inr ⟨1, ?_⟩
        par_simp [stuckAt, wIdle, wGot, wEncoded, wSent, wBody, workerProg, htw, hcap, C06G_refillCap, List.getElem?_set_self hwlt]
    | sent id n res =>
      cases res with
      | some f =>
        refine Or.inl ⟨.w_push w id n, rfl, ?_⟩
        simp [Par.step, hwk]
      | none =>
        refine Or.inl ⟨.w_err w id n, rfl, ?_⟩
        simp [Par.step, hwk]

theorem C06G_main_dichotomy {p fill g s} (hf : fill = fillInterleaved ∨ fill = fillLeBytes) (hc : Corr p g s) :
    EnabledOrStuck p fill .main g s := by
  have hq : ∀ m, ∀ t ∈ g.workers, m ∉ t.held := fun m => quiet_all (wscorr_quiet hc.ws) m
  have hhh := hcorr_held hc.hs
  have hex := wscorr_exited hc.ws
  obtain ⟨hsh, hm, hws, hh⟩ := hc
  obtain ⟨sh, mt, ws, ht⟩ := g
  simp only at hsh hm hws hh hhh hq hex
  subst hsh
  obtain ⟨hm, hj⟩ := hm
  cases hpc : s.main with
  | recv =>
    simp only [MCorrPc, hpc] at hm
    obtain ⟨hcont, hheld, hfc, hrd, hre⟩ := hm
    obtain ⟨cont, held, bufid, frameCount, reads, readRes, input, bytebuf, starved, feedErr, joined⟩ := mt
    simp only at hcont hheld hfc hrd
    subst hcont hheld hfc hrd
    cases hq' : s.refillQ with
    | nil =>
      refine Or.inr ⟨0, ?_⟩
      par_simp [stuckAt, mRecv, mLocked, mAfterSend, mEnq, mStopOk, mStopErr, mReqStop, mJoinH, mJoinW, joinBody, stopBody, recvBody, errArm, enqBody, fb, feedFn, loopK, mainProg, hq']
    | cons x rest =>
      refine Or.inl ⟨.refill_recv x, rfl, ?_⟩
      simp [Par.step, hpc, hq']
  | locked id =>
    simp only [MCorrPc, hpc] at hm
    obtain ⟨hcont, hheld, hbuf, hfc, hrd, hre⟩ := hm
    obtain ⟨cont, held, bufid, frameCount, reads, readRes, input, bytebuf, starved, feedErr, joined⟩ := mt
    simp only at hcont hheld hbuf hfc hrd
    subst hcont hheld hbuf hfc hrd
    by_cases hnf : p.readFailAt = some s.k
    · refine Or.inl ⟨.f_read_err bufid, rfl, ?_⟩
      simp [Par.step, hpc, hnf]
    · cases hb : p.blocks[s.k]? with
      | some b =>
        cases hx : s.bufs[bufid]? with
        | none =>
          refine Or.inr ⟨2, ?_⟩
          par_simp [stuckAt, mRecv, mLocked, mAfterSend, mEnq, mStopOk, mStopErr, mReqStop, mJoinH, mJoinW, joinBody, stopBody, recvBody, errArm, enqBody, fb, feedFn, loopK, mainProg, hnf, hb, hx]
        | some x =>
          by_cases hcap : s.md5Q.length < Par.md5Cap
          · refine Or.inl ⟨.md5_send b.bytes.length, rfl, ?_⟩
            simp [Par.step, hpc, hnf, hb, hx, hcap]
          · refine Or.inr ⟨8, ?_⟩
            rcases hf with rfl | rfl
            · par_simp [stuckAt, mRecv, mLocked, mAfterSend, mEnq, mStopOk, mStopErr, mReqStop, mJoinH, mJoinW, joinBody, stopBody, recvBody, errArm, enqBody, fb, feedFn, loopK, mainProg, fillInterleaved, hnf, hb, hx, hcap, C06G_md5Cap]
            · par_simp [stuckAt, mRecv, mLocked, mAfterSend, mEnq, mStopOk, mStopErr, mReqStop, mJoinH, mJoinW, joinBody, stopBody, recvBody, errArm, enqBody, fb, feedFn, loopK, mainProg, fillLeBytes, hnf, hb, hx, hcap, C06G_md5Cap]
      | none =>
        cases hes : p.eofSendsEmpty with
        | false =>
          refine Or.inl ⟨.f_eof bufid, rfl, ?_⟩
          have hlen : p.blocks.length ≤ s.k := by
            rcases Nat.lt_or_ge s.k p.blocks.length with h | h
            · simp [List.getElem?_eq_getElem h] at hb
            · exact h
          simp [Par.step, hpc, hnf, hlen, hes]
        | true =>
          by_cases hcap : s.md5Q.length < Par.md5Cap
          · refine Or.inl ⟨.md5_send 0, rfl, ?_⟩
            simp [Par.step, hpc, hnf, hb, hes, hcap]
          · refine Or.inr ⟨8, ?_⟩
            rcases hf with rfl | rfl
            · par_simp [stuckAt, mRecv, mLocked, mAfterSend, mEnq, mStopOk, mStopErr, mReqStop, mJoinH, mJoinW, joinBody, stopBody, recvBody, errArm, enqBody, fb, feedFn, loopK, mainProg, fillInterleaved, hnf, hb, hes, hcap, C06G_md5Cap]
            · par_simp [stuckAt, mRecv, mLocked, mAfterSend, mEnq, mStopOk, mStopErr, mReqStop, mJoinH, mJoinW, joinBody, stopBody, recvBody, errArm, enqBody, fb, feedFn, loopK, mainProg, fillLeBytes, hnf, hb, hes, hcap, C06G_md5Cap]
  | eofEmpty id =>
    refine Or.inl ⟨.f_eof id, rfl, ?_⟩
    simp [Par.step, hpc]
  | filledMd5 id =>
    simp only [MCorrPc, hpc] at hm
    obtain ⟨hcont, hheld, hbuf, hrr, hfc, hrd, hre⟩ := hm
    obtain ⟨cont, held, bufid, frameCount, reads, readRes, input, bytebuf, starved, feedErr, joined⟩ := mt
    simp only at hcont hheld hbuf hrr hfc hrd
    subst hcont hheld hbuf hrr hfc hrd
    cases hx : s.bufs[bufid]? with
    | none =>
      refine Or.inr ⟨4, ?_⟩
      par_simp [stuckAt, mRecv, mLocked, mAfterSend, mEnq, mStopOk, mStopErr, mReqStop, mJoinH, mJoinW, joinBody, stopBody, recvBody, errArm, enqBody, fb, feedFn, loopK, mainProg, hx]
    | some x =>
      refine Or.inl ⟨.f_filled bufid s.k, rfl, ?_⟩
      simp [Par.step, hpc, hx]
  | enq id =>
    simp only [MCorrPc, hpc] at hm
    obtain ⟨hcont, hheld, hbuf, hfc, hrd, hre⟩ := hm
    obtain ⟨cont, held, bufid, frameCount, reads, readRes, input, bytebuf, starved, feedErr, joined⟩ := mt
    simp only at hcont hheld hbuf hfc hrd
    subst hcont hheld hbuf hfc hrd
    by_cases hcap : s.encodeQ.length < p.encodeCap
    · refine Or.inl ⟨.encode_send (some bufid), rfl, ?_⟩
      simp [Par.step, hpc, hcap]
    · refine Or.inr ⟨0, ?_⟩
      par_simp [stuckAt, mRecv, mLocked, mAfterSend, mEnq, mStopOk, mStopErr, mReqStop, mJoinH, mJoinW, joinBody, stopBody, recvBody, errArm, enqBody, fb, feedFn, loopK, mainProg, hcap, C06G_encodeCap]
  | stop r =>
    simp only [MCorrPc, hpc] at hm
    obtain ⟨r', hr, hok, herr, hheld⟩ := hm
    subst hr
    obtain ⟨cont, held, bufid, frameCount, reads, readRes, input, bytebuf, starved, feedErr, joined⟩ := mt
    simp only at hok herr hheld
    subst hheld
    by_cases hcap : s.encodeQ.length < p.encodeCap
    · refine Or.inl ⟨.encode_send none, rfl, ?_⟩
      simp [Par.step, hpc, hcap]
    · refine Or.inr ⟨0, ?_⟩
      cases hre : s.readErr with
      | false =>
        have hcont := hok hre
        subst hcont
        par_simp [stuckAt, mRecv, mLocked, mAfterSend, mEnq, mStopOk, mStopErr, mReqStop, mJoinH, mJoinW, joinBody, stopBody, recvBody, errArm, enqBody, fb, feedFn, loopK, mainProg, hcap, C06G_encodeCap]
      | true =>
        have hcont := herr hre
        subst hcont
        par_simp [stuckAt, mRecv, mLocked, mAfterSend, mEnq, mStopOk, mStopErr, mReqStop, mJoinH, mJoinW, joinBody, stopBody, recvBody, errArm, enqBody, fb, feedFn, loopK, mainProg, hcap, C06G_encodeCap]
  | reqStop =>
    simp only [MCorrPc, hpc] at hm
    obtain ⟨hcont, hheld, hfe⟩ := hm
    obtain ⟨cont, held, bufid, frameCount, reads, readRes, input, bytebuf, starved, feedErr, joined⟩ := mt
    simp only at hcont hheld hfe
    subst hcont hheld
    by_cases hcap : s.md5Q.length < Par.md5Cap
    · refine Or.inl ⟨.md5_send 0, rfl, ?_⟩
      simp [Par.step, hpc, hcap]
    · refine Or.inr ⟨0, ?_⟩
      par_simp [stuckAt, mRecv, mLocked, mAfterSend, mEnq, mStopOk, mStopErr, mReqStop, mJoinH, mJoinW, joinBody, stopBody, recvBody, errArm, enqBody, fb, feedFn, loopK, mainProg, hcap, C06G_md5Cap]
  | joinH =>
    simp only [MCorrPc, hpc] at hm
    obtain ⟨hcont, hheld, hfe⟩ := hm
    obtain ⟨cont, held, bufid, frameCount, reads, readRes, input, bytebuf, starved, feedErr, joined⟩ := mt
    simp only at hcont hheld hfe
    subst hcont hheld
    cases hhx : s.hasher with
    | exited =>
      refine Or.inl ⟨.m_joined_hasher, rfl, ?_⟩
      simp [Par.step, hpc, hhx]
    | running =>
      rw [hhx] at hh
      obtain ⟨hhc, _⟩ := hh
      refine Or.inr ⟨0, ?_⟩
      par_simp [stuckAt, mRecv, mLocked, mAfterSend, mEnq, mStopOk, mStopErr, mReqStop, mJoinH, mJoinW, joinBody, stopBody, recvBody, errArm, enqBody, fb, feedFn, loopK, mainProg, hhc, hRun, hBody, hasherProg]
  | joinW j =>
    simp only [MCorrPc, hpc] at hm
    obtain ⟨r, hr, hcont, hheld, hjd, hfe⟩ := hm
    obtain ⟨cont, held, bufid, frameCount, reads, readRes, input, bytebuf, starved, feedErr, joined⟩ := mt
    simp only at hcont hheld hfe hjd
    subst hcont hheld hjd
    by_cases hjx : joined < s.exitedCount
    · refine Or.inl ⟨.m_joined_worker, rfl, ?_⟩
      simp [Par.step, hpc, hjx]
    · refine Or.inr ⟨0, ?_⟩
      simp only [State.exitedCount] at hjx
      par_simp [stuckAt, mRecv, mLocked, mAfterSend, mEnq, mStopOk, mStopErr, mReqStop, mJoinH, mJoinW, joinBody, stopBody, recvBody, errArm, enqBody, fb, feedFn, loopK, mainProg, hex, hjx]
  | done =>
    simp only [MCorrPc, hpc] at hm
    obtain ⟨hcont, hheld⟩ := hm
    refine Or.inr ⟨0, ?_⟩
    simp [stuckAt, runTau, ParProg.step, stepThr, hcont]

/-- SIMULATION, generated programs -> hand model (full).  From corresponding states, EVERY protocol step a thread of the
generated programs can reach by internal steps is a `Par.step` of the hand model with the same event, and the thread's
internal steps that follow lead to a state corresponding to the hand successor.  (A thread the hand model blocks is
stuck in the program: `C06G_main_dichotomy`, `C06G_worker_dichotomy`, `C06G_hasher_dichotomy`.) -/
theorem C06G_bwd {p : Params} {fill : List Stmt} (hf : fill = fillInterleaved ∨ fill = fillLeBytes)
    {g : PState} {s : State} (hc : Corr p g s) (tid : Tid) {a : Nat} {g1 g2 : PState} {e : Ev}
    (h1 : runTau (env p fill) tid a g = some g1) (h2 : visStep (env p fill) tid g1 = some (e, g2)) :
    ∃ s', Par.step p s e = some s' ∧ tidOf e = tid ∧ ∃ b g', runTau (env p fill) tid b g2 = some g' ∧ Corr p g' s' := by
  have hd : EnabledOrStuck p fill tid g s := by
    cases tid with
    | main => exact C06G_main_dichotomy hf hc
    | worker w => exact C06G_worker_dichotomy w hc
    | hasher => exact C06G_hasher_dichotomy hc
  rcases hd with ⟨e0, rfl, hsome⟩ | ⟨k, hk⟩
  · obtain ⟨s0, hs0⟩ := Option.isSome_iff_exists.mp hsome
    obtain ⟨he, b, g', hb, hc'⟩ := C06G_bwd_enabled hf e0 hc hs0 h1 h2
    subst he
    exact ⟨s0, hs0, rfl, b, g', hb, hc'⟩
  · exact (stuck_no_vis _ _ k g hk a g1 e g2 h1 h2).elim

/-- A run of the generated programs in macro steps (program side only). -/
inductive MacroRun (en : Env) : PState → List Ev → PState → Prop
  | nil (g : PState) : MacroRun en g [] g
  | cons {g g1 g' : PState} {tid : Tid} {a b : Nat} {e : Ev} {evs : List Ev} :
      macroStep en tid a b g = some (e, g1) → MacroRun en g1 evs g' → MacroRun en g (e :: evs) g'

/-- TRACES, hand model -> program: every event list the hand model accepts from a state corresponding to `g` is a macro
run of the generated programs from `g`, ending in a corresponding state. -/
theorem C06G_run_fwd {p : Params} {fill : List Stmt} (hf : fill = fillInterleaved ∨ fill = fillLeBytes) :
    ∀ (evs : List Ev) (g : PState) (s s' : State), Corr p g s → Par.run p s evs = some s' →
      ∃ g', MacroRun (env p fill) g evs g' ∧ Corr p g' s' := by
  intro evs
  induction evs with
  | nil =>
    intro g s s' hc h
    simp only [Par.run] at h; injection h with h; subst h
    exact ⟨g, .nil g, hc⟩
  | cons e evs ih =>
    intro g s s' hc h
    simp only [Par.run] at h
    cases hs : Par.step p s e with
    | none => simp [hs] at h
    | some s1 =>
      simp only [hs] at h
      obtain ⟨a, b, g1, hm, hc1⟩ := C06G_fwd hf e hc hs
      obtain ⟨g', hr, hc'⟩ := ih g1 s1 s' hc1 h
      exact ⟨g', .cons hm hr, hc'⟩

/-- A run of the generated programs in which, after each protocol step, the acting thread runs on to the canonical
continuation that `C06G_bwd` provides (the state `g3` below); `s` is carried only to name that continuation. -/
inductive CanonRun (p : Params) (en : Env) : PState → State → List Ev → State → Prop
  | nil (g : PState) (s : State) : CanonRun p en g s [] s
  | cons {g g1 g2 g3 : PState} {s s1 s' : State} {tid : Tid} {a b : Nat} {e : Ev} {evs : List Ev} :
      runTau en tid a g = some g1 → visStep en tid g1 = some (e, g2) → runTau en tid b g2 = some g3 →
      Par.step p s e = some s1 → Corr p g3 s1 → CanonRun p en g3 s1 evs s' → CanonRun p en g s (e :: evs) s'

/-- TRACES, program -> hand model: however the threads of the generated programs are scheduled at the granularity of
protocol steps (any thread, any reachable protocol step, at every point), the event list is accepted by the hand model:
`C06G_bwd` supplies, after every protocol step, the hand step and the canonical continuation, so such a run can always be
continued in lockstep and is never rejected. -/
theorem C06G_run_bwd {p : Params} {fill : List Stmt} (hf : fill = fillInterleaved ∨ fill = fillLeBytes)
    {g : PState} {s : State} (hc : Corr p g s) (tid : Tid) {a : Nat} {g1 g2 : PState} {e : Ev}
    (h1 : runTau (env p fill) tid a g = some g1) (h2 : visStep (env p fill) tid g1 = some (e, g2)) :
    ∃ s1 b g3, CanonRun p (env p fill) g s [e] s1 ∧ runTau (env p fill) tid b g2 = some g3 ∧ Corr p g3 s1 ∧
      Par.run p s [e] = some s1 := by
  obtain ⟨s1, hs, _, b, g3, hb, hc3⟩ := C06G_bwd hf hc tid h1 h2
  exact ⟨s1, b, g3, .cons h1 h2 hb hs hc3 (.nil g3 s1), hb, hc3, by simp [Par.run, hs]⟩

theorem C06G_canon_run_sound {p : Params} {en : Env} : ∀ (evs : List Ev) (g : PState) (s s' : State),
    CanonRun p en g s evs s' → Par.run p s evs = some s' := by
  intro evs g s s' h
  induction h with
  | nil g s => rfl
  | cons _ _ _ hs _ _ ih => simp [Par.run, hs, ih]

/-- TRACE EQUIVALENCE at the granularity of canonical macro steps: from `Par.init p` resp. the corresponding start state
`g0` of the generated programs, an event list is accepted by iterated `Par.step` iff it is a canonical run of the
program semantics. -/
theorem C06G_traces {p : Params} {fill : List Stmt} (hf : fill = fillInterleaved ∨ fill = fillLeBytes)
    {g : PState} {s : State} (hc : Corr p g s) (evs : List Ev) (s' : State) :
    Par.run p s evs = some s' ↔ CanonRun p (env p fill) g s evs s' := by
  constructor
  · intro h
    induction evs generalizing g s with
    | nil => simp only [Par.run] at h; injection h with h; subst h; exact .nil g s
    | cons e evs ih =>
      simp only [Par.run] at h
      cases hs : Par.step p s e with
      | none => simp [hs] at h
      | some s1 =>
        simp only [hs] at h
        obtain ⟨a, b, g3, hm, hc1⟩ := C06G_fwd hf e hc hs
        simp only [macroStep] at hm
        split at hm
        · rename_i x1 hx1
          split at hm
          · rename_i ex x2 hx2
            split at hm
            · rename_i x3 hx3
              injection hm with hm; injection hm with hm1 hm2
              subst hm1 hm2
              exact .cons hx1 hx2 hx3 hs hc1 (ih hc1 h)
            · simp at hm
          · simp at hm
        · simp at hm
  · exact C06G_canon_run_sound evs g s s'

/-- The result the generated main program assembles when it reaches the end equals `State.result` of the hand model
(the hand pc `done` is entered by the two join events only). -/
theorem C06G_result {p : Params} {fill : List Stmt} {g : PState} {s s' : State} (e : Ev)
    (he : e = .m_joined_hasher ∨ e = .m_joined_worker) (hc : Corr p g s)
    (h : Par.step p s e = some s') (hd : s'.main = .done) :
    ∃ a b g', macroStep (env p fill) .main a b g = some (e, g') ∧ Corr p g' s' ∧ g'.main.cont = [] ∧
      g'.main.result = some s'.result ∧
        ∀ l, s'.result = .ok l → g'.main.digest = s'.hashed ∧ g'.main.sizesSet = true ∧ g'.main.totalSet = true := by
  have key : ∀ a b g', macroStep (env p fill) .main a b g = some (e, g') → Corr p g' s' →
      (s'.main = .done → g'.main.result = some s'.result ∧
        ∀ l, s'.result = .ok l → g'.main.digest = s'.hashed ∧ g'.main.sizesSet = true ∧ g'.main.totalSet = true) →
      ∃ a b g', macroStep (env p fill) .main a b g = some (e, g') ∧ Corr p g' s' ∧ g'.main.cont = [] ∧
        g'.main.result = some s'.result ∧
        ∀ l, s'.result = .ok l → g'.main.digest = s'.hashed ∧ g'.main.sizesSet = true ∧ g'.main.totalSet = true := by
    intro a b g' h1 h2 h3
    refine ⟨a, b, g', h1, h2, ?_, h3 hd⟩
    have := h2.main.1
    simp only [MCorrPc, hd] at this
    exact this.1
  rcases he with rfl | rfl
  · obtain ⟨b, g', h1, h2, h3⟩ := C06G_m_joined_hasher_fwd (fill := fill) hc h; exact key 3 b g' (macroStepC_sound h1) h2 h3
  · obtain ⟨b, g', h1, h2, h3⟩ := C06G_m_joined_worker_fwd (fill := fill) hc h; exact key 1 b g' (macroStepC_sound h1) h2 h3

/-- The state in which the three generated programs start: the main thread at the call of `feed_fixed_block_size`,
`spawnedWorkers` worker closures, the hasher closure; channels, tokens and buffers from the generated constants. -/
def start (p : Params) : PState where
  sh := ⟨initTokens p.W, [], [], List.replicate (nbuf p.W) emptyBuf, [], [], []⟩
  main := { cont := mainProg }
  workers := List.replicate (spawnedWorkers p.W) { cont := workerProg }
  hasher := { cont := hasherProg }

theorem wscorr_replicate (n : Nat) : WsCorr (List.replicate n { cont := workerProg }) (List.replicate n .idle) := by
  induction n with
  | zero => exact .nil
  | succ n ih => exact .cons ⟨rfl, rfl⟩ ih

/-- INITIAL STATES correspond: after the internal steps up to the first `recv` of the main thread and of the hasher,
the start state of the generated programs corresponds to `Par.init p`. -/
theorem C06G_init (p : Params) (fill : List Stmt) :
    ∃ g1 g0, runTau (env p fill) .main 6 (start p) = some g1 ∧ runTau (env p fill) .hasher 1 g1 = some g0 ∧
      Corr p g0 (init p) := by
  refine ⟨{ start p with main := { cont := mRecv } },
    { start p with main := { cont := mRecv }, hasher := { cont := hRun } }, ?_, ?_, ?_⟩
  · simp [runTau, ParProg.step, stepThr, doStmt, doAct, tau, start, mainProg, mRecv, recvBody, fb, feedFn, loopK]
  · simp [runTau, ParProg.step, stepThr, doStmt, tau, start, hasherProg, hRun, hBody]
  · refine ⟨?_, ⟨?_, fun _ => rfl⟩, ?_, ⟨rfl, rfl⟩⟩
    · simp [start, shOf, init, C06G_initTokens, C06G_nbuf]
    · simp [MCorrPc, init]
    · simp only [start, spawnedWorkers, spawnedWorkersExpr, Count.eval, init]; exact wscorr_replicate p.W

/-- The two `Err` arms of the worker's `match encode_result` have the same program (the hand model has one error class). -/
theorem C06G_worker_err_arms :
    (match wBody.drop 7 with | [.matchEnc _ e1 e2] => e1 = e2 | _ => False) := by
  simp [wBody, workerProg]

/-- The hypotheses of the theorems are satisfiable on a non-trivial value: a correspondence exists for `W = 2` with
both `Fill` programs, and the first hand step from `init` is simulated. -/
example : ∃ g, Corr ⟨2, [⟨[1, 2], true⟩], none, true⟩ g (init ⟨2, [⟨[1, 2], true⟩], none, true⟩) := by
  obtain ⟨_, g0, _, _, h⟩ := C06G_init ⟨2, [⟨[1, 2], true⟩], none, true⟩ fillLeBytes
  exact ⟨g0, h⟩

/-! ## traces over the programs' own run notion (`ParProg.ProgRun`: macro steps to the first yield point) -/

theorem settle_unique {en : Env} {tid : Tid} : ∀ (b b' : Nat) (g y y' : PState),
    settle en tid b g = some y → y.yields tid = true → settle en tid b' g = some y' → y'.yields tid = true →
    b = b' ∧ y = y' := by
  intro b
  induction b with
  | zero =>
    intro b' g y y' h1 hy h2 hy'
    simp only [settle] at h1; injection h1 with h1; subst h1
    cases b' with
    | zero => simp only [settle] at h2; injection h2 with h2; exact ⟨rfl, h2⟩
    | succ b' => simp [settle, hy] at h2
  | succ b ih =>
    intro b' g y y' h1 hy h2 hy'
    simp only [settle] at h1
    split at h1
    · simp at h1
    · rename_i hny
      cases b' with
      | zero => simp only [settle] at h2; injection h2 with h2; subst h2; exact absurd hy' hny
      | succ b' =>
        simp only [settle, hny] at h2
        cases hs : ParProg.step en g tid with
        | none => simp [hs] at h1
        | some x =>
          obtain ⟨l, gx⟩ := x
          cases l with
          | ev e0 => simp [hs] at h1
          | tau =>
            simp only [hs] at h1 h2
            obtain ⟨hb, hyy⟩ := ih b' gx y y' h1 hy h2 hy'
            exact ⟨by omega, hyy⟩

/-- the four facts packed in a `macroStepC` -/
theorem macroStepC_unpack {en : Env} {tid : Tid} {a b : Nat} {g g3 : PState} {e : Ev}
    (h : macroStepC en tid a b g = some (e, g3)) :
    ∃ g1 g2, runTau en tid a g = some g1 ∧ visStep en tid g1 = some (e, g2) ∧ settle en tid b g2 = some g3 ∧
      g3.yields tid = true := by
  simp only [macroStepC] at h
  split at h
  · rename_i x1 hx1
    split at h
    · rename_i ex x2 hx2
      split at h
      · rename_i x3 hx3
        split at h
        · rename_i hy
          injection h with h; injection h with h1 h2
          subst h1 h2
          exact ⟨x1, x2, hx1, hx2, hx3, hy⟩
        · simp at h
      · simp at h
    · simp at h
  · simp at h

/-- SIMULATION, program -> hand model, for the programs' own macro steps: from corresponding states every `macroStepC` of
any thread is a `Par.step` with the same event, and the state it ends in (the thread's first yield point - a notion of
the program text alone) corresponds to the hand successor. -/
theorem C06G_bwdC {p : Params} {fill : List Stmt} (hf : fill = fillInterleaved ∨ fill = fillLeBytes)
    {g g3 : PState} {s : State} (hc : Corr p g s) {tid : Tid} {a b : Nat} {e : Ev}
    (h : macroStepC (env p fill) tid a b g = some (e, g3)) :
    ∃ s', Par.step p s e = some s' ∧ tidOf e = tid ∧ Corr p g3 s' := by
  obtain ⟨g1, g2, h1, h2, h3, hy⟩ := macroStepC_unpack h
  obtain ⟨s', hs, ht, _⟩ := C06G_bwd hf hc tid h1 h2
  subst ht
  obtain ⟨a0, b0, gc, hm, hcc⟩ := C06G_fwdC hf e hc hs
  obtain ⟨x1, x2, k1, k2, k3, ky⟩ := macroStepC_unpack hm
  obtain ⟨_, _, h7⟩ := C06G_next_unique _ _ a a0 g g1 x1 e e g2 x2 h1 h2 k1 k2
  subst h7
  obtain ⟨_, h8⟩ := settle_unique b b0 g2 g3 gc h3 hy k3 ky
  subst h8
  exact ⟨s', hs, rfl, hcc⟩

theorem C06G_prog_run_fwd {p : Params} {fill : List Stmt} (hf : fill = fillInterleaved ∨ fill = fillLeBytes) :
    ∀ (evs : List Ev) (g : PState) (s s' : State), Corr p g s → Par.run p s evs = some s' →
      ∃ g', ProgRun (env p fill) g evs g' ∧ Corr p g' s' := by
  intro evs
  induction evs with
  | nil =>
    intro g s s' hc h
    simp only [Par.run] at h; injection h with h; subst h
    exact ⟨g, .nil g, hc⟩
  | cons e evs ih =>
    intro g s s' hc h
    simp only [Par.run] at h
    cases hs : Par.step p s e with
    | none => simp [hs] at h
    | some s1 =>
      simp only [hs] at h
      obtain ⟨a, b, g1, hm, hc1⟩ := C06G_fwdC hf e hc hs
      obtain ⟨g', hr, hc'⟩ := ih g1 s1 s' hc1 h
      exact ⟨g', .cons hm hr, hc'⟩

theorem C06G_prog_run_bwd {p : Params} {fill : List Stmt} (hf : fill = fillInterleaved ∨ fill = fillLeBytes)
    {g g' : PState} {evs : List Ev} (hr : ProgRun (env p fill) g evs g') :
    ∀ s, Corr p g s → ∃ s', Par.run p s evs = some s' ∧ Corr p g' s' := by
  induction hr with
  | nil g => intro s hc; exact ⟨s, rfl, hc⟩
  | cons hm _ ih =>
    intro s hc
    obtain ⟨s1, hs, _, hc1⟩ := C06G_bwdC hf hc hm
    obtain ⟨s', hrun, hc'⟩ := ih s1 hc1
    exact ⟨s', by simp [Par.run, hs, hrun], hc'⟩

/-- the state in which the generated programs wait for their first protocol step: `start p` (whole generated programs,
generated constants) after the initial internal steps of the main thread and of the hasher -/
def start0 (p : Params) : PState := { start p with main := { cont := mRecv }, hasher := { cont := hRun } }

theorem C06G_start0 (p : Params) (fill : List Stmt) :
    (∃ g1, runTau (env p fill) .main 6 (start p) = some g1 ∧ runTau (env p fill) .hasher 1 g1 = some (start0 p)) ∧
      Corr p (start0 p) (init p) := by
  refine ⟨⟨{ start p with main := { cont := mRecv } }, ?_, ?_⟩, ?_⟩
  · simp [runTau, ParProg.step, stepThr, doStmt, doAct, tau, start, mainProg, mRecv, recvBody, fb, feedFn, loopK]
  · simp [runTau, ParProg.step, stepThr, doStmt, tau, start, start0, hasherProg, hRun, hBody]
  · refine ⟨?_, ⟨?_, fun _ => rfl⟩, ?_, ⟨rfl, rfl⟩⟩
    · simp [start0, start, shOf, init, C06G_initTokens, C06G_nbuf]
    · simp [MCorrPc, init, start0]
    · simp only [start0, start, spawnedWorkers, spawnedWorkersExpr, Count.eval, init]; exact wscorr_replicate p.W

/-- TRACE EQUIVALENCE with a run notion of the PROGRAM ALONE.  An event list is accepted by iterated `Par.step` from
`Par.init p` iff it is a run of the generated programs (`ParProg.ProgRun`: at every point any thread takes internal
steps, a protocol step, and internal steps up to its first yield point) from their start state; and the end states
correspond. -/
theorem C06G_traces_prog {p : Params} {fill : List Stmt} (hf : fill = fillInterleaved ∨ fill = fillLeBytes)
    (evs : List Ev) :
    ((∃ s', Par.run p (init p) evs = some s') ↔ ∃ g', ProgRun (env p fill) (start0 p) evs g') ∧
    (∀ s', Par.run p (init p) evs = some s' → ∃ g', ProgRun (env p fill) (start0 p) evs g' ∧ Corr p g' s') ∧
    (∀ g', ProgRun (env p fill) (start0 p) evs g' → ∃ s', Par.run p (init p) evs = some s' ∧ Corr p g' s') := by
  have hc := (C06G_start0 p fill).2
  have h1 : ∀ s', Par.run p (init p) evs = some s' → ∃ g', ProgRun (env p fill) (start0 p) evs g' ∧ Corr p g' s' :=
    fun s' h => C06G_prog_run_fwd hf evs _ _ s' hc h
  have h2 : ∀ g', ProgRun (env p fill) (start0 p) evs g' → ∃ s', Par.run p (init p) evs = some s' ∧ Corr p g' s' :=
    fun g' h => C06G_prog_run_bwd hf h _ hc
  refine ⟨⟨?_, ?_⟩, h1, h2⟩
  · rintro ⟨s', h⟩; obtain ⟨g', hr, _⟩ := h1 s' h; exact ⟨g', hr⟩
  · rintro ⟨g', h⟩; obtain ⟨s', hr, _⟩ := h2 g' h; exact ⟨s', hr⟩

/-! ## the worker count (`determine_worker_count`, generated as `Gen.Par.determineWorkerCount`) -/

theorem filter_pos_getD (o : Option Nat) (d : Nat) (hd : 0 < d) :
    0 < Option.getD (Option.filter (fun n => decide (n > 0)) o) d := by
  cases o with
  | none => simpa using hd
  | some v =>
    by_cases hv : v > 0
    · simp [Option.filter, hv]
    · simp [Option.filter, hv]; exact hd

/-- `determine_worker_count` returns `Err` exactly when `available_parallelism()` does. -/
theorem C06G_worker_count_total (ap : Nat) (envv : Option String) (config : FlacVerif.Gen.Encoder) :
    ∃ W, determineWorkerCount (some ap) envv config = some W := ⟨_, rfl⟩

theorem C06G_worker_count_err (envv : Option String) (config : FlacVerif.Gen.Encoder) :
    determineWorkerCount none envv config = none := rfl

/-- THE HYPOTHESIS `0 < p.W` OF THE C05 / C06 TOP THEOREMS IS DISCHARGED FOR THE CURRENT SOURCE: for every value of the
environment variable (also `"0"`, `""`, garbage, overflow) and every configuration, the worker count is at least 1,
given what the types guarantee: `available_parallelism()` and `config.workers` are `NonZeroUsize`. -/
theorem C06G_worker_count_pos (ap : Nat) (hap : 1 ≤ ap) (envv : Option String) (config : FlacVerif.Gen.Encoder)
    (hcfg : ∀ n, config.workers = some n → 0 < n) (W : Nat)
    (h : determineWorkerCount (some ap) envv config = some W) : 0 < W := by
  simp only [determineWorkerCount, ParProg.bindO] at h
  injection h with h
  subst h
  cases hw : config.workers with
  | none => simp only [ParProg.mapOr]; exact filter_pos_getD _ _ hap
  | some n => simp only [ParProg.mapOr]; exact hcfg n hw

/-- an explicit `config.workers = Some(n)` wins over the environment and the core count -/
theorem C06G_worker_count_config (ap : Nat) (envv : Option String) (config : FlacVerif.Gen.Encoder) (n : Nat)
    (h : config.workers = some n) : determineWorkerCount (some ap) envv config = some n := by
  simp [determineWorkerCount, ParProg.bindO, ParProg.mapOr, h]

/-- without `config.workers`: a positive decimal value of the environment variable wins, anything else (unset, `"0"`,
not a number) leaves the core count -/
theorem C06G_worker_count_env (ap : Nat) (envv : Option String) (config : FlacVerif.Gen.Encoder)
    (h : config.workers = none) :
    determineWorkerCount (some ap) envv config =
      some (match envv.bind (ParProg.parseUsize 64) with | some (n + 1) => n + 1 | _ => ap) := by
  simp only [determineWorkerCount, ParProg.bindO, ParProg.mapOr, h]
  cases hb : envv.bind (fun s => ParProg.parseUsize 64 s) with
  | none => simp [Option.filter]
  | some v => cases v <;> simp [Option.filter]

/-- the reading of `str::parse::<usize>` on the interesting strings -/
example : ParProg.parseUsize 64 "3" = some 3 ∧ ParProg.parseUsize 64 "+12" = some 12 ∧ ParProg.parseUsize 64 "007" = some 7 ∧
    ParProg.parseUsize 64 "0" = some 0 ∧ ParProg.parseUsize 64 "" = none ∧ ParProg.parseUsize 64 "+" = none ∧
    ParProg.parseUsize 64 " 3" = none ∧ ParProg.parseUsize 64 "3 " = none ∧ ParProg.parseUsize 64 "-1" = none ∧
    ParProg.parseUsize 64 "1_0" = none ∧ ParProg.parseUsize 64 "x" = none ∧
    ParProg.parseUsize 64 "18446744073709551615" = some 18446744073709551615 ∧
    ParProg.parseUsize 64 "18446744073709551616" = none := by decide

/-- `FLACENC_WORKERS=0` does NOT give zero workers (the `.filter(|n| *n > 0)` guard); `FLACENC_WORKERS=3` gives 3. -/
example (config : FlacVerif.Gen.Encoder) (h : config.workers = none) :
    determineWorkerCount (some 8) (some "0") config = some 8 ∧ determineWorkerCount (some 8) (some "3") config = some 3 := by
  constructor <;> simp [determineWorkerCount, ParProg.bindO, ParProg.mapOr, h] <;> decide

end FlacVerif.C06Gen
