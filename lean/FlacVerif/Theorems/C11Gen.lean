/-
C11Gen — the hand-written sink models (`Model/Sink.lean`: `WordSink` = `MemSink<u64>`, `ByteSink` = `MemSink<u8>`, `Op.expand`)
are EQUAL to the code generated from the current text of `src/bitsink.rs` (`Gen/Sink.lean`, translator part `sink`,
tools/translate_sink.py), in both cargo profiles (`dbg = true` dev, `dbg = false` release).

Domains.  The hand model has unbounded lengths and describes the dev profile only, so every theorem carries
  * a length bound (`g.bitlength + n < 2 ^ 64`, for `write_zeros` / steps `+ 64`): no `usize` overflow;
  * `hp : dbg = true ∨ n ≤ w`: in the release profile the model is only claimed inside `n ≤ w` (outside, the source wraps
    and the model says "panic": `C11G_release_outside_valid`);
  * `validWidth w` = `w ∈ Sealed.widths` (`C11G_widths`), read from the `impl Sealed for ..` items.
`toWord / ofWord`, `toByte / ofByte` identify the generated `MemSink 64` / `MemSink 8` with the model structures.

Theorems (all without `sorry`; `decide` only on closed finite statements):
  C11G_widths, C11G_consts                the sealed trait: widths {8,16,32,64}; BITS = w, BYTES = w/8, both BITS_LOG2 items agree
  C11G_paddings, C11G_word_paddings, C11G_byte_paddings
  C11G_word_write_msbs_impl               under the debug assertion's condition (dev) / unconditionally (release)
  C11G_word_write_msbs, _write_lsbs, _write, _align_to_byte, _write_zeros, _write_bytes_aligned, _write_twoc
  C11G_byte_align_to_byte, _write_bytes_aligned, _write_zeros, _write_msbs, _write_lsbs, _write, _write_twoc
  C11G_word_step, C11G_byte_step          generated method of an `Op` = `WordSink.step` / `ByteSink.step`
  C11G_word_run, C11G_byte_run            TOP: any valid op list through the generated methods = `WordSink.run` / `ByteSink.run`
  C11G_word_inv, C11G_byte_inv            the representation invariant is preserved by the generated methods, and they append
                                          `op.ideal` to the abstract bit string
  C11G_default_write_twoc, _write_bytes_aligned, _write_zeros   the provided methods of the trait on a recording sink = `Op.expand`
  C11G_new, C11G_accessors, C11G_with_capacity
  C11G_word_write_msbs_impl_debug_assert, C11G_release_outside_valid   where source and model differ (with witnesses)
  C11G_write_to_byte_slice                any element width: the big-endian bytes of the storage overwrite a prefix of `dest`
  C11G_write_to_byte_slice_panics         it panics (both profiles) exactly when `dest` ends before the last element starts
  C11G_word_write_to_byte_slice, C11G_byte_write_to_byte_slice   with a destination of `ceil(len/8)` bytes = `exportBytes`
  C11G_storage                            `as_slice` / `into_inner` = the model's storage
-/
import FlacVerif.Gen.Sink
import FlacVerif.Lemmas.WordSinkStep
import FlacVerif.Lemmas.ByteSinkStep
set_option linter.unusedSimpArgs false
set_option linter.unusedVariables false
namespace FlacVerif.C11Gen
open FlacVerif.Gen.Sink

theorem validWidth_cases {w : Nat} (h : validWidth w = true) : w = 8 ∨ w = 16 ∨ w = 32 ∨ w = 64 := by
  simp [validWidth] at h; omega

theorem C11G_widths (w : Nat) : validWidth w = true ↔ w ∈ Sealed.widths := by
  simp [validWidth, Sealed.widths, or_assoc]

theorem C11G_consts {w : Nat} (h : validWidth w = true) :
    Sealed.BITS w = w ∧ Sealed.BITS_LOG2 w = Sealed.BITS_LOG2_before w ∧ Sealed.BYTES w = w / 8 ∧ 2 ^ Sealed.BITS_LOG2 w = w := by
  rcases validWidth_cases h with rfl | rfl | rfl | rfl <;> decide

theorem and_mask (x k : Nat) : x &&& (2 ^ k - 1) = x % 2 ^ k := Nat.and_two_pow_sub_one_eq_mod x k

theorem C11G_paddings (dbg : Bool) {sw : Nat} (h : validWidth sw = true) (s : MemSink sw) (hl : s.bitlength < 2 ^ 64) :
    MemSink.paddings dbg s = some ((sw - s.bitlength % sw) % sw) := by
  have hb := (C11G_consts h).1
  simp only [MemSink.paddings, hb]
  have h7 := and_mask ((notU 64 s.bitlength + 1) % 2 ^ 64) 3
  have h15 := and_mask ((notU 64 s.bitlength + 1) % 2 ^ 64) 4
  have h31 := and_mask ((notU 64 s.bitlength + 1) % 2 ^ 64) 5
  have h63 := and_mask ((notU 64 s.bitlength + 1) % 2 ^ 64) 6
  simp only [notU, Nat.reducePow, Nat.reduceSub] at h7 h15 h31 h63 hl
  rcases validWidth_cases h with rfl | rfl | rfl | rfl <;>
    simp [subU, notU, Option.bind, h7, h15, h31, h63] <;> omega

/-! ### `MemSink<u64>` = `WordSink` -/

def toWord (g : MemSink 64) : WordSink := ⟨g.storage, g.bitlength⟩
def ofWord (s : WordSink) : MemSink 64 := ⟨s.storage, s.len⟩
@[simp] theorem toWord_ofWord (s : WordSink) : toWord (ofWord s) = s := rfl
@[simp] theorem ofWord_toWord (g : MemSink 64) : ofWord (toWord g) = g := rfl

theorem modify_last {α : Type} (xs : List α) (f : α → α) :
    xs.modify (xs.length - 1) f = (match lastMut xs with | some p => setLast xs (f p) | none => xs) := by
  rcases List.eq_nil_or_concat xs with rfl | ⟨ys, a, rfl⟩
  · simp [lastMut]
  · simp only [lastMut, setLast, List.getLast?_append, List.getLast?_singleton, Option.some_or,
      List.dropLast_concat, List.length_append, List.length_singleton, Nat.add_sub_cancel]
    apply List.ext_getElem?
    intro j
    simp only [List.getElem?_modify, List.getElem?_append, List.length_append, List.length_singleton]
    by_cases h1 : j < ys.length
    · have : ¬ ys.length = j := by omega
      simp [h1, this, List.getElem?_append_left h1]
    · by_cases h2 : j = ys.length
      · subst h2; simp
      · have : ¬ ys.length = j := by omega
        skip
        rw [List.getElem?_eq_none (by simp; omega), List.getElem?_eq_none (by simp; omega)]
        simp

theorem C11G_word_paddings (dbg : Bool) (g : MemSink 64) (hl : g.bitlength < 2 ^ 64) :
    MemSink.paddings dbg g = some (toWord g).paddings := C11G_paddings dbg (by decide) g hl

theorem C11G_word_write_msbs_impl (dbg : Bool) {w : Nat} (hw : validWidth w = true) (g : MemSink 64) (val : BitVec w) (n : Nat)
    (hl : g.bitlength + n < 2 ^ 64)
    (hd : dbg = true → 0 < n ∧ n ≤ w ∧ (val >>> (w - n)) <<< (w - n) = val) :
    MemSinkU64.write_msbs_impl dbg g val n = some (ofWord ((toWord g).writeMsbsImpl (WordSink.widen val) n)) := by
  have hb := (C11G_consts hw).1
  have hp := C11G_word_paddings dbg g (by omega)
  have hr : (toWord g).paddings < 64 := by simp only [WordSink.paddings]; omega
  have hw0 : 64 - w < 64 := by rcases validWidth_cases hw with rfl | rfl | rfl | rfl <;> omega
  have hw64 : w ≤ 64 := by rcases validWidth_cases hw with rfl | rfl | rfl | rfl <;> omega
  have hassert : (if dbg = true then
      (subU dbg 64 w n).bind fun v1 => (shrB dbg val v1).bind fun v2 => (subU dbg 64 w n).bind fun v3 =>
      (shlB dbg v2 v3).bind fun v4 => req (decide (v4 = val)) else some ()) = some () := by
    cases dbg with
    | false => simp
    | true =>
      obtain ⟨h0, hn, he⟩ := hd rfl
      have : w - n < w := by omega
      simp [subU, shrB, shlB, hn, this, he, req]
  simp only [MemSinkU64.write_msbs_impl, hb, hassert, hp, Option.bind_some]
  generalize hrr : (toWord g).paddings = r at hr
  have h1 : g.bitlength + n < 2 ^ 64 := hl
  simp only [addU, h1, if_true, Option.bind_some, subU, hw64, shlB, hw0]
  have h2 : r % 2 ^ 32 = r := by omega
  have h3 : r ≤ 64 := by omega
  simp only [h2, h3, if_true, Option.bind_some, WordSink.writeMsbsImpl, hrr, WordSink.widen]
  simp only [ofWord, toWord, modify_last]
  by_cases hr0 : r = 0
  · subst hr0; simp; split <;> rfl
  · have : r % 64 = r := by omega
    simp only [hr0, this, ne_eq, not_false_eq_true, if_true]
    cases lastMut g.storage <;> simp <;> split <;> rfl

theorem shr_shl_of_low_clear {w : Nat} (v : BitVec w) (k : Nat) (h : ∀ i, i < k → v.getLsbD i = false) :
    (v >>> k) <<< k = v := by
  apply BitVec.eq_of_getLsbD_eq
  intro i hi
  simp only [BitVec.getLsbD_shiftLeft, BitVec.getLsbD_ushiftRight, hi, decide_true, Bool.true_and]
  by_cases hk : i < k
  · simp [hk, h i hk]
  · simp [hk]; congr 1; omega

theorem mask_low_clear {w : Nat} (val : BitVec w) (k : Nat) (hk : k < w) (i : Nat) (hi : i < k) :
    (val &&& ~~~((1#w <<< k) - 1#w)).getLsbD i = false := by
  rw [lowMask_eq w k hk]
  have : i < w := by omega
  simp [BitVec.getLsbD_and, BitVec.getLsbD_not, BitVec.getLsbD_ofNat, Nat.testBit_two_pow_sub_one, this, hi]

theorem one_le_shl {w : Nat} (k : Nat) (hk : k < w) : (1#w).toNat ≤ (1#w <<< k).toNat := by
  have h1 : 1 < 2 ^ w := Nat.one_lt_two_pow (by omega)
  have hkw : 2 ^ k < 2 ^ w := Nat.pow_lt_pow_right (by omega) hk
  have hpos : 0 < 2 ^ k := Nat.two_pow_pos k
  simp only [BitVec.toNat_shiftLeft, BitVec.toNat_ofNat, Nat.shiftLeft_eq]
  rw [Nat.mod_eq_of_lt h1, Nat.one_mul, Nat.mod_eq_of_lt hkw]; omega

/-- the masking statement `val &= !((T::one() << (T::BITS - n)) - T::one())` as generated: the three checked steps -/
theorem gen_mask (dbg : Bool) {w : Nat} (n : Nat) (hn0 : n ≠ 0) (hp : dbg = true ∨ n ≤ w) {β : Type}
    (k : BitVec w → Option β) :
    ((subU dbg 64 w n).bind fun v1 => (shlB dbg (1#w) v1).bind fun v2 => (subB dbg v2 (1#w)).bind k)
      = if n ≤ w then k ((1#w <<< (w - n)) - 1#w) else none := by
  by_cases hn : n ≤ w
  · have hk : w - n < w := by omega
    simp only [subU, hn, if_true, Option.bind_some, shlB, hk, subB, one_le_shl _ hk]
  · have hd : dbg = true := by rcases hp with h | h; exact h; omega
    simp [subU, hn, hd]

theorem C11G_word_write_msbs (dbg : Bool) {w : Nat} (hw : validWidth w = true) (g : MemSink 64) (val : BitVec w) (n : Nat)
    (hl : g.bitlength + n < 2 ^ 64) (hp : dbg = true ∨ n ≤ w) :
    MemSinkU64.write_msbs dbg g val n = ((toWord g).writeMsbs val n).map ofWord := by
  have hb := (C11G_consts hw).1
  by_cases hn0 : n = 0
  · simp [MemSinkU64.write_msbs, WordSink.writeMsbs, hn0]
  · simp only [MemSinkU64.write_msbs, WordSink.writeMsbs, hn0, if_false, hb]
    rw [gen_mask dbg n hn0 hp]
    by_cases hn : n ≤ w
    · have hk : w - n < w := by omega
      simp only [hn, if_true]
      have hm : maskMsbs val n = some (val &&& ~~~((1#w <<< (w - n)) - 1#w)) := by
        simp [maskMsbs, chkSub, chkShl, hn, hk, bind, Option.bind]
      rw [hm]
      simp only [Option.bind_some, bind]
      rw [C11G_word_write_msbs_impl dbg hw g _ n hl]
      · simp
      · intro _
        exact ⟨by omega, hn, shr_shl_of_low_clear _ _ (mask_low_clear val (w - n) hk)⟩
    · have hm : maskMsbs val n = none := by simp [maskMsbs, chkSub, hn, bind, Option.bind]
      simp [hm, bind, hn]

theorem C11G_word_write_lsbs (dbg : Bool) {w : Nat} (hw : validWidth w = true) (g : MemSink 64) (val : BitVec w) (n : Nat)
    (hl : g.bitlength + n < 2 ^ 64) (hp : dbg = true ∨ n ≤ w) :
    MemSinkU64.write_lsbs dbg g val n = ((toWord g).writeLsbs val n).map ofWord := by
  have hb := (C11G_consts hw).1
  by_cases hn0 : n = 0
  · simp [MemSinkU64.write_lsbs, WordSink.writeLsbs, hn0]
  · simp only [MemSinkU64.write_lsbs, WordSink.writeLsbs, hn0, if_false, hb]
    by_cases hn : n ≤ w
    · have hk : w - n < w := by omega
      simp only [subU, hn, if_true, Option.bind_some, shlB, hk, chkSub, chkShl, bind]
      rw [C11G_word_write_msbs_impl dbg hw g _ n hl]
      · simp
      · intro _
        refine ⟨by omega, hn, shr_shl_of_low_clear _ _ ?_⟩
        intro i hi
        simp [BitVec.getLsbD_shiftLeft, hi]
    · have hd : dbg = true := by rcases hp with h | h; exact h; omega
      simp [subU, hn, hd, chkSub, bind, Option.bind]

theorem C11G_word_write (dbg : Bool) {w : Nat} (hw : validWidth w = true) (g : MemSink 64) (val : BitVec w)
    (hl : g.bitlength + w < 2 ^ 64) :
    MemSinkU64.write dbg g val = ((toWord g).writeMsbs val w).map ofWord := by
  simp only [MemSinkU64.write, (C11G_consts hw).1, C11G_word_write_msbs dbg hw g val w hl (Or.inr (Nat.le_refl _))]
  cases (toWord g).writeMsbs val w <;> simp

theorem C11G_word_align_to_byte (dbg : Bool) (g : MemSink 64) (hl : g.bitlength + 7 < 2 ^ 64) :
    MemSinkU64.align_to_byte dbg g = some ((toWord g).paddingsToByte, ofWord (toWord g).alignToByte) := by
  have h7 := and_mask ((notU 64 g.bitlength + 1) % 2 ^ 64) 3
  simp only [notU, Nat.reducePow, Nat.reduceSub] at h7 hl
  have hpb : MemSink.paddings_to_byte g = (toWord g).paddingsToByte := by
    simp only [MemSink.paddings_to_byte, notU, Nat.reducePow, Nat.reduceSub, h7, WordSink.paddingsToByte, toWord]; omega
  have : g.bitlength + (toWord g).paddingsToByte < 2 ^ 64 := by
    simp only [WordSink.paddingsToByte, toWord, Nat.reducePow]; omega
  simp only [MemSinkU64.align_to_byte, hpb, addU, this, if_true, Option.bind_some]
  simp [WordSink.alignToByte, ofWord, toWord]

theorem C11G_word_write_zeros (dbg : Bool) (g : MemSink 64) (n : Nat)
    (hl : g.bitlength + n + 64 < 2 ^ 64) (hs : g.storage.length ≤ g.bitlength) :
    MemSinkU64.write_zeros dbg g n = some (ofWord ((toWord g).writeZeros n)) := by
  have hp := C11G_word_paddings dbg g (by omega)
  have hr : (toWord g).paddings < 64 := by simp only [WordSink.paddings]; omega
  simp only [MemSinkU64.write_zeros, hp, Option.bind_some, (C11G_consts (w := 64) (by decide)).1]
  generalize hrr : (toWord g).paddings = r at hr
  have h1 : g.bitlength + n < 2 ^ 64 := by omega
  have h2 : n - r + 64 < 2 ^ 64 := by omega
  have h3 : Sealed.BITS_LOG2 64 = 6 := by decide
  have h4 : 1 ≤ n - r + 64 := by omega
  have h5 : shrU (n - r + 64 - 1) 6 = (n - r + 63) / 64 := by
    have : n - r + 64 - 1 = n - r + 63 := by omega
    simp [shrU, this]
  simp only [addU, h1, h2, if_true, Option.bind_some, subU, h4, h3, shAmt, show (6 : Nat) < 64 by omega, h5,
    WordSink.writeZeros, hrr]
  simp only [ofWord, toWord]
  by_cases he : (n - r + 63) / 64 > 0
  · have h6 : g.storage.length + (n - r + 63) / 64 < 2 ^ 64 := by omega
    simp [he, h6, vecResize, List.take_of_length_le]
  · have : (n - r + 63) / 64 = 0 := by omega
    simp [this]

theorem word_writeMsbs_len {w : Nat} (s s' : WordSink) (val : BitVec w) (n : Nat) (h : s.writeMsbs val n = some s') :
    s'.len = s.len + n := by
  simp only [WordSink.writeMsbs] at h
  split at h
  · simp_all
  · cases hm : maskMsbs val n with
    | none => simp [hm, bind] at h
    | some m => simp [hm, bind, WordSink.writeMsbsImpl] at h; subst h; rfl

theorem word_forO_write (dbg : Bool) (bytes : List (BitVec 8)) (g : MemSink 64) (hl : g.bitlength + 8 * bytes.length < 2 ^ 64) :
    (forO bytes g fun b self => (MemSinkU64.write dbg self b).bind fun self => some self)
      = (bytes.foldlM (fun (s : WordSink) b => s.writeMsbs b 8) (toWord g)).map ofWord := by
  induction bytes generalizing g with
  | nil => simp [forO]
  | cons b bs ih =>
    simp only [List.length_cons] at hl
    simp only [forO, List.foldlM_cons, C11G_word_write dbg (w := 8) (by decide) g b (by omega)]
    cases hm : (toWord g).writeMsbs b 8 with
    | none => simp [bind]
    | some s' =>
      have hlen := word_writeMsbs_len _ _ _ _ hm
      simp only [Option.map_some, Option.bind_some, bind]
      rw [ih (ofWord s') (by simp only [ofWord, hlen, toWord]; omega)]
      simp

theorem C11G_word_write_bytes_aligned (dbg : Bool) (g : MemSink 64) (bytes : List (BitVec 8))
    (hl : g.bitlength + 7 + 8 * bytes.length < 2 ^ 64) :
    MemSinkU64.write_bytes_aligned dbg g bytes =
      (bytes.foldlM (fun (s : WordSink) b => s.writeMsbs b 8) (toWord g).alignToByte).map
        fun s => ((toWord g).paddingsToByte, ofWord s) := by
  simp only [MemSinkU64.write_bytes_aligned, C11G_word_align_to_byte dbg g (by omega), Option.bind_some]
  rw [word_forO_write dbg bytes _ (by
    simp only [ofWord, WordSink.alignToByte, toWord, WordSink.paddingsToByte]; omega)]
  simp only [toWord_ofWord]
  cases bytes.foldlM (fun (s : WordSink) b => s.writeMsbs b 8) (toWord g).alignToByte <;> simp

theorem C11G_word_write_twoc (dbg : Bool) (g : MemSink 64) (v : Int) (n : Nat)
    (hl : g.bitlength + n < 2 ^ 64) (hp : dbg = true ∨ (1 ≤ n ∧ n ≤ 64)) :
    MemSinkU64.write_twoc dbg g v n = ((toWord g).step (.writeTwoc v n)).map fun s => (Except.ok (), ofWord s) := by
  simp only [MemSinkU64.write_twoc, BitSink.write_twoc, WordSink.step, MemSinkU64.req]
  by_cases hn : n ≤ 64
  · by_cases h0 : n = 0
    · have hd : dbg = true := by rcases hp with h | h; exact h; omega
      simp [subU, shlB, chkSub, chkShl, h0, hd, bind]
    · have hk : 64 - n < 64 := by omega
      simp only [subU, hn, if_true, Option.bind_some, shlB, hk, chkSub, chkShl, bind]
      rw [C11G_word_write_msbs dbg (w := 64) (by decide) g _ n hl (Or.inr hn)]
      cases (toWord g).writeMsbs (BitVec.ofInt 64 v <<< (64 - n)) n <;> simp
  · have hd : dbg = true := by rcases hp with h | h; exact h; omega
    simp [subU, chkSub, hn, hd, bind]

/-- the generated method an `Op` stands for (the sink-method -> `Op` table of part `writer`, read backwards) -/
def genStepWord (dbg : Bool) (g : MemSink 64) : Op → Option (MemSink 64)
  | .alignToByte => (MemSinkU64.align_to_byte dbg g).map (·.2)
  | .writeLsbs w v n => MemSinkU64.write_lsbs dbg g (BitVec.ofNat w v) n
  | .writeMsbs w v n => MemSinkU64.write_msbs dbg g (BitVec.ofNat w v) n
  | .write w v => MemSinkU64.write dbg g (BitVec.ofNat w v)
  | .writeTwoc v n => (MemSinkU64.write_twoc dbg g v n).map (·.2)
  | .writeZeros n => MemSinkU64.write_zeros dbg g n
  | .writeBytesAligned bs => (MemSinkU64.write_bytes_aligned dbg g (bs.map (BitVec.ofNat 8))).map (·.2)

/-- upper bound of the number of bits an operation appends -/
def grow : Op → Nat
  | .alignToByte => 7
  | .writeLsbs _ _ n => n
  | .writeMsbs _ _ n => n
  | .write w _ => w
  | .writeTwoc _ n => n
  | .writeZeros n => n
  | .writeBytesAligned bs => 7 + 8 * bs.length

theorem C11G_word_step (dbg : Bool) (g : MemSink 64) (op : Op) (hv : op.Valid)
    (hs : g.storage.length ≤ g.bitlength) (hl : g.bitlength + grow op + 64 < 2 ^ 64) :
    genStepWord dbg g op = ((toWord g).step op).map ofWord := by
  cases op with
  | alignToByte =>
    simp only [grow] at hl
    simp [genStepWord, WordSink.step, C11G_word_align_to_byte dbg g (by omega)]
  | writeLsbs w v n =>
    obtain ⟨hw, _, hn⟩ := hv
    simp only [grow] at hl
    simp only [genStepWord, WordSink.step, C11G_word_write_lsbs dbg hw g _ n (by omega) (Or.inr hn)]
  | writeMsbs w v n =>
    obtain ⟨hw, _, hn⟩ := hv
    simp only [grow] at hl
    simp only [genStepWord, WordSink.step, C11G_word_write_msbs dbg hw g _ n (by omega) (Or.inr hn)]
  | write w v =>
    obtain ⟨hw, _⟩ := hv
    simp only [grow] at hl
    simp only [genStepWord, WordSink.step, C11G_word_write dbg hw g _ (by omega)]
  | writeTwoc v n =>
    obtain ⟨h1, h2, _⟩ := hv
    simp only [grow] at hl
    simp only [genStepWord, C11G_word_write_twoc dbg g v n (by omega) (Or.inr ⟨h1, h2⟩), Option.map_map]
    cases (toWord g).step (.writeTwoc v n) <;> simp
  | writeZeros n =>
    simp only [grow] at hl
    simp [genStepWord, WordSink.step, C11G_word_write_zeros dbg g n (by omega) hs]
  | writeBytesAligned bs =>
    simp only [grow] at hl
    simp only [genStepWord, WordSink.step,
      C11G_word_write_bytes_aligned dbg g (bs.map (BitVec.ofNat 8)) (by simp only [List.length_map]; omega), Option.map_map, List.foldlM_map]
    cases List.foldlM (fun (s : WordSink) b => s.writeMsbs (BitVec.ofNat 8 b) 8) (toWord g).alignToByte bs <;> simp

theorem word_foldlM_len (bs : List Nat) (s s' : WordSink)
    (h : bs.foldlM (fun (s : WordSink) b => s.writeMsbs (BitVec.ofNat 8 b) 8) s = some s') : s'.len = s.len + 8 * bs.length := by
  induction bs generalizing s with
  | nil => simp at h; subst h; simp
  | cons b bs ih =>
    simp only [List.foldlM_cons, bind] at h
    cases hm : s.writeMsbs (BitVec.ofNat 8 b) 8 with
    | none => simp [hm] at h
    | some s1 =>
      simp only [hm, Option.bind_some] at h
      have := word_writeMsbs_len _ _ _ _ hm
      rw [ih s1 h, this, List.length_cons]; omega

theorem word_step_len (s s' : WordSink) (op : Op) (h : s.step op = some s') : s'.len ≤ s.len + grow op := by
  cases op with
  | alignToByte =>
    simp [WordSink.step, WordSink.alignToByte] at h; subst h
    simp only [grow, WordSink.paddingsToByte]; omega
  | writeLsbs w v n =>
    simp only [WordSink.step, WordSink.writeLsbs] at h
    split at h
    · simp_all [grow]
    · cases h1 : chkSub w n with
      | none => simp [h1, bind] at h
      | some k =>
        cases h2 : chkShl (BitVec.ofNat w v) k with
        | none => simp [h1, h2, bind] at h
        | some m => simp [h1, h2, bind, WordSink.writeMsbsImpl] at h; subst h; simp [grow]
  | writeMsbs w v n => simp only [WordSink.step] at h; simp [grow, word_writeMsbs_len _ _ _ _ h]
  | write w v => simp only [WordSink.step] at h; simp [grow, word_writeMsbs_len _ _ _ _ h]
  | writeTwoc v n =>
    simp only [WordSink.step] at h
    cases h1 : chkSub 64 n with
    | none => simp [h1, bind] at h
    | some k =>
      cases h2 : chkShl (BitVec.ofInt 64 v) k with
      | none => simp [h1, h2, bind] at h
      | some m => simp only [h1, h2, bind, Option.bind_some] at h; simp [grow, word_writeMsbs_len _ _ _ _ h]
  | writeZeros n => simp [WordSink.step, WordSink.writeZeros] at h; subst h; simp [grow]
  | writeBytesAligned bs =>
    simp only [WordSink.step] at h
    have := word_foldlM_len bs _ _ h
    simp only [WordSink.alignToByte, WordSink.paddingsToByte] at this
    simp only [grow]; omega

/-- running any op list through the generated methods of `MemSink<u64>` = `WordSink.run` -/
theorem C11G_word_run (dbg : Bool) (g : MemSink 64) (ops : List Op) (hi : (toWord g).Inv) (hv : ∀ op ∈ ops, op.Valid)
    (hl : g.bitlength + (ops.map grow).sum + 64 < 2 ^ 64) :
    ops.foldlM (genStepWord dbg) g = ((toWord g).run ops).map ofWord := by
  induction ops generalizing g with
  | nil => simp [WordSink.run]
  | cons op ops ih =>
    simp only [List.map_cons, List.sum_cons] at hl
    have hsz : g.storage.length ≤ g.bitlength := by
      have := hi.size; simp only [toWord] at this; omega
    obtain ⟨s', hs', hr⟩ := WordSink.step_refines (toWord g) hi op (hv op (by simp))
    have hlen := word_step_len _ _ _ hs'
    simp only [List.foldlM_cons, WordSink.run, C11G_word_step dbg g op (hv op (by simp)) hsz (by omega), hs', bind,
      Option.map_some, Option.bind_some]
    have := ih (ofWord s') (by simpa using hr.inv) (fun o ho => hv o (by simp [ho]))
      (by simp only [ofWord]; simp only [toWord] at hlen; omega)
    simpa [WordSink.run] using this

/-! ### `MemSink<u8>` = `ByteSink` -/

def toByte (g : MemSink 8) : ByteSink := ⟨g.storage, g.bitlength⟩
def ofByte (s : ByteSink) : MemSink 8 := ⟨s.storage, s.len⟩
@[simp] theorem toByte_ofByte (s : ByteSink) : toByte (ofByte s) = s := rfl
@[simp] theorem ofByte_toByte (g : MemSink 8) : ofByte (toByte g) = g := rfl

theorem C11G_byte_paddings (dbg : Bool) (g : MemSink 8) (hl : g.bitlength < 2 ^ 64) :
    MemSink.paddings dbg g = some (toByte g).paddings := C11G_paddings dbg (by decide) g hl

theorem C11G_byte_align_to_byte (dbg : Bool) (g : MemSink 8) (hl : g.bitlength + 7 < 2 ^ 64) :
    MemSinkU8.align_to_byte dbg g = some ((toByte g).paddings, ofByte (toByte g).alignToByte) := by
  have hp := C11G_byte_paddings dbg g (by omega)
  have : g.bitlength + (toByte g).paddings < 2 ^ 64 := by
    simp only [ByteSink.paddings, toByte]; omega
  simp only [MemSinkU8.align_to_byte, hp, addU, this, if_true, Option.bind_some]
  simp [ByteSink.alignToByte, ofByte, toByte]

theorem C11G_byte_write_bytes_aligned (dbg : Bool) (g : MemSink 8) (bytes : List (BitVec 8))
    (hl : g.bitlength + 7 + 8 * bytes.length < 2 ^ 64) :
    MemSinkU8.write_bytes_aligned dbg g bytes =
      some ((toByte g).paddings, ofByte ((toByte g).writeBytesAligned (bytes.map BitVec.toNat))) := by
  have h1 : 8 * bytes.length < 2 ^ 64 := by omega
  have h2 : g.bitlength + (toByte g).paddings + 8 * bytes.length < 2 ^ 64 := by
    simp only [ByteSink.paddings, toByte]; omega
  simp only [MemSinkU8.write_bytes_aligned, C11G_byte_align_to_byte dbg g (by omega), Option.bind_some, mulU, h1, if_true,
    addU, ofByte, ByteSink.alignToByte]
  simp only [toByte] at h2
  simp only [toByte, h2, if_true, Option.bind_some]
  simp [ByteSink.writeBytesAligned, ByteSink.alignToByte, List.map_map, Function.comp_def]

theorem C11G_byte_write_zeros (dbg : Bool) (g : MemSink 8) (n : Nat)
    (hl : g.bitlength + n + 8 < 2 ^ 64) (hs : g.storage.length ≤ g.bitlength) :
    MemSinkU8.write_zeros dbg g n = some (ofByte ((toByte g).writeZeros n)) := by
  have hp := C11G_byte_paddings dbg g (by omega)
  have hr : (toByte g).paddings < 8 := by simp only [ByteSink.paddings]; omega
  simp only [MemSinkU8.write_zeros, hp, Option.bind_some, ByteSink.writeZeros]
  generalize hrr : (toByte g).paddings = r at hr
  by_cases hn : n ≤ r
  · have h1 : g.bitlength + n < 2 ^ 64 := by omega
    simp [hn, addU, h1, ofByte, toByte]
  · have h1 : g.bitlength + r < 2 ^ 64 := by omega
    have h2 : r ≤ n := by omega
    have h3 : n - r + 7 < 2 ^ 64 := by omega
    have h4 : g.storage.length + (n - r + 7) / 8 < 2 ^ 64 := by omega
    have h5 : g.bitlength + r + (n - r) < 2 ^ 64 := by omega
    have h6 : shrU (n - r + 7) 3 = (n - r + 7) / 8 := by simp [shrU]
    simp only [hn, if_false, addU, h1, if_true, Option.bind_some, subU, h2, h3, h6, h4, h5, ofByte, toByte]
    simp [vecResize, List.take_of_length_le]

theorem forO_append {α σ : Type} (xs ys : List α) (s : σ) (f : α → σ → Option σ) :
    forO (xs ++ ys) s f = (forO xs s f).bind fun s' => forO ys s' f := by
  induction xs generalizing s with
  | nil => simp [forO]
  | cons x xs ih =>
    simp only [List.cons_append, forO]
    cases f x s <;> simp [ih]

theorem leBytes_getElem? {w : Nat} (val : BitVec w) (j : Nat) (hj : j < w / 8) :
    (leBytes val)[j]? = some ((val >>> (8 * j)).setWidth 8) := by
  simp [leBytes, hj]

/-- the byte loop of `MemSink<u8>::write_msbs` (little-endian target) -/
theorem byte_loop (dbg : Bool) {w : Nat} (hw8 : w % 8 = 0) (val : BitVec w) (m : Nat) (hm : m ≤ w / 8) (g : MemSink 8) :
    (forO (rangeL 0 m) g fun i self =>
      (subU dbg 64 (sizeOfT w) i).bind fun v11 => (subU dbg 64 v11 1).bind fun v12 => ((leBytes val)[v12]?).bind fun v13 =>
      some { self with storage := self.storage ++ [v13] })
    = some { g with storage := g.storage ++ (List.range m).map (fun i => (val >>> (w - 8 * (i + 1))).setWidth 8) } := by
  induction m with
  | zero => simp [rangeL, forO]
  | succ m ih =>
    have hr : rangeL 0 (m + 1) = rangeL 0 m ++ [m] := by
      simp [rangeL, List.range'_concat]
    rw [hr, forO_append, ih (by omega)]
    have h1 : m ≤ w / 8 := by omega
    have h2 : 1 ≤ w / 8 - m := by omega
    have h3 : w / 8 - m - 1 < w / 8 := by omega
    have h4 : 8 * (w / 8 - m - 1) = w - 8 * (m + 1) := by omega
    simp [forO, sizeOfT, subU, h1, h2, leBytes_getElem? val _ h3, h4, List.range_succ]

/-- the part of the generated `MemSink<u8>::write_msbs` after the partial last byte has been filled (the join point `k6` of
the generated term: whole bytes, then the tail byte) -/
def tailGen (dbg : Bool) {w : Nat} (self : MemSink 8) (val : BitVec w) (n : Nat) : Option (MemSink 8) :=
  let bytes_to_write := shrU n 3
  let k7 : (MemSink 8) × Nat → Option (MemSink 8) := fun (self, n) =>
      if n > 0 then
        (shlB dbg val (shlU 64 bytes_to_write 3)).bind fun v8 =>
        let val := v8
        (subU dbg 64 (Sealed.BITS w) 8).bind fun v9 =>
        (shrB dbg val v9).bind fun v10 =>
        let tail_byte := v10.setWidth 8
        let self := { self with storage := self.storage ++ [tail_byte] }
        some self
      else
        some self
  if bytes_to_write > 0 then
    let bytes := leBytes val
    let bytes := bytes
    (forO (rangeL 0 bytes_to_write) self fun i self =>
        (subU dbg 64 (sizeOfT w) i).bind fun v11 =>
        (subU dbg 64 v11 1).bind fun v12 =>
        (bytes[v12]?).bind fun v13 =>
        let self := { self with storage := self.storage ++ [v13] }
        some self).bind fun self =>
    let n := n &&& 7
    k7 (self, n)
  else
    k7 (self, n)

/-- the generated `write_msbs` of `MemSink<u8>` with its join point named -/
theorem byte_write_msbs_unfold (dbg : Bool) {w : Nat} (self : MemSink 8) (val : BitVec w) (n : Nat) :
    MemSinkU8.write_msbs dbg self val n =
    if n = 0 then some self else
    (MemSink.paddings dbg self).bind fun r =>
    (addU dbg 64 self.bitlength n).bind fun v2 =>
    let self := { self with bitlength := v2 }
    (subU dbg 64 (Sealed.BITS w) n).bind fun v3 =>
    (shlB dbg (1#w) v3).bind fun v4 =>
    (subB dbg v4 (1#w)).bind fun v5 =>
    let val := val &&& (~~~v5)
    if r ≠ 0 then
      (subU dbg 64 (Sealed.BITS w) r).bind fun v14 =>
      (shrB dbg val v14).bind fun v15 =>
      let b := v15.setWidth 8
      (lastMut self.storage).bind fun v16 =>
      let self := { self with storage := setLast self.storage (v16 ||| b) }
      (shlB dbg val r).bind fun v17 =>
      let val := v17
      if r ≥ n then some self
      else (subU dbg 64 n r).bind fun v18 => tailGen dbg self val v18
    else tailGen dbg self val n := rfl

theorem gen_tail (dbg : Bool) {w : Nat} (hw : validWidth w = true) (g : MemSink 8) (val : BitVec w) (n : Nat) (hn : n ≤ w) :
    tailGen dbg g val n = (ByteSink.writeMsbs.tailBytes g.storage g.bitlength val n).map ofByte := by
  have hb := (C11G_consts hw).1
  have hw8 : w % 8 = 0 := by rcases validWidth_cases hw with rfl | rfl | rfl | rfl <;> rfl
  have hw64 : w ≤ 64 := by rcases validWidth_cases hw with rfl | rfl | rfl | rfl <;> omega
  have hw8' : 8 ≤ w := by rcases validWidth_cases hw with rfl | rfl | rfl | rfl <;> omega
  have h3 : shrU n 3 = n / 8 := by simp [shrU]
  have h4 : shlU 64 (n / 8) 3 = n / 8 * 8 := by
    simp only [shlU]; rw [Nat.mod_eq_of_lt] <;> omega
  have h7 : n &&& 7 = n % 8 := and_mask n 3
  have hsub : w - 8 < w := by omega
  simp only [tailGen, h3, h4, hb, ByteSink.writeMsbs.tailBytes]
  by_cases hb0 : n / 8 > 0
  · simp only [hb0, if_true, byte_loop dbg hw8 val (n / 8) (by omega) g, Option.bind_some, h7]
    by_cases ht : n % 8 > 0
    · have : n / 8 * 8 < w := by omega
      simp [ht, shlB, this, subU, hw8', shrB, hsub, chkShl, chkSub, chkShr, bind, ofByte]
    · simp [ht, ofByte]
  · have hz : n / 8 = 0 := by omega
    have hn8 : n % 8 = n := by omega
    simp only [hb0, if_false, hz, hn8, List.range_zero, List.map_nil, List.append_nil]
    by_cases ht : n > 0
    · have : 0 < w := by omega
      simp [ht, shlB, this, subU, hw8', shrB, hsub, chkShl, chkSub, chkShr, bind, ofByte]
    · simp [ht, ofByte]

theorem lastMut_none_iff {α : Type} (xs : List α) : lastMut xs = none ↔ xs.isEmpty = true := by
  cases xs <;> simp [lastMut]

theorem C11G_byte_write_msbs (dbg : Bool) {w : Nat} (hw : validWidth w = true) (g : MemSink 8) (val : BitVec w) (n : Nat)
    (hl : g.bitlength + n < 2 ^ 64) (hp : dbg = true ∨ n ≤ w) :
    MemSinkU8.write_msbs dbg g val n = ((toByte g).writeMsbs val n).map ofByte := by
  have hb := (C11G_consts hw).1
  have hw8' : 8 ≤ w := by rcases validWidth_cases hw with rfl | rfl | rfl | rfl <;> omega
  rw [byte_write_msbs_unfold]
  by_cases hn0 : n = 0
  · simp [ByteSink.writeMsbs, hn0]
  · have hpad := C11G_byte_paddings dbg g (by omega)
    have hr : (toByte g).paddings < 8 := by simp only [ByteSink.paddings]; omega
    simp only [hn0, if_false, hpad, Option.bind_some, addU, hl, if_true, hb, ByteSink.writeMsbs]
    rw [gen_mask dbg n hn0 hp]
    by_cases hn : n ≤ w
    · have hk : w - n < w := by omega
      have hm : maskMsbs val n = some (val &&& ~~~((1#w <<< (w - n)) - 1#w)) := by
        simp [maskMsbs, chkSub, chkShl, hn, hk, bind, Option.bind]
      simp only [hn, if_true, hm, bind, Option.bind_some]
      generalize hrr : (toByte g).paddings = r at hr
      generalize val &&& ~~~((1#w <<< (w - n)) - 1#w) = m
      by_cases hr0 : r = 0
      · simp only [hr0, ne_eq, not_true_eq_false, if_false]
        rw [gen_tail dbg hw _ m n hn]
        simp [toByte]
      · have h1 : r ≤ w := by omega
        have h2 : w - r < w := by omega
        have h3 : r < w := by omega
        simp only [hr0, ne_eq, not_false_eq_true, if_true, subU, h1, Option.bind_some, shrB, h2, chkSub, chkShr, shlB, h3,
          chkShl, toByte]
        cases hlm : lastMut g.storage with
        | none =>
          have := (lastMut_none_iff g.storage).1 hlm
          simp [this]
        | some p =>
          have hne : g.storage.isEmpty = false := by
            cases hh : g.storage.isEmpty
            · rfl
            · rw [(lastMut_none_iff g.storage).2 hh] at hlm; cases hlm
          have hmod : g.storage.modify (g.storage.length - 1) (· ||| (m >>> (w - r)).setWidth 8)
              = setLast g.storage (p ||| (m >>> (w - r)).setWidth 8) := by
            rw [modify_last, hlm]
          simp only [Option.bind_some, hne, Bool.false_eq_true, if_false, hmod]
          by_cases hrn : r ≥ n
          · simp [hrn, ofByte]
          · have h4 : r ≤ n := by omega
            simp only [hrn, if_false, h4, if_true, Option.bind_some]
            rw [gen_tail dbg hw _ _ (n - r) (by omega)]
    · have hm : maskMsbs val n = none := by simp [maskMsbs, chkSub, hn, bind, Option.bind]
      simp [hm, bind, hn]

theorem C11G_byte_write_lsbs (dbg : Bool) {w : Nat} (hw : validWidth w = true) (g : MemSink 8) (val : BitVec w) (n : Nat)
    (hl : g.bitlength + n < 2 ^ 64) (hp : dbg = true ∨ n ≤ w) :
    MemSinkU8.write_lsbs dbg g val n = ((toByte g).writeLsbs val n).map ofByte := by
  have hb := (C11G_consts hw).1
  by_cases hn0 : n = 0
  · simp [MemSinkU8.write_lsbs, ByteSink.writeLsbs, hn0]
  · simp only [MemSinkU8.write_lsbs, ByteSink.writeLsbs, hn0, if_false, hb]
    by_cases hn : n ≤ w
    · have hk : w - n < w := by omega
      simp only [subU, hn, if_true, Option.bind_some, shlB, hk, chkSub, chkShl, bind]
      rw [C11G_byte_write_msbs dbg hw g _ n hl hp]
      cases (toByte g).writeMsbs (val <<< (w - n)) n <;> simp
    · have hd : dbg = true := by rcases hp with h | h; exact h; omega
      simp [subU, hn, hd, chkSub, bind, Option.bind]

theorem C11G_byte_write (dbg : Bool) {w : Nat} (hw : validWidth w = true) (g : MemSink 8) (val : BitVec w)
    (hl : g.bitlength + w < 2 ^ 64) :
    MemSinkU8.write dbg g val = ((toByte g).write val).map ofByte := by
  have hw8 : 8 * (w / 8) = w := by rcases validWidth_cases hw with rfl | rfl | rfl | rfl <;> rfl
  have hw8' : 8 ≤ w := by rcases validWidth_cases hw with rfl | rfl | rfl | rfl <;> omega
  have hpad := C11G_byte_paddings dbg g (by omega)
  have hr : (toByte g).paddings < 8 := by simp only [ByteSink.paddings]; omega
  have h1 : w < 2 ^ 64 := by omega
  simp only [MemSinkU8.write, sizeOfT, mulU, hw8, h1, if_true, Option.bind_some, addU, hl, hpad, ByteSink.write, bind]
  generalize hrr : (toByte g).paddings = r at hr
  have h3 : r < w := by omega
  by_cases hr0 : r > 0
  · simp only [hr0, if_true]
    rw [C11G_byte_write_msbs dbg hw g val r (by omega) (Or.inr (by omega))]
    cases (toByte g).writeMsbs val r with
    | none => simp
    | some s' => simp [shlB, h3, chkShl, beBytes, ofByte, toByte]
  · simp [hr0, shlB, h3, chkShl, beBytes, ofByte, toByte]

theorem C11G_byte_write_twoc (dbg : Bool) (g : MemSink 8) (v : Int) (n : Nat)
    (hl : g.bitlength + n < 2 ^ 64) (hp : dbg = true ∨ (1 ≤ n ∧ n ≤ 64)) :
    MemSinkU8.write_twoc dbg g v n = ((toByte g).step (.writeTwoc v n)).map fun s => (Except.ok (), ofByte s) := by
  simp only [MemSinkU8.write_twoc, BitSink.write_twoc, ByteSink.step, MemSinkU8.req]
  by_cases hn : n ≤ 64
  · by_cases h0 : n = 0
    · have hd : dbg = true := by rcases hp with h | h; exact h; omega
      simp [subU, shlB, chkSub, chkShl, h0, hd, bind]
    · have hk : 64 - n < 64 := by omega
      simp only [subU, hn, if_true, Option.bind_some, shlB, hk, chkSub, chkShl, bind]
      rw [C11G_byte_write_msbs dbg (w := 64) (by decide) g _ n hl (Or.inr hn)]
      cases (toByte g).writeMsbs (BitVec.ofInt 64 v <<< (64 - n)) n <;> simp
  · have hd : dbg = true := by rcases hp with h | h; exact h; omega
    simp [subU, chkSub, hn, hd, bind]

def genStepByte (dbg : Bool) (g : MemSink 8) : Op → Option (MemSink 8)
  | .alignToByte => (MemSinkU8.align_to_byte dbg g).map (·.2)
  | .writeLsbs w v n => MemSinkU8.write_lsbs dbg g (BitVec.ofNat w v) n
  | .writeMsbs w v n => MemSinkU8.write_msbs dbg g (BitVec.ofNat w v) n
  | .write w v => MemSinkU8.write dbg g (BitVec.ofNat w v)
  | .writeTwoc v n => (MemSinkU8.write_twoc dbg g v n).map (·.2)
  | .writeZeros n => MemSinkU8.write_zeros dbg g n
  | .writeBytesAligned bs => (MemSinkU8.write_bytes_aligned dbg g (bs.map (BitVec.ofNat 8))).map (·.2)

theorem C11G_byte_step (dbg : Bool) (g : MemSink 8) (op : Op) (hv : op.Valid)
    (hs : g.storage.length ≤ g.bitlength) (hl : g.bitlength + grow op + 64 < 2 ^ 64) :
    genStepByte dbg g op = ((toByte g).step op).map ofByte := by
  cases op with
  | alignToByte =>
    simp only [grow] at hl
    simp [genStepByte, ByteSink.step, C11G_byte_align_to_byte dbg g (by omega)]
  | writeLsbs w v n =>
    obtain ⟨hw, _, hn⟩ := hv
    simp only [grow] at hl
    simp only [genStepByte, ByteSink.step, C11G_byte_write_lsbs dbg hw g _ n (by omega) (Or.inr hn)]
  | writeMsbs w v n =>
    obtain ⟨hw, _, hn⟩ := hv
    simp only [grow] at hl
    simp only [genStepByte, ByteSink.step, C11G_byte_write_msbs dbg hw g _ n (by omega) (Or.inr hn)]
  | write w v =>
    obtain ⟨hw, _⟩ := hv
    simp only [grow] at hl
    simp only [genStepByte, ByteSink.step, C11G_byte_write dbg hw g _ (by omega)]
  | writeTwoc v n =>
    obtain ⟨h1, h2, _⟩ := hv
    simp only [grow] at hl
    simp only [genStepByte, C11G_byte_write_twoc dbg g v n (by omega) (Or.inr ⟨h1, h2⟩), Option.map_map]
    cases (toByte g).step (.writeTwoc v n) <;> simp
  | writeZeros n =>
    simp only [grow] at hl
    simp [genStepByte, ByteSink.step, C11G_byte_write_zeros dbg g n (by omega) hs]
  | writeBytesAligned bs =>
    simp only [grow] at hl
    have hb : ∀ b ∈ bs, b < 256 := hv
    have hmap : (bs.map (BitVec.ofNat 8)).map BitVec.toNat = bs := by
      rw [List.map_map]
      conv => rhs; rw [← List.map_id bs]
      apply List.map_congr_left
      intro b hbm
      simp [Nat.mod_eq_of_lt (hb b hbm)]
    simp [genStepByte, ByteSink.step,
      C11G_byte_write_bytes_aligned dbg g (bs.map (BitVec.ofNat 8)) (by simp only [List.length_map]; omega), hmap]

theorem bytesToBits_len (bs : List Nat) : (bytesToBits bs).length = 8 * bs.length := by
  induction bs with
  | nil => rfl
  | cons b bs ih =>
    have : bytesToBits (b :: bs) = natToBits 8 b ++ bytesToBits bs := by simp [bytesToBits]
    rw [this, List.length_append, ih, natToBits_length, List.length_cons]; omega

theorem ideal_length_le (len : Nat) (op : Op) : (op.ideal len).length ≤ grow op := by
  cases op with
  | alignToByte => simp only [Op.ideal, List.length_replicate, grow]; omega
  | writeLsbs w v n => simp [Op.ideal, grow]
  | writeMsbs w v n => simp only [Op.ideal, List.length_take, natToBits_length, grow]; omega
  | write w v => simp [Op.ideal, grow]
  | writeTwoc v n => simp [Op.ideal, grow, twoc]
  | writeZeros n => simp [Op.ideal, grow]
  | writeBytesAligned bs =>
    simp only [Op.ideal, List.length_append, List.length_replicate, bytesToBits_len, grow]; omega

/-- running any op list through the generated methods of `MemSink<u8>` = `ByteSink.run` -/
theorem C11G_byte_run (dbg : Bool) (g : MemSink 8) (ops : List Op) (hi : (toByte g).Inv) (hv : ∀ op ∈ ops, op.Valid)
    (hl : g.bitlength + (ops.map grow).sum + 64 < 2 ^ 64) :
    ops.foldlM (genStepByte dbg) g = ((toByte g).run ops).map ofByte := by
  induction ops generalizing g with
  | nil => simp [ByteSink.run]
  | cons op ops ih =>
    simp only [List.map_cons, List.sum_cons] at hl
    have hsz : g.storage.length ≤ g.bitlength := by
      have := hi.size; simp only [toByte] at this; omega
    obtain ⟨s', hs', hr⟩ := ByteSink.step_refines (toByte g) hi op (hv op (by simp))
    have hlen := hr.len
    have hle := ideal_length_le (toByte g).len op
    simp only [List.foldlM_cons, ByteSink.run, C11G_byte_step dbg g op (hv op (by simp)) hsz (by omega), hs', bind,
      Option.map_some, Option.bind_some]
    have := ih (ofByte s') (by simpa using hr.inv) (fun o ho => hv o (by simp [ho]))
      (by simp only [ofByte]; simp only [toByte] at hlen hle; omega)
    simpa [ByteSink.run] using this

/-- the representation invariant is preserved by the generated methods (through `C11G_*_step` and C11's refinement) -/
theorem C11G_word_inv (dbg : Bool) (g : MemSink 64) (op : Op) (hi : (toWord g).Inv) (hv : op.Valid)
    (hl : g.bitlength + grow op + 64 < 2 ^ 64) :
    ∃ g', genStepWord dbg g op = some g' ∧ (toWord g').Inv ∧ (toWord g').abs = (toWord g).abs ++ op.ideal g.bitlength := by
  have hsz : g.storage.length ≤ g.bitlength := by
    have := hi.size; simp only [toWord] at this; omega
  obtain ⟨s', hs', hr⟩ := WordSink.step_refines (toWord g) hi op hv
  exact ⟨ofWord s', by simp [C11G_word_step dbg g op hv hsz hl, hs'], by simpa using hr.inv, by rw [toWord_ofWord]; exact hr.abs⟩

theorem C11G_byte_inv (dbg : Bool) (g : MemSink 8) (op : Op) (hi : (toByte g).Inv) (hv : op.Valid)
    (hl : g.bitlength + grow op + 64 < 2 ^ 64) :
    ∃ g', genStepByte dbg g op = some g' ∧ (toByte g').Inv ∧ (toByte g').abs = (toByte g).abs ++ op.ideal g.bitlength := by
  have hsz : g.storage.length ≤ g.bitlength := by
    have := hi.size; simp only [toByte] at this; omega
  obtain ⟨s', hs', hr⟩ := ByteSink.step_refines (toByte g) hi op hv
  exact ⟨ofByte s', by simp [C11G_byte_step dbg g op hv hsz hl, hs'], by simpa using hr.inv, by rw [toByte_ofByte]; exact hr.abs⟩

/-! ### the provided methods of the trait = `Op.expand` -/

/-- a user sink that records the required-method calls it receives (it never fails) -/
def recReq : BitSinkReq (List Op) Empty where
  align_to_byte := fun ops => some (.ok 0, ops ++ [.alignToByte])
  write_lsbs := fun {w} ops val n => some (.ok (), ops ++ [.writeLsbs w val.toNat n])
  write_msbs := fun {w} ops val n => some (.ok (), ops ++ [.writeMsbs w val.toNat n])
  write := fun {w} ops val => some (.ok (), ops ++ [.write w val.toNat])

theorem C11G_default_write_twoc (dbg : Bool) (ops : List Op) (v : Int) (n : Nat) (h1 : 1 ≤ n) (h2 : n ≤ 64) :
    (BitSink.write_twoc dbg recReq ops v n).map (·.2) = some (ops ++ Op.expand (.writeTwoc v n)) := by
  have hk : 64 - n < 64 := by omega
  simp [BitSink.write_twoc, subU, h2, shlB, hk, recReq, Op.expand]

theorem default_bytes_loop (bytes : List (BitVec 8)) (ops : List Op) :
    (forF (ρ := Except Empty Nat × List Op) bytes ops fun b self =>
      (recReq.write self b).bind fun (v3, self) =>
      match v3 with
      | .error e => some (Flow.ret ((.error e), self))
      | .ok v4 => some (Flow.next self))
    = some (.next (ops ++ bytes.map fun b => .write 8 b.toNat)) := by
  induction bytes generalizing ops with
  | nil => simp [forF]
  | cons b bs ih =>
    simp only [forF, recReq, Option.bind_some]
    have := ih (ops ++ [.write 8 b.toNat])
    simp only [recReq, Option.bind_some] at this
    rw [this]; simp

theorem C11G_default_write_bytes_aligned (dbg : Bool) (ops : List Op) (bytes : List (BitVec 8)) :
    (BitSink.write_bytes_aligned dbg recReq ops bytes).map (·.2)
      = some (ops ++ Op.expand (.writeBytesAligned (bytes.map BitVec.toNat))) := by
  have := default_bytes_loop bytes (ops ++ [.alignToByte])
  simp only [recReq, Option.bind_some] at this
  simp only [BitSink.write_bytes_aligned, recReq, Option.bind_some, this, bindF]
  simp [Op.expand, List.map_map, Function.comp_def]

theorem default_zeros_loop (dbg : Bool) (fuel : Nat) (ops : List Op) (m : Nat) (hm : m ≤ fuel) (hlt : m < 2 ^ 64) :
    (whileF (ρ := Except Empty Unit × List Op) fuel (fun (self, n) => decide (n > 64)) (fun (self, n) =>
      (recReq.write self (0#64)).bind fun (v1, self) =>
      match v1 with
      | .error e => some (Flow.ret ((.error e), self))
      | .ok v2 =>
      (subU dbg 64 n 64).bind fun v3 =>
      let n := v3
      some (Flow.next (self, n))) (ops, m))
    = some (.next (ops ++ List.replicate (if m > 64 then (m - 1) / 64 else 0) (.write 64 0),
        if m > 64 then m - 64 * ((m - 1) / 64) else m)) := by
  induction fuel generalizing ops m with
  | zero =>
    have : m = 0 := by omega
    subst this; simp [whileF]
  | succ fuel ih =>
    by_cases h : m > 64
    · have h64 : 64 ≤ m := by omega
      have hsub : subU dbg 64 m 64 = some (m - 64) := by simp [subU, h64]
      simp only [whileF, h, decide_true, if_true, recReq, Option.bind_some, hsub]
      have := ih (ops ++ [.write 64 (0#64).toNat]) (m - 64) (by omega) (by omega)
      simp only [recReq, Option.bind_some] at this
      rw [this]
      by_cases h2 : m - 64 > 64
      · have e1 : (m - 1) / 64 = (m - 64 - 1) / 64 + 1 := by omega
        have e2 : m - 64 - 64 * ((m - 64 - 1) / 64) = m - 64 * ((m - 64 - 1) / 64 + 1) := by omega
        simp [h2, e1, e2, List.replicate_succ]
      · have e1 : (m - 1) / 64 = 1 := by omega
        simp [h2, e1]
    · simp [whileF, h]

theorem C11G_default_write_zeros (dbg : Bool) (ops : List Op) (n : Nat) (hn : n < 2 ^ 64) :
    (BitSink.write_zeros dbg recReq ops n).map (·.2) = some (ops ++ Op.expand (.writeZeros n)) := by
  have := default_zeros_loop dbg n ops n (Nat.le_refl _) hn
  simp only [recReq, Option.bind_some] at this
  simp only [BitSink.write_zeros, recReq, Option.bind_some, this, bindF]
  simp [Op.expand]

/-! ### constructors and accessors of `MemSink<S>` -/

theorem C11G_new : toWord (MemSink.new 64) = WordSink.empty ∧ toByte (MemSink.new 8) = ByteSink.empty
    ∧ ∀ sw, MemSink.default sw = MemSink.new sw := ⟨rfl, rfl, fun _ => rfl⟩

theorem C11G_accessors {sw : Nat} (g : MemSink sw) :
    MemSink.len g = g.bitlength ∧ MemSink.is_empty g = decide (g.bitlength = 0) ∧ MemSink.clear g = MemSink.new sw
    ∧ MemSink.as_slice g = g.storage ∧ MemSink.into_inner g = g.storage := ⟨rfl, rfl, rfl, rfl, rfl⟩

theorem C11G_with_capacity (dbg : Bool) {sw : Nat} (h : validWidth sw = true) (cap : Nat) (hc : cap < 2 ^ 64) (g : MemSink sw) :
    MemSink.with_capacity dbg sw cap = some (MemSink.new sw) ∧ MemSink.reserve dbg g cap = some g := by
  have h3 : cap / 8 + 1 < 2 ^ 64 := by omega
  have h4 : cap / 16 + 1 < 2 ^ 64 := by omega
  have h5 : cap / 32 + 1 < 2 ^ 64 := by omega
  have h6 : cap / 64 + 1 < 2 ^ 64 := by omega
  rcases validWidth_cases h with rfl | rfl | rfl | rfl <;>
    simp [MemSink.with_capacity, MemSink.reserve, MemSink.new, shAmt, addU, shrU, h3, h4, h5, h6,
      show Sealed.BITS_LOG2 8 = 3 by decide, show Sealed.BITS_LOG2 16 = 4 by decide,
      show Sealed.BITS_LOG2 32 = 5 by decide, show Sealed.BITS_LOG2 64 = 6 by decide]

/-! ### the hypotheses are satisfiable; where model and source differ -/

example : [Op.writeLsbs 8 1 1, .writeTwoc (-3) 5, .writeZeros 70, .writeBytesAligned [0xB7]].foldlM (genStepWord true) (MemSink.new 64)
    = ((toWord (MemSink.new 64)).run [Op.writeLsbs 8 1 1, .writeTwoc (-3) 5, .writeZeros 70, .writeBytesAligned [0xB7]]).map ofWord :=
  C11G_word_run true _ _ WordSink.inv_empty (by decide) (by decide)

example : [Op.writeMsbs 16 0xFFFF 3, .write 32 7, .alignToByte].foldlM (genStepByte false) (MemSink.new 8)
    = ((toByte (MemSink.new 8)).run [Op.writeMsbs 16 0xFFFF 3, .write 32 7, .alignToByte]).map ofByte :=
  C11G_byte_run false _ _ ByteSink.inv_empty (by decide) (by decide)

/-- the private `write_msbs_impl` evaluates `val >> (T::BITS - n)` inside a `debug_assert!`: with `n = 0` the dev profile panics
(shift by the full width) where the hand model `writeMsbsImpl` is total.  Unreachable: `write_msbs` / `write_lsbs` return
early on `n == 0` (the repair of F6), which `C11G_word_write_msbs` / `C11G_word_write_lsbs` prove. -/
theorem C11G_word_write_msbs_impl_debug_assert :
    MemSinkU64.write_msbs_impl true (MemSink.new 64) (1#8) 0 = none
    ∧ MemSinkU64.write_msbs_impl false (MemSink.new 64) (1#8) 0 ≠ none := by decide

/-- release profile, `n > w` (outside `Op.Valid`): the source wraps where the hand model (dev profile only) reports a panic -/
theorem C11G_release_outside_valid :
    MemSinkU64.write_msbs false (MemSink.new 64) (0xFF#8) 9 ≠ none ∧ (toWord (MemSink.new 64)).writeMsbs (0xFF#8) 9 = none
    ∧ (MemSinkU64.write_twoc false (MemSink.new 64) (-1) 0).isSome = true
    ∧ (toWord (MemSink.new 64)).step (.writeTwoc (-1) 0) = none := by decide

/-! ### `write_to_byte_slice` = `exportBytes`; `as_slice` / `into_inner` -/

/-- the loop body of the generated `write_to_byte_slice` (`n` = `dest.len()` at entry) -/
def wtbsBody (dbg : Bool) {sw : Nat} (n : Nat) (v : BitVec sw) : List (BitVec 8) × Nat → Option (List (BitVec 8) × Nat) :=
  fun (dest, head) =>
      (addU dbg 64 head (sizeOfT sw)).bind fun v1 =>
      let k2 : List (BitVec 8) → Option ((List (BitVec 8)) × Nat) := fun dest =>
          (addU dbg 64 head (sizeOfT sw)).bind fun v3 =>
          let head := v3
          some (dest, head)
      if v1 ≤ n then
        (addU dbg 64 head (sizeOfT sw)).bind fun v4 =>
        (sliceCopy dest head v4 (beBytes v)).bind fun dest =>
        k2 dest
      else
        (subU dbg 64 n head).bind fun v5 =>
        let rem := v5
        (sliceR (beBytes v) 0 rem).bind fun v6 =>
        (sliceCopy dest head dest.length v6).bind fun dest =>
        k2 dest

theorem wtbs_unfold (dbg : Bool) {sw : Nat} (g : MemSink sw) (dest : List (BitVec 8)) :
    MemSink.write_to_byte_slice dbg g dest
      = (forO g.storage (dest, 0) (wtbsBody dbg dest.length)).bind fun (dest, head) => some dest := rfl

theorem beBytes_length {w : Nat} (v : BitVec w) : (beBytes v).length = w / 8 := by simp [beBytes]

/-- once `head` is past the end of the destination the next element panics (both profiles) -/
theorem wtbs_past (dbg : Bool) {sw : Nat} (hsw : 0 < sw / 8) (n : Nat) (v : BitVec sw) (d : List (BitVec 8)) (h : Nat)
    (hd : d.length = n) (hh : n < h) (hb : h + sw / 8 < 2 ^ 64) : wtbsBody dbg n v (d, h) = none := by
  have h1 : ¬ (h + sw / 8 ≤ n) := by omega
  have h2 : ¬ (h ≤ n) := by omega
  simp only [wtbsBody, sizeOfT, addU, hb, if_true, Option.bind_some, h1, if_false, subU, h2]
  cases dbg
  · have : ¬ ((2 ^ 64 + n % 2 ^ 64 - h % 2 ^ 64) % 2 ^ 64 ≤ sw / 8) := by
      rw [Nat.mod_eq_of_lt (show n < 2 ^ 64 by omega), Nat.mod_eq_of_lt (show h < 2 ^ 64 by omega),
        Nat.mod_eq_of_lt (by omega)]; omega
    simp [sliceR, beBytes_length, this]
  · simp

theorem wtbs_loop (dbg : Bool) {sw : Nat} (hsw : 0 < sw / 8) (xs : List (BitVec sw)) (pre rest : List (BitVec 8)) (n : Nat)
    (hn : n = pre.length + rest.length) (hb : pre.length + (xs.length + 1) * (sw / 8) < 2 ^ 64) :
    forO xs (pre ++ rest, pre.length) (wtbsBody dbg n) =
      if xs = [] ∨ (xs.length - 1) * (sw / 8) ≤ rest.length then
        some (pre ++ (xs.flatMap beBytes).take rest.length ++ rest.drop (xs.length * (sw / 8)), pre.length + xs.length * (sw / 8))
      else none := by
  induction xs generalizing pre rest with
  | nil => simp [forO]
  | cons x xs ih =>
    generalize hbdef : sw / 8 = b at *
    have hbl : (beBytes x).length = b := by rw [beBytes_length, hbdef]
    simp only [List.length_cons, Nat.add_mul, Nat.one_mul] at hb
    have hb1 : pre.length + b < 2 ^ 64 := by
      have : 0 ≤ xs.length * b := Nat.zero_le _
      omega
    simp only [forO, List.cons_ne_nil, false_or, List.length_cons, Nat.add_sub_cancel]
    by_cases hfull : b ≤ rest.length
    · have h1 : pre.length + b ≤ n := by omega
      have hstep : wtbsBody dbg n x (pre ++ rest, pre.length)
          = some ((pre ++ beBytes x) ++ rest.drop b, (pre ++ beBytes x).length) := by
        have hc : pre.length ≤ pre.length + b ∧ pre.length + b ≤ (pre ++ rest).length ∧ (beBytes x).length = pre.length + b - pre.length := by
          refine ⟨by omega, by simp; omega, by omega⟩
        simp only [wtbsBody, sizeOfT, hbdef, addU, hb1, if_true, Option.bind_some, h1, sliceCopy, hc, and_self]
        simp [List.take_append, List.drop_append, hbl]
      rw [hstep]
      simp only [Option.bind_some]
      rw [ih (pre ++ beBytes x) (rest.drop b) (by simp [hbl]; omega) (by simp only [List.length_append, hbl, Nat.add_mul, Nat.one_mul]; omega)]
      have htake : (beBytes x ++ xs.flatMap beBytes).take rest.length = beBytes x ++ (xs.flatMap beBytes).take (rest.length - b) := by
        rw [List.take_append, hbl, List.take_of_length_le (by omega)]
      simp only [List.flatMap_cons, htake, List.length_drop, List.drop_drop, List.length_append, hbl, Nat.add_mul, Nat.one_mul]
      cases xs with
      | nil => simp
      | cons y ys =>
        simp only [List.cons_ne_nil, false_or, List.length_cons, Nat.add_sub_cancel, Nat.add_mul, Nat.one_mul]
        by_cases hc : ys.length * b ≤ rest.length - b
        · have : ys.length * b + b ≤ rest.length := by omega
          have this' : b + ys.length * b ≤ rest.length := by omega
          simp [hc, this, this', Nat.add_comm, Nat.add_left_comm, Nat.add_assoc]
        · have : ¬ (ys.length * b + b ≤ rest.length) := by omega
          simp [hc, this]
    · have h1 : ¬ (pre.length + b ≤ n) := by omega
      have h2 : pre.length ≤ n := by omega
      have h3 : n - pre.length = rest.length := by omega
      have hstep : wtbsBody dbg n x (pre ++ rest, pre.length)
          = some (pre ++ (beBytes x).take rest.length, pre.length + b) := by
        have hc1 : 0 ≤ rest.length ∧ rest.length ≤ (beBytes x).length := ⟨by omega, by omega⟩
        have hc2 : pre.length ≤ (pre ++ rest).length ∧ (pre ++ rest).length ≤ (pre ++ rest).length ∧
            ((beBytes x).take rest.length).length = (pre ++ rest).length - pre.length := by
          refine ⟨by simp, Nat.le_refl _, by simp [hbl]; omega⟩
        simp only [wtbsBody, sizeOfT, hbdef, addU, hb1, if_true, Option.bind_some, h1, if_false, subU, h2, h3, sliceR, hc1,
          and_self, List.drop_zero, sliceCopy, hc2]
        simp
      rw [hstep]
      simp only [Option.bind_some]
      cases xs with
      | nil =>
        have : rest.drop b = [] := List.drop_eq_nil_of_le (by omega)
        simp [forO, this]
      | cons y ys =>
        have hp := wtbs_past dbg (by omega) n y (pre ++ (beBytes x).take rest.length) (pre.length + b)
          (by simp [hbl]; omega) (by omega)
          (by simp only [List.length_cons, Nat.add_mul, Nat.one_mul] at hb
              have : 0 ≤ ys.length * b := Nat.zero_le _
              omega)
        have hne : ¬ ((ys.length + 1) * b ≤ rest.length) := by
          rw [Nat.add_mul, Nat.one_mul]; omega
        simp [forO, hp, hne]

/-- `write_to_byte_slice`, any element width: the big-endian bytes of the storage overwrite a prefix of `dest`; it panics
(both profiles) exactly when `dest` ends before the LAST element starts. -/
theorem C11G_write_to_byte_slice (dbg : Bool) {sw : Nat} (hw : validWidth sw = true) (g : MemSink sw) (dest : List (BitVec 8))
    (hb : (g.storage.length + 1) * (sw / 8) < 2 ^ 64) :
    MemSink.write_to_byte_slice dbg g dest =
      if g.storage = [] ∨ (g.storage.length - 1) * (sw / 8) ≤ dest.length then
        some ((g.storage.flatMap beBytes).take dest.length ++ dest.drop (g.storage.length * (sw / 8)))
      else none := by
  have hsw : 0 < sw / 8 := by rcases validWidth_cases hw with rfl | rfl | rfl | rfl <;> decide
  have := wtbs_loop dbg hsw g.storage [] dest dest.length (by simp) (by simpa using hb)
  simp only [List.nil_append, List.length_nil] at this
  rw [wtbs_unfold, this]
  split <;> simp

theorem C11G_write_to_byte_slice_panics (dbg : Bool) {sw : Nat} (hw : validWidth sw = true) (g : MemSink sw)
    (dest : List (BitVec 8)) (hb : (g.storage.length + 1) * (sw / 8) < 2 ^ 64) :
    MemSink.write_to_byte_slice dbg g dest = none ↔ g.storage ≠ [] ∧ dest.length < (g.storage.length - 1) * (sw / 8) := by
  rw [C11G_write_to_byte_slice dbg hw g dest hb]
  split
  · rename_i h; simp; intro hne; rcases h with h | h; exact absurd h hne; omega
  · rename_i h; simp at h; simp; exact ⟨h.1, by omega⟩

theorem word_beBytes_toNat (v : BitVec 64) :
    (beBytes v).map BitVec.toNat = (List.range 8).map (fun i => (v.toNat >>> (56 - 8 * i)) % 256) := by
  simp only [beBytes, List.map_map]
  apply List.map_congr_left
  intro i hi
  have : i < 8 := by simpa using hi
  simp only [Function.comp, BitVec.toNat_setWidth, BitVec.toNat_ushiftRight]
  congr 2; omega

/-- `MemSink<u64>`: with a destination of exactly `ceil(len / 8)` bytes the result is the model's `exportBytes` -/
theorem C11G_word_write_to_byte_slice (dbg : Bool) (g : MemSink 64) (hi : (toWord g).Inv) (dest : List (BitVec 8))
    (hd : dest.length = (g.bitlength + 7) / 8) (hl : g.bitlength < 2 ^ 64) :
    (MemSink.write_to_byte_slice dbg g dest).map (·.map BitVec.toNat) = some (toWord g).exportBytes := by
  have hsz := hi.size
  simp only [toWord] at hsz
  rw [C11G_write_to_byte_slice dbg (by decide) g dest (by omega)]
  have hc : g.storage = [] ∨ (g.storage.length - 1) * (64 / 8) ≤ dest.length := Or.inr (by omega)
  have hdrop : dest.drop (g.storage.length * (64 / 8)) = [] := List.drop_eq_nil_of_le (by omega)
  simp only [hc, if_true, hdrop, List.append_nil, Option.map_some, WordSink.exportBytes, toWord, hd, List.map_take,
    List.map_flatMap, word_beBytes_toNat]
  rw [hd] at hc
  simp only [hc, if_true, Option.map_some, List.map_take, List.map_flatMap, word_beBytes_toNat]

/-- `MemSink<u8>`: `write_to_byte_slice` into a destination of the storage's size copies the storage = `exportBytes` -/
theorem C11G_byte_write_to_byte_slice (dbg : Bool) (g : MemSink 8) (hi : (toByte g).Inv) (dest : List (BitVec 8))
    (hd : dest.length = (g.bitlength + 7) / 8) (hl : g.bitlength < 2 ^ 64) :
    (MemSink.write_to_byte_slice dbg g dest).map (·.map BitVec.toNat) = some (toByte g).exportBytes := by
  have hsz := hi.size
  simp only [toByte] at hsz
  rw [C11G_write_to_byte_slice dbg (by decide) g dest (by omega)]
  have hc : g.storage = [] ∨ (g.storage.length - 1) * (8 / 8) ≤ dest.length := Or.inr (by omega)
  have hdrop : dest.drop (g.storage.length * (8 / 8)) = [] := List.drop_eq_nil_of_le (by omega)
  have hbe : ∀ v : BitVec 8, beBytes v = [v] := fun v => by
    simp [beBytes, List.range_succ]
  have hflat : g.storage.flatMap beBytes = g.storage := by
    rw [show (beBytes : BitVec 8 → List (BitVec 8)) = (fun v => [v]) from funext hbe]; simp
  simp only [hc, if_true, hdrop, List.append_nil, Option.map_some, ByteSink.exportBytes, toByte, hflat]
  rw [List.take_of_length_le (by omega)]

/-- `as_slice` / `into_inner` are the model's storage -/
theorem C11G_storage (gw : MemSink 64) (gb : MemSink 8) :
    MemSink.as_slice gw = (toWord gw).storage ∧ MemSink.into_inner gw = (toWord gw).storage
    ∧ MemSink.as_slice gb = (toByte gb).storage ∧ MemSink.into_inner gb = (toByte gb).storage
    ∧ (MemSink.as_slice gb).map BitVec.toNat = (toByte gb).exportBytes := ⟨rfl, rfl, rfl, rfl, rfl⟩
end FlacVerif.C11Gen
