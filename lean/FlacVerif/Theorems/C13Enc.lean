/-
C13 for the residuals the encoder EMITS — "for every residual the encoder emits, the chosen Rice
partition order and per-partition parameters minimise the coded size over the encoder's search space
(partitions of at least max(64, predictor order) samples that divide the block, parameters 0..=the
configured maximum)".

`C13_optimal` (Theorems/C13.lean) needs the optimum to be below the saturation value `2^28 - 1` of the
`u32` cost tables. For a residual that `encode_subframe` actually emits no such side condition is left:
the candidate was kept only because its reported `count_bits` is below the verbatim size `8 + n·bps`
(`keepBelow`, C09), the reported size of its residual is its written size (C08), and the written size of
`Residual.ofErrors errors warm o ps` is exactly `6 + choiceCost (errors.map fold) warm o ps`
(`C13_written_size`). Hence the cost of the chosen partitioning is below `2^22`.

Holds for EVERY oracle log satisfying `OEvent.Ok` (optimality is about the errors that `compute_error`
returned; an LPC candidate is only built when its flag is `true`, i.e. they are the exact residual).

Property theorems and non-vacuity examples only; proofs in `FlacVerif/Lemmas/Extras{Cost,C13}.lean`.
-/
import FlacVerif.Lemmas.ExtrasC13
namespace FlacVerif

/-- The written size of the residual component built from prediction errors in `(-2^31, 2^31)` is
`6 + choiceCost` of the folded errors, for every warm-up, order and parameter list. -/
theorem C13_written_size (errors : List Int) (w o : Nat) (ps : List Nat)
    (herr : ∀ e ∈ errors, -(2 ^ 31 : Int) < e ∧ e < (2 ^ 31 : Int)) :
    (Residual.ofErrors errors w o ps).bits.length = 6 + choiceCost (errors.map fold) w o ps :=
  Extras.ofErrors_bits_length errors w o ps herr

/-- … and so is the reported `count_bits`, when the component is well-formed. -/
theorem C13_reported_size (errors : List Int) (w o : Nat) (ps : List Nat)
    (herr : ∀ e ∈ errors, -(2 ^ 31 : Int) < e ∧ e < (2 ^ 31 : Int))
    (hwf : (Residual.ofErrors errors w o ps).WF) :
    (Residual.ofErrors errors w o ps).count = some (6 + choiceCost (errors.map fold) w o ps) :=
  Extras.ofErrors_count errors w o ps herr hwf

/-- **C13, emitted residuals.** For every sub-frame configuration with `maxP ≤ 14`, every block of
`1 ≤ n < 2^16` samples of width `1 ≤ bps ≤ 25` and EVERY oracle log satisfying `OEvent.Ok`: if
`encode_subframe` returns a fixed or LPC sub-frame, its residual is `encode_residual_with_prc_parameter`
of some error signal (one `i32 ≠ i32::MIN` per sample) with the emitted order and parameters, that choice
lies in the search space, and NO choice of the search space has a smaller coded size — unconditionally. -/
theorem C13_encoder (cfg : SubCfg) (xs : List Int) (bps : Nat) (log log' : List OEvent) (s : SubFrame)
    (hn : 1 ≤ xs.length) (hlen : xs.length < 2 ^ 16) (hb : 1 ≤ bps ∧ bps ≤ 25)
    (hx : ∀ x ∈ xs, SubFrame.inRange bps x = true) (hmax : cfg.maxP ≤ 14)
    (hlog : ∀ e ∈ log, e.Ok)
    (h : encodeSubframe cfg xs bps log = some (s, log')) :
    match s with
    | .fixed warm res _ | .lpc warm _ _ _ res _ =>
        ∃ errors : List Int, errors.length = xs.length ∧
          (∀ e ∈ errors, -(2 ^ 31 : Int) < e ∧ e < (2 ^ 31 : Int)) ∧
          res = Residual.ofErrors errors warm.length res.order res.params ∧
          orderOk xs.length warm.length res.order = true ∧ res.params.length = 2 ^ res.order ∧
          (∀ p ∈ res.params, p ≤ cfg.maxP) ∧
          ∀ o ps, orderOk xs.length warm.length o = true → ps.length = 2 ^ o → (∀ p ∈ ps, p ≤ cfg.maxP) →
            choiceCost (errors.map fold) warm.length res.order res.params ≤
              choiceCost (errors.map fold) warm.length o ps
    | _ => True := by
  have := Extras.encoder_optimal cfg xs bps log log' s hn hlen hb hx hmax hlog h
  cases s with
  | constant _ _ _ => trivial
  | verbatim _ _ => trivial
  | fixed warm res b => exact this
  | lpc warm coefs shift precision res b => exact this

/-- The error signal of `C13_encoder` made explicit for a fixed sub-frame: it is the encoder's
`diffs` of the predictor order (= warm-up length). -/
theorem C13_encoder_fixed (cfg : SubCfg) (xs : List Int) (bps : Nat) (log log' : List OEvent)
    (warm : List Int) (res : Residual) (b : Nat)
    (hn : 1 ≤ xs.length) (hlen : xs.length < 2 ^ 16) (hb : 1 ≤ bps ∧ bps ≤ 25)
    (hx : ∀ x ∈ xs, SubFrame.inRange bps x = true) (hmax : cfg.maxP ≤ 14)
    (h : encodeSubframe cfg xs bps log = some (.fixed warm res b, log')) :
    res = Residual.ofErrors (diffs warm.length xs) warm.length res.order res.params ∧
    orderOk xs.length warm.length res.order = true ∧ res.params.length = 2 ^ res.order ∧
    (∀ p ∈ res.params, p ≤ cfg.maxP) ∧
    ∀ o ps, orderOk xs.length warm.length o = true → ps.length = 2 ^ o → (∀ p ∈ ps, p ≤ cfg.maxP) →
      choiceCost ((diffs warm.length xs).map fold) warm.length res.order res.params ≤
        choiceCost ((diffs warm.length xs).map fold) warm.length o ps :=
  Extras.encoder_optimal_fixed cfg xs bps log log' warm res b hn hlen hb hx hmax h

/-! ### non-vacuity -/

namespace C13EncEx

/-- 64 samples of a quadratic. -/
def smooth64 : List Int := (List.range 64).map fun (t : Nat) => ((t : Int) * (t : Int)) / 7 - 300

set_option maxRecDepth 100000 in
/-- The hypotheses of `C13_encoder` hold, and a fixed sub-frame of order 2 is emitted (bit-count
selection, empty oracle log): the `match` takes its first branch. -/
example : (1 ≤ smooth64.length ∧ smooth64.length < 2 ^ 16) ∧ (∀ x ∈ smooth64, SubFrame.inRange 16 x = true) ∧
    ((encodeSubframe ⟨true, true, false, 4, true, 14⟩ smooth64 16 []).map fun r =>
      (match r.1 with | .fixed w res _ => (w.length, res.order, res.params) | _ => (99, 99, []))) =
      some (2, 0, [0]) := by decide

set_option maxRecDepth 100000 in
/-- … and an LPC sub-frame with an oracle-supplied parameter set (which satisfies `OEvent.Ok`). -/
example : (∀ e ∈ [OEvent.qlpc [2, -1] 0 3], e.Ok) ∧
    ((encodeSubframe ⟨true, false, true, 4, true, 14⟩ smooth64 16 [.qlpc [2, -1] 0 3]).map fun r =>
      (match r.1 with | .lpc w _ _ _ res _ => (w.length, res.order, res.params) | _ => (99, 99, []))) =
      some (2, 0, [0]) := by decide

set_option maxRecDepth 100000 in
/-- The search space of that block is not a singleton (orders 0 only since 64 samples, but 15
parameters): the emitted parameter 0 costs 102 bits, parameter 1 would cost 146, parameter 14 934. -/
example :
    let es := (diffs 2 smooth64).map fold
    orderOk 64 2 0 = true ∧ choiceCost es 2 0 [0] = 102 ∧ choiceCost es 2 0 [1] = 146 ∧
      choiceCost es 2 0 [14] = 934 := by decide

/-- 128 samples: a quiet first half and a loud second half. -/
def sig128 : List Int := (List.range 128).map fun (t : Nat) =>
  if t < 64 then ((t : Int) % 3) - 1 else (((t : Int) * 7919) % 2001) - 1000

set_option maxRecDepth 1000000 in
/-- A block where the search space has two orders: a fixed sub-frame of order 1 with partition order 1
and parameters `[1, 8]` is emitted; `C13_encoder` says no other choice (order 0 with any parameter, order 1
with any pair of parameters up to 14) is cheaper. -/
example : (∀ x ∈ sig128, SubFrame.inRange 16 x = true) ∧ orderOk 128 1 0 = true ∧ orderOk 128 1 1 = true ∧
    ((encodeSubframe ⟨true, true, false, 4, true, 14⟩ sig128 16 []).map fun r =>
      (match r.1 with | .fixed w res _ => (w.length, res.order, res.params) | _ => (99, 99, []))) =
      some (1, 1, [1, 8]) := by decide

end C13EncEx

end FlacVerif
