/-
C01, losslessness for decoders that reduce to 32 bits — here the mirror of the repository's own decoder in
the release build (`Repo.decodeFrameMode false`, `Model/RepoParser.lean`: `i64` prediction sum,
`(pred >> shift) as i32`, wrapping `i32` additions; claxon and libFLAC compute the same way).

This family was proved when `C01Strict.lean` still needed the hypotheses `LpcFits`/`FrameFits`/`StreamFits`
(the encoder before the fix emitted wrapped LPC residuals, which only a wrapping decoder inverts); its
statements never had such a hypothesis and are kept unchanged.  With the fixed `compute_error` /
`estimated_qlpc` the strict family has no such hypothesis either, and an emitted LPC residual is always
exact, so for LPC sub-frames the 32-bit reduction below is the identity; the building blocks
(`C01_computeError_wrap`, `C01_lpcLoop_wrap`) still hold for every parameter set and whatever the flag of
`compute_error` says: the encoder's stored value is `wrap32 (x - prediction)`, the decoder's sample is
`wrap32 (residual + wrap32 prediction)`, and the two predictions are computed from identical histories.
What this family adds to the strict one: the repository's own read path (`parser::frame`, `Frame::decode()`),
frames within the parser's limits, and no bound on the frame number.

Property theorems and non-vacuity examples only; the proofs live in `FlacVerif/Lemmas/Wrap*.lean`.
-/
import FlacVerif.Lemmas.WrapStream
import FlacVerif.Theorems.C01Strict
namespace FlacVerif

/-! ### building blocks -/

/-- The release build's `i32` arithmetic is the exact result reduced by `wrap32`. -/
theorem C01_i32op_release (site : String) (v : Int) : Repo.i32op false site v = .ok (wrap32 v) :=
  Wrap.i32op_false site v

/-- `compute_error` with NO hypothesis on the parameters: whenever it returns, WHATEVER its flag, every
entry of the buffer is an `i32` and the entries after the warm-up are the 32-bit reductions of the exact
LPC residual (on the checked `i32` path nothing wraps, on the `i64` path the result is cast). -/
theorem C01_computeError_wrap (coefs : List Int) (shift : Nat) (xs errors : List Int) (fits : Bool)
    (h : computeError coefs shift xs = some (errors, fits)) :
    errors.length = xs.length ∧ (∀ e ∈ errors, fitsI32 e = true) ∧
    errors.drop coefs.length = (lpcResidual coefs shift xs).map wrap32 :=
  Wrap.computeError_wrap coefs shift xs errors h

/-- The prediction loop of `decode_lpc` in the release build inverts the 32-bit residual for EVERY
coefficient set of at most 32 coefficients of at most 16 bits, every shift, and every `i32` signal:
starting from any `i32` history at least as long as the predictor, it appends exactly `xs`. -/
theorem C01_lpcLoop_wrap (coefs : List Int) (shift : Nat) (hlen : coefs.length ≤ 32)
    (hc : ∀ c ∈ coefs, -(2 ^ 15 : Int) ≤ c ∧ c ≤ 2 ^ 15) (xs hist : List Int) (hh : coefs.length ≤ hist.length)
    (hhist : ∀ h ∈ hist, -(2 ^ 31 : Int) ≤ h ∧ h < 2 ^ 31) (hx : ∀ x ∈ xs, -(2 ^ 31 : Int) ≤ x ∧ x < 2 ^ 31) :
    Repo.lpcLoop false coefs shift ((residualFrom coefs shift hist xs).map wrap32) hist = .ok (hist.reverse ++ xs) :=
  Wrap.lpcLoop_wrap coefs shift hlen hc xs hist hh hhist hx

/-- `Residual::copy_signal` (either build mode) on the residual component the encoder builds returns the
errors, zero on the warm-up, and hits no panic site. -/
theorem C01_residualSignal (debug : Bool) (errors : List Int) (w o : Nat) (ps : List Nat)
    (hpos : 0 < errors.length) (ho : o ≤ 15) (hps : ps.length = 2 ^ o) (hdvd : 2 ^ o ∣ errors.length)
    (hp : ∀ p ∈ ps, p ≤ 14)
    (herr : ∀ e ∈ errors, -(2 ^ 31 : Int) < e ∧ e < (2 ^ 31 : Int)) :
    Repo.residualSignal debug (Residual.ofErrors errors w o ps) =
      .ok ((List.range errors.length).map fun t => if t < w then 0 else errors.getD t 0) :=
  Wrap.residualSignal_ofErrors debug errors w o ps hpos ho hps hdvd hp herr

/-- Stereo un-mixing in wrapping `i32` arithmetic (left/side, right/side, mid/side) for channels of at
most 30 bits. -/
theorem C01_decorrelate_wrap (l r : List Int) (h : l.length = r.length)
    (hl : ∀ x ∈ l, -(2 ^ 29 : Int) ≤ x ∧ x < 2 ^ 29) (hr : ∀ x ∈ r, -(2 ^ 29 : Int) ≤ x ∧ x < 2 ^ 29) :
    Repo.decorrelate false .leftSide l.length l (Strict.sideOf l r) = .ok (l, r) ∧
    Repo.decorrelate false .rightSide l.length (Strict.sideOf l r) r = .ok (l, r) ∧
    Repo.decorrelate false .midSide l.length (Strict.midOf l r) (Strict.sideOf l r) = .ok (l, r) :=
  ⟨Wrap.decorrelate_left l r h hl hr, Wrap.decorrelate_right l r h hl hr, Wrap.decorrelate_mid l r h hl hr⟩

/-! ### sub-frame level -/

/-- **C01, sub-frame, 32-bit decoder.** For every sub-frame configuration with `maxP ≤ 14`, every block
of fewer than `2^16` samples of width `1 ≤ bps ≤ 25` and EVERY oracle log whose quantised LPC parameter sets
satisfy `OEvent.Ok`: if `encode_subframe` returns a sub-frame `s`, then
`SubFrame::decode()` of the release build returns exactly the input block (no panic site is hit). -/
theorem C01_subframe_wrapdec (cfg : SubCfg) (xs : List Int) (bps : Nat) (log log' : List OEvent) (s : SubFrame)
    (hlen : xs.length < 2 ^ 16) (hb : 1 ≤ bps ∧ bps ≤ 25)
    (hx : ∀ x ∈ xs, SubFrame.inRange bps x = true) (hmax : cfg.maxP ≤ 14)
    (hlog : ∀ e ∈ log, e.Ok)
    (h : encodeSubframe cfg xs bps log = some (s, log')) :
    Repo.decodeSubframe false s = .ok xs :=
  Wrap.decodeSubframe_wrap cfg xs bps log log' s hlen hb hx hmax hlog h

/-! ### frame level -/

/-- **C01, frame, 32-bit decoder.** Same hypotheses as `C01_frame_strict` but without the bound on the
frame number, which the decoder does not look at: for every sub-frame and
stereo configuration (`maxP ≤ 14`), every block of 1 to 8 channels of equal length `1 ≤ n < 2^16` with
samples of width `1 ≤ bps ≤ 24`, every rate and frame number and EVERY oracle log satisfying
`OEvent.Ok`: if `encode_frame` returns a frame `f`, then `Frame::decode()` of the release build — block
size from the header, every sub-frame, stereo un-mixing, interleaving — returns exactly the interleaved
input. -/
theorem C01_frame_wrapdec (cfg : SubCfg) (st : StereoCfg) (chans : List (List Int)) (bps rate number n : Nat)
    (log log' : List OEvent) (f : Frame)
    (hch : 1 ≤ chans.length ∧ chans.length ≤ 8) (hlen : ∀ c ∈ chans, c.length = n) (hn : 1 ≤ n ∧ n < 2 ^ 16)
    (hb : 1 ≤ bps ∧ bps ≤ 24) (hx : ∀ c ∈ chans, ∀ x ∈ c, SubFrame.inRange bps x = true)
    (hmax : cfg.maxP ≤ 14) (hlog : ∀ e ∈ log, e.Ok)
    (h : encodeFrame cfg st chans bps rate number log = some (f, log')) :
    Repo.decodeFrameMode false f = .ok (Rfc.interleave chans) :=
  Wrap.frame_wrapdec cfg st chans bps rate number n log log' f hch hlen hn hb hx hmax hlog h


/-- Every frame `encode_frame` returns is serialisable, its reported size is its written
size, and it lies within the limits of the repository's own parser (`Repo.FrameOk`, the hypothesis of
C15): `OEvent.Ok` bounds the oracle's LPC orders by the parser's limit `MAX_LPC_ORDER = 24` (which
`Encoder::verify` enforces on `lpc_order`, `C07_verified_cfg`; the former separate hypothesis is gone). -/
theorem C01_frame_parserOk (cfg : SubCfg) (st : StereoCfg) (chans : List (List Int)) (bps rate number n : Nat)
    (log log' : List OEvent) (f : Frame)
    (hch : 1 ≤ chans.length ∧ chans.length ≤ 8) (hlen : ∀ c ∈ chans, c.length = n) (hn : 1 ≤ n ∧ n < 2 ^ 16)
    (hb : 1 ≤ bps ∧ bps ≤ 24) (hx : ∀ c ∈ chans, ∀ x ∈ c, SubFrame.inRange bps x = true)
    (hnum : number < 2 ^ 32) (hmax : cfg.maxP ≤ 14) (hlog : ∀ e ∈ log, e.Ok)
    (h : encodeFrame cfg st chans bps rate number log = some (f, log'))
    (info : StreamInfo) (hinfo : info.channels = chans.length ∧ info.bps = bps) :
    Repo.FrameOk info f ∧ ∃ fb, f.bits rfcCrc8 rfcCrc16 = some fb ∧ f.count = some fb.length := by
  obtain ⟨h1, h2⟩ := Wrap.frame_good cfg st chans bps rate number n log log' f hch hlen hn hb hx hnum hmax hlog 24
    (OEvent.ok_order_le log hlog) h info hinfo
  exact ⟨h1 (Nat.le_refl _), h2⟩

/-- **C01, frame, the repository's own read path.** `Frame::write`, then `parser::frame` (with or without
CRC check, arbitrary bytes following), then `Frame::decode()` of the release build: the parser returns
exactly the emitted frame and the remaining bytes, and the decoder returns exactly the interleaved input —
for every oracle log satisfying `OEvent.Ok` (which includes: LPC orders at most 24). -/
theorem C01_frame_wrap_roundtrip (cfg : SubCfg) (st : StereoCfg) (chans : List (List Int)) (bps rate number n : Nat)
    (log log' : List OEvent) (f : Frame)
    (hch : 1 ≤ chans.length ∧ chans.length ≤ 8) (hlen : ∀ c ∈ chans, c.length = n) (hn : 1 ≤ n ∧ n < 2 ^ 16)
    (hb : 1 ≤ bps ∧ bps ≤ 24) (hx : ∀ c ∈ chans, ∀ x ∈ c, SubFrame.inRange bps x = true)
    (hnum : number < 2 ^ 32) (hmax : cfg.maxP ≤ 14) (hlog : ∀ e ∈ log, e.Ok)
    (h : encodeFrame cfg st chans bps rate number log = some (f, log'))
    (info : StreamInfo) (hinfo : info.channels = chans.length ∧ info.bps = bps) (checkCrc : Bool) (more : List Nat) :
    ∃ fb, f.bits rfcCrc8 rfcCrc16 = some fb ∧
      Repo.parseFrame info checkCrc (packBytes fb ++ more) = .ok (f, more) ∧
      Repo.decodeFrameMode false f = .ok (Rfc.interleave chans) :=
  Wrap.frame_wrap_roundtrip cfg st chans bps rate number n log log' f hch hlen hn hb hx hnum hmax hlog h info hinfo
    checkCrc more

/-! ### stream level -/

/-- The interleaved blocks of the input, concatenated, are the interleaved input. -/
theorem C01_interleave_blocks (bs : Nat) (chans : List (List Int)) (total : Nat) (hbs : 1 ≤ bs)
    (hne : 1 ≤ chans.length) (hlen : ∀ c ∈ chans, c.length = total) :
    (blocksOf bs chans).flatMap Rfc.interleave = Rfc.interleave chans :=
  Wrap.interleave_blocks bs chans total hbs hne hlen

/-- **C01, stream, 32-bit decoder.** Same hypotheses as `C01_stream_strict` without the bounds that only
concern STREAMINFO: the release-build decoder applied, frame after frame,
to the frames `encode_with_fixed_block_size` emits (`Repo.decodeAll false`, what the harness outcome
compares with the original) returns exactly the interleaved input audio. -/
theorem C01_stream_wrapdec (md5 : List Nat → List Nat) (cfg : SubCfg) (st : StereoCfg) (bs : Nat)
    (chans : List (List Int)) (bps rate : Nat) (log log' : List OEvent) (s : Stream) (total : Nat)
    (hch : 1 ≤ chans.length ∧ chans.length ≤ 8) (hlen : ∀ c ∈ chans, c.length = total)
    (hbs : 1 ≤ bs ∧ bs < 2 ^ 16) (hb : 1 ≤ bps ∧ bps ≤ 24)
    (hx : ∀ c ∈ chans, ∀ x ∈ c, SubFrame.inRange bps x = true) (hmax : cfg.maxP ≤ 14)
    (hlog : ∀ e ∈ log, e.Ok)
    (h : encodeStream md5 cfg st bs chans bps rate log = some (s, log')) :
    Repo.decodeAll false s.frames = .ok (Rfc.interleave chans) :=
  Wrap.stream_wrapdec md5 cfg st bs chans bps rate log log' s total hch hlen hbs hb hx hmax hlog h

/-! ### non-vacuity -/

namespace C01WrapEx
open C01StrictEx

set_option maxRecDepth 100000 in
/-- The witness of `C01_flag_needed` (`coefs = [-16384, 1]`, `shift = 0`, `precision = 15`, 24-bit
`wrapBlock`: exact residual `2^33, 2^32, …`, flag `false`, LPC candidate dropped): the release build of the
repository's decoder returns the input from what `encode_subframe` emits. Evaluated by the kernel. -/
example : (encodeSubframe ⟨true, false, true, 4, true, 14⟩ wrapBlock 24 [.qlpc [-16384, 1] 0 15]).map
    (fun r => Repo.decodeSubframe false r.1) = some (.ok wrapBlock) := by decide +kernel

set_option maxRecDepth 100000 in
/-- … and the LPC sub-frame the code emitted BEFORE the fix on that witness (the stored, wrapped values — all
zeros — encoded regardless of the flag; REJECTED by the strict decoder, `C01_flag_needed`) is decoded to the
input by the release build: a decoder that wraps at 32 bits inverts the wrapped residual
(`C01_computeError_wrap`, `C01_lpcLoop_wrap`). -/
example : (((computeError [-16384, 1] 0 wrapBlock).bind fun r => encodeResidual 14 r.1 2).map fun res =>
    Repo.decodeSubframe false (SubFrame.lpc (wrapBlock.take 2) [-16384, 1] 0 15 res 24)) = some (.ok wrapBlock) := by
  decide +kernel

set_option maxRecDepth 100000 in
/-- The hypotheses of `C01_subframe_wrapdec` (and of `C01_subframe_strict`) hold for that witness. -/
example : (∀ x ∈ wrapBlock, SubFrame.inRange 24 x = true) ∧ (∀ e ∈ [OEvent.qlpc [-16384, 1] 0 15], e.Ok) ∧
    (computeError [-16384, 1] 0 wrapBlock).map (·.2) = some false := by
  decide +kernel

set_option maxRecDepth 100000 in
/-- The fixed-predictor path (entropy estimates from the log). -/
example : (encodeSubframe ⟨true, true, false, 4, false, 14⟩ smooth64 16
      [.est 0 900, .est 1 700, .est 2 300, .est 3 400, .est 4 500]).map
    (fun r => Repo.decodeSubframe false r.1) = some (.ok smooth64) := by decide +kernel

set_option maxRecDepth 100000 in
/-- A two-channel frame: `wrapBlock` with the parameter set of `C01_flag_needed` on the left, a correlated channel
on the right; the hypotheses of `C01_frame_wrapdec` hold, `encode_frame` returns, and the theorem gives
the decoded audio. -/
example : ∃ f log',
    encodeFrame ⟨true, true, true, 4, true, 14⟩ ⟨true, true, true⟩ [wrapBlock, stereoR] 24 44100 7
      [.qlpc [-16384, 1] 0 15, .qlpc [2, -1] 0 3, .qlpc [-16384, 1] 0 15, .qlpc [-16384, 1] 0 15] = some (f, log') ∧
    Repo.decodeFrameMode false f = .ok (Rfc.interleave [wrapBlock, stereoR]) := by
  cases h : encodeFrame ⟨true, true, true, 4, true, 14⟩ ⟨true, true, true⟩ [wrapBlock, stereoR] 24 44100 7
      [.qlpc [-16384, 1] 0 15, .qlpc [2, -1] 0 3, .qlpc [-16384, 1] 0 15, .qlpc [-16384, 1] 0 15] with
  | none => exact absurd h (by decide)
  | some p =>
    obtain ⟨f, log'⟩ := p
    exact ⟨f, log', rfl, C01_frame_wrapdec _ _ _ 24 44100 7 64 _ log' f (by decide) (by decide) (by decide)
      (by decide) (by decide) (by decide) (by decide) h⟩

set_option maxRecDepth 100000 in
/-- Stereo recombination through the fixed predictors (left/side is chosen, see `C01Strict.lean`). -/
example : ∃ f log',
    encodeFrame ⟨true, true, false, 4, true, 14⟩ ⟨true, true, true⟩ [stereoL, stereoR] 16 44100 70000 [] = some (f, log') ∧
    f.header.assignment = .leftSide ∧
    Repo.decodeFrameMode false f = .ok (Rfc.interleave [stereoL, stereoR]) := by
  cases h : encodeFrame ⟨true, true, false, 4, true, 14⟩ ⟨true, true, true⟩ [stereoL, stereoR] 16 44100 70000 [] with
  | none => exact absurd h (by decide)
  | some p =>
    obtain ⟨f, log'⟩ := p
    refine ⟨f, log', rfl, ?_, C01_frame_wrapdec _ _ _ 16 44100 70000 64 _ log' f (by decide) (by decide) (by decide)
      (by decide) (by decide) (by decide) (by intro e he; cases he) h⟩
    have : (encodeFrame ⟨true, true, false, 4, true, 14⟩ ⟨true, true, true⟩ [stereoL, stereoR] 16 44100 70000 []).map
        (fun r => r.1.header.assignment) = some .leftSide := by decide
    rw [h] at this
    simpa using this

set_option maxRecDepth 100000 in
/-- The read path of the repository on that frame: written, parsed back (CRC checked, one more
byte following) and decoded. -/
example : ∃ f log' fb,
    encodeFrame ⟨true, true, true, 4, true, 14⟩ ⟨true, true, true⟩ [wrapBlock, stereoR] 24 44100 7
      [.qlpc [-16384, 1] 0 15, .qlpc [2, -1] 0 3, .qlpc [-16384, 1] 0 15, .qlpc [-16384, 1] 0 15] = some (f, log') ∧
    f.bits rfcCrc8 rfcCrc16 = some fb ∧
    Repo.parseFrame ⟨64, 64, 0, 0, 44100, 2, 24, 64, []⟩ true (packBytes fb ++ [9]) = .ok (f, [9]) ∧
    Repo.decodeFrameMode false f = .ok (Rfc.interleave [wrapBlock, stereoR]) := by
  cases h : encodeFrame ⟨true, true, true, 4, true, 14⟩ ⟨true, true, true⟩ [wrapBlock, stereoR] 24 44100 7
      [.qlpc [-16384, 1] 0 15, .qlpc [2, -1] 0 3, .qlpc [-16384, 1] 0 15, .qlpc [-16384, 1] 0 15] with
  | none => exact absurd h (by decide)
  | some p =>
    obtain ⟨f, log'⟩ := p
    obtain ⟨fb, h1, h2, h3⟩ := C01_frame_wrap_roundtrip _ _ _ 24 44100 7 64 _ log' f (by decide) (by decide) (by decide)
      (by decide) (by decide) (by decide) (by decide) (by decide) h
      ⟨64, 64, 0, 0, 44100, 2, 24, 64, []⟩ (by decide) true [9]
    exact ⟨f, log', fb, rfl, h1, h2, h3⟩

set_option maxRecDepth 100000 in
/-- Stream level: two channels of 40 samples in blocks of 16 (three frames, the last one short). -/
example : ∃ s log',
    encodeStream toyMd5 ⟨true, true, false, 4, true, 14⟩ ⟨true, true, true⟩ 16 [streamL, streamR] 16 44100 [] = some (s, log') ∧
    s.frames.length = 3 ∧ Repo.decodeAll false s.frames = .ok (Rfc.interleave [streamL, streamR]) := by
  cases h : encodeStream toyMd5 ⟨true, true, false, 4, true, 14⟩ ⟨true, true, true⟩ 16 [streamL, streamR] 16 44100 [] with
  | none => exact absurd h (by decide)
  | some p =>
    obtain ⟨s, log'⟩ := p
    refine ⟨s, log', rfl, ?_, C01_stream_wrapdec toyMd5 _ _ 16 [streamL, streamR] 16 44100 [] log' s 40 (by decide) (by decide)
      (by decide) (by decide) (by decide) (by decide) (by intro e he; cases he) h⟩
    have : (encodeStream toyMd5 ⟨true, true, false, 4, true, 14⟩ ⟨true, true, true⟩ 16 [streamL, streamR] 16 44100 []).map
        (fun r => r.1.frames.length) = some 3 := by decide
    rw [h] at this
    simpa using this

end C01WrapEx

end FlacVerif
