/-
Property-level statements transported to the GENERATED code (no new translation): the property theorems of
Theorems/C13.lean, C13Enc.lean, C09.lean and C07Total.lean, which speak about the hand model, restated for the functions
generated from the current source (Gen/Rice.lean, Gen/Coding.lean) through the equalities of Theorems/C13Gen.lean
(`C13G_find_partitioned_rice_parameter`, `C13G_encode_residual_chain`) and Theorems/C09Gen.lean
(`C09G_encode_residual`, `C09G_encode_subframe_valid`, `C09G_encode_frame`).  Hypotheses = those of the model theorem
plus those of the equality used.

  C13G_total / C13G_optimal / C13G_emitted      the generated `find_partitioned_rice_parameter`, for ANY stale finder content
                                  and BOTH profiles, returns, and its result is cost-optimal over the encoder's search space
  C13G_encode_residual_generated  `find_partitioned_rice_parameter` then `encode_residual_with_prc_parameter`, both generated,
                                  = the model's `encodeResidual` = what `Gen.Coding.encode_residual` computes
  C13G_residual_optimal           the `Residual` that chain builds codes the errors in the minimal number of bits over the space
  C09G_subframe_bound / C09G_frame_bound   the generated `encode_subframe` / `encode_frame`: at most `8 + n * bps` bits per
                                  sub-frame / `channels * (8 + n * bps)` per frame, for every oracle log
  C07G_subframe_total             the generated `encode_subframe` never returns `none` under C07Total's hypotheses
  C13G_encoder                    C13_encoder (optimality of every EMITTED residual, unconditional) for the generated `encode_subframe`
  C07G_frame_total                C07_frame_total for the generated `encode_frame` (it returns; its image is the model's frame)
  C09G_stream_bound               C09_stream for the stream the generated driver returns on the generated `MemSource`
-/
import FlacVerif.Theorems.C13Gen
import FlacVerif.Theorems.C13Enc
import FlacVerif.Theorems.C09Gen
import FlacVerif.Theorems.C07Total
import FlacVerif.Theorems.C09Stream
import FlacVerif.Theorems.C03GenMem

namespace FlacVerif.C13GenProp
open FlacVerif FlacVerif.Gen.Rice FlacVerif.C13Gen RiceSearch

/-- the release-profile side conditions of the C13Gen equalities follow from the property theorems' hypotheses -/
theorem hrel_of (dbg : Bool) (signal : List Int) (warm : Nat)
    (hsig : ∀ v ∈ signal, -(2 ^ 31 : Int) < v ∧ v < (2 ^ 31 : Int)) (hn : max 64 warm ≤ signal.length) :
    dbg = true ∨ (max 64 warm ≤ signal.length ∧ ∀ v ∈ signal, encodeSignbit v ≠ none) :=
  Or.inr ⟨hn, fun v hv => by rw [encodeSignbit_eq_fold v (hsig v hv).1 (hsig v hv).2]; simp⟩

/-- what the generated search returns is what the model's `search` returns -/
theorem gen_search (dbg : Bool) (prev fin : PrcParameterFinder) (signal : List Int) (warm maxP : Nat)
    (prc : FlacVerif.Gen.Rice.PrcParameter) (hmax : maxP ≤ 14)
    (hsig : ∀ v ∈ signal, -(2 ^ 31 : Int) < v ∧ v < (2 ^ 31 : Int))
    (hn : max 64 warm ≤ signal.length) (hlen : signal.length < 2 ^ 16)
    (hr : find_partitioned_rice_parameter dbg prev signal warm maxP = some (prc, fin)) :
    search signal warm maxP = some (toModel prc) := by
  have := C13G_find_partitioned_rice_parameter dbg prev signal warm maxP (by omega) hmax (hrel_of dbg signal warm hsig hn)
  rw [hr] at this
  exact this.symm

/-- **C13 (totality), generated.** -/
theorem C13G_total (dbg : Bool) (prev : PrcParameterFinder) (signal : List Int) (warm maxP : Nat) (hmax : maxP ≤ 14)
    (hsig : ∀ v ∈ signal, -(2 ^ 31 : Int) < v ∧ v < (2 ^ 31 : Int))
    (hn : max 64 warm ≤ signal.length) (hlen : signal.length < 2 ^ 16) :
    (find_partitioned_rice_parameter dbg prev signal warm maxP).isSome = true := by
  have h := C13G_find_partitioned_rice_parameter dbg prev signal warm maxP (by omega) hmax (hrel_of dbg signal warm hsig hn)
  have ht := C13_total signal warm maxP hsig hn hlen
  rw [← h] at ht
  cases hf : find_partitioned_rice_parameter dbg prev signal warm maxP with
  | none => rw [hf] at ht; exact absurd ht (by simp)
  | some r => rfl

/-- **C13 (optimality), generated**: `C13_optimal` for the result of the generated `find_partitioned_rice_parameter`, whatever
the previous call left in the thread-local finder, in both profiles. -/
theorem C13G_optimal (dbg : Bool) (prev fin : PrcParameterFinder) (signal : List Int) (warm maxP : Nat)
    (prc : FlacVerif.Gen.Rice.PrcParameter) (hmax : maxP ≤ 14)
    (hsig : ∀ v ∈ signal, -(2 ^ 31 : Int) < v ∧ v < (2 ^ 31 : Int))
    (hn : max 64 warm ≤ signal.length) (hlen : signal.length < 2 ^ 16)
    (hr : find_partitioned_rice_parameter dbg prev signal warm maxP = some (prc, fin)) :
    let es := signal.map fold
    orderOk es.length warm prc.order = true ∧ prc.ps.length = 2 ^ prc.order ∧ (∀ p ∈ prc.ps, p ≤ maxP) ∧
    (∀ o ps, orderOk es.length warm o = true → ps.length = 2 ^ o → (∀ p ∈ ps, p ≤ maxP) →
        choiceCost es warm o ps < 2 ^ 28 - 1 →
        choiceCost es warm prc.order prc.ps ≤ choiceCost es warm o ps ∧
        prc.code_bits = choiceCost es warm prc.order prc.ps) :=
  C13_optimal signal warm maxP hmax hsig hn hlen (toModel prc) (gen_search dbg prev fin signal warm maxP prc hmax hsig hn hlen hr)

/-- `C13_emitted` for the generated search -/
theorem C13G_emitted (dbg : Bool) (prev fin : PrcParameterFinder) (signal : List Int) (warm maxP : Nat)
    (prc : FlacVerif.Gen.Rice.PrcParameter) (hmax : maxP ≤ 14)
    (hsig : ∀ v ∈ signal, -(2 ^ 31 : Int) < v ∧ v < (2 ^ 31 : Int))
    (hn : max 64 warm ≤ signal.length) (hlen : signal.length < 2 ^ 16)
    (hr : find_partitioned_rice_parameter dbg prev signal warm maxP = some (prc, fin))
    (hsmall : choiceCost (signal.map fold) warm prc.order prc.ps < 2 ^ 28 - 1) :
    ∀ o ps, orderOk (signal.map fold).length warm o = true → ps.length = 2 ^ o → (∀ p ∈ ps, p ≤ maxP) →
      choiceCost (signal.map fold) warm prc.order prc.ps ≤ choiceCost (signal.map fold) warm o ps :=
  C13_emitted signal warm maxP hmax hsig hn hlen (toModel prc)
    (gen_search dbg prev fin signal warm maxP prc hmax hsig hn hlen hr) hsmall

/-! ### the residual built by the generated chain -/

/-- `encode_residual` of coding.rs with BOTH callees generated: the search (any stale finder), then the split -/
def genEncodeResidual (dbg : Bool) (prev : PrcParameterFinder) (cfg : FlacVerif.Gen.Prc) (errors : List Int) (warm : Nat) :
    Option Residual :=
  (find_partitioned_rice_parameter dbg prev errors warm cfg.max_parameter).bind fun r =>
    encode_residual_with_prc_parameter dbg cfg errors warm r.1

theorem C13G_encode_residual_generated (dbg : Bool) (prev : PrcParameterFinder) (cfg : FlacVerif.Gen.Prc) (errors : List Int)
    (warm : Nat) (hmax : cfg.max_parameter ≤ 14) (hlen : errors.length < 2 ^ 16)
    (hrel : dbg = true ∨ (max 64 warm ≤ errors.length ∧ ∀ v ∈ errors, encodeSignbit v ≠ none)) :
    genEncodeResidual dbg prev cfg errors warm = encodeResidual cfg.max_parameter errors warm ∧
    ∀ log, FlacVerif.Gen.Coding.encode_residual cfg errors warm log = (genEncodeResidual dbg prev cfg errors warm).map (·, log) := by
  have h := C13G_find_partitioned_rice_parameter dbg prev errors warm cfg.max_parameter (by omega) hmax hrel
  have heq : genEncodeResidual dbg prev cfg errors warm = encodeResidual cfg.max_parameter errors warm := by
    unfold genEncodeResidual encodeResidual
    cases hf : find_partitioned_rice_parameter dbg prev errors warm cfg.max_parameter with
    | none => rw [hf] at h; rw [← h]; rfl
    | some r =>
      rw [hf] at h
      have hs : search errors warm cfg.max_parameter = some (toModel r.1) := h.symm
      rw [hs]
      simp only [Option.bind_some, Option.bind_eq_bind]
      exact C13G_encode_residual_chain dbg cfg errors warm cfg.max_parameter (toModel r.1) r.1 hlen hs rfl
  exact ⟨heq, fun log => by rw [heq]; exact FlacVerif.C09Gen.C09G_encode_residual cfg errors warm log⟩

/-- **C13 for the residual the generated chain builds**: it is `Residual.ofErrors` of a choice of the search space, and its
coded size (`6 + choiceCost`) is minimal among the choices of the space whose cost is below the saturation value. -/
theorem C13G_residual_optimal (dbg : Bool) (prev : PrcParameterFinder) (cfg : FlacVerif.Gen.Prc) (errors : List Int) (warm : Nat)
    (res : Residual) (hmax : cfg.max_parameter ≤ 14)
    (herr : ∀ e ∈ errors, -(2 ^ 31 : Int) < e ∧ e < (2 ^ 31 : Int))
    (hn : max 64 warm ≤ errors.length) (hlen : errors.length < 2 ^ 16)
    (h : genEncodeResidual dbg prev cfg errors warm = some res) :
    ∃ o' ps', res = Residual.ofErrors errors warm o' ps' ∧
      orderOk errors.length warm o' = true ∧ ps'.length = 2 ^ o' ∧ (∀ p ∈ ps', p ≤ cfg.max_parameter) ∧
      ∀ o ps, orderOk errors.length warm o = true → ps.length = 2 ^ o → (∀ p ∈ ps, p ≤ cfg.max_parameter) →
        choiceCost (errors.map fold) warm o ps < 2 ^ 28 - 1 →
        res.bits.length ≤ (Residual.ofErrors errors warm o ps).bits.length := by
  rw [(C13G_encode_residual_generated dbg prev cfg errors warm hmax hlen (hrel_of dbg errors warm herr hn)).1] at h
  unfold encodeResidual at h
  cases hs : search errors warm cfg.max_parameter with
  | none => rw [hs] at h; simp at h
  | some r =>
    rw [hs] at h
    simp only [Option.bind_eq_bind, Option.bind_some, Option.some.injEq] at h
    have hopt := C13_optimal errors warm cfg.max_parameter hmax herr hn hlen r hs
    simp only [List.length_map] at hopt
    obtain ⟨h1, h2, h3, h4⟩ := hopt
    refine ⟨r.order, r.ps, h.symm, h1, h2, h3, ?_⟩
    intro o ps hok hl hps hlt
    rw [← h, C13_written_size errors warm r.order r.ps herr, C13_written_size errors warm o ps herr]
    have := (h4 o ps hok hl hps hlt).1
    omega

/-! ### C09 / C07 for the generated `encode_subframe` / `encode_frame` -/

open FlacVerif.Gen.Coding FlacVerif.C09Gen FlacVerif.Total

/-- **C09 (sub-frame), generated**: whatever the oracle log says, the sub-frame the generated `encode_subframe` returns takes at
most the verbatim size `8 + n * bps`. -/
theorem C09G_subframe_bound (s1 : List (List Int)) (s2 : List Int) (c : Gen.SubFrameCoding) (xs : List Int) (bps : Nat)
    (log log' : List OEvent) (s : SubFrame)
    (hn : 1 ≤ xs.length) (hlen : xs.length < 2 ^ 16) (hb : 1 ≤ bps ∧ bps ≤ 25)
    (hx : ∀ x ∈ xs, SubFrame.inRange bps x = true) (hmax : c.prc.max_parameter ≤ 14)
    (hmo : c.fixed.max_order + 1 < 2 ^ 64) (hest : ∀ o b, OEvent.est o b ∈ log → b < 2 ^ 63)
    (h : encode_subframe s1 s2 c xs bps log = some (s, log')) :
    ∃ n, s.count = some n ∧ n ≤ verbatimBits xs.length bps := by
  rw [C09G_encode_subframe_valid s1 s2 c xs bps log hn hlen hb hx hmax hmo hest] at h
  exact FlacVerif.C09.C09_subframe (subCfgOf c) xs bps log log' s hn h

/-- **C07 (totality, sub-frame), generated**: under C07Total's hypotheses the generated `encode_subframe` returns (it reaches no
panic site), having consumed exactly the oracle events `subTake` says. -/
theorem C07G_subframe_total (s1 : List (List Int)) (s2 : List Int) (c : Gen.SubFrameCoding) (xs : List Int) (bps : Nat)
    (log : List OEvent)
    (hn : 1 ≤ xs.length) (hlen : xs.length < 2 ^ 16) (hb : 1 ≤ bps ∧ bps ≤ 25)
    (hx : ∀ x ∈ xs, SubFrame.inRange bps x = true) (hmax : c.prc.max_parameter ≤ 14)
    (hmo : c.fixed.max_order + 1 < 2 ^ 64) (hest : ∀ o b, OEvent.est o b ∈ log → b < 2 ^ 63)
    (hlog : ∀ e ∈ log, e.Ok) (hshape : Total.SubLogOk (subCfgOf c) xs log) :
    ∃ s, encode_subframe s1 s2 c xs bps log = some (s, log.drop (Total.subTake (subCfgOf c) xs)) := by
  rw [C09G_encode_subframe_valid s1 s2 c xs bps log hn hlen hb hx hmax hmo hest]
  exact C07_subframe_total (subCfgOf c) xs bps log hlen hb hx hlog hshape

/-- **C09 (frame), generated**: for every oracle log, the sub-frames of the frame the generated `encode_frame` returns (read
through `C08Gen.frameOfGen`, after the frame-number assignment) take at most `channels * (8 + n * bps)` bits, and every one
of them has a size. -/
theorem C09G_frame_bound (s1 : List (List Int)) (s2 : List Int) (s3 : Gen.Coding.FrameBuf) (c : Gen.Encoder) (fb : Gen.Coding.FrameBuf)
    (info : StreamInfo) (number : Nat) (log log' : List OEvent) (g : Gen.Writer.Frame)
    (hst : StereoBuf s3) (hfb : FbOk fb info.channels) (hn : 1 ≤ fb.filled_size ∧ fb.filled_size < 2 ^ 16)
    (hch : 1 ≤ info.channels ∧ info.channels ≤ 8) (hb : 1 ≤ info.bps ∧ info.bps ≤ 24)
    (hx : ∀ ch, ch < info.channels → ∀ x ∈ chanOf fb ch, SubFrame.inRange info.bps x = true)
    (hmax : c.subframe_coding.prc.max_parameter ≤ 14) (hmo : c.subframe_coding.fixed.max_order + 1 < 2 ^ 64)
    (hrate : info.rate < 2 ^ 32) (hnum : number < 2 ^ 32) (hlog : LogFits log)
    (h : encode_frame s1 s2 s3 c fb 0 info log = some (g, log')) :
    FlacVerif.C09.subTotal (C08Gen.frameOfGen (withNumber g number)) ≤ info.channels * verbatimBits fb.filled_size info.bps ∧
    ∀ s ∈ (C08Gen.frameOfGen (withNumber g number)).subframes, ∃ n, s.count = some n := by
  have heq := C09G_encode_frame s1 s2 s3 c fb info number log hst hfb hn hch hb hx hmax hmo hrate hnum hlog
  rw [h] at heq
  have hlen : ∀ ch ∈ chansOf fb info.channels, ch.length = fb.filled_size := by
    intro ch hc
    simp only [chansOf, List.mem_map, List.mem_range] at hc
    obtain ⟨k, hk, rfl⟩ := hc
    exact chanOf_length fb info.channels k hfb hk
  have := FlacVerif.C09.C09_frame (subCfgOf c.subframe_coding) (stereoCfgOf c.stereo_coding) (chansOf fb info.channels)
    info.bps info.rate number fb.filled_size log log' _ hn.1 hlen heq.symm
  simpa [chansOf] using this

/-- **C13 (emitted residuals), generated**: `C13_encoder` for the sub-frame the generated `encode_subframe` returns - its
residual is `Residual.ofErrors` of an error signal with the emitted order and parameters, a choice of the search space, and NO
choice of the space has a smaller coded size (no saturation side condition), for every oracle log satisfying `OEvent.Ok`. -/
theorem C13G_encoder (s1 : List (List Int)) (s2 : List Int) (c : Gen.SubFrameCoding) (xs : List Int) (bps : Nat)
    (log log' : List OEvent) (s : SubFrame)
    (hn : 1 ≤ xs.length) (hlen : xs.length < 2 ^ 16) (hb : 1 ≤ bps ∧ bps ≤ 25)
    (hx : ∀ x ∈ xs, SubFrame.inRange bps x = true) (hmax : c.prc.max_parameter ≤ 14)
    (hmo : c.fixed.max_order + 1 < 2 ^ 64) (hest : ∀ o b, OEvent.est o b ∈ log → b < 2 ^ 63)
    (hlog : ∀ e ∈ log, e.Ok)
    (h : encode_subframe s1 s2 c xs bps log = some (s, log')) :
    match s with
    | .fixed warm res _ | .lpc warm _ _ _ res _ =>
        ∃ errors : List Int, errors.length = xs.length ∧
          (∀ e ∈ errors, -(2 ^ 31 : Int) < e ∧ e < (2 ^ 31 : Int)) ∧
          res = Residual.ofErrors errors warm.length res.order res.params ∧
          orderOk xs.length warm.length res.order = true ∧ res.params.length = 2 ^ res.order ∧
          (∀ p ∈ res.params, p ≤ c.prc.max_parameter) ∧
          ∀ o ps, orderOk xs.length warm.length o = true → ps.length = 2 ^ o → (∀ p ∈ ps, p ≤ c.prc.max_parameter) →
            choiceCost (errors.map fold) warm.length res.order res.params ≤
              choiceCost (errors.map fold) warm.length o ps
    | _ => True := by
  rw [C09G_encode_subframe_valid s1 s2 c xs bps log hn hlen hb hx hmax hmo hest] at h
  have := C13_encoder (subCfgOf c) xs bps log log' s hn hlen hb hx hmax hlog h
  cases s with
  | constant _ _ _ => trivial
  | verbatim _ _ => trivial
  | fixed warm res b => exact this
  | lpc warm coefs shift precision res b => exact this

/-- **C07 (totality, frame), generated**: under C07Total's hypotheses the generated `encode_frame` returns - no panic site is
reached -, consumes exactly `frameTake` oracle events, and its frame (after the frame-number assignment) is the model's. -/
theorem C07G_frame_total (s1 : List (List Int)) (s2 : List Int) (s3 : Gen.Coding.FrameBuf) (c : Gen.Encoder) (fb : Gen.Coding.FrameBuf)
    (info : StreamInfo) (number : Nat) (log : List OEvent)
    (hst : StereoBuf s3) (hfb : FbOk fb info.channels) (hn : 1 ≤ fb.filled_size ∧ fb.filled_size < 2 ^ 16)
    (hch : 1 ≤ info.channels ∧ info.channels ≤ 8) (hb : 1 ≤ info.bps ∧ info.bps ≤ 24)
    (hx : ∀ ch, ch < info.channels → ∀ x ∈ chanOf fb ch, SubFrame.inRange info.bps x = true)
    (hmax : c.subframe_coding.prc.max_parameter ≤ 14) (hmo : c.subframe_coding.fixed.max_order + 1 < 2 ^ 64)
    (hrate : info.rate < 2 ^ 32) (hnum : number < 2 ^ 32) (hfit : LogFits log)
    (hlog : ∀ e ∈ log, e.Ok) (hshape : FrameLogOk (subCfgOf c.subframe_coding) (chansOf fb info.channels) log) :
    ∃ g, encode_frame s1 s2 s3 c fb 0 info log
        = some (g, log.drop (frameTake (subCfgOf c.subframe_coding) (chansOf fb info.channels))) ∧
      encodeFrame (subCfgOf c.subframe_coding) (stereoCfgOf c.stereo_coding) (chansOf fb info.channels) info.bps info.rate number log
        = some (C08Gen.frameOfGen (withNumber g number), log.drop (frameTake (subCfgOf c.subframe_coding) (chansOf fb info.channels))) := by
  have heq := C09G_encode_frame s1 s2 s3 c fb info number log hst hfb hn hch hb hx hmax hmo hrate hnum hfit
  have hclen : (chansOf fb info.channels).length = info.channels := by simp [chansOf]
  have hlen : ∀ ch ∈ chansOf fb info.channels, ch.length = fb.filled_size := by
    intro ch hc
    simp only [chansOf, List.mem_map, List.mem_range] at hc
    obtain ⟨k, hk, rfl⟩ := hc
    exact chanOf_length fb info.channels k hfb hk
  have hxs : ∀ ch ∈ chansOf fb info.channels, ∀ x ∈ ch, SubFrame.inRange info.bps x = true := by
    intro ch hc
    simp only [chansOf, List.mem_map, List.mem_range] at hc
    obtain ⟨k, hk, rfl⟩ := hc
    exact hx k hk
  obtain ⟨f, hf⟩ := C07_frame_total (subCfgOf c.subframe_coding) (stereoCfgOf c.stereo_coding) (chansOf fb info.channels)
    info.bps info.rate number fb.filled_size log (by omega) hlen hn hb hxs hlog hshape
  rw [hf] at heq
  cases hg : encode_frame s1 s2 s3 c fb 0 info log with
  | none => rw [hg] at heq; simp at heq
  | some r =>
    rw [hg] at heq
    simp only [Option.map_some, Option.some.injEq, Prod.mk.injEq] at heq
    obtain ⟨g, l'⟩ := r
    simp only at heq
    refine ⟨g, by rw [heq.2], ?_⟩
    rw [hf, heq.1]

/-- **C09 (stream), generated**: the stream the GENERATED driver `encode_with_fixed_block_size` returns on the GENERATED `MemSource`
(single-threaded configuration) writes at most 42 bytes plus, per block, its own frame header and verbatim sub-frames -
`C09_stream` through `C03G_driver_mem_stream` (`streamImage G` is the generated stream read as the model's). -/
theorem C09G_stream_bound (featPar : Bool)
    (par : Gen.Encoder → Gen.Source.MemSource → Nat → FlacVerif.Gen.Coding.M (Option Gen.Writer.Stream))
    (md5f : List Nat → List Nat) (s1 : Nat → List (List Int)) (s2 : Nat → List Int) (s3 : Nat → Gen.Coding.FrameBuf)
    (c : Gen.Encoder) (chans : List (List Int)) (ch bps rate bs total : Nat) (log logf : List OEvent) (i0 : StreamInfo)
    (m0 : FlacVerif.FrameBuf) (s : Stream)
    (hmt : c.multithread = false)
    (hnew : FlacVerif.StreamInfo.new rate ch bps = some i0) (hfb : FlacVerif.FrameBuf.withSize ch bs = some m0)
    (hst : ∀ n, C09Gen.StereoBuf (s3 n)) (hb : 1 ≤ bps ∧ bps ≤ 24)
    (hmax : c.subframe_coding.prc.max_parameter ≤ 14) (hmo : c.subframe_coding.fixed.max_order + 1 < 2 ^ 64)
    (hcl : chans.length = ch) (hch : 1 ≤ ch ∧ ch ≤ 8) (hlen : ∀ x ∈ chans, x.length = total)
    (hxr : ∀ x ∈ chans, ∀ v ∈ x, SubFrame.inRange bps v = true) (htot : total < 2 ^ 36) (hbs : 1 ≤ bs ∧ bs < 2 ^ 16)
    (hs : encodeStream md5f (Total.subCfgOf c.subframe_coding) (Total.stereoCfgOf c.stereo_coding) bs chans bps rate log = some (s, logf))
    (hlog : C09Gen.LogFits log) (hlogok : ∀ e ∈ log, e.Ok) (hnb : (blocksOf bs chans).length < 2 ^ 31)
    (hmd : ∀ l, (md5f l).length = 16) (fuel : Nat) (hfuel : (blocksOf bs chans).length < fuel) :
    ∃ G sb, FlacVerif.Gen.Driver.encode_with_fixed_block_size featPar FlacVerif.C03Gen.memOps par md5f s1 s2 s3 fuel c
        (Gen.Source.MemSource.from_samples (Rfc.interleave chans) ch bps rate) bs log = some (some G, logf) ∧
      (FlacVerif.C03Gen.streamImage G).bits rfcCrc8 rfcCrc16 = some sb ∧
      (FlacVerif.C03Gen.streamImage G).count = some sb.length ∧
      sb.length ≤ 8 * 42 + (((blocksOf bs chans).zipIdx).map fun (b, i) =>
        8 * ((frameHeaderBits (b.headD []).length rate i + chans.length * (8 + (b.headD []).length * bps) + 7) / 8 + 2)).sum := by
  obtain ⟨G, hG, himg⟩ := FlacVerif.C03GenMem.C03G_driver_mem_stream featPar par md5f s1 s2 s3 c chans ch bps rate bs total log logf
    i0 m0 s hmt hnew hfb hst hb hmax hmo hcl hlen hxr (by omega) hs hlog hlogok hnb hmd fuel hfuel
  obtain ⟨sb, h1, h2, h3⟩ := C09_stream md5f (Total.subCfgOf c.subframe_coding) (Total.stereoCfgOf c.stereo_coding) bs chans bps rate
    log logf s total hmd (by rw [hcl]; exact hch) hlen htot hbs hb hxr hmax hlogok hs
  exact ⟨G, sb, hG, by rw [himg]; exact h1, by rw [himg]; exact h2, h3⟩

/-! ### the hypotheses are satisfiable (the witnesses of C13Gen / C09Gen) -/

/-- `C13G_total` / `C13G_optimal`: 128 samples of both signs, warm-up 2, any stale finder, both profiles -/
example (dbg : Bool) (prev : PrcParameterFinder) :
    ∃ prc fin, find_partitioned_rice_parameter dbg prev (List.replicate 64 (-3) ++ List.replicate 64 5) 2 14 = some (prc, fin) ∧
      prc.ps.length = 2 ^ prc.order ∧ ∀ p ∈ prc.ps, p ≤ 14 := by
  have hsig : ∀ v ∈ (List.replicate 64 (-3) ++ List.replicate 64 5 : List Int), -(2 ^ 31 : Int) < v ∧ v < (2 ^ 31 : Int) := by
    intro v hv
    simp only [List.mem_append, List.mem_replicate] at hv
    rcases hv with ⟨_, rfl⟩ | ⟨_, rfl⟩ <;> decide
  have ht := C13G_total dbg prev _ 2 14 (by decide) hsig (by simp) (by simp)
  cases hf : find_partitioned_rice_parameter dbg prev (List.replicate 64 (-3) ++ List.replicate 64 5) 2 14 with
  | none => rw [hf] at ht; exact absurd ht (by simp)
  | some r =>
    obtain ⟨prc, fin⟩ := r
    have := C13G_optimal dbg prev fin _ 2 14 prc (by decide) hsig (by simp) (by simp) hf
    exact ⟨prc, fin, rfl, this.2.1, this.2.2.1⟩

/-- `C13G_residual_optimal` / `C13G_encode_residual_generated`: the block `sig64` of C09Gen, maximal parameter 14 -/
example (dbg : Bool) (prev : PrcParameterFinder) :
    ∃ res o' ps', genEncodeResidual dbg prev ⟨14⟩ sig64 2 = some res ∧ res = Residual.ofErrors sig64 2 o' ps' ∧
      ps'.length = 2 ^ o' := by
  have herr : ∀ e ∈ sig64, -(2 ^ 31 : Int) < e ∧ e < (2 ^ 31 : Int) := by decide
  have hrel := hrel_of dbg sig64 2 herr (by decide)
  have h := (C13G_encode_residual_generated dbg prev ⟨14⟩ sig64 2 (by decide) (by decide) hrel).1
  have ht := C13_total sig64 2 14 herr (by decide) (by decide)
  cases hs : search sig64 2 14 with
  | none => rw [hs] at ht; exact absurd ht (by simp)
  | some r =>
    have : genEncodeResidual dbg prev ⟨14⟩ sig64 2 = some (Residual.ofErrors sig64 2 r.order r.ps) := by
      rw [h]; unfold encodeResidual; rw [hs]; rfl
    obtain ⟨o', ps', hres, _, hl, _⟩ := C13G_residual_optimal dbg prev ⟨14⟩ sig64 2 _ (by decide) herr (by decide) (by decide) this
    exact ⟨_, o', ps', this, hres, hl⟩

/-- `C09G_subframe_bound` / `C07G_subframe_total`: default configuration, `sig64` at 16 bits, the log `log64` -/
example (s : SubFrame) (l' : List OEvent) (h : encode_subframe [] [1, 2, 3] cfgDefault sig64 16 log64 = some (s, l')) :
    ∃ n, s.count = some n ∧ n ≤ verbatimBits 64 16 :=
  C09G_subframe_bound _ _ cfgDefault sig64 16 log64 l' s sig64_valid.1.1 sig64_valid.1.2 (by decide) sig64_valid.2
    (by decide) (by decide) (by intro o b h; simp [log64] at h; omega) h

/-- `C09G_frame_bound`: the stereo buffer `fb2` of C09Gen, stale mid/side scratch, frame number 7 -/
example (g : Gen.Writer.Frame) (l' : List OEvent) (h : encode_frame [] [] msStale cfgEnc fb2 0 info2 log4 = some (g, l')) :
    FlacVerif.C09.subTotal (C08Gen.frameOfGen (withNumber g 7)) ≤ 2 * verbatimBits 64 16 :=
  (C09G_frame_bound [] [] msStale cfgEnc fb2 info2 7 log4 l' g msStale_ok fb2_valid.1 fb2_valid.2.1 (by decide) (by decide)
    fb2_valid.2.2 (by decide) (by decide) (by decide) (by decide) log4_fits h).1

/-- `C13G_encoder`: the same witnesses; the log `log64` satisfies `OEvent.Ok` -/
example (s : SubFrame) (l' : List OEvent) (h : encode_subframe [] [1, 2, 3] cfgDefault sig64 16 log64 = some (s, l')) :
    match s with
    | .fixed warm res _ | .lpc warm _ _ _ res _ => res.params.length = 2 ^ res.order
    | _ => True := by
  have := C13G_encoder _ _ cfgDefault sig64 16 log64 l' s sig64_valid.1.1 sig64_valid.1.2 (by decide) sig64_valid.2
    (by decide) (by decide) (by intro o b h; simp [log64] at h; omega) (by decide) h
  cases s with
  | constant _ _ _ => trivial
  | verbatim _ _ => trivial
  | fixed warm res b => obtain ⟨_, _, _, _, _, hl, _⟩ := this; exact hl
  | lpc warm coefs shift precision res b => obtain ⟨_, _, _, _, _, hl, _⟩ := this; exact hl

end FlacVerif.C13GenProp
