/-
C03GenErr — the FAILURE direction of the generated stream driver (Gen/Driver.lean) on the generated `MemSource`: a block with a
sample outside the declared width makes `encode_with_fixed_block_size` return `Err` — not a panic — at the first such block
(C17's clause for out-of-range samples, C07's no-panic clause on the stream entry point, for the CURRENT source text).

  RunPre / C03G_loop_pre        a prefix of good iterations of the `loop`: `loopM (fuel + n)` from the start = `loopM fuel` from its end
  DeliversPre                   the source contract for a prefix of blocks (no final `read_samples = 0`)
  C03G_frames_contract_pre      the gluing induction of C03G_frames_contract for a prefix (same proof, other terminal)
  encode_rejects_samples        `encode_fixed_size_frame` returns `Err` when `verify_samples` does (nothing consumed)
  C03G_driver_pre_err           whole driver: accepted arguments, a good prefix, then an iteration whose buffer fails `verify_samples`
                                => `Err`, with the log the prefix left
  mem_delivers_pre              the generated `MemSource` delivers the first `j0` blocks (those in range) and stands at block `j0`
  C03G_driver_mem_err           generated driver on `MemSource::from_samples(interleave chans, ..)`: if blocks `0..j0-1` are in range
                                (and the model's frame loop encodes them) and block `j0` has a sample outside the width: `Err`, never
                                a panic, the log being what the first `j0` frames left
  C03G_driver_mem_total         (d3, in-range input) a configuration accepted by `Encoder::verify` (single-thread), 1..8 channels of
                                equal length with samples inside the width, EVERY oracle log that is `OEvent.Ok`, shaped as the encoder
                                consumes it (`FramesLogOk`) and `LogFits`: the generated driver on the generated `MemSource` never
                                panics - `Ok(stream)`, or `Err` from the argument checks (`StreamInfo::new`)
  C03G_driver_mem_total_any     (d3, EVERY input) the same without the range hypothesis: `Ok`, or `Err` (argument checks, first block
                                with a sample outside the width), never a panic
-/
import FlacVerif.Theorems.C03GenMem
import FlacVerif.Theorems.C07Total
namespace FlacVerif
namespace C03GenErr
open FlacVerif.C03Gen FlacVerif.C03GenMem FlacVerif.Gen.Driver
open FlacVerif.Gen.Coding (M pureM bindM liftO)
open Total Strict

/-- a prefix of the `loop`: good iterations only (the premises of `Run.step`), no terminal iteration -/
inductive RunPre {T : Type} (ops : SourceOps T) (s1 : Nat → List (List Int)) (s2 : Nat → List Int) (s3 : Nat → Gen.Coding.FrameBuf)
    (config : Gen.Encoder) (bs : Nat) : LoopState T → List OEvent → LoopState T → List OEvent → List Gen.Writer.Frame → Prop
  | nil (s : LoopState T) (log : List OEvent) : RunPre ops s1 s2 s3 config bs s log s log []
  | step (src src' : T) (st st1 : Gen.Writer.Stream) (fbc fbc' : Gen.Source.FrameBuf × Gen.Source.Context) (k num : Nat)
      (g : Gen.Writer.Frame) (log log1 logf : List OEvent) (fin : LoopState T) (gs : List Gen.Writer.Frame) :
      ops.read_samples src bs fbc = some (some k, src', fbc') → k ≠ 0 →
      Gen.Source.Context.current_frame_number fbc'.2 = some (some num) →
      Gen.Verify.Stream.stream_info_exact st = true →
      Gen.Coding.encode_fixed_size_frame verifySamples (s1 num) (s2 num) (s3 num) config (fbToCoding fbc'.1) num
        (Gen.Verify.Stream.stream_info st) log = some (some g, log1) →
      Stream.add_frame st g = some st1 →
      RunPre ops s1 s2 s3 config bs (src', st1, fbc') log1 fin logf gs →
      RunPre ops s1 s2 s3 config bs (src, st, fbc) log fin logf (g :: gs)

/-- **a good prefix of the `loop`** costs one unit of `fuel` per frame and leaves `loopM` in the prefix's final state and log -/
theorem C03G_loop_pre {T : Type} (ops : SourceOps T) (s1 : Nat → List (List Int)) (s2 : Nat → List Int) (s3 : Nat → Gen.Coding.FrameBuf)
    (config : Gen.Encoder) (bs : Nat) (s fin : LoopState T) (log logf : List OEvent) (gs : List Gen.Writer.Frame)
    (h : RunPre ops s1 s2 s3 config bs s log fin logf gs) :
    ∀ fuel, loopM (fuel + gs.length) s (loopBody ops s1 s2 s3 config bs) log = loopM fuel fin (loopBody ops s1 s2 s3 config bs) logf := by
  induction h with
  | nil s log => intro fuel; rfl
  | step src src' st st1 fbc fbc' k num g log log1 logf fin gs hr hk hnum hex henc hadd _ ih =>
    intro fuel
    have hk' : decide (k = 0) = false := by simp [hk]
    rw [List.length_cons, ← Nat.add_assoc]
    simp only [loopM, loopBody, hr, bindM_some, tryRet_some, hk', Bool.false_eq_true, if_false, hnum, hex, req_true,
      bindM_apply, henc, Option.bind_some, hadd, pureM_apply, liftO_apply, Option.map_some]
    exact ih fuel

/-- the source contract for a prefix of blocks (as `Delivers.block`, without the final `read_samples = 0`) -/
inductive DeliversPre {T : Type} (ops : SourceOps T) (bs ch bps : Nat) :
    T → (Gen.Source.FrameBuf × Gen.Source.Context) → List (List (List Int)) → T → (Gen.Source.FrameBuf × Gen.Source.Context) → Prop
  | nil (src : T) (fbc : Gen.Source.FrameBuf × Gen.Source.Context) : DeliversPre ops bs ch bps src fbc [] src fbc
  | block (src src' srcf : T) (fbc fbc' fbcf : Gen.Source.FrameBuf × Gen.Source.Context) (b : List (List Int))
      (rest : List (List (List Int))) (k : Nat) :
      ops.read_samples src bs fbc = some (some k, src', fbc') → k ≠ 0 → k = (b.headD []).length →
      fbc'.2 = { fbc.2 with md5 := fbc.2.md5 ++ md5Input bps (Rfc.interleave b), sample_count := fbc.2.sample_count + k,
                            frame_count := fbc.2.frame_count + 1 } →
      GoodFb fbc'.1 b ch bps →
      DeliversPre ops bs ch bps src' fbc' rest srcf fbcf → DeliversPre ops bs ch bps src fbc (b :: rest) srcf fbcf

/-- the gluing induction of `C03G_frames_contract`, for a prefix -/
theorem C03G_frames_contract_pre {T : Type} (ops : SourceOps T) (s1 : Nat → List (List Int)) (s2 : Nat → List Int)
    (s3 : Nat → Gen.Coding.FrameBuf) (c : Gen.Encoder) (bs ch bps rate : Nat)
    (hst : ∀ n, C09Gen.StereoBuf (s3 n)) (hch : 1 ≤ ch ∧ ch ≤ 8) (hb : 1 ≤ bps ∧ bps ≤ 24)
    (hmax : c.subframe_coding.prc.max_parameter ≤ 14) (hmo : c.subframe_coding.fixed.max_order + 1 < 2 ^ 64)
    (hrate : rate < 2 ^ 32)
    (src srcf : T) (fbc fbcf : Gen.Source.FrameBuf × Gen.Source.Context) (blocks : List (List (List Int)))
    (hd : DeliversPre ops bs ch bps src fbc blocks srcf fbcf) :
    ∀ (st : Gen.Writer.Stream) (i : StreamInfo) (log logf : List OEvent) (fs : List Frame),
      st.stream_info.data = .StreamInfo i → i.channels = ch → i.bps = bps → i.rate = rate →
      encodeFrames (subCfgOf c.subframe_coding) (stereoCfgOf c.stereo_coding) bps rate blocks fbc.2.frame_count log = some (fs, logf) →
      C09Gen.LogFits log → (∀ e ∈ log, e.Ok) → fbc.2.frame_count + blocks.length < 2 ^ 31 →
      i.total + 65535 * blocks.length < 2 ^ 64 →
      ∃ gs : List Gen.Writer.Frame,
        RunPre ops s1 s2 s3 c bs (src, st, fbc) log (srcf, streamAfter st i gs, fbcf) logf gs ∧
        gs.map C08Gen.frameOfGen = fs ∧
        gs.map (fun g => Gen.Verify.FrameHeader.block_size g.header) = blocks.map (fun b => (b.headD []).length) ∧
        (∀ g ∈ gs, g.precomputed_bitstream = none ∧ g.header.frame_number < 2 ^ 32 ∧ g.header.start_sample_number < 2 ^ 64 ∧
          FrameFits g ∧ (C08Gen.frameOfGen g).count = some (Gen.Writer.Frame.count_bits g) ∧ C08Gen.FrameOk g) := by
  induction hd with
  | nil src fbc =>
    intro st i log logf fs hi _ _ _ henc _ _ _ _
    simp only [encodeFrames, Option.some.injEq, Prod.mk.injEq] at henc
    obtain ⟨rfl, rfl⟩ := henc
    refine ⟨[], ?_, rfl, rfl, by simp⟩
    rw [stream_set_same st i hi]
    exact RunPre.nil _ _
  | block src src' srcf fbc fbc' fbcf b rest k hr hk hkb hctx hgood _ ih =>
    intro st i log logf fs hi hic hib hir henc hlog hlogok hnum htot
    have hlen : (b :: rest).length = rest.length + 1 := rfl
    rw [hlen] at hnum htot
    -- the model's step
    simp only [encodeFrames, Option.bind_eq_bind] at henc
    cases hef : encodeFrame (subCfgOf c.subframe_coding) (stereoCfgOf c.stereo_coding) b bps rate fbc.2.frame_count log with
    | none => simp [hef] at henc
    | some r =>
      obtain ⟨f, l1⟩ := r
      simp only [hef, Option.bind_some] at henc
      cases hefs : encodeFrames (subCfgOf c.subframe_coding) (stereoCfgOf c.stereo_coding) bps rate rest (fbc.2.frame_count + 1) l1 with
      | none => simp [hefs] at henc
      | some r2 =>
        obtain ⟨fs', l2⟩ := r2
        simp only [hefs, Option.bind_some, Option.some.injEq, Prod.mk.injEq] at henc
        obtain ⟨rfl, rfl⟩ := henc
        -- the frame number the driver passes
        have hfc : fbc'.2.frame_count = fbc.2.frame_count + 1 := by rw [hctx]
        have hnumc : Gen.Source.Context.current_frame_number fbc'.2 = some (some fbc.2.frame_count) := by
          unfold Gen.Source.Context.current_frame_number
          simp [hfc, Gen.Source.req]
        obtain ⟨hex, hsi⟩ := stream_info_of st i hi
        -- the generated encoder on the delivered buffer
        have hgen := C09Gen.C09G_encode_fixed_size_frame verifySamples (s1 fbc.2.frame_count) (s2 fbc.2.frame_count)
          (s3 fbc.2.frame_count) c (fbToCoding fbc'.1) fbc.2.frame_count i log (hst _) (hic ▸ hgood.ok) hgood.fill (hic ▸ hch)
          (hib ▸ hb) (by rw [hic, hib]; exact hgood.range) hmax hmo (hir ▸ hrate) hlog (by omega)
          (by rw [hic]; exact hgood.nch) (by rw [hib]; exact hgood.vs)
        rw [hic, hib, hir, hgood.chans, hef] at hgen
        cases hg : Gen.Coding.encode_fixed_size_frame verifySamples (s1 fbc.2.frame_count) (s2 fbc.2.frame_count)
            (s3 fbc.2.frame_count) c (fbToCoding fbc'.1) fbc.2.frame_count i log with
        | none => simp [hg] at hgen
        | some rg =>
          obtain ⟨og, lg⟩ := rg
          simp only [hg, Option.map_some, Option.some.injEq, Prod.mk.injEq] at hgen
          obtain ⟨hog, rfl⟩ := hgen
          cases og with
          | none => simp at hog
          | some g =>
            simp only [Option.map_some, Option.some.injEq] at hog
            obtain ⟨hp, hfn, hss, hbsz, hfit, hcnt, hfok⟩ := C03G_encoder_frame_ok verifySamples (s1 fbc.2.frame_count)
              (s2 fbc.2.frame_count) (s3 fbc.2.frame_count) c (fbToCoding fbc'.1) fbc.2.frame_count i log lg g (hst _)
              (hic ▸ hgood.ok) hgood.fill (hic ▸ hch) (hib ▸ hb) (by rw [hic, hib]; exact hgood.range) hmax hmo (hir ▸ hrate) hlog
              hlogok (by omega) (by rw [hic]; exact hgood.nch) (by rw [hib]; exact hgood.vs) hg
            have hm : Gen.Verify.FrameHeader.block_size g.header % 65536 < 65536 := Nat.mod_lt _ (by decide)
            have hu := C03G_update_frame_info i g hfit.1 hfit.2 (by omega)
            have hadd : Stream.add_frame st g = some (streamAfter st i [g]) := by
              rw [C03G_add_frame st i _ g hi hu]; rfl
            have htot' := addFrameCast_total i (Gen.Verify.FrameHeader.block_size g.header) (Gen.Writer.Frame.count_bits g)
            have hsub := encodeFrame_sub _ _ _ _ _ _ _ _ _ hef
            obtain ⟨gs, hrun, hmap, hsz, hall⟩ := ih (streamAfter st i [g]) (foldInfo i [g]) lg l2 fs' rfl
              (by simpa [foldInfo_one, StreamInfo.addFrameCast] using hic)
              (by simpa [foldInfo_one, StreamInfo.addFrameCast] using hib) (by simpa [foldInfo_one, StreamInfo.addFrameCast] using hir)
              (by rw [hfc]; exact hefs) (hlog.sub hsub) (fun e he => hlogok e (hsub e he)) (by rw [hfc]; omega)
              (by rw [foldInfo_one]; omega)
            refine ⟨g :: gs, ?_, by simp [hog, hmap], ?_, ?_⟩
            · rw [streamAfter_cons]
              exact RunPre.step _ _ _ _ _ _ k _ g _ _ _ _ _ hr hk hnumc hex (by rw [hsi]; exact hg) hadd hrun
            · simp only [List.map_cons, hsz, hbsz, List.cons.injEq, and_true]
              have h1 := C09Gen.chanOf_length (fbToCoding fbc'.1) ch 0 hgood.ok (by omega)
              have h2 : b.headD [] = C09Gen.chanOf (fbToCoding fbc'.1) 0 := by
                rw [← hgood.chans]
                unfold C09Gen.chansOf
                cases hc : ch with
                | zero => omega
                | succ n => simp [List.range_succ_eq_map]
              rw [h2, h1]
            · intro x hx
              simp only [List.mem_cons] at hx
              rcases hx with rfl | hx
              · exact ⟨hp, hfn, hss, hfit, hcnt, hfok⟩
              · exact hall x hx



/-- **`encode_fixed_size_frame` returns `Err` when `verify_samples` does** (frame number and buffer shape accepted): nothing is
consumed from the log, no panic. -/
theorem encode_rejects_samples (vs : Gen.Coding.FrameBuf → Nat → Gen.Verify.VR) (s1 : List (List Int)) (s2 : List Int)
    (s3 : Gen.Coding.FrameBuf) (c : Gen.Encoder) (fb : Gen.Coding.FrameBuf) (number : Nat) (info : StreamInfo) (log : List OEvent)
    (hnum : number < 2 ^ 31) (hsz : fb.size ≠ 0) (hcn : fb.samples.length / fb.size = info.channels) (hfill : 0 < fb.filled_size)
    (hvs : vs fb info.bps = some false) :
    Gen.Coding.encode_fixed_size_frame vs s1 s2 s3 c fb number info log = some (none, log) := by
  unfold Gen.Coding.encode_fixed_size_frame
  have hlim : ¬ 2147483648 ≤ number := by omega
  simp [Gen.Coding.vrTry, Gen.Verify.verify_macro_impl, hlim, C09Gen.bindM_apply, Gen.Coding.FrameBuf.channels, C09Gen.req_apply,
    C09Gen.pureM_apply, hsz, hcn, hfill, hvs]

/-- **the whole driver, failing**: accepted arguments, a good prefix of the loop from `entryState`, then an iteration that delivers
a non-empty block whose buffer fails `verify_samples`: the driver returns `Err` with the log the prefix left. -/
theorem C03G_driver_pre_err {T : Type} (ops : SourceOps T) (featPar : Bool) (par : Gen.Encoder → T → Nat → M (Option Gen.Writer.Stream))
    (md5f : List Nat → List Nat) (s1 : Nat → List (List Int)) (s2 : Nat → List Int) (s3 : Nat → Gen.Coding.FrameBuf)
    (config : Gen.Encoder) (src srcp src' : T) (bs : Nat) (log logp : List OEvent) (i0 : StreamInfo) (m0 : FlacVerif.FrameBuf)
    (stp : Gen.Writer.Stream) (fbcp fbc' : Gen.Source.FrameBuf × Gen.Source.Context) (gs : List Gen.Writer.Frame) (k num : Nat)
    (hmt : config.multithread = false)
    (hnew : FlacVerif.StreamInfo.new (ops.sample_rate src) (ops.channels src) (ops.bits_per_sample src) = some i0)
    (hfb : FlacVerif.FrameBuf.withSize (ops.channels src) bs = some m0)
    (hrun : RunPre ops s1 s2 s3 config bs (entryState src i0 m0 bs (ops.bits_per_sample src) (ops.channels src)) log
      (srcp, stp, fbcp) logp gs)
    (hr : ops.read_samples srcp bs fbcp = some (some k, src', fbc')) (hk : k ≠ 0)
    (hnum : Gen.Source.Context.current_frame_number fbc'.2 = some (some num))
    (hex : Gen.Verify.Stream.stream_info_exact stp = true)
    (henc : Gen.Coding.encode_fixed_size_frame verifySamples (s1 num) (s2 num) (s3 num) config (fbToCoding fbc'.1) num
        (Gen.Verify.Stream.stream_info stp) logp = some (none, logp)) :
    ∀ fuel, gs.length < fuel →
      encode_with_fixed_block_size featPar ops par md5f s1 s2 s3 fuel config src bs log = some (none, logp) := by
  intro fuel hf
  obtain ⟨hb25, hi0⟩ := streamInfo_new_bps _ _ _ _ hnew
  have hbs := withSize_bs _ _ _ hfb
  have hlt : bs < 65536 := by
    unfold verifyBlockSize maxBlockSize at hbs
    simp at hbs; omega
  have hctx : Gen.Source.Context.new (ops.bits_per_sample src) (ops.channels src) =
      some ⟨[], (ops.bits_per_sample src + 7) / 8, ops.channels src, 0, 0⟩ := by
    rw [C14Gen.C14G_ctx_new _ _ (by omega), if_pos (by omega)]
  rw [C03G_driver_unfold]
  simp only [hmt, Bool.and_false, Bool.false_eq_true, if_false, C03G_stream_new, hnew, Option.map_some, bindM_some, tryM_some,
    C14Gen.C14G_with_size, hfb, hctx, C03G_with_stream_info, Stream.stream_info_mut, C18Gen.C18G_set_block_sizes, hbs, hlt,
    if_true, Bool.and_self, Nat.le_refl, decide_true, req_true]
  obtain ⟨f, rfl⟩ : ∃ f, fuel = (f + 1) + gs.length := ⟨fuel - gs.length - 1, by omega⟩
  have hloop := C03G_loop_pre ops s1 s2 s3 config bs _ _ log logp gs hrun (f + 1)
  rw [C03G_loop_encode_err ops s1 s2 s3 config bs f srcp src' stp fbcp fbc' k num logp logp hr hk hnum hex henc] at hloop
  unfold entryState at hloop
  simp only [Stream.stream_info_mut_set] at hloop ⊢
  rw [bindM_apply, hloop]
  rfl

/-- block `i` of `blocksOf bs chans` -/
abbrev blockAt (chans : List (List Int)) (bs i : Nat) : List (List Int) := chans.map fun x => (x.drop (i * bs)).take bs

/-- the generated `MemSource` delivers `k` good blocks from block `j` on and then stands at block `j + k` -/
theorem mem_delivers_pre (chans : List (List Int)) (ch bps rate bs total : Nat)
    (hcl : chans.length = ch) (hch : 1 ≤ ch ∧ ch ≤ 8) (hlen : ∀ x ∈ chans, x.length = total) (hb : 1 ≤ bps ∧ bps ≤ 24)
    (hbs : 1 ≤ bs ∧ bs < 2 ^ 16) (htot : total < 2 ^ 40) :
    ∀ (k j : Nat) (g : Gen.Source.FrameBuf) (c : Gen.Source.Context), j + k ≤ (total + bs - 1) / bs →
      (∀ i, j ≤ i → i < j + k → ∀ x ∈ blockAt chans bs i, ∀ v ∈ x, SubFrame.inRange bps v = true) →
      C14Gen.Shape g ch → g.size = bs → c.bytes_per_sample = (bps + 7) / 8 → c.channels = ch →
      c.sample_count = min (j * bs) total → c.frame_count = j →
      ∃ g' c', DeliversPre memOps bs ch bps ⟨ch, bps, rate, Rfc.interleave chans, min (j * bs) total⟩ (g, c)
          ((List.range' j k).map (blockAt chans bs)) ⟨ch, bps, rate, Rfc.interleave chans, min ((j + k) * bs) total⟩ (g', c') ∧
        C14Gen.Shape g' ch ∧ g'.size = bs ∧ c'.bytes_per_sample = (bps + 7) / 8 ∧ c'.channels = ch ∧
        c'.sample_count = min ((j + k) * bs) total ∧ c'.frame_count = j + k := by
  intro k
  induction k with
  | zero =>
    intro j g c _ _ hg hgs hc1 hc2 hc3 hc4
    exact ⟨g, c, DeliversPre.nil _ _, hg, hgs, hc1, hc2, hc3, hc4⟩
  | succ k ih =>
    intro j g c hjk hgood hg hgs hc1 hc2 hc3 hc4
    have h40 : (2 : Nat) ^ 40 = 1099511627776 := by decide
    have hne : 1 ≤ chans.length := by omega
    have hjlt := Strict.lt_ceil total bs j hbs.1 (by omega)
    have hmin : min (j * bs) total = j * bs := by omega
    have hjt : j ≤ total := by
      have : j * 1 ≤ j * bs := Nat.mul_le_mul_left j hbs.1
      omega
    obtain ⟨g', hg', hgs', hgoodfb, hread⟩ := mem_block chans ch bps rate bs total j g c hcl hch hlen
      (hgood j (Nat.le_refl _) (by omega)) hb hbs htot hjlt hg hgs hc1 hc2 (by omega) (by omega)
    have hnext : j * bs + min bs (total - j * bs) = min ((j + 1) * bs) total := by rw [Nat.succ_mul]; omega
    rw [hnext] at hread
    obtain ⟨g2, c2, hd, h1, h2, h3, h4, h5, h6⟩ := ih (j + 1) g' (ctxAfter c (md5Input bps (Rfc.interleave (blockAt chans bs j)))
        (min bs (total - j * bs))) (by omega) (fun i hi1 hi2 => hgood i (by omega) (by omega)) hg' hgs' hc1 hc2
      (by simp only [ctxAfter, hc3]; rw [Nat.succ_mul]; omega) (by simp only [ctxAfter, hc4])
    have hjk1 : j + 1 + k = j + (k + 1) := by omega
    rw [hjk1] at hd h5 h6
    refine ⟨g2, c2, ?_, h1, h2, h3, h4, h5, h6⟩
    rw [hmin, List.range'_succ, List.map_cons]
    exact DeliversPre.block _ _ _ _ _ _ _ _ (min bs (total - j * bs)) hread (by omega)
      (by rw [Strict.block_headD bs chans total hne hlen j]) rfl hgoodfb hd

theorem foldInfo_fields (gs : List Gen.Writer.Frame) : ∀ i : StreamInfo,
    (foldInfo i gs).channels = i.channels ∧ (foldInfo i gs).bps = i.bps := by
  induction gs with
  | nil => intro i; exact ⟨rfl, rfl⟩
  | cons g gs ih => intro i; simp only [foldInfo, List.foldl_cons] at ih ⊢; rw [(ih _).1, (ih _).2]; exact ⟨rfl, rfl⟩

/-- **(d2) out-of-range samples on the generated `MemSource`**: accepted arguments, blocks `0 .. j0-1` inside the declared width (and
encoded by the model's frame loop, leaving the log `logp`), block `j0` with a sample outside the width: the generated driver returns
`Err` — it does not panic — with the remaining log `logp`: the error arises at the FIRST such block, after `j0` frames. -/
theorem C03G_driver_mem_err (featPar : Bool) (par : Gen.Encoder → Gen.Source.MemSource → Nat → M (Option Gen.Writer.Stream))
    (md5f : List Nat → List Nat) (s1 : Nat → List (List Int)) (s2 : Nat → List Int) (s3 : Nat → Gen.Coding.FrameBuf)
    (c : Gen.Encoder) (chans : List (List Int)) (ch bps rate bs total j0 : Nat) (log logp : List OEvent) (i0 : StreamInfo)
    (m0 : FlacVerif.FrameBuf) (fs : List Frame)
    (hmt : c.multithread = false)
    (hnew : FlacVerif.StreamInfo.new rate ch bps = some i0) (hfb : FlacVerif.FrameBuf.withSize ch bs = some m0)
    (hst : ∀ n, C09Gen.StereoBuf (s3 n)) (hb : 1 ≤ bps ∧ bps ≤ 24)
    (hmax : c.subframe_coding.prc.max_parameter ≤ 14) (hmo : c.subframe_coding.fixed.max_order + 1 < 2 ^ 64)
    (hcl : chans.length = ch) (hlen : ∀ x ∈ chans, x.length = total) (htot : total < 2 ^ 40)
    (hj0 : j0 < (total + bs - 1) / bs) (hj31 : j0 < 2 ^ 31)
    (hgood : ∀ i, i < j0 → ∀ x ∈ blockAt chans bs i, ∀ v ∈ x, SubFrame.inRange bps v = true)
    (hbad : ∃ cc, cc < ch ∧ ∃ v ∈ (blockAt chans bs j0).getD cc [], SubFrame.inRange bps v = false)
    (henc : encodeFrames (subCfgOf c.subframe_coding) (stereoCfgOf c.stereo_coding) bps rate
      ((List.range' 0 j0).map (blockAt chans bs)) 0 log = some (fs, logp))
    (hlog : C09Gen.LogFits log) (hlogok : ∀ e ∈ log, e.Ok) :
    ∀ fuel, j0 < fuel →
      encode_with_fixed_block_size featPar memOps par md5f s1 s2 s3 fuel c
        (Gen.Source.MemSource.from_samples (Rfc.interleave chans) ch bps rate) bs log = some (none, logp) := by
  have hch : 1 ≤ ch ∧ ch ≤ 8 ∧ 32 ≤ bs ∧ bs ≤ 32767 := by
    unfold FlacVerif.FrameBuf.withSize at hfb
    split at hfb
    · assumption
    · simp at hfb
  have hm0 : m0 = ⟨List.replicate (bs * ch) 0, bs, ch, 0⟩ := by
    unfold FlacVerif.FrameBuf.withSize at hfb
    rw [if_pos hch] at hfb
    simpa using hfb.symm
  have hmul : bs * ch ≤ 32767 * 8 := Nat.mul_le_mul hch.2.2.2 hch.2.1
  have hshape : C14Gen.Shape (C14Gen.ofModel m0 []) ch := by
    subst hm0
    exact ⟨by simp [C14Gen.ofModel], by simp [C14Gen.ofModel]; omega, hch.1, by simp [C14Gen.ofModel]; omega⟩
  have hsize : (C14Gen.ofModel m0 []).size = bs := by subst hm0; rfl
  have h16 : (2 : Nat) ^ 16 = 65536 := by decide
  have h31 : (2 : Nat) ^ 31 = 2147483648 := by decide
  obtain ⟨_, hi0⟩ := streamInfo_new_bps _ _ _ _ hnew
  have hrate : rate < 2 ^ 32 := by
    unfold FlacVerif.StreamInfo.new at hnew
    split at hnew
    · rename_i h; omega
    · simp at hnew
  -- the good prefix
  obtain ⟨gp, cp, hd, hgp, hgps, hcp1, hcp2, hcp3, hcp4⟩ := mem_delivers_pre chans ch bps rate bs total hcl ⟨hch.1, hch.2.1⟩ hlen hb
    (by omega) htot j0 0 (C14Gen.ofModel m0 []) ⟨[], (bps + 7) / 8, ch, 0, 0⟩ (by omega)
    (fun i _ hi => hgood i (by omega)) hshape hsize rfl rfl (by simp) rfl
  simp only [Nat.zero_mul, Nat.zero_min, Nat.zero_add] at hd hcp3 hcp4
  obtain ⟨gs, hrun, _, hsz, _⟩ := C03G_frames_contract_pre memOps s1 s2 s3 c bs ch bps rate hst ⟨hch.1, hch.2.1⟩ hb hmax hmo hrate
    _ _ _ _ _ hd ⟨⟨true, .StreamInfo { i0 with minBlock := bs, maxBlock := bs }⟩, [], []⟩ { i0 with minBlock := bs, maxBlock := bs }
    log logp fs rfl (by subst hi0; rfl) (by subst hi0; rfl) (by subst hi0; rfl) henc hlog hlogok (by simp; omega)
    (by subst hi0; simp [StreamInfo.empty]; omega)
  have hgl : gs.length = j0 := by
    have := congrArg List.length hsz
    simpa using this
  -- the bad block
  have hjlt := Strict.lt_ceil total bs j0 (by omega) hj0
  have hminj : min (j0 * bs) total = j0 * bs := by omega
  rw [hminj] at hrun hcp3
  have hjt : j0 ≤ total := by
    have : j0 * 1 ≤ j0 * bs := Nat.mul_le_mul_left j0 (by omega)
    omega
  obtain ⟨gb, ⟨hb1, hb2, hb3, hb4⟩, hread⟩ := mem_block_bad chans ch bps rate bs total j0 gp cp hcl ⟨hch.1, hch.2.1⟩ hlen hbad hb
    (by omega) htot hjlt hgp hgps hcp1 hcp2 (by omega) (by omega)
  obtain ⟨hfc, hfb'⟩ := foldInfo_fields gs { i0 with minBlock := bs, maxBlock := bs }
  have hinfo : Gen.Verify.Stream.stream_info (streamAfter ⟨⟨true, .StreamInfo { i0 with minBlock := bs, maxBlock := bs }⟩, [], []⟩
      { i0 with minBlock := bs, maxBlock := bs } gs) = foldInfo { i0 with minBlock := bs, maxBlock := bs } gs := rfl
  have hnumc : Gen.Source.Context.current_frame_number
      (ctxAfter cp (md5Input bps (Rfc.interleave (blockAt chans bs j0))) (min bs (total - j0 * bs))) = some (some j0) := by
    unfold Gen.Source.Context.current_frame_number
    simp [ctxAfter, hcp4, Gen.Source.req]
  intro fuel hf
  refine C03G_driver_pre_err memOps featPar par md5f s1 s2 s3 c
    (Gen.Source.MemSource.from_samples (Rfc.interleave chans) ch bps rate) _ _ bs log logp i0 m0 _ _ _ gs _ j0 hmt hnew hfb
    hrun hread (by omega) hnumc rfl ?_ fuel (by omega)
  rw [hinfo]
  exact encode_rejects_samples verifySamples _ _ _ c (fbToCoding gb) j0 _ logp (by omega) hb1
    (by rw [hfc]; subst hi0; exact hb2) hb3 (by rw [hfb']; subst hi0; exact hb4)

/-- **(d3) no panic on the stream entry point, in-range input**: for a configuration accepted by `Encoder::verify` (single-thread
path), 1 to 8 channels of equal length `total < 2^36` with samples inside the width `1 ≤ bps ≤ 24`, any rate, and EVERY oracle log
that is `OEvent.Ok`, shaped as the encoder consumes it (`FramesLogOk`, as C07_total) and `LogFits` (entropy estimates below `2^63`:
the one panic site of the generated code the hand model does not have), the generated driver on the generated `MemSource` does not
panic: it returns `Ok(stream)`, or `Err` when `StreamInfo::new` rejects rate / width. -/
theorem C03G_driver_mem_total (exp : Bool) (c : Gen.Encoder) (hv : Gen.Encoder.verify exp c = true) (featPar : Bool)
    (par : Gen.Encoder → Gen.Source.MemSource → Nat → M (Option Gen.Writer.Stream))
    (md5f : List Nat → List Nat) (s1 : Nat → List (List Int)) (s2 : Nat → List Int) (s3 : Nat → Gen.Coding.FrameBuf)
    (chans : List (List Int)) (bps rate total : Nat) (log : List OEvent)
    (hmt : c.multithread = false) (hst : ∀ n, C09Gen.StereoBuf (s3 n))
    (hch : 1 ≤ chans.length ∧ chans.length ≤ 8) (hlen : ∀ x ∈ chans, x.length = total) (htot : total < 2 ^ 36)
    (hb : 1 ≤ bps ∧ bps ≤ 24) (hx : ∀ x ∈ chans, ∀ v ∈ x, SubFrame.inRange bps v = true)
    (hlogok : ∀ e ∈ log, e.Ok) (hshape : FramesLogOk (subCfgOf c.subframe_coding) (blocksOf c.block_size chans) log)
    (hlog : C09Gen.LogFits log) (hnb : (total + c.block_size - 1) / c.block_size < 2 ^ 31)
    (hmd : ∀ l, (md5f l).length = 16) :
    ∀ fuel, (total + c.block_size - 1) / c.block_size < fuel →
      encode_with_fixed_block_size featPar memOps par md5f s1 s2 s3 fuel c
        (Gen.Source.MemSource.from_samples (Rfc.interleave chans) chans.length bps rate) c.block_size log ≠ none := by
  intro fuel hf
  obtain ⟨hmax, hfo, h32, h32767, _⟩ := verify_facts exp c hv
  have hbl := Strict.blocksOf_length c.block_size chans total hch.1 hlen
  have h36 : (2 : Nat) ^ 36 = 68719476736 := by decide
  have h40 : (2 : Nat) ^ 40 = 1099511627776 := by decide
  have hfb : FlacVerif.FrameBuf.withSize chans.length c.block_size =
      some ⟨List.replicate (c.block_size * chans.length) 0, c.block_size, chans.length, 0⟩ := by
    unfold FlacVerif.FrameBuf.withSize
    rw [if_pos ⟨hch.1, hch.2, h32, h32767⟩]
  cases hn : FlacVerif.StreamInfo.new rate chans.length bps with
  | none =>
    have hargs : encodeStreamArgsOk c.block_size
        (memOps.channels (Gen.Source.MemSource.from_samples (Rfc.interleave chans) chans.length bps rate))
        (memOps.bits_per_sample (Gen.Source.MemSource.from_samples (Rfc.interleave chans) chans.length bps rate))
        (memOps.sample_rate (Gen.Source.MemSource.from_samples (Rfc.interleave chans) chans.length bps rate)) = false := by
      show encodeStreamArgsOk c.block_size chans.length bps rate = false
      simp [encodeStreamArgsOk, hn]
    rw [C03G_driver_args memOps featPar par md5f s1 s2 s3 fuel c _ c.block_size log hmt hargs]
    simp
  | some i0 =>
    obtain ⟨s, hs⟩ := C07_total exp c hv md5f chans bps rate log total hch hlen htot hb hx hlogok hshape
    obtain ⟨G, hg, _⟩ := C03G_driver_mem_stream featPar par md5f s1 s2 s3 c chans chans.length bps rate c.block_size total log _ i0 _ s
      hmt hn hfb hst hb (by simpa [subCfgOf] using hmax) (by simp [subCfgOf] at hfo; omega) rfl hlen hx (by omega) hs hlog hlogok
      (by rw [hbl]; exact hnb) hmd fuel (by rw [hbl]; exact hf)
    rw [hg]
    simp

/-! ### (d3) for EVERY input: in range or not -/

theorem framesLogOk_prefix (cfg : SubCfg) : ∀ (l1 l2 : List (List (List Int))) (log : List OEvent),
    FramesLogOk cfg (l1 ++ l2) log → FramesLogOk cfg l1 log
  | [], _, _, _ => trivial
  | _ :: bs, l2, _, h => ⟨h.1, framesLogOk_prefix cfg bs l2 _ h.2⟩

theorem first_bad (P : Nat → Prop) : ∀ n, (∃ i, i < n ∧ P i) → ∃ j, j < n ∧ P j ∧ ∀ i, i < j → ¬ P i := by
  intro n
  induction n with
  | zero => intro ⟨i, hi, _⟩; omega
  | succ n ih =>
    intro ⟨i, hi, hp⟩
    by_cases hex : ∃ i, i < n ∧ P i
    · obtain ⟨j, hj, h1, h2⟩ := ih hex
      exact ⟨j, by omega, h1, h2⟩
    · have hin : i = n := by
        by_cases h : i < n
        · exact absurd ⟨i, h, hp⟩ hex
        · omega
      subst hin
      exact ⟨i, by omega, hp, fun k hk hpk => hex ⟨k, hk, hpk⟩⟩

theorem mem_chunk (x : List Int) (bs : Nat) (hbs : 1 ≤ bs) (v : Int) (hv : v ∈ x) :
    ∃ j, j < (x.length + bs - 1) / bs ∧ v ∈ (x.drop (j * bs)).take bs := by
  rw [← Strict.chunks_all x bs hbs] at hv
  simp only [List.mem_flatMap, List.mem_range] at hv
  obtain ⟨j, hj, hm⟩ := hv
  exact ⟨j, hj, hm⟩

theorem blockOk_at (chans : List (List Int)) (ch bps bs total j : Nat) (hbs : 1 ≤ bs) (hcl : chans.length = ch) (hne : 1 ≤ chans.length)
    (hlen : ∀ c ∈ chans, c.length = total) (hj : j < (total + bs - 1) / bs)
    (hx : ∀ x ∈ blockAt chans bs j, ∀ v ∈ x, SubFrame.inRange bps v = true) : BlockOk ch bps bs (blockAt chans bs j) := by
  have hjt := Strict.lt_ceil total bs j hbs hj
  have hh := Strict.block_headD bs chans total hne hlen j
  refine ⟨by simp [blockAt, hcl], ?_, by rw [hh]; omega, by rw [hh]; omega, hx⟩
  intro c hc
  simp only [blockAt, List.mem_map] at hc
  obtain ⟨c', hc', rfl⟩ := hc
  rw [hh, List.length_take, List.length_drop, hlen c' hc']

/-- **(d3) no panic on the stream entry point, EVERY input**: as `C03G_driver_mem_total`, without the hypothesis that the samples lie
inside the declared width: for every list of `i32`-valued channels (1..8, equal length `< 2^36`) the generated driver on the
generated `MemSource` returns `Ok`, or `Err` (argument checks; the first block with a sample outside the width), never a panic —
for a configuration accepted by `Encoder::verify` (single-thread) and EVERY oracle log that is `OEvent.Ok`, `FramesLogOk`, `LogFits`. -/
theorem C03G_driver_mem_total_any (exp : Bool) (c : Gen.Encoder) (hv : Gen.Encoder.verify exp c = true) (featPar : Bool)
    (par : Gen.Encoder → Gen.Source.MemSource → Nat → M (Option Gen.Writer.Stream))
    (md5f : List Nat → List Nat) (s1 : Nat → List (List Int)) (s2 : Nat → List Int) (s3 : Nat → Gen.Coding.FrameBuf)
    (chans : List (List Int)) (bps rate total : Nat) (log : List OEvent)
    (hmt : c.multithread = false) (hst : ∀ n, C09Gen.StereoBuf (s3 n))
    (hch : 1 ≤ chans.length ∧ chans.length ≤ 8) (hlen : ∀ x ∈ chans, x.length = total) (htot : total < 2 ^ 36)
    (hb : 1 ≤ bps ∧ bps ≤ 24)
    (hlogok : ∀ e ∈ log, e.Ok) (hshape : FramesLogOk (subCfgOf c.subframe_coding) (blocksOf c.block_size chans) log)
    (hlog : C09Gen.LogFits log) (hnb : (total + c.block_size - 1) / c.block_size < 2 ^ 31)
    (hmd : ∀ l, (md5f l).length = 16) :
    ∀ fuel, (total + c.block_size - 1) / c.block_size < fuel →
      encode_with_fixed_block_size featPar memOps par md5f s1 s2 s3 fuel c
        (Gen.Source.MemSource.from_samples (Rfc.interleave chans) chans.length bps rate) c.block_size log ≠ none := by
  intro fuel hf
  obtain ⟨hmax, hfo, h32, h32767, _⟩ := verify_facts exp c hv
  have h36 : (2 : Nat) ^ 36 = 68719476736 := by decide
  have h40 : (2 : Nat) ^ 40 = 1099511627776 := by decide
  have h16 : (2 : Nat) ^ 16 = 65536 := by decide
  have h31 : (2 : Nat) ^ 31 = 2147483648 := by decide
  by_cases hex : ∃ i, i < (total + c.block_size - 1) / c.block_size ∧
      ∃ x ∈ blockAt chans c.block_size i, ∃ v ∈ x, SubFrame.inRange bps v = false
  · -- a first block with a sample outside the width
    obtain ⟨j0, hj0, ⟨xb, hxb, vb, hvb, hvr⟩, hfirst⟩ := first_bad _ _ hex
    have hgood : ∀ i, i < j0 → ∀ x ∈ blockAt chans c.block_size i, ∀ v ∈ x, SubFrame.inRange bps v = true := by
      intro i hi x hx v hvx
      cases hr : SubFrame.inRange bps v with
      | true => rfl
      | false => exact absurd ⟨x, hx, v, hvx, hr⟩ (hfirst i hi)
    have hbad : ∃ cc, cc < chans.length ∧ ∃ v ∈ (blockAt chans c.block_size j0).getD cc [], SubFrame.inRange bps v = false := by
      obtain ⟨cc, hcc, hget⟩ := List.getElem_of_mem hxb
      refine ⟨cc, by simpa [blockAt] using hcc, vb, ?_, hvr⟩
      rw [List.getD_eq_getElem?_getD, List.getElem?_eq_getElem hcc, Option.getD_some, hget]
      exact hvb
    cases hn : FlacVerif.StreamInfo.new rate chans.length bps with
    | none =>
      have hargs : encodeStreamArgsOk c.block_size
          (memOps.channels (Gen.Source.MemSource.from_samples (Rfc.interleave chans) chans.length bps rate))
          (memOps.bits_per_sample (Gen.Source.MemSource.from_samples (Rfc.interleave chans) chans.length bps rate))
          (memOps.sample_rate (Gen.Source.MemSource.from_samples (Rfc.interleave chans) chans.length bps rate)) = false := by
        show encodeStreamArgsOk c.block_size chans.length bps rate = false
        simp [encodeStreamArgsOk, hn]
      rw [C03G_driver_args memOps featPar par md5f s1 s2 s3 fuel c _ c.block_size log hmt hargs]
      simp
    | some i0 =>
      have hfb : FlacVerif.FrameBuf.withSize chans.length c.block_size =
          some ⟨List.replicate (c.block_size * chans.length) 0, c.block_size, chans.length, 0⟩ := by
        unfold FlacVerif.FrameBuf.withSize
        rw [if_pos ⟨hch.1, hch.2, h32, h32767⟩]
      -- the model's frame loop on the good prefix
      have hsplit : blocksOf c.block_size chans = (List.range' 0 j0).map (blockAt chans c.block_size) ++
          (List.range' j0 ((total + c.block_size - 1) / c.block_size - j0)).map (blockAt chans c.block_size) := by
        rw [Strict.blocksOf_eq c.block_size chans total hch.1 hlen, List.range_eq_range', ← List.map_append]
        congr 1
        have := List.range'_append (s := 0) (m := j0) (n := (total + c.block_size - 1) / c.block_size - j0) (step := 1)
        simp only [Nat.one_mul, Nat.zero_add] at this
        rw [this]; congr 1; omega
      rw [hsplit] at hshape
      obtain ⟨fs, henc, _⟩ := encodeFrames_total (subCfgOf c.subframe_coding) (stereoCfgOf c.stereo_coding) bps rate chans.length
        c.block_size hch (by omega) hb hmax ((List.range' 0 j0).map (blockAt chans c.block_size)) 0 log (by
          intro b hbm
          simp only [List.mem_map, List.mem_range'_1] at hbm
          obtain ⟨i, ⟨_, hi⟩, rfl⟩ := hbm
          exact blockOk_at chans chans.length bps c.block_size total i (by omega) rfl hch.1 hlen (by omega) (hgood i (by omega)))
        (by simp; omega) hlogok (framesLogOk_prefix _ _ _ _ hshape)
      rw [C03G_driver_mem_err featPar par md5f s1 s2 s3 c chans chans.length bps rate c.block_size total j0 log _ i0 _ fs hmt hn hfb
        hst hb (by simpa [subCfgOf] using hmax) (by simp [subCfgOf] at hfo; omega) rfl hlen (by omega) hj0 (by omega) hgood hbad henc
        hlog hlogok fuel (by omega)]
      simp
  · -- every sample is inside the width
    have hx : ∀ x ∈ chans, ∀ v ∈ x, SubFrame.inRange bps v = true := by
      intro x hx v hvx
      cases hr : SubFrame.inRange bps v with
      | true => rfl
      | false =>
        obtain ⟨j, hj, hm⟩ := mem_chunk x c.block_size (by omega) v hvx
        rw [hlen x hx] at hj
        exact absurd ⟨j, hj, (x.drop (j * c.block_size)).take c.block_size, List.mem_map.2 ⟨x, hx, rfl⟩, v, hm, hr⟩ hex
    exact C03G_driver_mem_total exp c hv featPar par md5f s1 s2 s3 chans bps rate total log hmt hst hch hlen htot hb hx hlogok hshape
      hlog hnb hmd fuel hf

end C03GenErr
end FlacVerif
