/-
C09 / C13, generated, part 2: hand-written READINGS that part `coding` (tools/translate_coding.py, CD_METHODS) relies on,
against code generated from their source by part `rice` (tools/translate_rice.py: emit_callees -> Gen/CodingCallees.lean).

  C09G2_into_stereo_channels       `Frame::into_stereo_channels` (datatype.rs) = the reading `intoStereo` of Gen/Coding.lean,
                                   for every frame, both profiles: it never panics, and `Ok((header, ch0, ch1))` iff the
                                   frame has exactly two sub-frames (`Err(self)` = `none`)
  C09G2_into_stereo_never_panics   the two `expect`s behind the sub-frame count check cannot fail

  C09G2_fill_stereo_with_iter      `FrameBuf::fill_stereo_with_iter` (source.rs; `split_at_mut` views, zipped `iter_mut`s, `take`) =
                                   `fillStereo fb it` behind its `assert_eq!(2, self.channels())`, for every buffer (fewer than 2^64
                                   samples) and every iterator, both profiles; otherwise it panics
  C09G2_fill_stereo_channels       afterwards channel 0 / 1 hold the first / second components, filled_size = their number
  C09G2_fill_stereo_mid_side       filled as in `try_stereo_coding`, the buffer holds the (mid, side) signals of the model's stereo code
  C09G2_verify_samples_meaning / _accepts   the external `FrameBuf::verify_samples` (CD_EXTERNAL) given the meaning of part `source`'s
                                   generated function (`C14G_verify_samples`): discharges `hvs` of `C09G_encode_fixed_size_frame`

The reading of `encode_residual_with_prc_parameter` (CD_CALLEES) is proved in Theorems/C13Gen.lean
(`C13G_encode_residual_with_prc_parameter`, `C13G_encode_residual_chain`).  No CD_CALLEES / CD_METHODS entry is a reading with
only a fingerprint any more.
-/
import FlacVerif.Gen.CodingCallees
import FlacVerif.Gen.Coding
import FlacVerif.Theorems.C13Gen
import FlacVerif.Theorems.C09Gen
import FlacVerif.Theorems.C14Gen

namespace FlacVerif.C09Gen2
open FlacVerif.Gen.CodingCallees FlacVerif.C13Gen
open FlacVerif.Gen.Decode (req setAt loopM enumerate enumFrom addU divU)
open FlacVerif.Gen.Rice (splitAtMut)
open FlacVerif.Gen.Coding (fillStereo)

theorem C09G2_into_stereo_channels (dbg : Bool) (f : FlacVerif.Gen.Writer.Frame) :
    Frame.into_stereo_channels dbg f = some (FlacVerif.Gen.Coding.intoStereo f) := by
  unfold Frame.into_stereo_channels Frame.subframe_count Frame.into_parts FlacVerif.Gen.Coding.intoStereo
  rcases hs : f.subframes with _ | ⟨a, _ | ⟨b, _ | ⟨c, rest⟩⟩⟩ <;> simp

theorem C09G2_into_stereo_never_panics (dbg : Bool) (f : FlacVerif.Gen.Writer.Frame) :
    Frame.into_stereo_channels dbg f ≠ none := by
  rw [C09G2_into_stereo_channels]; simp

/-- non-trivial instance: a frame with two sub-frames is split, one with three is returned as `Err` -/
example (dbg : Bool) (h : FlacVerif.Gen.Writer.FrameHeader) (a b c : FlacVerif.SubFrame) :
    Frame.into_stereo_channels dbg ⟨h, [a, b], none⟩ = some (some (h, a, b)) ∧
    Frame.into_stereo_channels dbg ⟨h, [a, b, c], none⟩ = some none := by
  constructor <;> rw [C09G2_into_stereo_channels] <;> rfl

theorem stereo_loop (dbg : Bool) (its : List (Int × Int)) :
    ∀ (mpre mrest spre srest : List Int) (fb : FlacVerif.Gen.Coding.FrameBuf), mpre.length = spre.length →
      fb.filled_size + its.length < 2 ^ 64 →
    (loopM (List.zip its (List.zip (enumFrom mpre.length mrest) (enumFrom spre.length srest))) (mpre ++ mrest, spre ++ srest, fb)
      fun ((m, s), ((v2', dest_m), (v3', dest_s))) (m_slice, s_slice, self) =>
      (setAt m_slice v2' m).bind fun m_slice =>
      let dest_m := m
      (setAt s_slice v3' s).bind fun s_slice =>
      let dest_s := s
      (addU dbg 64 self.filled_size 1).bind fun v4' =>
      let self : FlacVerif.Gen.Coding.FrameBuf := { self with filled_size := v4' }
      some (m_slice, s_slice, self))
    = some (mpre ++ (its.take (min its.length (min mrest.length srest.length))).map (·.1) ++ mrest.drop (min its.length (min mrest.length srest.length)),
            spre ++ (its.take (min its.length (min mrest.length srest.length))).map (·.2) ++ srest.drop (min its.length (min mrest.length srest.length)),
            { fb with filled_size := fb.filled_size + min its.length (min mrest.length srest.length) }) := by
  induction its with
  | nil => intro mpre mrest spre srest fb _ _; simp [loopM_nil]
  | cons x xs ih =>
    intro mpre mrest spre srest fb hlen h64
    cases mrest with
    | nil => simp [FlacVerif.Gen.Decode.enumFrom, loopM_nil]
    | cons m0 mrest =>
      cases srest with
      | nil => simp [FlacVerif.Gen.Decode.enumFrom, loopM_nil]
      | cons s0 srest =>
        rw [enumFrom_cons, enumFrom_cons, List.zip_cons_cons, List.zip_cons_cons, loopM_cons]
        have hadd : addU dbg 64 fb.filled_size 1 = some (fb.filled_size + 1) := by
          unfold addU
          have : fb.filled_size + 1 < 2 ^ 64 := by simp only [List.length_cons] at h64; omega
          simp [this]
        simp only [setAt_append, Option.bind_some, hadd]
        have := ih (mpre ++ [x.1]) mrest (spre ++ [x.2]) srest { fb with filled_size := fb.filled_size + 1 }
          (by simp [hlen]) (by simp only [List.length_cons] at h64; simp only; omega)
        simp only [List.length_append, List.length_cons, List.length_nil, List.append_assoc, List.cons_append, List.nil_append,
          Nat.zero_add] at this
        rw [this]
        have hk : min (x :: xs).length (min (m0 :: mrest).length (s0 :: srest).length)
            = min xs.length (min mrest.length srest.length) + 1 := by
          simp only [List.length_cons]; omega
        rw [hk]
        simp only [List.take_succ_cons, List.map_cons, List.drop_succ_cons, List.append_assoc, List.cons_append, Nat.add_assoc,
          Nat.add_comm 1]

/-- The CD_METHODS reading of part `coding`: `fb.fill_stereo_with_iter(it)` is `fillStereo fb it`, behind its
`assert_eq!(2, self.channels())` (and the division by `size` in `channels()`), for every buffer and every iterator, both profiles. -/
theorem C09G2_fill_stereo_with_iter (dbg : Bool) (fb : FlacVerif.Gen.Coding.FrameBuf) (it : List (Int × Int)) (h64 : fb.samples.length < 2 ^ 64) :
    FlacVerif.Gen.CodingCallees.FrameBuf.fill_stereo_with_iter dbg fb it =
      if fb.size ≠ 0 ∧ fb.samples.length / fb.size = 2 then some (fillStereo fb it) else none := by
  unfold FlacVerif.Gen.CodingCallees.FrameBuf.fill_stereo_with_iter FlacVerif.Gen.CodingCallees.FrameBuf.channels
  by_cases h0 : fb.size = 0
  · simp [divU, h0]
  · by_cases h2 : fb.samples.length / fb.size = 2
    · have hpre : fb.size ≠ 0 ∧ fb.samples.length / fb.size = 2 := ⟨h0, h2⟩
      have hsz : 2 * fb.size ≤ fb.samples.length := by
        have := (Nat.le_div_iff_mul_le (Nat.pos_of_ne_zero h0)).mp (Nat.le_of_eq h2.symm)
        omega
      have hsp : splitAtMut fb.samples fb.size = some (fb.samples.take fb.size, fb.samples.drop fb.size) := by
        unfold splitAtMut
        have : fb.size ≤ fb.samples.length := by omega
        simp [this]
      simp only [divU, h0, ↓reduceIte, Option.bind_some, h2, req, decide_true, hsp, hpre, and_self, enumerate]
      have hl := stereo_loop dbg (List.take fb.size it) [] (fb.samples.take fb.size) [] (fb.samples.drop fb.size)
        { fb with filled_size := 0 } rfl (by simp only [List.length_take]; omega)
      simp only [List.length_nil, List.nil_append] at hl
      rw [hl]
      simp only [Option.bind_some, List.length_take, List.length_drop, Nat.zero_add]
      have hk : min (min fb.size it.length) (min (min fb.size fb.samples.length) (fb.samples.length - fb.size))
          = min it.length (min fb.size (fb.samples.length - fb.size)) := by omega
      rw [hk]
      generalize hkk : min it.length (min fb.size (fb.samples.length - fb.size)) = k
      have hks : k ≤ fb.size := by omega
      have htt : List.take k (List.take fb.size it) = List.take k it := by
        rw [List.take_take, Nat.min_eq_left hks]
      unfold fillStereo
      simp only [hkk, htt, List.drop_drop, List.append_assoc]
      have : fb.size ≠ 0 ∧ True := ⟨h0, trivial⟩
      first | rw [if_pos this] | simp [h0]
    · have hpre : ¬ (fb.size ≠ 0 ∧ fb.samples.length / fb.size = 2) := fun h => h2 h.2
      have : ¬ (2 = fb.samples.length / fb.size) := fun h => h2 h.symm
      simp [divU, h0, req, this, h2]

/-- what the generated function leaves in a two-channel buffer: channel 0 holds the first components, channel 1 the second
components of the pairs, `filled_size` their number (at most `size` pairs) -/
theorem C09G2_fill_stereo_channels (dbg : Bool) (fb : FlacVerif.Gen.Coding.FrameBuf) (it : List (Int × Int)) (hs : fb.size ≠ 0)
    (hlen : fb.samples.length = 2 * fb.size) (hit : it.length ≤ fb.size) (h64 : fb.samples.length < 2 ^ 64) :
    ∃ fb', FlacVerif.Gen.CodingCallees.FrameBuf.fill_stereo_with_iter dbg fb it = some fb' ∧
      fb'.filled_size = it.length ∧ fb'.size = fb.size ∧ fb'.samples.length = 2 * fb.size ∧
      FlacVerif.C09Gen.chanOf fb' 0 = it.map (·.1) ∧ FlacVerif.C09Gen.chanOf fb' 1 = it.map (·.2) := by
  have hdiv : fb.samples.length / fb.size = 2 := by
    rw [hlen]; exact Nat.mul_div_cancel 2 (Nat.pos_of_ne_zero hs)
  refine ⟨fillStereo fb it, ?_, FlacVerif.C09Gen.fillStereo_spec fb it hlen hit⟩
  rw [C09G2_fill_stereo_with_iter dbg fb it h64, if_pos ⟨hs, hdiv⟩]

/-- the use in `try_stereo_coding`: filled with `(l, r) -> ((l + r) >> 1, l - r)` over the two input channels, the buffer holds
exactly the (mid, side) signals the hand model's stereo code encodes (`Model/Encode.lean`: `ms := List.zipWith midSide l r`,
channels `[ms.map (·.1), ms.map (·.2)]`).  The left/side and side/right frames are recombined from the sub-frames already
coded (no buffer is filled for them). -/
theorem C09G2_fill_stereo_mid_side (dbg : Bool) (fb : FlacVerif.Gen.Coding.FrameBuf) (l r : List Int) (hs : fb.size ≠ 0)
    (hlen : fb.samples.length = 2 * fb.size) (hl : l.length ≤ fb.size) (h64 : fb.samples.length < 2 ^ 64) :
    ∃ fb', FlacVerif.Gen.CodingCallees.FrameBuf.fill_stereo_with_iter dbg fb (List.zipWith midSide l r) = some fb' ∧
      [FlacVerif.C09Gen.chanOf fb' 0, FlacVerif.C09Gen.chanOf fb' 1]
        = [(List.zipWith midSide l r).map (·.1), (List.zipWith midSide l r).map (·.2)] ∧
      fb'.filled_size = min l.length r.length := by
  have hit : (List.zipWith midSide l r).length ≤ fb.size := by
    rw [List.length_zipWith]; omega
  obtain ⟨fb', h1, h2, _, _, h5, h6⟩ := C09G2_fill_stereo_channels dbg fb _ hs hlen hit h64
  exact ⟨fb', h1, by rw [h5, h6], by rw [h2, List.length_zipWith]⟩

/-- non-trivial instance (stale buffer content, three pairs into a buffer of size 4) -/
example : FlacVerif.Gen.CodingCallees.FrameBuf.fill_stereo_with_iter true ⟨[9, 9, 9, 9, 8, 8, 8, 8], 4, 3, []⟩ [(1, -1), (2, -2), (3, -3)]
    = some ⟨[1, 2, 3, 9, -1, -2, -3, 8], 4, 3, []⟩ := by decide

/-! ### `FrameBuf::verify_samples` (CD_EXTERNAL of part `coding`: a parameter `vs` without a meaning) given the meaning of the
function GENERATED by part `source` from the same method (`Gen.Source.FrameBuf.verify_samples`, tied to the model by
`C14G_verify_samples`).  The two parts generate the same four-field structure from `struct FrameBuf`. -/

/-- the `FrameBuf` of part `coding` as the `FrameBuf` of part `source` (same fields, generated twice) -/
def toSrc (fb : FlacVerif.Gen.Coding.FrameBuf) : FlacVerif.Gen.Source.FrameBuf := ⟨fb.samples, fb.size, fb.filled_size, fb.readbuf⟩

/-- the instance of the parameter `FrameBuf_verify_samples` of `Gen.Coding.encode_fixed_size_frame` that the source defines
(`VR`: `some true` = `Ok(())`, `some false` = `Err(_)`, `none` = panic) -/
def verifySamplesGen (fb : FlacVerif.Gen.Coding.FrameBuf) (bps : Nat) : FlacVerif.Gen.Verify.VR :=
  (FlacVerif.Gen.Source.FrameBuf.verify_samples (toSrc fb) bps).map (fun r => r.isSome)

theorem C09G2_verify_samples_meaning (fb : FlacVerif.Gen.Coding.FrameBuf) (ch bps : Nat) (h : FlacVerif.C14Gen.Shape (toSrc fb) ch)
    (hf : fb.filled_size ≤ fb.size) (hb : 1 ≤ bps ∧ bps ≤ 31) :
    verifySamplesGen fb bps = some ((FlacVerif.C14Gen.toModel (toSrc fb) ch).verifySamples bps) := by
  unfold verifySamplesGen
  rw [FlacVerif.C14Gen.C14G_verify_samples (toSrc fb) ch h hf bps hb]
  cases (FlacVerif.C14Gen.toModel (toSrc fb) ch).verifySamples bps <;> rfl

/-- the hypothesis `hvs : vs fb info.bps = some true` of `C09G_encode_fixed_size_frame`, discharged for `vs := verifySamplesGen`
by the model's sample-range check -/
theorem C09G2_verify_samples_accepts (fb : FlacVerif.Gen.Coding.FrameBuf) (ch bps : Nat) (h : FlacVerif.C14Gen.Shape (toSrc fb) ch)
    (hf : fb.filled_size ≤ fb.size) (hb : 1 ≤ bps ∧ bps ≤ 31)
    (hv : (FlacVerif.C14Gen.toModel (toSrc fb) ch).verifySamples bps = true) :
    verifySamplesGen fb bps = some true := by
  rw [C09G2_verify_samples_meaning fb ch bps h hf hb, hv]

end FlacVerif.C09Gen2
