/-
C16 (CRC part) — error-detection properties of the frame-header CRC-8 and the frame CRC-16
(`Model/Codes.lean`: `crcBits`, `rfcCrc8`, `rfcCrc16`).

* the register stays below `2 ^ width`;
* the CRC is GF(2)-linear (init 0);
* a zero-bit step reflects zero (odd generator polynomial);
* every non-zero error burst of at most `width` bits changes the CRC;
* a message followed by its own CRC has CRC 0;
* in the shape the parser uses (stored check value compared with the CRC of the preceding bits):
  any non-zero burst of at most `width` bits anywhere in `body ++ check` — including across the
  boundary into the check field — is rejected.
-/
import FlacVerif.Lemmas.Crc
namespace FlacVerif
open Crc

/-! ### generic over the CRC parameters -/

theorem crc_register_lt (p : CrcParams) (hpoly : p.poly < 2 ^ p.width) (hinit : p.init < 2 ^ p.width)
    (bs : Bits) : crcBits p bs < 2 ^ p.width :=
  crcBits_lt p hpoly hinit bs

theorem crc_linear (p : CrcParams) (hinit : p.init = 0) (a b : Bits) (h : a.length = b.length) :
    crcBits p (xorBits a b) = crcBits p a ^^^ crcBits p b :=
  crcBits_linear p hinit a b h

theorem crc_zero_step_injective (p : CrcParams) (hw : 0 < p.width) (hodd : p.poly % 2 = 1) (r : Nat) :
    crcStepBit p r false = 0 → r < 2 ^ p.width → r = 0 :=
  step_false_eq_zero p hw hodd r

theorem crc_burst (p : CrcParams) (hw : 0 < p.width) (hpoly : p.poly < 2 ^ p.width)
    (hodd : p.poly % 2 = 1) (hinit : p.init = 0)
    (m : Bits) (i : Nat) (b : Bits) (hb : b.length ≤ p.width) (hnz : b.any id = true) (t : Nat)
    (hlen : m.length = i + b.length + t) :
    crcBits p (xorBits m (List.replicate i false ++ b ++ List.replicate t false)) ≠ crcBits p m :=
  crcBits_burst p ⟨hw, hpoly, hodd, hinit⟩ m i b hb hnz t hlen

theorem crc_accepts_own (p : CrcParams) (hw : 0 < p.width) (hpoly : p.poly < 2 ^ p.width)
    (hodd : p.poly % 2 = 1) (hinit : p.init = 0) (m : Bits) :
    crcBits p (m ++ natToBits p.width (crcBits p m)) = 0 :=
  crcBits_accepts_own p ⟨hw, hpoly, hodd, hinit⟩ m

/-! ### CRC-8 (frame header) and CRC-16 (frame) -/

theorem C16_crc8_register_lt (bs : Bits) : crcBits rfcCrc8 bs < 2 ^ 8 :=
  crcBits_lt rfcCrc8 (by decide) (by decide) bs

theorem C16_crc16_register_lt (bs : Bits) : crcBits rfcCrc16 bs < 2 ^ 16 :=
  crcBits_lt rfcCrc16 (by decide) (by decide) bs

theorem C16_crc8_linear (a b : Bits) (h : a.length = b.length) :
    crcBits rfcCrc8 (xorBits a b) = crcBits rfcCrc8 a ^^^ crcBits rfcCrc8 b :=
  crcBits_linear rfcCrc8 rfl a b h

theorem C16_crc16_linear (a b : Bits) (h : a.length = b.length) :
    crcBits rfcCrc16 (xorBits a b) = crcBits rfcCrc16 a ^^^ crcBits rfcCrc16 b :=
  crcBits_linear rfcCrc16 rfl a b h

theorem C16_crc8_zero_step_injective (r : Nat) :
    crcStepBit rfcCrc8 r false = 0 → r < 2 ^ 8 → r = 0 :=
  step_false_eq_zero rfcCrc8 (by decide) (by decide) r

theorem C16_crc16_zero_step_injective (r : Nat) :
    crcStepBit rfcCrc16 r false = 0 → r < 2 ^ 16 → r = 0 :=
  step_false_eq_zero rfcCrc16 (by decide) (by decide) r

theorem C16_crc8_burst (m : Bits) (i : Nat) (b : Bits) (hb : b.length ≤ 8) (hnz : b.any id = true)
    (t : Nat) (hlen : m.length = i + b.length + t) :
    crcBits rfcCrc8 (xorBits m (List.replicate i false ++ b ++ List.replicate t false))
      ≠ crcBits rfcCrc8 m :=
  crcBits_burst rfcCrc8 good_crc8 m i b hb hnz t hlen

theorem C16_crc16_burst (m : Bits) (i : Nat) (b : Bits) (hb : b.length ≤ 16) (hnz : b.any id = true)
    (t : Nat) (hlen : m.length = i + b.length + t) :
    crcBits rfcCrc16 (xorBits m (List.replicate i false ++ b ++ List.replicate t false))
      ≠ crcBits rfcCrc16 m :=
  crcBits_burst rfcCrc16 good_crc16 m i b hb hnz t hlen

theorem C16_crc8_accepts_own (m : Bits) :
    crcBits rfcCrc8 (m ++ natToBits 8 (crcBits rfcCrc8 m)) = 0 :=
  crcBits_accepts_own rfcCrc8 good_crc8 m

theorem C16_crc16_accepts_own (m : Bits) :
    crcBits rfcCrc16 (m ++ natToBits 16 (crcBits rfcCrc16 m)) = 0 :=
  crcBits_accepts_own rfcCrc16 good_crc16 m

/-- Frame CRC-16, parser shape: a non-zero error burst of at most 16 bits anywhere in the frame
(also across the boundary into the CRC field, or inside it) makes the check fail. -/
theorem C16_frame_burst_rejected (body : Bits) (e : Bits) (he : e.length = body.length + 16)
    (hburst : ∃ i b t, e = List.replicate i false ++ b ++ List.replicate t false ∧
      b.length ≤ 16 ∧ b.any id = true) :
    let frame := body ++ natToBits 16 (crcBits rfcCrc16 body)
    let frame' := xorBits frame e
    crcBits rfcCrc16 (frame'.take body.length) ≠ bitsToNat (frame'.drop body.length) :=
  frame_burst_rejected rfcCrc16 good_crc16 body e he hburst

/-- Frame-header CRC-8, parser shape: a non-zero error burst of at most 8 bits anywhere in the
header (including the CRC byte) makes the check fail. -/
theorem C16_header_burst_rejected (hdr : Bits) (e : Bits) (he : e.length = hdr.length + 8)
    (hburst : ∃ i b t, e = List.replicate i false ++ b ++ List.replicate t false ∧
      b.length ≤ 8 ∧ b.any id = true) :
    let header := hdr ++ natToBits 8 (crcBits rfcCrc8 hdr)
    let header' := xorBits header e
    crcBits rfcCrc8 (header'.take hdr.length) ≠ bitsToNat (header'.drop hdr.length) :=
  frame_burst_rejected rfcCrc8 good_crc8 hdr e he hburst

/-- The uncorrupted frame passes the parser-side check (sanity: the rejection theorems are not
vacuous because the check always fails). -/
theorem C16_frame_clean_accepted (body : Bits) :
    let frame := body ++ natToBits 16 (crcBits rfcCrc16 body)
    crcBits rfcCrc16 (frame.take body.length) = bitsToNat (frame.drop body.length) := by
  intro frame
  have h := C16_crc16_register_lt body
  simp only [frame, List.take_left', List.drop_left', bitsToNat_natToBits]
  exact (Nat.mod_eq_of_lt h).symm

theorem C16_header_clean_accepted (hdr : Bits) :
    let header := hdr ++ natToBits 8 (crcBits rfcCrc8 hdr)
    crcBits rfcCrc8 (header.take hdr.length) = bitsToNat (header.drop hdr.length) := by
  intro header
  have h := C16_crc8_register_lt hdr
  simp only [header, List.take_left', List.drop_left', bitsToNat_natToBits]
  exact (Nat.mod_eq_of_lt h).symm

end FlacVerif
