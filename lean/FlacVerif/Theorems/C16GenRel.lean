/-
C16GenRel — release profile of the generated parser (`Gen/Parser.lean`, `dbg = false`).

The hand mirror describes the dev profile only, so nothing can be transported from it directly.  Instead: the relation
`R x y` ("the dev result `x` is `none`, or it equals the release result `y`") is proved ONCE for the prelude operations whose
behaviour depends on the profile (`addU`, `subU`, `mulU`, `shAmt`, `arithS`, `req (!dbg || c)`), lifted through `bind`, `bindP`,
`bindO`, `if`, the loops and the nom combinators, and applied function by function to the generated code (`*_R`).
Since the dev result is never `none` (`C16G_total` etc.), the release result EQUALS the dev result.

Theorems:
  C16G_release_eq_subframe, C16G_release_eq_frame_header, C16G_release_eq_frame   release = dev where the dev result is not `none`
  C16G_release_eq                       for every byte string, `stream false bs = stream true bs`
  C16G_total_release                    the release build of the generated `stream` never returns `none`
  C15G_stream_roundtrip_release         the round trip of C15 for the release profile
-/
import FlacVerif.Theorems.C16Gen

namespace FlacVerif.C16GenRel
open FlacVerif FlacVerif.Gen.Parser
open FlacVerif.Gen.Decode (addU subU mulU arithS shAmt shlU shrU wrapS castU divU req rangeL)

/-- the dev result is `none` (panic), or it is the release result -/
def R {α : Type} (x y : Option α) : Prop := x = none ∨ x = y

theorem R_refl {α : Type} (x : Option α) : R x x := Or.inr rfl
theorem R_none {α : Type} (y : Option α) : R (none : Option α) y := Or.inl rfl
theorem R_unit (x : Option Unit) : R x (some ()) := by
  cases x with
  | none => exact Or.inl rfl
  | some u => exact Or.inr rfl

theorem R_eq_of_ne {α : Type} {x y : Option α} (h : R x y) (hx : x ≠ Option.none) : y = x := by
  rcases h with h | h
  · exact absurd h hx
  · exact h.symm

theorem R_bind {α β : Type} {x y : Option α} {f g : α → Option β} (h : R x y) (hf : ∀ v, R (f v) (g v)) :
    R (x.bind f) (y.bind g) := by
  rcases h with h | h
  · rw [h]; exact Or.inl rfl
  · rw [h]
    cases y with
    | none => exact Or.inl rfl
    | some v => exact hf v

theorem R_bindP {α β : Type} {x y : PM α} {f g : α → PM β} (h : R x y) (hf : ∀ v, R (f v) (g v)) :
    R (bindP x f) (bindP y g) := by
  rcases h with h | h
  · rw [h]; exact Or.inl rfl
  · rw [h]
    cases y with
    | none => exact Or.inl rfl
    | some e =>
      cases e with
      | error c => exact Or.inr rfl
      | ok v => exact hf v

theorem R_bindO {α β : Type} (o : Option α) {f g : α → PM β} (hf : ∀ v, R (f v) (g v)) : R (bindO o f) (bindO o g) := by
  cases o with
  | none => exact Or.inr rfl
  | some v => exact hf v

theorem R_bindR {α β : Type} (o : Option α) {f g : α → Option (Option β)} (hf : ∀ v, R (f v) (g v)) :
    R (bindR o f) (bindR o g) := by
  cases o with
  | none => exact Or.inr rfl
  | some v => exact hf v

theorem R_bindVR {σ β : Type} {x y : Option (Option σ)} {f g : σ → Option (Option β)} (h : R x y)
    (hf : ∀ v, R (f v) (g v)) : R (bindVR x f) (bindVR y g) :=
  R_bind h (fun o => R_bindR o hf)

theorem R_ite {α : Type} (c : Prop) [Decidable c] {a b a' b' : Option α} (h1 : R a b) (h2 : R a' b') :
    R (if c then a else a') (if c then b else b') := by
  by_cases h : c <;> simp [h, h1, h2]

theorem R_addU (w a b : Nat) : R (addU true w a b) (addU false w a b) := by
  unfold addU; by_cases h : a + b < 2 ^ w <;> simp [h, R]
theorem R_subU (w a b : Nat) : R (subU true w a b) (subU false w a b) := by
  unfold subU; by_cases h : b ≤ a <;> simp [h, R]
theorem R_mulU (w a b : Nat) : R (mulU true w a b) (mulU false w a b) := by
  unfold mulU; by_cases h : a * b < 2 ^ w <;> simp [h, R]
theorem R_shAmt (w k : Nat) : R (shAmt true w k) (shAmt false w k) := by
  unfold shAmt; by_cases h : k < w <;> simp [h, R]
theorem R_arithS (w : Nat) (v : Int) : R (arithS true w v) (arithS false w v) := by
  unfold arithS
  by_cases h : -(2 ^ (w - 1) : Int) ≤ v ∧ v < (2 ^ (w - 1) : Int) <;> simp [h, R]
theorem R_req (c : Bool) : R (req (!true || c)) (req (!false || c)) := by
  cases c <;> simp [req, R]

theorem R_loopP {α σ : Type} {f g : α → σ → PM σ} (h : ∀ x s, R (f x s) (g x s)) (l : List α) :
    ∀ s, R (loopP l s f) (loopP l s g) := by
  induction l with
  | nil => intro s; exact R_refl _
  | cons a l ih => intro s; exact R_bindP (h a s) (fun s' => ih s')

theorem R_loopO {α σ : Type} {f g : α → σ → Option σ} (h : ∀ x s, R (f x s) (g x s)) (l : List α) :
    ∀ s, R (loopO l s f) (loopO l s g) := by
  induction l with
  | nil => intro s; exact R_refl _
  | cons a l ih => intro s; exact R_bind (h a s) (fun s' => ih s')

theorem R_mapP {ι α β : Type} {p q : ι → PM (ι × α)} {f g : α → Option β} (hp : ∀ i, R (p i) (q i))
    (hf : ∀ a, R (f a) (g a)) (i : ι) : R (mapP p f i) (mapP q g i) :=
  R_bindP (hp i) (fun r => R_bind (hf r.2) (fun _ => R_refl _))

theorem R_verifyP {ι α : Type} {p q : ι → PM (ι × α)} (c : α → Option Bool) (hp : ∀ i, R (p i) (q i)) (i : ι) :
    R (verifyP p c i) (verifyP q c i) :=
  R_bindP (hp i) (fun _ => R_refl _)

theorem R_altP {ι α : Type} {p q p' q' : ι → PM (ι × α)} (h1 : ∀ i, R (p i) (q i)) (h2 : ∀ i, R (p' i) (q' i)) (i : ι) :
    R (altP p p' i) (altP q q' i) := by
  unfold altP
  rcases h1 i with h | h
  · rw [h]; exact Or.inl rfl
  · rw [h]
    cases hq : q i with
    | none => exact Or.inr rfl
    | some e =>
      cases e with
      | ok v => exact Or.inr rfl
      | error c => cases c <;> first | exact Or.inr rfl | exact h2 i

theorem R_bitsP {α : Type} {p q : List Bool → PM (List Bool × α)} (h : ∀ i, R (p i) (q i)) (bs : List Nat) :
    R (bitsP p bs) (bitsP q bs) :=
  R_bindP (h _) (fun _ => R_refl _)

theorem R_boolThenO {α : Type} (c : Bool) {f g : Unit → Option α} (h : ∀ u, R (f u) (g u)) :
    R (boolThenO c f) (boolThenO c g) := by
  unfold boolThenO
  cases c with
  | false => exact R_refl _
  | true =>
    simp only [if_true]
    rcases h () with h | h
    · rw [h]; exact Or.inl rfl
    · rw [h]; exact Or.inr rfl

theorem R_whileP {σ : Type} (c : σ → Bool) {f g : σ → PM σ} (h : ∀ s, R (f s) (g s)) :
    ∀ (n : Nat) (s : σ), R (whileP c f n s) (whileP c g n s) := by
  intro n
  induction n with
  | zero => intro s; exact R_refl _
  | succ n ih =>
    intro s
    simp only [whileP]
    exact R_ite _ (R_bindP (h s) (fun s' => ih s')) (R_refl _)

theorem R_manyTillEofAux {α : Type} {f g : List Nat → PM (List Nat × α)} (h : ∀ i, R (f i) (g i)) :
    ∀ (n : Nat) (i : List Nat) (acc : List α), R (manyTillEofAux f n i acc) (manyTillEofAux g n i acc) := by
  intro n
  induction n with
  | zero => intro i acc; exact R_refl _
  | succ n ih =>
    intro i acc
    simp only [manyTillEofAux]
    refine R_ite _ (R_refl _) ?_
    rcases h i with h1 | h1
    · rw [h1]; exact Or.inl rfl
    · rw [h1]
      cases hg : g i with
      | none => exact Or.inr rfl
      | some e =>
        cases e with
        | error c => exact Or.inr rfl
        | ok v => obtain ⟨i1, o⟩ := v; exact R_ite _ (R_refl _) (ih _ _)

theorem R_manyTillEof {α : Type} {f g : List Nat → PM (List Nat × α)} (h : ∀ i, R (f i) (g i)) (i : List Nat) :
    R (manyTillEof f i) (manyTillEof g i) := R_manyTillEofAux h _ _ _

/-- relation for the stateful closure of `many_m_n` -/
def R2 {σ β : Type} (x y : Option (σ × PM β)) : Prop :=
  x = Option.none ∨ ∃ s a b, x = some (s, a) ∧ y = some (s, b) ∧ R a b

theorem R_manyMNSAux {σ α : Type} {f g : σ → List Bool → Option (σ × PM (List Bool × α))} (h : ∀ s i, R2 (f s i) (g s i)) :
    ∀ (n : Nat) (s : σ) (i : List Bool) (acc : List α), R (manyMNSAux f n s i acc) (manyMNSAux g n s i acc) := by
  intro n
  induction n with
  | zero => intro s i acc; exact R_refl _
  | succ n ih =>
    intro s i acc
    simp only [manyMNSAux]
    rcases h s i with h1 | ⟨s', a, b, h1, h2, h3⟩
    · rw [h1]; exact Or.inl rfl
    · rw [h1, h2]
      rcases h3 with h3 | h3
      · rw [h3]; exact Or.inl rfl
      · rw [h3]
        cases b with
        | none => exact Or.inl rfl
        | some e =>
          cases e with
          | error c => exact Or.inr rfl
          | ok v => obtain ⟨tail, o⟩ := v; exact R_ite _ (R_refl _) (ih _ _ _)

theorem R_manyMNS {σ α : Type} {f g : σ → List Bool → Option (σ × PM (List Bool × α))} (h : ∀ s i, R2 (f s i) (g s i))
    (n : Nat) (s : σ) (i : List Bool) : R (manyMNS n s f i) (manyMNS n s g i) := R_manyMNSAux h _ _ _ _

theorem R2_bind {α σ β : Type} {x y : Option α} {f g : α → Option (σ × PM β)} (h : R x y) (hf : ∀ v, R2 (f v) (g v)) :
    R2 (x.bind f) (y.bind g) := by
  rcases h with h | h
  · rw [h]; exact Or.inl rfl
  · rw [h]
    cases y with
    | none => exact Or.inl rfl
    | some v => exact hf v

theorem R2_some {σ β : Type} (s : σ) {a b : PM β} (h : R a b) : R2 (some (s, a)) (some (s, b)) :=
  Or.inr ⟨s, a, b, rfl, rfl, h⟩

/-- lemmas about generated functions are registered here (one `macro_rules` per lemma) -/
syntax "rel_user" : tactic
macro_rules | `(tactic| rel_user) => `(tactic| fail "no function lemma applies")

/-- walk two copies of a generated term that differ only in `dbg` -/
macro "rel" : tactic => `(tactic| repeat' (first
  | with_reducible exact R_refl _
  | rel_user
  | with_reducible apply R_addU | with_reducible apply R_subU | with_reducible apply R_mulU | with_reducible apply R_shAmt
  | with_reducible apply R_arithS | with_reducible apply R_req
  | with_reducible apply R_loopP | with_reducible apply R_loopO | with_reducible apply R_mapP | with_reducible apply R_verifyP
  | with_reducible apply R_altP | with_reducible apply R_bitsP | with_reducible apply R_boolThenO | with_reducible apply R_whileP
  | with_reducible apply R_manyTillEof | with_reducible apply R_manyMNS | with_reducible apply R2_bind | with_reducible apply R2_some
  | with_reducible apply R_bind | with_reducible apply R_bindP | with_reducible apply R_bindO | with_reducible apply R_bindR
  | with_reducible apply R_bindVR | with_reducible apply R_ite
  | intro _
  | split))

theorem u_to_i_R (x b : Nat) : R (u_to_i true x b) (u_to_i false x b) := by
  unfold u_to_i; rel
macro_rules | `(tactic| rel_user) => `(tactic| with_reducible apply u_to_i_R)

theorem unary_code_R (i : List Bool) : R (unary_code true i) (unary_code false i) := by
  unfold unary_code; rel
macro_rules | `(tactic| rel_user) => `(tactic| with_reducible apply unary_code_R)

theorem raw_samples_pre_R (b n : Nat) : R (raw_samples_pre true b n) (raw_samples_pre false b n) := by
  unfold raw_samples_pre; rel
macro_rules | `(tactic| rel_user) => `(tactic| with_reducible apply raw_samples_pre_R)

theorem raw_samples_run_R (b n : Nat) (i : List Bool) : R (raw_samples_run true b n i) (raw_samples_run false b n i) := by
  unfold raw_samples_run; rel
macro_rules | `(tactic| rel_user) => `(tactic| with_reducible apply raw_samples_run_R)

theorem sumU_R (w : Nat) (xs : List Nat) : R (sumU true w xs) (sumU false w xs) := by
  unfold sumU
  by_cases h : List.foldl (· + ·) 0 xs < 2 ^ w <;> simp [h, R]
macro_rules | `(tactic| rel_user) => `(tactic| with_reducible apply sumU_R)

theorem Residual_from_parts_R (po bs wl : Nat) (rp q r : List Nat) :
    R (Residual_from_parts true po bs wl rp q r) (Residual_from_parts false po bs wl rp q r) := by
  unfold Residual_from_parts
  refine R_bind ?_ (fun _ => ?_)
  · simp only [if_true, Bool.false_eq_true, if_false]
    exact R_unit _
  · rel
macro_rules | `(tactic| rel_user) => `(tactic| with_reducible apply Residual_from_parts_R)

theorem residual_run_R (bs w : Nat) (i : List Bool) : R (residual_run true bs w i) (residual_run false bs w i) := by
  unfold residual_run; rel
macro_rules | `(tactic| rel_user) => `(tactic| with_reducible apply residual_run_R)

theorem subframe_header_R (i : List Bool) : R (subframe_header true i) (subframe_header false i) := by
  unfold subframe_header; rel
macro_rules | `(tactic| rel_user) => `(tactic| with_reducible apply subframe_header_R)

theorem constant_pre_R (bs b : Nat) : R (constant_pre true bs b) (constant_pre false bs b) := by
  unfold constant_pre; rel
macro_rules | `(tactic| rel_user) => `(tactic| with_reducible apply constant_pre_R)

theorem verbatim_pre_R (bs b : Nat) : R (verbatim_pre true bs b) (verbatim_pre false bs b) := by
  unfold verbatim_pre; rel
macro_rules | `(tactic| rel_user) => `(tactic| with_reducible apply verbatim_pre_R)

theorem fixed_lpc_pre_R (bs b : Nat) : R (fixed_lpc_pre true bs b) (fixed_lpc_pre false bs b) := by
  unfold fixed_lpc_pre; rel
macro_rules | `(tactic| rel_user) => `(tactic| with_reducible apply fixed_lpc_pre_R)

theorem lpc_pre_R (bs b : Nat) : R (lpc_pre true bs b) (lpc_pre false bs b) := by
  unfold lpc_pre; rel
macro_rules | `(tactic| rel_user) => `(tactic| with_reducible apply lpc_pre_R)

theorem constant_run_R (bs b : Nat) (i : List Bool) : R (constant_run true bs b i) (constant_run false bs b i) := by
  unfold constant_run; rel
macro_rules | `(tactic| rel_user) => `(tactic| with_reducible apply constant_run_R)

theorem verbatim_run_R (bs b : Nat) (i : List Bool) : R (verbatim_run true bs b i) (verbatim_run false bs b i) := by
  unfold verbatim_run; rel
macro_rules | `(tactic| rel_user) => `(tactic| with_reducible apply verbatim_run_R)

theorem fixed_lpc_run_R (bs b : Nat) (i : List Bool) : R (fixed_lpc_run true bs b i) (fixed_lpc_run false bs b i) := by
  unfold fixed_lpc_run; rel
macro_rules | `(tactic| rel_user) => `(tactic| with_reducible apply fixed_lpc_run_R)

theorem quantized_parameters_run_R (o : Nat) (i : List Bool) : R (quantized_parameters_run true o i) (quantized_parameters_run false o i) := by
  unfold quantized_parameters_run; rel
macro_rules | `(tactic| rel_user) => `(tactic| with_reducible apply quantized_parameters_run_R)

theorem Lpc_from_parts_R (w : List Int) (p : QParams) (res : Residual) (b : Nat) :
    R (Lpc_from_parts true w p res b) (Lpc_from_parts false w p res b) := R_refl _
macro_rules | `(tactic| rel_user) => `(tactic| with_reducible apply Lpc_from_parts_R)

theorem lpc_run_R (bs b : Nat) (i : List Bool) : R (lpc_run true bs b i) (lpc_run false bs b i) := by
  unfold lpc_run; rel
macro_rules | `(tactic| rel_user) => `(tactic| with_reducible apply lpc_run_R)

theorem subframe_pre0_R (bs b : Nat) : R (subframe_pre0 true bs b) (subframe_pre0 false bs b) := by
  unfold subframe_pre0; rel
macro_rules | `(tactic| rel_user) => `(tactic| with_reducible apply subframe_pre0_R)

theorem subframe_pre_R (bs b : Nat) : R (subframe_pre true bs b) (subframe_pre false bs b) := by
  unfold subframe_pre; rel
macro_rules | `(tactic| rel_user) => `(tactic| with_reducible apply subframe_pre_R)

theorem subframe_run_R (bs b : Nat) (i : List Bool) : R (subframe_run true bs b i) (subframe_run false bs b i) := by
  unfold subframe_run; rel
macro_rules | `(tactic| rel_user) => `(tactic| with_reducible apply subframe_run_R)

theorem subframe_R (bs b : Nat) (i : List Bool) : R (Gen.Parser.subframe true bs b i) (Gen.Parser.subframe false bs b i) := by
  unfold Gen.Parser.subframe; rel

theorem utf8_code_R (bs : List Nat) : R (utf8_code true bs) (utf8_code false bs) := by
  unfold utf8_code; rel
macro_rules | `(tactic| rel_user) => `(tactic| with_reducible apply utf8_code_R)

theorem block_size_code_run_R (t : Nat) (bs : List Nat) : R (block_size_code_run true t bs) (block_size_code_run false t bs) := by
  unfold block_size_code_run; rel
macro_rules | `(tactic| rel_user) => `(tactic| with_reducible apply block_size_code_run_R)

theorem sample_rate_code_run_R (t : Nat) (bs : List Nat) : R (sample_rate_code_run true t bs) (sample_rate_code_run false t bs) := by
  unfold sample_rate_code_run; rel
macro_rules | `(tactic| rel_user) => `(tactic| with_reducible apply sample_rate_code_run_R)

theorem frame_header_run_R (c : Bool) (bs : List Nat) : R (frame_header_run true c bs) (frame_header_run false c bs) := by
  unfold frame_header_run; rel
macro_rules | `(tactic| rel_user) => `(tactic| with_reducible apply frame_header_run_R)

theorem block_size_R (h : Gen.Writer.FrameHeader) :
    R (Gen.Decode.FrameHeader.block_size true h) (Gen.Decode.FrameHeader.block_size false h) := R_refl _
macro_rules | `(tactic| rel_user) => `(tactic| with_reducible apply block_size_R)

theorem frame_run_R (info : StreamInfo) (c : Bool) (bs : List Nat) : R (frame_run true info c bs) (frame_run false info c bs) := by
  unfold frame_run; rel
macro_rules | `(tactic| rel_user) => `(tactic| with_reducible apply frame_run_R)

theorem frame_R (info : StreamInfo) (c : Bool) (bs : List Nat) :
    R (Gen.Parser.frame true info c bs) (Gen.Parser.frame false info c bs) := by
  unfold Gen.Parser.frame frame_pre; rel

theorem stream_info_R (bs : List Nat) : R (stream_info true bs) (stream_info false bs) := by
  unfold stream_info; rel
macro_rules | `(tactic| rel_user) => `(tactic| with_reducible apply stream_info_R)

theorem metadata_block_R (bs : List Nat) : R (metadata_block true bs) (metadata_block false bs) := by
  unfold metadata_block; rel
macro_rules | `(tactic| rel_user) => `(tactic| with_reducible apply metadata_block_R)

theorem frame_pre_R (info : StreamInfo) (c : Bool) : R (frame_pre true info c) (frame_pre false info c) := R_refl _
macro_rules | `(tactic| rel_user) => `(tactic| with_reducible apply frame_pre_R)

theorem stream_R (bs : List Nat) : R (Gen.Parser.stream true bs) (Gen.Parser.stream false bs) := by
  unfold Gen.Parser.stream; rel

theorem residual_R (bs w : Nat) (i : List Bool) : R (Gen.Parser.residual true bs w i) (Gen.Parser.residual false bs w i) := by
  unfold Gen.Parser.residual; rel

theorem frame_header_R (c : Bool) (bs : List Nat) :
    R (Gen.Parser.frame_header true c bs) (Gen.Parser.frame_header false c bs) := by
  unfold Gen.Parser.frame_header; rel

/-! ### release profile = dev profile wherever the dev profile does not panic -/

open C16Gen in
/-- `residual`: block size below 2^32, any bit input -/
theorem C16G_release_eq_residual (bs w : Nat) (i : Bits) (hbs : bs < 2 ^ 32) :
    Gen.Parser.residual false bs w i = Gen.Parser.residual true bs w i :=
  R_eq_of_ne (residual_R bs w i) (C16G_total_residual bs w i hbs)

open C16Gen in
/-- `subframe`: block size below 2^32, 1..=25 bits per sample, any bit input -/
theorem C16G_release_eq_subframe (bs bps : Nat) (i : Bits) (hbs : bs < 2 ^ 32) (h1 : 1 ≤ bps) (h2 : bps ≤ 25) :
    Gen.Parser.subframe false bs bps i = Gen.Parser.subframe true bs bps i :=
  R_eq_of_ne (subframe_R bs bps i) (C16G_total_subframe bs bps i hbs h1 h2)

open C16Gen in
theorem C16G_release_eq_frame_header (c : Bool) (bs : List Nat) (hb : IsBytes bs) :
    Gen.Parser.frame_header false c bs = Gen.Parser.frame_header true c bs :=
  R_eq_of_ne (frame_header_R c bs) (C16G_total_frame_header c bs hb)

open C16Gen in
theorem C16G_release_eq_frame (info : StreamInfo) (c : Bool) (bs : List Nat) (hb : IsBytes bs) (hch : info.channels < 2 ^ 64)
    (h1 : 1 ≤ info.bps) (h2 : info.bps ≤ 24) :
    Gen.Parser.frame false info c bs = Gen.Parser.frame true info c bs :=
  R_eq_of_ne (frame_R info c bs) (C16G_total_frame info c bs hb hch h1 h2)

open C16Gen in
/-- the release build of the generated `frame` never panics (same domain as `C16G_total_frame`) -/
theorem C16G_total_frame_release (info : StreamInfo) (c : Bool) (bs : List Nat) (hb : IsBytes bs) (hch : info.channels < 2 ^ 64)
    (h1 : 1 ≤ info.bps) (h2 : info.bps ≤ 24) : Gen.Parser.frame false info c bs ≠ none := by
  rw [C16G_release_eq_frame info c bs hb hch h1 h2]
  exact C16G_total_frame info c bs hb hch h1 h2

open C16Gen in
/-- For EVERY byte string the release build of the generated `stream` computes exactly what the dev build computes. -/
theorem C16G_release_eq (bs : List Nat) (hb : IsBytes bs) : Gen.Parser.stream false bs = Gen.Parser.stream true bs :=
  R_eq_of_ne (stream_R bs) (C16G_total bs hb)

open C16Gen in
/-- C16 for the release profile: the generated `stream` never returns `none` on any byte string. -/
theorem C16G_total_release (bs : List Nat) (hb : IsBytes bs) : Gen.Parser.stream false bs ≠ none := by
  rw [C16G_release_eq bs hb]
  exact C16G_total bs hb

open C16Gen in
/-- C15 for the release profile. -/
theorem C15G_stream_roundtrip_release (s : Stream) (bs : List Nat) (hb : IsBytes bs)
    (hbits : s.bits rfcCrc8 rfcCrc16 = some (bytesToBits bs)) (hok : Repo.StreamOk s) :
    ∃ g, Gen.Parser.stream false bs = some (.ok ([], g)) ∧ psOfGen g = Repo.PStream.ofStream s ∧
      (psOfGen g).toStream? = some s := by
  rw [C16G_release_eq bs hb]
  exact C15G_stream_roundtrip s bs hb hbits hok

end FlacVerif.C16GenRel
