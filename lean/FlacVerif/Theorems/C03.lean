/-
C03 — STREAMINFO states the true format, sample count and MD5 of the input.
What is proved: which bytes are hashed and which count is stored, for every way of delivering the
samples; the MD5 compression function itself is executable-only (trusted, cross-checked).
-/
import FlacVerif.Model.Encoder
namespace FlacVerif.C03
open FlacVerif

theorem md5Input_append (bps : Nat) (a b : List Int) :
    md5Input bps (a ++ b) = md5Input bps a ++ md5Input bps b := by
  simp [md5Input, List.flatMap_append]

theorem toLeBytes_length (k : Nat) (v : Int) : (Rfc.toLeBytes k v).length = k := by
  simp [Rfc.toLeBytes]

theorem md5Input_length (bps : Nat) (xs : List Int) :
    (md5Input bps xs).length = ((bps + 7) / 8) * xs.length := by
  induction xs with
  | nil => simp [md5Input]
  | cons x xs ih =>
    simp only [md5Input, List.flatMap_cons, List.length_append, toLeBytes_length, List.length_cons] at ih ⊢
    rw [ih, Nat.mul_add, Nat.mul_one, Nat.add_comm]

/-- Integer delivery: after any sequence of blocks, the context has hashed exactly the
little-endian bytes of the concatenated blocks, in order. -/
theorem hashed_fold (bps ch : Nat) (c0 : Ctx) (blocks : List (List Int)) :
    (blocks.foldl (fun c b => c.fillInterleaved bps ch b) c0).hashed = c0.hashed ++ md5Input bps blocks.flatten := by
  induction blocks generalizing c0 with
  | nil => simp [md5Input]
  | cons b bs ih =>
    simp only [List.foldl_cons, List.flatten_cons]
    rw [ih, md5Input_append]
    by_cases hb : b.isEmpty = true
    · have : b = [] := List.isEmpty_iff.mp hb
      subst this
      simp [Ctx.fillInterleaved, md5Input]
    · simp [Ctx.fillInterleaved, hb, List.append_assoc]

/-- The sample count is the number of inter-channel samples delivered, when every block holds
whole inter-channel samples. -/
theorem samples_fold (bps ch : Nat) (hch : 0 < ch) (c0 : Ctx) (blocks : List (List Int))
    (hdiv : ∀ b ∈ blocks, b.length % ch = 0) :
    (blocks.foldl (fun c b => c.fillInterleaved bps ch b) c0).samples = c0.samples + blocks.flatten.length / ch := by
  induction blocks generalizing c0 with
  | nil => simp
  | cons b bs ih =>
    simp only [List.foldl_cons, List.flatten_cons, List.length_append]
    rw [ih _ (fun x hx => hdiv x (by simp [hx]))]
    have hb := hdiv b (by simp)
    have hsplit : (b.length + bs.flatten.length) / ch = b.length / ch + bs.flatten.length / ch := by
      obtain ⟨q, hq⟩ : ∃ q, b.length = ch * q := ⟨b.length / ch, by
        have := Nat.div_add_mod b.length ch; omega⟩
      rw [hq, Nat.mul_add_div hch, Nat.mul_div_cancel_left _ hch]
    by_cases he : b.isEmpty = true
    · have : b = [] := List.isEmpty_iff.mp he
      subst this
      simp [Ctx.fillInterleaved]
    · simp only [Ctx.fillInterleaved, he]
      simp only [Bool.false_eq_true, ↓reduceIte]
      omega

/-- **Delivery independence (any legal split into blocks).** However the input is cut into blocks
of whole inter-channel samples, the hashed bytes and the count are those of the whole input. -/
theorem C03_split_invariant (bps ch : Nat) (hch : 0 < ch) (blocks : List (List Int))
    (hdiv : ∀ b ∈ blocks, b.length % ch = 0) :
    let c := blocks.foldl (fun (c : Ctx) b => c.fillInterleaved bps ch b) (Ctx.mk [] 0 0)
    c.hashed = md5Input bps blocks.flatten ∧ c.samples = blocks.flatten.length / ch := by
  refine ⟨?_, ?_⟩
  · simpa using hashed_fold bps ch (Ctx.mk [] 0 0) blocks
  · simpa using samples_fold bps ch hch (Ctx.mk [] 0 0) blocks hdiv

/-- **Integer vs packed-byte delivery of one block** advance the context identically (C14 shares
this): the byte form of a block is `md5Input` of it. -/
theorem C03_fill_bytes_eq (bps ch : Nat) (hb : 0 < (bps + 7) / 8) (c : Ctx) (block : List Int)
    (hdiv : block.length % ch = 0) :
    c.fillLeBytes ch ((bps + 7) / 8) (md5Input bps block) = c.fillInterleaved bps ch block := by
  by_cases he : block = []
  · subst he; simp [Ctx.fillLeBytes, Ctx.fillInterleaved, md5Input]
  · have hbe : block.isEmpty = false := by cases block <;> simp_all
    have hlen := md5Input_length bps block
    have hne : (md5Input bps block).isEmpty = false := by
      cases h : md5Input bps block with
      | nil =>
        rw [h] at hlen
        have hpos : 0 < block.length := List.length_pos_iff.mpr he
        have : 0 < (bps + 7) / 8 * block.length := Nat.mul_pos hb hpos
        rw [List.length_nil] at hlen; omega
      | cons _ _ => rfl
    simp only [Ctx.fillLeBytes, Ctx.fillInterleaved, hne, hbe, Bool.false_eq_true, ↓reduceIte, hlen]
    congr 1
    obtain ⟨q, hq⟩ : ∃ q, block.length = ch * q := ⟨block.length / ch, by
      have := Nat.div_add_mod block.length ch; omega⟩
    by_cases hc : ch = 0
    · subst hc; simp
    · have hcp : 0 < ch := Nat.pos_of_ne_zero hc
      rw [hq, Nat.mul_div_cancel_left _ hcp]
      have : (bps + 7) / 8 * (ch * q) = ch * ((bps + 7) / 8 * q) := by
        rw [Nat.mul_left_comm]
      rw [this, Nat.mul_div_cancel_left _ hcp, Nat.mul_div_cancel_left _ hb]

/-- Empty input: nothing is hashed (the digest is that of the empty string) and the count is 0. -/
theorem C03_empty (bps ch : Nat) :
    ((Ctx.mk [] 0 0).fillInterleaved bps ch []) = ⟨[], 0, 0⟩ := rfl

/-- Sign extension: the `k` bytes hashed for a sample are the low `k` bytes of its 32-bit
two's-complement form (`v.to_le_bytes()[0..k]`), for 1 ≤ k ≤ 4. -/
theorem C03_le_bytes_prefix (k : Nat) (hk : k ≤ 4) (v : Int) :
    Rfc.toLeBytes k v = (Rfc.toLeBytes 4 v).take k := by
  apply List.ext_getElem
  · simp [Rfc.toLeBytes]; omega
  · intro i h1 h2
    simp only [Rfc.toLeBytes, List.length_map, List.length_range] at h1
    simp only [Rfc.toLeBytes, List.getElem_map, List.getElem_range, List.getElem_take]
    -- byte i of (v mod 2^(8k)) = byte i of (v mod 2^32) for i < k ≤ 4
    have hd : ((2 : Int) ^ (8 * k)) ∣ (2 : Int) ^ (8 * 4) := by
      have : 8 * 4 = 8 * k + (32 - 8 * k) := by omega
      rw [this, Int.pow_add]; exact Int.dvd_mul_right _ _
    have h3 : (v % (2 ^ (8 * 4) : Int)) % (2 ^ (8 * k) : Int) = v % (2 ^ (8 * k) : Int) := Int.emod_emod_of_dvd v hd
    have hnn : 0 ≤ v % (2 ^ (8 * 4) : Int) := Int.emod_nonneg _ (by decide)
    have hp : (0 : Int) ≤ 2 ^ (8 * k) := Int.le_of_lt (Int.pow_pos (by decide))
    have h4 : (v % (2 ^ (8 * k) : Int)).toNat = (v % (2 ^ (8 * 4) : Int)).toNat % 2 ^ (8 * k) := by
      rw [← h3, Int.toNat_emod hnn hp]
      have : ((2 : Int) ^ (8 * k)) = ((2 ^ (8 * k) : Nat) : Int) := by simp
      rw [this, Int.toNat_natCast]
    rw [h4]
    generalize (v % (2 ^ (8 * 4) : Int)).toNat = u
    apply Nat.eq_of_testBit_eq
    intro j
    simp only [Nat.testBit_mod_two_pow, Nat.testBit_shiftRight, show (256 : Nat) = 2 ^ 8 from rfl]
    by_cases hj : j < 8
    · have : 8 * i + j < 8 * k := by omega
      simp [hj, this]
    · simp [hj]

end FlacVerif.C03
