/-
C05 — The multi-thread encoder is deterministic: every interleaving of the protocol of `src/par.rs`
ends with the frames of the single-thread loop, in order, and with the same MD5 input.

Property theorems only. Model: `FlacVerif/Model/Par.lean` (hand model of
`par::encode_with_fixed_block_size`, `feed_fixed_block_size`, `ParFrameBuf`, `ParContext`,
`ParSink`); invariants: `FlacVerif/Lemmas/Par*.lean`. The theorems quantify over every worker count
`W ≥ 1`, every block list, every fault plan and every interleaving of the modelled atomic steps
(`Reaches`). Atomicity of channel operations / mutexes is assumed, the OS scheduler is not modelled.

`p.NonemptyBlocks` (no block read from the source has zero bytes) is needed wherever the hasher is
involved: an empty byte block is the stop token of the md5 channel (see `C06_empty_block_*`).
-/
import FlacVerif.Lemmas.ParFinal
import FlacVerif.Lemmas.ParExamples
import FlacVerif.Lemmas.ParEmptyBlock
namespace FlacVerif
open Par

/-- `Reaches` (inductive: `init`, closed under enabled steps) is exactly "some event list is accepted
by `replay` and leads to the state" — the relation the trace validator computes. -/
theorem C05_reaches_iff_replay (p : Params) (s : State) :
    Reaches p s ↔ ∃ evs, replay p evs = .ok s := Reaches_iff_replay

/-- Fault-free run, any schedule: the result is all `N` frames in order, each encoded from its own
block with its own number, and the hasher was fed the concatenation of all blocks in order. -/
theorem C05_deterministic (p : Params) (hW : 0 < p.W) (hnf : p.readFailAt = none)
    (hv : ∀ b ∈ p.blocks, b.valid) (hne : p.NonemptyBlocks)
    (s : State) (h : Reaches p s) (hf : s.final) :
    s.result = .ok (List.range p.blocks.length) ∧
    s.hashed = (p.blocks.map (·.bytes)).flatten := by
  have hC := InvC.of_reaches h
  have hN := InvNum.of_reaches h
  have hM := InvMd5.of_reaches hne h
  have hF := final_facts hW hC hf
  have hre : s.readErr = false := by
    cases hr : s.readErr with
    | false => rfl
    | true => have := hF.feedEnd.1 hr; rw [hnf] at this; cases this
  have hk := (hF.feedEnd.2 hre).1
  have hseq : seqResult p = .ok (List.range p.blocks.length) := by
    have hsp := (seqLoop_spec p.readFailAt 0 p.blocks p.blocks.length (Nat.le_refl _)
      (by intro j _; rw [hnf]; simp) (Or.inr ⟨rfl, by rw [hnf]; simp⟩)).2
      (by intro j b _ hb; exact hv b (List.mem_of_getElem? hb))
    have := hsp.2 (by rw [hnf]; simp)
    simp [seqResult, seqFrames, this, expFrames_nums, List.range_eq_range']
  refine ⟨(final_result hC hN hF).trans hseq, ?_⟩
  rw [final_hashed hM hF hf, hk, prefixBytes_all]; rfl

/-- The result half of `C05_deterministic` does not need `NonemptyBlocks`. -/
theorem C05_deterministic_result (p : Params) (hW : 0 < p.W) (hnf : p.readFailAt = none)
    (hv : ∀ b ∈ p.blocks, b.valid) (s : State) (h : Reaches p s) (hf : s.final) :
    s.result = .ok (List.range p.blocks.length) := by
  have hC := InvC.of_reaches h
  have hF := final_facts hW hC hf
  have hsp := (seqLoop_spec p.readFailAt 0 p.blocks p.blocks.length (Nat.le_refl _)
    (by intro j _; rw [hnf]; simp) (Or.inr ⟨rfl, by rw [hnf]; simp⟩)).2
    (by intro j b _ hb; exact hv b (List.mem_of_getElem? hb))
  have := hsp.2 (by rw [hnf]; simp)
  rw [final_result hC (InvNum.of_reaches h) hF]
  simp [seqResult, seqFrames, this, expFrames_nums, List.range_eq_range']

/-- The hash half does need it: with an empty first block a complete run exists whose hasher was
stopped by that block and never saw block 1 (`hashed = []` instead of `[7]`). The model mirrors the
code here: `Vec::is_empty` is the hasher's stop test. -/
theorem C05_empty_block_hash_mismatch :
    ∃ s, Reaches Examples.pEmptyBlock2 s ∧ s.final ∧ s.result = .ok [0, 1] ∧ s.hashed = [] ∧
      seqHashed Examples.pEmptyBlock2 = [7] := by
  have h : outcome Examples.pEmptyBlock2 Examples.trEmptyBlock2 = some (.ok [0, 1], []) := by
    decide
  unfold outcome at h
  cases hr : run Examples.pEmptyBlock2 (init Examples.pEmptyBlock2) Examples.trEmptyBlock2 with
  | none => rw [hr] at h; cases h
  | some s =>
    rw [hr] at h
    by_cases hf : s.final
    · simp only [hf, if_true, Option.some.injEq, Prod.mk.injEq] at h
      exact ⟨s, Reaches_of_run Reaches.init hr, hf, h.1, h.2, by decide⟩
    · simp [hf] at h

/-- Same hypotheses: the frames themselves (number and payload), not only their numbers. -/
theorem C05_frames (p : Params) (hW : 0 < p.W) (hnf : p.readFailAt = none)
    (hv : ∀ b ∈ p.blocks, b.valid) (s : State) (h : Reaches p s) (hf : s.final) :
    s.frames = expFrames 0 p.blocks ∧ seqFrames p = .ok (expFrames 0 p.blocks) := by
  have hC := InvC.of_reaches h
  have hN := InvNum.of_reaches h
  have hF := final_facts hW hC hf
  have hre : s.readErr = false := by
    cases hr : s.readErr with
    | false => rfl
    | true => have := hF.feedEnd.1 hr; rw [hnf] at this; cases this
  have hk := (hF.feedEnd.2 hre).1
  have herr : s.errors = [] := by
    cases he : s.errors with
    | nil => rfl
    | cons x l =>
      obtain ⟨n, u⟩ := x
      obtain ⟨_, b, hb, hnone⟩ := hN.errs n u (by simp [he])
      have := hv b (List.mem_of_getElem? hb)
      rw [enc_none hnone] at this; cases this
  refine ⟨final_frames hN hF hk herr, ?_⟩
  have hsp := (seqLoop_spec p.readFailAt 0 p.blocks p.blocks.length (Nat.le_refl _)
    (by intro j _; rw [hnf]; simp) (Or.inr ⟨rfl, by rw [hnf]; simp⟩)).2
    (by intro j b _ hb; exact hv b (List.mem_of_getElem? hb))
  exact hsp.2 (by rw [hnf]; simp)

/-- Any fault plan: two complete runs from the same parameters (different schedules) return the same
value and feed the same bytes to the hasher. "Repeating a run gives identical output." -/
theorem C05_any_two_runs (p : Params) (hW : 0 < p.W) (hne : p.NonemptyBlocks)
    (s₁ s₂ : State) (h₁ : Reaches p s₁) (h₂ : Reaches p s₂) (hf₁ : s₁.final) (hf₂ : s₂.final) :
    s₁.result = s₂.result ∧ s₁.hashed = s₂.hashed := by
  have hC₁ := InvC.of_reaches h₁
  have hC₂ := InvC.of_reaches h₂
  have hF₁ := final_facts hW hC₁ hf₁
  have hF₂ := final_facts hW hC₂ hf₂
  refine ⟨(final_result hC₁ (InvNum.of_reaches h₁) hF₁).trans
    (final_result hC₂ (InvNum.of_reaches h₂) hF₂).symm, ?_⟩
  rw [final_hashed (InvMd5.of_reaches hne h₁) hF₁ hf₁,
    final_hashed (InvMd5.of_reaches hne h₂) hF₂ hf₂]
  -- both runs stopped reading at the same index
  have key : ∀ {a b : State}, InvC p a → InvC p b → FinalFacts p a → FinalFacts p b →
      a.readErr = true → a.k = b.k := by
    intro a b hCa hCb hFa hFb hra
    have hfa := hFa.feedEnd.1 hra
    cases hrb : b.readErr with
    | true =>
      have hfb := hFb.feedEnd.1 hrb
      rw [hfa] at hfb; exact Option.some.inj hfb
    | false =>
      obtain ⟨hkb, hnb⟩ := hFb.feedEnd.2 hrb
      have hle := hCa.kle
      rcases Nat.lt_or_ge a.k b.k with hlt | hge
      · exact absurd hfa (hCb.nofail a.k hlt)
      · have : a.k = b.k := by omega
        exact this
  cases hr₁ : s₁.readErr with
  | true => rw [key hC₁ hC₂ hF₁ hF₂ hr₁]
  | false =>
    cases hr₂ : s₂.readErr with
    | true => rw [← key hC₂ hC₁ hF₂ hF₁ hr₂]
    | false => rw [(hF₁.feedEnd.2 hr₁).1, (hF₂.feedEnd.2 hr₂).1]

/-- The per-buffer mutex is never contended: a buffer held by a worker (from `encode_recv` to
`refill_send`) is never the buffer the main thread has locked, is not queued anywhere, and no two
places hold the same buffer id (token conservation). -/
theorem C05_no_lock_contention (p : Params) (s : State) (h : Reaches p s) (pc : WPc)
    (hpc : pc ∈ s.workers) (id : Nat) (hid : id ∈ pc.hand) :
    s.main.lockedBuf ≠ some id ∧ some id ∉ s.encodeQ ∧ id ∉ s.refillQ ∧ id < 2 * p.W ∧
    (tokens s).count id = 1 := by
  have hT := InvTok.of_reaches h
  obtain ⟨h1, h2, h3, h4⟩ := hT.excl_worker hpc hid
  refine ⟨?_, h2, h1, h4, ?_⟩
  · intro hl
    have : id ∈ s.main.hand := by
      cases hm : s.main <;> simp_all [MPc.lockedBuf, MPc.hand]
    exact h3 this
  · have hle := hT.cnt id
    rw [if_pos h4] at hle
    have : 0 < (tokens s).count id := List.count_pos_iff.2 (by
      simp only [tokens, List.mem_append]
      exact Or.inr (List.mem_flatMap.2 ⟨pc, hpc, hid⟩))
    omega

/-- Every frame number a worker reads from a buffer is the index of the block the buffer holds, and
what it computes is the encoder's value for that block. -/
theorem C05_numbering (p : Params) (s : State) (h : Reaches p s) :
    (∀ n f, (n, f) ∈ s.sink → ∃ b, p.blocks[n]? = some b ∧ enc n b = some f) ∧
    (∀ pc ∈ s.workers, ∀ id n res, (pc = .encoded id n res ∨ pc = .sent id n res) →
      ∃ b, p.blocks[n]? = some b ∧ res = enc n b) := by
  have hN := InvNum.of_reaches h
  refine ⟨fun n f hm => (hN.sink n f hm).2, ?_⟩
  rintro pc hpc id n res (rfl | rfl)
  · exact (hN.workers _ hpc).2
  · exact (hN.workers _ hpc).2

/-! ### non-vacuity: concrete complete runs (`W = 1`, two blocks), checked by the kernel -/

open Par.Examples in
example : ∃ s, Reaches pOk s ∧ s.final ∧ s.result = .ok [0, 1] ∧ s.hashed = [1, 2, 5, 6] := by
  have h : outcome pOk trOk = some (.ok [0, 1], [1, 2, 5, 6]) := by decide
  unfold outcome at h
  cases hr : run pOk (init pOk) trOk with
  | none => rw [hr] at h; cases h
  | some s =>
    rw [hr] at h
    by_cases hf : s.final
    · simp only [hf, if_true, Option.some.injEq, Prod.mk.injEq] at h
      exact ⟨s, Reaches_of_run Reaches.init hr, hf, h.1, h.2⟩
    · simp [hf] at h

open Par.Examples in
example : 0 < pOk.W ∧ pOk.readFailAt = none ∧ (∀ b ∈ pOk.blocks, b.valid) ∧ pOk.NonemptyBlocks := by
  refine ⟨by decide, rfl, by decide, ?_⟩
  intro b hb; simp [pOk, blk] at hb; rcases hb with rfl | rfl <;> simp

end FlacVerif
